#!/usr/bin/env python3
"""Ingest the output of one sub-agent group of a seeded round into /verif/seeded/_incoming/<id>/.
Usage: ingest_round.py <round> <group> <outdir>
<outdir> holds p<k>.diff, d<k>_test.go and notes.md with sections '## p<k> - <Cnn> - title'.
Patches become r<round><group><k>patch.diff, demonstrations r<round><group><k>demo_test.go, and the
notes of the group are appended to _incoming/<id>/notes.md under '(round R, group G)'."""
import os, re, shutil, sys
rnd, grp, out = sys.argv[1], sys.argv[2], sys.argv[3]
notes = open(os.path.join(out, 'notes.md')).read()
inc = os.environ.get('SEED_INC', '/verif/seeded/_incoming')
secs = re.split(r'(?m)^(?=## p\d+ )', notes)
head, secs = secs[0], secs[1:]
byprop = {}
for s in secs:
    m = re.match(r'## p(\d+)\s*-\s*(C\d\d)\s*-\s*(.*)', s)
    if not m:
        print('cannot parse heading:', s[:80]); continue
    byprop.setdefault(m.group(2), []).append((m.group(1), s))
for pid, items in byprop.items():
    d = os.path.join(inc, pid)
    os.makedirs(d, exist_ok=True)
    with open(os.path.join(d, 'notes.md'), 'a') as f:
        f.write(f'\n# (round {rnd}, group {grp}) patches of this group are named r{rnd}{grp}<k>patch.diff here; p<k>.diff in the text below\n\n')
        f.write(re.sub(r'(?m)^# \(round.*\n', '', head))
        for k, s in items:
            f.write('\n' + s)
    for k, s in items:
        shutil.copy(os.path.join(out, f'p{k}.diff'), os.path.join(d, f'r{rnd}{grp}{k}patch.diff'))
        shutil.copy(os.path.join(out, f'd{k}_test.go'), os.path.join(d, f'r{rnd}{grp}{k}demo_test.go'))
    print(pid, [k for k, _ in items])
