#!/usr/bin/env python3
"""Generates /repo/hseq/zz_contracts_verif.go: hand-written contracts plus the positional
boiler-plate for New1..New9 and FMap1..FMap9 (from the property statement: "New1..9 look the
N types up in the full listing, FMapN hands the i-th entry to the i-th function")."""
import string
U = string.ascii_uppercase
L = string.ascii_lowercase
out = ['''//go:build verif

// Contracts for hseq (properties C03, C01, C02). Comment-only file: see /verif/DESIGN.md
// sections 2.1, 3 and 6/C03. reflect.Type is a value of the Layout datatype; flatten is the
// depth-first listing of a struct's fields (spec template Hseq in /verif/specs/list.smt2).

package hseq

//@ fileprops C03 C01 C02

// the name of an entry is the first comma-separated part of its hseq tag, else the field name
//@ func (Type) FieldKey
//@   pure
//@   ensures result == fieldkey(self)

// unfold appends the listing of cat's fields: one entry per field in declaration order, an
// embedded struct (by value or by pointer) followed by its own fields, consecutive IDs, root
// offsets accumulated along value embedding
//@ func unfold
//@   opt slices=owned
//@   opt overflow=off
//@   opt lemmas=drop_nth,drop_len
//@   ghost seq0 := seq
//@   panics_when !isstruct(cat)
//@   ensures listing: result == flatten(fieldsof(cat), offset, seq0)
//@   loop 0 invariant 0 <= i && i <= len(fieldsof(cat))
//@   loop 0 invariant flatten(drop(i, fieldsof(cat)), offset, seq) == flatten(fieldsof(cat), offset, seq0)
//@   loop 0 decreases len(fieldsof(cat)) - i

// New lists all fields of T (of *T's element), or the entries of the requested names in the
// requested order; it fails loudly for a non-struct or an unknown name
//@ func New
//@   opt overflow=off
//@   opt lemmas=nth_upd,len_upd,drop_nth
//@   ghost cat := pureof(rtypeof(T))
//@   ghost all := flatten(fieldsof(pureof(rtypeof(T))), 0, [])
//@   panics_when !isstruct(cat) || !allhave(all, names)
//@   ensures full_listing: len(names) == 0 ==> result == all
//@   ensures selection_keeps_requested_order: len(names) > 0 ==> len(result) == len(names) && (forall j Int :: 0 <= j && j < len(names) ==> result[j] == firstname(all, names[j]))
//@   loop 0 invariant seq == all && len(nseq) == len(names) && idx + len(rest) == len(names) && rest == drop(idx, names) && allhave(all, names) == allhave(all, rest)
//@   loop 0 invariant forall j Int :: 0 <= j && j < idx ==> nseq[j] == firstname(all, names[j])

// lookups return the first matching entry of the listing or fail loudly
//@ func ForType
//@   panics_when !hastype(seq, rtypeof(A))
//@   ensures first_entry_of_that_type: result == firsttype(seq, rtypeof(A))
//@   loop 0 invariant hastype(rest, rtypeof(A)) == hastype(seq, rtypeof(A)) && (hastype(seq, rtypeof(A)) ==> firsttype(rest, rtypeof(A)) == firsttype(seq, rtypeof(A)))

//@ func ForName
//@   panics_when !hasname(seq, field)
//@   ensures first_entry_of_that_name: result == firstname(seq, field)
//@   loop 0 invariant hasname(rest, field) == hasname(seq, field) && (hasname(seq, field) ==> firstname(rest, field) == firstname(seq, field))

//@ func ForNameMaybe
//@   ensures reports_absence: result1 == hasname(seq, field)
//@   ensures first_entry_of_that_name: result1 ==> result == firstname(seq, field)
//@   loop 0 invariant hasname(rest, field) == hasname(seq, field) && (hasname(seq, field) ==> firstname(rest, field) == firstname(seq, field))

//@ func FMap
//@   opt overflow=off
//@   opt lemmas=nth_upd,len_upd,drop_nth
//@   ensures one_result_per_entry_in_order: len(result) == len(seq) && (forall j Int :: 0 <= j && j < len(seq) ==> result[j] == app(f, seq[j]))
//@   loop 0 invariant len(val) == len(seq) && idx + len(rest) == len(seq) && rest == drop(idx, seq) && (forall j Int :: 0 <= j && j < idx ==> val[j] == app(f, seq[j]))
''']
for n in range(1, 10):
    ts = U[:n]
    pw = ' || '.join('!hastype(all, rtypeof(%s))' % t for t in ts)
    els = ', '.join('firsttype(all, rtypeof(%s))' % t for t in ts)
    out.append('''//@ func New%d
//@   ghost all := flatten(fieldsof(pureof(rtypeof(T))), 0, [])
//@   panics_when !isstruct(pureof(rtypeof(T))) || %s
//@   ensures one_entry_per_requested_type_in_order: result == [%s]
''' % (n, pw, els))
for n in range(1, 10):
    fs = ['f' + L[i] for i in range(n)]
    ens = ' && '.join('%s == app($%d, $1[%d])' % ('result' if i == 0 else 'result%d' % i, i + 2, i) for i in range(n))
    out.append('''//@ func FMap%d
//@   inline
//@   requires len(ts) >= %d
//@   ensures ith_entry_to_ith_function: %s
''' % (n, n, ens))
open('/repo/hseq/zz_contracts_verif.go', 'w').write('\n'.join(out))
