#!/bin/sh
# probe_seeds.sh ID... : which seeded changes does the probe corpus alone (bounded testing on the real code) notice?
for id in "$@"; do
  for p in /verif/seeded/$id/*.diff; do
    s=$(mktemp -d /tmp/ps-XXXXXX)
    cp -r /repo $s/repo; rm -rf $s/repo/.git
    if ! (cd $s/repo && git apply --whitespace=nowarn $p 2>/dev/null); then echo "$id $(basename $p): does not apply"; rm -rf $s; continue; fi
    out=$(/verif/bin/govc probes -property $id -repo $s/repo 2>&1)
    if echo "$out" | grep -q "1/1 runs failed"; then
      if echo "$out" | grep -q "build failed"; then echo "$id $(basename $p): probe-build-failed"; else echo "$id $(basename $p): PROBE-CATCHES"; fi
    else echo "$id $(basename $p): probes-pass"; fi
    rm -rf $s
  done
done
