#!/usr/bin/env python3
"""Confirm seeded changes: for every patch under /verif/seeded/_incoming/<id>/ build a scratch
worktree of /repo HEAD, check that each demonstration passes on the clean tree, fails with the
patch, that the module's own test suite still passes with the patch, and whether the property
check (govc -repo <worktree>) reports a violation. Writes /verif/seeded/_incoming/<id>/confirm.json.
Usage: confirm_seeded.py C05 [C06 ...]"""
import json, os, subprocess, sys, shutil, glob, re

ENV = dict(os.environ, GOFLAGS="-mod=mod", GOPROXY="off")
PKGDIR = {"hseq_test": "hseq", "optics_test": "optics", "pipe_test": "pipe", "fork_test": "pipe/fork",
          "pair_test": "trait/pair", "duct_test": "duct", "monoid_test": "pure/monoid", "ord_test": "pure/ord", "eq_test": "pure/eq", "semigroup_test": "pure/semigroup",
          "skiplist_test": "internal/maplike/skiplist", "pure_test": "internal/pipe",
          "slice_test": "internal/seq/slice", "list_test": "internal/seq/list"}
MODULE = {"hseq": "hseq", "optics": "optics", "pipe": "pipe", "pipe/fork": "pipe", "trait/pair": "trait", "trait/seq": "trait",
          "duct": "duct", "pure/monoid": "pure", "pure/ord": "pure", "pure/eq": "pure", "pure/semigroup": "pure"}

def sh(cmd, cwd=None, timeout=1500):
    p = subprocess.run(cmd, shell=True, cwd=cwd, env=ENV, stdout=subprocess.PIPE, stderr=subprocess.STDOUT, text=True, timeout=timeout)
    return p.returncode, p.stdout

def demo_dir(pid, demo):
    pkg = re.search(r'^package (\w+)', open(demo).read(), re.M).group(1)
    if pkg == "seq_test":
        return "internal/seq" if pid == "C19" else "trait/seq"
    return PKGDIR[pkg]

def stage_internal(wt, scratch):
    shutil.rmtree(scratch, ignore_errors=True)
    os.makedirs(scratch)
    for src, dst in (("internal/seq", "seq"), ("internal/maplike", "maplike"), ("internal/pipe", "internalpipe"), ("pure", "pure")):
        shutil.copytree(os.path.join(wt, src), os.path.join(scratch, dst))
    for f in ("pure/go.mod", "pure/go.sum"):
        p = os.path.join(scratch, f)
        if os.path.exists(p): os.remove(p)
    shutil.copy(os.path.join(wt, "pure/go.sum"), os.path.join(scratch, "go.sum"))
    # internal/pipe/pipe.go is `package pure`: demos written as external tests of pure need it there
    shutil.copy(os.path.join(wt, "internal/pipe/pipe.go"), os.path.join(scratch, "pure", "pipe.go"))
    open(os.path.join(scratch, "go.mod"), "w").write(
        'module github.com/fogfish/golem\n\ngo 1.20\n\nrequire (\n\tgithub.com/fogfish/it v1.0.0\n\tgithub.com/fogfish/it/v2 v2.0.1\n)\n')

def run_demo(pid, wt, demo, d):
    tests = re.findall(r'^func (Test\w+)', open(demo).read(), re.M)
    rx = "^(" + "|".join(tests) + ")$"
    if d.startswith("internal/"):
        scratch = wt + "-stage"
        stage_internal(wt, scratch)
        sd = {"internal/seq": "seq", "internal/seq/slice": "seq/slice", "internal/seq/list": "seq/list", "internal/maplike/skiplist": "maplike/skiplist", "internal/pipe": "internalpipe"}[d]
        if pid == "C20":
            sd = "pure"  # the demo of C20 is an external test of pure using internal/pipe through it
        shutil.copy(demo, os.path.join(scratch, sd, "zz_demo_test.go"))
        rc, out = sh(f"go test -vet=off -count=1 -timeout 120s -run '{rx}' ./{sd}/", cwd=scratch)
        shutil.rmtree(scratch, ignore_errors=True)
        return rc, out
    tgt = os.path.join(wt, d, "zz_demo_test.go")
    shutil.copy(demo, tgt)
    try:
        rc, out = sh(f"go test -vet=off -count=1 -timeout 120s -run '{rx}' .", cwd=os.path.join(wt, d))
    finally:
        os.remove(tgt)
    return rc, out

def suite(wt, d):
    if d.startswith("internal/"):
        return 0, "(package is outside every module: no baseline suite)"
    return sh("go test -vet=off -count=1 -timeout 25m ./...", cwd=os.path.join(wt, MODULE[d]))

def main():
    for pid in sys.argv[1:]:
        inc = f"{os.environ.get('SEED_INC','/verif/seeded/_incoming')}/{pid}"
        wt = f"/tmp/cw{os.environ.get('SEED_TAG','')}-{pid}"
        sh(f"git -C /repo worktree remove --force {wt}")
        rc, out = sh(f"git -C /repo worktree add --detach {wt} HEAD")
        assert rc == 0, out
        res = {"property": pid, "repo_head": sh("git -C /repo rev-parse HEAD")[1].strip(), "patches": []}
        try:
            demos = sorted(glob.glob(inc + "/*_test.go"))
            base = {}
            for dm in demos:
                rc, out = run_demo(pid, wt, dm, demo_dir(pid, dm))
                base[os.path.basename(dm)] = "pass" if rc == 0 else "FAIL:" + out[-400:]
            res["demos_on_clean_tree"] = base
            pats = sorted(glob.glob(inc + "/*.diff"))
            for pt in pats:
                name = os.path.basename(pt)
                rc, out = sh(f"git apply --check {pt}", cwd=wt)
                if rc != 0:
                    res["patches"].append({"patch": name, "applies": False, "why": out[-300:]})
                    continue
                sh(f"git apply {pt}", cwd=wt)
                files = sh("git diff --name-only", cwd=wt)[1].split() or sh("git ls-files --others --exclude-standard", cwd=wt)[1].split()
                entry = {"patch": name, "applies": True, "files": files, "demos": {}}
                for dm in demos:
                    rc, out = run_demo(pid, wt, dm, demo_dir(pid, dm))
                    entry["demos"][os.path.basename(dm)] = "pass" if rc == 0 else "fail"
                    if rc != 0:
                        entry.setdefault("demo_output", {})[os.path.basename(dm)] = out[-600:]
                d0 = os.path.dirname(files[0])
                rc, out = suite(wt, d0)
                entry["suite"] = "pass" if rc == 0 else "FAIL:" + out[-600:]
                rc, out = sh(f"/verif/bin/govc check -property {pid} -repo {wt} -noprobe -outdir {wt}-out", cwd="/verif", timeout=900)
                entry["check_exit"] = rc
                entry["check_failed_obligations"] = sorted(set(re.findall(r'^FAILED (\S+)', out, re.M)))[:12]
                entry["check_unverifiable"] = re.findall(r'^UNVERIFIABLE: (.*)', out, re.M)[:4]
                res["patches"].append(entry)
                sh("git checkout -- . && git clean -fdq", cwd=wt)
        finally:
            sh(f"git -C /repo worktree remove --force {wt}")
            shutil.rmtree(wt + "-stage", ignore_errors=True)
            shutil.rmtree(wt + "-out", ignore_errors=True)
        json.dump(res, open(inc + "/confirm.json", "w"), indent=1)
        print(pid, "done")
main()
