#!/bin/sh
# run every claimed check (quick tier by default) and print the summary line of each
tier=${1:-quick}
cd /verif
for id in $(python3 -c "import json;print(' '.join(p['property_id'] for p in json.load(open('/verif/MANIFEST.json'))['checks']))"); do
  /verif/bin/govc check -property $id -tier $tier 2>&1 | grep -E "^(VIOLATION|KNOWN-FINDING|$id )" | grep -v "^KNOWN-FINDING" ; echo "  exit=$?" >/dev/null
done
