#!/usr/bin/env python3
"""Writes `loops N` (number of loops of the body on the current tree) into every contract unit that has loop
clauses: `govc loops` says where. Idempotent; run after regenerating a contract file."""
import subprocess, collections
out = subprocess.run(['/verif/bin/govc', 'loops'], capture_output=True, text=True).stdout
byfile = collections.defaultdict(list)
for ln in out.splitlines():
    f = ln.split('\t')
    if len(f) >= 3 and f[0].endswith('.go'):
        byfile[f[0]].append((int(f[1]), int(f[2])))
for path, items in byfile.items():
    lines = open(path).read().split('\n')
    for line, n in sorted(set(items), reverse=True):
        i = line - 1
        head = lines[i]
        indent = '//@   ' if head.startswith('//@ func') else '//@     '
        new = f'{indent}loops {n}'
        if i + 1 < len(lines) and lines[i + 1].strip().startswith('//@') and lines[i + 1].replace('//@', '').strip().startswith('loops '):
            lines[i + 1] = new
        else:
            lines.insert(i + 1, new)
    open(path, 'w').write('\n'.join(lines))
    print(path, len(set(items)))
