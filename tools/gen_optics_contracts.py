#!/usr/bin/env python3
"""Generates /repo/optics/zz_contracts_verif.go: the hand-written contracts of the optics
package plus the positional boiler-plate for Lens2..Lens9 / shape2..shape9, written from the
property statement ("a ShapeN lens reads and writes its N fields positionally exactly as its N
component lenses would")."""
import string, sys
HEAD = open('/verif/tools/optics_contracts_head.txt').read()
out = [HEAD]
L = string.ascii_lowercase
U = string.ascii_uppercase
for n in range(2, 10):
    ts = [U[i] for i in range(n)]          # A, B, ...
    fs = [L[i] for i in range(n)]          # a, b, ...
    out.append('//@ interface Lens%d' % n)
    for i in range(n):
        out.append('//@   ghostmethod get%d(s S) : %s' % (i + 1, ts[i]))
    out.append('//@   ghostmethod put(s S, %s) : S' % ', '.join('v%d %s' % (i + 1, ts[i]) for i in range(n)))
    out.append('//@   method Get')
    out.append('//@     requires $1 != nil')
    for i in range(n):
        r = 'result' if i == 0 else 'result%d' % i
        out.append('//@     ensures reads_component_%d: %s == self.get%d(deref($1))' % (i + 1, r, i + 1))
    out.append('//@   method Put')
    out.append('//@     requires $1 != nil')
    out.append('//@     modifies deref($1)')
    out.append('//@     ensures same_pointer: result == $1')
    out.append('//@     ensures writes_components: deref($1) == self.put(old(deref($1)), %s)' % ', '.join('$%d' % (i + 2) for i in range(n)))
    out.append('')
    out.append('//@ type shape%d implements Lens%d' % (n, n))
    out.append('//@   objinv %s' % ' && '.join('self.%s != nil' % f for f in fs))
    for i in range(n):
        out.append('//@   model get%d(self, s) = self.%s.get(s)' % (i + 1, fs[i]))
    # put(s, v1..vn) = a.put(b.put(... n.put(s, vn) ..., v2), v1)
    t = 's'
    for i in reversed(range(n)):
        t = 'self.%s.put(%s, v%d)' % (fs[i], t, i + 1)
    out.append('//@   model put(self, s, %s) = %s' % (', '.join('v%d' % (i + 1) for i in range(n)), t))
    out.append('')
    # the constructor: component k is the field lens ForProductN derives for position k
    out.append('//@ func ForShape%d' % n)
    out.append('//@   props C01 C04')
    out.append('//@   opt overflow=off')
    out.append('//@   opt lemmas=nth_take,len_take')
    out.append('//@   ghost all := flatten(fieldsof(pureof(rtypeof(T))), 0, [])')
    for i in range(n):
        out.append('//@   ghost off%d := ite(len(attr) == 0, loc(firsttype(all, rtypeof(%s))), loc(firstname(all, attr[%d])))' % (i + 1, ts[i], i))
    out.append('//@   may_panic_when true')
    out.append('//@   ensures result != nil')
    for i in range(n):
        out.append('//@   ensures component_%d_is_the_field_in_position_%d: forall s T :: result.get%d(s) == fget(s, off%d, %s)' % (i + 1, i + 1, i + 1, i + 1, ts[i]))
    t = 's'
    for i in reversed(range(n)):
        t = 'fput(%s, off%d, v%d)' % (t, i + 1, i + 1)
    out.append('//@   ensures writes_every_component_into_its_field: forall s T, %s :: result.put(s, %s) == %s' % (', '.join('v%d %s' % (i + 1, ts[i]) for i in range(n)), ', '.join('v%d' % (i + 1) for i in range(n)), t))
    out.append('')
open('/repo/optics/zz_contracts_verif.go', 'w').write('\n'.join(out))
