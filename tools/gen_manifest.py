#!/usr/bin/env python3
"""Generates /verif/MANIFEST.json from the table below (kept in one place so that the
manifest is always valid and current)."""
import json, subprocess

PIPE_NOTE = 'Trusted: as C20 plus Go channel semantics as axioms (FIFO, no loss or duplication, each value to exactly one receiver, close observed after buffered values; what a goroutine has received is a prefix of what will ever be delivered); the contracts are goroutine-local: every receive result and select choice is a demonic choice, so the proved trace facts hold for every schedule and capacity, but the step from sent(out) to what the consumer observes is the channel axiom. Liveness proper (closes/exits/never blocks) is not decided: checked instead are close-on-every-exit-path, releasable blocking operations (cancel arm, default, or receive from an input), slot tokens for bare sends, and cancellation being observed in every iteration of an unbounded loop; the termination argument from these conditions is not machine-checked. User functions are deterministic uninterpreted functions of the element (a failure depends on the value, not on the position).'

REFL = 'Trusted: as C20 plus reflect reports the true declaration and layout (reflect.Type is modelled as a finite algebraic datatype: struct with field list, pointer, slice, other; recursive types through embedded pointers are outside it); StructTag.Get and strings.Split are uninterpreted; '

CHECKS = {
 "C20": dict(
   text="Proof: each of Pipe, Pipe3..Pipe20 and the closure it returns is verified against the composition term f_N(..f_1(a)) and the ghost call trace [f_1 a, f_2 r_1, ...] written positionally from the property; the closure must not write captured state. All obligations discharged by SMT for all arguments, no bound.",
   note="Trusted: Go->VC translation of /verif/engine, SMT solvers, user functions are pure uninterpreted functions that do not panic; function values supplied by callers are non-nil.",
   tech="contract-based deductive verification: symbolic execution VC generator over go/ast+go/types, z3/cvc5 portfolio", ref="6/C20"),
 "C17": dict(
   text="Proof: every method of eq, ord, From, ContraMap, monoid and semigroup.From is verified against the model the property gives it (==, built-in <, wrapped function with arguments in order, base instance on projections); monoid.From/FromOp against Empty/Combine postconditions; the package-level instances Int/String are checked to be values of the verified types; order/equivalence laws are lemmas over the models. Integer arithmetic would carry overflow obligations.",
   note="Trusted: as C20; < on an uninterpreted ordered sort stands for the built-in order of ints and strings (strict total order axioms; floats are outside the property).",
   tech="contract-based deductive verification: interface method models, behavioural-subtyping obligations, SMT lemmas", ref="6/C17"),
 "C19": dict(
   text="Proof: seq.Seq[F_,A] is given one abstract contract (element list elems(s), representation invariant wf(s)); every method of list.Trait and slice.Trait is verified against it (behavioural subtyping) and Foldable.Fold against the left fold from Empty() using only the interface contract, with loop invariants and decreases; list lemmas used are re-proved by induction (cvc5 --quant-ind) on every run. Persistence is a side condition of the memory models: a store into an ADT cell or an append/store to a non-fresh slice fails a model: obligation.",
   note="Trusted: as C20; linked-list cells are modelled as an algebraic datatype and slices as mathematical sequences (side conditions checked syntactically on every run); integer overflow of the length field is not checked (would need 2^63 elements).",
   tech="contract-based deductive verification: ADT/sequence memory abstractions with checked side conditions, interface refinement, inductive lemma library", ref="6/C19"),
 "C18": dict(
   text="Proof: the skip list has ghost state live (its set of nodes), dom/view (the abstract map) and nodeof; the representation invariant skinv is first order over the keys themselves: every node has rank in [1,levels], every finger points to a live node of sufficient rank with a strictly larger key, no node of rank > l lies strictly between a node and its level-l finger (so each level is a sorted sub-chain of the level below and level 0 enumerates exactly the live nodes), keys are unique and the abstract map is the key/value content of the live nodes. New is verified to establish skinv with the empty map for any total order; search and skip against 'the least node not smaller than the key' and the per-level predecessor path (loop invariants on both nested loops); mkNode is verified to return a fresh node of some rank in [1,levels] whatever the random source yields; Get, Put and Remove are verified to preserve skinv and to answer and update (dom, view) exactly as a map does (Put overwrites, Get/Remove return the zero value for absent keys), for every rank mkNode may return: the loop invariants of Put and Remove describe the fingers of every node after k levels were relinked. The history-level statement is the induction over these per-operation contracts. The printed form follows from the invariant (fingers only to larger keys; level 0 chain = live keys ascending); String()'s walk is under contract (every visited node is the head or a live node, index 0 in range, the walk advances), its formatting (fmt, bytes.Buffer, the node printer) is not.",
   note="Trusted: as C20; probability (math.Log10/Pow: levels >= 1, len(p) = levels+1) is a trusted contract; mkNode is verified for every value of the random source with floating point operations uninterpreted (which is how the rank-0 defect, fixed in 1db9f67, was found); fingers/path slices are modelled as arrays owned by their node (each comes from its own make and is never re-sliced or shared: syntactic side condition), the reusable path buffer as a value rewritten by skip at every level before use; the comparison trait is a pure total function (no state); reachability (cover) queries over the quantified invariant are undecided by the solvers - the contracts are shown non-vacuous by the must-fail corpus instead; the node printer (*tSkipNode).String is a trusted pure contract; formatting is not modelled.",
   tech="contract-based deductive verification: ghost fields, first-order representation invariant over a heap of nodes with array-valued finger fields, two-state loop invariants", ref="6/C18"),
 "C14": dict(
   text="Proof: seq.Seq[T] carries abstract state view (list from the current element on) and done; every iterator type (element, seqOf, takeWhile, filter, fmap, plus, join) is verified against the Value/Next contract through a model clause and an object invariant (behavioural subtyping, promoted methods included); every constructor is verified to return an iterator whose list is the list function (takew, dropw, filter, map, ++, flatmap) of its arguments' lists, nil iff empty; ForEach against a ghost call trace (visits in order, stops with the first error). Loops carry invariants and decreases clauses. Since each combinator is proved against the interface contract only, trees of any depth are covered. Source slices: only re-slicing is within the sequence model, any store fails a model: obligation.",
   note="Trusted: as C20; iterators handed to a constructor are owned by it afterwards (tree-shaped expressions, no sharing); flat-map functions return fresh unshared iterators or nil with a deterministic list (rhsview); frame conditions (a method changes only its own object and its children) are assumed, not checked.",
   tech="contract-based deductive verification: interface abstract state, model clauses, object invariants, loop invariants over recursive list spec functions", ref="6/C14"),
 "C15": dict(
   text="Proof: as C14 with abstract state kv, the list of (key, value) pairs; Key() and Value() are fst/snd of the same head; predicates and join functions are applied to (fst, snd) in that order; Map is verified against mapv (values changed, keys kept); ToSeq/FromSeq against flat-maps between pair lists and plain lists using the trait/seq interface contract.",
   note="Trusted: as C14.",
   tech="contract-based deductive verification: interface abstract state, model clauses, object invariants, loop invariants over recursive list spec functions", ref="6/C15"),
 "C04": dict(
   text="Proof: Lens[S,A] is a pair of abstract functions get/put of the instance; Get/Put contracts say what is read and that *s becomes put(*s,a) with the same pointer returned and nothing else modified. join, fmap (Getter), cmap (Setter), codec (BiMap), lensM, shape2..9 (against Lens2..9, positionally) and iso/morphism (against Isomorphism, loop invariant over a fold that skips nil entries) are verified against these contracts through model clauses; constructors are verified to return instances with those models; the lens laws for Join and BiMap and the Forward/Inverse round trip are SMT lemmas over the models (lawful components => lawful composite).",
   note="Trusted: as C20; conversions in BiMapS/B/I/F are uninterpreted (their being mutually inverse is the hypothesis of the bimap lemmas); maps are total SMT arrays (a nil map is not modelled); the morphism round-trip lemma is stated for one iso - for several isos it needs pairwise independent target foci (DESIGN section 7); ForProductN/ForShapeN constructors belong to C01/C02.",
   tech="contract-based deductive verification: ghost-method models of interface instances, behavioural subtyping, SMT lemmas over the models", ref="6/C04"),
 "C05": dict(
   text="Local proof + channel axioms: each stage goroutine (Map, FMap, Filter, Take, TakeWhile, Partition, Fold, ForEach, Void) and Seq/ToSeq is verified against loop invariants sent(out) = listfunction(rcvd(in)) over snoc traces (tmapok, tflat, tfilter/tfilternot, all-kept prefix, left fold from Empty()) and postconditions that, without cancel, the input was drained, the equality holds, and every created channel is closed exactly once with the send/close permission; Take forwards what it consumes, consumes at most n for every n >= 0 and stops early only at end of input. Capacities do not appear.",
   note=PIPE_NOTE + " FMap relies on the stated arrow contract (the arrow sends exactly its image on the channel it is given). ForEach/Void: 'one visit per element' is structural (one Apply per received element), not a separate trace obligation.",
   tech="contract-based deductive verification: goroutine-local ghost traces, permission ghost state, loop invariants over recursive trace functions", ref="6/C05, 4"),
 "C06": dict(
   text="Local proof + channel axioms for all stage goroutines incl. Emit, Unfold, Join, Throttling, StdErr and the four catch implementations: no send without permission or after own close, close exactly once on every exit path (deferred closes expanded), no library panic (nil, bounds, negative capacity under the stated preconditions), delivered-is-a-prefix of the uncancelled result on every exit (with monotonicity lemmas proved by induction each run), and the progress conditions of DESIGN 4.3. One known finding: Fold delivers a partial fold on cancel.",
   note=PIPE_NOTE, cat="other",
   tech="contract-based deductive verification: channel permission protocol, prefix invariants, progress conditions", ref="6/C06, 4.3"),
 "C07": dict(
   text="Local proof + channel axioms: the F/FF interface contracts carry a ghost mode (failfast / try); pure, try, puref, tryf are verified against errch (fail-fast error channel has a free slot) and catch (fail-fast: sends and returns false; try: sends and returns true or observes cancel). Map, FMap, Emit, Unfold are verified for both modes at once: values = results of succeeding elements in order, errors = errors of failing elements in order, fail-fast stops right after the first failing element with exactly that error, both channels closed; bare error sends are justified by slot tokens.",
   note=PIPE_NOTE,
   tech="contract-based deductive verification: interface contracts with ghost mode, trace invariants split by the failure predicate", ref="6/C07"),
 "C11": dict(
   text="Local proof + channel axioms: Unfold: sent(out) = [seed, f seed, ...] (titer) with the loop-carried seed = f^k(seed0); Emit: sent(out)/sent(exx) are the successes/failures of f over 0..i-1, at most one application per completed Sleep (i <= sleeps, |sent| <= sleeps at every loop head and exit); both close on every exit, exit only on cancel or first fail-fast error, and every iteration observes cancellation.",
   note=PIPE_NOTE + " Not decided: 'a consumer that keeps up receives one value per tick' (needs an upper bound on Sleep). Integer overflow of the Emit counter is not checked.",
   tech="contract-based deductive verification: trace invariants with ghost tick counter", ref="6/C11"),
 "C12": dict(
   text="Local proof + channel axioms: each copier forwards exactly what it received from its own input, in order (prefix under cancel), and calls Done exactly once on every exit; the spawner adds len(in), spawns one copier per input holding one send share (loop invariant), the closer is spawned after all copiers with Add total = spawned and closes only after Wait; no goroutine writes a captured variable another one can access. Zero inputs: the closer closes at once.",
   note=PIPE_NOTE + " sync.WaitGroup semantics are assumed (Wait returns after as many Done calls as were Added).",
   tech="contract-based deductive verification: WaitGroup/share permission protocol, per-goroutine trace invariants, race check by ownership", ref="6/C12, 4.2"),
 "C13": dict(
   text="Local proof of the mechanism: the data goroutine forwards every element once, in order, after taking one token per element (until the pacer stops) and closes out; the pacer sends exactly ops tokens per completed interval wait (|sent(ctl)| = sleeps*ops + i), the token channel has capacity ops, it exits and closes only on cancel.",
   note=PIPE_NOTE + " NOT decided by this family: the window bound 2*ops+1+c and the latency clause (timed counts relating two goroutines); they follow from the mechanism contracts by a pen-and-paper argument recorded in DESIGN.md, which is not evidence. The directed probe measures the burst bound on the real code when an obligation fails.", cat="other",
   tech="contract-based deductive verification of the pacing mechanism (tokens per interval, token per element)", ref="6/C13, 7"),
 "C09": dict(
   text="Local proof + channel axioms for fork.Map, FMap, Filter, Partition, ForEach, Void (and Fold): per worker the sequential stage's trace invariant over what that worker received (each received element applied once); the permission protocol: Add(par), exactly par workers spawned (loop invariant), each holding one send share of every output and one buffer slot of the capacity-par error channel, one Done on every exit path, the closer spawned after all workers with Add total = spawned, close only after Wait and exactly once; no worker writes a captured variable (race by ownership). Delegating stages are checked against the pipe contracts.",
   note=PIPE_NOTE + " The step from per-worker traces to the multiset the consumer sees (workers' inputs partition what was sent on the shared input) is the channel axiom. sync.WaitGroup semantics assumed. Overflow of the spawn counter is not checked.",
   tech="contract-based deductive verification: WaitGroup/share/slot permission protocol, per-worker trace invariants, race check by ownership", ref="6/C09, 4.2"),
 "C10": dict(
   text="Local proof + channel axioms + algebra lemmas: each fork.Fold worker folds what it received starting from Empty() and hands over exactly one partial result (slot token on the capacity-par channel); the collector, after Wait, receives exactly par partial results and combines them starting from Empty() (loop invariant), sends one value and closes both channels. That the combination of partial folds of any distribution of the elements equals the sequential left fold for a commutative monoid is proved as SMT lemmas by structural induction (fold of concatenation, invariance under chunk order and adjacent swaps).",
   note=PIPE_NOTE + " A genuine defect was found and repaired (collector started from the zero value instead of Empty()), see KNOWN_FINDINGS.json.",
   tech="contract-based deductive verification: per-goroutine fold invariants, slot tokens, inductive algebra lemmas (cvc5 --quant-ind)", ref="6/C10"),
 "C08": dict(
   text="Proof of the queue (heap model): newq, enq, deq, head, emit are verified against ghost fields (node array, offset, length, value list) tied to the linked structure by a quantified representation invariant (link order, distinctness, allocation, not pooled, cell contents = abstract list): enq appends at the back, deq removes the front, head/emit agree with emptiness. Local proof + channel axioms of the pump: loop invariant rcvd(in) = sent(eg) followed by the queue contents, every exit flushes the queue, drains the send side, closes the receive side once and never closes a channel already observed closed; every iteration offers the receive arm and observes cancellation. Two genuine defects were found by these obligations and repaired (see KNOWN_FINDINGS.json).",
   note=PIPE_NOTE + " sync.Pool is modelled by its contract (Get returns a new node or a pooled one that is not in use). 'A send never waits' is a liveness statement and is not decided; the flush sends after cancel are blocking by design (delivery) and exempt from the slot-token condition. A close by the sender racing with the pump's own close on cancel is outside the goroutine-local model.",
   tech="contract-based deductive verification: ghost fields + quantified representation invariant over a heap model; goroutine-local trace invariant for the pump", ref="6/C08"),
 "C03": dict(
   text="Proof over the reflect layout axiomatisation: hseq.unfold is verified (loop invariant, recursive call by contract) to produce exactly flatten(fields, offset, acc) - the depth-first listing with embedded structs (by value or pointer) followed by their fields, IDs equal to positions, root offsets accumulated along embedding; New lists all fields or the first entry of each requested name in the requested order (quantified loop invariant), New1..9 the first entry of each requested type, ForType/ForName/ForNameMaybe return the first match or fail loudly (panic exactly when there is none), FieldKey prefers the first part of the hseq tag, FMap/FMap1..9 hand the i-th entry to the i-th function. A genuine defect (type match by printed name) was found and repaired.",
   note=REFL + "that root offset + field offset is the real byte offset for entries not crossing a pointer is the definition of flatten/validloc (Go's layout rule that offsets of nested value structs add), not derived from the compiler; termination of the recursion on types is not proved.",
   tech="contract-based deductive verification: reflect modelled as an algebraic datatype, recursive spec function, loop invariants, specified panics", ref="6/C03"),
 "C01": dict(
   text="Proof over the reflect/unsafe axiomatisation: the unsafe access of lens.Get/Put/Gett/Putt is a typed field access fget/fput on the struct value under the safety obligation validloc (the offset is the location of a field of exactly the accessed type, reached through plain and value-embedded structs only), which is the object invariant of *lens; Get/Put are verified against the Lens contract of C04 (reads the focus; *s becomes put(*s,a), same pointer, nothing else modified), Gett/Putt likewise for *S and panic otherwise; NewLens/NewReflector establish the invariant (focusable is verified against validloc with a loop invariant and a recursive call) and return a lens whose offset is that of the entry; ForProduct1..9/ForSpectrum1..9 return, positionally, lenses on the first field of each requested type or on the named fields. hseq's listing functions are re-verified under this property. GetPut/PutGet/PutPut and non-interference are the record axioms of fget/fput.",
   note=REFL + "unsafe: *(*A)(unsafe.Pointer(uintptr(p)+o)) reads/writes exactly the field of type A at offset o when (o,A) is a valid field location, distinct fields occupy disjoint bytes, the GC does not move the struct (record axioms of fget/fput are assumed, they are Go's memory layout); offset arithmetic overflow is not checked.",
   tech="contract-based deductive verification: unsafe access pattern as typed field update with a validity obligation, object invariant, reflect datatype", ref="6/C01"),
 "C02": dict(
   text="Proof as C01, read for its else-panics half: every normal return of NewLens/NewReflector/ForProductN/ForSpectrumN yields an optic whose location is a valid field location of identical type (object invariant checked at creation), all other requests panic; Gett/Putt panic, before touching memory, unless the argument's dynamic type is *S. Genuine defects found by these obligations: derivation accepted fields behind embedded pointers, pointer containers and look-alike focus types (repaired), and attr[0:N] reading names beyond len(attr) at 16 call sites (repaired in c0bb686: fewer than N names now panic).",
   note=REFL + "as C01.", cat="proof",
   tech="contract-based deductive verification: specified panics, object invariant at derivation, slice-bounds obligations", ref="6/C02"),
 "C16": dict(
   text="Proof with the AST as an exclusively owned tree (pointers to AST nodes are values, Ast is their sum datatype; pointer-receiver methods update their receiver in place, a child borrowed by a type switch is written back): append is verified against ins (the node becomes the last child of the innermost still-open context on the last-child spine) and unit against closeinner, both by recursion on the tree with the callee's contract as induction hypothesis; From/Join/LiftF/WrapF/Unit/Yield against ins/closeinner of nodes whose recorded names are tname(rtype) of the step's own type parameters, preserving the root-and-open invariant that makes every append accepted; typeName against its recursive spec; Apply of all four node kinds (behavioural subtyping against the Ast contract, loop invariant for the children) against walk: enter, children one level deeper in order, leave, stopping at the first callback whose (position-dependent) error is not nil, which is returned. List lemmas are re-proved by induction each run.",
   note="Trusted: as C20 plus the ownership assumption of the memory abstraction (each AST node is reachable from exactly one place: the property restricts to programs in which every intermediate morphism is used once - a linearity check of the builder code is not implemented), reflect for TypeOf, visitor callbacks do not touch the tree.",
   tech="contract-based deductive verification: owned-tree-as-value memory abstraction, recursive tree spec functions, position-indexed fault oracle for callbacks", ref="6/C16"),
}

NA_REASON = "check not built yet in this session (engine under construction; build order in DESIGN.md section 12)"

props = [json.loads(l) for l in open('/verif/properties.jsonl')]
hooks = subprocess.run(['git', '-C', '/repo', 'log', '--format=%H %s', '2bb2474..HEAD'], capture_output=True, text=True).stdout.strip().split('\n')
hook_commits = [l.split()[0] for l in hooks if l and ' verif:' in l]
m = {
 "version": 1,
 "setup_cmd": "cd /verif/engine && GOTOOLCHAIN=local GOFLAGS=-mod=mod GOPROXY=off go1.26.8 build -o /verif/bin/govc .",
 "hooks": {
   "guard": "verif",
   "enable": "contracts are comment-only files zz_contracts_verif.go behind //go:build verif, one per package; the checker parses them directly (nothing is compiled into the library, there is no run-time instrumentation)",
   "baseline_off_cmd": "for m in duct hseq optics pipe pure trait; do (cd /repo/$m && GOFLAGS=-mod=mod go test -json -vet=off -count=1 -timeout 25m ./...); done",
   "source_commits": hook_commits,
   "add_only": True,
 },
 "engines": [{"name": "govc", "path": "/verif/engine", "serves_properties": sorted(CHECKS),
              "kind_free_text": "contract-based deductive verifier for Go written for this task: typed AST (go/ast + go/types, own source loader) -> symbolic execution with loop invariants, call-by-contract, interface models -> one SMT-LIB query per named obligation -> z3 5.1 / cvc5 1.0.3 / z3 4.8 raced"}],
 "checks": [],
 "not_applicable": [],
 "notes": "Every check rebuilds its verification conditions from /repo's working tree on each run. Failed obligations are reported as VIOLATION with the obligation name; a directed probe corpus (/verif/probes) is run against the real code to find a failing input, otherwise the line ends with no-failing-input-found. Quick tier: solvers raced, 20 s per obligation. Thorough tier: 60 s per obligation, every answer cross-checked by the other solvers, library lemmas re-proved by induction, obligation-count floor (/verif/expected_obligations.json), and the must-fail corpus: every recorded seeded change of the property (/verif/seeded/<id>/*.diff, 105 in all) is applied to a scratch copy of the current tree and must be reported by the quick check. Known findings: /verif/KNOWN_FINDINGS.json (one open entry: C06 pipe.Fold on cancel).",
}
for p in props:
    pid = p['id']
    if pid in CHECKS:
        c = CHECKS[pid]
        m["checks"].append({
          "property_id": pid,
          "quick_cmd": "/verif/bin/govc check -property %s -tier quick" % pid,
          "thorough_cmd": "/verif/bin/govc check -property %s -tier thorough" % pid,
          "evidence_file": "/verif/evidence/%s.json" % pid,
          "replay_cmd_template": "/verif/bin/govc replay {path}",
          "engine": "govc",
          "level_claimed": {"category": c.get("cat", "proof"), "text": c["text"], "design_ref": "DESIGN.md section " + c["ref"]},
          "level_note": c["note"],
          "technique": c["tech"],
        })
    else:
        m["not_applicable"].append({"property_id": pid, "reason": NA_REASON})
json.dump(m, open('/verif/MANIFEST.json', 'w'), indent=1)
print("checks:", [c["property_id"] for c in m["checks"]])
