#!/bin/sh
# pins a copy of every contract file of /repo under /verif/contracts
set -e
mkdir -p /verif/contracts
cd /repo
for f in $(find . -name zz_contracts_verif.go | sort); do
  d=$(dirname "$f" | sed 's|^\./||; s|/|__|g')
  cp "$f" "/verif/contracts/$d.go"
done
ls /verif/contracts
