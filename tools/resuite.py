#!/usr/bin/env python3
"""Re-run the module suite for seeded patches whose confirmation failed only on the wall-clock test
TestThrottling (pipe, pipe/fork), which is flaky under machine load on the unpatched tree as well.
A patch's suite counts as passing when a full run passes, or when the only failing tests are
TestThrottling and they pass when run alone (up to 5 attempts). Updates confirm.json in place.
Usage: resuite.py C05 C06 ..."""
import json, os, re, subprocess, sys
ENV = dict(os.environ, GOFLAGS="-mod=mod", GOPROXY="off")
INC = os.environ.get('SEED_INC', '/verif/seeded/_incoming')
def sh(cmd, cwd=None, timeout=1800):
    p = subprocess.run(cmd, shell=True, cwd=cwd, env=ENV, stdout=subprocess.PIPE, stderr=subprocess.STDOUT, text=True, timeout=timeout)
    return p.returncode, p.stdout
for pid in sys.argv[1:]:
    cfp = f'{INC}/{pid}/confirm.json'
    cf = json.load(open(cfp))
    for p in cf['patches']:
        if not p.get('applies') or p.get('suite') == 'pass':
            continue
        wt = f'/tmp/rs-{pid}'
        sh(f'git -C /repo worktree remove --force {wt}')
        rc, out = sh(f'git -C /repo worktree add --detach {wt} HEAD')
        assert rc == 0, out
        try:
            sh(f'git apply {INC}/{pid}/{p["patch"]}', cwd=wt)
            mod = p['files'][0].split('/')[0]
            ok = False
            note = ''
            for attempt in range(2):
                rc, out = sh('go test -vet=off -count=1 -timeout 25m ./...', cwd=f'{wt}/{mod}')
                if rc == 0:
                    ok = True; note = f'full suite passed on re-run {attempt+1}'; break
                failed = set(re.findall(r'^--- FAIL: (\w+)', out, re.M))
                if failed and failed <= {'TestThrottling'}:
                    pk = [d for d in ('.', './fork') if os.path.isdir(f'{wt}/{mod}/{d}')]
                    alone = 0
                    for k in range(5):
                        rc2, out2 = sh('go test -vet=off -count=1 -run "^TestThrottling$" ' + ' '.join(pk), cwd=f'{wt}/{mod}')
                        if rc2 == 0:
                            alone += 1; break
                    if alone:
                        ok = True
                        note = 'only the wall-clock test TestThrottling failed in the full run under machine load (it is flaky on the unpatched tree too); it passes when run alone with the patch'
                        break
                else:
                    note = 'FAIL:' + out[-500:]
            if ok:
                p['suite'] = 'pass'; p['suite_note'] = note
            else:
                p['suite'] = note or p['suite']
            print(pid, p['patch'], 'suite:', p['suite'][:80], '|', note[:100])
        finally:
            sh(f'git -C /repo worktree remove --force {wt}')
    json.dump(cf, open(cfp, 'w'), indent=1)
