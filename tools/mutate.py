#!/usr/bin/env python3
"""Systematic mutation run: simple source mutation operators on the anchored files; each mutant that compiles is
checked by govc (properties of the touched package) on a scratch copy. Reports mutants that no check notices.
usage: mutate.py <file relative to /repo> [...]   -> results in /tmp/mut/<file>.json"""
import os, re, sys, json, shutil, subprocess, tempfile, hashlib
from concurrent.futures import ThreadPoolExecutor
ENV=dict(os.environ, GOFLAGS='-mod=mod', GOPROXY='off')
def props(f):
    for pre,ids in (('pipe/fork/','C09 C10 C06'),('pipe/unbound.go','C08'),('pipe/queue.go','C08'),('pipe/','C05 C06 C07 C11 C12 C13'),('hseq/','C03 C01'),
                    ('optics/iso.go','C04'),('optics/shape.go','C04'),('optics/','C01 C02 C04'),('trait/seq/','C14'),('trait/pair/','C15'),('duct/','C16'),('pure/','C17'),
                    ('internal/seq/','C19'),('internal/maplike/','C18'),('internal/pipe/','C20')):
        if f.startswith(pre): return ids.split()
    return []
def module(f):
    for m in ('pipe','hseq','optics','trait','duct','pure'):
        if f.startswith(m+'/'): return m
    return None
def mutants(lines):
    out=[]
    depth=0; infunc=False
    for i,l in enumerate(lines):
        s=l.strip()
        if l.startswith('func '): infunc=True
        if not infunc or not s or s.startswith('//'): 
            continue
        if l.startswith('}'): infunc=False
        code=l.split('//')[0]
        def add(op,new):
            if new!=l: out.append((i,op,new))
        if '==' in code: add('eq->ne', l.replace('==','!=',1))
        if '!=' in code: add('ne->eq', l.replace('!=','==',1))
        if '<-' not in code:
            if ' <= ' in code: add('le->lt', l.replace(' <= ',' < ',1))
            elif ' < ' in code: add('lt->le', l.replace(' < ',' <= ',1))
            if ' >= ' in code: add('ge->gt', l.replace(' >= ',' > ',1))
            elif ' > ' in code: add('gt->ge', l.replace(' > ',' >= ',1))
        if '&&' in code: add('and->or', l.replace('&&','||',1))
        if '||' in code: add('or->and', l.replace('||','&&',1))
        if re.match(r'^(defer )?close\(\w+\)$', s) or s in ('continue','break','return') or re.match(r'^\w+(\.\w+)*(\+\+|--)$', s) or re.match(r'^(defer )?\w+\.Done\(\)$', s) or re.match(r'^\w+ <- [^{]+$', s) or re.match(r'^[\w.\[\]]+ = [^{]+$', s):
            add('delete', l[:len(l)-len(l.lstrip())]+'// mutant: deleted\n')
        if re.search(r' \+ 1\b', code): add('plus1', re.sub(r' \+ 1\b','',l,1))
        if re.search(r' - 1\b', code): add('minus1', re.sub(r' - 1\b','',l,1))
        if re.search(r':= 0$', s): add('0->1', l.replace(':= 0',':= 1'))
        if re.search(r':= 1$', s): add('1->0', l.replace(':= 1',':= 0'))
        m=re.search(r'\b(Combine|Compare|Equal|f|fn)\((\w+(?:\.\w+)*), (\w+(?:\.\w+)*)\)', code)
        if m and m.group(2)!=m.group(3): add('swapargs', l.replace(m.group(0), f'{m.group(1)}({m.group(3)}, {m.group(2)})',1))
        if re.search(r'\btrue\b', code): add('true->false', re.sub(r'\btrue\b','false',l,1))
        elif re.search(r'\bfalse\b', code): add('false->true', re.sub(r'\bfalse\b','true',l,1))
        m=re.match(r'^(\s*(?:\} else )?if )([^;{]+)( \{\s*)$', l)
        if m and ':=' not in m.group(2): add('negate', f'{m.group(1)}!({m.group(2)}){m.group(3)}')
    return out
def run(f, lines, mut):
    i,op,new=mut
    s=tempfile.mkdtemp(prefix='mut-')
    try:
        shutil.copytree('/repo', s+'/repo', ignore=shutil.ignore_patterns('.git'))
        ml=list(lines); ml[i]=new
        open(f'{s}/repo/{f}','w').write(''.join(ml))
        mod=module(f)
        if mod:
            r=subprocess.run('go build ./... && go vet ./... 2>/dev/null; go build ./...', shell=True, cwd=f'{s}/repo/{mod}', env=ENV, capture_output=True, text=True)
            if r.returncode!=0: return dict(line=i+1, op=op, status='nocompile')
        else:
            r=subprocess.run(['gofmt','-e',f'{s}/repo/{f}'], capture_output=True, text=True)
            if r.returncode!=0: return dict(line=i+1, op=op, status='nocompile')
        caught=[]
        for pid in props(f):
            r=subprocess.run(['/verif/bin/govc','check','-property',pid,'-repo',s+'/repo','-outdir',s+'/out','-noprobe'], capture_output=True, text=True, cwd='/verif')
            fl=[x.split()[1] for x in r.stdout.splitlines() if x.startswith('FAILED') or x.startswith('UNVERIFIABLE')]
            if r.returncode!=0: caught.append((pid, fl[:2]))
        res=dict(line=i+1, op=op, src=lines[i].strip(), new=new.strip(), status='caught' if caught else 'MISSED', by=caught[:2])
        if not caught and mod:
            r=subprocess.run('go test -vet=off -count=1 ./...', shell=True, cwd=f'{s}/repo/{mod}', env=ENV, capture_output=True, text=True, timeout=1500)
            res['tests']='pass' if r.returncode==0 else 'FAIL'
        return res
    except Exception as e:
        return dict(line=i+1, op=op, status='error', err=str(e)[:200])
    finally:
        shutil.rmtree(s, ignore_errors=True)
def main():
    os.makedirs('/tmp/mut', exist_ok=True)
    for f in sys.argv[1:]:
        lines=open('/repo/'+f).readlines()
        ms=mutants(lines)
        with ThreadPoolExecutor(max_workers=int(os.environ.get('MUT_PAR','5'))) as ex:
            res=list(ex.map(lambda m: run(f, lines, m), ms))
        json.dump(res, open('/tmp/mut/'+f.replace('/','__')+'.json','w'), indent=1)
        c={}
        for r in res: c[r['status']]=c.get(r['status'],0)+1
        print(f, c, flush=True)
        for r in res:
            if r['status']=='MISSED': print('   MISSED', r['line'], r['op'], '|', r['src'], '=>', r['new'], '| tests:', r.get('tests'), flush=True)
main()
