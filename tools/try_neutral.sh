#!/bin/sh
# try_neutral.sh <dir with neutral*.diff>: apply each to a scratch copy of /repo; run the checks of the touched package; report alarms
for p in $1/${PAT:-neutral*.diff}; do
  f=$(grep '^+++ b/' $p | head -1 | sed 's|+++ b/||')
  case $f in
    pipe/fork/*) ids="C09 C10 C06";;
    pipe/unbound.go|pipe/queue.go) ids="C08";;
    pipe/*) ids="C05 C06 C07 C11 C12 C13";;
    hseq/*) ids="C03 C01";;
    optics/*) ids="C01 C02 C04";;
    trait/seq/*) ids="C14";;
    trait/pair/*) ids="C15";;
    duct/*) ids="C16";;
    pure/*) ids="C17";;
    internal/seq/*) ids="C19";;
    internal/maplike/*) ids="C18";;
    internal/pipe/*) ids="C20";;
  esac
  s=$(mktemp -d /tmp/try-XXXXXX)
  cp -r /repo $s/repo; rm -rf $s/repo/.git
  if ! (cd $s/repo && git apply --whitespace=nowarn $p 2>$s/err); then echo "$(basename $p) [$f]: DOES NOT APPLY"; rm -rf $s; continue; fi
  res=""
  for id in $ids; do
    out=$(/verif/bin/govc check -property $id -repo $s/repo -outdir $s/out -noprobe 2>&1)
    n=$(echo "$out" | grep -c '^FAILED\|^UNVERIFIABLE')
    if [ "$n" -gt 0 ]; then res="$res $id:ALARM($(echo "$out" | grep '^FAILED\|^UNVERIFIABLE' | head -2 | cut -c1-120 | tr '\n' '|'))"; else res="$res $id:ok"; fi
  done
  echo "$(basename $p) [$f]:$res"
  rm -rf $s
done
