#!/bin/sh
# try_seeds.sh <dir-with-ID-subdirs> ID...  : apply each patch*.diff to a scratch copy of /repo and run the quick check
base=$1; shift
for id in "$@"; do
  for p in $base/$id/*.diff; do
    [ -f "$p" ] || continue
    s=$(mktemp -d /tmp/try-XXXXXX)
    cp -r /repo $s/repo; rm -rf $s/repo/.git
    if ! (cd $s/repo && git apply --whitespace=nowarn $p 2>$s/err); then echo "$id $(basename $p): DOES NOT APPLY: $(head -2 $s/err | tr '\n' ' ')"; rm -rf $s; continue; fi
    out=$(/verif/bin/govc check -property $id -repo $s/repo -outdir $s/out -noprobe 2>&1)
    n=$(echo "$out" | grep -c '^FAILED\|^UNVERIFIABLE')
    if [ "$n" -gt 0 ]; then echo "$id $(basename $p): caught ($n): $(echo "$out" | grep '^FAILED\|^UNVERIFIABLE' | head -3 | cut -c1-110 | tr '\n' '|')"; else echo "$id $(basename $p): MISSED  $(echo "$out" | tail -1)"; fi
    rm -rf $s
  done
done
