#!/usr/bin/env python3
"""Runs the module test suites of /repo (guard off: contract files are comment-only behind the build tag) and
checks that every test of /root/.vp/BASELINE.json stable_pass passes."""
import json, subprocess, os
env = dict(os.environ, GOFLAGS='-mod=mod', GOPROXY='off')
status = {}
for m in ('duct', 'hseq', 'optics', 'pipe', 'pure', 'trait'):
    p = subprocess.run('go test -json -vet=off -count=1 -timeout 25m ./...', shell=True, cwd='/repo/' + m, env=env, capture_output=True, text=True)
    for ln in p.stdout.splitlines():
        try:
            e = json.loads(ln)
        except Exception:
            continue
        if e.get('Test') and e.get('Action') in ('pass', 'fail', 'skip'):
            status[e['Package'] + '::' + e['Test']] = e['Action']
want = json.load(open('/root/.vp/BASELINE.json'))['stable_pass']
bad = [t for t in want if status.get(t) != 'pass']
print('stable_pass tests:', len(want), 'passing now:', len(want) - len(bad))
for t in bad[:20]:
    print('  NOT PASSING:', t, status.get(t))
