#!/usr/bin/env python3
"""Build /verif/seeded/<id>/ from the confirmed results in /verif/seeded/_incoming/<id>/confirm.json."""
import json, os, re, shutil, glob
import sys
INC=os.environ.get('SEED_INC','/verif/seeded/_incoming')
MERGE=os.environ.get('SEED_MERGE','')=='1'
def sections(notes):
    # split notes.md into (heading, body) pairs
    out=[]; cur=None; buf=[]
    for ln in notes.splitlines():
        if re.match(r'^#{1,4} ', ln):
            if cur is not None: out.append((cur,'\n'.join(buf).strip()))
            cur=ln.lstrip('# ').strip(); buf=[]
        else: buf.append(ln)
    if cur is not None: out.append((cur,'\n'.join(buf).strip()))
    return out
def describe(notes, orig_name, idx, npatches):
    secs=sections(notes)
    m3=re.match(r'r([3456789])([A-Z]\d?)(\d)patch\.diff', orig_name)
    if m3:
        # group notes: take the part of the file belonging to the group, then the section "p<k> ..."
        rnd,g,k=m3.group(1),m3.group(2),m3.group(3)
        part=notes.split(f'(round {rnd}, group {g})',1)[-1]
        part=part.split(f'(round {rnd}, group ',1)[0]
        secs=sections(part)
        for i,(h,b) in enumerate(secs):
            if re.match(rf'p{k}\b', h):
                paras=[q for q in re.split(r'\n\s*\n', b) if re.search(r'needed|to manifest|trigger|input', q, re.I)]
                return h, ('\n\n'.join(paras) if paras else b)[:2500]
        return '', ''
    orig_name=orig_name.lower()
    title=''; needs=''; start=None
    for i,(h,b) in enumerate(secs):
        hl=h.lower()
        if (orig_name in hl and 'with '+orig_name not in hl and 'suite' not in hl) or (npatches==1 and 'the change' in hl):
            title=h; start=i; break
    if start is None and npatches==1 and secs:
        start=0; title=secs[0][0]
    if start is not None:
        for h,b in secs[start+1:]:
            hl=h.lower()
            if re.search(r'patch\d?\.diff', hl) and 'needed' not in hl and 'suite' not in hl and 'with patch' not in hl: break
            if 'needed' in hl:
                needs=b; break
        if not needs:
            body=secs[start][1]
            paras=[q for q in re.split(r'\n\s*\n', body) if re.search(r'needed|to manifest|trigger', q, re.I)]
            needs='\n\n'.join(paras) if paras else body
    return title, needs[:2500]
for d in sorted(glob.glob(INC+'/C*')):
    pid=os.path.basename(d)
    cf=json.load(open(d+'/confirm.json'))
    notes=open(d+'/notes.md').read()
    out=f'/verif/seeded/{pid}'
    if not MERGE:
        shutil.rmtree(out, ignore_errors=True)
    os.makedirs(out, exist_ok=True)
    shutil.copy(d+'/notes.md', out+(('/notes_round%s.md' % os.environ.get('SEED_PREFIX','r2')[1:]) if MERGE else '/notes.md'))
    if os.path.exists(d+'/run_demo.sh'): shutil.copy(d+'/run_demo.sh', out+'/run_demo.sh')
    changes=[]
    if MERGE and os.path.exists(out+'/meta.json'):
        changes=json.load(open(out+'/meta.json'))['changes']
        changes=[c for c in changes if not c['patch'].startswith(os.environ.get('SEED_PREFIX','r2'))]
    applied=[p for p in cf['patches'] if p['applies']]
    origs=sorted(set(re.sub(r'\.rebased','',p['patch']) for p in cf['patches']))
    for p in applied:
        orig=re.sub(r'\.rebased','',p['patch'])
        failing=[k for k,v in p['demos'].items() if v=='fail' and cf['demos_on_clean_tree'].get(k)=='pass']
        suite_ok = p['suite']=='pass' or (pid=='C09' and orig=='patch2.diff')
        if not failing or not suite_ok:
            print(pid, p['patch'], 'NOT CONFIRMED', p['demos'], p['suite'][:40]); continue
        shutil.copy(f'{d}/{p["patch"]}', f'{out}/{orig}')
        if p['patch']!=orig:
            shutil.copy(f'{d}/{orig}', f'{out}/{orig}.as-written-against-pinned-commit.txt')
        for k in failing: shutil.copy(f'{d}/{k}', f'{out}/{k}')
        title,needs=describe(notes, orig if (orig.startswith('r3') or orig.startswith('r4') or orig.startswith('r5') or orig.startswith('r6') or orig.startswith('r7') or orig.startswith('r8') or orig.startswith('r9')) else (orig[2:] if orig.startswith('r2') else orig), len(changes), len(origs))
        suite_note='module test suite passes with the patch (demonstration file removed)'
        if pid=='C09' and orig=='patch2.diff':
            suite_note+='; TestThrottling of pipe/fork (wall-clock assertion 99ms < gap < 110ms) failed in 2 of 5 runs under load and is unrelated to the change (it fails intermittently on the unpatched tree too)'
        if p['files'][0].startswith('internal/'):
            suite_note='the package is outside every Go module: the baseline suite does not build it; the other modules are untouched by the patch'
        changes.append({
          'patch': orig,
          'title': title,
          'breaks_property': pid,
          'files': p['files'],
          'rebased_onto_fix_commits': p['patch']!=orig,
          'needs_in_order_to_manifest': needs,
          'demonstration': failing,
          'confirmed': {
             'repo_head': cf['repo_head'],
             'how': 'tools/confirm_seeded.py: scratch git worktree of /repo HEAD outside /repo and /verif; demonstration copied into the package directory (internal/* staged under its import path in a scratch module); go test -run <demo tests>; then git apply patch; same run; then the module suite without the demonstration; worktree removed',
             'demonstration_on_clean_tree': 'pass',
             'demonstration_with_patch': 'fail',
             'suite_with_patch': suite_note + ('; ' + p['suite_note'] if p.get('suite_note') else ''),
             'demo_output_tail': {k:(p.get('demo_output',{}).get(k,'')[-400:]) for k in failing},
          },
          'round': 9 if orig.startswith('r9') else 8 if orig.startswith('r8') else 7 if orig.startswith('r7') else 6 if orig.startswith('r6') else 5 if orig.startswith('r5') else 4 if orig.startswith('r4') else (3 if orig.startswith('r3') else (2 if orig.startswith('r2') else 1)),
          'caught_by': {'check': f'/verif/bin/govc check -property {pid}', 'failed_obligations': p['check_failed_obligations'], 'unverifiable': p['check_unverifiable']},
        })
    json.dump({'property': pid, 'changes': changes, 'apply': f'git -C /repo apply /verif/seeded/{pid}/<patch>', 'undo': 'git -C /repo checkout -- .'}, open(out+'/meta.json','w'), indent=1)
    print(pid, [c['patch'] for c in changes], [bool(c['needs_in_order_to_manifest']) for c in changes], [c['title'][:50] for c in changes])
