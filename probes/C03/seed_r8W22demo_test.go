// probe: dir=hseq run=^(TestSeededP2NestedEmbedding)$
// Demonstration test of a seeded property-breaking change (see /verif/seeded/C03/meta.json), kept as a
// directed probe: it passes on the pinned tree and fails when that kind of change is made.
package hseq_test

import (
	"testing"
	"unsafe"

	"github.com/fogfish/golem/hseq"
)

// C03: "for every entry reached without crossing a pointer, root offset plus
// field offset equals the field's real byte offset in the outer struct."
// Consumers (optics lenses) address the field at  base + RootOffs + Offset.

type seededP2Leaf struct {
	X uint8
	Y uint64
}

type seededP2Mid struct {
	Tag string
	seededP2Leaf
	Z int32
}

type seededP2Top struct {
	Head int64
	Name string
	seededP2Mid
	Tail bool
}

// flat struct and struct with the embedding at offset 0: root offset is zero
type seededP2Flat struct {
	A uint8
	B uint64
	C string
}

type seededP2First struct {
	seededP2Leaf
	K string
}

// control: shapes for which the root offset is zero (hold on both trees)
func seededP2Control(t *testing.T) {
	var f seededP2Flat
	flat := hseq.New[seededP2Flat]()
	for name, real := range map[string]uintptr{
		"A": unsafe.Offsetof(f.A),
		"B": unsafe.Offsetof(f.B),
		"C": unsafe.Offsetof(f.C),
	} {
		e := hseq.ForName(flat, name)
		if got := e.RootOffs + e.Offset; got != real {
			t.Errorf("Flat.%s: RootOffs + Offset = %d, real offset %d", name, got, real)
		}
	}

	var g seededP2First
	first := hseq.New[seededP2First]()
	for name, real := range map[string]uintptr{
		"X": unsafe.Offsetof(g.X),
		"Y": unsafe.Offsetof(g.Y),
		"K": unsafe.Offsetof(g.K),
	} {
		e := hseq.ForName(first, name)
		if got := e.RootOffs + e.Offset; got != real {
			t.Errorf("First.%s: RootOffs + Offset = %d, real offset %d", name, got, real)
		}
	}
}

func TestSeededP2NestedEmbedding(t *testing.T) {
	seededP2Control(t)

	var v seededP2Top
	seq := hseq.New[seededP2Top]()

	real := map[string]uintptr{
		"Head":         unsafe.Offsetof(v.Head),
		"Name":         unsafe.Offsetof(v.Name),
		"seededP2Mid":  unsafe.Offsetof(v.seededP2Mid),
		"Tag":          unsafe.Offsetof(v.seededP2Mid) + unsafe.Offsetof(v.seededP2Mid.Tag),
		"seededP2Leaf": unsafe.Offsetof(v.seededP2Mid) + unsafe.Offsetof(v.seededP2Mid.seededP2Leaf),
		"X":            unsafe.Offsetof(v.seededP2Mid) + unsafe.Offsetof(v.seededP2Mid.seededP2Leaf) + unsafe.Offsetof(v.seededP2Mid.seededP2Leaf.X),
		"Y":            unsafe.Offsetof(v.seededP2Mid) + unsafe.Offsetof(v.seededP2Mid.seededP2Leaf) + unsafe.Offsetof(v.seededP2Mid.seededP2Leaf.Y),
		"Z":            unsafe.Offsetof(v.seededP2Mid) + unsafe.Offsetof(v.seededP2Mid.Z),
		"Tail":         unsafe.Offsetof(v.Tail),
	}

	if len(seq) != len(real) {
		t.Fatalf("listing has %d entries, want %d", len(seq), len(real))
	}

	for _, e := range seq {
		want, ok := real[e.Name]
		if !ok {
			t.Errorf("unexpected entry %s", e.Name)
			continue
		}
		if got := e.RootOffs + e.Offset; got != want {
			t.Errorf("Top.%s (entry %d): RootOffs + Offset = %d + %d = %d, real offset %d",
				e.Name, e.ID, e.RootOffs, e.Offset, got, want)
		}
	}

	// what a lens does with it: read the field at base + Offset + RootOffs
	v.seededP2Mid.seededP2Leaf.Y = 0xfeedfacecafebeef
	v.seededP2Mid.Z = 0x5eeded
	y := hseq.ForName(seq, "Y")
	z := hseq.ForName(seq, "Z")
	if yo := y.Offset + y.RootOffs; yo+unsafe.Sizeof(v.Y) > unsafe.Sizeof(v) {
		t.Errorf("Top.Y: address base+%d is outside of the struct (size %d)", yo, unsafe.Sizeof(v))
	} else if got := *(*uint64)(unsafe.Add(unsafe.Pointer(&v), yo)); got != v.Y {
		t.Errorf("Top.Y read through the entry = %#x, want %#x", got, v.Y)
	}
	if zo := z.Offset + z.RootOffs; zo+unsafe.Sizeof(v.Z) > unsafe.Sizeof(v) {
		t.Errorf("Top.Z: address base+%d is outside of the struct (size %d)", zo, unsafe.Sizeof(v))
	} else if got := *(*int32)(unsafe.Add(unsafe.Pointer(&v), zo)); got != v.Z {
		t.Errorf("Top.Z read through the entry = %#x, want %#x", got, v.Z)
	}
}
