// probe: dir=hseq run=^(TestDemoA_SelectionByNameIsFirstMatch)$
// Demonstration test of a seeded property-breaking change (see /verif/seeded/C03/meta.json), kept as a
// directed probe: it passes on the pinned tree and fails when that kind of change is made.
package hseq_test

import (
	"testing"
	"unsafe"

	"github.com/fogfish/golem/hseq"
)

// The same name occurs at two depths (and once more as hseq tag).
// The full listing is
//
//	0 demoAMeta, 1 ID, 2 Rev, 3 Title, 4 ID, 5 Alias(key "Rev")
//
// first match for "ID" is entry 1 (demoAMeta.ID), for "Rev" is entry 2.
type demoAMeta struct {
	ID  string
	Rev int64
}

type demoADoc struct {
	demoAMeta
	Title string
	ID    int64
	Alias uint16 `hseq:"Rev"`
}

func TestDemoA_SelectionByNameIsFirstMatch(t *testing.T) {
	full := hseq.New[demoADoc]()
	if len(full) != 6 {
		t.Fatalf("unexpected listing of %d entries", len(full))
	}

	var doc demoADoc

	t.Run("ID", func(t *testing.T) {
		want := hseq.ForName(full, "ID")
		if want.ID != 1 {
			t.Fatalf("ForName(full, ID) is entry %d, want 1", want.ID)
		}

		seq := hseq.New[demoADoc]("ID")
		if len(seq) != 1 {
			t.Fatalf("New(ID) has %d entries", len(seq))
		}

		got := seq[0]
		if got.ID != 1 {
			t.Errorf("New(ID) selected entry %d of the listing, want entry 1 (first match)", got.ID)
		}
		if got.Type != want.Type {
			t.Errorf("New(ID) selected field of type %s, want %s", got.Type, want.Type)
		}
		if at := got.RootOffs + got.Offset; at != unsafe.Offsetof(doc.demoAMeta)+unsafe.Offsetof(doc.demoAMeta.ID) {
			t.Errorf("New(ID) selected field at offset %d, want offset of demoAMeta.ID", at)
		}
	})

	t.Run("Rev", func(t *testing.T) {
		seq := hseq.New[demoADoc]("Rev")
		if seq[0].ID != 2 || seq[0].Name != "Rev" {
			t.Errorf("New(Rev) selected entry %d (%s), want entry 2 (Rev)", seq[0].ID, seq[0].Name)
		}
	})

	t.Run("Order", func(t *testing.T) {
		seq := hseq.New[demoADoc]("Title", "Rev", "ID")
		ids := []int{seq[0].ID, seq[1].ID, seq[2].ID}
		if ids[0] != 3 || ids[1] != 2 || ids[2] != 1 {
			t.Errorf("New(Title, Rev, ID) selected entries %v, want [3 2 1]", ids)
		}
	})

	t.Run("SameAsForName", func(t *testing.T) {
		for _, name := range []string{"demoAMeta", "ID", "Rev", "Title"} {
			a := hseq.New[demoADoc](name)[0]
			b := hseq.ForName(full, name)
			if a.ID != b.ID {
				t.Errorf("New(%s) is entry %d, ForName(New(), %s) is entry %d", name, a.ID, name, b.ID)
			}
		}
	})
}
