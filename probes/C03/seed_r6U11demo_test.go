// probe: dir=hseq run=^(TestSeedD1New3FirstMatch)$
// Demonstration test of a seeded property-breaking change (see /verif/seeded/C03/meta.json), kept as a
// directed probe: it passes on the pinned tree and fails when that kind of change is made.
package hseq_test

import (
	"testing"

	"github.com/fogfish/golem/hseq"
)

// C03: lookup by type returns the FIRST matching entry of the full listing,
// whatever the order of the witness types is.
func TestSeedD1New3FirstMatch(t *testing.T) {
	type T struct {
		X int
		S string
		Y int
		B bool
	}

	seq := hseq.New3[T, string, int, bool]()
	got := []string{seq[0].Name, seq[1].Name, seq[2].Name}
	want := []string{"S", "X", "B"}
	for i := range want {
		if got[i] != want[i] {
			t.Fatalf("New3[T, string, int, bool] = %v, want %v", got, want)
		}
	}

	// same answer as three independent lookups
	all := hseq.New[T]()
	if seq[1].ID != hseq.ForType[int, T](all).ID {
		t.Fatalf("New3 entry for int has ID %d, ForType gives %d", seq[1].ID, hseq.ForType[int, T](all).ID)
	}

	// declaration order is unaffected
	seq = hseq.New3[T, int, string, bool]()
	if seq[0].Name != "X" || seq[1].Name != "S" || seq[2].Name != "B" {
		t.Fatalf("New3[T, int, string, bool] = %s %s %s", seq[0].Name, seq[1].Name, seq[2].Name)
	}
}
