// probe: dir=hseq run=^(TestSeededC03b_FirstMatch|TestSeededC03b_Absent|TestSeededC03b_Ordinary)$
// Demonstration test of a seeded property-breaking change (see /verif/seeded/C03/meta.json), kept as a
// directed probe: it passes on the pinned tree and fails when that kind of change is made.
// DEMONSTRATION for the second seeded change for C03 (patch2.diff).
//
// Place this file in:   /tmp/wt-C03/hseq/   (package hseq_test, module github.com/fogfish/golem/hseq)
// Run with:
//   cd /tmp/wt-C03/hseq && GOFLAGS=-mod=mod GOPROXY=off go test -vet=off -count=1 -run 'TestSeededC03b' ./...
//
// Expected: PASS on the original code, FAIL with patch2.diff applied.
//
// The trigger is a struct that has fields of two DISTINCT named types which
// print identically (reflect.Type.String() == "hseq_test.Ident"), e.g. the same
// type name declared at package level and again in a (non-generic) function scope (or in two packages that share
// the last path element).

package hseq_test

import (
	"reflect"
	"testing"

	"github.com/fogfish/golem/hseq"
)

func typeOf[A any]() reflect.Type { return reflect.TypeOf(new(A)).Elem() }

// Ident is the "real" identifier type; c03bIdent is just another way to spell
// it from scopes where the name Ident is shadowed.
type Ident string
type c03bIdent = Ident

// Another `Ident` (an int) is declared locally and placed in front of the
// package level one.
func TestSeededC03b_FirstMatch(t *testing.T) {
	type Ident int
	type T struct {
		Legacy Ident
		Actual c03bIdent
	}

	if typeOf[Ident]() == typeOf[c03bIdent]() {
		t.Fatal("test setup: the two types must be distinct")
	}
	if typeOf[Ident]().String() != typeOf[c03bIdent]().String() {
		t.Fatalf("test setup: the two types do not print identically: %s vs %s",
			typeOf[Ident](), typeOf[c03bIdent]())
	}

	f := hseq.ForType[c03bIdent, T](hseq.New[T]())
	if f.Name != "Actual" || f.Type != typeOf[c03bIdent]() {
		t.Errorf("ForType returned field %s (kind %s), want field Actual (kind %s)",
			f.Name, f.Type.Kind(), typeOf[c03bIdent]().Kind())
	}

	// the same through the N-tuple constructor and FMap2
	n0, n1 := hseq.FMap2(
		hseq.New2[T, c03bIdent, Ident](),
		func(x hseq.Type[T]) string { return x.Name },
		func(x hseq.Type[T]) string { return x.Name },
	)
	if n0 != "Actual" || n1 != "Legacy" {
		t.Errorf("New2 returned [%s %s], want [Actual Legacy]", n0, n1)
	}
}

// The witness type is not a member of the struct at all: lookup must panic.
func TestSeededC03b_Absent(t *testing.T) {
	type Ident int
	type T struct {
		Legacy Ident
		Other  bool
	}

	defer func() {
		if r := recover(); r == nil {
			t.Errorf("ForType returned a field for a type that is not a member of the struct; want a loud failure")
		}
	}()
	f := hseq.ForType[c03bIdent, T](hseq.New[T]())
	t.Logf("silently returned field %s (kind %s) for witness of kind %s",
		f.Name, f.Type.Kind(), typeOf[c03bIdent]().Kind())
}

// Sanity: ordinary lookups are unaffected by the change.
func TestSeededC03b_Ordinary(t *testing.T) {
	type T struct {
		A Ident
		B *Ident
		C []Ident
	}
	seq := hseq.New[T]()
	if hseq.ForType[Ident](seq).Name != "A" || hseq.ForType[*Ident](seq).Name != "B" || hseq.ForType[[]Ident](seq).Name != "C" {
		t.Errorf("ordinary ForType lookups broken")
	}
}
