// probe: dir=hseq run=^(TestDemoB_EveryEmbeddedStructIsFollowedByItsFields)$
// Demonstration test of a seeded property-breaking change (see /verif/seeded/C03/meta.json), kept as a
// directed probe: it passes on the pinned tree and fails when that kind of change is made.
package hseq_test

import (
	"reflect"
	"testing"
	"unsafe"

	"github.com/fogfish/golem/hseq"
)

// The same struct type (demoBStamp) is embedded on two different branches of
// the outer struct. Legal Go: selectors Created/At are ambiguous on demoBPage,
// but the type is fine. Depth-first listing is
//
//	0 demoBHead 1 demoBStamp 2 At 3 By 4 Title
//	5 demoBFoot 6 demoBStamp 7 At 8 By 9 Note
type demoBStamp struct {
	At int64
	By string
}

type demoBHead struct {
	demoBStamp
	Title string
}

type demoBFoot struct {
	demoBStamp
	Note string
}

type demoBPage struct {
	demoBHead
	demoBFoot
}

// and through a pointer, at another depth
type demoBWrap struct {
	Seq int32
	*demoBFoot
	demoBStamp
}

func TestDemoB_EveryEmbeddedStructIsFollowedByItsFields(t *testing.T) {
	t.Run("TwoBranches", func(t *testing.T) {
		seq := hseq.New[demoBPage]()

		names := hseq.FMap(seq, func(t hseq.Type[demoBPage]) string { return t.Name })
		want := []string{
			"demoBHead", "demoBStamp", "At", "By", "Title",
			"demoBFoot", "demoBStamp", "At", "By", "Note",
		}
		if !reflect.DeepEqual(names, want) {
			t.Fatalf("listing\n got %v\nwant %v", names, want)
		}

		for i, f := range seq {
			if f.ID != i {
				t.Errorf("entry %d (%s) has ID %d", i, f.Name, f.ID)
			}
		}

		var page demoBPage
		real := func(field unsafe.Pointer) uintptr {
			return uintptr(field) - uintptr(unsafe.Pointer(&page))
		}
		for at, want := range map[int]uintptr{
			2: real(unsafe.Pointer(&page.demoBHead.demoBStamp.At)),
			3: real(unsafe.Pointer(&page.demoBHead.demoBStamp.By)),
			4: real(unsafe.Pointer(&page.demoBHead.Title)),
			6: real(unsafe.Pointer(&page.demoBFoot.demoBStamp)),
			7: real(unsafe.Pointer(&page.demoBFoot.demoBStamp.At)),
			8: real(unsafe.Pointer(&page.demoBFoot.demoBStamp.By)),
			9: real(unsafe.Pointer(&page.demoBFoot.Note)),
		} {
			if got := seq[at].RootOffs + seq[at].Offset; got != want {
				t.Errorf("entry %d (%s): offset %d, real offset %d", at, seq[at].Name, got, want)
			}
		}
	})

	t.Run("PointerBranchThenValue", func(t *testing.T) {
		seq := hseq.New[demoBWrap]()

		names := hseq.FMap(seq, func(t hseq.Type[demoBWrap]) string { return t.Name })
		want := []string{
			"Seq",
			"demoBFoot", "demoBStamp", "At", "By", "Note",
			"demoBStamp", "At", "By",
		}
		if !reflect.DeepEqual(names, want) {
			t.Fatalf("listing\n got %v\nwant %v", names, want)
		}

		// the value-embedded demoBStamp is reached without crossing a pointer
		var wrap demoBWrap
		real := uintptr(unsafe.Pointer(&wrap.demoBStamp.At)) - uintptr(unsafe.Pointer(&wrap))
		at := seq[7]
		if got := at.RootOffs + at.Offset; got != real {
			t.Errorf("entry 7 (%s): offset %d, real offset %d", at.Name, got, real)
		}
	})

	t.Run("Selection", func(t *testing.T) {
		// 9 fields of the page, by name; "Note" is the 10th entry
		seq := hseq.New[demoBPage]("Note")
		if seq[0].ID != 9 {
			t.Errorf("Note is entry %d, want 9", seq[0].ID)
		}
	})
}
