// probe: dir=hseq run=^(TestSeedD1ForNameFirstMatchInListingOrder)$
// Demonstration test of a seeded property-breaking change (see /verif/seeded/C03/meta.json), kept as a
// directed probe: it passes on the pinned tree and fails when that kind of change is made.
package hseq_test

import (
	"testing"

	"github.com/fogfish/golem/hseq"
)

// C03: lookup by name returns the FIRST entry of the listing whose key
// (hseq tag when present, Go name otherwise) equals the requested name.
func TestSeedD1ForNameFirstMatchInListingOrder(t *testing.T) {
	type T struct {
		ID    string
		Alias string `hseq:"ID"`
		Title string `hseq:"name"`
	}

	seq := hseq.New[T]()

	// field ID (no tag, key "ID") precedes field Alias (tag "ID")
	if f := hseq.ForName(seq, "ID"); f.Name != "ID" || f.ID != 0 {
		t.Errorf("ForName(ID) = %s #%d, want ID #0", f.Name, f.ID)
	}
	if f, has := hseq.ForNameMaybe(seq, "ID"); !has || f.Name != "ID" || f.ID != 0 {
		t.Errorf("ForNameMaybe(ID) = %s #%d %v, want ID #0 true", f.Name, f.ID, has)
	}
	if s := hseq.New[T]("ID"); s[0].Name != "ID" {
		t.Errorf("New(ID) = %s, want ID", s[0].Name)
	}

	// the tag IS the name: a tagged field is not reachable by its Go name
	if f, has := hseq.ForNameMaybe(seq, "Title"); has {
		t.Errorf("ForNameMaybe(Title) = %s #%d, want absent (key is `name`)", f.Name, f.ID)
	}
	func() {
		defer func() {
			if recover() == nil {
				t.Errorf("ForName(Title) must fail loudly, key of the field is `name`")
			}
		}()
		hseq.ForName(seq, "Title")
	}()

	if f := hseq.ForName(seq, "name"); f.Name != "Title" {
		t.Errorf("ForName(name) = %s, want Title", f.Name)
	}
}
