// probe: dir=hseq run=^(TestSeededC03_ShallowOffsets|TestSeededC03_DeepOffsets)$
// Demonstration test of a seeded property-breaking change (see /verif/seeded/C03/meta.json), kept as a
// directed probe: it passes on the pinned tree and fails when that kind of change is made.
// DEMONSTRATION for seeded change C03 (patch.diff).
//
// Place this file in:   /tmp/wt-C03/hseq/   (package hseq_test, module github.com/fogfish/golem/hseq)
// Run with:
//   cd /tmp/wt-C03/hseq && GOFLAGS=-mod=mod GOPROXY=off go test -vet=off -count=1 -run 'TestSeededC03' ./...
//
// Expected: PASS on the original code, FAIL with patch.diff applied
// (TestSeededC03_DeepOffsets fails; TestSeededC03_ShallowOffsets passes in both,
// showing that one level of embedding does not expose the change).

package hseq_test

import (
	"reflect"
	"testing"
	"unsafe"

	"github.com/fogfish/golem/hseq"
)

type c03Leaf struct {
	P uint64
	Q string
}

type c03Mid struct {
	M uint64
	c03Leaf
	N uint32
}

type c03Top struct {
	Head [3]uint64
	c03Mid
	Tail bool
}

type c03Flat struct {
	Head [3]uint64
	c03Leaf
	Tail bool
}

// realOffsets walks the struct exactly as the property describes and returns
// the expected (name, true byte offset) listing for by-value embedding.
func realOffsets(cat reflect.Type, base uintptr, names []string, offs []uintptr) ([]string, []uintptr) {
	for i := 0; i < cat.NumField(); i++ {
		f := cat.Field(i)
		names = append(names, f.Name)
		offs = append(offs, base+f.Offset)
		if f.Anonymous && f.Type.Kind() == reflect.Struct {
			names, offs = realOffsets(f.Type, base+f.Offset, names, offs)
		}
	}
	return names, offs
}

func checkOffsets[T any](t *testing.T) {
	t.Helper()
	seq := hseq.New[T]()
	names, offs := realOffsets(reflect.TypeOf(new(T)).Elem(), 0, nil, nil)

	if len(seq) != len(names) {
		t.Fatalf("listing has %d entries, want %d", len(seq), len(names))
	}
	for i, e := range seq {
		if e.Name != names[i] {
			t.Errorf("entry %d is %q, want %q", i, e.Name, names[i])
		}
		if e.ID != i {
			t.Errorf("entry %d (%s) has ID %d", i, e.Name, e.ID)
		}
		if got := e.RootOffs + e.Offset; got != offs[i] {
			t.Errorf("entry %d (%s): RootOffs(%d)+Offset(%d) = %d, real byte offset is %d",
				i, e.Name, e.RootOffs, e.Offset, got, offs[i])
		}
	}
}

// One level of embedding: fine with and without the change.
func TestSeededC03_ShallowOffsets(t *testing.T) {
	checkOffsets[c03Flat](t)
}

// Two levels of by-value embedding, the outer embedded struct not at offset 0.
func TestSeededC03_DeepOffsets(t *testing.T) {
	checkOffsets[c03Top](t)

	// The same thing shown end-to-end: read a field through the computed offset.
	v := c03Top{}
	v.Q = "deep"
	q := hseq.ForName(hseq.New[c03Top](), "Q")
	got := *(*string)(unsafe.Add(unsafe.Pointer(&v), q.RootOffs+q.Offset))
	if got != "deep" {
		t.Errorf("reading Q through RootOffs+Offset gave %q, want %q", got, "deep")
	}
}
