// probe: dir=hseq run=^(TestSeededP1SameTagDifferentFields|TestSeededP1AcrossTypes)$
// Demonstration test of a seeded property-breaking change (see /verif/seeded/C03/meta.json), kept as a
// directed probe: it passes on the pinned tree and fails when that kind of change is made.
package hseq_test

import (
	"testing"

	"github.com/fogfish/golem/hseq"
)

// Fields that carry the same non-empty struct tag but no `hseq` key must be
// addressable by their own names (C03: "Lookup by name (the hseq tag, when
// present, is the name) ... returns the first matching entry of that listing
// or fails loudly (ForNameMaybe reports absence instead)").

type seededP1Inner struct {
	Secret string `json:"-"`
	Nonce  string `json:"-"`
}

type seededP1Doc struct {
	ID    string `hseq:"id,key" json:"id"`
	Title string `validate:"required"`
	Body  string `validate:"required"`
	seededP1Inner
	Plain int
}

func TestSeededP1SameTagDifferentFields(t *testing.T) {
	seq := hseq.New[seededP1Doc]()

	want := []string{"id", "Title", "Body", "seededP1Inner", "Secret", "Nonce", "Plain"}
	if len(seq) != len(want) {
		t.Fatalf("unexpected listing length %d, want %d", len(seq), len(want))
	}

	// the key of every entry is the hseq tag, when present, else the field name
	for i, e := range seq {
		if key := e.FieldKey(); key != want[i] {
			t.Errorf("entry %d (field %s): FieldKey() = %q, want %q", i, e.Name, key, want[i])
		}
	}

	// every field is found by its own name, and it is the right entry
	for i, name := range want {
		e, ok := hseq.ForNameMaybe(seq, name)
		if !ok {
			t.Errorf("ForNameMaybe(%q) reports absence of an existing field", name)
			continue
		}
		if e.ID != i {
			t.Errorf("ForNameMaybe(%q) returned entry %d (field %s), want entry %d", name, e.ID, e.Name, i)
		}
	}

	// selection by names keeps the requested order
	func() {
		defer func() {
			if r := recover(); r != nil {
				t.Errorf("New(\"Body\", \"Title\", \"Nonce\") failed: %v", r)
			}
		}()
		sel := hseq.New[seededP1Doc]("Body", "Title", "Nonce")
		for i, name := range []string{"Body", "Title", "Nonce"} {
			if sel[i].Name != name {
				t.Errorf("New(...)[%d] is field %s, want %s", i, sel[i].Name, name)
			}
		}
	}()
}

// The same must hold across types: the key of a field does not depend on
// what other struct types have been looked at before.
func TestSeededP1AcrossTypes(t *testing.T) {
	type First struct {
		Alpha int `db:"pk"`
	}
	type Second struct {
		Beta int `db:"pk"`
	}

	a := hseq.New[First]()
	if _, ok := hseq.ForNameMaybe(a, "Alpha"); !ok {
		t.Errorf("First.Alpha not found")
	}

	b := hseq.New[Second]()
	if _, ok := hseq.ForNameMaybe(b, "Beta"); !ok {
		t.Errorf("Second.Beta not found after First has been looked at")
	}
	if e, ok := hseq.ForNameMaybe(b, "Alpha"); ok {
		t.Errorf("Second has no member Alpha, but lookup returned field %s", e.Name)
	}
}
