// probe: dir=hseq run=^(TestD1RootPlusFieldOffsetIsRealOffset)$
// Demonstration test of a seeded property-breaking change (see /verif/seeded/C03/meta.json), kept as a
// directed probe: it passes on the pinned tree and fails when that kind of change is made.
package hseq_test

import (
	"testing"
	"unsafe"

	"github.com/fogfish/golem/hseq"
)

// C03: for every entry reached without crossing a pointer, root offset plus
// field offset equals the field's real byte offset in the outer struct.
type d1Inner struct {
	X int64
	Y string
}

type d1Middle struct {
	Pad int64
	d1Inner
	Z bool
}

type d1Outer struct {
	Head int64
	d1Middle
	Tail int32
}

func TestD1RootPlusFieldOffsetIsRealOffset(t *testing.T) {
	var v d1Outer
	real := map[string]uintptr{
		"Head":     unsafe.Offsetof(v.Head),
		"d1Middle": unsafe.Offsetof(v.d1Middle),
		"Pad":      unsafe.Offsetof(v.d1Middle) + unsafe.Offsetof(v.d1Middle.Pad),
		"d1Inner":  unsafe.Offsetof(v.d1Middle) + unsafe.Offsetof(v.d1Middle.d1Inner),
		"X":        unsafe.Offsetof(v.d1Middle) + unsafe.Offsetof(v.d1Middle.d1Inner) + unsafe.Offsetof(v.d1Middle.d1Inner.X),
		"Y":        unsafe.Offsetof(v.d1Middle) + unsafe.Offsetof(v.d1Middle.d1Inner) + unsafe.Offsetof(v.d1Middle.d1Inner.Y),
		"Z":        unsafe.Offsetof(v.d1Middle) + unsafe.Offsetof(v.d1Middle.Z),
		"Tail":     unsafe.Offsetof(v.Tail),
	}

	seq := hseq.New[d1Outer]()
	if len(seq) != len(real) {
		t.Fatalf("unexpected number of entries %d", len(seq))
	}

	for _, e := range seq {
		// exactly the expression every client of hseq.Type uses to address the field
		if got := e.RootOffs + e.Offset; got != real[e.Name] {
			t.Errorf("%s: RootOffs+Offset = %d, real offset %d", e.Name, got, real[e.Name])
		}
	}
}
