// probe: dir=hseq run=^(TestSeededP5OffsetsAfterEmbeddedPointer|TestSeededP5TopLevelEmbeddedPointer)$
// Demonstration test of a seeded property-breaking change (see /verif/seeded/C03/meta.json), kept as a
// directed probe: it passes on the pinned tree and fails when that kind of change is made.
package hseq_test

import (
	"testing"
	"unsafe"

	"github.com/fogfish/golem/hseq"
)

type seededP5Meta struct{ Key string }

// Body embeds Meta by pointer and continues with plain fields
type seededP5Body struct {
	*seededP5Meta
	Text string
	Size int32
	Done bool
}

// T embeds Body by value, behind other fields (Body does not start at 0)
type seededP5T struct {
	ID int64
	seededP5Body
	Tail uint16
}

func TestSeededP5OffsetsAfterEmbeddedPointer(t *testing.T) {
	var v seededP5T

	base := unsafe.Offsetof(v.seededP5Body)
	expect := map[string]uintptr{
		"ID":           unsafe.Offsetof(v.ID),
		"seededP5Body": base,
		"seededP5Meta": base + unsafe.Offsetof(v.seededP5Body.seededP5Meta),
		"Text":         base + unsafe.Offsetof(v.seededP5Body.Text),
		"Size":         base + unsafe.Offsetof(v.seededP5Body.Size),
		"Done":         base + unsafe.Offsetof(v.seededP5Body.Done),
		"Tail":         unsafe.Offsetof(v.Tail),
	}

	seq := hseq.New[seededP5T]()

	names := []string{"ID", "seededP5Body", "seededP5Meta", "Key", "Text", "Size", "Done", "Tail"}
	if len(seq) != len(names) {
		t.Fatalf("unexpected listing of %d entries", len(seq))
	}

	for i, f := range seq {
		if f.Name != names[i] || f.ID != i {
			t.Errorf("entry %d is %s (ID %d), want %s", i, f.Name, f.ID, names[i])
		}

		// Key is behind the pointer, no claim about its offset
		if want, has := expect[f.Name]; has {
			if got := f.RootOffs + f.Offset; got != want {
				t.Errorf("%s: root offset %d + offset %d = %d, real offset is %d", f.Name, f.RootOffs, f.Offset, got, want)
			}
		}
	}

	for _, name := range []string{"Text", "Size", "Done"} {
		f := hseq.ForName(seq, name)
		if got, want := f.RootOffs+f.Offset, expect[name]; got != want {
			t.Errorf("ForName(%s): offset %d, real offset is %d", name, got, want)
		}
	}

	f := hseq.ForType[int32](seq)
	if got, want := f.RootOffs+f.Offset, expect["Size"]; got != want {
		t.Errorf("ForType[int32]: offset %d, real offset is %d", got, want)
	}
}

// embedding by pointer at the top level (holds before and after)
func TestSeededP5TopLevelEmbeddedPointer(t *testing.T) {
	type T struct {
		ID int64
		*seededP5Meta
		Text string
	}
	var v T

	f := hseq.ForName(hseq.New[T](), "Text")
	if got, want := f.RootOffs+f.Offset, unsafe.Offsetof(v.Text); got != want {
		t.Errorf("Text: offset %d, real offset is %d", got, want)
	}
}
