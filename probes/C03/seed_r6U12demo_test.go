// probe: dir=hseq run=^(TestSeedD2FMap6Positional)$
// Demonstration test of a seeded property-breaking change (see /verif/seeded/C03/meta.json), kept as a
// directed probe: it passes on the pinned tree and fails when that kind of change is made.
package hseq_test

import (
	"testing"

	"github.com/fogfish/golem/hseq"
)

// C03: FMapN hands the i-th entry to the i-th function, also when the
// sequence is longer than N (e.g. the full unfolding of a struct).
func TestSeedD2FMap6Positional(t *testing.T) {
	type T struct {
		F0, F1, F2, F3, F4, F5, F6, F7 int
	}

	name := func(x hseq.Type[T]) string { return x.Name }
	id := func(x hseq.Type[T]) int { return x.ID }

	// exactly six entries
	a, b, c, d, e, f := hseq.FMap6(hseq.New[T]("F0", "F1", "F2", "F3", "F4", "F5"), name, name, name, name, name, name)
	if a+b+c+d+e+f != "F0F1F2F3F4F5" {
		t.Fatalf("FMap6 over 6 entries: %s %s %s %s %s %s", a, b, c, d, e, f)
	}

	// the full listing: eight entries, the first six are used
	a, b, c, d, e, f = hseq.FMap6(hseq.New[T](), name, name, name, name, name, name)
	if a+b+c+d+e+f != "F0F1F2F3F4F5" {
		t.Fatalf("FMap6 over 8 entries: %s %s %s %s %s %s, want F0 .. F5", a, b, c, d, e, f)
	}

	_, _, _, _, _, i := hseq.FMap6(hseq.New[T](), id, id, id, id, id, id)
	if i != 5 {
		t.Fatalf("FMap6: 6th function got entry %d, want 5", i)
	}
}
