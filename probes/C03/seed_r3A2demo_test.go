// probe: dir=hseq run=^(TestSeedD2FMapPositional)$
// Demonstration test of a seeded property-breaking change (see /verif/seeded/C03/meta.json), kept as a
// directed probe: it passes on the pinned tree and fails when that kind of change is made.
package hseq_test

import (
	"testing"

	"github.com/fogfish/golem/hseq"
)

// C03: FMapN hands the i-th entry of the sequence to the i-th function,
// also when the sequence is longer than N (e.g. the full unfolding of T).
func TestSeedD2FMapPositional(t *testing.T) {
	type T struct {
		F1 string
		F2 []byte
		F3 bool
		F4 uint16
		F5 uint
		F6 int32
		F7 int
		F8 float32
		F9 float64
	}

	name := func(x hseq.Type[T]) string { return x.Name }
	id := func(x hseq.Type[T]) int { return x.ID }

	seq := hseq.New[T]()

	a, b, c, d, e, f := hseq.FMap6(seq, name, name, name, name, name, id)
	if a != "F1" || b != "F2" || c != "F3" || d != "F4" || e != "F5" || f != 5 {
		t.Errorf("FMap6 = %v %v %v %v %v %v", a, b, c, d, e, f)
	}

	a, b, c, d, e, f, g := hseq.FMap7(seq, name, name, name, name, name, id, name)
	if a != "F1" || b != "F2" || c != "F3" || d != "F4" || e != "F5" || f != 5 || g != "F7" {
		t.Errorf("FMap7 = %v %v %v %v %v %v %v, want 7th entry F7", a, b, c, d, e, f, g)
	}

	a, b, c, d, e, f, g, h := hseq.FMap8(seq, name, name, name, name, name, id, name, name)
	if a != "F1" || b != "F2" || c != "F3" || d != "F4" || e != "F5" || f != 5 || g != "F7" || h != "F8" {
		t.Errorf("FMap8 = %v %v %v %v %v %v %v %v", a, b, c, d, e, f, g, h)
	}

	// exact length selection
	sel := hseq.New[T]("F9", "F8", "F7", "F6", "F5", "F4", "F3")
	a, b, c, d, e, _, g = hseq.FMap7(sel, name, name, name, name, name, id, name)
	if a != "F9" || b != "F8" || c != "F7" || d != "F6" || e != "F5" || g != "F3" {
		t.Errorf("FMap7(sel) = %v %v %v %v %v %v", a, b, c, d, e, g)
	}
}
