// probe: dir=hseq run=^(TestD8UnfoldIsIndependentOfEarlierCallers)$
// Demonstration test of a seeded property-breaking change (see /verif/seeded/C03/meta.json), kept as a
// directed probe: it passes on the pinned tree and fails when that kind of change is made.
package hseq_test

import (
	"sort"
	"strings"
	"testing"

	"github.com/fogfish/golem/hseq"
)

// C03: unfolding a struct type yields one entry per field in declaration
// order, IDs being the consecutive positions - at every call, whatever a
// caller did with the sequence it was given before.
type d8Row struct {
	Zeta  string
	Alpha int
	Mid   bool
	Beta  float64
}

func d8names[T any](seq hseq.Seq[T]) string {
	return strings.Join(hseq.FMap(seq, func(t hseq.Type[T]) string { return t.Name }), ",")
}

func TestD8UnfoldIsIndependentOfEarlierCallers(t *testing.T) {
	const want = "Zeta,Alpha,Mid,Beta"

	// first caller renders columns alphabetically, it sorts the sequence it owns
	cols := hseq.New[d8Row]()
	if got := d8names(cols); got != want {
		t.Fatalf("first unfold gives %s, want %s", got, want)
	}
	sort.Slice(cols, func(i, j int) bool { return cols[i].Name < cols[j].Name })

	// second caller unfolds the same type
	seq := hseq.New[d8Row]()
	if got := d8names(seq); got != want {
		t.Errorf("second unfold gives %s, want %s", got, want)
	}
	for i, e := range seq {
		if e.ID != i {
			t.Errorf("entry %d (%s) has ID %d", i, e.Name, e.ID)
		}
	}

	// by-type selection builds on the same listing: first string, first int
	sel := hseq.New2[d8Row, string, int]()
	if got := d8names(sel); got != "Zeta,Alpha" {
		t.Errorf("New2 gives %s, want Zeta,Alpha", got)
	}
}
