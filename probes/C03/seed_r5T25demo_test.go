// probe: dir=hseq run=^(TestD5SelectionByNameTakesFirstMatch)$
// Demonstration test of a seeded property-breaking change (see /verif/seeded/C03/meta.json), kept as a
// directed probe: it passes on the pinned tree and fails when that kind of change is made.
package hseq_test

import (
	"testing"

	"github.com/fogfish/golem/hseq"
)

// C03: lookup by name returns the first matching entry of the full listing,
// selection by names keeps the requested order.
type d5Base struct {
	ID   string
	Rank int
}

type d5Audit struct {
	ID string // shadowed by d5Base.ID / outer ID in Go, listed later by hseq
}

type d5Doc struct {
	ID string
	d5Base
	Title string `hseq:"name"`
	d5Audit
	Alias string `hseq:"name"`
}

func TestD5SelectionByNameTakesFirstMatch(t *testing.T) {
	full := hseq.New[d5Doc]()

	for _, name := range []string{"ID", "name", "Rank", "Title"} {
		want, has := hseq.ForNameMaybe(full, name)
		if !has {
			if name != "Title" {
				t.Errorf("%s: not found in the listing", name)
			}
			continue
		}

		// first entry of the listing carrying that name
		for _, e := range full {
			if e.FieldKey() == name {
				if e.ID != want.ID {
					t.Errorf("%s: ForNameMaybe gives entry %d, first match is %d", name, want.ID, e.ID)
				}
				break
			}
		}

		got := hseq.New[d5Doc]("Rank", name)
		if len(got) != 2 || got[0].Name != "Rank" {
			t.Fatalf("%s: unexpected selection %v", name, got)
		}
		if got[1].ID != want.ID || got[1].Offset != want.Offset || got[1].RootOffs != want.RootOffs {
			t.Errorf("New(%q): entry %d (%s at %d+%d), ForName gives entry %d (%s at %d+%d)",
				name, got[1].ID, got[1].Name, got[1].RootOffs, got[1].Offset,
				want.ID, want.Name, want.RootOffs, want.Offset)
		}
	}
}
