// probe: dir=hseq run=^(TestSeededP6SelectionReturnsFirstMatch|TestSeededP6SelectionByTag)$
// Demonstration test of a seeded property-breaking change (see /verif/seeded/C03/meta.json), kept as a
// directed probe: it passes on the pinned tree and fails when that kind of change is made.
package hseq_test

import (
	"reflect"
	"testing"

	"github.com/fogfish/golem/hseq"
)

// The key "ID" occurs twice: Head.ID and, later in the listing, Tail.ID.
// The key "ref" occurs twice too: the tagged Head.Link and the tagged Tail.Back.
type seededP6Head struct {
	ID   int
	Link string `hseq:"ref,omitempty"`
}
type seededP6Tail struct {
	ID   string
	Back []byte `hseq:"ref"`
}
type seededP6T struct {
	seededP6Head
	F1 string
	F2 bool
	F3 float64
	seededP6Tail
}

func TestSeededP6SelectionReturnsFirstMatch(t *testing.T) {
	type T = seededP6T

	all := hseq.New[T]()
	// listing: Head(0) ID(1) Link(2) F1(3) F2(4) F3(5) Tail(6) ID(7) Back(8)
	first := hseq.ForName(all, "ID")
	if first.ID != 1 || first.Type != reflect.TypeOf(0) {
		t.Fatalf("ForName(ID) is entry %d of type %v", first.ID, first.Type)
	}

	for n := 1; n <= 5; n++ {
		names := []string{"ID", "F1", "F2", "F3", "ref"}[:n]
		seq := hseq.New[T](names...)

		if len(seq) != n {
			t.Fatalf("%d names selected %d entries", n, len(seq))
		}

		if seq[0].ID != 1 || seq[0].Type != reflect.TypeOf(0) {
			t.Errorf("New(%v)[0]: entry %d (%s %v), want the first match: entry 1 (ID int)",
				names, seq[0].ID, seq[0].Name, seq[0].Type)
		}

		for i, name := range names {
			want := hseq.ForName(all, name)
			if seq[i].ID != want.ID || seq[i].Name != want.Name {
				t.Errorf("New(%v)[%d]: entry %d (%s), ForName(%s) is entry %d (%s)",
					names, i, seq[i].ID, seq[i].Name, name, want.ID, want.Name)
			}
		}
	}
}

func TestSeededP6SelectionByTag(t *testing.T) {
	type T = seededP6T

	seq := hseq.New[T]("F3", "F2", "ref", "F1")
	got := hseq.FMap(seq, func(t hseq.Type[T]) string { return t.Name })
	want := []string{"F3", "F2", "Link", "F1"}

	if !reflect.DeepEqual(got, want) {
		t.Errorf("New(F3, F2, ref, F1) selected %v, want %v", got, want)
	}
}
