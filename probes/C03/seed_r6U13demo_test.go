// probe: dir=hseq run=^(TestSeedD3ForNameMaybePresence)$
// Demonstration test of a seeded property-breaking change (see /verif/seeded/C03/meta.json), kept as a
// directed probe: it passes on the pinned tree and fails when that kind of change is made.
package hseq_test

import (
	"testing"

	"github.com/fogfish/golem/hseq"
)

// C03: ForNameMaybe reports presence for every entry of the listing
// (the first one, ID 0, included) and absence only for unknown names.
func TestSeedD3ForNameMaybePresence(t *testing.T) {
	type In struct{ K string }
	type T struct {
		ID   string `hseq:"id"`
		Name string
		In
	}

	seq := hseq.New[T]()

	for i, name := range []string{"id", "Name", "In", "K"} {
		f, ok := hseq.ForNameMaybe(seq, name)
		if !ok {
			t.Fatalf("ForNameMaybe(%q) reports absence of an existing field", name)
		}
		if f.ID != i || f.FieldKey() != name {
			t.Fatalf("ForNameMaybe(%q) = entry %d (%s)", name, f.ID, f.FieldKey())
		}
	}

	for _, name := range []string{"ID", "nope", ""} {
		if _, ok := hseq.ForNameMaybe(seq, name); ok {
			t.Fatalf("ForNameMaybe(%q) reports presence of an unknown name", name)
		}
	}

	// a selection keeps the IDs of the full listing
	sel := hseq.New[T]("Name", "id")
	if _, ok := hseq.ForNameMaybe(sel, "id"); !ok {
		t.Fatalf("ForNameMaybe(selection, id) reports absence")
	}
}
