// probe: dir=hseq run=TestProbeC03
package hseq_test

import (
	"fmt"
	"reflect"
	"testing"
	"unsafe"

	"github.com/fogfish/golem/hseq"
)

// Directed probe for C03: listing order, IDs, offsets (value embedding to depth 3 with
// padding), lookups by name/tag/type (first match), selection order, FMapN positions, and a
// type whose printed name equals that of a field's type without being that type.
type D3 struct {
	P bool
	Q int64
}

type D2 struct {
	F int8
	D3
	G string
}

type D1 struct {
	X int16
	D2
	Y []byte
}

type PE struct {
	Z int32
}

type Root struct {
	Head bool
	E    string `hseq:"ee,omitempty"`
	D1
	*PE
	Tail int64 `hseq:"E"`
	name string
}

type Legacy struct{ v int }

func (Legacy) M() {}

type Holder struct {
	A int
	L Legacy
	B string
}

func TestProbeC03(t *testing.T) {
	seq := hseq.New[Root]()
	want := []string{"Head", "E", "D1", "X", "D2", "F", "D3", "P", "Q", "G", "Y", "PE", "Z", "Tail", "name"}
	if len(seq) != len(want) {
		t.Fatalf("listing has %d entries, want %d: %v", len(seq), len(want), want)
	}
	var r Root
	real := map[string]uintptr{
		"Head": unsafe.Offsetof(r.Head), "E": unsafe.Offsetof(r.E), "D1": unsafe.Offsetof(r.D1),
		"X": unsafe.Offsetof(r.D1) + unsafe.Offsetof(r.D1.X), "D2": unsafe.Offsetof(r.D1) + unsafe.Offsetof(r.D1.D2),
		"F": unsafe.Offsetof(r.D1) + unsafe.Offsetof(r.D1.D2) + unsafe.Offsetof(r.D1.D2.F),
		"D3": unsafe.Offsetof(r.D1) + unsafe.Offsetof(r.D1.D2) + unsafe.Offsetof(r.D1.D2.D3),
		"P":  unsafe.Offsetof(r.D1) + unsafe.Offsetof(r.D1.D2) + unsafe.Offsetof(r.D1.D2.D3) + unsafe.Offsetof(r.D1.D2.D3.P),
		"Q":  unsafe.Offsetof(r.D1) + unsafe.Offsetof(r.D1.D2) + unsafe.Offsetof(r.D1.D2.D3) + unsafe.Offsetof(r.D1.D2.D3.Q),
		"G":  unsafe.Offsetof(r.D1) + unsafe.Offsetof(r.D1.D2) + unsafe.Offsetof(r.D1.D2.G),
		"Y":  unsafe.Offsetof(r.D1) + unsafe.Offsetof(r.D1.Y), "PE": unsafe.Offsetof(r.PE), "Tail": unsafe.Offsetof(r.Tail), "name": unsafe.Offsetof(r.name),
	}
	for i, e := range seq {
		if e.Name != want[i] || e.ID != i {
			t.Fatalf("entry %d is %s with ID %d, want %s with ID %d", i, e.Name, e.ID, want[i], i)
		}
		if e.Name == "Z" {
			continue // reached through a pointer
		}
		if e.RootOffs+e.Offset != real[e.Name] {
			t.Fatalf("entry %s: RootOffs(%d)+Offset(%d) = %d, real byte offset is %d", e.Name, e.RootOffs, e.Offset, e.RootOffs+e.Offset, real[e.Name])
		}
	}
	// names: the tag is the name when present; first match; requested order kept
	if f := hseq.ForName(seq, "E"); f.Name != "Tail" {
		t.Fatalf("ForName(E) = %s, want Tail (the field E is tagged ee)", f.Name)
	}
	if f := hseq.ForName(seq, "ee"); f.Name != "E" {
		t.Fatalf("ForName(ee) = %s", f.Name)
	}
	if _, ok := hseq.ForNameMaybe(seq, "nope"); ok {
		t.Fatalf("ForNameMaybe reports an absent name")
	}
	sel := hseq.New[Root]("Q", "Head", "G")
	if len(sel) != 3 || sel[0].Name != "Q" || sel[1].Name != "Head" || sel[2].Name != "G" {
		t.Fatalf("selection by names lost the requested order: %v", sel)
	}
	if f := hseq.ForType[int64](seq); f.Name != "Q" {
		t.Fatalf("ForType[int64] = %s, want Q (first in the listing)", f.Name)
	}
	a, b, c := hseq.FMap3(hseq.New3[Root, string, bool, int64](), func(t hseq.Type[Root]) string { return t.Name }, func(t hseq.Type[Root]) string { return t.Name }, func(t hseq.Type[Root]) string { return t.Name })
	if a != "E" || b != "Head" || c != "Q" {
		t.Fatalf("New3/FMap3 positions: %s %s %s", a, b, c)
	}
	func() {
		defer func() {
			if recover() == nil {
				t.Fatalf("ForName of an unknown name did not panic")
			}
		}()
		hseq.ForName(seq, "missing")
	}()
	// a type that prints like the type of field L but is not that type (an interface
	// declared in function scope that the struct type happens to implement): no field of
	// Holder has this type, the lookup must fail loudly
	type Legacy interface{ M() }
	if reflect.TypeOf(new(Legacy)).Elem().String() != reflect.TypeOf(Holder{}.L).String() {
		t.Skip("this toolchain prints local types differently")
	}
	func() {
		defer func() {
			if recover() == nil {
				t.Fatalf("ForType[%v] returned field %q of type %v although no field has the requested type", reflect.TypeOf(new(Legacy)).Elem(), "L", reflect.TypeOf(Holder{}.L))
			}
		}()
		f := hseq.ForType[Legacy](hseq.New[Holder]())
		_ = fmt.Sprint(f.Name)
	}()
}
