// probe: dir=pipe run=TestProbeC12
package pipe_test

import (
	"context"
	"fmt"
	"sort"
	"testing"
	"time"

	"github.com/fogfish/golem/pipe/v2"
)

// Directed probe for C12: 0..4 inputs of different lengths and capacities, live producers;
// the output is an interleaving (multiset equal, per-input order kept) and closes after all
// inputs closed - also with no input at all.
func TestProbeC12(t *testing.T) {
	ctx := context.Background()
	for k := 0; k <= 4; k++ {
		for cap := 0; cap <= 2; cap++ {
			var ins []<-chan int
			total := 0
			for j := 0; j < k; j++ {
				ch := make(chan int, cap)
				n := 200 * (j + 1)
				total += n
				go func(j, n int) {
					for i := 0; i < n; i++ {
						ch <- j*100000 + i
					}
					close(ch)
				}(j, n)
				ins = append(ins, ch)
			}
			out := pipe.Join(ctx, ins...)
			last := map[int]int{}
			count := 0
			deadline := time.After(5 * time.Second)
			for open := true; open; {
				select {
				case v, ok := <-out:
					if !ok {
						open = false
						break
					}
					j, i := v/100000, v%100000
					if p, seen := last[j]; seen && i != p+1 || !seen && i != 0 {
						t.Fatalf("k=%d cap=%d: input %d delivered element %d after %d (lost, duplicated or reordered)", k, cap, j, i, last[j])
					}
					last[j] = i
					count++
				case <-deadline:
					t.Fatalf("k=%d cap=%d: Join output never closes (%d of %d received)", k, cap, count, total)
				}
			}
			if count != total {
				t.Fatalf("k=%d cap=%d: %d elements, want %d", k, cap, count, total)
			}
			var keys []int
			for j := range last {
				keys = append(keys, j)
			}
			sort.Ints(keys)
			_ = fmt.Sprint(keys)
		}
	}
}
