// probe: dir=optics run=^(TestDemoB_PointerToZeroSizeType)$
// Demonstration test of a seeded property-breaking change (see /verif/seeded/C01/meta.json), kept as a
// directed probe: it passes on the pinned tree and fails when that kind of change is made.
package optics_test

import (
	"testing"

	"github.com/fogfish/golem/optics"
)

// A marker type of zero size and a struct that keeps a *pointer* to it
// (a common "optional flag" / "unit" idiom) between ordinary fields.
type demoBUnit struct{}

type demoBT struct {
	Before int64
	Flag   *demoBUnit
	After  int64
}

func TestDemoB_PointerToZeroSizeType(t *testing.T) {
	unit := &demoBUnit{}

	t.Run("Lens", func(t *testing.T) {
		lf := optics.ForProduct1[demoBT, *demoBUnit]()

		// PutGet: the field becomes equal to the given value
		v := demoBT{Before: 1, After: 2}
		if r := lf.Put(&v, unit); r != &v {
			t.Errorf("Put returned a different pointer")
		}
		if v.Flag != unit {
			t.Errorf("Put(unit): field Flag = %p, want %p", v.Flag, unit)
		}
		if got := lf.Get(&v); got != unit {
			t.Errorf("PutGet: Get = %p, want %p", got, unit)
		}
		if v.Before != 1 || v.After != 2 {
			t.Errorf("neighbours changed: %+v", v)
		}

		// PutPut: the second put wins
		w := demoBT{Before: 1, Flag: unit, After: 2}
		lf.Put(lf.Put(&w, unit), nil)
		if w.Flag != nil {
			t.Errorf("PutPut: field Flag = %p, want nil", w.Flag)
		}
	})

	t.Run("Lens/ByName", func(t *testing.T) {
		lf := optics.ForProduct1[demoBT, *demoBUnit]("Flag")

		v := demoBT{Before: 1, After: 2}
		lf.Put(&v, unit)
		if v.Flag != unit {
			t.Errorf("Put(unit): field Flag = %p, want %p", v.Flag, unit)
		}
	})

	t.Run("Reflector", func(t *testing.T) {
		rf := optics.ForSpectrum1[demoBT, *demoBUnit]()

		v := demoBT{Before: 1, After: 2}
		rf.Putt(&v, unit)
		if v.Flag != unit {
			t.Errorf("Putt(unit): field Flag = %p, want %p", v.Flag, unit)
		}
		if got := rf.Gett(&v); got != unit {
			t.Errorf("PuttGett: Gett = %p, want %p", got, unit)
		}
	})
}
