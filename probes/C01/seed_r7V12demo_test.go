// probe: dir=optics run=^(TestSeededP2LensesOfOneContainer|TestSeededP2ReflectorsOfOneContainer)$
// Demonstration test of a seeded property-breaking change (see /verif/seeded/C01/meta.json), kept as a
// directed probe: it passes on the pinned tree and fails when that kind of change is made.
package optics_test

import (
	"testing"

	"github.com/fogfish/golem/optics"
)

// Two embedded structs, each with an int as its first field.
type seededP2Head struct {
	Seq  int
	Name string
}
type seededP2Tail struct {
	Sum  int
	Note string
}
type seededP2T struct {
	seededP2Head
	seededP2Tail
}

func TestSeededP2LensesOfOneContainer(t *testing.T) {
	type T = seededP2T

	// both lenses are derived in the same process, one after another
	seq := optics.ForProduct1[T, int]("Seq")
	sum := optics.ForProduct1[T, int]("Sum")

	v := T{
		seededP2Head: seededP2Head{Seq: 1, Name: "head"},
		seededP2Tail: seededP2Tail{Sum: 2, Note: "tail"},
	}

	if got := seq.Get(&v); got != 1 {
		t.Errorf("Seq lens: Get = %d, want 1", got)
	}
	if got := sum.Get(&v); got != 2 {
		t.Errorf("Sum lens: Get = %d, want 2", got)
	}

	sum.Put(&v, 20)
	if v.Sum != 20 {
		t.Errorf("Sum lens: Put did not write Sum: %+v", v)
	}
	if v.Seq != 1 || v.Name != "head" || v.Note != "tail" {
		t.Errorf("Sum lens: Put changed other fields: %+v", v)
	}
}

func TestSeededP2ReflectorsOfOneContainer(t *testing.T) {
	type T = seededP2T

	name := optics.ForSpectrum1[T, string]("Name")
	note := optics.ForSpectrum1[T, string]("Note")

	v := T{
		seededP2Head: seededP2Head{Seq: 1, Name: "head"},
		seededP2Tail: seededP2Tail{Sum: 2, Note: "tail"},
	}

	if got := note.Gett(&v); got != "tail" {
		t.Errorf("Note reflector: Gett = %q, want tail", got)
	}
	note.Putt(&v, "x")
	name.Putt(&v, "y")
	if v.Name != "y" || v.Note != "x" {
		t.Errorf("reflectors wrote wrong fields: %+v", v)
	}
}
