// probe: dir=optics run=^(TestSeededC01P2)$
// Demonstration test of a seeded property-breaking change (see /verif/seeded/C01/meta.json), kept as a
// directed probe: it passes on the pinned tree and fails when that kind of change is made.
// Demonstration for the OPTIONAL second seeded change (patch2.diff).
//
// PLACE IN : <golem checkout>/optics/seeded_c01_patch2_test.go   (package optics_test)
// RUN WITH : cd <golem checkout>/optics && \
//            GOFLAGS=-mod=mod GOPROXY=off go test -vet=off -count=1 -run 'TestSeededC01P2' .
//
// Expected : PASS on the original code, FAIL with patch2.diff applied.
//
// A lens derived BY NAME carries a witness type A chosen by the caller. The
// constructor must only hand out a lens whose A has exactly the field's type
// (and memory layout); otherwise it has to refuse (it panics). The test asks,
// by name, for a lens typed with an INTERFACE that the field's concrete type
// implements. Either the derivation is refused, or the lens returned must obey
// the frame rule: Put changes the named field and nothing else.
package optics_test

import (
	"bytes"
	"io"
	"testing"

	"github.com/fogfish/golem/optics"
)

type c01p2Num struct {
	X int64
	Y int64 // right behind X
}

type c01p2Doc struct {
	Body *bytes.Buffer
	Size uintptr // right behind Body
}

func c01p2Refused(f func()) (refused bool) {
	defer func() {
		if recover() != nil {
			refused = true
		}
	}()
	f()
	return false
}

func TestSeededC01P2(t *testing.T) {
	t.Run("Lens/any", func(t *testing.T) {
		var lens optics.Lens[c01p2Num, any]
		if c01p2Refused(func() { lens = optics.ForProduct1[c01p2Num, any]("X") }) {
			t.Log("derivation refused (ok)")
			return
		}

		s := c01p2Num{X: 1, Y: 2}
		lens.Put(&s, any(int64(7)))
		if s.Y != 2 {
			t.Errorf("Put through lens of X changed Y: %#x", s.Y)
		}
		if s.X != 7 {
			t.Errorf("Put through lens of X left X = %#x, want 7", s.X)
		}
	})

	t.Run("Reflector/any", func(t *testing.T) {
		var refl optics.Reflector[any]
		if c01p2Refused(func() { refl = optics.ForSpectrum1[c01p2Num, any]("X") }) {
			t.Log("derivation refused (ok)")
			return
		}

		s := c01p2Num{X: 1, Y: 2}
		refl.Putt(&s, any(int64(7)))
		if s.Y != 2 {
			t.Errorf("Putt through reflector of X changed Y: %#x", s.Y)
		}
		if s.X != 7 {
			t.Errorf("Putt through reflector of X left X = %#x, want 7", s.X)
		}
	})

	t.Run("Lens/io.Reader", func(t *testing.T) {
		var lens optics.Lens[c01p2Doc, io.Reader]
		if c01p2Refused(func() { lens = optics.ForProduct1[c01p2Doc, io.Reader]("Body") }) {
			t.Log("derivation refused (ok)")
			return
		}

		s := c01p2Doc{Body: nil, Size: 42}
		lens.Put(&s, io.Reader(bytes.NewBufferString("x")))
		size := s.Size
		s.Body = nil // do not leave a non-object word in a pointer slot
		if size != 42 {
			t.Errorf("Put through lens of Body changed Size: %#x", size)
		}
	})

	// the legitimate derivations keep working in both versions
	t.Run("Exact", func(t *testing.T) {
		lx := optics.ForProduct1[c01p2Num, int64]("X")
		lb := optics.ForProduct1[c01p2Doc, *bytes.Buffer]("Body")

		s := c01p2Num{X: 1, Y: 2}
		lx.Put(&s, 7)
		if s != (c01p2Num{X: 7, Y: 2}) {
			t.Errorf("unexpected %+v", s)
		}

		b := bytes.NewBufferString("x")
		d := c01p2Doc{Size: 42}
		lb.Put(&d, b)
		if d.Body != b || d.Size != 42 || lb.Get(&d) != b {
			t.Errorf("unexpected %+v", d)
		}
	})
}
