// probe: dir=optics run=^(TestD4ZeroSizeContainer)$
// Demonstration test of a seeded property-breaking change (see /verif/seeded/C01/meta.json), kept as a
// directed probe: it passes on the pinned tree and fails when that kind of change is made.
package optics_test

import (
	"fmt"
	"testing"

	"github.com/fogfish/golem/optics"
)

type d4Unit struct{}

// a container made of zero-size fields only
type d4Flags struct {
	Done d4Unit
	Pad  [0]int64
}

// the zero-size container embedded by value between two plain fields
type d4Msg struct {
	ID int
	d4Flags
	Text string
}

func d4Derive[T any](what string, f func() T) (lens T, err any) {
	defer func() {
		if r := recover(); r != nil {
			err = fmt.Sprintf("deriving %s panics: %v", what, r)
		}
	}()
	return f(), nil
}

// C01/C02: a lens is derived for every field of every struct layout, the
// zero-size ones included, and obeys the laws without touching anything else.
func TestD4ZeroSizeContainer(t *testing.T) {
	byName, err := d4Derive("Lens[d4Flags, d4Unit](Done)", func() optics.Lens[d4Flags, d4Unit] {
		return optics.ForProduct1[d4Flags, d4Unit]("Done")
	})
	if err != nil {
		t.Error(err)
	} else {
		s := d4Flags{}
		if byName.Put(&s, d4Unit{}) != &s || byName.Get(&s) != (d4Unit{}) {
			t.Errorf("Lens[d4Flags, d4Unit] breaks PutGet")
		}
	}

	if _, err := d4Derive("Lens[d4Flags, d4Unit] by type", func() optics.Lens[d4Flags, d4Unit] {
		return optics.ForProduct1[d4Flags, d4Unit]()
	}); err != nil {
		t.Error(err)
	}

	if _, err := d4Derive("Lens[d4Flags, [0]int64](Pad)", func() optics.Lens[d4Flags, [0]int64] {
		return optics.ForProduct1[d4Flags, [0]int64]("Pad")
	}); err != nil {
		t.Error(err)
	}

	if _, err := d4Derive("Reflector[d4Flags, d4Unit](Done)", func() optics.Reflector[d4Unit] {
		return optics.ForSpectrum1[d4Flags, d4Unit]("Done")
	}); err != nil {
		t.Error(err)
	}

	inner, err := d4Derive("Lens[d4Msg, d4Unit](Done)", func() optics.Lens[d4Msg, d4Unit] {
		return optics.ForProduct1[d4Msg, d4Unit]("Done")
	})
	if err != nil {
		t.Error(err)
	} else {
		s := d4Msg{ID: 7, Text: "text"}
		if inner.Put(&s, d4Unit{}) != &s || s.ID != 7 || s.Text != "text" {
			t.Errorf("Lens[d4Msg, d4Unit] changes its container: %+v", s)
		}
	}

	// sanity: the plain neighbours of the zero-size container stay derivable
	txt, err := d4Derive("Lens[d4Msg, string](Text)", func() optics.Lens[d4Msg, string] {
		return optics.ForProduct1[d4Msg, string]("Text")
	})
	if err != nil {
		t.Error(err)
	} else {
		s := d4Msg{ID: 7, Text: "text"}
		if txt.Put(&s, "new"); s.ID != 7 || s.Text != "new" || txt.Get(&s) != "new" {
			t.Errorf("Lens[d4Msg, string] = %+v", s)
		}
	}
}
