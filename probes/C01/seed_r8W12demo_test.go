// probe: dir=optics run=^(TestSeededP2LensBehindLargeArray|TestSeededP2ReflectorBehindLargeArrayEmbedded)$
// Demonstration test of a seeded property-breaking change (see /verif/seeded/C01/meta.json), kept as a
// directed probe: it passes on the pinned tree and fails when that kind of change is made.
package optics_test

import (
	"testing"

	"github.com/fogfish/golem/optics"
)

// A struct with an inline buffer: the fields behind the buffer are located
// further than 64 KiB from the beginning of the struct.
type seededP2Frame struct {
	Seq     uint32
	Payload [1 << 16]byte
	Len     int64
	CRC     uint32
}

type seededP2Header struct {
	Kind int32
	Size int64
}

type seededP2Packet struct {
	Body [70000]byte
	seededP2Header
}

func TestSeededP2LensBehindLargeArray(t *testing.T) {
	length := optics.ForProduct1[seededP2Frame, int64]("Len")
	crc := optics.ForProduct1[seededP2Frame, uint32]("CRC")

	f := new(seededP2Frame)
	f.Seq = 0xCAFE
	for i := range f.Payload {
		f.Payload[i] = byte(i)
	}
	f.Len = 11
	f.CRC = 22
	orig := *f

	if v := length.Get(f); v != 11 {
		t.Errorf("Len lens: Get = %d, want 11", v)
	}
	if v := crc.Get(f); v != 22 {
		t.Errorf("CRC lens: Get = %d, want 22", v)
	}

	if p := length.Put(f, 1234567890123); p != f {
		t.Errorf("Put returned a different pointer")
	}
	crc.Put(f, 0xDEADBEEF)

	if f.Len != 1234567890123 {
		t.Errorf("after Put: Len = %d, want 1234567890123", f.Len)
	}
	if f.CRC != 0xDEADBEEF {
		t.Errorf("after Put: CRC = %x, want deadbeef", f.CRC)
	}
	if f.Seq != orig.Seq {
		t.Errorf("Put changed Seq: %x, want %x", f.Seq, orig.Seq)
	}
	if f.Payload != orig.Payload {
		for i := range f.Payload {
			if f.Payload[i] != orig.Payload[i] {
				t.Errorf("Put changed Payload[%d]: %d, want %d", i, f.Payload[i], orig.Payload[i])
				break
			}
		}
	}
}

func TestSeededP2ReflectorBehindLargeArrayEmbedded(t *testing.T) {
	kind, size := optics.ForSpectrum2[seededP2Packet, int32, int64]()

	p := new(seededP2Packet)
	for i := range p.Body {
		p.Body[i] = 0x55
	}
	p.Kind, p.Size = 3, 4
	orig := *p

	if a, b := kind.Gett(p), size.Gett(p); a != 3 || b != 4 {
		t.Errorf("Gett = %d, %d, want 3, 4", a, b)
	}

	kind.Putt(p, -1)
	size.Putt(p, -2)

	if p.Kind != -1 || p.Size != -2 {
		t.Errorf("after Putt: Kind, Size = %d, %d, want -1, -2", p.Kind, p.Size)
	}
	if p.Body != orig.Body {
		t.Errorf("Putt changed Body")
	}
}
