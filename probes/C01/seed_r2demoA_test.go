// probe: dir=optics run=^(TestDemoA_SameRelativeOffsetInTwoEmbeddedStructs)$
// Demonstration test of a seeded property-breaking change (see /verif/seeded/C01/meta.json), kept as a
// directed probe: it passes on the pinned tree and fails when that kind of change is made.
package optics_test

import (
	"testing"

	"github.com/fogfish/golem/optics"
)

// Two value-embedded structs, each starting with a field of the same type.
// Both `X` and `Y` have the *relative* offset 0 inside their parent, they
// differ only by the offset of the parent (hseq's RootOffs).
type demoAHead struct {
	X int64
	P int64
}

type demoATail struct {
	Y int64
	Q int64
}

type demoAT struct {
	Guard0 int64
	demoAHead
	demoATail
	Guard1 int64
}

func TestDemoA_SameRelativeOffsetInTwoEmbeddedStructs(t *testing.T) {
	lx := optics.ForProduct1[demoAT, int64]("X")
	ly := optics.ForProduct1[demoAT, int64]("Y")

	v := demoAT{
		Guard0:    -1,
		demoAHead: demoAHead{X: 1, P: 2},
		demoATail: demoATail{Y: 3, Q: 4},
		Guard1:    -2,
	}

	// Get returns exactly the field's current value
	if got := lx.Get(&v); got != 1 {
		t.Errorf("lens X: Get = %d, want 1", got)
	}
	if got := ly.Get(&v); got != 3 {
		t.Errorf("lens Y: Get = %d, want 3", got)
	}

	// Put changes the field and nothing else
	if r := ly.Put(&v, 30); r != &v {
		t.Errorf("lens Y: Put returned a different pointer")
	}
	want := demoAT{
		Guard0:    -1,
		demoAHead: demoAHead{X: 1, P: 2},
		demoATail: demoATail{Y: 30, Q: 4},
		Guard1:    -2,
	}
	if v != want {
		t.Errorf("after Put(Y, 30): got %+v, want %+v", v, want)
	}

	// PutGet
	if got := ly.Get(&v); got != 30 {
		t.Errorf("lens Y: PutGet = %d, want 30", got)
	}

	// same through the Reflector derivation
	ry := optics.ForSpectrum1[demoAT, int64]("Y")
	ry.Putt(&v, 31)
	want.demoATail.Y = 31
	if v != want {
		t.Errorf("after Putt(Y, 31): got %+v, want %+v", v, want)
	}
}
