// probe: dir=optics run=TestAxiomLayout
package optics_test

import (
	"math/rand"
	"reflect"
	"testing"
	"unsafe"

	"github.com/fogfish/golem/hseq"
)

// Validation (bounded testing, never counted as proved) of the axioms the proofs of C01-C03
// take from `reflect` and `unsafe` (DESIGN.md section 9):
//
//  A1  reflect reports the true layout: for a field reached through plain and value-embedded
//      structs, the sum of the reflect offsets along the path is the distance between the
//      address the compiler takes for that field and the address of the struct;
//  A2  distinct leaf fields occupy disjoint byte ranges inside [0, Sizeof(struct));
//  A3  *(*A)(unsafe.Pointer(uintptr(p)+o)) reads and writes exactly that field when (o, A)
//      is the location of a field of type A;
//  A4  identical types have equal String() and are mutually AssignableTo;
//  A5  the listing hseq.New[T]() (the function under proof) agrees with A1 on these shapes -
//      which ties the spec function `flatten` to the compiler's addresses.
//
// Declared shapes cover mixed alignment, padding holes, zero-size fields, arrays, interfaces,
// embedding to depth 3; random shapes (reflect.StructOf, nested by value) cover A1/A2 on a
// few hundred layouts nobody wrote by hand.

type axD3 struct {
	P bool
	Q int64
	R [3]int16
}

type axD2 struct {
	F int8
	axD3
	G string
	Z struct{}
}

type axD1 struct {
	X int16
	axD2
	Y []byte
	I any
}

type axRoot struct {
	Head bool
	E    string
	axD1
	Tail uint32
	ptr  *int
	last uint8
}

func TestAxiomLayout(t *testing.T) {
	var s axRoot
	base := uintptr(unsafe.Pointer(&s))

	// A1 on declared shapes: compiler addresses against sums of reflect offsets
	type loc struct {
		path []string
		addr uintptr
		typ  reflect.Type
	}
	locs := []loc{
		{[]string{"Head"}, uintptr(unsafe.Pointer(&s.Head)), reflect.TypeOf(s.Head)},
		{[]string{"E"}, uintptr(unsafe.Pointer(&s.E)), reflect.TypeOf(s.E)},
		{[]string{"axD1", "X"}, uintptr(unsafe.Pointer(&s.axD1.X)), reflect.TypeOf(s.X)},
		{[]string{"axD1", "axD2", "F"}, uintptr(unsafe.Pointer(&s.axD1.axD2.F)), reflect.TypeOf(s.F)},
		{[]string{"axD1", "axD2", "axD3", "P"}, uintptr(unsafe.Pointer(&s.axD1.axD2.axD3.P)), reflect.TypeOf(s.P)},
		{[]string{"axD1", "axD2", "axD3", "Q"}, uintptr(unsafe.Pointer(&s.axD1.axD2.axD3.Q)), reflect.TypeOf(s.Q)},
		{[]string{"axD1", "axD2", "axD3", "R"}, uintptr(unsafe.Pointer(&s.axD1.axD2.axD3.R)), reflect.TypeOf(s.R)},
		{[]string{"axD1", "axD2", "G"}, uintptr(unsafe.Pointer(&s.axD1.axD2.G)), reflect.TypeOf(s.G)},
		{[]string{"axD1", "axD2", "Z"}, uintptr(unsafe.Pointer(&s.axD1.axD2.Z)), reflect.TypeOf(s.Z)},
		{[]string{"axD1", "Y"}, uintptr(unsafe.Pointer(&s.axD1.Y)), reflect.TypeOf(s.Y)},
		{[]string{"axD1", "I"}, uintptr(unsafe.Pointer(&s.axD1.I)), reflect.TypeOf(&s.I).Elem()},
		{[]string{"Tail"}, uintptr(unsafe.Pointer(&s.Tail)), reflect.TypeOf(s.Tail)},
		{[]string{"ptr"}, uintptr(unsafe.Pointer(&s.ptr)), reflect.TypeOf(s.ptr)},
		{[]string{"last"}, uintptr(unsafe.Pointer(&s.last)), reflect.TypeOf(s.last)},
	}
	for _, l := range locs {
		ty := reflect.TypeOf(s)
		var sum uintptr
		for _, name := range l.path {
			f, ok := ty.FieldByNameFunc(func(n string) bool { return n == name })
			if !ok || len(f.Index) != 1 {
				// FieldByNameFunc looks through embedded structs: take the direct field
				f, ok = directField(ty, name)
			}
			if !ok {
				t.Fatalf("A1: no field %s in %s", name, ty)
			}
			sum += f.Offset
			ty = f.Type
		}
		if sum != l.addr-base {
			t.Errorf("A1: %v: reflect offsets sum to %d, the compiler places the field at %d", l.path, sum, l.addr-base)
		}
		if ty != l.typ {
			t.Errorf("A1: %v: reflect type %s, declared type %s", l.path, ty, l.typ)
		}
		// A4
		if ty.String() != l.typ.String() || !ty.AssignableTo(l.typ) || !l.typ.AssignableTo(ty) {
			t.Errorf("A4: identical types %s / %s differ in String() or AssignableTo", ty, l.typ)
		}
	}

	// A3: a typed access at (offset, type) is the field
	s.Q = 0x1122334455667788
	if got := *(*int64)(unsafe.Pointer(base + (uintptr(unsafe.Pointer(&s.Q)) - base))); got != s.Q {
		t.Errorf("A3: read through the raw location gives %x", got)
	}
	before := s
	*(*int64)(unsafe.Pointer(base + (uintptr(unsafe.Pointer(&s.Q)) - base))) = 7
	before.Q = 7
	if !reflect.DeepEqual(before, s) {
		t.Errorf("A3: a write through the raw location changed something other than the field")
	}

	// A5: the listing under proof against compiler addresses
	for _, e := range hseq.New[axRoot]() {
		if e.Type.Kind() == reflect.Struct && e.Anonymous {
			continue
		}
		var want uintptr
		found := false
		for _, l := range locs {
			if l.path[len(l.path)-1] == e.Name && l.typ == e.Type {
				want, found = l.addr-base, true
			}
		}
		if found && e.RootOffs+e.Offset != want {
			t.Errorf("A5: hseq lists %s at %d, the compiler places it at %d", e.Name, e.RootOffs+e.Offset, want)
		}
	}

	// A1/A2 on random shapes
	rnd := rand.New(rand.NewSource(20261001))
	for n := 0; n < 300; n++ {
		ty := randomStruct(rnd, 3)
		v := reflect.New(ty).Elem()
		b := v.UnsafeAddr()
		var ranges [][2]uintptr
		walk(t, v, b, 0, &ranges)
		for i := range ranges {
			if ranges[i][1] > ty.Size() {
				t.Errorf("A2: %s: a field ends at %d beyond the struct size %d", ty, ranges[i][1], ty.Size())
			}
			for j := i + 1; j < len(ranges); j++ {
				if ranges[i][0] < ranges[j][1] && ranges[j][0] < ranges[i][1] {
					t.Errorf("A2: %s: fields overlap: %v %v", ty, ranges[i], ranges[j])
				}
			}
		}
	}
}

func directField(ty reflect.Type, name string) (reflect.StructField, bool) {
	for i := 0; i < ty.NumField(); i++ {
		if f := ty.Field(i); f.Name == name {
			return f, true
		}
	}
	return reflect.StructField{}, false
}

var axPrims = []reflect.Type{
	reflect.TypeOf(false), reflect.TypeOf(int8(0)), reflect.TypeOf(int16(0)), reflect.TypeOf(int32(0)),
	reflect.TypeOf(int64(0)), reflect.TypeOf(""), reflect.TypeOf([]byte(nil)), reflect.TypeOf((*int)(nil)),
	reflect.TypeOf([3]byte{}), reflect.TypeOf(struct{}{}), reflect.TypeOf(float32(0)), reflect.TypeOf(complex128(0)),
	reflect.TypeOf((*any)(nil)).Elem(),
}

func randomStruct(rnd *rand.Rand, depth int) reflect.Type {
	n := 1 + rnd.Intn(6)
	fs := make([]reflect.StructField, n)
	for i := range fs {
		var ft reflect.Type
		if depth > 0 && rnd.Intn(4) == 0 {
			ft = randomStruct(rnd, depth-1)
		} else {
			ft = axPrims[rnd.Intn(len(axPrims))]
		}
		fs[i] = reflect.StructField{Name: "F" + string(rune('A'+i)), Type: ft}
	}
	return reflect.StructOf(fs)
}

// walk compares, for every leaf field, the address reflect hands out for the field value with
// base + the sum of the offsets along the path, and collects the byte ranges of non-empty leaves
func walk(t *testing.T, v reflect.Value, base, sum uintptr, ranges *[][2]uintptr) {
	ty := v.Type()
	for i := 0; i < ty.NumField(); i++ {
		f := ty.Field(i)
		fv := v.Field(i)
		at := sum + f.Offset
		if fv.UnsafeAddr() != base+at {
			t.Errorf("A1: %s.%s: address %d, offsets sum to %d", ty, f.Name, fv.UnsafeAddr()-base, at)
		}
		if f.Type.Kind() == reflect.Struct && f.Type.NumField() > 0 {
			walk(t, fv, base, at, ranges)
		} else if f.Type.Size() > 0 {
			*ranges = append(*ranges, [2]uintptr{at, at + f.Type.Size()})
		}
	}
}
