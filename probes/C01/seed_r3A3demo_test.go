// probe: dir=optics run=^(TestSeedD3ReflectorFocus)$
// Demonstration test of a seeded property-breaking change (see /verif/seeded/C01/meta.json), kept as a
// directed probe: it passes on the pinned tree and fails when that kind of change is made.
package optics_test

import (
	"testing"

	"github.com/fogfish/golem/optics"
)

type seedD3Inner struct {
	Name string
	Rank int
}

type seedD3Mid struct {
	seedD3Inner
	Note string
}

type seedD3Outer struct {
	seedD3Mid
	Name string // same name as the promoted seedD3Inner.Name, declared later
	size int    // unexported
}

// C01: a Reflector derived by name focuses the first entry of the unfolded
// listing with that name (here the embedded Inner.Name, listed before
// Outer.Name), exactly like the Lens derived the same way; it reads and
// writes exactly that field, for exported and unexported fields alike.
func TestSeedD3ReflectorFocus(t *testing.T) {
	ln := optics.ForProduct1[seedD3Outer, string]("Name")
	rf := optics.ForSpectrum1[seedD3Outer, string]("Name")

	t.Run("SameNameAtTwoDepths", func(t *testing.T) {
		v := seedD3Outer{Name: "outer", size: 7}
		v.seedD3Mid.Name = "inner"
		v.Note = "note"

		if got := ln.Get(&v); got != "inner" {
			t.Fatalf("lens focus = %q, want inner", got)
		}
		if got := rf.Gett(&v); got != "inner" {
			t.Errorf("Gett = %q, want inner (same focus as the lens)", got)
		}

		if r := rf.Putt(&v, "x"); r != any(&v) {
			t.Errorf("Putt returned another container")
		}
		if v.seedD3Mid.Name != "x" || v.Name != "outer" || v.Note != "note" || v.size != 7 || v.Rank != 0 {
			t.Errorf("Putt wrote outside of its focus: %+v", v)
		}
		if got := rf.Gett(&v); got != "x" {
			t.Errorf("PuttGett = %q, want x", got)
		}
	})

	t.Run("ByType", func(t *testing.T) {
		// by type: the first string of the listing is Inner.Name
		rt := optics.ForSpectrum1[seedD3Outer, string]()
		v := seedD3Outer{Name: "outer"}
		v.seedD3Mid.Name = "inner"
		if got := rt.Gett(&v); got != "inner" {
			t.Errorf("Gett (by type) = %q, want inner", got)
		}
	})

	t.Run("Unexported", func(t *testing.T) {
		defer func() {
			if e := recover(); e != nil {
				t.Errorf("reflector over unexported field failed: %v", e)
			}
		}()

		ri := optics.ForSpectrum1[seedD3Outer, int]("size")
		v := seedD3Outer{size: 7}
		if got := ri.Gett(&v); got != 7 {
			t.Errorf("Gett(size) = %d, want 7", got)
		}
		ri.Putt(&v, 9)
		if v.size != 9 {
			t.Errorf("Putt(size) = %d, want 9", v.size)
		}
	})
}
