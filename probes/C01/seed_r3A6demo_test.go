// probe: dir=optics run=^(TestSeedD6NamesKeepRequestedOrder)$
// Demonstration test of a seeded property-breaking change (see /verif/seeded/C01/meta.json), kept as a
// directed probe: it passes on the pinned tree and fails when that kind of change is made.
package optics_test

import (
	"testing"

	"github.com/fogfish/golem/optics"
)

// C01 / C04: ForProductN("n1", ..., "nN") returns the lens of field n_i at
// position i, whatever the declaration order of the fields; a ShapeN lens
// built over the same names reads and writes positionally.
func TestSeedD6NamesKeepRequestedOrder(t *testing.T) {
	type T struct {
		F1, F2, F3 int
		Tag        string
	}

	t.Run("ForProduct2", func(t *testing.T) {
		l3, l1 := optics.ForProduct2[T, int, int]("F3", "F1")

		v := T{F1: 1, F2: 2, F3: 3, Tag: "t"}
		if a, b := l3.Get(&v), l1.Get(&v); a != 3 || b != 1 {
			t.Errorf("Get = %d, %d want 3, 1", a, b)
		}

		l3.Put(&v, 30)
		if v != (T{F1: 1, F2: 2, F3: 30, Tag: "t"}) {
			t.Errorf("Put(F3) = %+v", v)
		}
	})

	t.Run("ForProduct3", func(t *testing.T) {
		l2, l3, l1 := optics.ForProduct3[T, int, int, int]("F2", "F3", "F1")

		v := T{F1: 1, F2: 2, F3: 3}
		if a, b, c := l2.Get(&v), l3.Get(&v), l1.Get(&v); a != 2 || b != 3 || c != 1 {
			t.Errorf("Get = %d, %d, %d want 2, 3, 1", a, b, c)
		}
	})

	t.Run("ForShape3", func(t *testing.T) {
		ln := optics.ForShape3[T, int, int, int]("F3", "F1", "F2")

		v := T{Tag: "t"}
		ln.Put(&v, 3, 1, 2)
		if v != (T{F1: 1, F2: 2, F3: 3, Tag: "t"}) {
			t.Errorf("Put(3, 1, 2) over (F3, F1, F2) = %+v", v)
		}

		if a, b, c := ln.Get(&v); a != 3 || b != 1 || c != 2 {
			t.Errorf("Get = %d, %d, %d want 3, 1, 2", a, b, c)
		}
	})

	t.Run("DeclarationOrder", func(t *testing.T) {
		l1, l2 := optics.ForProduct2[T, int, int]("F1", "F2")
		v := T{F1: 1, F2: 2, F3: 3}
		if a, b := l1.Get(&v), l2.Get(&v); a != 1 || b != 2 {
			t.Errorf("Get = %d, %d want 1, 2", a, b)
		}
	})
}
