// probe: dir=optics run=TestProbeC01
package optics_test

import (
	"fmt"
	"testing"
	"unsafe"

	"github.com/fogfish/golem/optics"
)

// Directed probe for C01: lenses and reflectors by type and by name on a struct with
// padding, value embedding to depth 3, unexported and tagged fields; Put changes exactly the
// focused field (guard words around the struct), Get reads it; GetPut, PutGet, PutPut.
type L3 struct {
	P bool
	Q int64
}

type L2 struct {
	F int8
	L3
	G string
}

type L1 struct {
	X int16
	L2
	Y []byte
}

type LRoot struct {
	Head  bool
	E     string `hseq:"ee"`
	L1
	Tail  uint32
	iface any
	arr   [3]byte
	zero  struct{}
	ptr   *int
}

type guarded struct {
	pre  [4]uint64
	v    LRoot
	post [4]uint64
}

var five = 5

func mk() *guarded {
	g := &guarded{}
	for k := range g.pre {
		g.pre[k], g.post[k] = 0xAAAAAAAAAAAAAAAA, 0x5555555555555555
	}
	g.v = LRoot{Head: true, E: "e", L1: L1{X: 1, L2: L2{F: 2, L3: L3{P: true, Q: 3}, G: "g"}, Y: []byte("y")}, Tail: 4, iface: "i", arr: [3]byte{1, 2, 3}, ptr: &five}
	return g
}

func same(a, b *guarded) bool { return fmt.Sprintf("%#v", a.v) == fmt.Sprintf("%#v", b.v) && a.pre == b.pre && a.post == b.post }

func check[A comparable](t *testing.T, name string, l optics.Lens[LRoot, A], r optics.Reflector[A], field func(*LRoot) *A, v1, v2 A) {
	g, ref := mk(), mk()
	if got := l.Get(&g.v); got != *field(&g.v) {
		t.Fatalf("%s: Get = %v, field holds %v", name, got, *field(&g.v))
	}
	if got := r.Gett(&g.v); got != *field(&g.v) {
		t.Fatalf("%s: Gett = %v, field holds %v", name, got, *field(&g.v))
	}
	if p := l.Put(&g.v, v1); p != &g.v {
		t.Fatalf("%s: Put returned another pointer", name)
	}
	*field(&ref.v) = v1
	if !same(g, ref) {
		t.Fatalf("%s: Put(%v) did not change exactly that field:\n got  %#v\n want %#v", name, v1, g.v, ref.v)
	}
	if l.Get(&g.v) != v1 { // PutGet
		t.Fatalf("%s: PutGet", name)
	}
	l.Put(&g.v, l.Get(&g.v)) // GetPut
	if !same(g, ref) {
		t.Fatalf("%s: GetPut changed the struct", name)
	}
	l.Put(&g.v, v1)
	r.Putt(&g.v, v2) // PutPut, through the reflector
	*field(&ref.v) = v2
	if !same(g, ref) {
		t.Fatalf("%s: Putt(%v) did not change exactly that field:\n got  %#v\n want %#v", name, v2, g.v, ref.v)
	}
}

func TestProbeC01(t *testing.T) {
	_ = unsafe.Sizeof(LRoot{})
	check(t, "Q by name", optics.ForProduct1[LRoot, int64]("Q"), optics.ForSpectrum1[LRoot, int64]("Q"), func(r *LRoot) *int64 { return &r.Q }, 77, 78)
	check(t, "Q by type", optics.ForProduct1[LRoot, int64](), optics.ForSpectrum1[LRoot, int64](), func(r *LRoot) *int64 { return &r.Q }, 77, 78)
	check(t, "F", optics.ForProduct1[LRoot, int8]("F"), optics.ForSpectrum1[LRoot, int8]("F"), func(r *LRoot) *int8 { return &r.F }, -7, 9)
	check(t, "P", optics.ForProduct1[LRoot, bool]("P"), optics.ForSpectrum1[LRoot, bool]("P"), func(r *LRoot) *bool { return &r.P }, false, true)
	check(t, "G", optics.ForProduct1[LRoot, string]("G"), optics.ForSpectrum1[LRoot, string]("G"), func(r *LRoot) *string { return &r.G }, "gg", "ggg")
	check(t, "ee (tag)", optics.ForProduct1[LRoot, string]("ee"), optics.ForSpectrum1[LRoot, string]("ee"), func(r *LRoot) *string { return &r.E }, "x", "yy")
	check(t, "X", optics.ForProduct1[LRoot, int16]("X"), optics.ForSpectrum1[LRoot, int16]("X"), func(r *LRoot) *int16 { return &r.X }, 300, -300)
	check(t, "Tail", optics.ForProduct1[LRoot, uint32]("Tail"), optics.ForSpectrum1[LRoot, uint32]("Tail"), func(r *LRoot) *uint32 { return &r.Tail }, 8, 9)
	check(t, "arr", optics.ForProduct1[LRoot, [3]byte]("arr"), optics.ForSpectrum1[LRoot, [3]byte]("arr"), func(r *LRoot) *[3]byte { return &r.arr }, [3]byte{9, 9, 9}, [3]byte{7, 7, 7})
	check(t, "L3 (embedded struct)", optics.ForProduct1[LRoot, L3]("L3"), optics.ForSpectrum1[LRoot, L3]("L3"), func(r *LRoot) *L3 { return &r.L3 }, L3{false, 5}, L3{true, 6})
	// ForProductN: positional
	a, b, c := optics.ForProduct3[LRoot, string, int64, int8]("G", "Q", "F")
	g := mk()
	if a.Get(&g.v) != "g" || b.Get(&g.v) != 3 || c.Get(&g.v) != 2 {
		t.Fatalf("ForProduct3 by names is not positional")
	}
	x, y := optics.ForProduct2[LRoot, int8, int16]()
	if x.Get(&g.v) != 2 || y.Get(&g.v) != 1 {
		t.Fatalf("ForProduct2 by types is not positional")
	}
}
