// probe: dir=optics run=^(TestSeededP1LensByType|TestSeededP1LensByName|TestSeededP1Reflector)$
// Demonstration test of a seeded property-breaking change (see /verif/seeded/C01/meta.json), kept as a
// directed probe: it passes on the pinned tree and fails when that kind of change is made.
package optics_test

import (
	"testing"

	"github.com/fogfish/golem/optics"
)

// The focus type (and name) X occurs twice: first, in declaration order,
// three levels deep (T.A.B.X) and later two levels deep (T.C.X).
// The unfolded listing of T is A, B, Pad, X, C, X, so that a lens derived
// for X (by type or by name) focuses T.A.B.X.
type seededP1X int
type seededP1B struct {
	Pad int
	X   seededP1X
}
type seededP1A struct{ seededP1B }
type seededP1C struct{ X seededP1X }
type seededP1T struct {
	seededP1A
	seededP1C
}

func TestSeededP1LensByType(t *testing.T) {
	type X = seededP1X
	type T = seededP1T

	lens := optics.ForProduct1[T, X]()

	var v T
	v.seededP1A.seededP1B.Pad = 1
	v.seededP1A.seededP1B.X = 2
	v.seededP1C.X = 3

	if got := lens.Get(&v); got != 2 {
		t.Errorf("Get = %d, want 2 (the value of T.A.B.X)", got)
	}

	if p := lens.Put(&v, 7); p != &v {
		t.Errorf("Put returned other pointer")
	}
	if v.seededP1A.seededP1B.X != 7 {
		t.Errorf("Put did not write T.A.B.X: %d", v.seededP1A.seededP1B.X)
	}
	if v.seededP1A.seededP1B.Pad != 1 || v.seededP1C.X != 3 {
		t.Errorf("Put changed other fields: %+v", v)
	}
	if got := lens.Get(&v); got != 7 {
		t.Errorf("PutGet: Get = %d, want 7", got)
	}
}

func TestSeededP1LensByName(t *testing.T) {
	type X = seededP1X
	type T = seededP1T

	lens := optics.ForProduct1[T, X]("X")

	var v T
	v.seededP1A.seededP1B.X = 2
	v.seededP1C.X = 3

	lens.Put(&v, 9)
	if v.seededP1A.seededP1B.X != 9 || v.seededP1C.X != 3 {
		t.Errorf("Put by name touched wrong field: %+v", v)
	}
}

func TestSeededP1Reflector(t *testing.T) {
	type X = seededP1X
	type T = seededP1T

	lens := optics.ForSpectrum1[T, X]()

	var v T
	v.seededP1A.seededP1B.X = 2
	v.seededP1C.X = 3

	if got := lens.Gett(&v); got != 2 {
		t.Errorf("Gett = %d, want 2", got)
	}
	lens.Putt(&v, 11)
	if v.seededP1A.seededP1B.X != 11 || v.seededP1C.X != 3 {
		t.Errorf("Putt touched wrong field: %+v", v)
	}
}
