// probe: dir=hseq run=^(TestSeededC01Offsets|TestSeededC01PutFrame)$
// Demonstration test of a seeded property-breaking change (see /verif/seeded/C01/meta.json), kept as a
// directed probe: it passes on the pinned tree and fails when that kind of change is made.
// Demonstration #1 for seeded change C01 (hseq-local, no workspace needed).
//
// PLACE IN : <golem checkout>/hseq/seeded_c01_hseq_test.go   (package hseq_test)
// RUN WITH : cd <golem checkout>/hseq && \
//            GOFLAGS=-mod=mod GOPROXY=off go test -vet=off -count=1 -run 'TestSeededC01' ./...
//
// Expected : PASS on the original code, FAIL with patch.diff applied.
//
// The lens / reflector of the optics module address a field of *S at
//
//	uintptr(s) + Type.Offset + Type.RootOffs
//
// so the contract of hseq is: for every element of hseq.New[T](), and for every
// element found by ForName / ForType, Offset+RootOffs is the byte offset of the
// field from the beginning of T. The test checks this against offsets computed
// independently by package reflect (FieldByName + FieldByIndex walk), and then
// performs the very same unsafe write the lens does, checking the frame.
package hseq_test

import (
	"reflect"
	"testing"
	"unsafe"

	"github.com/fogfish/golem/hseq"
)

type c01G int8
type c01X int64
type c01Y uint16
type c01F int16
type c01E uint8
type c01Head uint64
type c01Tail uint32

type C01D3 struct {
	G c01G
	X c01X
	Y c01Y
}

type C01D2 struct {
	F c01F
	C01D3
}

type C01D1 struct {
	E c01E
	C01D2
}

// value embedding: c01T -> C01D1 -> C01D2 -> C01D3, none of the embedded
// structs sits at offset 0 of its parent.
type c01T struct {
	Head c01Head
	C01D1
	Tail c01Tail
}

// offset of the (possibly promoted) field from the beginning of typ,
// computed by reflect only.
func c01TrueOffset(t *testing.T, typ reflect.Type, name string) uintptr {
	t.Helper()
	f, ok := typ.FieldByName(name)
	if !ok {
		t.Fatalf("no field %s", name)
	}
	var off uintptr
	cur := typ
	for _, i := range f.Index {
		sf := cur.Field(i)
		off += sf.Offset
		cur = sf.Type
	}
	return off
}

func TestSeededC01Offsets(t *testing.T) {
	typ := reflect.TypeOf(c01T{})
	seq := hseq.New[c01T]()

	names := []string{"Head", "C01D1", "E", "C01D2", "F", "C01D3", "G", "X", "Y", "Tail"}
	if len(seq) != len(names) {
		t.Fatalf("unexpected sequence length %d", len(seq))
	}

	for i, name := range names {
		want := c01TrueOffset(t, typ, name)

		if seq[i].Name != name {
			t.Errorf("seq[%d] is %s, want %s", i, seq[i].Name, name)
		}
		if got := seq[i].Offset + seq[i].RootOffs; got != want {
			t.Errorf("New: field %-6s Offset+RootOffs = %d, real offset in c01T = %d", name, got, want)
		}

		byName := hseq.ForName(seq, name)
		if got := byName.Offset + byName.RootOffs; got != want {
			t.Errorf("ForName: field %-6s Offset+RootOffs = %d, real offset in c01T = %d", name, got, want)
		}
	}

	byType := hseq.ForType[c01X](seq)
	if got, want := byType.Offset+byType.RootOffs, unsafe.Offsetof(c01T{}.C01D1)+
		unsafe.Offsetof(C01D1{}.C01D2)+unsafe.Offsetof(C01D2{}.C01D3)+unsafe.Offsetof(C01D3{}.X); got != want {
		t.Errorf("ForType[c01X]: Offset+RootOffs = %d, real offset = %d", got, want)
	}
}

// The same write optics.lens.Put performs, with hseq.New2 (by type) and hseq.New (by name).
func TestSeededC01PutFrame(t *testing.T) {
	put := func(s *c01T, f hseq.Type[c01T], v c01X) {
		*(*c01X)(unsafe.Pointer(uintptr(unsafe.Pointer(s)) + f.Offset + f.RootOffs)) = v
	}

	sample := c01T{
		Head:  0x1111111111111111,
		C01D1: C01D1{E: 0x22, C01D2: C01D2{F: 0x3333, C01D3: C01D3{G: 0x44, X: 0x5555555555555555, Y: 0x6666}}},
		Tail:  0x77777777,
	}

	for label, f := range map[string]hseq.Type[c01T]{
		"by type": hseq.New1[c01T, c01X]()[0],
		"by name": hseq.New[c01T]("X")[0],
	} {
		got := sample
		put(&got, f, -1)

		want := sample
		want.X = -1

		if got != want {
			t.Errorf("%s: put X=-1\n got  %+v\n want %+v", label, got, want)
		}
	}
}
