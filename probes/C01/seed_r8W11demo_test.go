// probe: dir=optics run=^(TestSeededP1LensByTagTouchesOnlyItsField|TestSeededP1ReflectorByTagTouchesOnlyItsField)$
// Demonstration test of a seeded property-breaking change (see /verif/seeded/C01/meta.json), kept as a
// directed probe: it passes on the pinned tree and fails when that kind of change is made.
package optics_test

import (
	"testing"

	"github.com/fogfish/golem/optics"
)

// Two value-embedded structs carry a field with the same Go name and type;
// the fields are told apart by their hseq tags.
type seededP1Created struct {
	At int64 `hseq:"created"`
}

type seededP1Updated struct {
	At int64 `hseq:"updated"`
}

type seededP1Doc struct {
	ID string
	seededP1Created
	Rev int32
	seededP1Updated
}

func TestSeededP1LensByTagTouchesOnlyItsField(t *testing.T) {
	created := optics.ForProduct1[seededP1Doc, int64]("created")
	updated := optics.ForProduct1[seededP1Doc, int64]("updated")

	doc := seededP1Doc{
		ID:              "doc",
		seededP1Created: seededP1Created{At: 100},
		Rev:             7,
		seededP1Updated: seededP1Updated{At: 200},
	}

	if v := created.Get(&doc); v != 100 {
		t.Errorf("created.Get = %d, want 100", v)
	}
	if v := updated.Get(&doc); v != 200 {
		t.Errorf("updated.Get = %d, want 200 (the field's current value)", v)
	}

	if p := updated.Put(&doc, 300); p != &doc {
		t.Errorf("Put returned a different pointer")
	}

	want := seededP1Doc{
		ID:              "doc",
		seededP1Created: seededP1Created{At: 100},
		Rev:             7,
		seededP1Updated: seededP1Updated{At: 300},
	}
	if doc != want {
		t.Errorf("after updated.Put(300): %+v, want %+v", doc, want)
	}
	if v := updated.Get(&doc); v != 300 {
		t.Errorf("PutGet: updated.Get = %d, want 300", v)
	}
}

func TestSeededP1ReflectorByTagTouchesOnlyItsField(t *testing.T) {
	// the order of derivation is the reverse of the lens test
	updated, created := optics.ForSpectrum2[seededP1Doc, int64, int64]("updated", "created")

	doc := seededP1Doc{
		ID:              "doc",
		seededP1Created: seededP1Created{At: 100},
		Rev:             7,
		seededP1Updated: seededP1Updated{At: 200},
	}

	created.Putt(&doc, 101)
	updated.Putt(&doc, 201)

	want := seededP1Doc{
		ID:              "doc",
		seededP1Created: seededP1Created{At: 101},
		Rev:             7,
		seededP1Updated: seededP1Updated{At: 201},
	}
	if doc != want {
		t.Errorf("after Putt: %+v, want %+v", doc, want)
	}
	if a, b := created.Gett(&doc), updated.Gett(&doc); a != 101 || b != 201 {
		t.Errorf("Gett = %d, %d, want 101, 201", a, b)
	}
}
