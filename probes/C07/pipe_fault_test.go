// probe: dir=pipe run=TestProbeC07
package pipe_test

import (
	"context"
	"errors"
	"fmt"
	"testing"
	"time"

	"github.com/fogfish/golem/pipe/v2"
)

// Directed probe for C07: every subset of failing positions in inputs of length <= 4, for
// Lift/Try on Map and LiftF/TryF on FMap, capacities 0..2, two consumer styles (drain the
// values first and then the errors; read both through a select).
func consume(t *testing.T, what string, style int, out <-chan int, exx <-chan error) ([]int, []error) {
	var vals []int
	var errs []error
	deadline := time.After(3 * time.Second)
	if style == 0 {
		for out != nil {
			select {
			case v, ok := <-out:
				if !ok {
					out = nil
				} else {
					vals = append(vals, v)
				}
			case <-deadline:
				t.Fatalf("%s: value channel did not close (vals %v)", what, vals)
			}
		}
		for exx != nil {
			select {
			case e, ok := <-exx:
				if !ok {
					exx = nil
				} else {
					errs = append(errs, e)
				}
			case <-deadline:
				t.Fatalf("%s: error channel did not close (errs %v)", what, errs)
			}
		}
		return vals, errs
	}
	for out != nil || exx != nil {
		select {
		case v, ok := <-out:
			if !ok {
				out = nil
			} else {
				vals = append(vals, v)
				time.Sleep(200 * time.Microsecond) // busy with the value
			}
		case e, ok := <-exx:
			if !ok {
				exx = nil
			} else {
				errs = append(errs, e)
			}
		case <-deadline:
			t.Fatalf("%s: channels did not close (vals %v errs %v)", what, vals, errs)
		}
	}
	return vals, errs
}

func TestProbeC07(t *testing.T) {
	ctx := context.Background()
	for n := 0; n <= 4; n++ {
		for mask := 0; mask < 1<<n; mask++ {
			fails := func(x int) bool { return mask&(1<<(x-1)) != 0 }
			errOf := func(x int) error { return errors.New(fmt.Sprint("e", x)) }
			f := func(x int) (int, error) {
				if fails(x) {
					return 0, errOf(x)
				}
				return x * 10, nil
			}
			arrow := func(ctx context.Context, x int, out chan<- int) error {
				if fails(x) {
					return errOf(x)
				}
				out <- x * 10
				out <- x*10 + 1
				return nil
			}
			for cap := 0; cap <= 2; cap++ {
				for style := 0; style <= 1; style++ {
					for mode := 0; mode < 4; mode++ {
						name := fmt.Sprintf("n=%d mask=%b cap=%d style=%d mode=%d", n, mask, cap, style, mode)
						in := make(chan int, cap)
						go func() {
							for i := 1; i <= n; i++ {
								select {
								case in <- i:
								case <-time.After(300 * time.Millisecond):
								}
							}
							close(in)
						}()
						var out <-chan int
						var exx <-chan error
						failfast := mode == 0 || mode == 2
						double := mode >= 2
						switch mode {
						case 0:
							out, exx = pipe.Map(ctx, in, pipe.Lift(f))
						case 1:
							out, exx = pipe.Map(ctx, in, pipe.Try(f))
						case 2:
							out, exx = pipe.FMap(ctx, in, pipe.LiftF(arrow))
						case 3:
							out, exx = pipe.FMap(ctx, in, pipe.TryF(arrow))
						}
						st := style
						if !failfast && st == 0 {
							// try-and-continue needs its error channel read while it runs (the
							// property's proviso); "values first" is only fair to fail-fast
							st = 1
						}
						vals, errs := consume(t, name, st, out, exx)
						var wv []int
						var we []string
						for i := 1; i <= n; i++ {
							if fails(i) {
								we = append(we, errOf(i).Error())
								if failfast {
									break
								}
								continue
							}
							wv = append(wv, i*10)
							if double {
								wv = append(wv, i*10+1)
							}
						}
						var ge []string
						for _, e := range errs {
							ge = append(ge, e.Error())
						}
						if fmt.Sprint(vals) != fmt.Sprint(wv) || fmt.Sprint(ge) != fmt.Sprint(we) {
							t.Fatalf("%s: values %v errors %v, want %v / %v", name, vals, ge, wv, we)
						}
					}
				}
			}
		}
	}
	// Try through StdErr with more failures than buffer slots must not block
	in := make(chan int)
	go func() {
		for i := 1; i <= 6; i++ {
			in <- i
		}
		close(in)
	}()
	o, e := pipe.Map(ctx, in, pipe.Try(func(x int) (int, error) { return 0, errors.New("always") }))
	res := pipe.StdErr(o, e)
	select {
	case _, ok := <-res:
		if ok {
			t.Fatalf("unexpected value")
		}
	case <-time.After(3 * time.Second):
		t.Fatalf("Try + StdErr: stage blocked forever on failures")
	}
}
