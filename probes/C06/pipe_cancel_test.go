// probe: dir=pipe run=TestProbeC06Closure obligations=pipe\.(Map|Filter|Take|TakeWhile|Partition|ForEach|Void|FMap|Emit|Unfold|Join|Throttling|StdErr|Seq|ToSeq|\()
package pipe_test

import (
	"context"
	"errors"
	"fmt"
	"runtime"
	"testing"
	"time"

	"github.com/fogfish/golem/pipe/v2"
)

// Directed probe for C06: cancellation and closure. What was delivered before/after a
// cancel must be a prefix of the uncancelled result; returned channels close once inputs are
// closed (with or without cancel); goroutines do not leak.
func closesWithin[T any](ch <-chan T, d time.Duration) ([]T, bool) {
	var out []T
	for {
		select {
		case v, ok := <-ch:
			if !ok {
				return out, true
			}
			out = append(out, v)
		case <-time.After(d):
			return out, false
		}
	}
}

func isPrefixOf[T comparable](a, b []T) bool {
	if len(a) > len(b) {
		return false
	}
	for i := range a {
		if a[i] != b[i] {
			return false
		}
	}
	return true
}

func TestProbeC06Closure(t *testing.T) {
	before := runtime.NumGoroutine()
	boom := errors.New("boom")
	for cap := 0; cap <= 2; cap++ {
		for _, cancelAt := range []int{-1, 0, 1, 3} {
			name := fmt.Sprintf("cap=%d cancelAt=%d", cap, cancelAt)
			run := func(stage string, build func(ctx context.Context, in <-chan int) []<-chan int, errs func() <-chan error) {
				ctx, cancel := context.WithCancel(context.Background())
				defer cancel()
				in := make(chan int, cap)
				outs := build(ctx, in)
				go func() {
					for i := 1; i <= 4; i++ {
						if cancelAt == i-1 {
							cancel()
						}
						select {
						case in <- i:
						case <-time.After(50 * time.Millisecond):
						}
					}
					close(in)
				}()
				for _, o := range outs {
					// nobody reads the outputs for a while when cancelled, then drain
					if _, ok := closesWithin(o, 2*time.Second); !ok {
						t.Fatalf("%s %s: a returned channel did not close", stage, name)
					}
				}
			}
			run("Map", func(ctx context.Context, in <-chan int) []<-chan int {
				o, e := pipe.Map(ctx, in, pipe.Pure(func(x int) int { return x }))
				return []<-chan int{pipe.StdErr(o, e)}
			}, nil)
			run("Map/Try", func(ctx context.Context, in <-chan int) []<-chan int {
				o, e := pipe.Map(ctx, in, pipe.Try(func(x int) (int, error) {
					if x%2 == 0 {
						return 0, boom
					}
					return x, nil
				}))
				return []<-chan int{pipe.StdErr(o, e)}
			}, nil)
			run("Filter", func(ctx context.Context, in <-chan int) []<-chan int {
				return []<-chan int{pipe.Filter(ctx, in, pipe.Pure(func(x int) bool { return x > 1 }))}
			}, nil)
			run("Take", func(ctx context.Context, in <-chan int) []<-chan int {
				return []<-chan int{pipe.Take(ctx, in, 9)}
			}, nil)
			run("TakeWhile", func(ctx context.Context, in <-chan int) []<-chan int {
				return []<-chan int{pipe.TakeWhile(ctx, in, pipe.Pure(func(x int) bool { return x < 9 }))}
			}, nil)
			run("Partition", func(ctx context.Context, in <-chan int) []<-chan int {
				l, r := pipe.Partition(ctx, in, pipe.Pure(func(x int) bool { return x%2 == 0 }))
				merged := pipe.Join(ctx, l, r)
				if cancelAt >= 0 {
					// after cancel Join may stop copying: read both sides directly
					return []<-chan int{merged}
				}
				return []<-chan int{merged}
			}, nil)
			run("Throttling", func(ctx context.Context, in <-chan int) []<-chan int {
				return []<-chan int{pipe.Throttling(ctx, in, 2, time.Millisecond)}
			}, nil)
		}
	}
	// Emit / Unfold stop and close after cancel even if the function keeps failing / the
	// consumer keeps reading
	for cap := 0; cap <= 2; cap++ {
		ctx, cancel := context.WithCancel(context.Background())
		o, e := pipe.Emit(ctx, cap, time.Millisecond, pipe.Try(func(i int) (int, error) {
			if ctx.Err() != nil {
				return 0, ctx.Err()
			}
			return i, nil
		}))
		<-o
		cancel()
		go func() { for range e { } }()
		if _, ok := closesWithin(o, 2*time.Second); !ok {
			t.Fatalf("Emit cap=%d: output not closed after cancel", cap)
		}
		ctx2, cancel2 := context.WithCancel(context.Background())
		u, ue := pipe.Unfold(ctx2, cap, 1, pipe.Pure(func(x int) int { return x + 1 }))
		go func() { for range ue { } }()
		<-u
		cancel2()
		deadline := time.After(2 * time.Second)
		closed := false
		for !closed {
			select {
			case _, ok := <-u:
				closed = !ok
			case <-deadline:
				t.Fatalf("Unfold cap=%d: still producing 2s after cancel with a ready consumer", cap)
			}
		}
	}
	time.Sleep(600 * time.Millisecond)
	if after := runtime.NumGoroutine(); after > before+3 {
		t.Fatalf("goroutines leaked: %d before, %d after", before, after)
	}
}
