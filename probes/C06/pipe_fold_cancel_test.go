// probe: dir=pipe run=TestProbeC06FoldPrefix obligations=pipe\.Fold
package pipe_test

import (
	"context"
	"testing"
	"time"

	"github.com/fogfish/golem/pipe/v2"
	"github.com/fogfish/golem/pure/monoid"
)

func closesWithinF[T any](ch <-chan T, d time.Duration) ([]T, bool) {
	var out []T
	for {
		select {
		case v, ok := <-ch:
			if !ok {
				return out, true
			}
			out = append(out, v)
		case <-time.After(d):
			return out, false
		}
	}
}

func isPrefixOfF[T comparable](a, b []T) bool {
	if len(a) > len(b) {
		return false
	}
	for i := range a {
		if a[i] != b[i] {
			return false
		}
	}
	return true
}

func TestProbeC06FoldPrefix(t *testing.T) {
	// Fold cancelled in the middle of its input (the cancel happens while the second
	// element is being combined): what it delivers must be a prefix of the uncancelled
	// result [6]
	for _, cap := range []int{0, 1, 3} {
		ctx, cancel := context.WithCancel(context.Background())
		sum := monoid.FromOp(0, func(a, b int) int {
			if b == 2 {
				cancel()
			}
			return a + b
		})
		in := make(chan int, cap)
		out := pipe.Fold(ctx, in, sum)
		go func() {
			for _, x := range []int{1, 2, 3} {
				select {
				case in <- x:
				case <-time.After(50 * time.Millisecond):
				}
			}
			close(in)
		}()
		got, closed := closesWithinF(out, time.Second)
		if !closed {
			t.Fatalf("Fold cap=%d: result channel not closed after cancel and input close", cap)
		}
		if !isPrefixOfF(got, []int{6}) {
			t.Fatalf("Fold cap=%d cancelled after 2 of 3 elements delivered %v, which is not a prefix of the uncancelled result [6]", cap, got)
		}
	}
}

