// probe: dir=optics run=^(TestSeededC02DerivationRejectsAssignableButDifferentType|TestSeededC02WriteStaysInsideField)$
// Demonstration test of a seeded property-breaking change (see /verif/seeded/C02/meta.json), kept as a
// directed probe: it passes on the pinned tree and fails when that kind of change is made.
// Demonstration for seeded change C02 (patch.diff).
//
// Place this file in:   <golem>/optics/   (package optics_test)
// Run with:
//   cd <golem>/optics && GOFLAGS=-mod=mod GOPROXY=off \
//     go test -vet=off -count=1 -run 'TestSeededC02' .
//
// Expected: PASS on the original code, FAIL with patch.diff applied.
package optics_test

import (
	"bytes"
	"io"
	"testing"

	"github.com/fogfish/golem/optics"
)

func c02panics(f func()) (failed bool) {
	defer func() {
		if recover() != nil {
			failed = true
		}
	}()
	f()
	return false
}

// A name whose field has another (merely assignable) type must be rejected
// at derivation time.
func TestSeededC02DerivationRejectsAssignableButDifferentType(t *testing.T) {
	type Tags []string

	type T struct {
		ID   string
		Tags []string      // declared type is []string, not Tags
		Body *bytes.Buffer // declared type is *bytes.Buffer, not io.Reader
		Seq  uintptr
	}

	for name, derive := range map[string]func(){
		"Lens named-vs-unnamed slice":      func() { optics.ForProduct1[T, Tags]("Tags") },
		"Lens interface over concrete":     func() { optics.ForProduct1[T, io.Reader]("Body") },
		"Lens any over string":             func() { optics.ForProduct1[T, any]("ID") },
		"Lens pair, 2nd mismatching":       func() { optics.ForProduct2[T, string, Tags]("ID", "Tags") },
		"Reflector named-vs-unnamed slice": func() { optics.ForSpectrum1[T, Tags]("Tags") },
		"Reflector interface over concrete": func() {
			optics.ForSpectrum1[T, io.Reader]("Body")
		},
	} {
		if !c02panics(derive) {
			t.Errorf("%s: derivation silently accepted a field of another type", name)
		}
	}

	// sanity: the matching requests are still derivable
	optics.ForProduct1[T, []string]("Tags")
	optics.ForProduct1[T, *bytes.Buffer]("Body")
	// sanity: a plainly wrong type still panics
	if !c02panics(func() { optics.ForProduct1[T, int]("ID") }) {
		t.Errorf("int over string must panic")
	}
}

// The accepted optic does not stay inside its field: the focus io.Reader is
// two words wide, the field *bytes.Buffer is one word, so Put spills into the
// neighbour field.
func TestSeededC02WriteStaysInsideField(t *testing.T) {
	type T struct {
		Body *bytes.Buffer
		Seq  uintptr
	}

	var lens optics.Lens[T, io.Reader]
	if c02panics(func() { lens = optics.ForProduct1[T, io.Reader]("Body") }) {
		return // rejected at derivation time: nothing can be written, property holds
	}

	x := T{Seq: 7}
	lens.Put(&x, &bytes.Buffer{})
	seq := x.Seq
	x.Body = nil // do not leave a non-heap word in a pointer slot
	if seq != 7 {
		t.Errorf("Put through lens on field Body modified neighbour field Seq: 7 -> %#x", seq)
	}
}
