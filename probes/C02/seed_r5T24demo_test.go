// probe: dir=optics run=^(TestD4PointerContainerIsRejected)$
// Demonstration test of a seeded property-breaking change (see /verif/seeded/C02/meta.json), kept as a
// directed probe: it passes on the pinned tree and fails when that kind of change is made.
package optics_test

import (
	"testing"

	"github.com/fogfish/golem/optics"
)

// C02: a container type parameter that is not a struct (e.g. a pointer to
// one) is never silently accepted: derivation panics.
type d4T struct {
	A int64
	B int64
}

func d4panics(f func()) (panicked bool) {
	defer func() { panicked = recover() != nil }()
	f()
	return
}

func TestD4PointerContainerIsRejected(t *testing.T) {
	var ln optics.Lens[*d4T, int64]

	if !d4panics(func() { ln = optics.ForProduct1[*d4T, int64]("B") }) {
		t.Errorf("ForProduct1[*d4T, int64] accepted a pointer container")

		// the lens addresses the memory behind the pointer variable itself
		var box struct {
			P     *d4T
			Guard int64
		}
		box.P = &d4T{A: 1, B: 2}
		ln.Put(&box.P, 42)
		if box.Guard != 0 || box.P.B != 42 {
			t.Errorf("Put wrote outside the struct: guard = %d, B = %d", box.Guard, box.P.B)
		}
	}

	if !d4panics(func() { optics.ForSpectrum1[*d4T, int64]("B") }) {
		t.Errorf("ForSpectrum1[*d4T, int64] accepted a pointer container")
	}

	if !d4panics(func() { optics.ForShape2[*d4T, int64, int64]("A", "B") }) {
		t.Errorf("ForShape2[*d4T, int64, int64] accepted a pointer container")
	}

	// the struct itself is still accepted
	if d4panics(func() { optics.ForProduct1[d4T, int64]("B") }) {
		t.Errorf("ForProduct1[d4T, int64] must be derivable")
	}
}
