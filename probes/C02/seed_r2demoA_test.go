// probe: dir=optics run=^(TestDemoA_DerivationMustRejectWhatIsNotInsideTheStruct)$
// Demonstration test of a seeded property-breaking change (see /verif/seeded/C02/meta.json), kept as a
// directed probe: it passes on the pinned tree and fails when that kind of change is made.
package optics_test

import (
	"testing"

	"github.com/fogfish/golem/optics"
)

// a struct embedded by POINTER as the very first field: the fields of
// demoAInner are listed by hseq with root offset 0, although they are not
// part of demoAOuter's memory at all.
type demoAInner struct {
	Code int64
}

type demoAOuter struct {
	*demoAInner
	Name string
}

type demoAPlain struct {
	Code int64
	Name string
}

func demoAPanics(f func()) (panicked bool) {
	defer func() {
		if r := recover(); r != nil {
			panicked = true
		}
	}()
	f()
	return false
}

func TestDemoA_DerivationMustRejectWhatIsNotInsideTheStruct(t *testing.T) {
	// sanity: legal derivations keep working
	if demoAPanics(func() { optics.ForProduct1[demoAPlain, int64]("Code") }) {
		t.Fatalf("legal derivation Lens[demoAPlain, int64] panics")
	}

	t.Run("Lens/ThroughEmbeddedPointerAtOffset0/ByName", func(t *testing.T) {
		if !demoAPanics(func() { optics.ForProduct1[demoAOuter, int64]("Code") }) {
			t.Errorf("Lens[demoAOuter, int64](\"Code\") accepted: field lives behind the embedded pointer")
		}
	})

	t.Run("Lens/ThroughEmbeddedPointerAtOffset0/ByType", func(t *testing.T) {
		if !demoAPanics(func() { optics.ForProduct1[demoAOuter, int64]() }) {
			t.Errorf("Lens[demoAOuter, int64]() accepted: field lives behind the embedded pointer")
		}
	})

	t.Run("Reflector/ThroughEmbeddedPointerAtOffset0", func(t *testing.T) {
		if !demoAPanics(func() { optics.ForSpectrum1[demoAOuter, int64]("Code") }) {
			t.Errorf("Reflector[demoAOuter, int64](\"Code\") accepted: field lives behind the embedded pointer")
		}
	})

	t.Run("Lens/ContainerIsPointerToStruct", func(t *testing.T) {
		if !demoAPanics(func() { optics.ForProduct1[*demoAPlain, int64]("Code") }) {
			t.Errorf("Lens[*demoAPlain, int64] accepted: container type parameter is not a struct")
		}
		if !demoAPanics(func() { optics.ForProduct1[*demoAPlain, string]() }) {
			t.Errorf("Lens[*demoAPlain, string] accepted: container type parameter is not a struct")
		}
	})

	t.Run("Reflector/ContainerIsPointerToStruct", func(t *testing.T) {
		if !demoAPanics(func() { optics.ForSpectrum1[*demoAPlain, int64]("Code") }) {
			t.Errorf("Reflector[*demoAPlain, int64] accepted: container type parameter is not a struct")
		}
	})

	t.Run("Shape/ContainerIsPointerToStruct", func(t *testing.T) {
		if !demoAPanics(func() { optics.ForShape2[*demoAPlain, int64, string]() }) {
			t.Errorf("Lens2[*demoAPlain, int64, string] accepted: container type parameter is not a struct")
		}
	})
}
