// probe: dir=hseq run=^(TestSeededC02bFocusStaysInsideField|TestSeededC02bWriteThroughFocus)$
// Demonstration test of a seeded property-breaking change (see /verif/seeded/C02/meta.json), kept as a
// directed probe: it passes on the pinned tree and fails when that kind of change is made.
// Demonstration for seeded change C02, second variant (patch2.diff).
//
// Place this file in:   <golem>/hseq/   (package hseq_test)
// Run with:
//   cd <golem>/hseq && GOFLAGS=-mod=mod GOPROXY=off \
//     go test -vet=off -count=1 -run 'TestSeededC02b' .
//
// Expected: PASS on the original code, FAIL with patch2.diff applied.
//
// (The optics module resolves hseq from the module cache, therefore the
// effect on optics.Lens is shown by seeded_c02b_optics_test.go using go.work;
// this file reproduces the address arithmetic of optics.lens:
//  uintptr(container) + Type.Offset + Type.RootOffs.)
package hseq_test

import (
	"reflect"
	"testing"
	"unsafe"

	"github.com/fogfish/golem/hseq"
)

type c02Leaf struct {
	Pad  string
	Name string
}

type c02Mid struct {
	Hdr uint64
	c02Leaf
}

type c02Top struct {
	ID  uint64
	Ver uint64
	c02Mid
	Tail string
}

// one level of embedding only (what the existing suite exercises)
type c02Flat struct {
	ID uint64
	c02Leaf
}

func c02offset(t reflect.Type, name string) (uintptr, reflect.Type) {
	f, ok := t.FieldByName(name)
	if !ok {
		panic(name)
	}
	off := uintptr(0)
	for _, i := range f.Index {
		sf := t.Field(i)
		off += sf.Offset
		t = sf.Type
	}
	return off, f.Type
}

func TestSeededC02bFocusStaysInsideField(t *testing.T) {
	check := func(t *testing.T, cat reflect.Type, name string, rootOffs, offset uintptr) {
		t.Helper()
		want, _ := c02offset(cat, name)
		if got := rootOffs + offset; got != want {
			t.Errorf("%s.%s: focus at byte %d, the field is at byte %d", cat.Name(), name, got, want)
		}
	}

	t.Run("depth1", func(t *testing.T) {
		for _, f := range hseq.New[c02Flat]() {
			check(t, reflect.TypeOf(c02Flat{}), f.Name, f.RootOffs, f.Offset)
		}
	})

	t.Run("depth2", func(t *testing.T) {
		for _, f := range hseq.New[c02Top]() {
			check(t, reflect.TypeOf(c02Top{}), f.Name, f.RootOffs, f.Offset)
		}
	})
}

func TestSeededC02bWriteThroughFocus(t *testing.T) {
	f := hseq.ForName(hseq.New[c02Top](), "Name")
	if f.Type != reflect.TypeOf("") {
		t.Fatalf("unexpected focus type %s", f.Type)
	}

	x := c02Top{ID: 1, Ver: 2, Tail: "tail"}
	x.Hdr = 3
	x.Pad = "pad"

	// exactly what optics.lens[S, A].Put does
	*(*string)(unsafe.Pointer(uintptr(unsafe.Pointer(&x)) + f.Offset + f.RootOffs)) = "name"

	want := c02Top{ID: 1, Ver: 2, Tail: "tail"}
	want.Hdr = 3
	want.Pad = "pad"
	want.Name = "name"
	if x != want {
		t.Errorf("write through focus `Name` produced %+v, expected %+v", x, want)
	}
}
