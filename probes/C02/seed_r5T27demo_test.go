// probe: dir=optics run=^(TestD7SpectrumRejectsTooFewNames)$
// Demonstration test of a seeded property-breaking change (see /verif/seeded/C02/meta.json), kept as a
// directed probe: it passes on the pinned tree and fails when that kind of change is made.
package optics_test

import (
	"testing"

	"github.com/fogfish/golem/optics"
)

// C02: too few names are never silently accepted, derivation panics.
type d7T struct {
	A string
	B int
	C bool
	D float64
	E string
	F int
	G bool
	H float64
}

func d7panics(f func()) (panicked bool) {
	defer func() { panicked = recover() != nil }()
	f()
	return
}

func TestD7SpectrumRejectsTooFewNames(t *testing.T) {
	// names kept in a larger buffer, as a caller slicing a list of columns does
	cols := []string{"A", "B", "C", "D", "E", "F", "G", "H"}

	if !d7panics(func() { optics.ForSpectrum3[d7T, string, int, bool](cols[:2]...) }) {
		t.Errorf("ForSpectrum3 accepted 2 names")
	}
	if !d7panics(func() { optics.ForSpectrum5[d7T, string, int, bool, float64, string](cols[:2]...) }) {
		t.Errorf("ForSpectrum5 accepted 2 names")
	}
	if !d7panics(func() { optics.ForProduct4[d7T, string, int, bool, float64](cols[:2]...) }) {
		t.Errorf("ForProduct4 accepted 2 names")
	}

	var c optics.Reflector[bool]
	if !d7panics(func() { _, _, c, _ = optics.ForSpectrum4[d7T, string, int, bool, float64](cols[:2]...) }) {
		t.Errorf("ForSpectrum4 accepted 2 names")

		// and focuses fields nobody named
		v := d7T{}
		c.Putt(&v, true)
		if v.C {
			t.Errorf("the third reflector writes field C, which was never requested")
		}
	}

	// the complete list is still accepted
	if d7panics(func() { optics.ForSpectrum4[d7T, string, int, bool, float64](cols[:4]...) }) {
		t.Errorf("ForSpectrum4 must accept 4 names")
	}
}
