// probe: dir=optics run=TestProbeC02 obligations=optics\.(NewLens|NewReflector|focusable|\(|ForProduct1|ForSpectrum1)|post|objinv|panic|pre:
package optics_test

import (
	"reflect"
	"testing"

	"github.com/fogfish/golem/optics"
)

// Directed probe for C02: every derivation request either yields an optic on a field of
// identical type that stays inside that field, or panics.
type P2Inner struct {
	A int64
	B int64
}

type P2Ptr struct {
	X int64
	*P2Inner
	Y int64
}

type P2Plain struct {
	N string
	V int
	M []byte
}

type P2Legacy struct{ v int64 }

func (P2Legacy) M() {}

type P2Holder struct {
	A int64
	L P2Legacy
	B int64
}

func derives(f func()) (ok bool) {
	defer func() {
		if recover() != nil {
			ok = false
		}
	}()
	f()
	return true
}

func TestProbeC02PointerEmbedding(t *testing.T) {
	// a field reached through an embedded pointer is not part of the struct's memory
	var l optics.Lens[P2Ptr, int64]
	if derives(func() { l = optics.ForProduct1[P2Ptr, int64]("B") }) {
		v := P2Ptr{X: 1, P2Inner: &P2Inner{A: 10, B: 20}, Y: 2}
		got := l.Get(&v)
		l.Put(&v, 99)
		if got != 20 || v.X != 1 || v.Y != 2 || v.P2Inner.A != 10 || v.P2Inner.B != 99 {
			t.Fatalf("lens on B (behind an embedded pointer) was accepted: Get = %d (want 20), after Put(99): X=%d Y=%d *Inner=%+v", got, v.X, v.Y, *v.P2Inner)
		}
	}
}

func TestProbeC02PointerContainer(t *testing.T) {
	// a container type parameter that is a pointer to a struct is not a struct
	var l optics.Lens[*P2Plain, int]
	if derives(func() { l = optics.ForProduct1[*P2Plain, int]("V") }) {
		p := &P2Plain{N: "n", V: 7, M: []byte("m")}
		if got := l.Get(&p); got != 7 {
			t.Fatalf("ForProduct1[*P2Plain, int] was accepted and reads %d instead of 7 (it addresses the pointer variable)", got)
		}
	}
}

func TestProbeC02TypeIdentity(t *testing.T) {
	// a focus type that prints like the field's type without being it
	h := P2Holder{A: 1, L: P2Legacy{5}, B: 3}
	type P2Legacy interface{ M() }
	if reflect.TypeOf(new(P2Legacy)).Elem().String() != reflect.TypeOf(P2Holder{}.L).String() {
		t.Skip("this toolchain prints local types differently")
	}
	var l optics.Lens[P2Holder, P2Legacy]
	if derives(func() { l = optics.ForProduct1[P2Holder, P2Legacy]("L") }) {
		l.Put(&h, h.L)
		t.Fatalf("lens with focus type %v on field L of type %v was accepted; after Put the neighbours are A=%d B=%d", reflect.TypeOf(new(P2Legacy)).Elem(), reflect.TypeOf(h.L), h.A, h.B)
	}
}

func TestProbeC02Requests(t *testing.T) {
	if derives(func() { optics.ForProduct1[P2Plain, int]("nope") }) {
		t.Fatalf("unknown name accepted")
	}
	if derives(func() { optics.ForProduct1[P2Plain, float64]() }) {
		t.Fatalf("a type no field has accepted")
	}
	if derives(func() { optics.ForProduct1[P2Plain, string]("V") }) {
		t.Fatalf("a name whose field has another type accepted")
	}
	if derives(func() { optics.ForProduct2[P2Plain, string, int]("N") }) {
		t.Fatalf("too few names accepted")
	}
	// reflector given anything but a pointer to its container panics and modifies nothing
	r := optics.ForSpectrum1[P2Plain, int]("V")
	v := P2Plain{V: 3}
	if derives(func() { r.Putt(v, 9) }) || derives(func() { r.Putt(&P2Holder{}, 9) }) || derives(func() { r.Gett(nil) }) {
		t.Fatalf("Reflector accepted a value that is not *P2Plain")
	}
	if v.V != 3 {
		t.Fatalf("a rejected Putt modified the value")
	}
	if r.Putt(&v, 9); v.V != 9 || r.Gett(&v) != 9 {
		t.Fatalf("Reflector on *P2Plain: %+v", v)
	}
}
