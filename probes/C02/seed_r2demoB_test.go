// probe: dir=optics run=^(TestDemoB_ReflectorRejectsForeignContainer)$
// Demonstration test of a seeded property-breaking change (see /verif/seeded/C02/meta.json), kept as a
// directed probe: it passes on the pinned tree and fails when that kind of change is made.
package optics_test

import (
	"testing"

	"github.com/fogfish/golem/optics"
)

// Two unrelated container types that happen to have the same layout
// (the very pair used by TestReflectorIncompatibility, which however
// passes the foreign container by value, not by pointer).
type demoBUser struct {
	S string
	N int64
}

type demoBOrder struct {
	S string
	N int64
}

// same fields, other tags: still a different type
type demoBTagged struct {
	S string `json:"s"`
	N int64  `json:"n"`
}

func demoBPanics(f func()) (panicked bool) {
	defer func() {
		if r := recover(); r != nil {
			panicked = true
		}
	}()
	f()
	return false
}

func TestDemoB_ReflectorRejectsForeignContainer(t *testing.T) {
	rs := optics.ForSpectrum1[demoBUser, string]()
	rn := optics.ForSpectrum1[demoBUser, int64]("N")

	// sanity: own container is accepted
	own := demoBUser{S: "own", N: 1}
	rs.Putt(&own, "changed")
	if own.S != "changed" || own.N != 1 {
		t.Fatalf("own container: got %+v", own)
	}

	t.Run("PointerToLookAlikeStruct", func(t *testing.T) {
		order := demoBOrder{S: "order", N: 7}

		if !demoBPanics(func() { rs.Putt(&order, "hijacked") }) {
			t.Errorf("Reflector[demoBUser].Putt(*demoBOrder) did not panic")
		}
		if !demoBPanics(func() { rn.Putt(&order, 99) }) {
			t.Errorf("Reflector[demoBUser].Putt(*demoBOrder) did not panic")
		}
		if !demoBPanics(func() { rs.Gett(&order) }) {
			t.Errorf("Reflector[demoBUser].Gett(*demoBOrder) did not panic")
		}
		if order != (demoBOrder{S: "order", N: 7}) {
			t.Errorf("foreign container has been modified: %+v", order)
		}
	})

	t.Run("PointerToStructWithOtherTags", func(t *testing.T) {
		tagged := demoBTagged{S: "tagged", N: 7}

		if !demoBPanics(func() { rs.Putt(&tagged, "hijacked") }) {
			t.Errorf("Reflector[demoBUser].Putt(*demoBTagged) did not panic")
		}
		if tagged != (demoBTagged{S: "tagged", N: 7}) {
			t.Errorf("foreign container has been modified: %+v", tagged)
		}
	})

	t.Run("OtherArguments", func(t *testing.T) {
		var null *demoBOrder
		pown := &own

		for name, arg := range map[string]any{
			"value":            demoBOrder{},
			"own value":        demoBUser{},
			"nil":              nil,
			"typed nil":        null,
			"pointer to ptr":   &pown,
			"string":           "text",
			"pointer to int64": new(int64),
		} {
			if !demoBPanics(func() { rs.Putt(arg, "x") }) {
				t.Errorf("Putt(%s) did not panic", name)
			}
		}
	})
}
