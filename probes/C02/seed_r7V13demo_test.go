// probe: dir=optics run=^(TestSeededP3TooFewNames|TestSeededP3NoHalfDerivedOptics|TestSeededP3OtherRejections)$
// Demonstration test of a seeded property-breaking change (see /verif/seeded/C02/meta.json), kept as a
// directed probe: it passes on the pinned tree and fails when that kind of change is made.
package optics_test

import (
	"testing"

	"github.com/fogfish/golem/optics"
)

type seededP3T struct {
	F1, F2, F3 int
	S1, S2     string
}

// panics reports whether f panics
func seededP3Panics(f func()) (failed bool) {
	defer func() {
		if r := recover(); r != nil {
			failed = true
		}
	}()
	f()
	return false
}

func TestSeededP3TooFewNames(t *testing.T) {
	type T = seededP3T

	for name, derive := range map[string]func(){
		"ForProduct2/1":  func() { optics.ForProduct2[T, int, int]("F1") },
		"ForProduct3/2":  func() { optics.ForProduct3[T, int, int, int]("F1", "F2") },
		"ForProduct5/4":  func() { optics.ForProduct5[T, int, int, int, string, string]("F1", "F2", "F3", "S1") },
		"ForSpectrum2/1": func() { optics.ForSpectrum2[T, int, string]("F1") },
		"ForSpectrum4/3": func() { optics.ForSpectrum4[T, int, int, string, string]("F1", "F2", "S1") },
		"ForShape2/1":    func() { optics.ForShape2[T, int, string]("F1") },
		"ForShape3/2":    func() { optics.ForShape3[T, int, int, string]("F1", "F2") },
	} {
		if !seededP3Panics(derive) {
			t.Errorf("%s: too few names are silently accepted, no panic at derivation", name)
		}
	}
}

func TestSeededP3NoHalfDerivedOptics(t *testing.T) {
	type T = seededP3T

	var a optics.Lens[T, int]
	var b optics.Lens[T, string]

	failed := seededP3Panics(func() {
		a, b = optics.ForProduct2[T, int, string]("F1")
	})

	if !failed {
		t.Errorf("ForProduct2 with a single name returned (%v, %v) instead of panic", a, b)
	}
}

// the other rejections keep working (holds before and after)
func TestSeededP3OtherRejections(t *testing.T) {
	type T = seededP3T

	for name, derive := range map[string]func(){
		"unknown name": func() { optics.ForProduct2[T, int, int]("F1", "F9") },
		"unknown type": func() { optics.ForProduct1[T, float64]() },
		"wrong type":   func() { optics.ForProduct2[T, int, int]("F1", "S1") },
	} {
		if !seededP3Panics(derive) {
			t.Errorf("%s: no panic at derivation", name)
		}
	}
}
