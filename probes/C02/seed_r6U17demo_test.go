// probe: dir=optics run=^(TestSeedD7ReflectorRejectsValue)$
// Demonstration test of a seeded property-breaking change (see /verif/seeded/C02/meta.json), kept as a
// directed probe: it passes on the pinned tree and fails when that kind of change is made.
package optics_test

import (
	"testing"

	"github.com/fogfish/golem/optics"
)

// C02: a Reflector given anything but a pointer to its own container type
// panics (and modifies nothing) - the container passed by value included.
func TestSeedD7ReflectorRejectsValue(t *testing.T) {
	type T struct {
		A string
		B int
	}
	type U struct {
		A string
		B int
	}

	panics := func(f func()) (r bool) {
		defer func() { r = recover() != nil }()
		f()
		return
	}

	la := optics.ForSpectrum1[T, string]()
	lb := optics.ForSpectrum1[T, int]("B")

	tt := T{A: "a", B: 1}

	// sanity: the pointer is accepted
	if la.Gett(&tt) != "a" || lb.Gett(&tt) != 1 {
		t.Fatalf("Gett(&tt) = %v %v", la.Gett(&tt), lb.Gett(&tt))
	}

	for _, c := range []struct {
		name string
		f    func()
	}{
		{"Gett(T)", func() { la.Gett(tt) }},
		{"Gett(T)/int", func() { lb.Gett(tt) }},
		{"Putt(T)", func() { la.Putt(tt, "x") }},
		{"Gett(U)", func() { la.Gett(U{}) }},
		{"Gett(*U)", func() { la.Gett(&U{}) }},
		{"Gett(**T)", func() { p := &tt; la.Gett(&p) }},
		{"Gett(nil)", func() { la.Gett(nil) }},
		{"Gett(string)", func() { la.Gett("a") }},
	} {
		if !panics(c.f) {
			t.Errorf("%s is silently accepted", c.name)
		}
	}

	if tt != (T{A: "a", B: 1}) {
		t.Fatalf("container modified: %+v", tt)
	}
}
