// probe: dir=optics run=^(TestSeededP4PointerContainer|TestSeededP4StructContainer)$
// Demonstration test of a seeded property-breaking change (see /verif/seeded/C02/meta.json), kept as a
// directed probe: it passes on the pinned tree and fails when that kind of change is made.
package optics_test

import (
	"testing"

	"github.com/fogfish/golem/optics"
)

type seededP4T struct {
	ID   int
	Name string
}

func seededP4Panics(f func()) (failed bool) {
	defer func() {
		if r := recover(); r != nil {
			failed = true
		}
	}()
	f()
	return false
}

// A container type parameter that is a pointer to a struct must be rejected:
// Lens[*T, A] takes **T, field offsets of T mean nothing relative to it.
func TestSeededP4PointerContainer(t *testing.T) {
	type T = seededP4T

	for name, derive := range map[string]func(){
		"ForProduct1 by type":  func() { optics.ForProduct1[*T, string]() },
		"ForProduct1 by name":  func() { optics.ForProduct1[*T, string]("Name") },
		"ForProduct2 by name":  func() { optics.ForProduct2[*T, int, string]("ID", "Name") },
		"ForSpectrum1 by type": func() { optics.ForSpectrum1[*T, string]() },
		"ForSpectrum2 by name": func() { optics.ForSpectrum2[*T, int, string]("ID", "Name") },
		"ForShape2 by type":    func() { optics.ForShape2[*T, int, string]() },
		"BiMapS":               func() { optics.BiMapS[*T, string, string]() },
	} {
		if !seededP4Panics(derive) {
			t.Errorf("%s: container *T silently accepted", name)
		}
	}
}

// struct containers keep working (holds before and after)
func TestSeededP4StructContainer(t *testing.T) {
	type T = seededP4T

	lens := optics.ForProduct1[T, string]()
	v := T{ID: 1, Name: "a"}
	lens.Put(&v, "b")
	if v.Name != "b" || v.ID != 1 {
		t.Errorf("unexpected %+v", v)
	}
}
