// probe: dir=optics run=TestProbeF8 obligations=slice-bounds
package optics_test

import (
	"testing"

	"github.com/fogfish/golem/optics"
)

type F8Plain struct {
	N string
	V int
	M []byte
}

// too few names, passed as a prefix of a longer array: attr[0:N] is legal up to cap(attr)
func TestProbeF8TooFewNames(t *testing.T) {
	names := [3]string{"N", "V", "M"}
	ok := func(f func()) (ok bool) {
		defer func() {
			if recover() != nil {
				ok = false
			}
		}()
		f()
		return true
	}
	var a optics.Lens[F8Plain, string]
	var b optics.Lens[F8Plain, int]
	if ok(func() { a, b = optics.ForProduct2[F8Plain, string, int](names[:1]...) }) {
		t.Fatalf("ForProduct2 given ONE name (a one-element prefix of a three-element array) silently derived two lenses (%v, %v) using a name the caller did not pass", a != nil, b != nil)
	}
}
