// probe: dir=trait/pair run=^(TestDemoB_FromSeqSkipsEmptyInTheMiddle)$
// Demonstration test of a seeded property-breaking change (see /verif/seeded/C15/meta.json), kept as a
// directed probe: it passes on the pinned tree and fails when that kind of change is made.
package pair_test

import (
	"fmt"
	"reflect"
	"testing"

	"github.com/fogfish/golem/trait/pair"
	"github.com/fogfish/golem/trait/seq"
)

type demoBKV struct {
	K string
	V int
}

func demoBDrain(e pair.Seq[string, int]) []demoBKV {
	r := make([]demoBKV, 0)
	for has := e != nil; has; has = e.Next() {
		r = append(r, demoBKV{e.Key(), e.Value()})
	}
	return r
}

// FromSeq is flat-map: elements mapped to nil (empty) are skipped wherever they are.
func TestDemoB_FromSeqSkipsEmptyInTheMiddle(t *testing.T) {
	// n -> [("n", n), ("n'", 10n)] for odd n, nil for even n
	odd := func(n int) pair.Seq[string, int] {
		if n%2 == 0 {
			return nil
		}
		return pair.Plus(
			pair.From(fmt.Sprintf("%d", n), n),
			pair.From(fmt.Sprintf("%d'", n), 10*n),
		)
	}

	for _, xs := range [][]int{
		{},
		{1},
		{2},
		{1, 3},       // no nil
		{2, 4, 1},    // leading nils only
		{1, 2},       // trailing nil only
		{1, 2, 3},    // nil between two non-empty
		{1, 2, 4, 5}, // two nils in a row between
	} {
		want := make([]demoBKV, 0)
		for _, n := range xs {
			if n%2 != 0 {
				want = append(want,
					demoBKV{fmt.Sprintf("%d", n), n},
					demoBKV{fmt.Sprintf("%d'", n), 10 * n},
				)
			}
		}

		got := demoBDrain(pair.FromSeq(seq.FromSlice(append([]int{}, xs...)), odd))
		if !reflect.DeepEqual(got, want) {
			t.Errorf("FromSeq(%v, odd) = %v, want %v", xs, got, want)
		}
	}
}
