// probe: dir=trait/pair run=^(TestD3ToSeqSkipsEmptyInnerSequences)$
// Demonstration test of a seeded property-breaking change (see /verif/seeded/C15/meta.json), kept as a
// directed probe: it passes on the pinned tree and fails when that kind of change is made.
package pair_test

import (
	"reflect"
	"testing"

	"github.com/fogfish/golem/trait/pair"
	"github.com/fogfish/golem/trait/seq"
)

type d3kv struct {
	k string
	v int
}

type d3seq struct{ el []d3kv }

func (s *d3seq) Key() string { return s.el[0].k }
func (s *d3seq) Value() int  { return s.el[0].v }
func (s *d3seq) Next() bool {
	if len(s.el) == 1 {
		return false
	}
	s.el = s.el[1:]
	return true
}

// C15: ToSeq is a flat-map, elements mapped to nil (empty) are skipped wherever they occur.
func TestD3ToSeqSkipsEmptyInnerSequences(t *testing.T) {
	in := []d3kv{{"a", 1}, {"b", 2}, {"c", 3}, {"d", 4}, {"e", 5}, {"f", 6}}

	for mask := 0; mask < 1<<len(in); mask++ {
		want := []string{}
		for i, x := range in {
			if mask&(1<<i) != 0 {
				want = append(want, x.k, x.k)
			}
		}

		e := pair.ToSeq[string, int, string](&d3seq{append([]d3kv{}, in...)},
			func(k string, v int) seq.Seq[string] {
				if mask&(1<<(v-1)) == 0 {
					return nil
				}
				return seq.FromSlice([]string{k, k})
			},
		)

		got := []string{}
		for has := e != nil; has; has = e.Next() {
			got = append(got, e.Value())
		}

		if !reflect.DeepEqual(got, want) {
			t.Errorf("mask %06b: ToSeq = %v, want %v", mask, got, want)
			return
		}
	}
}
