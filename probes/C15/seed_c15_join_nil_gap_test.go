// probe: dir=trait/pair run=^(TestC15JoinSkipsOnlyEmptyInnerSequences|TestC15JoinForEach)$
// Demonstration test of a seeded property-breaking change (see /verif/seeded/C15/meta.json), kept as a
// directed probe: it passes on the pinned tree and fails when that kind of change is made.
// Demonstration for seeded change C15 (patch.diff).
//
// Place this file in:   /tmp/wt-C15/trait/pair/   (package pair_test)
// Run with:
//   cd /tmp/wt-C15/trait && GOFLAGS=-mod=mod GOPROXY=off go test -vet=off -count=1 -run 'TestC15' ./pair/
//
// It drains pair.Join(lhs, f) where f returns nil (an empty inner sequence)
// for SOME of the lhs elements, and compares the (key, value) list with the
// list-level definition of a left join: concat [ f(k, v) | (k, v) <- lhs ].
package pair_test

import (
	"fmt"
	"reflect"
	"testing"

	"github.com/fogfish/golem/trait/pair"
)

type c15kv struct {
	K int
	V string
}

// c15seq is a pair.Seq over a slice with keys different from values.
type c15seq struct{ el []c15kv }

func c15From(xs []c15kv) pair.Seq[int, string] {
	if len(xs) == 0 {
		return nil
	}
	return &c15seq{xs}
}

func (s *c15seq) Key() int      { return s.el[0].K }
func (s *c15seq) Value() string { return s.el[0].V }
func (s *c15seq) Next() bool {
	if len(s.el) == 1 {
		return false
	}
	s.el = s.el[1:]
	return true
}

func c15Drain(e pair.Seq[int, string]) []c15kv {
	r := []c15kv{}
	for has := e != nil; has; has = e.Next() {
		r = append(r, c15kv{e.Key(), e.Value()})
	}
	return r
}

func c15Input(n int) []c15kv {
	xs := make([]c15kv, n)
	for i := range xs {
		xs[i] = c15kv{K: i + 1, V: fmt.Sprintf("v%d", i+1)}
	}
	return xs
}

func TestC15JoinSkipsOnlyEmptyInnerSequences(t *testing.T) {
	// inner sequence for (k, v): two pairs, or nothing if k is in `empty`
	inner := func(empty map[int]bool) func(int, string) []c15kv {
		return func(k int, v string) []c15kv {
			if empty[k] {
				return nil
			}
			return []c15kv{{K: k * 10, V: v + "a"}, {K: k*10 + 1, V: v + "b"}}
		}
	}

	for n := 0; n <= 5; n++ {
		// every subset of keys 1..n for which the join function yields nil
		for mask := 0; mask < 1<<n; mask++ {
			empty := map[int]bool{}
			for i := 0; i < n; i++ {
				if mask&(1<<i) != 0 {
					empty[i+1] = true
				}
			}
			f := inner(empty)

			// list model
			expect := []c15kv{}
			for _, x := range c15Input(n) {
				expect = append(expect, f(x.K, x.V)...)
			}

			// iterator
			got := c15Drain(
				pair.Join(c15From(c15Input(n)),
					func(k int, v string) pair.Seq[int, string] {
						return c15From(f(k, v))
					},
				),
			)

			if !reflect.DeepEqual(got, expect) {
				t.Errorf("n=%d empty=%v\n   got  %v\n   want %v", n, empty, got, expect)
			}
		}
	}
}

// ForEach over the same shape must visit the same list, in order.
func TestC15JoinForEach(t *testing.T) {
	lhs := c15Input(4)
	f := func(k int, v string) pair.Seq[int, string] {
		if k == 2 { // empty inner sequence in the middle of lhs
			return nil
		}
		return pair.From(k*10, v+"x")
	}

	got := []c15kv{}
	pair.ForEach(pair.Join(c15From(lhs), f), func(k int, v string) error {
		got = append(got, c15kv{k, v})
		return nil
	})

	expect := []c15kv{{10, "v1x"}, {30, "v3x"}, {40, "v4x"}}
	if !reflect.DeepEqual(got, expect) {
		t.Errorf("got %v want %v", got, expect)
	}
}
