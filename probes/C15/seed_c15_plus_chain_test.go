// probe: dir=trait/pair run=^(TestC15PlusChainAfterDropWhile|TestC15PlusNesting)$
// Demonstration test of a seeded property-breaking change (see /verif/seeded/C15/meta.json), kept as a
// directed probe: it passes on the pinned tree and fails when that kind of change is made.
// Demonstration for seeded change C15, second variant (patch2.diff).
//
// Place this file in:   /tmp/wt-C15/trait/pair/   (package pair_test)
// Run with:
//   cd /tmp/wt-C15/trait && GOFLAGS=-mod=mod GOPROXY=off go test -vet=off -count=1 -run 'TestC15Plus' ./pair/
//
// It drains Plus(DropWhile(Plus(a, b), p), c) for every split point of the
// predicate p and compares with the list model  dropWhile p (a ++ b) ++ c.
package pair_test

import (
	"fmt"
	"reflect"
	"testing"

	"github.com/fogfish/golem/trait/pair"
)

type c15pkv struct {
	K int
	V string
}

type c15pseq struct{ el []c15pkv }

func c15pFrom(xs []c15pkv) pair.Seq[int, string] {
	if len(xs) == 0 {
		return nil
	}
	return &c15pseq{xs}
}

func (s *c15pseq) Key() int      { return s.el[0].K }
func (s *c15pseq) Value() string { return s.el[0].V }
func (s *c15pseq) Next() bool {
	if len(s.el) == 1 {
		return false
	}
	s.el = s.el[1:]
	return true
}

func c15pRange(from, to int) []c15pkv {
	xs := []c15pkv{}
	for i := from; i <= to; i++ {
		xs = append(xs, c15pkv{K: i, V: fmt.Sprintf("v%d", i)})
	}
	return xs
}

func c15pDrain(t *testing.T, label string, mk func() pair.Seq[int, string]) (r []c15pkv) {
	defer func() {
		if err := recover(); err != nil {
			t.Errorf("%s: panic while draining after %v: %v", label, r, err)
		}
	}()

	r = []c15pkv{}
	e := mk()
	for has := e != nil; has; has = e.Next() {
		r = append(r, c15pkv{e.Key(), e.Value()})
	}
	return r
}

func TestC15PlusChainAfterDropWhile(t *testing.T) {
	a := func() []c15pkv { return c15pRange(1, 3) }
	b := func() []c15pkv { return c15pRange(4, 6) }
	c := func() []c15pkv { return c15pRange(7, 8) }

	// drop keys < limit; limit 1..7 covers: drop nothing, part of a,
	// all of a, part of b, everything.
	for limit := 1; limit <= 7; limit++ {
		p := func(k int, v string) bool { return k < limit }

		// list model
		expect := []c15pkv{}
		dropping := true
		for _, x := range append(a(), b()...) {
			if dropping && p(x.K, x.V) {
				continue
			}
			dropping = false
			expect = append(expect, x)
		}
		expect = append(expect, c()...)

		label := fmt.Sprintf("Plus(DropWhile(Plus(a, b), k < %d), c)", limit)
		got := c15pDrain(t, label, func() pair.Seq[int, string] {
			return pair.Plus(
				pair.DropWhile(pair.Plus(c15pFrom(a()), c15pFrom(b())), p),
				c15pFrom(c()),
			)
		})

		if !reflect.DeepEqual(got, expect) {
			t.Errorf("%s\n   got  %v\n   want %v", label, got, expect)
		}
	}
}

// Controls: plain nesting of Plus (either association) keeps list semantics.
func TestC15PlusNesting(t *testing.T) {
	expect := c15pRange(1, 8)

	left := c15pDrain(t, "Plus(Plus(a, b), c)", func() pair.Seq[int, string] {
		return pair.Plus(
			pair.Plus(c15pFrom(c15pRange(1, 3)), c15pFrom(c15pRange(4, 6))),
			c15pFrom(c15pRange(7, 8)),
		)
	})
	right := c15pDrain(t, "Plus(a, Plus(b, c))", func() pair.Seq[int, string] {
		return pair.Plus(
			c15pFrom(c15pRange(1, 3)),
			pair.Plus(c15pFrom(c15pRange(4, 6)), c15pFrom(c15pRange(7, 8))),
		)
	})

	if !reflect.DeepEqual(left, expect) || !reflect.DeepEqual(right, expect) {
		t.Errorf("left %v right %v want %v", left, right, expect)
	}
}
