// probe: dir=trait/pair run=^(TestSeededP3PlusOfEqualPairs|TestSeededP3NestedEdges)$
// Demonstration test of a seeded property-breaking change (see /verif/seeded/C15/meta.json), kept as a
// directed probe: it passes on the pinned tree and fails when that kind of change is made.
package pair_test

import (
	"fmt"
	"reflect"
	"testing"

	"github.com/fogfish/golem/trait/pair"
	"github.com/fogfish/golem/trait/seq"
)

type kvP3[K, V any] struct {
	K K
	V V
}

func drainP3[K, V any](s pair.Seq[K, V]) []kvP3[K, V] {
	r := make([]kvP3[K, V], 0)
	for has := s != nil; has; has = s.Next() {
		r = append(r, kvP3[K, V]{s.Key(), s.Value()})
	}
	return r
}

// Plus is list concatenation: two single-pair sequences give two pairs, also
// when the two pairs happen to be equal.
func TestSeededP3PlusOfEqualPairs(t *testing.T) {
	got := drainP3(pair.Plus(pair.From("a", 1), pair.From("a", 1)))
	want := []kvP3[string, int]{{"a", 1}, {"a", 1}}
	if !reflect.DeepEqual(got, want) {
		t.Errorf("Plus(From(a,1), From(a,1)) = %v, want %v", got, want)
	}

	// control: different pairs
	got = drainP3(pair.Plus(pair.From("a", 1), pair.From("a", 2)))
	want = []kvP3[string, int]{{"a", 1}, {"a", 2}}
	if !reflect.DeepEqual(got, want) {
		t.Errorf("Plus(From(a,1), From(a,2)) = %v, want %v", got, want)
	}
}

// Nested: every edge (u, v) of an undirected graph is expanded to both
// directions (u -> v) and (v -> u); a self loop yields two equal pairs.
func TestSeededP3NestedEdges(t *testing.T) {
	edges := [][2]int{{1, 2}, {3, 3}, {2, 4}, {5, 5}}

	both := pair.FromSeq(seq.FromSlice(edges),
		func(e [2]int) pair.Seq[int, string] {
			return pair.Plus(
				pair.From(e[0], fmt.Sprintf("to %d", e[1])),
				pair.From(e[1], fmt.Sprintf("to %d", e[0])),
			)
		},
	)
	all := pair.Filter(
		pair.Map(both, func(k int, v string) string { return v + "!" }),
		func(k int, v string) bool { return k > 0 },
	)

	want := []kvP3[int, string]{
		{1, "to 2!"}, {2, "to 1!"},
		{3, "to 3!"}, {3, "to 3!"},
		{2, "to 4!"}, {4, "to 2!"},
		{5, "to 5!"}, {5, "to 5!"},
	}
	if got := drainP3(all); !reflect.DeepEqual(got, want) {
		t.Errorf("got  %v\nwant %v", got, want)
	}
}
