// probe: dir=trait/pair run=^(TestD2PlusKeepsKeyValuePairing)$
// Demonstration test of a seeded property-breaking change (see /verif/seeded/C15/meta.json), kept as a
// directed probe: it passes on the pinned tree and fails when that kind of change is made.
package pair_test

import (
	"fmt"
	"testing"

	"github.com/fogfish/golem/trait/pair"
)

// C15: Key() and Value() always belong to the same element; Plus is list
// concatenation of (key, value) pairs.
type d2kv struct {
	ks []string
	vs []int
}

func d2seq(ks []string, vs []int) pair.Seq[string, int] {
	if len(ks) == 0 {
		return nil
	}
	return &d2kv{ks, vs}
}

func (s *d2kv) Key() string { return s.ks[0] }
func (s *d2kv) Value() int  { return s.vs[0] }
func (s *d2kv) Next() bool {
	if len(s.ks) == 1 {
		return false
	}
	s.ks, s.vs = s.ks[1:], s.vs[1:]
	return true
}

func d2drain(e pair.Seq[string, int]) []string {
	r := []string{}
	for has := e != nil; has; has = e.Next() {
		r = append(r, fmt.Sprintf("%s=%d", e.Key(), e.Value()))
	}
	return r
}

func TestD2PlusKeepsKeyValuePairing(t *testing.T) {
	e := pair.Plus(
		d2seq([]string{"a", "b"}, []int{1, 2}),
		d2seq([]string{"c", "d", "e"}, []int{3, 4, 5}),
	)

	got := fmt.Sprint(d2drain(e))
	want := fmt.Sprint([]string{"a=1", "b=2", "c=3", "d=4", "e=5"})
	if got != want {
		t.Errorf("Plus drained to %s, want %s", got, want)
	}

	// nested: the pairing must hold for predicates of an outer combinator too
	f := pair.Filter(
		pair.Plus(
			d2seq([]string{"a"}, []int{1}),
			pair.Plus(d2seq([]string{"b"}, []int{2}), d2seq([]string{"c"}, []int{3})),
		),
		func(k string, v int) bool { return k != "a" },
	)
	got = fmt.Sprint(d2drain(f))
	want = fmt.Sprint([]string{"b=2", "c=3"})
	if got != want {
		t.Errorf("Filter(Plus) drained to %s, want %s", got, want)
	}
}
