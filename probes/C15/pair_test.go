// probe: dir=trait/pair run=TestProbeC15
package pair_test

import (
	"errors"
	"fmt"
	"math/rand"
	"testing"

	"github.com/fogfish/golem/trait/pair"
	"github.com/fogfish/golem/trait/seq"
)

// Directed probe for C15: random expression trees over the key-value combinators against
// lists of (key, value) pairs with keys different from values.
type kv struct {
	k string
	v int
}

type pexpr struct {
	it   pair.Seq[string, int]
	list []kv
}

func pdrain(s pair.Seq[string, int]) []kv {
	var out []kv
	pair.ForEach(s, func(k string, v int) error { out = append(out, kv{k, v}); return nil })
	return out
}

func fromList(l []kv) pair.Seq[string, int] {
	var s pair.Seq[string, int]
	for _, e := range l {
		s = pair.Plus(s, pair.From(e.k, e.v))
	}
	return s
}

func pgen(r *rand.Rand, depth int) pexpr {
	if depth == 0 || r.Intn(5) == 0 {
		n := r.Intn(4)
		l := make([]kv, n)
		for i := range l {
			v := r.Intn(7)
			l[i] = kv{fmt.Sprintf("k%d", r.Intn(5)), v}
		}
		return pexpr{fromList(l), l}
	}
	a := pgen(r, depth-1)
	k := r.Intn(7)
	pred := func(key string, v int) bool { return (len(key)+v)%3 != k%3 && key != fmt.Sprintf("k%d", k%5) }
	switch r.Intn(7) {
	case 0:
		var l []kv
		for _, e := range a.list {
			if !pred(e.k, e.v) {
				break
			}
			l = append(l, e)
		}
		return pexpr{pair.TakeWhile(a.it, pred), l}
	case 1:
		i := 0
		for i < len(a.list) && pred(a.list[i].k, a.list[i].v) {
			i++
		}
		return pexpr{pair.DropWhile(a.it, pred), append([]kv(nil), a.list[i:]...)}
	case 2:
		var l []kv
		for _, e := range a.list {
			if pred(e.k, e.v) {
				l = append(l, e)
			}
		}
		return pexpr{pair.Filter(a.it, pred), l}
	case 3:
		var l []kv
		for _, e := range a.list {
			l = append(l, kv{e.k, e.v*2 + len(e.k) + k})
		}
		return pexpr{pair.Map(a.it, func(key string, v int) int { return v*2 + len(key) + k }), l}
	case 4:
		b := pgen(r, depth-1)
		return pexpr{pair.Plus(a.it, b.it), append(append([]kv(nil), a.list...), b.list...)}
	case 5:
		f := func(key string, v int) []kv {
			if v%3 == k%3 {
				return nil
			}
			out := make([]kv, v%2+1)
			for i := range out {
				out[i] = kv{key + "/" + fmt.Sprint(i), v*10 + i}
			}
			return out
		}
		var l []kv
		for _, e := range a.list {
			l = append(l, f(e.k, e.v)...)
		}
		return pexpr{pair.Join(a.it, func(key string, v int) pair.Seq[string, int] { return fromList(f(key, v)) }), l}
	default:
		// through plain seq and back: ToSeq then FromSeq
		f := func(key string, v int) []int {
			if v%3 == k%3 {
				return nil
			}
			return []int{v, v + len(key)}
		}
		g := func(x int) []kv {
			if x%4 == k%4 {
				return nil
			}
			return []kv{{fmt.Sprintf("s%d", x), x + 1}}
		}
		var l []kv
		for _, e := range a.list {
			for _, x := range f(e.k, e.v) {
				l = append(l, g(x)...)
			}
		}
		s := pair.ToSeq(a.it, func(key string, v int) seq.Seq[int] { return seq.FromSlice(f(key, v)) })
		return pexpr{pair.FromSeq(s, func(x int) pair.Seq[string, int] { return fromList(g(x)) }), l}
	}
}

func TestProbeC15(t *testing.T) {
	for seed := int64(0); seed < 4000; seed++ {
		r := rand.New(rand.NewSource(seed))
		e := pgen(r, 1+int(seed%4))
		got := pdrain(e.it)
		if fmt.Sprint(got) != fmt.Sprint(e.list) {
			t.Fatalf("seed %d: drained %v, list semantics give %v", seed, got, e.list)
		}
	}
	boom := errors.New("boom")
	var seen []kv
	err := pair.ForEach(fromList([]kv{{"a", 1}, {"b", 2}, {"c", 3}}), func(k string, v int) error {
		seen = append(seen, kv{k, v})
		if v == 2 {
			return boom
		}
		return nil
	})
	if err != boom || fmt.Sprint(seen) != "[{a 1} {b 2}]" {
		t.Fatalf("ForEach: visited %v, returned %v", seen, err)
	}
}
