// probe: dir=trait/pair run=^(TestSeededP4FromSeqNonEmpty|TestSeededP4FromSeqEmpty|TestSeededP4NestedEmpty)$
// Demonstration test of a seeded property-breaking change (see /verif/seeded/C15/meta.json), kept as a
// directed probe: it passes on the pinned tree and fails when that kind of change is made.
package pair_test

import (
	"reflect"
	"testing"

	"github.com/fogfish/golem/trait/pair"
	"github.com/fogfish/golem/trait/seq"
)

type kvP4[K, V any] struct {
	K K
	V V
}

func drainP4[K, V any](s pair.Seq[K, V]) (r []kvP4[K, V]) {
	r = make([]kvP4[K, V], 0)
	for has := s != nil; has; has = s.Next() {
		r = append(r, kvP4[K, V]{s.Key(), s.Value()})
	}
	return r
}

func indexP4(word string) pair.Seq[int, string] {
	return pair.From(len(word), word)
}

// control: non-empty inputs behave as flat-map
func TestSeededP4FromSeqNonEmpty(t *testing.T) {
	got := drainP4(pair.FromSeq(seq.FromSlice([]string{"a", "bcd", "ef"}), indexP4))
	want := []kvP4[int, string]{{1, "a"}, {3, "bcd"}, {2, "ef"}}
	if !reflect.DeepEqual(got, want) {
		t.Errorf("got %v, want %v", got, want)
	}
}

// FromSeq over the empty plain sequence (nil means empty) is the empty
// sequence of pairs.
func TestSeededP4FromSeqEmpty(t *testing.T) {
	got := drainP4(pair.FromSeq(seq.FromSlice([]string{}), indexP4))
	if len(got) != 0 {
		t.Errorf("FromSeq(empty) = %v, want []", got)
	}

	got = drainP4(pair.FromSeq[string, int, string](nil, indexP4))
	if len(got) != 0 {
		t.Errorf("FromSeq(nil) = %v, want []", got)
	}
}

// Nested: the plain sequence becomes empty only after filtering, the result is
// appended to another sequence of pairs.
func TestSeededP4NestedEmpty(t *testing.T) {
	words := []string{"a", "bcd", "ef"}
	long := seq.Filter(seq.FromSlice(words), func(w string) bool { return len(w) > 5 })

	all := pair.Plus(
		pair.From(0, ""),
		pair.Map(pair.FromSeq(long, indexP4), func(k int, v string) string { return v + v }),
	)

	want := []kvP4[int, string]{{0, ""}}
	if got := drainP4(all); !reflect.DeepEqual(got, want) {
		t.Errorf("got %v, want %v", got, want)
	}
}
