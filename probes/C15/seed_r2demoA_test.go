// probe: dir=trait/pair run=^(TestDemoA_PlusKeepsKeyValuePairing)$
// Demonstration test of a seeded property-breaking change (see /verif/seeded/C15/meta.json), kept as a
// directed probe: it passes on the pinned tree and fails when that kind of change is made.
package pair_test

import (
	"fmt"
	"reflect"
	"testing"

	"github.com/fogfish/golem/trait/pair"
	"github.com/fogfish/golem/trait/seq"
)

type demoAKV struct {
	K string
	V int
}

func demoADrain(e pair.Seq[string, int]) []demoAKV {
	r := make([]demoAKV, 0)
	for has := e != nil; has; has = e.Next() {
		r = append(r, demoAKV{e.Key(), e.Value()})
	}
	return r
}

// Key() and Value() of a concatenation belong to the same element.
func TestDemoA_PlusKeepsKeyValuePairing(t *testing.T) {
	ab := func() pair.Seq[string, int] {
		return pair.Plus(pair.From("a", 1), pair.From("b", 2))
	}

	got := demoADrain(ab())
	if want := []demoAKV{{"a", 1}, {"b", 2}}; !reflect.DeepEqual(got, want) {
		t.Errorf("Plus(From(a,1), From(b,2)) = %v, want %v", got, want)
	}

	// nested: three singletons, right nested and left nested
	got = demoADrain(pair.Plus(pair.From("a", 1), pair.Plus(pair.From("b", 2), pair.From("c", 3))))
	if want := []demoAKV{{"a", 1}, {"b", 2}, {"c", 3}}; !reflect.DeepEqual(got, want) {
		t.Errorf("Plus(a, Plus(b, c)) = %v, want %v", got, want)
	}
	got = demoADrain(pair.Plus(ab(), pair.From("c", 3)))
	if want := []demoAKV{{"a", 1}, {"b", 2}, {"c", 3}}; !reflect.DeepEqual(got, want) {
		t.Errorf("Plus(Plus(a, b), c) = %v, want %v", got, want)
	}

	// a predicate receives the key matching the value
	got = demoADrain(pair.Filter(ab(), func(k string, v int) bool { return k == "b" }))
	if want := []demoAKV{{"b", 2}}; !reflect.DeepEqual(got, want) {
		t.Errorf("Filter(Plus(a, b), key == b) = %v, want %v", got, want)
	}

	// so does a join function
	txt := make([]string, 0)
	for e, has := pair.ToSeq(ab(), func(k string, v int) seq.Seq[string] {
		return seq.From(fmt.Sprintf("%s=%d", k, v))
	}), true; has && e != nil; has = e.Next() {
		txt = append(txt, e.Value())
	}
	if want := []string{"a=1", "b=2"}; !reflect.DeepEqual(txt, want) {
		t.Errorf("ToSeq(Plus(a, b)) = %v, want %v", txt, want)
	}
}
