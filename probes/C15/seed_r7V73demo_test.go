// probe: dir=trait/pair run=^(TestSeededP3JoinAfterNilReceivesMatchingKey)$
// Demonstration test of a seeded property-breaking change (see /verif/seeded/C15/meta.json), kept as a
// directed probe: it passes on the pinned tree and fails when that kind of change is made.
package pair_test

import (
	"reflect"
	"testing"

	"github.com/fogfish/golem/trait/pair"
)

type kvP3 struct {
	K string
	V int
}

// sequence of pairs with keys different from values
type kvSeqP3 struct{ el []kvP3 }

func newKVSeqP3(el ...kvP3) pair.Seq[string, int] {
	if len(el) == 0 {
		return nil
	}
	return &kvSeqP3{el}
}

func (s *kvSeqP3) Key() string { return s.el[0].K }
func (s *kvSeqP3) Value() int  { return s.el[0].V }
func (s *kvSeqP3) Next() bool {
	if len(s.el) == 1 {
		return false
	}
	s.el = s.el[1:]
	return true
}

// The join function must receive the matching key and value, also for the
// element that follows one joined with nothing (nil).
func TestSeededP3JoinAfterNilReceivesMatchingKey(t *testing.T) {
	in := []kvP3{{"a", 1}, {"b", 2}, {"c", 3}, {"d", 4}, {"e", 5}}

	calls := []kvP3{}
	e := pair.Join(newKVSeqP3(in...),
		func(k string, v int) pair.Seq[string, int] {
			calls = append(calls, kvP3{k, v})
			if v%2 == 0 {
				return nil
			}
			return pair.From(k+k, v*10)
		},
	)

	got := []kvP3{}
	for has := e != nil; has; has = e.Next() {
		got = append(got, kvP3{e.Key(), e.Value()})
	}

	if !reflect.DeepEqual(calls, in) {
		t.Errorf("join function called with %v, want %v", calls, in)
	}
	if want := []kvP3{{"aa", 10}, {"cc", 30}, {"ee", 50}}; !reflect.DeepEqual(got, want) {
		t.Errorf("drained %v, want %v", got, want)
	}
}
