// probe: dir=trait/pair run=^(TestD2FilterOfFilter)$
// Demonstration test of a seeded property-breaking change (see /verif/seeded/C15/meta.json), kept as a
// directed probe: it passes on the pinned tree and fails when that kind of change is made.
package pair_test

import (
	"fmt"
	"reflect"
	"testing"
	"time"

	"github.com/fogfish/golem/trait/pair"
)

type d2Src struct {
	ks []string
	vs []int
}

func d2From(vs ...int) pair.Seq[string, int] {
	if len(vs) == 0 {
		return nil
	}
	ks := make([]string, len(vs))
	for i, v := range vs {
		ks[i] = fmt.Sprintf("k%d", v)
	}
	return &d2Src{ks, vs}
}

func (s *d2Src) Key() string { return s.ks[0] }
func (s *d2Src) Value() int  { return s.vs[0] }
func (s *d2Src) Next() bool {
	if len(s.vs) == 1 {
		return false
	}
	s.ks, s.vs = s.ks[1:], s.vs[1:]
	return true
}

// C15: Filter nested in Filter has list semantics (and terminates).
func TestD2FilterOfFilter(t *testing.T) {
	type kv struct {
		k string
		v int
	}

	// the predicates are called a bounded number of times on a finite list;
	// a runaway evaluation is cut (panic) long before the stack is exhausted.
	const budget = 10000
	calls := 0
	even := func(k string, v int) bool {
		if calls++; calls > budget {
			panic(fmt.Sprintf("runaway: inner predicate called %d times for 9 elements", calls))
		}
		return v%2 == 0
	}
	big := func(k string, v int) bool { return v > 3 && k != "k8" }

	type result struct {
		got []kv
		err any
	}
	done := make(chan result, 1)
	go func() {
		var r result
		defer func() {
			r.err = recover()
			done <- r
		}()

		e := pair.Filter(pair.Filter(d2From(1, 2, 3, 4, 5, 6, 7, 8, 10), even), big)
		for has := e != nil; has; has = e.Next() {
			r.got = append(r.got, kv{e.Key(), e.Value()})
		}
	}()

	select {
	case r := <-done:
		if r.err != nil {
			t.Fatalf("Filter(Filter(s, even), big) does not terminate: %v", r.err)
		}
		want := []kv{{"k4", 4}, {"k6", 6}, {"k10", 10}}
		if !reflect.DeepEqual(r.got, want) {
			t.Fatalf("Filter(Filter(s, even), big) = %v, want %v", r.got, want)
		}
	case <-time.After(time.Second):
		t.Fatalf("Filter(Filter(s, even), big) does not terminate within 1s")
	}
}
