// probe: dir=trait/pair run=^(TestSeededP4ForEachKeyBelongsToValue|TestSeededP4ForEachOverPlusStopsAtError)$
// Demonstration test of a seeded property-breaking change (see /verif/seeded/C15/meta.json), kept as a
// directed probe: it passes on the pinned tree and fails when that kind of change is made.
package pair_test

import (
	"errors"
	"reflect"
	"testing"

	"github.com/fogfish/golem/trait/pair"
)

type kvP4 struct {
	K string
	V int
}

type kvSeqP4 struct{ el []kvP4 }

func newKVSeqP4(el ...kvP4) pair.Seq[string, int] {
	if len(el) == 0 {
		return nil
	}
	return &kvSeqP4{el}
}

func (s *kvSeqP4) Key() string { return s.el[0].K }
func (s *kvSeqP4) Value() int  { return s.el[0].V }
func (s *kvSeqP4) Next() bool {
	if len(s.el) == 1 {
		return false
	}
	s.el = s.el[1:]
	return true
}

// ForEach hands over key and value of the same element.
func TestSeededP4ForEachKeyBelongsToValue(t *testing.T) {
	in := []kvP4{{"a", 1}, {"b", 2}, {"c", 3}, {"d", 4}}

	got := []kvP4{}
	err := pair.ForEach(newKVSeqP4(in...), func(k string, v int) error {
		got = append(got, kvP4{k, v})
		return nil
	})

	if err != nil {
		t.Errorf("unexpected error %v", err)
	}
	if !reflect.DeepEqual(got, in) {
		t.Errorf("visited %v, want %v", got, in)
	}
}

// ... also through combinators, and stops at the first error.
func TestSeededP4ForEachOverPlusStopsAtError(t *testing.T) {
	stop := errors.New("stop")

	e := pair.Plus(
		pair.Map(newKVSeqP4(kvP4{"a", 1}, kvP4{"b", 2}), func(k string, v int) int { return v * 10 }),
		pair.From("z", 26),
	)

	got := []kvP4{}
	err := pair.ForEach(e, func(k string, v int) error {
		got = append(got, kvP4{k, v})
		if v == 26 {
			return stop
		}
		return nil
	})

	if err != stop {
		t.Errorf("err = %v, want %v", err, stop)
	}
	if want := []kvP4{{"a", 10}, {"b", 20}, {"z", 26}}; !reflect.DeepEqual(got, want) {
		t.Errorf("visited %v, want %v", got, want)
	}
}
