// probe: dir=trait/pair run=^(TestD2DropWhileKeyValuePairing)$
// Demonstration test of a seeded property-breaking change (see /verif/seeded/C15/meta.json), kept as a
// directed probe: it passes on the pinned tree and fails when that kind of change is made.
package pair_test

import (
	"reflect"
	"testing"

	"github.com/fogfish/golem/trait/pair"
)

type d2kv struct {
	k string
	v int
}

type d2seq struct{ el []d2kv }

func d2from(el ...d2kv) pair.Seq[string, int] {
	if len(el) == 0 {
		return nil
	}
	return &d2seq{el}
}

func (s *d2seq) Key() string { return s.el[0].k }
func (s *d2seq) Value() int  { return s.el[0].v }
func (s *d2seq) Next() bool {
	if len(s.el) == 1 {
		return false
	}
	s.el = s.el[1:]
	return true
}

// C15: predicates receive the matching key and value, DropWhile keeps list semantics.
func TestD2DropWhileKeyValuePairing(t *testing.T) {
	in := []d2kv{{"a", 1}, {"a", 2}, {"b", 3}, {"a", 4}, {"c", 5}}

	// the predicate must only ever see pairs that exist in the input
	seen := []d2kv{}
	e := pair.DropWhile(d2from(in...), func(k string, v int) bool {
		seen = append(seen, d2kv{k, v})
		return k == "a"
	})

	got := []d2kv{}
	for has := e != nil; has; has = e.Next() {
		got = append(got, d2kv{e.Key(), e.Value()})
	}

	if want := in[2:]; !reflect.DeepEqual(got, want) {
		t.Errorf("DropWhile(key == a) = %v, want %v", got, want)
	}
	if want := in[:3]; !reflect.DeepEqual(seen, want) {
		t.Errorf("predicate was called with %v, want %v", seen, want)
	}

	// drop by a predicate over key and value together
	e = pair.DropWhile(d2from(in...), func(k string, v int) bool { return k != "b" || v != 3 })
	if e == nil || e.Key() != "b" || e.Value() != 3 {
		t.Errorf("DropWhile(until b/3) does not stop at b/3")
	}
}
