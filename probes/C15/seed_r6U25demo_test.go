// probe: dir=trait/pair run=^(TestSeededP5FromSeqSkipsEmptyInnerSequences)$
// Demonstration test of a seeded property-breaking change (see /verif/seeded/C15/meta.json), kept as a
// directed probe: it passes on the pinned tree and fails when that kind of change is made.
package pair_test

import (
	"reflect"
	"testing"

	"github.com/fogfish/golem/trait/pair"
	"github.com/fogfish/golem/trait/seq"
)

// C15: FromSeq is the flat-map of a sequence into pairs; elements that map to
// the empty sequence (nil) contribute nothing, the ones after them still do.
func TestSeededP5FromSeqSkipsEmptyInnerSequences(t *testing.T) {
	type kv struct {
		k string
		v int
	}

	words := map[int]string{1: "one", 3: "three", 4: "four"}
	lookup := func(n int) pair.Seq[string, int] {
		if w, has := words[n]; has {
			return pair.From(w, n)
		}
		return nil
	}

	for _, tc := range []struct {
		in   []int
		want []kv
	}{
		{[]int{1, 3, 4}, []kv{{"one", 1}, {"three", 3}, {"four", 4}}},
		{[]int{2, 1}, []kv{{"one", 1}}},
		{[]int{1, 2}, []kv{{"one", 1}}},
		{[]int{1, 2, 3, 4}, []kv{{"one", 1}, {"three", 3}, {"four", 4}}},
		{[]int{1, 2, 5, 3, 6, 4}, []kv{{"one", 1}, {"three", 3}, {"four", 4}}},
	} {
		e := pair.FromSeq(seq.FromSlice(tc.in), lookup)

		got := make([]kv, 0)
		pair.ForEach(e, func(k string, v int) error {
			got = append(got, kv{k, v})
			return nil
		})

		if !reflect.DeepEqual(got, tc.want) {
			t.Errorf("FromSeq over %v: expected %v, got %v", tc.in, tc.want, got)
		}
	}
}
