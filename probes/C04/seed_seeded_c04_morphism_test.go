// probe: dir=optics run=^(TestSeededC04Morphism)$
// Demonstration test of a seeded property-breaking change (see /verif/seeded/C04/meta.json), kept as a
// directed probe: it passes on the pinned tree and fails when that kind of change is made.
// DEMONSTRATION for the second (optional) seeded change C04 (patch2.diff).
//
// Place this file in:   <worktree>/optics/   (package optics_test)
// Run with:
//
//	cd <worktree>/optics && GOFLAGS=-mod=mod GOPROXY=off \
//	  go test -vet=off -count=1 -run 'TestSeededC04Morphism' ./...
//
// Expected: PASS on the original code, FAIL with patch2.diff applied.
//
// The trigger is a Morphism whose list of isos has a nil entry that is
// followed by a non-nil entry (e.g. an optional iso that is switched off).
package optics_test

import (
	"testing"

	"github.com/fogfish/golem/optics"
)

type c04Src struct {
	A int
	B string
	C float64
	Z int // not a focus
}

type c04Dst struct {
	Z int // not a focus
	C float64
	B string
	A int
}

func TestSeededC04Morphism(t *testing.T) {
	isoA := optics.Iso(optics.ForProduct1[c04Src, int]("A"), optics.ForProduct1[c04Dst, int]("A"))
	isoB := optics.Iso(optics.ForProduct1[c04Src, string]("B"), optics.ForProduct1[c04Dst, string]("B"))
	isoC := optics.Iso(optics.ForProduct1[c04Src, float64]("C"), optics.ForProduct1[c04Dst, float64]("C"))

	for name, seq := range map[string][]optics.Isomorphism[c04Src, c04Dst]{
		"no-nil":       {isoA, isoB, isoC},
		"trailing-nil": {isoA, isoB, isoC, nil},
		"repeated":     {isoA, isoB, isoA, isoC, isoC},
		"leading-nil":  {nil, isoA, isoB, isoC},
		"middle-nil":   {isoA, nil, isoB, nil, nil, isoC},
		"nil+repeated": {isoA, nil, isoA, isoB, isoC, nil, isoB},
	} {
		t.Run(name, func(t *testing.T) {
			m := optics.Morphism(seq...)

			s := c04Src{A: 1, B: "b", C: 3.0, Z: 100}
			y := c04Dst{Z: 200}
			m.Forward(&s, &y)

			if s != (c04Src{A: 1, B: "b", C: 3.0, Z: 100}) {
				t.Errorf("Forward changed the source: %+v", s)
			}
			if y != (c04Dst{Z: 200, C: 3.0, B: "b", A: 1}) {
				t.Errorf("Forward: got %+v, want {Z:200 C:3 B:b A:1}", y)
			}

			// the round trip restores the source foci, Z is left intact
			r := c04Src{Z: 300}
			m.Inverse(&y, &r)
			if r != (c04Src{A: 1, B: "b", C: 3.0, Z: 300}) {
				t.Errorf("Inverse: got %+v, want {A:1 B:b C:3 Z:300}", r)
			}
			if y != (c04Dst{Z: 200, C: 3.0, B: "b", A: 1}) {
				t.Errorf("Inverse changed its source: %+v", y)
			}
		})
	}
}
