// probe: dir=optics run=^(TestDemoB_MorphismSkipsNilEntries)$
// Demonstration test of a seeded property-breaking change (see /verif/seeded/C04/meta.json), kept as a
// directed probe: it passes on the pinned tree and fails when that kind of change is made.
package optics_test

import (
	"testing"

	"github.com/fogfish/golem/optics"
)

type demoBSrc struct {
	Guard int64
	Name  string
	Age   int64
	Mail  string
}

type demoBDst struct {
	Mail  string
	Guard int64
	Age   int64
	Name  string
}

func TestDemoB_MorphismSkipsNilEntries(t *testing.T) {
	name := optics.Iso(
		optics.ForProduct1[demoBSrc, string]("Name"),
		optics.ForProduct1[demoBDst, string]("Name"),
	)
	age := optics.Iso(
		optics.ForProduct1[demoBSrc, int64]("Age"),
		optics.ForProduct1[demoBDst, int64]("Age"),
	)
	mail := optics.Iso(
		optics.ForProduct1[demoBSrc, string]("Mail"),
		optics.ForProduct1[demoBDst, string]("Mail"),
	)

	src := demoBSrc{Guard: -1, Name: "name", Age: 33, Mail: "mail"}
	dst := demoBDst{Mail: "mail", Guard: -2, Age: 33, Name: "name"}

	for title, list := range map[string][]optics.Isomorphism[demoBSrc, demoBDst]{
		"NoNil":        {name, age, mail},
		"NilInside":    {name, nil, age, mail},
		"NilFirst":     {nil, name, age, mail},
		"NilLast":      {name, age, mail, nil},
		"NilsAndTwins": {name, nil, nil, age, name, nil, mail, age},
		"Optional":     {optional(false, name), optional(true, age), optional(true, mail), optional(true, name)},
	} {
		t.Run(title, func(t *testing.T) {
			m := optics.Morphism(list...)

			// Forward copies all foci, nothing else
			s, d := src, demoBDst{Guard: -2}
			m.Forward(&s, &d)
			if d != dst {
				t.Errorf("Forward: got %+v, want %+v", d, dst)
			}
			if s != src {
				t.Errorf("Forward: source changed %+v", s)
			}

			// Inverse copies all foci back, nothing else
			s, d = demoBSrc{Guard: -1}, dst
			m.Inverse(&d, &s)
			if s != src {
				t.Errorf("Inverse: got %+v, want %+v", s, src)
			}
			if d != dst {
				t.Errorf("Inverse: target changed %+v", d)
			}

			// Forward then Inverse restores the source foci
			s, d = src, demoBDst{}
			m.Forward(&s, &d)
			s = demoBSrc{Guard: -1}
			m.Inverse(&d, &s)
			if s != src {
				t.Errorf("Forward;Inverse: got %+v, want %+v", s, src)
			}
		})
	}
}

// optional is the idiom the nil entries exist for: a list of isomorphisms
// where some are switched off by configuration.
func optional[S, T any](on bool, iso optics.Isomorphism[S, T]) optics.Isomorphism[S, T] {
	if on {
		return iso
	}
	return nil
}
