// probe: dir=optics run=^(TestSeededC04JoinPlain|TestSeededC04JoinPromoted|TestSeededC04JoinIso)$
// Demonstration test of a seeded property-breaking change (see /verif/seeded/C04/meta.json), kept as a
// directed probe: it passes on the pinned tree and fails when that kind of change is made.
// DEMONSTRATION for seeded change C04 (patch.diff).
//
// Place this file in:   <worktree>/optics/   (package optics_test)
// Run with:
//
//	cd <worktree>/optics && GOFLAGS=-mod=mod GOPROXY=off \
//	  go test -vet=off -count=1 -run 'TestSeededC04Join' ./...
//
// Expected: PASS on the original code, FAIL with patch.diff applied.
//
// The trigger is a Join whose *inner* component lens focuses a field that is
// promoted from a struct embedded into A at a non-zero offset (so that the
// inner lens carries a non-zero hseq RootOffs).
package optics_test

import (
	"testing"

	"github.com/fogfish/golem/optics"
)

type c04Meta struct{ Tag, Rev int }

type c04Inner struct {
	Name int
	c04Meta // embedded at offset 8 => promoted fields carry RootOffs = 8
	Note    int
}

type c04Outer struct {
	ID    int
	Inner c04Inner
	Tail  int
}

// Sanity: a Join over plain (non promoted) nested field behaves on both versions.
func TestSeededC04JoinPlain(t *testing.T) {
	join := optics.Join(
		optics.ForProduct1[c04Outer, c04Inner]("Inner"),
		optics.ForProduct1[c04Inner, int]("Note"),
	)

	s := c04Outer{ID: 1, Inner: c04Inner{Name: 2, c04Meta: c04Meta{Tag: 3, Rev: 4}, Note: 5}, Tail: 6}
	if v := join.Get(&s); v != 5 {
		t.Fatalf("Get = %d, want 5", v)
	}

	join.Put(&s, 50)
	want := c04Outer{ID: 1, Inner: c04Inner{Name: 2, c04Meta: c04Meta{Tag: 3, Rev: 4}, Note: 50}, Tail: 6}
	if s != want {
		t.Fatalf("Put: got %+v, want %+v", s, want)
	}
}

// Join must be a lens on the nested field: it reads/writes exactly what the
// two component lenses read/write, and nothing outside of that focus.
func TestSeededC04JoinPromoted(t *testing.T) {
	outer := optics.ForProduct1[c04Outer, c04Inner]("Inner")

	for _, tc := range []struct {
		field string
		read  func(*c04Outer) int
		write func(*c04Outer, int)
	}{
		{"Rev", func(s *c04Outer) int { return s.Inner.Rev }, func(s *c04Outer, v int) { s.Inner.Rev = v }},
		{"Tag", func(s *c04Outer) int { return s.Inner.Tag }, func(s *c04Outer, v int) { s.Inner.Tag = v }},
	} {
		t.Run(tc.field, func(t *testing.T) {
			inner := optics.ForProduct1[c04Inner, int](tc.field)
			join := optics.Join(outer, inner)

			s := c04Outer{ID: 1, Inner: c04Inner{Name: 2, c04Meta: c04Meta{Tag: 3, Rev: 4}, Note: 5}, Tail: 6}

			// Get agrees with the direct field access and with the components.
			a := outer.Get(&s)
			if got, want := join.Get(&s), inner.Get(&a); got != want {
				t.Errorf("Get = %d, component lenses give %d", got, want)
			}
			if got, want := join.Get(&s), tc.read(&s); got != want {
				t.Errorf("Get = %d, field holds %d", got, want)
			}

			// Put writes the nested field and only the nested field.
			want := s
			tc.write(&want, 77)
			join.Put(&s, 77)
			if s != want {
				t.Errorf("Put: got %+v, want %+v", s, want)
			}

			// GetPut on the result must still be a no-op.
			join.Put(&s, join.Get(&s))
			if s != want {
				t.Errorf("GetPut: got %+v, want %+v", s, want)
			}
		})
	}
}

// Same through Iso: Forward then Inverse must restore the source focus and
// must not change any field outside the foci.
func TestSeededC04JoinIso(t *testing.T) {
	type T struct{ X, Rev, Y int }

	iso := optics.Iso(
		optics.Join(
			optics.ForProduct1[c04Outer, c04Inner]("Inner"),
			optics.ForProduct1[c04Inner, int]("Rev"),
		),
		optics.ForProduct1[T, int]("Rev"),
	)

	s := c04Outer{ID: 1, Inner: c04Inner{Name: 2, c04Meta: c04Meta{Tag: 3, Rev: 4}, Note: 5}, Tail: 6}
	y := T{X: 10, Y: 30}
	iso.Forward(&s, &y)
	if y != (T{X: 10, Rev: 4, Y: 30}) {
		t.Errorf("Forward: got %+v, want {10 4 30}", y)
	}

	r := c04Outer{ID: 1, Inner: c04Inner{Name: 2, c04Meta: c04Meta{Tag: 3}, Note: 5}, Tail: 6}
	iso.Inverse(&y, &r)
	if r != s {
		t.Errorf("Inverse: got %+v, want %+v", r, s)
	}
}
