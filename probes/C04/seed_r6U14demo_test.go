// probe: dir=optics run=^(TestSeedD4MapLensNilContainer)$
// Demonstration test of a seeded property-breaking change (see /verif/seeded/C04/meta.json), kept as a
// directed probe: it passes on the pinned tree and fails when that kind of change is made.
package optics_test

import (
	"testing"

	"github.com/fogfish/golem/optics"
)

// C04: a map lens obeys PutGet, and Iso.Forward followed by Iso.Inverse
// restores the source focus. A Put that cannot be performed (nil map) has to
// fail loudly, it is never silently dropped.
func TestSeedD4MapLensNilContainer(t *testing.T) {
	type S struct{ N int }
	type M map[string]int

	put := func(f func()) (panicked bool) {
		defer func() { panicked = recover() != nil }()
		f()
		return
	}

	t.Run("PutGet", func(t *testing.T) {
		ln := optics.NewLensM[M]("n")

		var m M
		if put(func() { ln.Put(&m, 7) }) {
			return // loud failure is fine
		}
		if v := ln.Get(&m); v != 7 {
			t.Fatalf("Put(7) accepted, Get = %d (map %v)", v, m)
		}
	})

	t.Run("ForwardInverse", func(t *testing.T) {
		iso := optics.Iso(
			optics.ForProduct1[S, int](),
			optics.NewLensM[M]("n"),
		)

		s := S{N: 7}
		var m M
		if put(func() { iso.Forward(&s, &m) }) {
			return // loud failure is fine
		}
		iso.Inverse(&m, &s)
		if s.N != 7 {
			t.Fatalf("Forward then Inverse: source focus is %d, want 7 (map %v)", s.N, m)
		}
	})

	t.Run("NonNil", func(t *testing.T) {
		ln := optics.NewLensM[M]("n")
		m := M{"x": 1}
		if ln.Put(&m, 0) != &m || len(m) != 2 || ln.Get(&m) != 0 || m["x"] != 1 {
			t.Fatalf("Put on a non-nil map: %v", m)
		}
	})
}
