// probe: dir=optics run=^(TestSeededP2MorphismMixedLenses|TestSeededP2MorphismConvertingLenses)$
// Demonstration test of a seeded property-breaking change (see /verif/seeded/C04/meta.json), kept as a
// directed probe: it passes on the pinned tree and fails when that kind of change is made.
package optics_test

import (
	"testing"

	"github.com/fogfish/golem/optics"
)

// A Morphism over any list of isomorphisms (nil entries skipped, entries may
// repeat) copies the foci forth and back - also when the isomorphisms are
// built from converting lenses (BiMap*, Getter, Setter) of the same types.

type p2Name string
type p2Label string

type p2S struct {
	First p2Name
	Last  p2Name
	Age   int
	Rest  string
}

type p2T struct {
	Pad   int
	First p2Label
	Last  p2Label
	Age   int
}

func p2Morphism(t *testing.T, seq ...optics.Isomorphism[p2S, p2T]) (m optics.Isomorphism[p2S, p2T]) {
	t.Helper()
	defer func() {
		if r := recover(); r != nil {
			t.Fatalf("Morphism panics over a valid list of isomorphisms: %v", r)
		}
	}()
	return optics.Morphism(seq...)
}

func p2RoundTrip(t *testing.T, m optics.Isomorphism[p2S, p2T]) {
	t.Helper()

	s := p2S{First: "Ada", Last: "Lovelace", Age: 36, Rest: "rest"}
	y := p2T{Pad: 5}
	m.Forward(&s, &y)
	if s != (p2S{First: "Ada", Last: "Lovelace", Age: 36, Rest: "rest"}) {
		t.Errorf("Forward changed the source: %+v", s)
	}
	if y != (p2T{Pad: 5, First: "Ada", Last: "Lovelace", Age: 36}) {
		t.Errorf("Forward: got %+v", y)
	}

	z := p2S{Rest: "keep"}
	m.Inverse(&y, &z)
	if z != (p2S{First: "Ada", Last: "Lovelace", Age: 36, Rest: "keep"}) {
		t.Errorf("Inverse: got %+v", z)
	}
	if y != (p2T{Pad: 5, First: "Ada", Last: "Lovelace", Age: 36}) {
		t.Errorf("Inverse changed the target: %+v", y)
	}
}

func TestSeededP2MorphismMixedLenses(t *testing.T) {
	first := optics.Iso(
		optics.BiMapS[p2S, p2Name, p2Label]("First"),
		optics.ForProduct1[p2T, p2Label]("First"),
	)
	last := optics.Iso(
		optics.ForProduct1[p2S, p2Name]("Last"),
		optics.BiMapS[p2T, p2Label, p2Name]("Last"),
	)
	age := optics.Iso(
		optics.ForProduct1[p2S, int]("Age"),
		optics.ForProduct1[p2T, int]("Age"),
	)

	p2RoundTrip(t, p2Morphism(t, nil, first, nil, last, age, age, nil, first))
}

func TestSeededP2MorphismConvertingLenses(t *testing.T) {
	first := optics.Iso(
		optics.BiMapS[p2S, p2Name, p2Label]("First"),
		optics.ForProduct1[p2T, p2Label]("First"),
	)
	last := optics.Iso(
		optics.BiMapS[p2S, p2Name, p2Label]("Last"),
		optics.ForProduct1[p2T, p2Label]("Last"),
	)
	age := optics.Iso(
		optics.ForProduct1[p2S, int]("Age"),
		optics.ForProduct1[p2T, int]("Age"),
	)

	p2RoundTrip(t, p2Morphism(t, nil, first, last, nil, age))
	p2RoundTrip(t, p2Morphism(t, age, last, last, first))
}
