// probe: dir=optics run=^(TestSeedD5IsoForwardZeroValue)$
// Demonstration test of a seeded property-breaking change (see /verif/seeded/C04/meta.json), kept as a
// directed probe: it passes on the pinned tree and fails when that kind of change is made.
package optics_test

import (
	"testing"

	"github.com/fogfish/golem/optics"
)

// C04: Iso.Forward makes the target focus equal to the source focus, whatever
// the value is, so that Forward followed by Inverse restores the source.
func TestSeedD5IsoForwardZeroValue(t *testing.T) {
	type S struct {
		A int
		B string
	}
	type T struct {
		X string
		Y int
	}

	iso := optics.Iso(
		optics.ForProduct1[S, int](),
		optics.ForProduct1[T, int](),
	)

	// non-zero value, fresh target
	s, y := S{A: 3, B: "b"}, T{X: "x"}
	iso.Forward(&s, &y)
	if s != (S{3, "b"}) || y != (T{"x", 3}) {
		t.Fatalf("Forward(3): %v %v", s, y)
	}

	// zero value onto a target that already holds something
	s, y = S{A: 0, B: "b"}, T{X: "x", Y: 9}
	iso.Forward(&s, &y)
	if y != (T{"x", 0}) {
		t.Fatalf("Forward(0): target is %v, want {x 0}", y)
	}
	iso.Inverse(&y, &s)
	if s != (S{0, "b"}) {
		t.Fatalf("Forward then Inverse: source is %v, want {0 b}", s)
	}

	// the same through a morphism
	mor := optics.Morphism(nil, iso)
	s, y = S{A: 0, B: "b"}, T{X: "x", Y: 9}
	mor.Forward(&s, &y)
	mor.Inverse(&y, &s)
	if s != (S{0, "b"}) || y != (T{"x", 0}) {
		t.Fatalf("Morphism Forward then Inverse: %v %v", s, y)
	}
}
