// probe: dir=optics run=^(TestSeedD5MorphismAnyList)$
// Demonstration test of a seeded property-breaking change (see /verif/seeded/C04/meta.json), kept as a
// directed probe: it passes on the pinned tree and fails when that kind of change is made.
package optics_test

import (
	"strconv"
	"testing"

	"github.com/fogfish/golem/optics"
)

// C04: a Morphism over ANY list of isos (nil entries skipped, repeated
// entries allowed) applies every entry, in the order given.
func TestSeedD5MorphismAnyList(t *testing.T) {
	type S struct {
		A, B string
		N    int
	}
	type T struct {
		X string
		Y string
	}

	sa := optics.ForProduct1[S, string]("A")
	sb := optics.ForProduct1[S, string]("B")
	tx := optics.ForProduct1[T, string]("X")
	ty := optics.ForProduct1[T, string]("Y")

	t.Run("RepeatedEntryKeepsItsPosition", func(t *testing.T) {
		ax := optics.Iso(sa, tx)
		bx := optics.Iso(sb, tx)

		// A -> X, B -> X, A -> X : the last write wins, X == A
		m := optics.Morphism(ax, nil, bx, ax)

		s := S{A: "a", B: "b", N: 1}
		y := T{Y: "y"}
		m.Forward(&s, &y)
		if y.X != "a" || y.Y != "y" {
			t.Errorf("Forward = %+v, want X=a Y=y", y)
		}
		if s != (S{A: "a", B: "b", N: 1}) {
			t.Errorf("Forward changed the source %+v", s)
		}

		// X -> A, X -> B, X -> A
		s = S{N: 2}
		y = T{X: "x", Y: "y"}
		m.Inverse(&y, &s)
		if s != (S{A: "x", B: "x", N: 2}) || y != (T{X: "x", Y: "y"}) {
			t.Errorf("Inverse = %+v %+v", s, y)
		}
	})

	t.Run("IsoOverCodecLens", func(t *testing.T) {
		defer func() {
			if e := recover(); e != nil {
				t.Errorf("Morphism over codec lenses failed: %v", e)
			}
		}()

		// N (int) <-> Y (string) through a codec lens
		ny := optics.Iso(
			optics.BiMap(
				optics.ForProduct1[S, int]("N"),
				func(n int) string { return strconv.Itoa(n) },
				func(v string) int { n, _ := strconv.Atoi(v); return n },
			),
			ty,
		)

		m := optics.Morphism(optics.Iso(sa, tx), ny)

		s := S{A: "a", B: "b", N: 42}
		y := T{}
		m.Forward(&s, &y)
		if y != (T{X: "a", Y: "42"}) {
			t.Errorf("Forward = %+v", y)
		}

		r := S{B: "b"}
		m.Inverse(&y, &r)
		if r != s {
			t.Errorf("Forward then Inverse = %+v, want %+v", r, s)
		}
	})
}
