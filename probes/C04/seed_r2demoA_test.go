// probe: dir=optics run=^(TestDemoA_JoinOfFieldLenses)$
// Demonstration test of a seeded property-breaking change (see /verif/seeded/C04/meta.json), kept as a
// directed probe: it passes on the pinned tree and fails when that kind of change is made.
package optics_test

import (
	"testing"

	"github.com/fogfish/golem/optics"
)

// The inner focus (Lat / Lon) is reached inside demoAAddr through the
// value-embedded struct demoAGeo that does not start the struct.
type demoAGeo struct {
	Lat int64
	Lon int64
}

type demoAAddr struct {
	Zip int64
	demoAGeo
	Floor int64
}

type demoAUser struct {
	ID   int64
	Addr demoAAddr
	Age  int64
}

func TestDemoA_JoinOfFieldLenses(t *testing.T) {
	addr := optics.ForProduct1[demoAUser, demoAAddr]()

	sample := func() demoAUser {
		return demoAUser{
			ID:   1,
			Addr: demoAAddr{Zip: 2, demoAGeo: demoAGeo{Lat: 3, Lon: 4}, Floor: 5},
			Age:  6,
		}
	}

	t.Run("DirectFieldOfInner", func(t *testing.T) {
		// control: inner focus is a direct field of demoAAddr
		floor := optics.Join(addr, optics.ForProduct1[demoAAddr, int64]("Floor"))

		u := sample()
		if got := floor.Get(&u); got != 5 {
			t.Errorf("Get = %d, want 5", got)
		}
		floor.Put(&u, 50)
		want := sample()
		want.Addr.Floor = 50
		if u != want {
			t.Errorf("Put(Floor, 50): got %+v, want %+v", u, want)
		}
	})

	t.Run("EmbeddedFieldOfInner", func(t *testing.T) {
		lat := optics.Join(addr, optics.ForProduct1[demoAAddr, int64]("Lat"))
		lon := optics.Join(addr, optics.ForProduct1[demoAAddr, int64]("Lon"))

		u := sample()

		// Get
		if got := lat.Get(&u); got != 3 {
			t.Errorf("Get(Lat) = %d, want 3", got)
		}
		if got := lon.Get(&u); got != 4 {
			t.Errorf("Get(Lon) = %d, want 4", got)
		}

		// GetPut
		lat.Put(&u, lat.Get(&u))
		if u != sample() {
			t.Errorf("GetPut: got %+v, want %+v", u, sample())
		}

		// PutGet, nothing but the focus is touched
		if r := lon.Put(&u, 40); r != &u {
			t.Errorf("Put returned a different pointer")
		}
		want := sample()
		want.Addr.Lon = 40
		if u != want {
			t.Errorf("Put(Lon, 40): got %+v, want %+v", u, want)
		}
		if got := lon.Get(&u); got != 40 {
			t.Errorf("PutGet(Lon) = %d, want 40", got)
		}

		// PutPut
		lat.Put(lat.Put(&u, 31), 30)
		want.Addr.Lat = 30
		if u != want {
			t.Errorf("PutPut(Lat): got %+v, want %+v", u, want)
		}
	})

	t.Run("JoinOfJoin", func(t *testing.T) {
		// user -> addr -> geo -> lon : same focus, three levels
		geo := optics.Join(addr, optics.ForProduct1[demoAAddr, demoAGeo]())
		lon := optics.Join(geo, optics.ForProduct1[demoAGeo, int64]("Lon"))

		u := sample()
		lon.Put(&u, 40)
		want := sample()
		want.Addr.Lon = 40
		if u != want {
			t.Errorf("Put(Lon, 40): got %+v, want %+v", u, want)
		}
	})
}
