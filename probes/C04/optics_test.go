// probe: dir=optics run=TestProbeC04
package optics_test

import (
	"fmt"
	"strings"
	"testing"

	"github.com/fogfish/golem/optics"
)

// Directed probe for C04: composed optics against their component lenses on structs with
// embedded (promoted) fields at non-zero offsets; morphisms with nil and repeated entries.
type Meta struct {
	Pad  int64
	Rev  int
	Tag  string
	Name string
}

type Inner struct {
	Lead bool
	Meta
	Tail string
}

type Outer struct {
	Head string
	In   Inner
	Foot int
}

type Flat struct {
	X    string
	Rev  int
	Tag  string
	Name string
	Y    int
}

func TestProbeC04(t *testing.T) {
	in := optics.ForProduct1[Outer, Inner]("In")
	for _, name := range []string{"Tag", "Name", "Tail"} {
		field := optics.ForProduct1[Inner, string](name)
		j := optics.Join(in, field)
		o := Outer{Head: "h", In: Inner{Lead: true, Meta: Meta{Pad: 7, Rev: 3, Tag: "tag", Name: "name"}, Tail: "tail"}, Foot: 9}
		inner := o.In
		want := field.Get(&inner)
		if got := j.Get(&o); got != want {
			t.Fatalf("Join(In, %s).Get = %q, component lenses give %q", name, got, want)
		}
		j.Put(&o, "NEW")
		exp := Outer{Head: "h", In: Inner{Lead: true, Meta: Meta{Pad: 7, Rev: 3, Tag: "tag", Name: "name"}, Tail: "tail"}, Foot: 9}
		ei := exp.In
		field.Put(&ei, "NEW")
		exp.In = ei
		if o != exp {
			t.Fatalf("Join(In, %s).Put: got %+v, want %+v", name, o, exp)
		}
	}
	rev := optics.Join(in, optics.ForProduct1[Inner, int]("Rev"))
	o := Outer{In: Inner{Meta: Meta{Rev: 5, Tag: "t"}}}
	if rev.Get(&o) != 5 {
		t.Fatalf("Join(In, Rev).Get = %d, want 5", rev.Get(&o))
	}
	rev.Put(&o, 6)
	if o.In.Rev != 6 || o.In.Tag != "t" {
		t.Fatalf("Join(In, Rev).Put touched other fields: %+v", o)
	}

	// iso / morphism: forward then inverse restores the source foci; nil entries skipped
	iRev := optics.Iso(rev, optics.ForProduct1[Flat, int]("Rev"))
	iTag := optics.Iso(optics.Join(in, optics.ForProduct1[Inner, string]("Tag")), optics.ForProduct1[Flat, string]("Tag"))
	iName := optics.Iso(optics.Join(in, optics.ForProduct1[Inner, string]("Name")), optics.ForProduct1[Flat, string]("Name"))
	lists := [][]optics.Isomorphism[Outer, Flat]{
		{iRev, iTag, iName}, {nil, iRev, iTag, iName}, {iRev, nil, iTag, nil, iName}, {iRev, iTag, iName, nil}, {iRev, iRev, nil, iTag, iName, iTag},
	}
	for i, l := range lists {
		m := optics.Morphism(l...)
		src := Outer{Head: "h", In: Inner{Lead: true, Meta: Meta{Pad: 1, Rev: 42, Tag: "T", Name: "N"}, Tail: "tl"}, Foot: 3}
		dst := Flat{X: "x", Y: 8}
		m.Forward(&src, &dst)
		if dst != (Flat{X: "x", Rev: 42, Tag: "T", Name: "N", Y: 8}) {
			t.Fatalf("morphism %d Forward: %+v", i, dst)
		}
		back := Outer{Head: "h2", In: Inner{Tail: "keep"}, Foot: 4}
		m.Inverse(&dst, &back)
		if back != (Outer{Head: "h2", In: Inner{Meta: Meta{Rev: 42, Tag: "T", Name: "N"}, Tail: "keep"}, Foot: 4}) {
			t.Fatalf("morphism %d Inverse: %+v", i, back)
		}
	}

	// shape: positional, like the component lenses
	sh := optics.ForShape3[Flat, string, int, string]("Tag", "Rev", "Name")
	f := Flat{X: "x", Rev: 1, Tag: "a", Name: "b", Y: 2}
	a, b, c := sh.Get(&f)
	if a != "a" || b != 1 || c != "b" {
		t.Fatalf("shape Get = %v %v %v", a, b, c)
	}
	sh.Put(&f, "A", 10, "B")
	if f != (Flat{X: "x", Rev: 10, Tag: "A", Name: "B", Y: 2}) {
		t.Fatalf("shape Put = %+v", f)
	}

	// getter, setter, bimap, map lens
	tag := optics.ForProduct1[Flat, string]("Tag")
	g := optics.Getter(tag, strings.ToUpper)
	f2 := Flat{Tag: "q", Name: "n"}
	g.Put(&f2, "zzz")
	if g.Get(&f2) != "Q" || f2 != (Flat{Tag: "q", Name: "n"}) {
		t.Fatalf("Getter wrote or misread: %+v", f2)
	}
	s := optics.Setter(tag, func(i int) string { return fmt.Sprint(i) })
	s.Put(&f2, 12)
	if f2 != (Flat{Tag: "12", Name: "n"}) {
		t.Fatalf("Setter: %+v", f2)
	}
	bm := optics.BiMap(tag, func(a string) []byte { return []byte(a) }, func(b []byte) string { return string(b) })
	bm.Put(&f2, []byte("xy"))
	if string(bm.Get(&f2)) != "xy" || f2.Name != "n" {
		t.Fatalf("BiMap: %+v", f2)
	}
	ml := optics.NewLensM[map[string]int]("k")
	mm := map[string]int{"k": 1, "other": 2}
	ml.Put(&mm, 5)
	if ml.Get(&mm) != 5 || mm["other"] != 2 || len(mm) != 2 {
		t.Fatalf("map lens: %v", mm)
	}
}
