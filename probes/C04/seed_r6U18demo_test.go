// probe: dir=optics run=^(TestSeedD8GetterNeverWrites)$
// Demonstration test of a seeded property-breaking change (see /verif/seeded/C04/meta.json), kept as a
// directed probe: it passes on the pinned tree and fails when that kind of change is made.
package optics_test

import (
	"strconv"
	"strings"
	"testing"

	"github.com/fogfish/golem/optics"
)

// C04: Getter never writes - neither to the focus nor to anything else, whatever
// lens it is built upon.
func TestSeedD8GetterNeverWrites(t *testing.T) {
	type S struct {
		A string
		N int
	}
	type M map[string]int

	t.Run("Struct", func(t *testing.T) {
		g := optics.Getter(optics.ForProduct1[S, int](), strconv.Itoa)
		s := S{A: "a", N: 7}
		if g.Get(&s) != "7" || g.Put(&s, "9") != &s || s != (S{"a", 7}) {
			t.Fatalf("Getter over a field: %+v", s)
		}
	})

	t.Run("Map", func(t *testing.T) {
		g := optics.Getter(optics.NewLensM[M]("n"), strconv.Itoa)
		m := M{}
		if g.Get(&m) != "0" {
			t.Fatalf("Get = %s", g.Get(&m))
		}
		g.Put(&m, "9")
		if _, has := m["n"]; has || len(m) != 0 {
			t.Fatalf("Getter.Put wrote to the map: %v", m)
		}
	})

	t.Run("BiMap", func(t *testing.T) {
		// non-identity conversion: stored as is, written in lower case
		low := optics.BiMap(
			optics.ForProduct1[S, string](),
			func(a string) string { return a },
			strings.ToLower,
		)
		g := optics.Getter(low, func(a string) int { return len(a) })
		s := S{A: "MiXed", N: 1}
		if g.Get(&s) != 5 {
			t.Fatalf("Get = %d", g.Get(&s))
		}
		g.Put(&s, 3)
		if s != (S{"MiXed", 1}) {
			t.Fatalf("Getter.Put wrote to the struct: %+v", s)
		}
	})

	t.Run("Setter", func(t *testing.T) {
		// write-only lens underneath: its Get is the zero value
		set := optics.Setter(optics.ForProduct1[S, int](), func(b string) int { n, _ := strconv.Atoi(b); return n })
		g := optics.Getter(set, func(b string) bool { return b != "" })
		s := S{A: "a", N: 7}
		g.Put(&s, true)
		if s != (S{"a", 7}) {
			t.Fatalf("Getter.Put wrote to the struct: %+v", s)
		}
	})
}
