// probe: dir=optics run=^(TestSeededP1JoinPlainField|TestSeededP1JoinEmbeddedFocus|TestSeededP1JoinDepth3)$
// Demonstration test of a seeded property-breaking change (see /verif/seeded/C04/meta.json), kept as a
// directed probe: it passes on the pinned tree and fails when that kind of change is made.
package optics_test

import (
	"testing"

	"github.com/fogfish/golem/optics"
)

// Join(a, b) must behave as "get A with a, focus B inside it with b, put A back"
// for every shape of A, including a focus that lives inside a struct embedded
// into A, at any nesting depth.

type p1Meta struct{ Rev int64 }

type p1Inner struct {
	ID int64
	p1Meta
}

type p1Outer struct {
	Tag  int64
	In   p1Inner
	Tail int64
}

type p1Root struct {
	Head int64
	Out  p1Outer
	Foot int64
}

func TestSeededP1JoinPlainField(t *testing.T) {
	a := optics.ForProduct1[p1Outer, p1Inner]("In")
	b := optics.ForProduct1[p1Inner, int64]("ID")
	j := optics.Join(a, b)

	o := p1Outer{Tag: 1, In: p1Inner{ID: 2, p1Meta: p1Meta{Rev: 3}}, Tail: 4}
	if v := j.Get(&o); v != 2 {
		t.Fatalf("Get = %d, want 2", v)
	}
	j.Put(&o, 20)
	want := p1Outer{Tag: 1, In: p1Inner{ID: 20, p1Meta: p1Meta{Rev: 3}}, Tail: 4}
	if o != want {
		t.Fatalf("Put: got %+v, want %+v", o, want)
	}
}

func TestSeededP1JoinEmbeddedFocus(t *testing.T) {
	a := optics.ForProduct1[p1Outer, p1Inner]("In")
	b := optics.ForProduct1[p1Inner, int64]("Rev")
	j := optics.Join(a, b)

	o := p1Outer{Tag: 1, In: p1Inner{ID: 2, p1Meta: p1Meta{Rev: 3}}, Tail: 4}

	// the joined lens reads what the component lenses read
	in := a.Get(&o)
	if got, want := j.Get(&o), b.Get(&in); got != want {
		t.Errorf("Get = %d, want %d (b.Get(a.Get(s)))", got, want)
	}

	// GetPut: putting back what was read changes nothing
	c := o
	j.Put(&c, j.Get(&c))
	if c != o {
		t.Errorf("GetPut changed the structure: %+v, want %+v", c, o)
	}

	// PutGet + nothing outside of the focus is touched
	j.Put(&o, 30)
	want := p1Outer{Tag: 1, In: p1Inner{ID: 2, p1Meta: p1Meta{Rev: 30}}, Tail: 4}
	if o != want {
		t.Errorf("Put: got %+v, want %+v", o, want)
	}
	if v := j.Get(&o); v != 30 {
		t.Errorf("PutGet: Get = %d, want 30", v)
	}

	// PutPut
	j.Put(j.Put(&o, 31), 32)
	want.In.Rev = 32
	if o != want {
		t.Errorf("PutPut: got %+v, want %+v", o, want)
	}
}

func TestSeededP1JoinDepth3(t *testing.T) {
	r := optics.ForProduct1[p1Root, p1Outer]("Out")
	a := optics.ForProduct1[p1Outer, p1Inner]("In")
	b := optics.ForProduct1[p1Inner, int64]("Rev")

	for name, j := range map[string]optics.Lens[p1Root, int64]{
		"left":  optics.Join(optics.Join(r, a), b),
		"right": optics.Join(r, optics.Join(a, b)),
	} {
		s := p1Root{Head: 7, Out: p1Outer{Tag: 1, In: p1Inner{ID: 2, p1Meta: p1Meta{Rev: 3}}, Tail: 4}, Foot: 8}
		if v := j.Get(&s); v != 3 {
			t.Errorf("%s: Get = %d, want 3", name, v)
		}
		j.Put(&s, 33)
		want := p1Root{Head: 7, Out: p1Outer{Tag: 1, In: p1Inner{ID: 2, p1Meta: p1Meta{Rev: 33}}, Tail: 4}, Foot: 8}
		if s != want {
			t.Errorf("%s: Put: got %+v, want %+v", name, s, want)
		}
	}
}
