// probe: dir=optics run=^(TestSeedD4BiMapNamedFocus)$
// Demonstration test of a seeded property-breaking change (see /verif/seeded/C04/meta.json), kept as a
// directed probe: it passes on the pinned tree and fails when that kind of change is made.
package optics_test

import (
	"testing"

	"github.com/fogfish/golem/optics"
)

// C04 (and C01 for the underlying derivation by name): BiMapS/B/I/F given a
// field name are codec lenses over THAT field; Put writes exactly the
// converted value into it and nothing else, Get reads it back.
func TestSeedD4BiMapNamedFocus(t *testing.T) {
	type Celsius float64
	type Degree float64
	type Meter int
	type Length int
	type Label string
	type Text string

	type T struct {
		Low   Celsius
		High  Celsius
		Width Meter
		Depth Meter
		Head  Label
		Tail  Label
	}

	t.Run("BiMapF", func(t *testing.T) {
		ln := optics.BiMapF[T, Celsius, Degree]("High")

		v := T{Low: 1.5, High: 2.5}
		if got := ln.Get(&v); got != 2.5 {
			t.Errorf("Get = %v, want 2.5 (field High)", got)
		}
		ln.Put(&v, 36.6)
		if v.High != 36.6 || v.Low != 1.5 {
			t.Errorf("Put wrote outside of High: %+v", v)
		}
		if got := ln.Get(&v); got != 36.6 {
			t.Errorf("PutGet = %v, want 36.6", got)
		}
	})

	t.Run("BiMapI", func(t *testing.T) {
		ln := optics.BiMapI[T, Meter, Length]("Depth")

		v := T{Width: 1, Depth: 2}
		if got := ln.Get(&v); got != 2 {
			t.Errorf("Get = %v, want 2 (field Depth)", got)
		}
		ln.Put(&v, 10)
		if v.Depth != 10 || v.Width != 1 {
			t.Errorf("Put wrote outside of Depth: %+v", v)
		}
	})

	t.Run("BiMapS", func(t *testing.T) {
		ln := optics.BiMapS[T, Label, Text]("Tail")

		v := T{Head: "h", Tail: "t"}
		if got := ln.Get(&v); got != "t" {
			t.Errorf("Get = %v, want t (field Tail)", got)
		}
		ln.Put(&v, "x")
		if v.Tail != "x" || v.Head != "h" {
			t.Errorf("Put wrote outside of Tail: %+v", v)
		}
	})

	t.Run("Unknown", func(t *testing.T) {
		defer func() {
			if recover() == nil {
				t.Errorf("BiMapF over unknown field must panic at derivation")
			}
		}()
		optics.BiMapF[T, Celsius, Degree]("Medium")
	})
}
