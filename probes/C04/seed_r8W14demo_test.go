// probe: dir=optics run=^(TestSeededP4BiMapIWideIntegers|TestSeededP4IsoOverBiMapIRestoresSource)$
// Demonstration test of a seeded property-breaking change (see /verif/seeded/C04/meta.json), kept as a
// directed probe: it passes on the pinned tree and fails when that kind of change is made.
package optics_test

import (
	"math"
	"testing"

	"github.com/fogfish/golem/optics"
)

type seededP4Seq int64
type seededP4Nanos int64

type seededP4Event struct {
	Name string
	Seq  seededP4Seq
	At   seededP4Nanos
	Rev  int32
}

func TestSeededP4BiMapIWideIntegers(t *testing.T) {
	seq := optics.BiMapI[seededP4Event, seededP4Seq, int64]("Seq")
	at := optics.BiMapI[seededP4Event, seededP4Nanos, int64]("At")

	for _, v := range []int64{
		0, 1, -1, 100, 1 << 31, 1 << 52, 1 << 53, // exact in any representation
		1<<53 + 1,
		-(1<<53 + 1),
		1700000000123456789, // unix time, nanoseconds
		math.MaxInt64 - 1,
		math.MaxInt64,
		math.MinInt64 + 1,
	} {
		e := seededP4Event{Name: "e", Seq: 5, At: 7, Rev: 3}

		// PutGet on the converted value
		if got := seq.Get(seq.Put(&e, v)); got != v {
			t.Errorf("PutGet: BiMapI Get(Put(%d)) = %d", v, got)
		}
		// Put writes exactly the converted value and nothing else
		if want := (seededP4Event{Name: "e", Seq: seededP4Seq(v), At: 7, Rev: 3}); e != want {
			t.Errorf("Put(%d): %+v, want %+v", v, e, want)
		}

		// GetPut: nothing changes
		e = seededP4Event{Name: "e", Seq: 5, At: seededP4Nanos(v), Rev: 3}
		at.Put(&e, at.Get(&e))
		if want := (seededP4Event{Name: "e", Seq: 5, At: seededP4Nanos(v), Rev: 3}); e != want {
			t.Errorf("GetPut at %d: %+v, want %+v", v, e, want)
		}
	}
}

func TestSeededP4IsoOverBiMapIRestoresSource(t *testing.T) {
	type View struct {
		Label string
		Seq   int64
	}

	iso := optics.Morphism(
		nil,
		optics.Iso(
			optics.BiMapI[seededP4Event, seededP4Seq, int64]("Seq"),
			optics.ForProduct1[View, int64]("Seq"),
		),
		nil,
	)

	src := seededP4Event{Name: "e", Seq: 9007199254740993, At: 7, Rev: 3}
	s, v := src, View{Label: "v"}

	iso.Forward(&s, &v)
	if v.Seq != 9007199254740993 || v.Label != "v" {
		t.Errorf("Forward: view %+v, want {Label:v Seq:9007199254740993}", v)
	}

	s.Seq = 0
	iso.Inverse(&v, &s)
	if s != src {
		t.Errorf("Forward then Inverse: %+v, want %+v", s, src)
	}
}
