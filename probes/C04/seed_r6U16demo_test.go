// probe: dir=optics run=^(TestSeedD6Shape3OverlappingFoci)$
// Demonstration test of a seeded property-breaking change (see /verif/seeded/C04/meta.json), kept as a
// directed probe: it passes on the pinned tree and fails when that kind of change is made.
package optics_test

import (
	"testing"

	"github.com/fogfish/golem/optics"
)

// C04: a ShapeN lens writes its N fields exactly as its N component lenses
// would, for every arity alike: when two components focus overlapping (or the
// same) memory, the component listed first is the one that prevails, as it does
// for Shape2 and Shape4.
func TestSeedD6Shape3OverlappingFoci(t *testing.T) {
	type In struct{ K, L string }
	type T struct {
		In
		N int
		M int
	}

	// reference: the component lenses applied the way shapeN.Put composes them
	in, n, k := optics.ForProduct3[T, In, int, string]("In", "N", "K")
	want := T{}
	in.Put(n.Put(k.Put(&want, "k"), 1), In{K: "in", L: "l"})

	ln3 := optics.ForShape3[T, In, int, string]("In", "N", "K")
	got := T{}
	if ln3.Put(&got, In{K: "in", L: "l"}, 1, "k") != &got {
		t.Fatalf("Put does not return its argument")
	}
	if got != want {
		t.Fatalf("Shape3.Put over (In, N, In.K) = %+v, want %+v", got, want)
	}
	if a, b, c := ln3.Get(&got); a != (In{"in", "l"}) || b != 1 || c != "in" {
		t.Fatalf("Shape3.Get = %v %v %v", a, b, c)
	}

	// same field named twice: same winner at every arity
	ln2 := optics.ForShape2[T, int, int]("N", "N")
	ln4 := optics.ForShape4[T, int, int, int, int]("N", "M", "M", "N")
	ln := optics.ForShape3[T, int, int, int]("N", "M", "N")

	t2, t3, t4 := T{}, T{}, T{}
	ln2.Put(&t2, 1, 2)
	ln.Put(&t3, 1, 5, 2)
	ln4.Put(&t4, 1, 5, 6, 2)
	if t2.N != 1 || t4.N != 1 || t4.M != 5 {
		t.Fatalf("Shape2/Shape4 reference changed: %+v %+v", t2, t4)
	}
	if t3.N != t2.N || t3.M != 5 {
		t.Fatalf("Shape3.Put(N=1, M=5, N=2) = %+v, Shape2/Shape4 keep the first component (N=1)", t3)
	}

	// disjoint foci: positional
	t3 = T{}
	d := optics.ForShape3[T, string, int, int]("L", "M", "N")
	d.Put(&t3, "l", 8, 9)
	if t3 != (T{In{"", "l"}, 9, 8}) {
		t.Fatalf("Shape3.Put disjoint = %+v", t3)
	}
}
