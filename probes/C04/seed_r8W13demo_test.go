// probe: dir=optics run=^(TestSeededP3JoinPutOnTwoStructures|TestSeededP3JoinGetOnTwoStructures|TestSeededP3JoinSharedByGoroutines)$
// Demonstration test of a seeded property-breaking change (see /verif/seeded/C04/meta.json), kept as a
// directed probe: it passes on the pinned tree and fails when that kind of change is made.
package optics_test

import (
	"runtime"
	"sync"
	"sync/atomic"
	"testing"

	"github.com/fogfish/golem/optics"
)

type seededP3Inner struct {
	X int
	Y int
}

type seededP3Outer struct {
	ID string
	In seededP3Inner
	N  int
}

// seededP3Gate is an inner lens that parks its first caller inside Put (or Get)
// until it is released: it pins down the interleaving of two goroutines that
// use one joined lens on two different structures.
type seededP3Gate struct {
	optics.Lens[seededP3Inner, int]
	calls   atomic.Int32
	entered chan struct{}
	resume  chan struct{}
}

func newSeededP3Gate() *seededP3Gate {
	return &seededP3Gate{
		Lens:    optics.ForProduct1[seededP3Inner, int]("X"),
		entered: make(chan struct{}),
		resume:  make(chan struct{}),
	}
}

func (g *seededP3Gate) park() {
	if g.calls.Add(1) == 1 {
		close(g.entered)
		<-g.resume
	}
}

func (g *seededP3Gate) Put(s *seededP3Inner, x int) *seededP3Inner {
	g.Lens.Put(s, x)
	g.park()
	return s
}

func (g *seededP3Gate) Get(s *seededP3Inner) int {
	g.park()
	return g.Lens.Get(s)
}

func TestSeededP3JoinPutOnTwoStructures(t *testing.T) {
	gate := newSeededP3Gate()
	lens := optics.Join(optics.ForProduct1[seededP3Outer, seededP3Inner](), optics.Lens[seededP3Inner, int](gate))

	s1 := seededP3Outer{ID: "one", In: seededP3Inner{X: 1, Y: 10}, N: 1}
	s2 := seededP3Outer{ID: "two", In: seededP3Inner{X: 2, Y: 20}, N: 2}

	done := make(chan struct{})
	go func() {
		defer close(done)
		lens.Put(&s1, 100)
	}()

	<-gate.entered
	lens.Put(&s2, 200)
	close(gate.resume)
	<-done

	if want := (seededP3Outer{ID: "one", In: seededP3Inner{X: 100, Y: 10}, N: 1}); s1 != want {
		t.Errorf("first structure after Put(100): %+v, want %+v", s1, want)
	}
	if want := (seededP3Outer{ID: "two", In: seededP3Inner{X: 200, Y: 20}, N: 2}); s2 != want {
		t.Errorf("second structure after Put(200): %+v, want %+v", s2, want)
	}
}

func TestSeededP3JoinGetOnTwoStructures(t *testing.T) {
	gate := newSeededP3Gate()
	lens := optics.Join(optics.ForProduct1[seededP3Outer, seededP3Inner](), optics.Lens[seededP3Inner, int](gate))

	s1 := seededP3Outer{ID: "one", In: seededP3Inner{X: 1, Y: 10}}
	s2 := seededP3Outer{ID: "two", In: seededP3Inner{X: 2, Y: 20}}

	var v1 int
	done := make(chan struct{})
	go func() {
		defer close(done)
		v1 = lens.Get(&s1)
	}()

	<-gate.entered
	v2 := lens.Get(&s2)
	close(gate.resume)
	<-done

	if v1 != 1 || v2 != 2 {
		t.Errorf("Get = %d, %d, want 1, 2", v1, v2)
	}
}

// No steering here: goroutines own one structure each and share the joined
// lenses only, as a package-level lens is shared by request handlers.
func TestSeededP3JoinSharedByGoroutines(t *testing.T) {
	type Outer = seededP3Outer
	type Inner = seededP3Inner

	lx := optics.Join(optics.ForProduct1[Outer, Inner](), optics.ForProduct1[Inner, int]("X"))
	ly := optics.Join(optics.ForProduct1[Outer, Inner](), optics.ForProduct1[Inner, int]("Y"))

	workers := 2 * runtime.GOMAXPROCS(0)
	if workers < 8 {
		workers = 8
	}

	var failed atomic.Int32
	var wg sync.WaitGroup
	for w := 0; w < workers; w++ {
		wg.Add(1)
		go func(w int) {
			defer wg.Done()
			s := Outer{ID: "w", In: Inner{X: w, Y: -w}, N: w}
			for i := 0; i < 100000 && failed.Load() == 0; i++ {
				lx.Put(&s, w)
				ly.Put(&s, -w)
				if lx.Get(&s) != w || ly.Get(&s) != -w || s.In.X != w || s.In.Y != -w || s.N != w {
					failed.Add(1)
					return
				}
				if i%64 == 0 {
					runtime.Gosched()
				}
			}
		}(w)
	}
	wg.Wait()

	if failed.Load() != 0 {
		t.Errorf("a goroutine observed values of a structure it does not own through a joined lens")
	}
}
