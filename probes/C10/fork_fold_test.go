// probe: dir=pipe/fork run=TestProbeC10
package fork_test

import (
	"context"
	"fmt"
	"testing"
	"time"

	"github.com/fogfish/golem/pipe/v2"
	"github.com/fogfish/golem/pipe/v2/fork"
	"github.com/fogfish/golem/pure/monoid"
)

// Directed probe for C10: fork.Fold against pipe.Fold for commutative monoids with zero and
// non-zero identities, worker counts 1..5, inputs of length 0..6 (shorter than the worker
// count included), buffered and live inputs.
func one[T any](t *testing.T, what string, ch <-chan T) []T {
	var out []T
	for {
		select {
		case v, ok := <-ch:
			if !ok {
				return out
			}
			out = append(out, v)
		case <-time.After(3 * time.Second):
			t.Fatalf("%s: result channel did not close (got %v)", what, out)
		}
	}
}

func TestProbeC10(t *testing.T) {
	ctx := context.Background()
	type mon struct {
		name string
		m    monoid.Monoid[int]
	}
	max := func(a, b int) int {
		if a > b {
			return a
		}
		return b
	}
	min := func(a, b int) int {
		if a < b {
			return a
		}
		return b
	}
	mons := []mon{
		{"sum", monoid.FromOp(0, func(a, b int) int { return a + b })},
		{"product", monoid.FromOp(1, func(a, b int) int { return a * b })},
		{"max", monoid.FromOp(-1 << 62, max)},
		{"min", monoid.FromOp(1 << 62, min)},
		{"and", monoid.FromOp(-1, func(a, b int) int { return a & b })},
		{"or", monoid.FromOp(0, func(a, b int) int { return a | b })},
	}
	for _, mo := range mons {
		for par := 1; par <= 5; par++ {
			for n := 0; n <= 6; n++ {
				xs := make([]int, n)
				for i := range xs {
					xs[i] = i + 2
				}
				for _, live := range []bool{false, true} {
					mk := func() <-chan int {
						if !live {
							return pipe.Seq(xs...)
						}
						ch := make(chan int, 1)
						go func() {
							for _, x := range xs {
								ch <- x
							}
							close(ch)
						}()
						return ch
					}
					name := fmt.Sprintf("%s par=%d n=%d live=%v", mo.name, par, n, live)
					want := one(t, "pipe.Fold "+name, pipe.Fold(ctx, mk(), mo.m))
					got := one(t, "fork.Fold "+name, fork.Fold(ctx, par, mk(), mo.m))
					if len(got) != 1 || len(want) != 1 || got[0] != want[0] {
						t.Fatalf("%s: fork.Fold delivered %v, pipe.Fold delivered %v", name, got, want)
					}
				}
			}
		}
	}
}
