// probe: dir=pipe run=TestProbeC08
package pipe_test

import (
	"context"
	"runtime"
	"testing"
	"time"

	"github.com/fogfish/golem/pipe/v2"
)

// Directed probe for C08: FIFO / lossless / duplicate-free with backlog building up and
// draining repeatedly, bursts, close by the sender (clean end of stream), and cancel with
// completed sends still sitting in the input buffer.
func recvAll(t *testing.T, what string, ch <-chan int, d time.Duration) []int {
	var out []int
	for {
		select {
		case v, ok := <-ch:
			if !ok {
				return out
			}
			out = append(out, v)
		case <-time.After(d):
			t.Fatalf("%s: receive side did not close (got %d values)", what, len(out))
		}
	}
}

func TestProbeC08Fifo(t *testing.T) {
	for cap := 0; cap <= 3; cap++ {
		for trial := 0; trial < 20; trial++ {
			ctx, cancel := context.WithCancel(context.Background())
			out, in := pipe.New[int](ctx, cap)
			next, sent := 0, 0
			// phases: burst of sends (backlog), partial drain interleaved with sends, full drain
			for phase := 0; phase < 6; phase++ {
				for i := 0; i < 5+3*phase; i++ {
					in <- sent
					sent++
				}
				for i := 0; i < 4+phase; i++ {
					in <- sent
					sent++
					if v := <-out; v != next {
						t.Fatalf("cap=%d trial=%d: received %d, expected %d (FIFO / lossless / duplicate-free)", cap, trial, v, next)
					}
					next++
					runtime.Gosched()
				}
				for next < sent-phase {
					if v := <-out; v != next {
						t.Fatalf("cap=%d trial=%d: received %d, expected %d", cap, trial, v, next)
					}
					next++
				}
			}
			for next < sent {
				if v := <-out; v != next {
					t.Fatalf("cap=%d trial=%d: received %d, expected %d", cap, trial, v, next)
				}
				next++
			}
			cancel()
		}
	}
}

func TestProbeC08CloseBySender(t *testing.T) {
	// closing the send side is a clean end of stream: everything sent is delivered, then the
	// receive side closes (a panic in the pump goroutine aborts this test binary)
	for cap := 0; cap <= 2; cap++ {
		out, in := pipe.New[int](context.Background(), cap)
		for i := 0; i < 10; i++ {
			in <- i
		}
		close(in)
		got := recvAll(t, "close by sender", out, 2*time.Second)
		if len(got) != 10 {
			t.Fatalf("cap=%d: sender closed after 10 completed sends, receiver got %v", cap, got)
		}
		for i, v := range got {
			if v != i {
				t.Fatalf("cap=%d: order broken: %v", cap, got)
			}
		}
	}
}

func TestProbeC08CancelKeepsCompletedSends(t *testing.T) {
	// every value whose send completed before the cancel is still delivered
	old := runtime.GOMAXPROCS(1)
	defer runtime.GOMAXPROCS(old)
	for _, cap := range []int{1, 2, 4} {
		for trial := 0; trial < 300; trial++ {
			ctx, cancel := context.WithCancel(context.Background())
			out, in := pipe.New[int](ctx, cap)
			n := cap
			for i := 0; i < n; i++ {
				in <- i // completes without yielding: the value sits in the buffer of `in`
			}
			cancel() // the pump now finds both the cancel and buffered values
			runtime.Gosched()
			got := recvAll(t, "cancel", out, 2*time.Second)
			if len(got) != n {
				t.Fatalf("cap=%d trial=%d: %d sends completed before cancel, only %v delivered before the receive side closed", cap, trial, n, got)
			}
		}
	}
}
