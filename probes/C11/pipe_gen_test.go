// probe: dir=pipe run=TestProbeC11
package pipe_test

import (
	"context"
	"errors"
	"fmt"
	"sync"
	"testing"
	"time"

	"github.com/fogfish/golem/pipe/v2"
)

// Directed probe for C11: exact successive sequences; Emit applies its function at most
// once per tick (lower bounds only, guaranteed by time.Sleep); both stop after cancel.
func TestProbeC11(t *testing.T) {
	const tick = 10 * time.Millisecond
	for cap := 0; cap <= 2; cap++ {
		ctx, cancel := context.WithCancel(context.Background())
		var mu sync.Mutex
		var calls []time.Time
		start := time.Now()
		out, exx := pipe.Emit(ctx, cap, tick, pipe.Try(func(i int) (int, error) {
			mu.Lock()
			calls = append(calls, time.Now())
			mu.Unlock()
			if i >= 1 && i <= 3 {
				return 0, errors.New("skip")
			}
			return i, nil
		}))
		go func() { for range exx { } }()
		var got []int
		for len(got) < 3 {
			got = append(got, <-out)
		}
		cancel()
		if fmt.Sprint(got) != "[0 4 5]" {
			t.Fatalf("Emit cap=%d delivered %v, want [0 4 5]", cap, got)
		}
		mu.Lock()
		for k, c := range calls {
			if c.Sub(start) < time.Duration(k+1)*tick-time.Millisecond {
				t.Fatalf("Emit cap=%d: application %d happened %v after start, before %d ticks", cap, k, c.Sub(start), k+1)
			}
			if k > 0 && c.Sub(calls[k-1]) < tick-time.Millisecond {
				t.Fatalf("Emit cap=%d: applications %d and %d are %v apart, less than one tick", cap, k-1, k, c.Sub(calls[k-1]))
			}
		}
		mu.Unlock()
		for range out {
		}

		ctx2, cancel2 := context.WithCancel(context.Background())
		u, ue := pipe.Unfold(ctx2, cap, 3, pipe.Pure(func(x int) int { return x*2 + 1 }))
		go func() { for range ue { } }()
		want := 3
		for i := 0; i < 6; i++ {
			if v := <-u; v != want {
				t.Fatalf("Unfold cap=%d: element %d is %d, want %d", cap, i, v, want)
			}
			want = want*2 + 1
			if i%2 == 0 {
				time.Sleep(time.Millisecond)
			}
		}
		cancel2()
		deadline := time.After(2 * time.Second)
		n := 0
		for closed := false; !closed; {
			select {
			case _, ok := <-u:
				closed = !ok
				n++
			case <-deadline:
				t.Fatalf("Unfold cap=%d: still producing (%d values) 2s after cancel with a ready consumer", cap, n)
			}
		}
	}
}
