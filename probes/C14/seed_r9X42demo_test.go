// probe: dir=trait/seq run=^(TestSeededP2ForEachStopsAtFirstError)$
// Demonstration test of a seeded property-breaking change (see /verif/seeded/C14/meta.json), kept as a
// directed probe: it passes on the pinned tree and fails when that kind of change is made.
package seq_test

import (
	"errors"
	"fmt"
	"testing"

	"github.com/fogfish/golem/trait/seq"
)

// ForEach stops with the first error returned: nothing downstream of the
// failing element may be pulled, tested or expanded afterwards.
func TestSeededP2ForEachStopsAtFirstError(t *testing.T) {
	boom := errors.New("boom")

	// Filter: the predicate must not be evaluated past the failing element
	seen := []int{}
	even := func(v int) bool { seen = append(seen, v); return v%2 == 0 }
	visited := []int{}
	err := seq.ForEach(
		seq.Filter(seq.FromSlice([]int{1, 2, 3, 5, 7, 4, 6}), even),
		func(v int) error { visited = append(visited, v); return boom },
	)
	if err != boom {
		t.Errorf("ForEach error = %v, want boom", err)
	}
	if fmt.Sprint(visited) != "[2]" {
		t.Errorf("visited %v, want [2]", visited)
	}
	if fmt.Sprint(seen) != "[1 2]" {
		t.Errorf("predicate evaluated on %v after ForEach stopped, want [1 2]", seen)
	}

	// Join: the flat-map function must not be expanded for later elements
	expanded := []int{}
	rhs := func(x int) seq.Seq[int] { expanded = append(expanded, x); return seq.From(x) }
	err = seq.ForEach(
		seq.Join(seq.FromSlice([]int{1, 2, 3}), rhs),
		func(v int) error {
			if v == 2 {
				return boom
			}
			return nil
		},
	)
	if err != boom {
		t.Errorf("ForEach error = %v, want boom", err)
	}
	if fmt.Sprint(expanded) != "[1 2]" {
		t.Errorf("flat-map expanded %v after ForEach stopped at 2, want [1 2]", expanded)
	}

	// single failing element followed by a long non-matching tail
	calls := 0
	tail := make([]int, 1000)
	for i := range tail {
		tail[i] = 2*i + 1
	}
	err = seq.ForEach(
		seq.Filter(seq.Plus(seq.From(0), seq.FromSlice(tail)), func(v int) bool { calls++; return v%2 == 0 }),
		func(int) error { return boom },
	)
	if err != boom || calls != 1 {
		t.Errorf("err=%v, predicate calls=%d, want boom and 1", err, calls)
	}
}
