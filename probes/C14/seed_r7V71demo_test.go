// probe: dir=trait/seq run=^(TestSeededP1SourceSliceUntouched|TestSeededP1SecondReaderSeesOriginal)$
// Demonstration test of a seeded property-breaking change (see /verif/seeded/C14/meta.json), kept as a
// directed probe: it passes on the pinned tree and fails when that kind of change is made.
package seq_test

import (
	"reflect"
	"testing"

	"github.com/fogfish/golem/trait/seq"
)

func drainP1[T any](e seq.Seq[T]) []T {
	r := make([]T, 0)
	for has := e != nil; has; has = e.Next() {
		r = append(r, e.Value())
	}
	return r
}

// Plus over a TakeWhile prefix of a slice must not write into the source slice.
func TestSeededP1SourceSliceUntouched(t *testing.T) {
	xs := []int{1, 2, 3, 10, 11, 12}
	ys := []int{7, 8}
	orig := append([]int(nil), xs...)

	lt10 := func(v int) bool { return v < 10 }
	e := seq.Plus(seq.TakeWhile(seq.FromSlice(xs), lt10), seq.FromSlice(ys))

	got := drainP1(e)
	if want := []int{1, 2, 3, 7, 8}; !reflect.DeepEqual(got, want) {
		t.Errorf("drained %v, want %v", got, want)
	}
	if !reflect.DeepEqual(xs, orig) {
		t.Errorf("source slice modified: %v, want %v", xs, orig)
	}
	if !reflect.DeepEqual(ys, []int{7, 8}) {
		t.Errorf("rhs source slice modified: %v", ys)
	}
}

// A second expression over the same source must still see the original data.
func TestSeededP1SecondReaderSeesOriginal(t *testing.T) {
	base := []int{1, 2, 3, 4, 5, 6}
	lt3 := func(v int) bool { return v < 3 }

	a := seq.Plus(seq.TakeWhile(seq.FromSlice(base), lt3), seq.FromSlice([]int{100, 200}))
	b := seq.Map(seq.FromSlice(base), func(v int) int { return v * 10 })

	if got, want := drainP1(a), []int{1, 2, 100, 200}; !reflect.DeepEqual(got, want) {
		t.Errorf("a drained %v, want %v", got, want)
	}
	if got, want := drainP1(b), []int{10, 20, 30, 40, 50, 60}; !reflect.DeepEqual(got, want) {
		t.Errorf("b drained %v, want %v", got, want)
	}
}
