// probe: dir=trait/seq run=^(TestDemoB_SourceSliceIsNotModified|TestDemoB_PlusOverSharedSlice)$
// Demonstration test of a seeded property-breaking change (see /verif/seeded/C14/meta.json), kept as a
// directed probe: it passes on the pinned tree and fails when that kind of change is made.
package seq_test

import (
	"reflect"
	"testing"

	"github.com/fogfish/golem/trait/seq"
)

func demoBDrain[T any](e seq.Seq[T]) []T {
	r := make([]T, 0)
	for has := e != nil; has; has = e.Next() {
		r = append(r, e.Value())
	}
	return r
}

// Combinators never write to the slice a sequence was created from.
func TestDemoB_SourceSliceIsNotModified(t *testing.T) {
	even := func(x int) bool { return x%2 == 0 }

	for _, xs := range [][]int{
		{},
		{2},
		{2, 4, 6},    // nothing dropped
		{2, 4, 5, 7}, // only the tail dropped
		{1, 2, 3, 4}, // a value is dropped in front of a kept one
		{1, 3, 5, 6},
	} {
		src := append([]int{}, xs...)
		got := demoBDrain(seq.Filter(seq.FromSlice(src), even))

		want := make([]int, 0)
		for _, x := range xs {
			if even(x) {
				want = append(want, x)
			}
		}

		if !reflect.DeepEqual(got, want) {
			t.Errorf("Filter(%v, even) = %v, want %v", xs, got, want)
		}
		if !reflect.DeepEqual(src, xs) {
			t.Errorf("Filter(FromSlice(xs), even) modified xs: %v, was %v", src, xs)
		}
	}
}

// Same defect seen through list semantics only: two sequences over one slice.
func TestDemoB_PlusOverSharedSlice(t *testing.T) {
	even := func(x int) bool { return x%2 == 0 }
	xs := []int{1, 2, 3, 4}

	got := demoBDrain(seq.Plus(
		seq.Filter(seq.FromSlice(xs), even),
		seq.FromSlice(xs),
	))
	if want := []int{2, 4, 1, 2, 3, 4}; !reflect.DeepEqual(got, want) {
		t.Errorf("Plus(Filter(xs, even), xs) = %v, want %v", got, want)
	}

	// nested: Filter over a partly consumed slice sequence (DropWhile returns its argument)
	ys := []int{0, 5, 6, 7, 8}
	zero := func(x int) bool { return x == 0 }
	got = demoBDrain(seq.Filter(seq.DropWhile(seq.FromSlice(ys), zero), even))
	if want := []int{6, 8}; !reflect.DeepEqual(got, want) {
		t.Errorf("Filter(DropWhile(ys, ==0), even) = %v, want %v", got, want)
	}
	if want := []int{0, 5, 6, 7, 8}; !reflect.DeepEqual(ys, want) {
		t.Errorf("Filter(DropWhile(FromSlice(ys), ==0), even) modified ys: %v, was %v", ys, want)
	}
}
