// probe: dir=trait/seq run=^(TestSeededP1JoinKeepsZeroValues|TestSeededP1NestedJoin)$
// Demonstration test of a seeded property-breaking change (see /verif/seeded/C14/meta.json), kept as a
// directed probe: it passes on the pinned tree and fails when that kind of change is made.
package seq_test

import (
	"reflect"
	"testing"

	"github.com/fogfish/golem/trait/seq"
)

func drainP1[T any](s seq.Seq[T]) []T {
	r := make([]T, 0)
	for has := s != nil; has; has = s.Next() {
		r = append(r, s.Value())
	}
	return r
}

// Join over singleton inner sequences must be flat-map, whatever the element
// value is - including the zero value of the element type.
func TestSeededP1JoinKeepsZeroValues(t *testing.T) {
	in := []int{3, 0, 1, 0, 0, 2}

	got := drainP1(seq.Join(seq.FromSlice(in),
		func(x int) seq.Seq[int] { return seq.From(x) },
	))
	if !reflect.DeepEqual(got, in) {
		t.Errorf("Join(xs, From) = %v, want %v", got, in)
	}

	// the zero value as the very first / the only element
	got = drainP1(seq.Join(seq.FromSlice([]int{0, 7}),
		func(x int) seq.Seq[int] { return seq.From(x) },
	))
	if !reflect.DeepEqual(got, []int{0, 7}) {
		t.Errorf("Join([0 7], From) = %v, want [0 7]", got)
	}

	strs := drainP1(seq.Join(seq.FromSlice([]string{"a", "", "b"}),
		func(x string) seq.Seq[string] { return seq.From(x) },
	))
	if !reflect.DeepEqual(strs, []string{"a", "", "b"}) {
		t.Errorf("Join(strings, From) = %q, want [a  b]", strs)
	}
}

// Nested: Filter over Map over Join, zero value produced by the mapping of the
// inner sequence only.
func TestSeededP1NestedJoin(t *testing.T) {
	in := []int{1, 2, 3, 4}
	got := drainP1(
		seq.Filter(
			seq.Map(
				seq.Join(seq.FromSlice(in), func(x int) seq.Seq[int] {
					return seq.Plus(seq.From(x%2), seq.FromSlice([]int{x}))
				}),
				func(x int) int { return x * 10 },
			),
			func(x int) bool { return true },
		),
	)
	want := []int{10, 10, 0, 20, 10, 30, 0, 40}
	if !reflect.DeepEqual(got, want) {
		t.Errorf("got %v, want %v", got, want)
	}

	// inner sequence that is a bare From(0) for even numbers
	got = drainP1(seq.Join(seq.FromSlice(in), func(x int) seq.Seq[int] {
		return seq.From(x % 2)
	}))
	want = []int{1, 0, 1, 0}
	if !reflect.DeepEqual(got, want) {
		t.Errorf("got %v, want %v", got, want)
	}
}
