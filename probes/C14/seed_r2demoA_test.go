// probe: dir=trait/seq run=^(TestDemoA_NestedTakeWhile)$
// Demonstration test of a seeded property-breaking change (see /verif/seeded/C14/meta.json), kept as a
// directed probe: it passes on the pinned tree and fails when that kind of change is made.
package seq_test

import (
	"reflect"
	"testing"

	"github.com/fogfish/golem/trait/seq"
)

func demoADrain[T any](e seq.Seq[T]) []T {
	r := make([]T, 0)
	for has := e != nil; has; has = e.Next() {
		r = append(r, e.Value())
	}
	return r
}

func demoATakeWhile(xs []int, f func(int) bool) []int {
	r := make([]int, 0)
	for _, x := range xs {
		if !f(x) {
			break
		}
		r = append(r, x)
	}
	return r
}

// TakeWhile(TakeWhile(xs, p), q) must be takeWhile q (takeWhile p xs),
// in particular it is empty when the head of xs passes p but fails q.
func TestDemoA_NestedTakeWhile(t *testing.T) {
	small := func(x int) bool { return x < 10 }
	even := func(x int) bool { return x%2 == 0 }

	for _, xs := range [][]int{
		{},
		{2, 4, 5, 6},
		{2, 4, 12, 6},
		{1, 2, 4},    // head passes inner predicate, fails the outer one
		{3},          // same on singleton
		{12, 2, 4},   // head fails inner predicate
		{2, 4, 6, 8}, // all pass
	} {
		src := append([]int{}, xs...)
		got := demoADrain(seq.TakeWhile(seq.TakeWhile(seq.FromSlice(src), small), even))
		want := demoATakeWhile(demoATakeWhile(xs, small), even)
		if !reflect.DeepEqual(got, want) {
			t.Errorf("TakeWhile(TakeWhile(%v, <10), even) = %v, want %v", xs, got, want)
		}
	}

	// the same through Plus: the exhausted/empty nested take-while must contribute nothing
	got := demoADrain(seq.Plus(
		seq.TakeWhile(seq.TakeWhile(seq.FromSlice([]int{1, 2}), small), even),
		seq.From(100),
	))
	if want := []int{100}; !reflect.DeepEqual(got, want) {
		t.Errorf("Plus(TakeWhile(TakeWhile([1 2], <10), even), From(100)) = %v, want %v", got, want)
	}
}
