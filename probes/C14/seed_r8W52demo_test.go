// probe: dir=trait/seq run=^(TestSeededP2PlusLeavesSourceAlone|TestSeededP2NestedPlus)$
// Demonstration test of a seeded property-breaking change (see /verif/seeded/C14/meta.json), kept as a
// directed probe: it passes on the pinned tree and fails when that kind of change is made.
package seq_test

import (
	"reflect"
	"testing"

	"github.com/fogfish/golem/trait/seq"
)

func drainP2[T any](s seq.Seq[T]) []T {
	r := make([]T, 0)
	for has := s != nil; has; has = s.Next() {
		r = append(r, s.Value())
	}
	return r
}

// Source slices are never modified: two windows over one backing array are
// concatenated with other data, the backing array must stay as it was.
func TestSeededP2PlusLeavesSourceAlone(t *testing.T) {
	backing := []int{1, 2, 3, 4, 5, 6}
	snapshot := append([]int(nil), backing...)

	head := backing[:2] // len 2, cap 6
	tail := backing[2:] // 3 4 5 6

	a := seq.Plus(seq.FromSlice(head), seq.FromSlice([]int{70, 80}))
	b := seq.FromSlice(tail)

	if got, want := drainP2(a), []int{1, 2, 70, 80}; !reflect.DeepEqual(got, want) {
		t.Errorf("Plus(head, extra) = %v, want %v", got, want)
	}
	if got, want := drainP2(b), []int{3, 4, 5, 6}; !reflect.DeepEqual(got, want) {
		t.Errorf("FromSlice(tail) = %v, want %v", got, want)
	}
	if !reflect.DeepEqual(backing, snapshot) {
		t.Errorf("source slice modified: %v, want %v", backing, snapshot)
	}
}

// Same thing one level deeper: the partially consumed (DropWhile) window is the
// left operand; the untouched rest of the array feeds a Filter.
func TestSeededP2NestedPlus(t *testing.T) {
	backing := make([]int, 0, 8)
	backing = append(backing, 5, 6, 7, 8, 9, 10)
	snapshot := append([]int(nil), backing...)

	lhs := seq.DropWhile(seq.FromSlice(backing[:3]), func(x int) bool { return x < 6 })
	all := seq.Filter(
		seq.Plus(seq.Plus(lhs, seq.FromSlice([]int{-1})), seq.FromSlice(backing[3:])),
		func(x int) bool { return x != 0 },
	)

	if got, want := drainP2(all), []int{6, 7, -1, 8, 9, 10}; !reflect.DeepEqual(got, want) {
		t.Errorf("got %v, want %v", got, want)
	}
	if !reflect.DeepEqual(backing, snapshot) {
		t.Errorf("source slice modified: %v, want %v", backing, snapshot)
	}
}
