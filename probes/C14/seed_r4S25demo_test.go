// probe: dir=trait/seq run=^(TestD5FilterLeavesSourceAlone)$
// Demonstration test of a seeded property-breaking change (see /verif/seeded/C14/meta.json), kept as a
// directed probe: it passes on the pinned tree and fails when that kind of change is made.
package seq_test

import (
	"reflect"
	"testing"

	"github.com/fogfish/golem/trait/seq"
)

func d5Drain[T any](e seq.Seq[T]) []T {
	r := make([]T, 0)
	for has := e != nil; has; has = e.Next() {
		r = append(r, e.Value())
	}
	return r
}

// C14: Filter has list semantics and never modifies the source slice, so two
// sequences built from one slice are independent of each other.
func TestD5FilterLeavesSourceAlone(t *testing.T) {
	even := func(v int) bool { return v%2 == 0 }

	xs := []int{1, 2, 3, 4, 5, 6}
	all := seq.FromSlice(xs)                     // built before the filter
	evens := seq.Filter(seq.FromSlice(xs), even) // a second sequence over xs

	if got := d5Drain(evens); !reflect.DeepEqual(got, []int{2, 4, 6}) {
		t.Errorf("Filter(even) = %v, want [2 4 6]", got)
	}
	if !reflect.DeepEqual(xs, []int{1, 2, 3, 4, 5, 6}) {
		t.Errorf("Filter changed its source slice to %v", xs)
	}
	if got := d5Drain(all); !reflect.DeepEqual(got, []int{1, 2, 3, 4, 5, 6}) {
		t.Errorf("a sequence over the same slice yields %v after Filter, want [1 2 3 4 5 6]", got)
	}

	// the same when nothing matches, and below other combinators
	ys := []int{1, 3, 5, 6, 7}
	e := seq.Map(seq.Filter(seq.FromSlice(ys), even), func(v int) int { return v * 10 })
	if got := d5Drain(e); !reflect.DeepEqual(got, []int{60}) {
		t.Errorf("Map(Filter(even)) = %v, want [60]", got)
	}
	if !reflect.DeepEqual(ys, []int{1, 3, 5, 6, 7}) {
		t.Errorf("Filter changed its source slice to %v", ys)
	}
}
