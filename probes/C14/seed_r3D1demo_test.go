// probe: dir=trait/seq run=^(TestD1ForEachStopsAtFirstError)$
// Demonstration test of a seeded property-breaking change (see /verif/seeded/C14/meta.json), kept as a
// directed probe: it passes on the pinned tree and fails when that kind of change is made.
package seq_test

import (
	"errors"
	"testing"

	"github.com/fogfish/golem/trait/seq"
)

// C14: ForEach visits the list in order and stops with the first error.
func TestD1ForEachStopsAtFirstError(t *testing.T) {
	boom := errors.New("boom")
	later := errors.New("later")

	for _, failAt := range []int{0, 1, 2, 3} {
		in := []int{10, 20, 30, 40}
		visited := []int{}

		e := seq.Plus(seq.FromSlice(in[:2]), seq.Map(seq.FromSlice(in[2:]), func(x int) int { return x }))
		err := seq.ForEach(e, func(v int) error {
			visited = append(visited, v)
			switch {
			case len(visited)-1 == failAt:
				return boom
			case len(visited)-1 > failAt:
				return later
			}
			return nil
		})

		if err != boom {
			t.Errorf("failAt=%d: ForEach returned %v, want %v", failAt, err, boom)
		}
		if len(visited) != failAt+1 {
			t.Errorf("failAt=%d: visited %v, want exactly the prefix %v", failAt, visited, in[:failAt+1])
		}
		for i, v := range visited {
			if v != in[i] {
				t.Errorf("failAt=%d: visited %v out of order", failAt, visited)
			}
		}
	}
}
