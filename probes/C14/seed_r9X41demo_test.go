// probe: dir=trait/seq run=^(TestSeededP1JoinEmptyInnerAfterFirst)$
// Demonstration test of a seeded property-breaking change (see /verif/seeded/C14/meta.json), kept as a
// directed probe: it passes on the pinned tree and fails when that kind of change is made.
package seq_test

import (
	"fmt"
	"testing"

	"github.com/fogfish/golem/trait/seq"
)

func seededP1Drain(e seq.Seq[int]) (r []int, err error) {
	defer func() {
		if p := recover(); p != nil {
			err = fmt.Errorf("panic: %v", p)
		}
	}()
	r = []int{}
	for has := e != nil; has; has = e.Next() {
		r = append(r, e.Value())
	}
	return
}

// flat-map function returning nil (empty) for some elements in the middle
// or at the end of the left side: Join must behave as list flat-map.
func TestSeededP1JoinEmptyInnerAfterFirst(t *testing.T) {
	rep := func(x int) seq.Seq[int] {
		if x%2 == 0 {
			return nil
		}
		return seq.FromSlice([]int{x, x * 10})
	}
	for _, xs := range [][]int{
		{1}, {1, 3}, {1, 2}, {1, 2, 3}, {2, 1, 4}, {1, 2, 4, 6, 5}, {2, 4, 1, 6},
	} {
		want := []int{}
		for _, x := range xs {
			if x%2 != 0 {
				want = append(want, x, x*10)
			}
		}
		got, err := seededP1Drain(seq.Join(seq.FromSlice(xs), rep))
		if err != nil {
			t.Errorf("Join over %v: %v", xs, err)
			continue
		}
		if fmt.Sprint(got) != fmt.Sprint(want) {
			t.Errorf("Join over %v = %v, want %v", xs, got, want)
		}
	}
}
