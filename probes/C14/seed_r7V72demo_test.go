// probe: dir=trait/seq run=^(TestSeededP2ForEachAfterDropWhile|TestSeededP2ForEachErrorAfterDropWhile)$
// Demonstration test of a seeded property-breaking change (see /verif/seeded/C14/meta.json), kept as a
// directed probe: it passes on the pinned tree and fails when that kind of change is made.
package seq_test

import (
	"errors"
	"reflect"
	"testing"

	"github.com/fogfish/golem/trait/seq"
)

func visitP2[T any](e seq.Seq[T]) []T {
	r := make([]T, 0)
	seq.ForEach(e, func(v T) error {
		r = append(r, v)
		return nil
	})
	return r
}

// ForEach over DropWhile(FromSlice) must visit only what is left after the drop.
func TestSeededP2ForEachAfterDropWhile(t *testing.T) {
	lt3 := func(v int) bool { return v < 3 }

	for _, tc := range []struct{ in, want []int }{
		{[]int{1, 2, 3, 4, 5}, []int{3, 4, 5}},
		{[]int{1, 5}, []int{5}},
		{[]int{7, 1, 2}, []int{7, 1, 2}},
		{[]int{1, 2}, []int{}},
	} {
		got := visitP2(seq.DropWhile(seq.FromSlice(tc.in), lt3))
		if !reflect.DeepEqual(got, tc.want) {
			t.Errorf("ForEach(DropWhile(%v)) visited %v, want %v", tc.in, got, tc.want)
		}
	}
}

// ... and must stop with the first error, counted from the first remaining element.
func TestSeededP2ForEachErrorAfterDropWhile(t *testing.T) {
	stop := errors.New("stop")
	seen := []int{}

	e := seq.DropWhile(seq.FromSlice([]int{1, 2, 3, 4, 5}), func(v int) bool { return v < 3 })
	err := seq.ForEach(e, func(v int) error {
		seen = append(seen, v)
		if len(seen) == 2 {
			return stop
		}
		return nil
	})

	if err != stop {
		t.Errorf("err = %v, want %v", err, stop)
	}
	if want := []int{3, 4}; !reflect.DeepEqual(seen, want) {
		t.Errorf("visited %v, want %v", seen, want)
	}
}
