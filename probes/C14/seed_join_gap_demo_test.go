// probe: dir=trait/seq run=^(TestJoinGapInTheMiddle|TestJoinGapNested)$
// Demonstration test of a seeded property-breaking change (see /verif/seeded/C14/meta.json), kept as a
// directed probe: it passes on the pinned tree and fails when that kind of change is made.
// DEMONSTRATION for seeded change C14 (patch.diff).
//
// Place this file in:  <worktree>/trait/seq/   (package seq_test, module github.com/fogfish/golem/trait)
// Run with:
//   export GOFLAGS=-mod=mod GOPROXY=off
//   cd <worktree>/trait && go test -vet=off -count=1 -run 'TestJoinGap' ./seq/
//
// Passes on the original code, fails with patch.diff applied.

package seq_test

import (
	"reflect"
	"testing"

	"github.com/fogfish/golem/trait/seq"
)

func drainC14[T any](e seq.Seq[T]) []T {
	r := make([]T, 0)
	for has := e != nil; has; has = e.Next() {
		r = append(r, e.Value())
	}
	return r
}

// list model of flat-map
func flatMapC14(xs []int, f func(int) []int) []int {
	r := make([]int, 0)
	for _, x := range xs {
		r = append(r, f(x)...)
	}
	return r
}

// Join must behave as flat-map even when the flat-map function yields an
// empty (nil) sequence for an element that is NOT at the head of the input
// and is followed by elements with non-empty images.
func TestJoinGapInTheMiddle(t *testing.T) {
	// x -> x copies of x for odd x, nothing for even x
	img := func(x int) []int {
		if x%2 == 0 {
			return nil
		}
		r := make([]int, x)
		for i := range r {
			r[i] = x
		}
		return r
	}

	for _, input := range [][]int{
		{1, 2, 3},
		{1, 2, 2, 3},
		{2, 1, 2, 3, 4, 5},
		{3, 4},       // trailing gap only: fine in both versions
		{2, 2, 3},    // leading gaps only: fine in both versions
		{1, 3, 5},    // no gaps: fine in both versions
	} {
		src := append([]int(nil), input...)
		got := drainC14(seq.Join(seq.FromSlice(src),
			func(x int) seq.Seq[int] { return seq.FromSlice(img(x)) },
		))
		want := flatMapC14(input, img)

		if !reflect.DeepEqual(got, want) {
			t.Errorf("Join over %v: got %v, want %v", input, got, want)
		}
		if !reflect.DeepEqual(src, input) {
			t.Errorf("source slice modified: %v -> %v", input, src)
		}
	}
}

// Same trigger, observed through nesting: Plus(Join(..), tail) and ForEach.
func TestJoinGapNested(t *testing.T) {
	only := func(k int) func(int) seq.Seq[int] {
		return func(x int) seq.Seq[int] {
			if x == k {
				return nil
			}
			return seq.From(x * 10)
		}
	}

	e := seq.Plus(
		seq.Join(seq.FromSlice([]int{1, 2, 3}), only(2)),
		seq.FromSlice([]int{7}),
	)

	got := make([]int, 0)
	if err := seq.ForEach(e, func(x int) error { got = append(got, x); return nil }); err != nil {
		t.Fatal(err)
	}

	want := []int{10, 30, 7}
	if !reflect.DeepEqual(got, want) {
		t.Errorf("Plus(Join, tail): got %v, want %v", got, want)
	}
}
