// probe: dir=trait/seq run=TestProbeC14
package seq_test

import (
	"errors"
	"fmt"
	"math/rand"
	"testing"

	"github.com/fogfish/golem/trait/seq"
)

// Directed probe for C14: random expression trees over the combinators, drained and
// compared with the same expression over plain slices; source slices must stay unchanged.
type expr struct {
	it   seq.Seq[int]
	list []int
}

func drain(s seq.Seq[int]) []int {
	var out []int
	seq.ForEach(s, func(x int) error { out = append(out, x); return nil })
	return out
}

func gen(r *rand.Rand, depth int, srcs *[][2][]int) expr {
	if depth == 0 || r.Intn(5) == 0 {
		n := r.Intn(5)
		xs := make([]int, n)
		for i := range xs {
			xs[i] = r.Intn(7)
		}
		if n == 1 && r.Intn(2) == 0 {
			return expr{seq.From(xs[0]), xs}
		}
		*srcs = append(*srcs, [2][]int{xs, append([]int(nil), xs...)})
		return expr{seq.FromSlice(xs), append([]int(nil), xs...)}
	}
	a := gen(r, depth-1, srcs)
	k := r.Intn(7)
	pred := func(x int) bool { return x%3 != k%3 }
	switch r.Intn(6) {
	case 0:
		var l []int
		for _, x := range a.list {
			if !pred(x) {
				break
			}
			l = append(l, x)
		}
		return expr{seq.TakeWhile(a.it, pred), l}
	case 1:
		i := 0
		for i < len(a.list) && pred(a.list[i]) {
			i++
		}
		return expr{seq.DropWhile(a.it, pred), append([]int(nil), a.list[i:]...)}
	case 2:
		var l []int
		for _, x := range a.list {
			if pred(x) {
				l = append(l, x)
			}
		}
		return expr{seq.Filter(a.it, pred), l}
	case 3:
		var l []int
		for _, x := range a.list {
			l = append(l, x*2+k)
		}
		return expr{seq.Map(a.it, func(x int) int { return x*2 + k }), l}
	case 4:
		b := gen(r, depth-1, srcs)
		return expr{seq.Plus(a.it, b.it), append(append([]int(nil), a.list...), b.list...)}
	default:
		f := func(x int) []int {
			if x%3 == k%3 {
				return nil // nil-returning flat-map function
			}
			out := make([]int, x%3+1)
			for i := range out {
				out[i] = x*10 + i
			}
			return out
		}
		var l []int
		for _, x := range a.list {
			l = append(l, f(x)...)
		}
		return expr{seq.Join(a.it, func(x int) seq.Seq[int] { return seq.FromSlice(f(x)) }), l}
	}
}

func TestProbeC14(t *testing.T) {
	for seed := int64(0); seed < 4000; seed++ {
		r := rand.New(rand.NewSource(seed))
		var srcs [][2][]int
		e := gen(r, 1+int(seed%4), &srcs)
		got := drain(e.it)
		if fmt.Sprint(got) != fmt.Sprint(e.list) {
			t.Fatalf("seed %d: drained %v, list semantics give %v", seed, got, e.list)
		}
		for _, s := range srcs {
			if fmt.Sprint(s[0]) != fmt.Sprint(s[1]) {
				t.Fatalf("seed %d: a source slice was modified: %v, was %v", seed, s[0], s[1])
			}
		}
	}
	// ForEach stops with the first error
	boom := errors.New("boom")
	var seen []int
	err := seq.ForEach(seq.FromSlice([]int{1, 2, 3, 4}), func(x int) error {
		seen = append(seen, x)
		if x == 3 {
			return boom
		}
		return nil
	})
	if err != boom || fmt.Sprint(seen) != "[1 2 3]" {
		t.Fatalf("ForEach: visited %v, returned %v", seen, err)
	}
}
