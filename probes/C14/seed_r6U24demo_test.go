// probe: dir=trait/seq run=^(TestSeededP4FromLiftsAnyValue)$
// Demonstration test of a seeded property-breaking change (see /verif/seeded/C14/meta.json), kept as a
// directed probe: it passes on the pinned tree and fails when that kind of change is made.
package seq_test

import (
	"errors"
	"testing"

	"github.com/fogfish/golem/trait/seq"
)

// C14: From(x) is the one-element list [x] for every x of every type, so
// Join(xs, From . f) is the list map(f, xs) - also when f(x) is the nil value
// of an interface type.
func TestSeededP4FromLiftsAnyValue(t *testing.T) {
	bad := errors.New("bad")
	check := func(x int) error {
		if x%2 == 0 {
			return bad
		}
		return nil
	}

	if e := seq.From[error](nil); e == nil {
		t.Errorf("From(nil) is the empty sequence, expected [nil]")
	} else if e.Value() != nil || e.Next() {
		t.Errorf("From(nil) is not [nil]")
	}

	// verdicts of 1, 2, 3, 4 = [nil, bad, nil, bad]
	verdicts := seq.Join(seq.FromSlice([]int{1, 2, 3, 4}),
		func(x int) seq.Seq[error] { return seq.From(check(x)) },
	)

	got := make([]error, 0)
	seq.ForEach(verdicts, func(err error) error {
		got = append(got, err)
		return nil
	})

	want := []error{nil, bad, nil, bad}
	if len(got) != len(want) {
		t.Fatalf("expected %v, got %v", want, got)
	}
	for i := range want {
		if got[i] != want[i] {
			t.Fatalf("expected %v, got %v", want, got)
		}
	}
}
