// probe: dir=trait/seq run=^(TestD6PlusLeavesSourcesAlone)$
// Demonstration test of a seeded property-breaking change (see /verif/seeded/C14/meta.json), kept as a
// directed probe: it passes on the pinned tree and fails when that kind of change is made.
package seq_test

import (
	"reflect"
	"testing"

	"github.com/fogfish/golem/trait/seq"
)

func d6Drain[T any](e seq.Seq[T]) []T {
	r := make([]T, 0)
	for has := e != nil; has; has = e.Next() {
		r = append(r, e.Value())
	}
	return r
}

// C14: Plus is list concatenation and never modifies a source slice, also
// when the sources are windows of one array (a page split in two).
func TestD6PlusLeavesSourcesAlone(t *testing.T) {
	page := []int{1, 2, 3, 4, 5, 6}
	head, tail := page[:3], page[3:]

	rest := seq.FromSlice(tail)
	e := seq.Plus(seq.FromSlice(head), seq.FromSlice([]int{70, 80}))

	if got := d6Drain(e); !reflect.DeepEqual(got, []int{1, 2, 3, 70, 80}) {
		t.Errorf("Plus(head, [70 80]) = %v, want [1 2 3 70 80]", got)
	}
	if !reflect.DeepEqual(head, []int{1, 2, 3}) || !reflect.DeepEqual(tail, []int{4, 5, 6}) {
		t.Errorf("Plus changed a source slice: head %v, tail %v", head, tail)
	}
	if got := d6Drain(rest); !reflect.DeepEqual(got, []int{4, 5, 6}) {
		t.Errorf("the sequence over tail yields %v after Plus(head, ...), want [4 5 6]", got)
	}

	// nested: (head + tail) + head, every operand a window of the same array
	page = []int{1, 2, 3, 4, 5, 6}
	e = seq.Plus(seq.Plus(seq.FromSlice(page[:2]), seq.FromSlice(page[4:])), seq.FromSlice(page[:2]))
	if got := d6Drain(e); !reflect.DeepEqual(got, []int{1, 2, 5, 6, 1, 2}) {
		t.Errorf("Plus(Plus(page[:2], page[4:]), page[:2]) = %v, want [1 2 5 6 1 2]", got)
	}
	if !reflect.DeepEqual(page, []int{1, 2, 3, 4, 5, 6}) {
		t.Errorf("Plus changed the page to %v", page)
	}
}
