// probe: dir=duct run=^(TestSeededP5InterfaceElementTypes)$
// Demonstration test of a seeded property-breaking change (see /verif/seeded/C16/meta.json), kept as a
// directed probe: it passes on the pinned tree and fails when that kind of change is made.
package duct_test

import (
	"fmt"
	"reflect"
	"strings"
	"testing"

	"github.com/fogfish/golem/duct"
)

// records the callback trace of a visit
type traceP5 struct {
	duct.AstVisitor
	log []string
}

func (r *traceP5) add(depth int, format string, args ...any) error {
	r.log = append(r.log, strings.Repeat(" ", depth)+fmt.Sprintf(format, args...))
	return nil
}

func (r *traceP5) OnEnterMorphism(d int, n duct.AstSeq) error { return r.add(d, "morphism {") }
func (r *traceP5) OnLeaveMorphism(d int, n duct.AstSeq) error { return r.add(d, "}") }
func (r *traceP5) OnEnterSeq(d int, n duct.AstSeq) error      { return r.add(d, "seq {") }
func (r *traceP5) OnLeaveSeq(d int, n duct.AstSeq) error      { return r.add(d, "}") }
func (r *traceP5) OnEnterFrom(d int, n duct.AstFrom) error    { return r.add(d, "from %s", n.Type) }
func (r *traceP5) OnEnterYield(d int, n duct.AstYield) error  { return r.add(d, "yield %s", n.Type) }
func (r *traceP5) OnEnterMap(d int, n duct.AstMap) error {
	return r.add(d, "map %s -> %s", n.TypeA, n.TypeB)
}

type RecP5 struct{ ID int }

// Recorded type names equal duct.TypeOf of the Go type parameters of the step
// that created the node - element types here are interfaces and slices of
// interfaces next to an ordinary struct.
func TestSeededP5InterfaceElementTypes(t *testing.T) {
	m := duct.Yield(duct.L1[[]fmt.Stringer](nil),
		duct.Unit(
			duct.Join(duct.L2[error, fmt.Stringer](nil),
				duct.LiftF(duct.L2[RecP5, error](nil),
					duct.Join(duct.L2[fmt.Stringer, []RecP5](nil),
						duct.From(duct.L1[fmt.Stringer](nil)),
					),
				),
			),
		),
	)

	var (
		stringer  = duct.TypeOf[fmt.Stringer]()
		stringers = duct.TypeOf[[]fmt.Stringer]()
		err       = duct.TypeOf[error]()
		rec       = duct.TypeOf[RecP5]()
		recs      = duct.TypeOf[[]RecP5]()
	)
	if stringer != "Stringer" || err != "error" || rec != "RecP5" {
		t.Fatalf("unexpected TypeOf: %q %q %q", stringer, err, rec)
	}

	want := []string{
		"morphism {",
		" from " + stringer,
		" map " + stringer + " -> " + recs,
		" seq {",
		"  map " + rec + " -> " + err,
		"  map " + err + " -> " + stringer,
		" }",
		" yield " + stringers,
		"}",
	}

	v := &traceP5{}
	if e := m.Apply(v); e != nil {
		t.Fatalf("visit failed: %v", e)
	}
	if !reflect.DeepEqual(v.log, want) {
		t.Errorf("trace\n%s\nwant\n%s", strings.Join(v.log, "\n"), strings.Join(want, "\n"))
	}
}
