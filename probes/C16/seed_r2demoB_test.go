// probe: dir=duct run=^(TestDemoB_ErrorStopsVisitAtOnce)$
// Demonstration test of a seeded property-breaking change (see /verif/seeded/C16/meta.json), kept as a
// directed probe: it passes on the pinned tree and fails when that kind of change is made.
package duct_test

import (
	"errors"
	"fmt"
	"testing"

	"github.com/fogfish/golem/duct"
)

type (
	demoBA string
	demoBB string
	demoBC string
)

// demoBLog records every callback and fails at the callback number failAt.
type demoBLog struct {
	failAt int
	calls  []string
}

var errDemoB = errors.New("demoB: stop")

func (p *demoBLog) on(kind string, depth int) error {
	p.calls = append(p.calls, fmt.Sprintf("%s@%d", kind, depth))
	if len(p.calls)-1 == p.failAt {
		return errDemoB
	}
	return nil
}

func (p *demoBLog) OnEnterMorphism(d int, n duct.AstSeq) error { return p.on("+morphism", d) }
func (p *demoBLog) OnLeaveMorphism(d int, n duct.AstSeq) error { return p.on("-morphism", d) }
func (p *demoBLog) OnEnterSeq(d int, n duct.AstSeq) error      { return p.on("+seq", d) }
func (p *demoBLog) OnLeaveSeq(d int, n duct.AstSeq) error      { return p.on("-seq", d) }
func (p *demoBLog) OnEnterMap(d int, n duct.AstMap) error      { return p.on("+map", d) }
func (p *demoBLog) OnLeaveMap(d int, n duct.AstMap) error      { return p.on("-map", d) }
func (p *demoBLog) OnEnterFrom(d int, n duct.AstFrom) error    { return p.on("+from", d) }
func (p *demoBLog) OnLeaveFrom(d int, n duct.AstFrom) error    { return p.on("-from", d) }
func (p *demoBLog) OnEnterYield(d int, n duct.AstYield) error  { return p.on("+yield", d) }
func (p *demoBLog) OnLeaveYield(d int, n duct.AstYield) error  { return p.on("-yield", d) }

// An error returned by a callback stops the visit at once: the error is
// returned and no other callback is made.
func TestDemoB_ErrorStopsVisitAtOnce(t *testing.T) {
	m := duct.Yield(duct.L1[[]demoBC](nil),
		duct.Unit(
			duct.LiftF(duct.L2[demoBB, demoBC](nil),
				duct.Join(duct.L2[demoBA, []demoBB](nil),
					duct.From(duct.L1[demoBA](nil))))))

	// the complete visit
	full := &demoBLog{failAt: -1}
	if err := m.Apply(full); err != nil {
		t.Fatalf("unexpected error %v", err)
	}
	want := []string{
		"+morphism@0",
		"+from@1", "-from@1",
		"+map@1", "-map@1",
		"+seq@1", "+map@2", "-map@2", "-seq@1",
		"+yield@1", "-yield@1",
		"-morphism@0",
	}
	if fmt.Sprint(full.calls) != fmt.Sprint(want) {
		t.Fatalf("visit = %v, want %v", full.calls, want)
	}

	// fail at every position
	for at := range want {
		p := &demoBLog{failAt: at}
		err := m.Apply(p)
		if err != errDemoB {
			t.Errorf("fail at #%d (%s): returned %v, want %v", at, want[at], err, errDemoB)
		}
		if fmt.Sprint(p.calls) != fmt.Sprint(want[:at+1]) {
			t.Errorf("fail at #%d (%s): callbacks made %v, want %v", at, want[at], p.calls, want[:at+1])
		}
	}
}
