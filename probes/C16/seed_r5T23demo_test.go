// probe: dir=duct run=^(TestD3UnitClosesEmptyNestedContext)$
// Demonstration test of a seeded property-breaking change (see /verif/seeded/C16/meta.json), kept as a
// directed probe: it passes on the pinned tree and fails when that kind of change is made.
package duct_test

import (
	"fmt"
	"strings"
	"testing"

	"github.com/fogfish/golem/duct"
)

// C16: LiftF/WrapF open a new nested context, Unit closes the innermost open
// one, Join and Yield land in the innermost still-open context.
type d3X string
type d3Y string
type d3Z string

type d3trace struct {
	duct.AstVisitor
	strings.Builder
}

func (p *d3trace) OnEnterMorphism(depth int, node duct.AstSeq) error {
	fmt.Fprintf(p, "%d:morphism ", depth)
	return nil
}
func (p *d3trace) OnEnterSeq(depth int, node duct.AstSeq) error {
	fmt.Fprintf(p, "%d:seq(open=%v) ", depth, node.Deferred)
	return nil
}
func (p *d3trace) OnEnterFrom(depth int, node duct.AstFrom) error {
	fmt.Fprintf(p, "%d:from[%s] ", depth, node.Type)
	return nil
}
func (p *d3trace) OnEnterMap(depth int, node duct.AstMap) error {
	fmt.Fprintf(p, "%d:map[%s,%s] ", depth, node.TypeA, node.TypeB)
	return nil
}
func (p *d3trace) OnEnterYield(depth int, node duct.AstYield) error {
	fmt.Fprintf(p, "%d:yield[%s] ", depth, node.Type)
	return nil
}

func TestD3UnitClosesEmptyNestedContext(t *testing.T) {
	x := duct.L1[d3X](nil)
	fXYs := duct.L2[d3X, []d3Y](nil)
	fYsZ := duct.L2[[]d3Y, d3Z](nil)

	// WrapF opens a nested context, Unit closes it at once, the following Join
	// therefore belongs to the root morphism.
	m := duct.Join(fYsZ,
		duct.Unit(
			duct.WrapF(
				duct.Join(fXYs, duct.From(x)),
			),
		),
	)

	p := &d3trace{}
	if err := m.Apply(p); err != nil {
		t.Fatal(err)
	}

	want := "0:morphism 1:from[d3X] 1:map[d3X,[]d3Y] 1:seq(open=false) 1:map[[]d3Y,d3Z] "
	if p.String() != want {
		t.Errorf("visit\n got %s\nwant %s", p.String(), want)
	}
}
