// probe: dir=duct run=^(TestSeededP7WrapFOpensContextInInnermostOpenOne)$
// Demonstration test of a seeded property-breaking change (see /verif/seeded/C16/meta.json), kept as a
// directed probe: it passes on the pinned tree and fails when that kind of change is made.
package duct_test

import (
	"fmt"
	"reflect"
	"testing"

	"github.com/fogfish/golem/duct"
)

type seededP7Visitor struct {
	duct.AstVisitor
	trace []string
}

func (v *seededP7Visitor) OnEnterSeq(depth int, _ duct.AstSeq) error {
	v.trace = append(v.trace, fmt.Sprintf("%d:seq{", depth))
	return nil
}
func (v *seededP7Visitor) OnLeaveSeq(depth int, _ duct.AstSeq) error {
	v.trace = append(v.trace, fmt.Sprintf("%d:}", depth))
	return nil
}
func (v *seededP7Visitor) OnEnterFrom(depth int, n duct.AstFrom) error {
	v.trace = append(v.trace, fmt.Sprintf("%d:from %s", depth, n.Type))
	return nil
}
func (v *seededP7Visitor) OnEnterMap(depth int, n duct.AstMap) error {
	v.trace = append(v.trace, fmt.Sprintf("%d:map %s %s", depth, n.TypeA, n.TypeB))
	return nil
}
func (v *seededP7Visitor) OnEnterYield(depth int, n duct.AstYield) error {
	v.trace = append(v.trace, fmt.Sprintf("%d:yield %s", depth, n.Type))
	return nil
}

// C16: WrapF opens a new nested context in the innermost still-open context.
func TestSeededP7WrapFOpensContextInInnermostOpenOne(t *testing.T) {
	type A string
	type B string
	type C string

	// A -> []B, each B -> []C, each C is yielded
	m := duct.Yield(duct.L1[C](nil),
		duct.WrapF(
			duct.LiftF(duct.L2[B, []C](nil),
				duct.Join(duct.L2[A, []B](nil),
					duct.From(duct.L1[A](nil)),
				),
			),
		),
	)

	v := &seededP7Visitor{}
	if err := m.Apply(v); err != nil {
		t.Fatal(err)
	}

	want := []string{
		"1:from A",
		"1:map A []B",
		"1:seq{",
		"2:map B []C",
		"2:seq{",
		"3:yield C",
		"2:}",
		"1:}",
	}
	if !reflect.DeepEqual(v.trace, want) {
		t.Fatalf("expected\n\t%v\ngot\n\t%v", want, v.trace)
	}
}
