// probe: dir=duct run=^(TestD4NodesLandInInnermostOpenContext)$
// Demonstration test of a seeded property-breaking change (see /verif/seeded/C16/meta.json), kept as a
// directed probe: it passes on the pinned tree and fails when that kind of change is made.
package duct_test

import (
	"fmt"
	"strings"
	"testing"

	"github.com/fogfish/golem/duct"
)

type d4X string
type d4Y string
type d4Z string
type d4W string

// d4tree prints the full shape of the AST, one node per line
type d4tree struct {
	duct.AstVisitor
	strings.Builder
}

func (p *d4tree) line(depth int, s string) error {
	fmt.Fprintf(p, "%s%s\n", strings.Repeat(". ", depth), s)
	return nil
}
func (p *d4tree) OnEnterMorphism(d int, n duct.AstSeq) error { return p.line(d, "morphism") }
func (p *d4tree) OnEnterSeq(d int, n duct.AstSeq) error {
	return p.line(d, fmt.Sprintf("seq open=%v", n.Deferred))
}
func (p *d4tree) OnEnterFrom(d int, n duct.AstFrom) error   { return p.line(d, "from "+n.Type) }
func (p *d4tree) OnEnterYield(d int, n duct.AstYield) error { return p.line(d, "yield "+n.Type) }
func (p *d4tree) OnEnterMap(d int, n duct.AstMap) error {
	return p.line(d, "map "+n.TypeA+" -> "+n.TypeB)
}

// C16: Join and Yield land in the innermost still-open nested context.
func TestD4NodesLandInInnermostOpenContext(t *testing.T) {
	fXYs := duct.L2[d4X, []d4Y](nil)
	fYZs := duct.L2[d4Y, []d4Z](nil)
	fZW := duct.L2[d4Z, d4W](nil)
	fWX := duct.L2[d4W, d4X](nil)

	// two nested contexts are open when Join(fWX) and Yield are declared
	m := duct.Yield(duct.L1[d4X](nil),
		duct.Join(fWX,
			duct.LiftF(fZW,
				duct.LiftF(fYZs,
					duct.Join(fXYs, duct.From(duct.L1[d4X](nil)))))))

	want := strings.Join([]string{
		"morphism",
		". from d4X",
		". map d4X -> []d4Y",
		". seq open=true",
		". . map d4Y -> []d4Z",
		". . seq open=true",
		". . . map d4Z -> d4W",
		". . . map d4W -> d4X",
		". . . yield d4X",
		"",
	}, "\n")

	p := &d4tree{}
	if err := m.Apply(p); err != nil {
		t.Fatal(err)
	}
	if p.String() != want {
		t.Errorf("unexpected AST\n%s\nwant\n%s", p.String(), want)
	}

	// Unit closes the innermost context, the next step lands in the outer nested one
	n := duct.Join(duct.L2[[]d4W, d4X](nil),
		duct.Unit(
			duct.LiftF(fZW,
				duct.LiftF(fYZs,
					duct.Join(fXYs, duct.From(duct.L1[d4X](nil)))))))

	want = strings.Join([]string{
		"morphism",
		". from d4X",
		". map d4X -> []d4Y",
		". seq open=true",
		". . map d4Y -> []d4Z",
		". . seq open=false",
		". . . map d4Z -> d4W",
		". . map []d4W -> d4X",
		"",
	}, "\n")

	p = &d4tree{}
	if err := n.Apply(p); err != nil {
		t.Fatal(err)
	}
	if p.String() != want {
		t.Errorf("unexpected AST\n%s\nwant\n%s", p.String(), want)
	}
}
