// probe: dir=duct run=^(TestSeededP6ErrorStopsVisitAtOnce)$
// Demonstration test of a seeded property-breaking change (see /verif/seeded/C16/meta.json), kept as a
// directed probe: it passes on the pinned tree and fails when that kind of change is made.
package duct_test

import (
	"errors"
	"fmt"
	"reflect"
	"testing"

	"github.com/fogfish/golem/duct"
)

// records every callback; fails at the n-th callback (0 = never)
type faultP6 struct {
	failAt int
	boom   error
	log    []string
}

func (r *faultP6) on(kind string, depth int) error {
	r.log = append(r.log, fmt.Sprintf("%s@%d", kind, depth))
	if len(r.log) == r.failAt {
		return r.boom
	}
	return nil
}

func (r *faultP6) OnEnterMorphism(d int, n duct.AstSeq) error { return r.on("+morphism", d) }
func (r *faultP6) OnLeaveMorphism(d int, n duct.AstSeq) error { return r.on("-morphism", d) }
func (r *faultP6) OnEnterSeq(d int, n duct.AstSeq) error      { return r.on("+seq", d) }
func (r *faultP6) OnLeaveSeq(d int, n duct.AstSeq) error      { return r.on("-seq", d) }
func (r *faultP6) OnEnterMap(d int, n duct.AstMap) error      { return r.on("+map", d) }
func (r *faultP6) OnLeaveMap(d int, n duct.AstMap) error      { return r.on("-map", d) }
func (r *faultP6) OnEnterFrom(d int, n duct.AstFrom) error    { return r.on("+from", d) }
func (r *faultP6) OnLeaveFrom(d int, n duct.AstFrom) error    { return r.on("-from", d) }
func (r *faultP6) OnEnterYield(d int, n duct.AstYield) error  { return r.on("+yield", d) }
func (r *faultP6) OnLeaveYield(d int, n duct.AstYield) error  { return r.on("-yield", d) }

type (
	XP6 string
	YP6 string
	ZP6 string
)

func programP6() interface{ Apply(duct.Visitor) error } {
	// from X; X -> []Y; { Y -> []Z; { Z -> ø } }
	return duct.Yield(duct.L1[ZP6](nil),
		duct.WrapF(
			duct.LiftF(duct.L2[YP6, []ZP6](nil),
				duct.Join(duct.L2[XP6, []YP6](nil),
					duct.From(duct.L1[XP6](nil)),
				),
			),
		),
	)
}

// An error from any callback stops the visit at once and is returned: the
// trace of a failing visit is the prefix of the full trace that ends with
// the failing callback - for every callback position.
func TestSeededP6ErrorStopsVisitAtOnce(t *testing.T) {
	full := &faultP6{}
	if err := programP6().Apply(full); err != nil {
		t.Fatalf("visit failed: %v", err)
	}

	want := []string{
		"+morphism@0",
		"+from@1", "-from@1",
		"+map@1", "-map@1",
		"+seq@1",
		"+map@2", "-map@2",
		"+seq@2",
		"+yield@3", "-yield@3",
		"-seq@2",
		"-seq@1",
		"-morphism@0",
	}
	if !reflect.DeepEqual(full.log, want) {
		t.Fatalf("full trace %v, want %v", full.log, want)
	}

	for at := 1; at <= len(want); at++ {
		boom := fmt.Errorf("boom at %d", at)
		v := &faultP6{failAt: at, boom: boom}

		err := programP6().Apply(v)
		if !errors.Is(err, boom) || err != boom {
			t.Errorf("fail at #%d (%s): returned %v, want %v", at, want[at-1], err, boom)
		}
		if !reflect.DeepEqual(v.log, want[:at]) {
			t.Errorf("fail at #%d (%s): visit went on\n got %v\nwant %v", at, want[at-1], v.log, want[:at])
		}
	}
}
