// probe: dir=duct run=^(TestD5ErrorFromAnyCallbackStopsVisit)$
// Demonstration test of a seeded property-breaking change (see /verif/seeded/C16/meta.json), kept as a
// directed probe: it passes on the pinned tree and fails when that kind of change is made.
package duct_test

import (
	"errors"
	"fmt"
	"testing"

	"github.com/fogfish/golem/duct"
)

type d5P string
type d5Q string
type d5R string

// d5fail records every callback and fails at the n-th one
type d5fail struct {
	failAt int
	calls  []string
	err    error
}

func (p *d5fail) on(name string, depth int) error {
	p.calls = append(p.calls, fmt.Sprintf("%s@%d", name, depth))
	if len(p.calls)-1 == p.failAt {
		return p.err
	}
	return nil
}

func (p *d5fail) OnEnterMorphism(d int, n duct.AstSeq) error { return p.on("enter-morphism", d) }
func (p *d5fail) OnLeaveMorphism(d int, n duct.AstSeq) error { return p.on("leave-morphism", d) }
func (p *d5fail) OnEnterSeq(d int, n duct.AstSeq) error      { return p.on("enter-seq", d) }
func (p *d5fail) OnLeaveSeq(d int, n duct.AstSeq) error      { return p.on("leave-seq", d) }
func (p *d5fail) OnEnterMap(d int, n duct.AstMap) error      { return p.on("enter-map", d) }
func (p *d5fail) OnLeaveMap(d int, n duct.AstMap) error      { return p.on("leave-map", d) }
func (p *d5fail) OnEnterFrom(d int, n duct.AstFrom) error    { return p.on("enter-from", d) }
func (p *d5fail) OnLeaveFrom(d int, n duct.AstFrom) error    { return p.on("leave-from", d) }
func (p *d5fail) OnEnterYield(d int, n duct.AstYield) error  { return p.on("enter-yield", d) }
func (p *d5fail) OnLeaveYield(d int, n duct.AstYield) error  { return p.on("leave-yield", d) }

// C16: an error from any callback stops the visit at once and is returned.
func TestD5ErrorFromAnyCallbackStopsVisit(t *testing.T) {
	build := func() duct.Morphism[d5P, duct.Void] {
		return duct.Yield(duct.L1[d5R](nil),
			duct.LiftF(duct.L2[d5Q, d5R](nil),
				duct.Join(duct.L2[d5P, []d5Q](nil),
					duct.From(duct.L1[d5P](nil)))))
	}

	full := &d5fail{failAt: -1}
	if err := build().Apply(full); err != nil {
		t.Fatal(err)
	}
	if len(full.calls) != 12 {
		t.Fatalf("unexpected number of callbacks %d: %v", len(full.calls), full.calls)
	}

	for at := range full.calls {
		boom := errors.New("boom")
		v := &d5fail{failAt: at, err: boom}
		err := build().Apply(v)

		if err != boom {
			t.Errorf("failing %s (callback %d): Apply returned %v, want the callback's error", full.calls[at], at, err)
		}
		if len(v.calls) != at+1 {
			t.Errorf("failing %s (callback %d): visit went on: %v", full.calls[at], at, v.calls[at+1:])
		}
	}
}
