// probe: dir=duct run=^(TestD8InterfaceTypedSteps)$
// Demonstration test of a seeded property-breaking change (see /verif/seeded/C16/meta.json), kept as a
// directed probe: it passes on the pinned tree and fails when that kind of change is made.
package duct_test

import (
	"fmt"
	"io"
	"reflect"
	"testing"

	"github.com/fogfish/golem/duct"
)

type d8Event interface{ Kind() string }

type d8Trace struct {
	duct.AstVisitor
	log []string
}

func (v *d8Trace) OnEnterMorphism(depth int, node duct.AstSeq) error {
	v.log = append(v.log, fmt.Sprintf("%d morphism", depth))
	return nil
}

func (v *d8Trace) OnEnterFrom(depth int, node duct.AstFrom) error {
	v.log = append(v.log, fmt.Sprintf("%d from %s", depth, node.Type))
	return nil
}

func (v *d8Trace) OnEnterMap(depth int, node duct.AstMap) error {
	v.log = append(v.log, fmt.Sprintf("%d map %s %s", depth, node.TypeA, node.TypeB))
	return nil
}

func (v *d8Trace) OnEnterYield(depth int, node duct.AstYield) error {
	v.log = append(v.log, fmt.Sprintf("%d yield %s", depth, node.Type))
	return nil
}

func d8Try(f func()) (err any) {
	defer func() { err = recover() }()
	f()
	return nil
}

// C16: a program is well-typed for every Go type parameter, the interface
// types included; its nodes record duct.TypeOf of these parameters.
func TestD8InterfaceTypedSteps(t *testing.T) {
	for want, f := range map[string]func() string{
		"d8Event":   duct.TypeOf[d8Event],
		"[]d8Event": duct.TypeOf[[]d8Event],
		"*d8Event":  duct.TypeOf[*d8Event],
		"Reader":    duct.TypeOf[io.Reader],
		"error":     duct.TypeOf[error],
		"string":    duct.TypeOf[string],
	} {
		var got string
		if err := d8Try(func() { got = f() }); err != nil {
			t.Errorf("TypeOf of %s panics: %v", want, err)
		} else if got != want {
			t.Errorf("TypeOf = %q, want %q", got, want)
		}
	}

	var trace d8Trace
	if err := d8Try(func() {
		m := duct.Yield(
			duct.L1[error](nil),
			duct.Join(
				duct.L2[d8Event, error](nil),
				duct.Join(
					duct.L2[string, d8Event](nil),
					duct.From(duct.L1[string](nil)),
				),
			),
		)
		if err := m.Apply(&trace); err != nil {
			t.Errorf("Apply fails: %v", err)
		}
	}); err != nil {
		t.Fatalf("building string -> d8Event -> error panics: %v", err)
	}

	want := []string{"0 morphism", "1 from string", "1 map string d8Event", "1 map d8Event error", "1 yield error"}
	if !reflect.DeepEqual(trace.log, want) {
		t.Errorf("visit reports %q, want %q", trace.log, want)
	}
}
