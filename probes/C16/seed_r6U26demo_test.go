// probe: dir=duct run=^(TestSeededP6YieldEnterErrorStopsVisit)$
// Demonstration test of a seeded property-breaking change (see /verif/seeded/C16/meta.json), kept as a
// directed probe: it passes on the pinned tree and fails when that kind of change is made.
package duct_test

import (
	"errors"
	"reflect"
	"testing"

	"github.com/fogfish/golem/duct"
)

type seededP6Visitor struct {
	duct.AstVisitor
	fail  error
	trace []string
}

func (v *seededP6Visitor) OnEnterMorphism(int, duct.AstSeq) error {
	v.trace = append(v.trace, "+m")
	return nil
}
func (v *seededP6Visitor) OnLeaveMorphism(int, duct.AstSeq) error {
	v.trace = append(v.trace, "-m")
	return nil
}
func (v *seededP6Visitor) OnEnterFrom(int, duct.AstFrom) error {
	v.trace = append(v.trace, "+from")
	return nil
}
func (v *seededP6Visitor) OnLeaveFrom(int, duct.AstFrom) error {
	v.trace = append(v.trace, "-from")
	return nil
}
func (v *seededP6Visitor) OnEnterYield(int, duct.AstYield) error {
	v.trace = append(v.trace, "+yield")
	return v.fail
}
func (v *seededP6Visitor) OnLeaveYield(int, duct.AstYield) error {
	v.trace = append(v.trace, "-yield")
	return nil
}

// C16: an error from any callback stops the visit at once and is returned.
func TestSeededP6YieldEnterErrorStopsVisit(t *testing.T) {
	type A string
	m := duct.Yield(duct.L1[A](nil), duct.From(duct.L1[A](nil)))

	// no failure: well-bracketed visit
	ok := &seededP6Visitor{}
	if err := m.Apply(ok); err != nil {
		t.Fatalf("unexpected error %v", err)
	}
	if want := []string{"+m", "+from", "-from", "+yield", "-yield", "-m"}; !reflect.DeepEqual(ok.trace, want) {
		t.Fatalf("expected visit %v, got %v", want, ok.trace)
	}

	// the visitor refuses the yield node
	boom := errors.New("boom")
	ko := &seededP6Visitor{fail: boom}
	err := m.Apply(ko)
	if !errors.Is(err, boom) {
		t.Errorf("the error of OnEnterYield is not returned: %v", err)
	}
	if want := []string{"+m", "+from", "-from", "+yield"}; !reflect.DeepEqual(ko.trace, want) {
		t.Errorf("the visit has to stop at the failed callback %v, got %v", want, ko.trace)
	}
}
