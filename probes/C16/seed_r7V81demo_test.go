// probe: dir=duct run=^(TestSeededP1WrapInWrapYield|TestSeededP1WrapInWrapUnit|TestSeededP1WrapInWrapUnitEmpty)$
// Demonstration test of a seeded property-breaking change (see /verif/seeded/C16/meta.json), kept as a
// directed probe: it passes on the pinned tree and fails when that kind of change is made.
package duct_test

import (
	"fmt"
	"strings"
	"testing"

	"github.com/fogfish/golem/duct"
)

type sp1X string

// recorder of the callback trace
type sp1Rec struct{ sb strings.Builder }

func (r *sp1Rec) ev(s string, depth int, rest string) error {
	fmt.Fprintf(&r.sb, "%s@%d%s;", s, depth, rest)
	return nil
}
func (r *sp1Rec) OnEnterMorphism(d int, n duct.AstSeq) error { return r.ev("+M", d, "") }
func (r *sp1Rec) OnLeaveMorphism(d int, n duct.AstSeq) error { return r.ev("-M", d, "") }
func (r *sp1Rec) OnEnterSeq(d int, n duct.AstSeq) error {
	return r.ev("+S", d, fmt.Sprintf("(open=%v)", n.Deferred))
}
func (r *sp1Rec) OnLeaveSeq(d int, n duct.AstSeq) error { return r.ev("-S", d, "") }
func (r *sp1Rec) OnEnterMap(d int, n duct.AstMap) error {
	return r.ev("+F", d, "("+n.TypeA+">"+n.TypeB+")")
}
func (r *sp1Rec) OnLeaveMap(d int, n duct.AstMap) error     { return r.ev("-F", d, "") }
func (r *sp1Rec) OnEnterFrom(d int, n duct.AstFrom) error   { return r.ev("+I", d, "("+n.Type+")") }
func (r *sp1Rec) OnLeaveFrom(d int, n duct.AstFrom) error   { return r.ev("-I", d, "") }
func (r *sp1Rec) OnEnterYield(d int, n duct.AstYield) error { return r.ev("+Y", d, "("+n.Type+")") }
func (r *sp1Rec) OnLeaveYield(d int, n duct.AstYield) error { return r.ev("-Y", d, "") }

func sp1Trace(t *testing.T, m interface{ Apply(duct.Visitor) error }) string {
	r := &sp1Rec{}
	if err := m.Apply(r); err != nil {
		t.Fatalf("unexpected error %v", err)
	}
	return r.sb.String()
}

// From([][]X) ; WrapF ; WrapF ; Yield(X): the yield belongs to the innermost
// (second) nested context, which is the first element of the outer one.
func TestSeededP1WrapInWrapYield(t *testing.T) {
	m := duct.Yield(duct.L1[sp1X](nil),
		duct.WrapF(duct.WrapF(duct.From(duct.L1[[][]sp1X](nil)))))

	want := "+M@0;+I@1([][]sp1X);-I@1;" +
		"+S@1(open=true);+S@2(open=true);+Y@3(sp1X);-Y@3;-S@2;-S@1;-M@0;"
	if got := sp1Trace(t, m); got != want {
		t.Errorf("trace\n got %s\nwant %s", got, want)
	}
}

// From([][]X) ; WrapF ; WrapF ; Join(X>X) ; Unit ; Unit ; Yield([][]X)
func TestSeededP1WrapInWrapUnit(t *testing.T) {
	f := duct.L2[sp1X, sp1X](nil)
	m := duct.Yield(duct.L1[[][]sp1X](nil),
		duct.Unit(duct.Unit(duct.Join(f,
			duct.WrapF(duct.WrapF(duct.From(duct.L1[[][]sp1X](nil))))))))

	want := "+M@0;+I@1([][]sp1X);-I@1;" +
		"+S@1(open=false);+S@2(open=false);+F@3(sp1X>sp1X);-F@3;-S@2;-S@1;" +
		"+Y@1([][]sp1X);-Y@1;-M@0;"
	if got := sp1Trace(t, m); got != want {
		t.Errorf("trace\n got %s\nwant %s", got, want)
	}
}

// Unit right after the two wraps closes the innermost (empty) context only:
// the following Join lands in the outer nested context.
func TestSeededP1WrapInWrapUnitEmpty(t *testing.T) {
	f := duct.L2[[]sp1X, sp1X](nil)
	m := duct.Join(f,
		duct.Unit(duct.WrapF(duct.WrapF(duct.From(duct.L1[[][]sp1X](nil))))))

	want := "+M@0;+I@1([][]sp1X);-I@1;" +
		"+S@1(open=true);+S@2(open=false);-S@2;+F@2([]sp1X>sp1X);-F@2;-S@1;-M@0;"
	if got := sp1Trace(t, m); got != want {
		t.Errorf("trace\n got %s\nwant %s", got, want)
	}
}
