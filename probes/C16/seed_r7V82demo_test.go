// probe: dir=duct run=^(TestSeededP2FailureStopsVisitAtOnce)$
// Demonstration test of a seeded property-breaking change (see /verif/seeded/C16/meta.json), kept as a
// directed probe: it passes on the pinned tree and fails when that kind of change is made.
package duct_test

import (
	"errors"
	"fmt"
	"testing"

	"github.com/fogfish/golem/duct"
)

type sp2X string

// visitor failing at the n-th callback, records all callbacks it has seen
type sp2Failing struct {
	failAt int
	err    error
	trace  []string
}

func (r *sp2Failing) ev(s string, depth int) error {
	r.trace = append(r.trace, fmt.Sprintf("%s@%d", s, depth))
	if len(r.trace) == r.failAt {
		return r.err
	}
	return nil
}
func (r *sp2Failing) OnEnterMorphism(d int, n duct.AstSeq) error { return r.ev("+M", d) }
func (r *sp2Failing) OnLeaveMorphism(d int, n duct.AstSeq) error { return r.ev("-M", d) }
func (r *sp2Failing) OnEnterSeq(d int, n duct.AstSeq) error      { return r.ev("+S", d) }
func (r *sp2Failing) OnLeaveSeq(d int, n duct.AstSeq) error      { return r.ev("-S", d) }
func (r *sp2Failing) OnEnterMap(d int, n duct.AstMap) error      { return r.ev("+F", d) }
func (r *sp2Failing) OnLeaveMap(d int, n duct.AstMap) error      { return r.ev("-F", d) }
func (r *sp2Failing) OnEnterFrom(d int, n duct.AstFrom) error    { return r.ev("+I", d) }
func (r *sp2Failing) OnLeaveFrom(d int, n duct.AstFrom) error    { return r.ev("-I", d) }
func (r *sp2Failing) OnEnterYield(d int, n duct.AstYield) error  { return r.ev("+Y", d) }
func (r *sp2Failing) OnLeaveYield(d int, n duct.AstYield) error  { return r.ev("-Y", d) }

// An error of any callback stops the visit at once: no callback is invoked
// after the failing one, the error is returned as is.
func TestSeededP2FailureStopsVisitAtOnce(t *testing.T) {
	fXs := duct.L2[sp2X, []sp2X](nil)
	fX := duct.L2[sp2X, sp2X](nil)

	// From(X); Join(X>[]X); LiftF(X>[]X); LiftF(X>X); Unit; Yield([]X)
	m := duct.Yield(duct.L1[[]sp2X](nil),
		duct.Unit(
			duct.LiftF(fX,
				duct.LiftF(fXs,
					duct.Join(fXs, duct.From(duct.L1[sp2X](nil)))))))

	full := &sp2Failing{}
	if err := m.Apply(full); err != nil {
		t.Fatalf("unexpected error %v", err)
	}
	total := len(full.trace)
	if total != 16 {
		t.Fatalf("unexpected trace %v", full.trace)
	}

	for k := 1; k <= total; k++ {
		boom := fmt.Errorf("boom %d", k)
		v := &sp2Failing{failAt: k, err: boom}
		err := m.Apply(v)
		if !errors.Is(err, boom) {
			t.Errorf("fail at %d (%s): returned %v", k, full.trace[k-1], err)
		}
		if len(v.trace) != k {
			t.Errorf("fail at %d (%s): visit went on with %v", k, full.trace[k-1], v.trace[k:])
		}
	}
}
