// probe: dir=duct run=^(TestSeededC16_UnitOfEmptyContext|TestSeededC16_UnitOfEmptyNestedContext|TestSeededC16_ControlNonEmptyContext)$
// Demonstration test of a seeded property-breaking change (see /verif/seeded/C16/meta.json), kept as a
// directed probe: it passes on the pinned tree and fails when that kind of change is made.
// DEMONSTRATION for seeded change C16 (patch.diff).
//
// Place this file in:   /tmp/wt-C16/duct/   (package duct_test, next to duct_test.go)
// Run with:
//
//	cd /tmp/wt-C16/duct && GOFLAGS=-mod=mod GOPROXY=off go test -vet=off -count=1 -run 'TestSeededC16' ./...
//
// Expected: PASS on the original code, FAIL with patch.diff applied.
package duct_test

import (
	"fmt"
	"strings"
	"testing"

	"github.com/fogfish/golem/duct"
)

type X string
type Y string
type Z string

// tracer records the well-bracketed visit as an indented listing.
type tracer struct {
	strings.Builder
	stack []string
	bad   []string
}

func (p *tracer) enter(depth int, kind, label string) error {
	if depth != len(p.stack) {
		p.bad = append(p.bad, fmt.Sprintf("enter %s at depth %d, stack %d", kind, depth, len(p.stack)))
	}
	p.stack = append(p.stack, kind)
	fmt.Fprintln(p, strings.TrimRight(strings.Repeat("  ", depth)+kind+" "+label, " "))
	return nil
}

func (p *tracer) leave(depth int, kind string) error {
	if len(p.stack) == 0 || p.stack[len(p.stack)-1] != kind || depth != len(p.stack)-1 {
		p.bad = append(p.bad, fmt.Sprintf("leave %s at depth %d, stack %v", kind, depth, p.stack))
		return nil
	}
	p.stack = p.stack[:len(p.stack)-1]
	return nil
}

func (p *tracer) OnEnterMorphism(d int, n duct.AstSeq) error { return p.enter(d, "morphism", "") }
func (p *tracer) OnLeaveMorphism(d int, n duct.AstSeq) error { return p.leave(d, "morphism") }
func (p *tracer) OnEnterSeq(d int, n duct.AstSeq) error {
	return p.enter(d, "seq", fmt.Sprintf("open=%v", n.Deferred))
}
func (p *tracer) OnLeaveSeq(d int, n duct.AstSeq) error { return p.leave(d, "seq") }
func (p *tracer) OnEnterMap(d int, n duct.AstMap) error {
	return p.enter(d, "map", n.TypeA+" -> "+n.TypeB)
}
func (p *tracer) OnLeaveMap(d int, n duct.AstMap) error     { return p.leave(d, "map") }
func (p *tracer) OnEnterFrom(d int, n duct.AstFrom) error   { return p.enter(d, "from", n.Type) }
func (p *tracer) OnLeaveFrom(d int, n duct.AstFrom) error   { return p.leave(d, "from") }
func (p *tracer) OnEnterYield(d int, n duct.AstYield) error { return p.enter(d, "yield", n.Type) }
func (p *tracer) OnLeaveYield(d int, n duct.AstYield) error { return p.leave(d, "yield") }

func trace(t *testing.T, m interface{ Apply(duct.Visitor) error }) string {
	t.Helper()
	p := &tracer{}
	if err := m.Apply(p); err != nil {
		t.Fatalf("unexpected error: %v", err)
	}
	if len(p.bad) != 0 || len(p.stack) != 0 {
		t.Fatalf("visit is not well-bracketed: %v (stack %v)", p.bad, p.stack)
	}
	return p.String()
}

func check(t *testing.T, got, want string) {
	t.Helper()
	want = strings.TrimLeft(want, "\n")
	if got != want {
		t.Errorf("unexpected AST\n--- got ---\n%s--- want ---\n%s", got, want)
	}
}

// Unit directly after WrapF closes the (still empty) nested context, so the
// following steps belong to the root morphism.
func TestSeededC16_UnitOfEmptyContext(t *testing.T) {
	m := duct.Yield(duct.L1[Z](nil),
		duct.Join(duct.L2[[]Y, Z](nil),
			duct.Unit(
				duct.WrapF(
					duct.Join(duct.L2[X, []Y](nil),
						duct.From(duct.L1[X](nil)))))))

	check(t, trace(t, m), `
morphism
  from X
  map X -> []Y
  seq open=false
  map []Y -> Z
  yield Z
`)
}

// Same, one level deeper: Unit has to close the innermost (empty) context and
// leave the enclosing one open, so that the next Join still lands inside it.
func TestSeededC16_UnitOfEmptyNestedContext(t *testing.T) {
	m := duct.Join(duct.L2[[]Y, Z](nil),
		duct.Unit(
			duct.WrapF(
				duct.LiftF(duct.L2[X, []Y](nil),
					duct.Join(duct.L2[X, []X](nil),
						duct.From(duct.L1[X](nil)))))))

	check(t, trace(t, m), `
morphism
  from X
  map X -> []X
  seq open=true
    map X -> []Y
    seq open=false
    map []Y -> Z
`)
}

// Control: non-empty context, behaves the same before and after the change.
func TestSeededC16_ControlNonEmptyContext(t *testing.T) {
	m := duct.Join(duct.L2[[]Z, X](nil),
		duct.Unit(
			duct.LiftF(duct.L2[Y, Z](nil),
				duct.Join(duct.L2[X, []Y](nil),
					duct.From(duct.L1[X](nil))))))

	check(t, trace(t, m), `
morphism
  from X
  map X -> []Y
  seq open=false
    map Y -> Z
  map []Z -> X
`)
}
