// probe: dir=duct run=^(TestSeeded2C16_UnitClosesInnermost|TestSeeded2C16_ControlSingleContext)$
// Demonstration test of a seeded property-breaking change (see /verif/seeded/C16/meta.json), kept as a
// directed probe: it passes on the pinned tree and fails when that kind of change is made.
// DEMONSTRATION for the second seeded change C16 (patch2.diff).
//
// Place this file in:   /tmp/wt-C16/duct/   (package duct_test, next to duct_test.go)
// Run with:
//
//	cd /tmp/wt-C16/duct && GOFLAGS=-mod=mod GOPROXY=off go test -vet=off -count=1 -run 'TestSeeded2C16' ./...
//
// Expected: PASS on the original code, FAIL with patch2.diff applied.
package duct_test

import (
	"fmt"
	"strings"
	"testing"

	"github.com/fogfish/golem/duct"
)

type P string
type Q string
type R string

// tracer2 records the well-bracketed visit as an indented listing.
type tracer2 struct {
	strings.Builder
	stack []string
	bad   []string
}

func (p *tracer2) enter(depth int, kind, label string) error {
	if depth != len(p.stack) {
		p.bad = append(p.bad, fmt.Sprintf("enter %s at depth %d, stack %d", kind, depth, len(p.stack)))
	}
	p.stack = append(p.stack, kind)
	fmt.Fprintln(p, strings.TrimRight(strings.Repeat("  ", depth)+kind+" "+label, " "))
	return nil
}

func (p *tracer2) leave(depth int, kind string) error {
	if len(p.stack) == 0 || p.stack[len(p.stack)-1] != kind || depth != len(p.stack)-1 {
		p.bad = append(p.bad, fmt.Sprintf("leave %s at depth %d, stack %v", kind, depth, p.stack))
		return nil
	}
	p.stack = p.stack[:len(p.stack)-1]
	return nil
}

func (p *tracer2) OnEnterMorphism(d int, n duct.AstSeq) error { return p.enter(d, "morphism", "") }
func (p *tracer2) OnLeaveMorphism(d int, n duct.AstSeq) error { return p.leave(d, "morphism") }
func (p *tracer2) OnEnterSeq(d int, n duct.AstSeq) error {
	return p.enter(d, "seq", fmt.Sprintf("open=%v", n.Deferred))
}
func (p *tracer2) OnLeaveSeq(d int, n duct.AstSeq) error { return p.leave(d, "seq") }
func (p *tracer2) OnEnterMap(d int, n duct.AstMap) error {
	return p.enter(d, "map", n.TypeA+" -> "+n.TypeB)
}
func (p *tracer2) OnLeaveMap(d int, n duct.AstMap) error     { return p.leave(d, "map") }
func (p *tracer2) OnEnterFrom(d int, n duct.AstFrom) error   { return p.enter(d, "from", n.Type) }
func (p *tracer2) OnLeaveFrom(d int, n duct.AstFrom) error   { return p.leave(d, "from") }
func (p *tracer2) OnEnterYield(d int, n duct.AstYield) error { return p.enter(d, "yield", n.Type) }
func (p *tracer2) OnLeaveYield(d int, n duct.AstYield) error { return p.leave(d, "yield") }

func trace2(t *testing.T, m interface{ Apply(duct.Visitor) error }) string {
	t.Helper()
	p := &tracer2{}
	if err := m.Apply(p); err != nil {
		t.Fatalf("unexpected error: %v", err)
	}
	if len(p.bad) != 0 || len(p.stack) != 0 {
		t.Fatalf("visit is not well-bracketed: %v (stack %v)", p.bad, p.stack)
	}
	return p.String()
}

func check2(t *testing.T, got, want string) {
	t.Helper()
	want = strings.TrimLeft(want, "\n")
	if got != want {
		t.Errorf("unexpected AST\n--- got ---\n%s--- want ---\n%s", got, want)
	}
}

// Two nested contexts are open (WrapF then LiftF). The first Unit closes the
// innermost one only, the Join after it still belongs to the outer nested
// context, the second Unit closes that one and Yield lands in the root.
func TestSeeded2C16_UnitClosesInnermost(t *testing.T) {
	m := duct.Yield(duct.L1[[]Q](nil),
		duct.Unit(
			duct.Join(duct.L2[[]R, Q](nil),
				duct.Unit(
					duct.LiftF(duct.L2[Q, R](nil),
						duct.WrapF(
							duct.Join(duct.L2[P, [][]Q](nil),
								duct.From(duct.L1[P](nil)))))))))

	check2(t, trace2(t, m), `
morphism
  from P
  map P -> [][]Q
  seq open=false
    seq open=false
      map Q -> R
    map []R -> Q
  yield []Q
`)
}

// Control: a single nested context, behaves the same before and after the change.
func TestSeeded2C16_ControlSingleContext(t *testing.T) {
	m := duct.Yield(duct.L1[[]R](nil),
		duct.Unit(
			duct.LiftF(duct.L2[Q, R](nil),
				duct.Join(duct.L2[P, []Q](nil),
					duct.From(duct.L1[P](nil))))))

	check2(t, trace2(t, m), `
morphism
  from P
  map P -> []Q
  seq open=false
    map Q -> R
  yield []R
`)
}
