// probe: dir=duct run=^(TestDemoA_UnitClosesInnermostContext)$
// Demonstration test of a seeded property-breaking change (see /verif/seeded/C16/meta.json), kept as a
// directed probe: it passes on the pinned tree and fails when that kind of change is made.
package duct_test

import (
	"fmt"
	"strings"
	"testing"

	"github.com/fogfish/golem/duct"
)

type (
	demoAA string
	demoAB string
	demoAC string
	demoAD string
	demoAE string
)

// demoATree prints the AST: one line per node, indented by the reported depth.
type demoATree struct {
	duct.AstVisitor
	strings.Builder
}

func (p *demoATree) line(depth int, format string, args ...any) error {
	fmt.Fprintf(p, "%s%s\n", strings.Repeat("  ", depth), fmt.Sprintf(format, args...))
	return nil
}

func (p *demoATree) OnEnterMorphism(depth int, node duct.AstSeq) error {
	return p.line(depth, "morphism")
}

func (p *demoATree) OnEnterSeq(depth int, node duct.AstSeq) error {
	if node.Deferred {
		return p.line(depth, "seq open")
	}
	return p.line(depth, "seq closed")
}

func (p *demoATree) OnEnterFrom(depth int, node duct.AstFrom) error {
	return p.line(depth, "from %s", node.Type)
}

func (p *demoATree) OnEnterMap(depth int, node duct.AstMap) error {
	return p.line(depth, "map %s -> %s", node.TypeA, node.TypeB)
}

func (p *demoATree) OnEnterYield(depth int, node duct.AstYield) error {
	return p.line(depth, "yield %s", node.Type)
}

func demoAShow(t *testing.T, m interface{ Apply(duct.Visitor) error }) string {
	p := &demoATree{}
	if err := m.Apply(p); err != nil {
		t.Fatalf("unexpected error %v", err)
	}
	return "\n" + p.String()
}

// Unit closes the innermost open context; the step after it lands in the
// context that encloses the closed one.
func TestDemoA_UnitClosesInnermostContext(t *testing.T) {
	src := duct.L1[demoAA](nil)
	fABs := duct.L2[demoAA, []demoAB](nil)
	fBCs := duct.L2[demoAB, []demoAC](nil)
	fCD := duct.L2[demoAC, demoAD](nil)
	fDsE := duct.L2[[]demoAD, demoAE](nil)
	dst := duct.L1[demoAE](nil)

	// control: a single nested context
	one := duct.Join(duct.L2[[]demoAC, demoAE](nil),
		duct.Unit(duct.LiftF(duct.L2[demoAB, demoAC](nil), duct.Join(fABs, duct.From(src)))))
	if got, want := demoAShow(t, one), `
morphism
  from demoAA
  map demoAA -> []demoAB
  seq closed
    map demoAB -> demoAC
  map []demoAC -> demoAE
`; got != want {
		t.Errorf("single context: got %s want %s", got, want)
	}

	// two nested contexts, one Unit, then a step and a yield
	m := duct.Yield(dst,
		duct.Join(fDsE,
			duct.Unit(
				duct.LiftF(fCD,
					duct.LiftF(fBCs,
						duct.Join(fABs, duct.From(src)))))))
	if got, want := demoAShow(t, m), `
morphism
  from demoAA
  map demoAA -> []demoAB
  seq open
    map demoAB -> []demoAC
    seq closed
      map demoAC -> demoAD
    map []demoAD -> demoAE
    yield demoAE
`; got != want {
		t.Errorf("nested contexts, one Unit: got %s want %s", got, want)
	}

	// two nested contexts closed one after another
	n := duct.Unit(duct.Join(fDsE,
		duct.Unit(
			duct.LiftF(fCD,
				duct.LiftF(fBCs,
					duct.Join(fABs, duct.From(src)))))))
	if got, want := demoAShow(t, n), `
morphism
  from demoAA
  map demoAA -> []demoAB
  seq closed
    map demoAB -> []demoAC
    seq closed
      map demoAC -> demoAD
    map []demoAD -> demoAE
`; got != want {
		t.Errorf("nested contexts, two Units: got %s want %s", got, want)
	}
}
