// probe: dir=duct run=TestProbeC16
package duct_test

import (
	"errors"
	"fmt"
	"strings"
	"testing"

	"github.com/fogfish/golem/duct"
)

// Directed probe for C16: a family of combinator programs (nesting to depth 3, empty nested
// contexts, Unit right after WrapF, steps after Unit) against their expected trees; every
// enter matched by its leave in stack order, children one level deeper; a visitor failing
// at every callback position stops the visit there and its error is returned.
type pA string
type pB string
type pC string
type pD string

type rec struct {
	out    []string
	failAt int
	n      int
	err    error
}

func (r *rec) ev(s string, depth int) error {
	r.out = append(r.out, fmt.Sprintf("%s%s", strings.Repeat(" ", depth), s))
	r.n++
	if r.n == r.failAt {
		return r.err
	}
	return nil
}
func (r *rec) OnEnterMorphism(d int, n duct.AstSeq) error { return r.ev("<m", d) }
func (r *rec) OnLeaveMorphism(d int, n duct.AstSeq) error { return r.ev("m>", d) }
func (r *rec) OnEnterSeq(d int, n duct.AstSeq) error      { return r.ev("<s", d) }
func (r *rec) OnLeaveSeq(d int, n duct.AstSeq) error      { return r.ev("s>", d) }
func (r *rec) OnEnterMap(d int, n duct.AstMap) error      { return r.ev("<map "+n.TypeA+"->"+n.TypeB, d) }
func (r *rec) OnLeaveMap(d int, n duct.AstMap) error      { return r.ev("map>", d) }
func (r *rec) OnEnterFrom(d int, n duct.AstFrom) error    { return r.ev("<from "+n.Type, d) }
func (r *rec) OnLeaveFrom(d int, n duct.AstFrom) error    { return r.ev("from>", d) }
func (r *rec) OnEnterYield(d int, n duct.AstYield) error  { return r.ev("<yield "+n.Type, d) }
func (r *rec) OnLeaveYield(d int, n duct.AstYield) error  { return r.ev("yield>", d) }

type applier interface{ Apply(duct.Visitor) error }

func TestProbeC16(t *testing.T) {
	a := duct.L1[pA](nil)
	d := duct.L1[pD](nil)
	fAB := duct.L2[pA, pB](nil)
	fABs := duct.L2[pA, []pB](nil)
	fBC := duct.L2[pB, pC](nil)
	fBCs := duct.L2[pB, []pC](nil)
	fCD := duct.L2[pC, pD](nil)
	fCsD := duct.L2[[]pC, pD](nil)
	fDsD := duct.L2[[]pD, pD](nil)
	from, leaf := "<from pA|from>", func(x, y string) string { return "<map " + x + "->" + y + "|map>" }
	cases := []struct {
		name string
		p    applier
		want string // tree in bracket notation: children separated by |
	}{
		{"from", duct.From(a), "<m|" + from + "|m>"},
		{"join", duct.Join(fBC, duct.Join(fAB, duct.From(a))), "<m|" + from + "|" + leaf("pA", "pB") + "|" + leaf("pB", "pC") + "|m>"},
		{"yield", duct.Yield(a, duct.From(a)), "<m|" + from + "|<yield pA|yield>|m>"},
		{"liftf", duct.LiftF(fBC, duct.Join(fABs, duct.From(a))), "<m|" + from + "|" + leaf("pA", "[]pB") + "|<s|" + leaf("pB", "pC") + "|s>|m>"},
		{"liftf+join lands inside", duct.Join(fCD, duct.LiftF(fBC, duct.Join(fABs, duct.From(a)))), "<m|" + from + "|" + leaf("pA", "[]pB") + "|<s|" + leaf("pB", "pC") + "|" + leaf("pC", "pD") + "|s>|m>"},
		{"unit closes, next step outside", duct.Join(fCsD, duct.Unit(duct.LiftF(fBC, duct.Join(fABs, duct.From(a))))), "<m|" + from + "|" + leaf("pA", "[]pB") + "|<s|" + leaf("pB", "pC") + "|s>|" + leaf("[]pC", "pD") + "|m>"},
		{"wrapf empty context then join inside", duct.Join(fBC, duct.WrapF(duct.Join(fABs, duct.From(a)))), "<m|" + from + "|" + leaf("pA", "[]pB") + "|<s|" + leaf("pB", "pC") + "|s>|m>"},
		{"unit right after wrapf closes the empty context", duct.Join(fBCsUnit(), duct.Unit(duct.WrapF(duct.Join(fABs, duct.From(a))))), "<m|" + from + "|" + leaf("pA", "[]pB") + "|<s|s>|" + leaf("[]pB", "pC") + "|m>"},
		{"two levels nested", twoLevels(a, fABs, fBCs, fCD, fDsD), "<m|" + from + "|" + leaf("pA", "[]pB") + "|<s|" + leaf("pB", "[]pC") + "|<s|" + leaf("pC", "pD") + "|s>|" + leaf("[]pD", "pD") + "|s>|m>"},
		{"yield inside nested", duct.Yield(d, duct.Join(fCD, duct.LiftF(fBC, duct.Join(fABs, duct.From(a))))), "<m|" + from + "|" + leaf("pA", "[]pB") + "|<s|" + leaf("pB", "pC") + "|" + leaf("pC", "pD") + "|<yield pD|yield>|s>|m>"},
	}
	for _, c := range cases {
		if c.want == "" {
			continue
		}
		r := &rec{}
		if err := c.p.Apply(r); err != nil {
			t.Fatalf("%s: %v", c.name, err)
		}
		// rebuild bracket notation and check depth discipline
		var b []string
		depth := 0
		for _, line := range r.out {
			ind := len(line) - len(strings.TrimLeft(line, " "))
			s := strings.TrimSpace(line)
			if strings.HasPrefix(s, "<") {
				if ind != depth {
					t.Fatalf("%s: %q entered at depth %d, expected %d\n%s", c.name, s, ind, depth, strings.Join(r.out, "\n"))
				}
				depth++
			} else {
				depth--
				if ind != depth {
					t.Fatalf("%s: %q left at depth %d, expected %d\n%s", c.name, s, ind, depth, strings.Join(r.out, "\n"))
				}
			}
			b = append(b, s)
		}
		if got := strings.Join(b, "|"); got != c.want {
			t.Fatalf("%s:\n got  %s\n want %s", c.name, got, c.want)
		}
		// failing visitor: stops at once, error returned
		total := len(r.out)
		boom := errors.New("boom")
		for k := 1; k <= total; k++ {
			f := &rec{failAt: k, err: boom}
			err := c.p.Apply(f)
			if err != boom || len(f.out) != k || strings.Join(f.out, "\n") != strings.Join(r.out[:k], "\n") {
				t.Fatalf("%s: visitor failing at callback %d: returned %v after %d callbacks", c.name, k, err, len(f.out))
			}
		}
	}
}

func fBCsUnit() duct.F[[]pB, pC] { return duct.L2[[]pB, pC](nil) }

func twoLevels(a duct.T[pA], fABs duct.F[pA, []pB], fBCs duct.F[pB, []pC], fCD duct.F[pC, pD], fDsD duct.F[[]pD, pD]) applier {
	m1 := duct.Join(fABs, duct.From(a))  // A -> []B
	m2 := duct.LiftF(fBCs, m1)           // nested: B -> []C
	m3 := duct.LiftF(fCD, m2)            // nested deeper: C -> D
	m4 := duct.Unit(m3)                  // closes the innermost: []D
	return duct.Join(fDsD, m4)           // lands in the still-open middle context
}
