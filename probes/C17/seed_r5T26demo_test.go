// probe: dir=pure/ord run=^(TestD6OrdIntIsBuiltinOrder)$
// Demonstration test of a seeded property-breaking change (see /verif/seeded/C17/meta.json), kept as a
// directed probe: it passes on the pinned tree and fails when that kind of change is made.
package ord_test

import (
	"math"
	"testing"

	"github.com/fogfish/golem/pure/eq"
	"github.com/fogfish/golem/pure/ord"
)

// C17: ord.Int returns LT, EQ or GT exactly as the built-in ordering does and
// agrees with eq.Int on EQ.
func d6builtin(a, b int) ord.Ordering {
	switch {
	case a < b:
		return ord.LT
	case a > b:
		return ord.GT
	default:
		return ord.EQ
	}
}

func TestD6OrdIntIsBuiltinOrder(t *testing.T) {
	big := 1 << 53
	xs := []int{
		math.MinInt64, math.MinInt64 + 1, -big - 1, -big, -1, 0, 1, 42,
		big, big + 1, big + 2, math.MaxInt64 - 1, math.MaxInt64,
	}

	for _, a := range xs {
		for _, b := range xs {
			got := ord.Int.Compare(a, b)
			if want := d6builtin(a, b); got != want {
				t.Errorf("ord.Int.Compare(%d, %d) = %d, built-in order gives %d", a, b, got, want)
			}
			if (got == ord.EQ) != eq.Int.Equal(a, b) {
				t.Errorf("ord.Int.Compare(%d, %d) = %d disagrees with eq.Int", a, b, got)
			}
		}
	}
}
