// probe: dir=pure/ord run=^(TestSeededP3OrdIntSmallValues|TestSeededP3OrdIntBoundaryValues|TestSeededP3OrdIntTransitive|TestSeededP3ContraMapBoundaryValues)$
// Demonstration test of a seeded property-breaking change (see /verif/seeded/C17/meta.json), kept as a
// directed probe: it passes on the pinned tree and fails when that kind of change is made.
package ord_test

import (
	"math"
	"testing"

	"github.com/fogfish/golem/pure/ord"
)

// ord.Int returns LT, EQ or GT exactly as the built-in ordering of int does,
// for every pair of ints - the boundary values included. So does a ContraMap
// instance built over it.

func p3want(a, b int) ord.Ordering {
	switch {
	case a < b:
		return ord.LT
	case a > b:
		return ord.GT
	default:
		return ord.EQ
	}
}

var p3values = []int{
	math.MinInt, math.MinInt + 1, math.MinInt / 2, math.MinInt/2 - 1,
	-1 << 31, -1000, -2, -1, 0, 1, 2, 1000, 1 << 31,
	math.MaxInt / 2, math.MaxInt/2 + 1, math.MaxInt - 1, math.MaxInt,
}

func TestSeededP3OrdIntSmallValues(t *testing.T) {
	for a := -50; a <= 50; a++ {
		for b := -50; b <= 50; b++ {
			if got, want := ord.Int.Compare(a, b), p3want(a, b); got != want {
				t.Fatalf("Compare(%d, %d) = %d, want %d", a, b, got, want)
			}
		}
	}
}

func TestSeededP3OrdIntBoundaryValues(t *testing.T) {
	for _, a := range p3values {
		for _, b := range p3values {
			got, want := ord.Int.Compare(a, b), p3want(a, b)
			if got != want {
				t.Errorf("Compare(%d, %d) = %d, want %d", a, b, got, want)
			}
			// antisymmetry
			if rev := ord.Int.Compare(b, a); rev != -got {
				t.Errorf("Compare(%d, %d) = %d but Compare(%d, %d) = %d", a, b, got, b, a, rev)
			}
		}
	}
}

func TestSeededP3OrdIntTransitive(t *testing.T) {
	a, b, c := math.MinInt+10, 0, math.MaxInt-10
	ab, bc, ac := ord.Int.Compare(a, b), ord.Int.Compare(b, c), ord.Int.Compare(a, c)
	if ab != ord.LT || bc != ord.LT || ac != ord.LT {
		t.Errorf("not transitive: %d<%d: %d, %d<%d: %d, %d<%d: %d", a, b, ab, b, c, bc, a, c, ac)
	}
}

func TestSeededP3ContraMapBoundaryValues(t *testing.T) {
	type acc struct {
		Name    string
		Balance int
	}

	byBalance := ord.ContraMap[int, acc]{ord.Int, func(x acc) int { return x.Balance }}

	lo, hi := acc{"lo", math.MinInt + 1}, acc{"hi", 2}
	if got := byBalance.Compare(lo, hi); got != ord.LT {
		t.Errorf("Compare(lo, hi) = %d, want LT", got)
	}
	if got := byBalance.Compare(hi, lo); got != ord.GT {
		t.Errorf("Compare(hi, lo) = %d, want GT", got)
	}
}
