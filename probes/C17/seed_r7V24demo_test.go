// probe: dir=pure/eq run=^(TestSeededP4ContraMapComparableStruct|TestSeededP4ContraMapEqualsBaseOnProjection|TestSeededP4ContraMapNonComparableStruct)$
// Demonstration test of a seeded property-breaking change (see /verif/seeded/C17/meta.json), kept as a
// directed probe: it passes on the pinned tree and fails when that kind of change is made.
package eq_test

import (
	"math"
	"testing"

	"github.com/fogfish/golem/pure/eq"
)

// A ContraMap instance gives exactly the result of the base instance on the
// projected values, in argument order - for every type B of the projected
// structure and every base instance.

type p4Doc struct {
	ID   int
	Tags []string // makes the struct non-comparable with ==
}

type p4Point struct{ X float64 }

func TestSeededP4ContraMapComparableStruct(t *testing.T) {
	type rec struct {
		ID   int
		Name string
	}
	byID := eq.ContraMap[int, rec]{eq.Int, func(x rec) int { return x.ID }}

	for _, c := range []struct {
		a, b rec
		want bool
	}{
		{rec{1, "a"}, rec{1, "a"}, true},
		{rec{1, "a"}, rec{1, "b"}, true},
		{rec{1, "a"}, rec{2, "a"}, false},
		{rec{math.MinInt, ""}, rec{math.MaxInt, ""}, false},
	} {
		if got := byID.Equal(c.a, c.b); got != c.want {
			t.Errorf("Equal(%v, %v) = %v, want %v", c.a, c.b, got, c.want)
		}
	}
}

func TestSeededP4ContraMapEqualsBaseOnProjection(t *testing.T) {
	// the base instance is the built-in equality of float64
	base := eq.From[float64](func(a, b float64) bool { return a == b })
	byX := eq.ContraMap[float64, *p4Point]{base, func(p *p4Point) float64 { return p.X }}

	for _, x := range []float64{0, 1, math.Inf(1), math.NaN()} {
		p, q := &p4Point{x}, &p4Point{x}
		want := base.Equal(x, x)
		if got := byX.Equal(p, q); got != want {
			t.Errorf("Equal(p, q) with X = %v: got %v, want %v", x, got, want)
		}
		if got := byX.Equal(p, p); got != want {
			t.Errorf("Equal(p, p) with X = %v: got %v, want %v (result of the base instance on the projections)", x, got, want)
		}
	}
}

func TestSeededP4ContraMapNonComparableStruct(t *testing.T) {
	defer func() {
		if r := recover(); r != nil {
			t.Fatalf("Equal panics: %v", r)
		}
	}()

	byID := eq.ContraMap[int, p4Doc]{eq.Int, func(x p4Doc) int { return x.ID }}

	a := p4Doc{ID: 1, Tags: []string{"x"}}
	b := p4Doc{ID: 1, Tags: []string{"y", "z"}}
	c := p4Doc{ID: 2}

	if !byID.Equal(a, b) {
		t.Errorf("Equal(a, b) = false, want true")
	}
	if byID.Equal(a, c) {
		t.Errorf("Equal(a, c) = true, want false")
	}
}
