// probe: dir=pure/monoid run=^(TestDemoMonoidFromPlainSemigroup|TestDemoMonoidFromRebasedMonoid)$
// Demonstration test of a seeded property-breaking change (see /verif/seeded/C17/meta.json), kept as a
// directed probe: it passes on the pinned tree and fails when that kind of change is made.
// DEMONSTRATION for patch2.diff (seeded change C17 #2, monoid.From).
//
// Place this file at:  pure/monoid/monoid_from_demo_test.go  (package
// monoid_test, module github.com/fogfish/golem/pure)
//
// Run:
//   cd /tmp/wt-C17/pure && GOFLAGS=-mod=mod GOPROXY=off \
//     go test -vet=off -count=1 -run 'TestDemoMonoid' ./monoid/
//
// Passes on the original code, fails with patch2.diff applied.
package monoid_test

import (
	"testing"

	"github.com/fogfish/golem/pure/monoid"
	"github.com/fogfish/golem/pure/semigroup"
)

// Ordinary use: a plain semigroup lifted with a given empty element.
// Holds with and without the patch.
func TestDemoMonoidFromPlainSemigroup(t *testing.T) {
	concat := semigroup.From[string](func(a, b string) string { return a + b })
	m := monoid.From[string]("", concat)

	if m.Empty() != "" {
		t.Errorf("Empty() = %q, want %q", m.Empty(), "")
	}
	if got := m.Combine("ab", "cd"); got != "abcd" {
		t.Errorf("Combine(ab, cd) = %q, want abcd (arguments in order)", got)
	}
}

// The specific shape: the Semigroup handed to From is itself a Monoid (a
// Monoid is a Semigroup) and the caller re-bases it on another empty element.
// From must yield a monoid whose Empty is the GIVEN element.
func TestDemoMonoidFromRebasedMonoid(t *testing.T) {
	concat := monoid.FromOp("", func(a, b string) string { return a + b })

	// same operation, seeded with a header
	csv := monoid.From[string]("id,name\n", concat)

	if got, want := csv.Empty(), "id,name\n"; got != want {
		t.Errorf("From(%q, concat).Empty() = %q, want the given element", want, got)
	}
	if got := csv.Combine("1,a\n", "2,b\n"); got != "1,a\n2,b\n" {
		t.Errorf("Combine = %q, want operands in order", got)
	}

	// fold: Empty is the seed of the accumulation
	acc := csv.Empty()
	for _, x := range []string{"1,a\n", "2,b\n"} {
		acc = csv.Combine(acc, x)
	}
	if want := "id,name\n1,a\n2,b\n"; acc != want {
		t.Errorf("fold = %q, want %q", acc, want)
	}

	// ints with a non-commutative operation: only the given empty matters
	sum := monoid.FromOp(0, func(a, b int) int { return a - b })
	from10 := monoid.From[int](10, sum)
	if from10.Empty() != 10 {
		t.Errorf("From(10, sum).Empty() = %d, want 10", from10.Empty())
	}
	if from10.Combine(7, 2) != 5 {
		t.Errorf("Combine(7, 2) = %d, want 5", from10.Combine(7, 2))
	}
}
