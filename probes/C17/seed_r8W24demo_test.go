// probe: dir=pure/monoid run=^(TestSeededP4EmptyIsTheGivenElement)$
// Demonstration test of a seeded property-breaking change (see /verif/seeded/C17/meta.json), kept as a
// directed probe: it passes on the pinned tree and fails when that kind of change is made.
package monoid_test

import (
	"math"
	"testing"

	"github.com/fogfish/golem/pure/monoid"
	"github.com/fogfish/golem/pure/semigroup"
)

// C17: "monoid.From/FromOp yield a monoid whose Empty is the given element
// and whose Combine is the given operation with its arguments in order."

// a semigroup supplied by an application; the type happens to know its own
// neutral element as well
type seededP4Max struct{}

func (seededP4Max) Combine(a, b int) int {
	if a > b {
		return a
	}
	return b
}

func (seededP4Max) Empty() int { return math.MinInt }

// plain semigroup, nothing else
type seededP4Concat struct{}

func (seededP4Concat) Combine(a, b string) string { return a + b }

func seededP4Fold[T any](m monoid.Monoid[T], seq []T) T {
	x := m.Empty()
	for _, y := range seq {
		x = m.Combine(x, y)
	}
	return x
}

func TestSeededP4EmptyIsTheGivenElement(t *testing.T) {
	// control: plain semigroup and plain operation
	c := monoid.From[string]("^", seededP4Concat{})
	if c.Empty() != "^" {
		t.Errorf("From(\"^\", concat).Empty() = %q, want \"^\"", c.Empty())
	}
	if got := c.Combine("ab", "cd"); got != "abcd" {
		t.Errorf("From(\"^\", concat).Combine(ab, cd) = %q, want abcd", got)
	}
	sub := monoid.FromOp(100, func(a, b int) int { return a - b })
	if sub.Empty() != 100 || sub.Combine(7, 2) != 5 {
		t.Errorf("FromOp(100, -): Empty() = %d, Combine(7, 2) = %d; want 100, 5", sub.Empty(), sub.Combine(7, 2))
	}

	// maximum over non-negative numbers: the floor 0 is the given element
	m := monoid.From[int](0, seededP4Max{})
	if m.Empty() != 0 {
		t.Errorf("From(0, max).Empty() = %d, want the given element 0", m.Empty())
	}
	if got := seededP4Fold(m, nil); got != 0 {
		t.Errorf("fold of nothing with From(0, max) = %d, want 0", got)
	}
	if got := seededP4Fold(m, []int{-5, -3}); got != 0 {
		t.Errorf("fold of {-5, -3} with From(0, max) = %d, want 0", got)
	}

	// re-basing an existing monoid on another neutral element
	cat := monoid.FromOp("", func(a, b string) string { return a + b })
	var asSemigroup semigroup.Semigroup[string] = cat
	quoted := monoid.From("> ", asSemigroup)
	if quoted.Empty() != "> " {
		t.Errorf("From(\"> \", FromOp(\"\", +)).Empty() = %q, want \"> \"", quoted.Empty())
	}
	if got := seededP4Fold(quoted, []string{"a", "b"}); got != "> ab" {
		t.Errorf("fold of {a, b} with the re-based monoid = %q, want \"> ab\"", got)
	}
}
