// probe: dir=pure/ord run=^(TestDemoA_OrdIntAgreesWithBuiltin)$
// Demonstration test of a seeded property-breaking change (see /verif/seeded/C17/meta.json), kept as a
// directed probe: it passes on the pinned tree and fails when that kind of change is made.
package ord_test

import (
	"math"
	"testing"

	"github.com/fogfish/golem/pure/ord"
)

// ord.Int agrees with the built-in ordering of int on the whole range.
func TestDemoA_OrdIntAgreesWithBuiltin(t *testing.T) {
	xs := []int{
		math.MinInt, math.MinInt + 1, math.MinInt / 2, -2, -1, 0, 1, 2,
		math.MaxInt / 2, math.MaxInt/2 + 1, math.MaxInt - 1, math.MaxInt,
	}

	for _, a := range xs {
		for _, b := range xs {
			want := ord.EQ
			switch {
			case a < b:
				want = ord.LT
			case a > b:
				want = ord.GT
			}

			if got := ord.Int.Compare(a, b); got != want {
				t.Errorf("ord.Int.Compare(%d, %d) = %d, want %d", a, b, got, want)
			}

			// antisymmetry
			if ord.Int.Compare(a, b) != -ord.Int.Compare(b, a) {
				t.Errorf("ord.Int.Compare(%d, %d) is not the opposite of Compare(%d, %d)", a, b, b, a)
			}
		}
	}

	// the instance seen through ContraMap
	type rec struct{ ID int }
	byID := ord.ContraMap[int, rec]{ord.Int, func(r rec) int { return r.ID }}
	if got := byID.Compare(rec{math.MinInt}, rec{1}); got != ord.LT {
		t.Errorf("byID.Compare({MinInt}, {1}) = %d, want %d", got, ord.LT)
	}
}
