// probe: dir=pure/eq run=^(TestD6ContraMapIsBaseOnProjections)$
// Demonstration test of a seeded property-breaking change (see /verif/seeded/C17/meta.json), kept as a
// directed probe: it passes on the pinned tree and fails when that kind of change is made.
package eq_test

import (
	"testing"

	"github.com/fogfish/golem/pure/eq"
)

type d6A struct {
	ID   int
	Name string
}

type d6Rec struct {
	ID   int
	Tags []string
}

// C17: a ContraMap instance gives exactly the result of the base instance
// on the projected values, in argument order.
func TestD6ContraMapIsBaseOnProjections(t *testing.T) {
	// base relations given through eq.From; they are deliberately not all reflexive or symmetric
	bases := map[string]func(int, int) bool{
		"==":    func(a, b int) bool { return a == b },
		"<":     func(a, b int) bool { return a < b },
		"<=":    func(a, b int) bool { return a <= b },
		"never": func(a, b int) bool { return false },
	}
	proj := func(x d6A) int { return x.ID % 3 }

	for name, base := range bases {
		e := eq.ContraMap[int, d6A]{eq.From[int](base), proj}
		for i := -4; i <= 4; i++ {
			for j := -4; j <= 4; j++ {
				a, b := d6A{i, "n"}, d6A{j, "n"}
				if got, want := e.Equal(a, b), base(proj(a), proj(b)); got != want {
					t.Errorf("base %q: Equal(%v, %v) = %v, base on projections gives %v", name, a, b, got, want)
				}
			}
		}
	}

	// values of B need not be comparable with ==
	byID := eq.ContraMap[int, d6Rec]{eq.Int, func(x d6Rec) int { return x.ID }}
	func() {
		defer func() {
			if r := recover(); r != nil {
				t.Errorf("Equal panics on a type that is not comparable: %v", r)
			}
		}()
		if !byID.Equal(d6Rec{1, []string{"a"}}, d6Rec{1, []string{"b"}}) {
			t.Errorf("records with the same ID must be equal")
		}
		if byID.Equal(d6Rec{1, nil}, d6Rec{2, nil}) {
			t.Errorf("records with different ID must differ")
		}
	}()
}
