// probe: dir=pure/ord run=^(TestDemoOrdIntAgreesWithBuiltin|TestDemoOrdIntLaws|TestDemoOrdIntContraMap)$
// Demonstration test of a seeded property-breaking change (see /verif/seeded/C17/meta.json), kept as a
// directed probe: it passes on the pinned tree and fails when that kind of change is made.
// DEMONSTRATION for patch.diff (seeded change C17, ord.Int).
//
// Place this file at:  pure/ord/ord_law_demo_test.go   (package ord_test,
// module github.com/fogfish/golem/pure)
//
// Run:
//   cd /tmp/wt-C17/pure && GOFLAGS=-mod=mod GOPROXY=off \
//     go test -vet=off -count=1 -run 'TestDemoOrdInt' ./ord/
//
// Passes on the original code, fails with patch.diff applied.
package ord_test

import (
	"math"
	"testing"

	"github.com/fogfish/golem/pure/eq"
	"github.com/fogfish/golem/pure/ord"
)

func builtin(a, b int) ord.Ordering {
	switch {
	case a < b:
		return ord.LT
	case a > b:
		return ord.GT
	default:
		return ord.EQ
	}
}

var demoInts = []int{
	math.MinInt, math.MinInt + 1, math.MinInt / 2, -2, -1, 0, 1, 2,
	math.MaxInt / 2, math.MaxInt - 1, math.MaxInt,
}

// ord.Int must return LT/EQ/GT exactly as the built-in ordering does.
func TestDemoOrdIntAgreesWithBuiltin(t *testing.T) {
	for _, a := range demoInts {
		for _, b := range demoInts {
			if got, want := ord.Int.Compare(a, b), builtin(a, b); got != want {
				t.Errorf("ord.Int.Compare(%d, %d) = %d, want %d", a, b, got, want)
			}
			if (ord.Int.Compare(a, b) == ord.EQ) != eq.Int.Equal(a, b) {
				t.Errorf("ord.Int/eq.Int disagree on (%d, %d)", a, b)
			}
		}
	}
}

// Antisymmetry and transitivity over boundary values.
func TestDemoOrdIntLaws(t *testing.T) {
	for _, a := range demoInts {
		for _, b := range demoInts {
			if ord.Int.Compare(a, b) != -ord.Int.Compare(b, a) {
				t.Errorf("antisymmetry broken for (%d, %d)", a, b)
			}
			for _, c := range demoInts {
				if ord.Int.Compare(a, b) == ord.LT && ord.Int.Compare(b, c) == ord.LT &&
					ord.Int.Compare(a, c) != ord.LT {
					t.Errorf("transitivity broken for %d < %d < %d", a, b, c)
				}
			}
		}
	}
}

// The same defect observed through ContraMap: the derived instance must give
// exactly the built-in result on projected values.
func TestDemoOrdIntContraMap(t *testing.T) {
	type acc struct{ balance int }
	byBalance := ord.ContraMap[int, acc]{ord.Int, func(x acc) int { return x.balance }}

	if got := byBalance.Compare(acc{math.MinInt}, acc{1}); got != ord.LT {
		t.Errorf("Compare(MinInt, 1) via ContraMap = %d, want LT", got)
	}
	if got := byBalance.Compare(acc{math.MaxInt}, acc{-1}); got != ord.GT {
		t.Errorf("Compare(MaxInt, -1) via ContraMap = %d, want GT", got)
	}
}
