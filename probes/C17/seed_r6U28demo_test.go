// probe: dir=pure/monoid run=^(TestSeededP8FromOpCombineIsTheGivenOperation)$
// Demonstration test of a seeded property-breaking change (see /verif/seeded/C17/meta.json), kept as a
// directed probe: it passes on the pinned tree and fails when that kind of change is made.
package monoid_test

import (
	"testing"

	"github.com/fogfish/golem/pure/monoid"
)

// C17: FromOp(e, op) is the structure whose Empty is e and whose Combine is
// exactly op, arguments in order - for any e and any op.
func TestSeededP8FromOpCombineIsTheGivenOperation(t *testing.T) {
	// running total that starts from the opening balance
	calls := 0
	m := monoid.FromOp(100, func(a, b int) int {
		calls++
		return a + b
	})

	if m.Empty() != 100 {
		t.Fatalf("Empty() = %d", m.Empty())
	}

	for _, tc := range [][3]int{
		{1, 2, 3},
		{100, 5, 105},
		{5, 100, 105},
		{100, 100, 200},
	} {
		if got := m.Combine(tc[0], tc[1]); got != tc[2] {
			t.Errorf("Combine(%d, %d) = %d, the operation gives %d", tc[0], tc[1], got, tc[2])
		}
	}
	if calls != 4 {
		t.Errorf("the operation was applied %d times for 4 calls of Combine", calls)
	}

	// left fold of [1, 2, 3] from Empty, the way pipe.Fold / Foldable.Fold do
	acc := m.Empty()
	for _, x := range []int{1, 2, 3} {
		acc = m.Combine(acc, x)
	}
	if acc != 106 {
		t.Errorf("fold = %d, expected 106", acc)
	}
}
