// probe: dir=pure/monoid run=^(TestDemoB_FromOpKeepsArgumentOrder)$
// Demonstration test of a seeded property-breaking change (see /verif/seeded/C17/meta.json), kept as a
// directed probe: it passes on the pinned tree and fails when that kind of change is made.
package monoid_test

import (
	"testing"

	"github.com/fogfish/golem/pure/monoid"
	"github.com/fogfish/golem/pure/semigroup"
)

// monoid.FromOp(e, op): Empty() is e, Combine(a, b) is op(a, b) - arguments in order.
func TestDemoB_FromOpKeepsArgumentOrder(t *testing.T) {
	// commutative operation, cannot tell the order
	sum := monoid.FromOp(0, func(a, b int) int { return a + b })
	if sum.Empty() != 0 || sum.Combine(2, 3) != 5 {
		t.Errorf("sum: Empty() = %d, Combine(2, 3) = %d", sum.Empty(), sum.Combine(2, 3))
	}

	// non commutative operations
	cat := monoid.FromOp("", func(a, b string) string { return a + b })
	if got := cat.Empty(); got != "" {
		t.Errorf("cat.Empty() = %q, want empty string", got)
	}
	if got := cat.Combine("ab", "cd"); got != "abcd" {
		t.Errorf("cat.Combine(ab, cd) = %q, want abcd", got)
	}
	if got := cat.Combine(cat.Empty(), "x") + cat.Combine("x", cat.Empty()); got != "xx" {
		t.Errorf("identity laws: got %q, want xx", got)
	}

	first := monoid.FromOp(-1, func(a, b int) int { return a })
	if got := first.Combine(1, 2); got != 1 {
		t.Errorf("first.Combine(1, 2) = %d, want 1", got)
	}

	// monoid.From over semigroup.From is the reference
	ref := monoid.From[string]("", semigroup.From[string](func(a, b string) string { return a + b }))
	for _, p := range [][2]string{{"", ""}, {"a", ""}, {"", "b"}, {"a", "b"}, {"ab", "ab"}, {"ж", "日本"}} {
		if got, want := cat.Combine(p[0], p[1]), ref.Combine(p[0], p[1]); got != want {
			t.Errorf("FromOp.Combine(%q, %q) = %q, From.Combine gives %q", p[0], p[1], got, want)
		}
	}
}
