// probe: dir=pure/ord run=TestProbeC17 obligations=^ord\.
package ord_test

import (
	"math"
	"testing"

	"github.com/fogfish/golem/pure/ord"
)

// Directed probe for C17 (ord): boundary integers and strings against the built-in order.
func TestProbeC17Ord(t *testing.T) {
	ints := []int{math.MinInt, math.MinInt + 1, -2, -1, 0, 1, 2, math.MaxInt - 1, math.MaxInt}
	want := func(a, b int) ord.Ordering {
		switch {
		case a < b:
			return ord.LT
		case a > b:
			return ord.GT
		}
		return ord.EQ
	}
	for _, a := range ints {
		for _, b := range ints {
			if got := ord.Int.Compare(a, b); got != want(a, b) {
				t.Fatalf("ord.Int.Compare(%d, %d) = %d, built-in ordering says %d", a, b, got, want(a, b))
			}
			cm := ord.ContraMap[int, [2]int]{Ord: ord.Int, ContraMap: func(p [2]int) int { return p[0] }}
			if got := cm.Compare([2]int{a, 7}, [2]int{b, 9}); got != want(a, b) {
				t.Fatalf("ContraMap.Compare on projections (%d, %d) = %d, want %d", a, b, got, want(a, b))
			}
		}
	}
	strs := []string{"", "a", "ab", "b", "é", "日本", "\x00"}
	for _, a := range strs {
		for _, b := range strs {
			w := ord.EQ
			if a < b {
				w = ord.LT
			} else if a > b {
				w = ord.GT
			}
			if got := ord.String.Compare(a, b); got != w {
				t.Fatalf("ord.String.Compare(%q, %q) = %d, want %d", a, b, got, w)
			}
		}
	}
	f := ord.From[int](func(a, b int) ord.Ordering { return ord.Ordering(a*10 + b) })
	if f.Compare(1, 2) != 12 {
		t.Fatalf("From.Compare does not pass its arguments in order")
	}
}
