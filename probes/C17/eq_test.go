// probe: dir=pure/eq run=TestProbeC17 obligations=^eq\.
package eq_test

import (
	"math"
	"testing"

	"github.com/fogfish/golem/pure/eq"
)

func TestProbeC17Eq(t *testing.T) {
	ints := []int{math.MinInt, -1, 0, 1, math.MaxInt}
	for _, a := range ints {
		for _, b := range ints {
			if eq.Int.Equal(a, b) != (a == b) {
				t.Fatalf("eq.Int.Equal(%d, %d) disagrees with ==", a, b)
			}
		}
	}
	strs := []string{"", "a", "ab", "é"}
	for _, a := range strs {
		for _, b := range strs {
			if eq.String.Equal(a, b) != (a == b) {
				t.Fatalf("eq.String.Equal(%q, %q) disagrees with ==", a, b)
			}
		}
	}
	f := eq.From[int](func(a, b int) bool { return a == 1 && b == 2 })
	if !f.Equal(1, 2) || f.Equal(2, 1) {
		t.Fatalf("From.Equal does not pass its arguments in order")
	}
	cm := eq.ContraMap[int, [2]int]{Eq: f, ContraMap: func(p [2]int) int { return p[0] }}
	if !cm.Equal([2]int{1, 0}, [2]int{2, 0}) || cm.Equal([2]int{2, 0}, [2]int{1, 0}) {
		t.Fatalf("ContraMap.Equal does not compare the projections in argument order")
	}
}
