// probe: dir=pure/monoid run=TestProbeC17 obligations=^(monoid|semigroup)\.
package monoid_test

import (
	"testing"

	"github.com/fogfish/golem/pure/monoid"
	"github.com/fogfish/golem/pure/semigroup"
)

func TestProbeC17Monoid(t *testing.T) {
	cat := func(a, b string) string { return a + b }
	m := monoid.FromOp("e", cat)
	if m.Empty() != "e" || m.Combine("x", "y") != "xy" {
		t.Fatalf("FromOp: Empty=%q Combine(x,y)=%q", m.Empty(), m.Combine("x", "y"))
	}
	m2 := monoid.From[string]("z", semigroup.From[string](cat))
	if m2.Empty() != "z" || m2.Combine("x", "y") != "xy" {
		t.Fatalf("From: Empty=%q Combine(x,y)=%q", m2.Empty(), m2.Combine("x", "y"))
	}
	// a monoid handed in as the semigroup, re-based on another identity
	m3 := monoid.From[string]("w", m)
	if m3.Empty() != "w" || m3.Combine("x", "y") != "xy" {
		t.Fatalf("From over a monoid: Empty=%q (want w) Combine(x,y)=%q", m3.Empty(), m3.Combine("x", "y"))
	}
}
