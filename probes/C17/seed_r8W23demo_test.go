// probe: dir=pure/ord run=^(TestSeededP3IntAgreesWithBuiltin|TestSeededP3SortByContraMap)$
// Demonstration test of a seeded property-breaking change (see /verif/seeded/C17/meta.json), kept as a
// directed probe: it passes on the pinned tree and fails when that kind of change is made.
package ord_test

import (
	"math"
	"sort"
	"testing"

	"github.com/fogfish/golem/pure/ord"
)

// C17: "ord.Int/ord.String return LT, EQ or GT exactly as the built-in
// ordering does, hence are total, antisymmetric and transitive".

func seededP3Builtin(a, b int) ord.Ordering {
	switch {
	case a < b:
		return ord.LT
	case a > b:
		return ord.GT
	default:
		return ord.EQ
	}
}

func TestSeededP3IntAgreesWithBuiltin(t *testing.T) {
	values := []int{
		math.MinInt, math.MinInt + 1, math.MinInt / 2, math.MinInt32,
		-2, -1, 0, 1, 2,
		math.MaxInt32, math.MaxInt / 2, math.MaxInt/2 + 1, math.MaxInt - 1, math.MaxInt,
	}

	bad := 0
	for _, a := range values {
		for _, b := range values {
			want := seededP3Builtin(a, b)
			if got := ord.Int.Compare(a, b); got != want {
				if bad++; bad > 5 {
					continue
				}
				t.Errorf("ord.Int.Compare(%d, %d) = %d, built-in ordering gives %d", a, b, got, want)
			}
		}
	}

	// antisymmetry
	bad = 0
	for _, a := range values {
		for _, b := range values {
			if ord.Int.Compare(a, b) != -ord.Int.Compare(b, a) {
				if bad++; bad <= 3 {
					t.Errorf("ord.Int is not antisymmetric on (%d, %d)", a, b)
				}
			}
		}
	}

	// transitivity
	bad = 0
	for _, a := range values {
		for _, b := range values {
			for _, c := range values {
				if ord.Int.Compare(a, b) == ord.LT && ord.Int.Compare(b, c) == ord.LT && ord.Int.Compare(a, c) != ord.LT {
					if bad++; bad <= 3 {
						t.Errorf("ord.Int is not transitive on %d < %d < %d", a, b, c)
					}
				}
			}
		}
	}
}

// a contra-map instance over ord.Int inherits the base result
func TestSeededP3SortByContraMap(t *testing.T) {
	type account struct{ balance int }
	byBalance := ord.ContraMap[int, account]{ord.Int, func(x account) int { return x.balance }}

	seq := []account{{math.MaxInt - 5}, {-7}, {math.MinInt + 3}, {42}, {0}}
	sort.Slice(seq, func(i, j int) bool { return byBalance.Compare(seq[i], seq[j]) == ord.LT })
	for i := 1; i < len(seq); i++ {
		if seq[i-1].balance > seq[i].balance {
			t.Errorf("not sorted at %d: %d before %d", i, seq[i-1].balance, seq[i].balance)
		}
	}
	if byBalance.Compare(account{math.MinInt + 3}, account{42}) != ord.LT {
		t.Errorf("contra-map instance disagrees with built-in ordering of the projections")
	}
}
