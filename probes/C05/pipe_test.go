// probe: dir=pipe run=TestProbeC05
package pipe_test

import (
	"context"
	"fmt"
	"testing"
	"time"

	"github.com/fogfish/golem/pipe/v2"
	"github.com/fogfish/golem/pure/monoid"
)

// Directed probe for C05: every sequential stage against the list function, for inputs of
// length 0..5, capacities 0..2 (live producer) and the Seq-buffered case, n = 0..6 for Take.
func feed(cap int, xs []int) (chan int, func()) {
	ch := make(chan int, cap)
	done := make(chan struct{})
	go func() {
		for _, x := range xs {
			ch <- x
		}
		close(done)
	}()
	return ch, func() { <-done; close(ch) }
}

func collect[T any](t *testing.T, what string, ch <-chan T) []T {
	var out []T
	for {
		select {
		case v, ok := <-ch:
			if !ok {
				return out
			}
			out = append(out, v)
		case <-time.After(2 * time.Second):
			t.Fatalf("%s: output not closed after 2s (got %v so far)", what, out)
		}
	}
}

func TestProbeC05(t *testing.T) {
	ctx := context.Background()
	even := pipe.Pure(func(x int) bool { return x%2 == 0 })
	small := pipe.Pure(func(x int) bool { return x < 3 })
	dbl := pipe.Pure(func(x int) int { return x*2 + 1 })
	for n := 0; n <= 5; n++ {
		xs := make([]int, n)
		for i := range xs {
			xs[i] = i + 1
		}
		for cap := 0; cap <= 2; cap++ {
			name := fmt.Sprintf("len=%d cap=%d", n, cap)
			mk := func() <-chan int { ch, fin := feed(cap, xs); go fin(); return ch }

			out, exx := pipe.Map(ctx, mk(), dbl)
			go func() { for range exx { } }()
			var want []int
			for _, x := range xs {
				want = append(want, x*2+1)
			}
			if got := collect(t, "Map "+name, out); fmt.Sprint(got) != fmt.Sprint(want) {
				t.Fatalf("Map %s: %v want %v", name, got, want)
			}
			want = nil
			for _, x := range xs {
				if x%2 == 0 {
					want = append(want, x)
				}
			}
			if got := collect(t, "Filter "+name, pipe.Filter(ctx, mk(), even)); fmt.Sprint(got) != fmt.Sprint(want) {
				t.Fatalf("Filter %s: %v want %v", name, got, want)
			}
			want = nil
			for _, x := range xs {
				if x >= 3 {
					break
				}
				want = append(want, x)
			}
			if got := collect(t, "TakeWhile "+name, pipe.TakeWhile(ctx, mk(), small)); fmt.Sprint(got) != fmt.Sprint(want) {
				t.Fatalf("TakeWhile %s: %v want %v", name, got, want)
			}
			l, r := pipe.Partition(ctx, mk(), even)
			var gl, gr []int
			dl := make(chan struct{})
			go func() { gl = collect(t, "Partition/l "+name, l); close(dl) }()
			gr = collect(t, "Partition/r "+name, r)
			<-dl
			var wl, wr []int
			for _, x := range xs {
				if x%2 == 0 {
					wl = append(wl, x)
				} else {
					wr = append(wr, x)
				}
			}
			if fmt.Sprint(gl) != fmt.Sprint(wl) || fmt.Sprint(gr) != fmt.Sprint(wr) {
				t.Fatalf("Partition %s: %v / %v want %v / %v", name, gl, gr, wl, wr)
			}
			// non-commutative monoid with a non-zero identity
			cat := monoid.FromOp("<", func(a, b string) string { return "(" + a + b + ")" })
			sch := make(chan string, cap)
			go func() {
				for _, x := range xs {
					sch <- fmt.Sprint(x)
				}
				close(sch)
			}()
			wf := "<"
			for _, x := range xs {
				wf = "(" + wf + fmt.Sprint(x) + ")"
			}
			if got := collect(t, "Fold "+name, pipe.Fold(ctx, sch, cat)); len(got) != 1 || got[0] != wf {
				t.Fatalf("Fold %s: %v want [%s]", name, got, wf)
			}
			// Take: first k, and no more than k elements consumed from a live input
			for k := 0; k <= 6; k++ {
				in := make(chan int, cap)
				sent := make(chan int, 16)
				stop := make(chan struct{})
				go func() {
					defer close(in)
					for _, x := range xs {
						select {
						case in <- x:
							sent <- x
						case <-stop:
							return
						}
					}
				}()
				got := collect(t, fmt.Sprintf("Take(%d) %s", k, name), pipe.Take(ctx, in, k))
				m := k
				if m > n {
					m = n
				}
				if fmt.Sprint(got) != fmt.Sprint(xs[:m]) && !(m == 0 && len(got) == 0) {
					t.Fatalf("Take(%d) %s: %v want %v", k, name, got, xs[:m])
				}
				time.Sleep(2 * time.Millisecond)
				close(stop)
				// the stage may not have taken more than k elements out of the input: what
				// the producer managed to send is at most k + capacity (+1 in flight)
				if k < n && len(sent) > k+cap {
					t.Fatalf("Take(%d) %s: producer completed %d sends into a channel of capacity %d: more than %d elements were consumed", k, name, len(sent), cap, k)
				}
			}
		}
		if got := pipe.ToSeq(pipe.Seq(xs...)); fmt.Sprint(got) != fmt.Sprint(xs) && !(n == 0 && len(got) == 0) {
			t.Fatalf("ToSeq(Seq(%v)) = %v", xs, got)
		}
	}
}
