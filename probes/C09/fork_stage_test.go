// probe: dir=pipe/fork run=TestProbeC09
package fork_test

import (
	"context"
	"errors"
	"fmt"
	"sort"
	"sync/atomic"
	"testing"
	"time"

	"github.com/fogfish/golem/pipe/v2/fork"
)

// Directed probe for C09: every fork stage against the multiset the sequential stage
// gives, exactly-once application, closure after failures (several failing workers, error
// channel drained late), worker counts 1..4.
func drainAll[T any](t *testing.T, what string, ch <-chan T) []T {
	var out []T
	for {
		select {
		case v, ok := <-ch:
			if !ok {
				return out
			}
			out = append(out, v)
		case <-time.After(3 * time.Second):
			t.Fatalf("%s: channel did not close (got %d values)", what, len(out))
		}
	}
}

func TestProbeC09(t *testing.T) {
	ctx := context.Background()
	boom := errors.New("boom")
	for par := 1; par <= 4; par++ {
		for n := 0; n <= 7; n++ {
			name := fmt.Sprintf("par=%d n=%d", par, n)
			mk := func() <-chan int {
				ch := make(chan int, 1)
				go func() {
					for i := 1; i <= n; i++ {
						ch <- i
					}
					close(ch)
				}()
				return ch
			}
			var calls atomic.Int64
			out, exx := fork.Map(ctx, par, mk(), fork.Pure(func(x int) int { calls.Add(1); return x * 10 }))
			go func() { for range exx { } }()
			got := drainAll(t, "Map "+name, out)
			sort.Ints(got)
			var want []int
			for i := 1; i <= n; i++ {
				want = append(want, i*10)
			}
			if fmt.Sprint(got) != fmt.Sprint(want) || int(calls.Load()) != n {
				t.Fatalf("Map %s: %v (%d calls), want %v (%d calls)", name, got, calls.Load(), want, n)
			}
			calls.Store(0)
			done := fork.ForEach(ctx, par, mk(), fork.Pure(func(x int) int { calls.Add(int64(x)); return x }))
			drainAll(t, "ForEach "+name, done)
			if int(calls.Load()) != n*(n+1)/2 {
				t.Fatalf("ForEach %s: function applied to elements summing to %d, want %d", name, calls.Load(), n*(n+1)/2)
			}
			drainAll(t, "Void "+name, fork.Void(ctx, par, mk()))
			f := drainAll(t, "Filter "+name, fork.Filter(ctx, par, mk(), fork.Pure(func(x int) bool { return x%2 == 0 })))
			sort.Ints(f)
			want = nil
			for i := 2; i <= n; i += 2 {
				want = append(want, i)
			}
			if fmt.Sprint(f) != fmt.Sprint(want) {
				t.Fatalf("Filter %s: %v want %v", name, f, want)
			}
			l, r := fork.Partition(ctx, par, mk(), fork.Pure(func(x int) bool { return x%2 == 0 }))
			var gl []int
			dl := make(chan struct{})
			go func() { gl = drainAll(t, "Partition/l "+name, l); close(dl) }()
			gr := drainAll(t, "Partition/r "+name, r)
			<-dl
			if len(gl)+len(gr) != n || len(gl) != n/2 {
				t.Fatalf("Partition %s: %v / %v", name, gl, gr)
			}
			// try mode: one error per failing element
			o2, e2 := fork.Map(ctx, par, mk(), fork.Try(func(x int) (int, error) {
				if x%3 == 0 {
					return 0, boom
				}
				return x, nil
			}))
			var errs []error
			de := make(chan struct{})
			go func() { errs = drainAll(t, "Map/Try errors "+name, e2); close(de) }()
			vals := drainAll(t, "Map/Try "+name, o2)
			<-de
			if len(errs) != n/3 || len(vals) != n-n/3 {
				t.Fatalf("Map/Try %s: %d values %d errors, want %d / %d", name, len(vals), len(errs), n-n/3, n/3)
			}
			// fail-fast with every element failing: several workers fail; the consumer looks
			// at the values first. Everything must still close.
			o3, e3 := fork.Map(ctx, par, mk(), fork.Lift(func(x int) (int, error) { return 0, boom }))
			drainAll(t, "Map/Lift all-failing values "+name, o3)
			drainAll(t, "Map/Lift all-failing errors "+name, e3)
			o4, e4 := fork.FMap(ctx, par, mk(), fork.LiftF(func(ctx context.Context, x int, out chan<- int) error { return boom }))
			drainAll(t, "FMap/LiftF all-failing values "+name, o4)
			drainAll(t, "FMap/LiftF all-failing errors "+name, e4)
		}
	}
}
