// probe: dir=pipe run=TestProbeC13
package pipe_test

import (
	"context"
	"testing"
	"time"

	"github.com/fogfish/golem/pipe/v2"
)

// Directed probe for C13: order/once/close, and the burst bound 2*ops+1+c after an idle
// period (windows of 3/4 interval to stay clear of timer jitter).
func TestProbeC13(t *testing.T) {
	for _, tc := range []struct{ c, ops int }{{0, 2}, {0, 1}, {4, 1}, {2, 3}} {
		const interval = 120 * time.Millisecond
		ctx, cancel := context.WithCancel(context.Background())
		in := make(chan int, tc.c)
		const n = 40
		go func() {
			for i := 0; i < n; i++ {
				in <- i
			}
			close(in)
		}()
		out := pipe.Throttling(ctx, in, tc.ops, interval)
		time.Sleep(5*interval + interval/2) // idle consumer: buckets and buffers fill up
		var stamps []time.Time
		next := 0
		for v := range out {
			if v != next {
				t.Fatalf("c=%d ops=%d: element %d delivered, expected %d (order/once)", tc.c, tc.ops, v, next)
			}
			next++
			stamps = append(stamps, time.Now())
		}
		cancel()
		if next != n {
			t.Fatalf("c=%d ops=%d: %d elements delivered, want %d", tc.c, tc.ops, next, n)
		}
		bound := 2*tc.ops + 1 + tc.c
		w := interval * 3 / 4
		for i := range stamps {
			k := 0
			for j := i; j < len(stamps) && stamps[j].Sub(stamps[i]) < w; j++ {
				k++
			}
			if k > bound {
				t.Fatalf("c=%d ops=%d: %d deliveries within %v, bound is %d", tc.c, tc.ops, k, w, bound)
			}
		}
	}
}
