// probe: dir=internal/maplike/skiplist run=^(TestDemoA_OverwriteThenAppend|TestDemoA_ReversedOrder|TestDemoA_Histories)$ stage=internal
// Demonstration test of a seeded property-breaking change (see /verif/seeded/C18/meta.json), kept as a
// directed probe: it passes on the pinned tree and fails when that kind of change is made.
package skiplist_test

// Demo for C18 / patch A.
// Place into maplike/skiplist/ of the staged module (package skiplist_test).
// Passes on the clean tree, fails with patchA.diff applied.

import (
	"fmt"
	"strconv"
	"strings"
	"testing"

	"github.com/fogfish/golem/maplike/skiplist"
	"github.com/fogfish/golem/pure/ord"
)

// keys printed by String(), the head sentinel (first node line) is skipped
func demoAKeys(t *testing.T, list fmt.Stringer) []int {
	t.Helper()
	keys := []int{}
	lines := strings.Split(strings.TrimSpace(list.String()), "\n")
	for _, line := range lines[2:] { // [0] banner, [1] head
		txt := strings.TrimPrefix(line, "{")
		txt = txt[:strings.Index(txt, "\t")]
		key, err := strconv.Atoi(txt)
		if err != nil {
			t.Fatalf("unexpected line %q", line)
		}
		keys = append(keys, key)
	}
	return keys
}

func TestDemoA_OverwriteThenAppend(t *testing.T) {
	list := skiplist.New[int, int](ord.Int)
	list.Put(1, 10).Put(2, 20).Put(3, 30) // ascending inserts
	list.Put(2, 21)                       // overwrite of an existing key
	list.Put(4, 40)                       // a key greater than any other

	for key, val := range map[int]int{1: 10, 2: 21, 3: 30, 4: 40} {
		if got := list.Get(key); got != val {
			t.Errorf("Get(%d) = %d, want %d\n%v", key, got, val, list)
		}
	}

	keys := demoAKeys(t, list.(fmt.Stringer))
	if fmt.Sprint(keys) != "[1 2 3 4]" {
		t.Errorf("printed keys %v, want [1 2 3 4]\n%v", keys, list)
	}
}

func TestDemoA_ReversedOrder(t *testing.T) {
	rev := ord.From[int](func(a, b int) ord.Ordering { return ord.Int.Compare(b, a) })
	list := skiplist.New[int, string](rev)
	list.Put(9, "i").Put(8, "h").Put(7, "g")
	list.Put(8, "H")
	list.Put(6, "f")

	for key, val := range map[int]string{9: "i", 8: "H", 7: "g", 6: "f"} {
		if got := list.Get(key); got != val {
			t.Errorf("Get(%d) = %q, want %q\n%v", key, got, val, list)
		}
	}
	if got := list.Remove(8); got != "H" {
		t.Errorf("Remove(8) = %q, want %q", got, "H")
	}
}

// model based: every history of length 5 over {put k (k in 1..3), overwrite, put max+1}
func TestDemoA_Histories(t *testing.T) {
	for seed := 0; seed < 3*3*3*3*3; seed++ {
		list := skiplist.New[int, int](ord.Int)
		model := map[int]int{}
		code, script := seed, []int{}
		for step := 0; step < 5; step++ {
			key := code%3 + 1 + step // slowly growing window of keys
			code /= 3
			script = append(script, key)
			list.Put(key, 100*step+key)
			model[key] = 100*step + key
			for k := 0; k <= 9; k++ {
				if got := list.Get(k); got != model[k] {
					t.Fatalf("script %v: Get(%d) = %d, want %d\n%v", script, k, got, model[k], list)
				}
			}
		}
	}
}
