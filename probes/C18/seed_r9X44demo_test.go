// probe: dir=internal/maplike/skiplist run=^(TestSeededP4RemoveLargestTwice)$ stage=internal
// Demonstration test of a seeded property-breaking change (see /verif/seeded/C18/meta.json), kept as a
// directed probe: it passes on the pinned tree and fails when that kind of change is made.
package skiplist_test

import (
	"fmt"
	"testing"

	"github.com/fogfish/golem/maplike/skiplist"
	"github.com/fogfish/golem/pure/ord"
)

func seededP4Try(f func() int) (v int, err error) {
	defer func() {
		if p := recover(); p != nil {
			err = fmt.Errorf("panic: %v", p)
		}
	}()
	return f(), nil
}

// Remove of an absent key answers the zero value wherever the key would
// sit - also behind the last node, e.g. when the largest key is removed twice.
func TestSeededP4RemoveLargestTwice(t *testing.T) {
	for run := 0; run < 20; run++ {
		list := skiplist.New[int, int](ord.Int)
		model := map[int]int{}
		for _, k := range []int{5, 1, 9, 3, 7} {
			list.Put(k, k*10)
			model[k] = k * 10
		}

		for _, k := range []int{4, 9, 9, 7, 8, 100, 1, 3, 5, 5, 0} {
			want := model[k]
			delete(model, k)
			got, err := seededP4Try(func() int { return list.Remove(k) })
			if err != nil || got != want {
				t.Fatalf("run %d: Remove(%d) = %v, %v; want %v", run, k, got, err, want)
			}
			for q := 0; q <= 10; q++ {
				if g := list.Get(q); g != model[q] {
					t.Fatalf("run %d: after Remove(%d): Get(%d) = %v, want %v", run, k, q, g, model[q])
				}
			}
		}
	}
}
