// probe: dir=internal/maplike/skiplist run=TestProbeC18Rank obligations=mkNode stage=internal
package skiplist

import (
	"testing"

	"github.com/fogfish/golem/pure/ord"
)

// Directed probe for C18 / mkNode: the rank of a new node must be at least 1 for every value
// the random source may return. float64(Int63()) / (1 << 63) rounds up to exactly 1.0 for the
// largest values of Int63, for which `p < list.p[0]` (= 1.0) is false.
type fixedSource int64

func (s fixedSource) Int63() int64 { return int64(s) }
func (fixedSource) Seed(int64)     {}

func TestProbeC18Rank(t *testing.T) {
	for _, v := range []int64{0, 1, 1 << 62, 1<<63 - 1025, 1<<63 - 513, 1<<63 - 512, 1<<63 - 1} {
		l := New[int, string](ord.Int).(*tSkipList[int, string])
		l.random = fixedSource(v)
		l.Put(1, "a")
		l.Put(2, "b")
		if got := l.Get(1); got != "a" {
			t.Errorf("Int63() = %d: Get(1) = %q after Put(1, a)", v, got)
		}
		if got := l.Remove(2); got != "b" {
			t.Errorf("Int63() = %d: Remove(2) = %q after Put(2, b)", v, got)
		}
	}
}
