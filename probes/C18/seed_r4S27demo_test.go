// probe: dir=internal/maplike/skiplist run=^(TestD7PrintedFormFollowsTheList)$ stage=internal
// Demonstration test of a seeded property-breaking change (see /verif/seeded/C18/meta.json), kept as a
// directed probe: it passes on the pinned tree and fails when that kind of change is made.
package skiplist_test

import (
	"fmt"
	"reflect"
	"strings"
	"testing"

	"github.com/fogfish/golem/maplike"
	"github.com/fogfish/golem/maplike/skiplist"
	"github.com/fogfish/golem/pure/ord"
)

// keys of the printed form: one line "{key\t| fingers}" per node, the first
// node is the head of the list (it holds no key)
func d7Keys(t *testing.T, list maplike.MapLike[string, int]) []string {
	t.Helper()

	keys := []string{}
	head := true
	for _, line := range strings.Split(list.(fmt.Stringer).String(), "\n") {
		if !strings.HasPrefix(line, "{") {
			continue
		}
		if head {
			head = false
			continue
		}
		keys = append(keys, line[1:strings.Index(line, "\t")])
	}
	return keys
}

// C18: the printed form always lists the live keys in ascending order,
// whatever was put, removed or printed before.
func TestD7PrintedFormFollowsTheList(t *testing.T) {
	printed := skiplist.New[string, int](ord.String) // printed along the way
	silent := skiplist.New[string, int](ord.String)  // printed at the end only

	for i, k := range []string{"a", "b", "c", "d", "e"} {
		printed.Put(k, i)
		silent.Put(k, i)
	}

	if got := d7Keys(t, printed); !reflect.DeepEqual(got, []string{"a", "b", "c", "d", "e"}) {
		t.Fatalf("printed form lists %v, want [a b c d e]", got)
	}
	if got := d7Keys(t, printed); !reflect.DeepEqual(got, []string{"a", "b", "c", "d", "e"}) {
		t.Fatalf("printed again, the form lists %v, want [a b c d e]", got)
	}

	for _, l := range []maplike.MapLike[string, int]{printed, silent} {
		l.Remove("b")
		l.Put("x", 9)
	}

	want := []string{"a", "c", "d", "e", "x"}
	if got := d7Keys(t, silent); !reflect.DeepEqual(got, want) {
		t.Errorf("after Remove(b), Put(x) the printed form lists %v, want %v", got, want)
	}
	if got := d7Keys(t, printed); !reflect.DeepEqual(got, want) {
		t.Errorf("after Remove(b), Put(x) the printed form of the list printed before lists %v, want %v", got, want)
	}
	if printed.Get("b") != 0 || printed.Get("x") != 9 {
		t.Errorf("Get(b), Get(x) = %d, %d; want 0, 9", printed.Get("b"), printed.Get("x"))
	}
}
