// probe: dir=internal/maplike/skiplist run=^(TestSeededP10GetAfterRemoveOfJustReadKey)$ stage=internal
// Demonstration test of a seeded property-breaking change (see /verif/seeded/C18/meta.json), kept as a
// directed probe: it passes on the pinned tree and fails when that kind of change is made.
package skiplist_test

import (
	"testing"

	"github.com/fogfish/golem/maplike/skiplist"
	"github.com/fogfish/golem/pure/ord"
)

// C18: for every sequence of Put, Get and Remove the skip list answers
// exactly like an ordinary map (the zero value for absent keys).
func TestSeededP10GetAfterRemoveOfJustReadKey(t *testing.T) {
	list := skiplist.New[int, string](ord.Int)
	ref := map[int]string{}

	put := func(k int, v string) { list.Put(k, v); ref[k] = v }
	del := func(k int) {
		if got, want := list.Remove(k), ref[k]; got != want {
			t.Errorf("Remove(%d) = %q, expected %q", k, got, want)
		}
		delete(ref, k)
	}
	get := func(k int) {
		if got, want := list.Get(k), ref[k]; got != want {
			t.Errorf("Get(%d) = %q, expected %q", k, got, want)
		}
	}

	put(1, "a")
	put(2, "b")
	put(3, "c")

	get(2)
	put(2, "B") // overwrite of the key just read
	get(2)
	del(2) // remove the key just read
	get(2) // absent: ""
	get(1)
	get(2)
	put(2, "bb") // the key comes back with another value
	get(2)

	get(3)
	del(3)
	put(3, "cc")
	get(3)
}
