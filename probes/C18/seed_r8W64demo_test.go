// probe: dir=internal/maplike/skiplist run=^(TestSeededP4ReversedOrderOfIntegers|TestSeededP4ShortLexOrderOfStrings|TestSeededP4RandomHistoryReversedOrder)$ stage=internal
// Demonstration test of a seeded property-breaking change (see /verif/seeded/C18/meta.json), kept as a
// directed probe: it passes on the pinned tree and fails when that kind of change is made.
package skiplist_test

import (
	"math/rand"
	"testing"

	"github.com/fogfish/golem/maplike/skiplist"
	"github.com/fogfish/golem/pure/ord"
)

// reversed total order of integers
var seededP4Desc = ord.From[int](func(a, b int) ord.Ordering {
	return ord.Int.Compare(b, a)
})

// total order of strings: shorter first, then lexicographic
var seededP4ShortLex = ord.From[string](func(a, b string) ord.Ordering {
	if len(a) != len(b) {
		return ord.Int.Compare(len(a), len(b))
	}
	return ord.String.Compare(a, b)
})

func TestSeededP4ReversedOrderOfIntegers(t *testing.T) {
	list := skiplist.New[int, int](seededP4Desc)
	for i := 1; i <= 9; i++ {
		list.Put(i, 10*i)
	}
	for i := 1; i <= 9; i++ {
		if v := list.Get(i); v != 10*i {
			t.Errorf("Get(%d) = %d, expected %d", i, v, 10*i)
		}
	}
}

func TestSeededP4ShortLexOrderOfStrings(t *testing.T) {
	keys := []string{"b", "aa", "c", "ab", "a", "abc", "zz", "z"}
	list := skiplist.New[string, int](seededP4ShortLex)
	for i, k := range keys {
		list.Put(k, i+1)
	}
	for i, k := range keys {
		if v := list.Get(k); v != i+1 {
			t.Errorf("Get(%q) = %d, expected %d", k, v, i+1)
		}
	}
}

func TestSeededP4RandomHistoryReversedOrder(t *testing.T) {
	rnd := rand.New(rand.NewSource(7))
	list := skiplist.New[int, int](seededP4Desc)
	model := map[int]int{}

	for step := 0; step < 20000; step++ {
		key := rnd.Intn(32)
		switch rnd.Intn(3) {
		case 0:
			val := 1 + rnd.Intn(1000)
			list.Put(key, val)
			model[key] = val
		case 1:
			if got, want := list.Get(key), model[key]; got != want {
				t.Fatalf("step %d: Get(%d) = %d, the map has %d", step, key, got, want)
			}
		case 2:
			if got, want := list.Remove(key), model[key]; got != want {
				t.Fatalf("step %d: Remove(%d) = %d, the map has %d", step, key, got, want)
			}
			delete(model, key)
		}
	}
}
