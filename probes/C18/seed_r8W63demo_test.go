// probe: dir=internal/maplike/skiplist run=^(TestSeededP3GetAfterLookupRemovePut|TestSeededP3RandomHistoryAgainstMap)$ stage=internal
// Demonstration test of a seeded property-breaking change (see /verif/seeded/C18/meta.json), kept as a
// directed probe: it passes on the pinned tree and fails when that kind of change is made.
package skiplist_test

import (
	"math/rand"
	"testing"

	"github.com/fogfish/golem/maplike/skiplist"
	"github.com/fogfish/golem/pure/ord"
)

// A key put right behind a key that was looked up and then removed.
func TestSeededP3GetAfterLookupRemovePut(t *testing.T) {
	for run := 0; run < 50; run++ {
		list := skiplist.New[int, int](ord.Int)
		list.Put(10, 1).Put(20, 2).Put(30, 3)

		if v := list.Get(20); v != 2 {
			t.Fatalf("Get(20) = %d, expected 2", v)
		}
		if v := list.Remove(20); v != 2 {
			t.Fatalf("Remove(20) = %d, expected 2", v)
		}
		list.Put(25, 5)

		if v := list.Get(25); v != 5 {
			t.Fatalf("run %d: Get(25) = %d after Put(25, 5), expected 5", run, v)
		}
		if v := list.Remove(30); v != 3 {
			t.Fatalf("Remove(30) = %d, expected 3", v)
		}
		if v := list.Get(30); v != 0 {
			t.Fatalf("run %d: Get(30) = %d after Remove(30), expected 0", run, v)
		}
	}
}

// Random histories against the built-in map.
func TestSeededP3RandomHistoryAgainstMap(t *testing.T) {
	rnd := rand.New(rand.NewSource(42))

	for run := 0; run < 20; run++ {
		list := skiplist.New[int, int](ord.Int)
		model := map[int]int{}

		for step := 0; step < 5000; step++ {
			key := rnd.Intn(16)
			switch rnd.Intn(3) {
			case 0:
				val := 1 + rnd.Intn(1000)
				list.Put(key, val)
				model[key] = val
			case 1:
				if got, want := list.Get(key), model[key]; got != want {
					t.Fatalf("run %d step %d: Get(%d) = %d, the map has %d", run, step, key, got, want)
				}
			case 2:
				if got, want := list.Remove(key), model[key]; got != want {
					t.Fatalf("run %d step %d: Remove(%d) = %d, the map has %d", run, step, key, got, want)
				}
				delete(model, key)
			}
		}
	}
}
