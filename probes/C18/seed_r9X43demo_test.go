// probe: dir=internal/maplike/skiplist run=^(TestSeededP3RemoveOnFreshList)$ stage=internal
// Demonstration test of a seeded property-breaking change (see /verif/seeded/C18/meta.json), kept as a
// directed probe: it passes on the pinned tree and fails when that kind of change is made.
package skiplist_test

import (
	"fmt"
	"testing"

	"github.com/fogfish/golem/maplike/skiplist"
	"github.com/fogfish/golem/pure/ord"
)

func seededP3Try(f func() int) (v int, err error) {
	defer func() {
		if p := recover(); p != nil {
			err = fmt.Errorf("panic: %v", p)
		}
	}()
	return f(), nil
}

// A history may start with Remove (or Get): on a list that never saw a Put
// both answer the zero value, like an ordinary empty map.
func TestSeededP3RemoveOnFreshList(t *testing.T) {
	for i := 0; i < 20; i++ {
		list := skiplist.New[int, int](ord.Int)

		if v, err := seededP3Try(func() int { return list.Get(7) }); err != nil || v != 0 {
			t.Fatalf("Get(7) on fresh list = %v, %v; want 0", v, err)
		}
		if v, err := seededP3Try(func() int { return list.Remove(7) }); err != nil || v != 0 {
			t.Fatalf("Remove(7) on fresh list = %v, %v; want 0", v, err)
		}

		// and the list is fully usable afterwards
		list.Put(7, 70).Put(3, 30)
		if v, err := seededP3Try(func() int { return list.Remove(7) }); err != nil || v != 70 {
			t.Fatalf("Remove(7) = %v, %v; want 70", v, err)
		}
		if v := list.Get(3); v != 30 {
			t.Fatalf("Get(3) = %v; want 30", v)
		}
		if v := list.Get(7); v != 0 {
			t.Fatalf("Get(7) after remove = %v; want 0", v)
		}
	}
}
