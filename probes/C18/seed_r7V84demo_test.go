// probe: dir=internal/maplike/skiplist run=^(TestSeededP4GetRemoveGet|TestSeededP4GetRemoveGetReversed)$ stage=internal
// Demonstration test of a seeded property-breaking change (see /verif/seeded/C18/meta.json), kept as a
// directed probe: it passes on the pinned tree and fails when that kind of change is made.
package skiplist_test

import (
	"testing"

	"github.com/fogfish/golem/maplike/skiplist"
	"github.com/fogfish/golem/pure/ord"
)

// Get ; Remove ; Get of the same key: the key is absent afterwards.
func TestSeededP4GetRemoveGet(t *testing.T) {
	list := skiplist.New[int, int](ord.Int)
	for i := 1; i <= 5; i++ {
		list.Put(i, i*10)
	}

	if v := list.Get(3); v != 30 {
		t.Fatalf("Get(3) = %d, want 30", v)
	}
	if v := list.Remove(3); v != 30 {
		t.Fatalf("Remove(3) = %d, want 30", v)
	}
	if v := list.Get(3); v != 0 {
		t.Errorf("Get(3) = %d after Remove(3), want 0", v)
	}
	if v := list.Remove(3); v != 0 {
		t.Errorf("second Remove(3) = %d, want 0", v)
	}

	// re-insert: the new value is the visible one
	list.Put(3, 99)
	if v := list.Get(3); v != 99 {
		t.Errorf("Get(3) = %d after Remove(3), Put(3, 99), want 99", v)
	}
}

// same history with string keys in reversed order
func TestSeededP4GetRemoveGetReversed(t *testing.T) {
	rev := ord.From[string](func(a, b string) ord.Ordering { return ord.String.Compare(b, a) })
	list := skiplist.New[string, string](rev)
	for _, k := range []string{"a", "b", "c", "d"} {
		list.Put(k, "v"+k)
	}

	if v := list.Get("b"); v != "vb" {
		t.Fatalf("Get(b) = %q, want vb", v)
	}
	list.Remove("b")
	if v := list.Get("b"); v != "" {
		t.Errorf("Get(b) = %q after Remove(b), want zero value", v)
	}
}
