// probe: dir=internal/maplike/skiplist run=TestProbeC18Probability obligations=New stage=internal
package skiplist

import (
	"math"
	"testing"
)

// Validation by execution of the one trusted contract of C18 (bounded, never counted as proved):
// `probability` is called from one place only, New, with constant arguments; its contract
// (result >= 1 && len(result1) == result + 1) is about floating point logarithms and powers, which
// the verifier does not reason about. Here the real function is run on exactly those arguments and
// on a grid of others, and the contract is checked on the results, together with the facts mkNode's
// comment relies on (p[0] == 1, entries in (0, 1], non-increasing).
func TestProbeC18Probability(t *testing.T) {
	check := func(n int, p float64) {
		level, table := probability(n, p)
		if level < 1 || len(table) != level+1 {
			t.Errorf("probability(%d, %v) = %d, table of %d: contract result >= 1 && len(result1) == result + 1 broken", n, p, level, len(table))
			return
		}
		if table[0] != 1 {
			t.Errorf("probability(%d, %v): p[0] = %v, want 1", n, p, table[0])
		}
		for i := 1; i < level; i++ {
			if !(table[i] > 0 && table[i] <= 1 && table[i] <= table[i-1]) {
				t.Errorf("probability(%d, %v): p[%d] = %v after %v", n, p, i, table[i], table[i-1])
			}
		}
	}
	// the call site
	check(4294967296, 1/math.E)
	// the precondition region in which the contract can hold at all: n >= 1/p
	for _, n := range []int{16, 1000, 1 << 20, 4294967296, 1 << 40} {
		for _, p := range []float64{1 / math.E, 0.5, 0.25, 0.1} {
			check(n, p)
		}
	}
}
