// probe: dir=internal/maplike/skiplist run=^(TestDemoGetAfterRemoveOfPredecessorAndKey|TestDemoGetAfterReinsert|TestDemoReversedStringOrder|TestDemoRandomHistories)$ stage=internal
// Demonstration test of a seeded property-breaking change (see /verif/seeded/C18/meta.json), kept as a
// directed probe: it passes on the pinned tree and fails when that kind of change is made.
//
// DEMONSTRATION for seeded change C18 (patch.diff).
//
// Placement: package directory  internal/maplike/skiplist  of the library,
// which is outside every go module. Build it through a scratch module:
//
//   export GOFLAGS=-mod=mod GOPROXY=off
//   S=/tmp/wt-C18-scratch; mkdir -p $S; cd $S
//   cp -r /tmp/wt-C18/internal/seq seq; cp -r /tmp/wt-C18/internal/maplike maplike
//   cp -r /tmp/wt-C18/internal/pipe internalpipe; cp -r /tmp/wt-C18/pure pure
//   rm pure/go.mod pure/go.sum; cp /tmp/wt-C18/pure/go.sum go.sum
//   printf 'module github.com/fogfish/golem\n\ngo 1.20\n\nrequire (\n\tgithub.com/fogfish/it v1.0.0\n\tgithub.com/fogfish/it/v2 v2.0.1\n)\n' > go.mod
//   cp /tmp/wt-C18-out/skiplist_finger_demo_test.go maplike/skiplist/
//   go test -vet=off -count=1 -run 'TestDemo' ./maplike/skiplist/
//
// Expected: FAIL with patch.diff applied, PASS (ok) on the original code.
// The outcome does not depend on the random node heights.
//

package skiplist_test

import (
	"math/rand"
	"testing"

	"github.com/fogfish/golem/maplike/skiplist"
	"github.com/fogfish/golem/pure/ord"
)

// Minimal history: 6 operations over the key universe {1, 2}.
func TestDemoGetAfterRemoveOfPredecessorAndKey(t *testing.T) {
	list := skiplist.New[int, int](ord.Int)
	list.Put(1, 10)
	list.Put(2, 20)

	if v := list.Get(2); v != 20 {
		t.Fatalf("Get(2) = %v, want 20", v)
	}
	if v := list.Remove(1); v != 10 {
		t.Fatalf("Remove(1) = %v, want 10", v)
	}
	if v := list.Remove(2); v != 20 {
		t.Fatalf("Remove(2) = %v, want 20", v)
	}
	if v := list.Get(2); v != 0 {
		t.Fatalf("Get(2) after Remove(2) = %v, want 0 (key is absent)", v)
	}
}

// Same shape, the key is re-inserted: the old value is served instead of the new one.
func TestDemoGetAfterReinsert(t *testing.T) {
	list := skiplist.New[int, int](ord.Int)
	list.Put(1, 10)
	list.Put(2, 20)
	list.Put(3, 30)

	list.Get(2)
	list.Remove(1)
	list.Remove(2)
	list.Put(2, 21)

	if v := list.Get(2); v != 21 {
		t.Fatalf("Get(2) after Remove(2); Put(2, 21) = %v, want 21", v)
	}
}

// String keys under a reversed order.
func TestDemoReversedStringOrder(t *testing.T) {
	reversed := ord.From[string](func(a, b string) ord.Ordering {
		return ord.String.Compare(b, a)
	})

	list := skiplist.New[string, string](reversed)
	list.Put("a", "A")
	list.Put("b", "B") // "b" precedes "a" in the reversed order
	list.Put("c", "C")

	list.Get("a")    // visits "b", the predecessor of "a"
	list.Remove("b") // predecessor goes away first
	list.Remove("a")

	if v := list.Get("a"); v != "" {
		t.Fatalf("Get(a) after Remove(a) = %q, want \"\"", v)
	}
}

// Model based check: long random histories against the built-in map.
func TestDemoRandomHistories(t *testing.T) {
	for seed := int64(1); seed <= 20; seed++ {
		rnd := rand.New(rand.NewSource(seed))
		list := skiplist.New[int, int](ord.Int)
		model := map[int]int{}

		for step := 0; step < 2000; step++ {
			key := rnd.Intn(8) - 3
			switch rnd.Intn(3) {
			case 0:
				val := rnd.Intn(1000) + 1
				list.Put(key, val)
				model[key] = val
			case 1:
				if got, want := list.Get(key), model[key]; got != want {
					t.Fatalf("seed %d step %d: Get(%d) = %d, want %d", seed, step, key, got, want)
				}
			case 2:
				got, want := list.Remove(key), model[key]
				delete(model, key)
				if got != want {
					t.Fatalf("seed %d step %d: Remove(%d) = %d, want %d", seed, step, key, got, want)
				}
			}
		}
	}
}
