// probe: dir=internal/maplike/skiplist run=^(TestD1PutPutAfterRemoveTerminates)$ stage=internal
// Demonstration test of a seeded property-breaking change (see /verif/seeded/C18/meta.json), kept as a
// directed probe: it passes on the pinned tree and fails when that kind of change is made.
package skiplist_test

import (
	"testing"
	"time"

	"github.com/fogfish/golem/maplike/skiplist"
	"github.com/fogfish/golem/pure/ord"
)

// C18: Put, Put after a Remove must keep the list an ordered map; every walk
// over the list terminates, whatever the node heights are.
func TestD1PutPutAfterRemoveTerminates(t *testing.T) {
	list := skiplist.New[int, int](ord.Int)
	for k := 1; k <= 5; k++ {
		list.Put(k, k)
	}

	if v := list.Remove(3); v != 3 {
		t.Fatalf("Remove(3) = %d, want 3", v)
	}
	list.Put(10, 10)
	list.Put(20, 20)

	type answer struct{ k10, k20, k30, k3 int }
	done := make(chan answer, 1)
	go func() {
		// Get(30) has to walk past the largest key of the list
		a := answer{k30: list.Get(30)}
		a.k10, a.k20, a.k3 = list.Get(10), list.Get(20), list.Get(3)
		done <- a
	}()

	select {
	case a := <-done:
		if a != (answer{k10: 10, k20: 20, k30: 0, k3: 0}) {
			t.Fatalf("after Remove(3), Put(10), Put(20): Get(10), Get(20), Get(30), Get(3) = %d, %d, %d, %d; want 10, 20, 0, 0",
				a.k10, a.k20, a.k30, a.k3)
		}
	case <-time.After(time.Second):
		t.Fatalf("Get(30) does not return after Remove(3), Put(10), Put(20): the list has a cycle")
	}
}
