// probe: dir=internal/maplike/skiplist run=^(TestD7OverwriteThenRemove)$ stage=internal
// Demonstration test of a seeded property-breaking change (see /verif/seeded/C18/meta.json), kept as a
// directed probe: it passes on the pinned tree and fails when that kind of change is made.
package skiplist_test

import (
	"fmt"
	"strings"
	"testing"

	"github.com/fogfish/golem/maplike/skiplist"
	"github.com/fogfish/golem/pure/ord"
)

// C18: the skip list answers like an ordinary map, Put overwrites on equal keys.
func TestD7OverwriteThenRemove(t *testing.T) {
	rev := ord.From[int](func(a, b int) ord.Ordering { return ord.Int.Compare(b, a) })

	for _, name := range []string{"int", "reversed"} {
		cmp := map[string]ord.Ord[int]{"int": ord.Int, "reversed": rev}[name]

		// exhaustive histories of length 5 over Put/Remove x keys {1,2,3}, Get of every key after each step
		type op struct {
			put bool
			key int
		}
		ops := []op{}
		for k := 1; k <= 3; k++ {
			ops = append(ops, op{true, k}, op{false, k})
		}

		n := len(ops)
		total := n * n * n * n * n
		for h := 0; h < total; h++ {
			list := skiplist.New[int, int](cmp)
			model := map[int]int{}
			trace := []string{}

			for step, x := 0, h; step < 5; step, x = step+1, x/n {
				o := ops[x%n]
				if o.put {
					val := 100*(step+1) + o.key
					list.Put(o.key, val)
					model[o.key] = val
					trace = append(trace, fmt.Sprintf("Put(%d,%d)", o.key, val))
				} else {
					got, want := list.Remove(o.key), model[o.key]
					delete(model, o.key)
					trace = append(trace, fmt.Sprintf("Remove(%d)", o.key))
					if got != want {
						t.Fatalf("%s: %s returned %d, want %d", name, strings.Join(trace, " "), got, want)
					}
				}

				for k := 1; k <= 3; k++ {
					if got, want := list.Get(k), model[k]; got != want {
						t.Fatalf("%s: %s; Get(%d) = %d, want %d", name, strings.Join(trace, " "), k, got, want)
					}
				}
			}
		}
	}
}
