// probe: dir=internal/maplike/skiplist run=^(TestSeededP3RemoveDescending|TestSeededP3RandomHistory)$ stage=internal
// Demonstration test of a seeded property-breaking change (see /verif/seeded/C18/meta.json), kept as a
// directed probe: it passes on the pinned tree and fails when that kind of change is made.
package skiplist_test

import (
	"math/rand"
	"testing"

	"github.com/fogfish/golem/maplike/skiplist"
	"github.com/fogfish/golem/pure/ord"
)

// Removing keys from the back: a removed node of height > 1 is usually
// preceded by shorter nodes.
func TestSeededP3RemoveDescending(t *testing.T) {
	const n = 400
	list := skiplist.New[int, int](ord.Int)
	for i := 1; i <= n; i++ {
		list.Put(i, i*10)
	}

	for i := n; i >= 1; i-- {
		if v := list.Remove(i); v != i*10 {
			t.Fatalf("Remove(%d) = %d, want %d", i, v, i*10)
		}
		if v := list.Get(i); v != 0 {
			t.Fatalf("Get(%d) = %d after Remove, want 0", i, v)
		}
		if v := list.Remove(i); v != 0 {
			t.Fatalf("second Remove(%d) = %d, want 0", i, v)
		}
	}
}

// Random history against the builtin map.
func TestSeededP3RandomHistory(t *testing.T) {
	rnd := rand.New(rand.NewSource(3))
	for round := 0; round < 20; round++ {
		list := skiplist.New[int, int](ord.Int)
		model := map[int]int{}

		for step := 0; step < 3000; step++ {
			key := rnd.Intn(64)
			switch rnd.Intn(3) {
			case 0:
				list.Put(key, step+1)
				model[key] = step + 1
			case 1:
				if got, want := list.Remove(key), model[key]; got != want {
					t.Fatalf("round %d step %d: Remove(%d) = %d, want %d", round, step, key, got, want)
				}
				delete(model, key)
			default:
				if got, want := list.Get(key), model[key]; got != want {
					t.Fatalf("round %d step %d: Get(%d) = %d, want %d", round, step, key, got, want)
				}
			}
		}
	}
}
