// probe: dir=internal/maplike/skiplist run=TestProbeC18 stage=internal
package skiplist_test

import (
	"fmt"
	"math/rand"
	"strings"
	"testing"

	"github.com/fogfish/golem/maplike"
	"github.com/fogfish/golem/maplike/skiplist"
	"github.com/fogfish/golem/pure/ord"
)

// Directed probe for C18: operation histories on the real skip list against an ordinary map.
// Exhaustive over short histories on a 3-key universe, then long random histories (integer
// keys, reversed order, string keys); the printed form is parsed after every step.

type rev struct{}

func (rev) Compare(a, b int) ord.Ordering { return ord.Int.Compare(b, a) }

func printed[K any](t *testing.T, l maplike.MapLike[K, int]) [][]string {
	s := fmt.Sprint(l)
	var rows [][]string
	for _, ln := range strings.Split(s, "\n") {
		if !strings.HasPrefix(ln, "{") {
			continue
		}
		ln = strings.TrimSuffix(strings.TrimPrefix(ln, "{"), "}")
		k, f, _ := strings.Cut(ln, "\t| ")
		rows = append(rows, append([]string{k}, strings.Fields(f)...))
	}
	return rows
}

func checkPrinted[K comparable](t *testing.T, hist string, l maplike.MapLike[K, int], ref map[K]int, cmp ord.Ord[K], parse func(string) K) {
	rows := printed(t, l)
	if len(rows) == 0 {
		t.Fatalf("%s: printed form has no head row", hist)
	}
	// row 0 is the head sentinel
	keys := rows[1:]
	if len(keys) != len(ref) {
		t.Fatalf("%s: printed %d keys, map has %d", hist, len(keys), len(ref))
	}
	for i, r := range keys {
		k := parse(r[0])
		if _, ok := ref[k]; !ok {
			t.Fatalf("%s: printed key %v is not live", hist, k)
		}
		if i > 0 && cmp.Compare(parse(keys[i-1][0]), k) != ord.LT {
			t.Fatalf("%s: printed keys not strictly ascending at %v", hist, k)
		}
		for _, f := range r[1:] {
			if f != "nil" && cmp.Compare(k, parse(f)) != ord.LT {
				t.Fatalf("%s: forward pointer of %v to %v", hist, k, f)
			}
		}
	}
}

func step[K comparable](t *testing.T, hist string, l maplike.MapLike[K, int], ref map[K]int, op int, k K, v int) {
	switch op {
	case 0:
		l.Put(k, v)
		ref[k] = v
	case 1:
		got, want := l.Get(k), ref[k]
		if got != want {
			t.Fatalf("%s: Get(%v) = %v, want %v", hist, k, got, want)
		}
	case 2:
		got, want := l.Remove(k), ref[k]
		delete(ref, k)
		if got != want {
			t.Fatalf("%s: Remove(%v) = %v, want %v", hist, k, got, want)
		}
	}
}

func TestProbeC18Exhaustive(t *testing.T) {
	// all histories of length <= 6 over ops x keys {1,2,3}
	type opk struct{ op, k int }
	var alpha []opk
	for op := 0; op < 3; op++ {
		for k := 1; k <= 3; k++ {
			alpha = append(alpha, opk{op, k})
		}
	}
	var rec func(prefix []opk, depth int)
	rec = func(prefix []opk, depth int) {
		l := skiplist.New[int, int](ord.Int)
		ref := map[int]int{}
		hist := ""
		for i, o := range prefix {
			hist += fmt.Sprintf("%s(%d) ", [...]string{"Put", "Get", "Remove"}[o.op], o.k)
			step(t, hist, l, ref, o.op, o.k, 10*(i+1)+o.k)
		}
		for k := 1; k <= 3; k++ {
			step(t, hist+"final", l, ref, 1, k, 0)
		}
		checkPrinted(t, hist, l, ref, ord.Int, func(s string) int { var n int; fmt.Sscan(s, &n); return n })
		if depth == 0 {
			return
		}
		for _, o := range alpha {
			rec(append(append([]opk(nil), prefix...), o), depth-1)
		}
	}
	rec(nil, 5)
}

func TestProbeC18Random(t *testing.T) {
	for seed := int64(1); seed <= 30; seed++ {
		rnd := rand.New(rand.NewSource(seed))
		l := skiplist.New[int, int](ord.Int)
		r := skiplist.New[int, int](ord.Ord[int](rev{}))
		s := skiplist.New[string, int](ord.String)
		refl, refr, refs := map[int]int{}, map[int]int{}, map[string]int{}
		for i := 0; i < 600; i++ {
			op, k, v := rnd.Intn(3), rnd.Intn(24), rnd.Int()
			hist := fmt.Sprintf("seed %d step %d", seed, i)
			step(t, hist, l, refl, op, k, v)
			step(t, hist+" (reversed order)", r, refr, op, k, v)
			step(t, hist+" (string keys)", s, refs, op, fmt.Sprintf("k%02d", k), v)
			if i%50 == 0 {
				checkPrinted(t, hist, l, refl, ord.Int, func(s string) int { var n int; fmt.Sscan(s, &n); return n })
				checkPrinted(t, hist, r, refr, ord.Ord[int](rev{}), func(s string) int { var n int; fmt.Sscan(s, &n); return n })
				checkPrinted(t, hist, s, refs, ord.String, func(s string) string { return s })
			}
		}
	}
}
