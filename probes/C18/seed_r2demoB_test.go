// probe: dir=internal/maplike/skiplist run=^(TestDemoB_RemoveDescending|TestDemoB_RemoveMiddleThenPut)$ stage=internal
// Demonstration test of a seeded property-breaking change (see /verif/seeded/C18/meta.json), kept as a
// directed probe: it passes on the pinned tree and fails when that kind of change is made.
package skiplist_test

// Demo for C18 / patch B.
// Place into maplike/skiplist/ of the staged module (package skiplist_test).
// Passes on the clean tree, fails with patchB.diff applied.
//
// Node heights are seeded from the clock and cannot be controlled from the
// outside, therefore the same scripted history is replayed on many fresh lists.
// The defect needs a node of height >= 2 whose predecessor at its top level is
// not its immediate predecessor; with 64 keys per list and 64 lists the chance
// that no list contains such a node is far below 1e-100.

import (
	"testing"

	"github.com/fogfish/golem/maplike/skiplist"
	"github.com/fogfish/golem/pure/ord"
)

func TestDemoB_RemoveDescending(t *testing.T) {
	const keys, lists = 64, 64

	broken := 0
	for n := 0; n < lists; n++ {
		list := skiplist.New[int, int](ord.Int)
		model := map[int]int{}
		for k := 1; k <= keys; k++ {
			list.Put(k, 10*k)
			model[k] = 10 * k
		}

		ok := true
		for k := keys; k >= 1 && ok; k-- { // remove the last node, again and again
			if got := list.Remove(k); got != model[k] {
				t.Errorf("list %d: Remove(%d) = %d, want %d", n, k, got, model[k])
				ok = false
			}
			delete(model, k)

			for q := 1; q <= keys && ok; q++ {
				if got := list.Get(q); got != model[q] {
					t.Errorf("list %d: after Remove(%d): Get(%d) = %d, want %d\n%v", n, k, q, got, model[q], list)
					ok = false
				}
			}
		}
		if !ok {
			broken++
		}
	}

	if broken > 0 {
		t.Errorf("%d of %d lists disagree with the map model", broken, lists)
	}
}

func TestDemoB_RemoveMiddleThenPut(t *testing.T) {
	const keys, lists = 64, 64

	for n := 0; n < lists; n++ {
		list := skiplist.New[string, int](ord.String)
		model := map[string]int{}
		name := func(k int) string { return string([]byte{'a' + byte(k/8), 'a' + byte(k%8)}) }

		for k := 0; k < keys; k++ {
			list.Put(name(k), k+1)
			model[name(k)] = k + 1
		}
		// remove every odd key from the middle outwards, then put it back
		for d := 1; d < keys; d += 2 {
			k := (keys/2 + d*17) % keys
			list.Remove(name(k))
			delete(model, name(k))
			if got := list.Get(name(k)); got != 0 {
				t.Fatalf("list %d: Get(%q) = %d after Remove, want 0\n%v", n, name(k), got, list)
			}
		}
		for k := 0; k < keys; k++ {
			if got := list.Get(name(k)); got != model[name(k)] {
				t.Fatalf("list %d: Get(%q) = %d, want %d", n, name(k), got, model[name(k)])
			}
		}
	}
}
