// probe: dir=internal/seq run=TestProbeC19 stage=internal
package seq_test

import (
	"fmt"
	"math/rand"
	"testing"

	"github.com/fogfish/golem/pure/monoid"
	"github.com/fogfish/golem/seq"
	"github.com/fogfish/golem/seq/list"
	"github.com/fogfish/golem/seq/slice"
)

// Directed probe for C19: scripts of New/Cons/Tail/Head/Length/IsEmpty/Fold on both
// implementations against a reference model, keeping every intermediate version alive and
// re-reading all of them after each step (persistence), with a non-commutative monoid.
func elems[F any](t seq.Seq[F, string], s F) []string {
	var out []string
	for !t.IsEmpty(s) {
		out = append(out, t.Head(s))
		s = t.Tail(s)
	}
	return out
}

func runScript[F any](t *testing.T, name string, tr seq.Seq[F, string], rnd *rand.Rand, steps int) {
	cat := monoid.FromOp("<", func(a, b string) string { return "(" + a + b + ")" })
	fold := seq.Foldable[F, string]{Seq: tr}
	type ver struct {
		s     F
		model []string
	}
	init := []string{"a", "b", "c"}
	base := make([]string, len(init), 8) // spare capacity on purpose
	copy(base, init)
	vers := []ver{{tr.New(), nil}, {tr.New(base...), append([]string(nil), init...)}}
	check := func(step int) {
		for i, v := range vers {
			got := elems(tr, v.s)
			if fmt.Sprint(got) != fmt.Sprint(v.model) {
				t.Fatalf("%s step %d: version %d reads %v, expected %v", name, step, i, got, v.model)
			}
			if tr.Length(v.s) != len(v.model) || tr.IsEmpty(v.s) != (len(v.model) == 0) {
				t.Fatalf("%s step %d: version %d Length/IsEmpty wrong", name, step, i)
			}
			want := "<"
			for _, e := range v.model {
				want = "(" + want + e + ")"
			}
			if f := fold.Fold(cat, v.s); f != want {
				t.Fatalf("%s step %d: Fold(version %d) = %s, want %s", name, step, i, f, want)
			}
		}
	}
	check(0)
	for i := 1; i <= steps; i++ {
		v := vers[rnd.Intn(len(vers))]
		if rnd.Intn(3) > 0 || len(v.model) == 0 {
			x := fmt.Sprintf("x%d", i)
			ns := tr.Cons(x, v.s)
			if tr.Head(ns) != x {
				t.Fatalf("%s step %d: Head(Cons(x, s)) != x", name, i)
			}
			vers = append(vers, ver{ns, append([]string{x}, v.model...)})
		} else {
			vers = append(vers, ver{tr.Tail(v.s), append([]string(nil), v.model[1:]...)})
		}
		check(i)
	}
}

func TestProbeC19(t *testing.T) {
	for seed := int64(1); seed <= 20; seed++ {
		runScript[list.Seq[string]](t, "list", list.Trait[string]("l"), rand.New(rand.NewSource(seed)), 40)
		runScript[slice.Seq[string]](t, "slice", slice.Trait[string]("s"), rand.New(rand.NewSource(seed)), 40)
	}
	// long Cons chain then tail down to the end (allocator size classes)
	tr := slice.Trait[string]("s")
	s := tr.New()
	var model []string
	for i := 0; i < 70; i++ {
		x := fmt.Sprintf("e%d", i)
		s = tr.Cons(x, s)
		model = append([]string{x}, model...)
		cur := s
		for j := 0; j < len(model); j++ {
			if tr.Head(cur) != model[j] {
				t.Fatalf("slice: after %d Cons, element %d is %s want %s", i+1, j, tr.Head(cur), model[j])
			}
			cur = tr.Tail(cur)
		}
		if fmt.Sprint(elems[slice.Seq[string]](tr, s)) != fmt.Sprint(model) {
			t.Fatalf("slice: sequence changed after being traversed with Tail (length %d)", len(model))
		}
	}
}
