// probe: dir=internal/seq/slice run=^(TestSeededP5ConsIsPersistent|TestSeededP5ConsOnExtendedNew)$ stage=internal
// Demonstration test of a seeded property-breaking change (see /verif/seeded/C19/meta.json), kept as a
// directed probe: it passes on the pinned tree and fails when that kind of change is made.
package slice_test

import (
	"reflect"
	"testing"

	"github.com/fogfish/golem/seq/slice"
)

func elementsP5(s slice.Seq[int]) []int {
	tr := slice.Trait[int]("seq.slice.int")
	r := []int{}
	for !tr.IsEmpty(s) {
		r = append(r, tr.Head(s))
		s = tr.Tail(s)
	}
	return r
}

// Cons never changes the sequence it was given, nor any sequence built from it earlier.
func TestSeededP5ConsIsPersistent(t *testing.T) {
	tr := slice.Trait[int]("seq.slice.int")

	for n := 0; n <= 9; n++ {
		base := tr.New()
		want := []int{}
		for i := 1; i <= n; i++ {
			base = tr.Cons(i, base)
			want = append([]int{i}, want...)
		}

		a := tr.Cons(100, base)
		b := tr.Cons(200, base)

		if got := elementsP5(base); !reflect.DeepEqual(got, want) {
			t.Errorf("n=%d: base changed to %v, want %v", n, got, want)
		}
		if got, exp := elementsP5(a), append([]int{100}, want...); !reflect.DeepEqual(got, exp) {
			t.Errorf("n=%d: Cons(100, base) = %v after another Cons on base, want %v", n, got, exp)
		}
		if got, exp := elementsP5(b), append([]int{200}, want...); !reflect.DeepEqual(got, exp) {
			t.Errorf("n=%d: Cons(200, base) = %v, want %v", n, got, exp)
		}
		if tr.Head(a) != 100 || tr.Length(a) != n+1 || tr.Length(b) != n+1 {
			t.Errorf("n=%d: head/length of Cons wrong: %d %d %d", n, tr.Head(a), tr.Length(a), tr.Length(b))
		}
	}
}

// Same on a sequence made by New and extended once.
func TestSeededP5ConsOnExtendedNew(t *testing.T) {
	tr := slice.Trait[int]("seq.slice.int")

	s := tr.Cons(0, tr.New(1, 2, 3))
	x := tr.Cons(-1, s)
	y := tr.Cons(-2, tr.Tail(tr.Cons(7, s)))

	if got, want := elementsP5(x), []int{-1, 0, 1, 2, 3}; !reflect.DeepEqual(got, want) {
		t.Errorf("x = %v, want %v", got, want)
	}
	if got, want := elementsP5(y), []int{-2, 0, 1, 2, 3}; !reflect.DeepEqual(got, want) {
		t.Errorf("y = %v, want %v", got, want)
	}
	if got, want := elementsP5(s), []int{0, 1, 2, 3}; !reflect.DeepEqual(got, want) {
		t.Errorf("s = %v, want %v", got, want)
	}
}
