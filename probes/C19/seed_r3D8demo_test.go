// probe: dir=internal/seq run=^(TestD8FoldLeftToRight)$ stage=internal
// Demonstration test of a seeded property-breaking change (see /verif/seeded/C19/meta.json), kept as a
// directed probe: it passes on the pinned tree and fails when that kind of change is made.
package seq_test

import (
	"testing"

	"github.com/fogfish/golem/pure/monoid"
	"github.com/fogfish/golem/seq"
	"github.com/fogfish/golem/seq/list"
	"github.com/fogfish/golem/seq/slice"
)

// C19: Fold combines the elements left to right starting from the monoid's empty element.
func TestD8FoldLeftToRight(t *testing.T) {
	concat := monoid.FromOp("", func(a, b string) string { return a + b })

	listT := list.Trait[string]("seq.list.string")
	sliceT := slice.Trait[string]("seq.slice.string")
	foldL := seq.Foldable[list.Seq[string], string]{Seq: listT}
	foldS := seq.Foldable[slice.Seq[string], string]{Seq: sliceT}

	for _, tc := range []struct {
		in   []string
		want string
	}{
		{[]string{}, ""},
		{[]string{"a"}, "a"},
		{[]string{"a", "b"}, "ab"},
		{[]string{"a", "b", "c", "d"}, "abcd"},
	} {
		if got := foldL.Fold(concat, listT.New(tc.in...)); got != tc.want {
			t.Errorf("list: Fold(concat, %v) = %q, want %q", tc.in, got, tc.want)
		}
		if got := foldS.Fold(concat, sliceT.New(tc.in...)); got != tc.want {
			t.Errorf("slice: Fold(concat, %v) = %q, want %q", tc.in, got, tc.want)
		}
	}

	// Cons puts the element in front
	if got := foldL.Fold(concat, listT.Cons("x", listT.New("y", "z"))); got != "xyz" {
		t.Errorf("list: Fold(concat, Cons(x, [y z])) = %q, want xyz", got)
	}
}
