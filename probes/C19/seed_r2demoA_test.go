// probe: dir=internal/seq run=^(TestDemoA_TailIsPersistent)$ stage=internal
// Demonstration test of a seeded property-breaking change (see /verif/seeded/C19/meta.json), kept as a
// directed probe: it passes on the pinned tree and fails when that kind of change is made.
package seq_test

// Demo for C19 / patch A.
// Place into seq/ of the staged module (package seq_test).
// Passes on the clean tree, fails with patchA.diff applied.

import (
	"fmt"
	"testing"

	"github.com/fogfish/golem/pure/monoid"
	"github.com/fogfish/golem/seq"
	"github.com/fogfish/golem/seq/list"
	"github.com/fogfish/golem/seq/slice"
)

// runs one script on an implementation and reports what it observed
func demoAScript[F_ any](seqT seq.Seq[F_, string]) []string {
	log := []string{}
	see := func(format string, args ...any) { log = append(log, fmt.Sprintf(format, args...)) }

	concat := monoid.FromOp("", func(a, b string) string { return a + b })
	fold := seq.Foldable[F_, string]{Seq: seqT}

	s := seqT.New("a", "b", "c")
	t := seqT.Tail(s)
	see("head(tail s)=%s len(tail s)=%d", seqT.Head(t), seqT.Length(t))
	see("head(s)=%s len(s)=%d", seqT.Head(s), seqT.Length(s)) // s must be untouched by Tail

	u := seqT.Cons("x", s)
	see("fold(cons x s)=%s", fold.Fold(concat, u))
	see("fold(cons x s)=%s (again)", fold.Fold(concat, u)) // folding is an observation, not a mutation
	see("fold(s)=%s", fold.Fold(concat, s))
	see("head(tail(tail u))=%s", seqT.Head(seqT.Tail(seqT.Tail(u))))
	see("isEmpty(tail(tail(tail s)))=%v", seqT.IsEmpty(seqT.Tail(seqT.Tail(seqT.Tail(s)))))

	return log
}

func TestDemoA_TailIsPersistent(t *testing.T) {
	want := []string{
		"head(tail s)=b len(tail s)=2",
		"head(s)=a len(s)=3",
		"fold(cons x s)=xabc",
		"fold(cons x s)=xabc (again)",
		"fold(s)=abc",
		"head(tail(tail u))=b",
		"isEmpty(tail(tail(tail s)))=true",
	}

	onList := demoAScript[list.Seq[string]](list.Trait[string]("seq.list.string"))
	onSlice := demoAScript[slice.Seq[string]](slice.Trait[string]("seq.slice.string"))

	for i := range want {
		if onList[i] != want[i] {
			t.Errorf("list : %q, want %q", onList[i], want[i])
		}
		if onSlice[i] != want[i] {
			t.Errorf("slice: %q, want %q", onSlice[i], want[i])
		}
	}
}
