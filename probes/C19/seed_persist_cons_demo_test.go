// probe: dir=internal/seq run=^(TestPersistConsChain|TestPersistConsFork)$ stage=internal
// Demonstration test of a seeded property-breaking change (see /verif/seeded/C19/meta.json), kept as a
// directed probe: it passes on the pinned tree and fails when that kind of change is made.
// DEMONSTRATION for patch.diff (seeded change C19 #1: in-place slice Cons).
//
// Placement: copy this file to  internal/seq/persist_cons_demo_test.go
// (package seq_test, next to internal/seq/types.go).  internal/seq is outside
// every go module, so run it from a scratch module whose path is
// github.com/fogfish/golem:
//
//	export GOFLAGS=-mod=mod GOPROXY=off
//	S=/tmp/wt-C19-scratch; W=/tmp/wt-C19; rm -rf $S; mkdir -p $S; cd $S
//	cp -r $W/internal/seq seq; cp -r $W/pure pure; rm pure/go.mod pure/go.sum
//	printf 'module github.com/fogfish/golem\n\ngo 1.20\n\nrequire (\n\tgithub.com/fogfish/it v1.0.0\n\tgithub.com/fogfish/it/v2 v2.0.1\n)\n' > go.mod
//	cp $W/pure/go.sum go.sum
//	cp /tmp/wt-C19-out/persist_cons_demo_test.go seq/
//	go test -count=1 -run 'TestPersistCons' ./seq/
//
// Expected: PASS on the original code, FAIL with patch.diff applied.
package seq_test

import (
	"reflect"
	"testing"

	"github.com/fogfish/golem/pure/monoid"
	"github.com/fogfish/golem/seq"
	"github.com/fogfish/golem/seq/list"
	"github.com/fogfish/golem/seq/slice"
)

// non-commutative monoid: string concatenation
var concat = monoid.FromOp("", func(a, b string) string { return a + b })

// elements reads the sequence through the trait only (Head/Tail/IsEmpty).
func elements[F_ any](t seq.Seq[F_, string], s F_) []string {
	out := []string{}
	for !t.IsEmpty(s) {
		out = append(out, t.Head(s))
		s = t.Tail(s)
	}
	return out
}

// consChain: build a sequence with repeated Cons from empty and keep every
// intermediate version; afterwards every version must still read as built.
func consChain[F_ any](t seq.Seq[F_, string]) [][]string {
	f := seq.Foldable[F_, string]{Seq: t}
	vers := []F_{t.New()}
	for _, x := range []string{"a", "b", "c", "d", "e", "f", "g"} {
		vers = append(vers, t.Cons(x, vers[len(vers)-1]))
	}
	obs := [][]string{}
	for _, v := range vers {
		obs = append(obs, append(elements(t, v), "fold="+f.Fold(concat, v)))
	}
	return obs
}

// forked: two different Cons onto the same tail (a persistent "fork").
func forked[F_ any](t seq.Seq[F_, string]) [][]string {
	base := t.Cons("z", t.New("1", "2", "3")) // z 1 2 3
	tail := t.Tail(base)                      // 1 2 3
	left := t.Cons("L", tail)                 // L 1 2 3
	right := t.Cons("R", tail)                // R 1 2 3
	return [][]string{
		elements(t, base), elements(t, tail), elements(t, left), elements(t, right),
	}
}

func TestPersistConsChain(t *testing.T) {
	want := [][]string{
		{"fold="},
		{"a", "fold=a"},
		{"b", "a", "fold=ba"},
		{"c", "b", "a", "fold=cba"},
		{"d", "c", "b", "a", "fold=dcba"},
		{"e", "d", "c", "b", "a", "fold=edcba"},
		{"f", "e", "d", "c", "b", "a", "fold=fedcba"},
		{"g", "f", "e", "d", "c", "b", "a", "fold=gfedcba"},
	}
	l := consChain[list.Seq[string]](list.Trait[string]("l"))
	s := consChain[slice.Seq[string]](slice.Trait[string]("s"))
	if !reflect.DeepEqual(l, want) {
		t.Errorf("list : older versions changed by later Cons:\n got %v\nwant %v", l, want)
	}
	if !reflect.DeepEqual(s, want) {
		t.Errorf("slice: older versions changed by later Cons:\n got %v\nwant %v", s, want)
	}
}

func TestPersistConsFork(t *testing.T) {
	want := [][]string{
		{"z", "1", "2", "3"}, {"1", "2", "3"}, {"L", "1", "2", "3"}, {"R", "1", "2", "3"},
	}
	l := forked[list.Seq[string]](list.Trait[string]("l"))
	s := forked[slice.Seq[string]](slice.Trait[string]("s"))
	if !reflect.DeepEqual(l, want) {
		t.Errorf("list : fork disagrees:\n got %v\nwant %v", l, want)
	}
	if !reflect.DeepEqual(s, want) {
		t.Errorf("slice: fork disagrees:\n got %v\nwant %v", s, want)
	}
}
