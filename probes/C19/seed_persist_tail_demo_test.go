// probe: dir=internal/seq run=^(TestPersistTailAfterCons|TestPersistTailAfterNew)$ stage=internal
// Demonstration test of a seeded property-breaking change (see /verif/seeded/C19/meta.json), kept as a
// directed probe: it passes on the pinned tree and fails when that kind of change is made.
// DEMONSTRATION for patch2.diff (seeded change C19 #2: slice Tail compacts in place).
//
// Placement: copy this file to  internal/seq/persist_tail_demo_test.go
// (package seq_test, next to internal/seq/types.go).  internal/seq is outside
// every go module, so run it from a scratch module whose path is
// github.com/fogfish/golem:
//
//	export GOFLAGS=-mod=mod GOPROXY=off
//	S=/tmp/wt-C19-scratch; W=/tmp/wt-C19; rm -rf $S; mkdir -p $S; cd $S
//	cp -r $W/internal/seq seq; cp -r $W/pure pure; rm pure/go.mod pure/go.sum
//	printf 'module github.com/fogfish/golem\n\ngo 1.20\n\nrequire (\n\tgithub.com/fogfish/it v1.0.0\n\tgithub.com/fogfish/it/v2 v2.0.1\n)\n' > go.mod
//	cp $W/pure/go.sum go.sum
//	cp /tmp/wt-C19-out/persist_tail_demo_test.go seq/
//	go test -count=1 -run 'TestPersistTail' ./seq/
//
// Expected: PASS on the original code, FAIL with patch2.diff applied.
package seq_test

import (
	"fmt"
	"reflect"
	"testing"

	"github.com/fogfish/golem/pure/monoid"
	"github.com/fogfish/golem/seq"
	"github.com/fogfish/golem/seq/list"
	"github.com/fogfish/golem/seq/slice"
)

// non-commutative monoid: string concatenation
var join = monoid.FromOp("", func(a, b string) string { return a + b })

func walk[F_ any](t seq.Seq[F_, string], s F_) []string {
	out := []string{}
	for !t.IsEmpty(s) {
		out = append(out, t.Head(s))
		s = t.Tail(s)
	}
	return out
}

// script uses trait operations only: a sequence of n elements is built with
// Cons, then it is folded twice and walked; Tail (used by Fold and walk) must
// leave the sequence it was given untouched, so all reads agree.
func script[F_ any](t seq.Seq[F_, string], n int) []string {
	f := seq.Foldable[F_, string]{Seq: t}
	s := t.New()
	for i := n; i > 0; i-- {
		s = t.Cons(fmt.Sprintf("%d,", i), s)
	}
	return append([]string{
		fmt.Sprint(t.Length(s)), f.Fold(join, s), f.Fold(join, s),
	}, walk(t, s)...)
}

func TestPersistTailAfterCons(t *testing.T) {
	// Only some lengths are affected: those where the slice grown by Cons
	// got at least three spare slots from the allocator's size classes
	// (observed with go1.23.5 linux/amd64 for string elements: n = 36, 40, 44,
	// 48..52, 56..60, ...; every n below 36 is unaffected).
	for n := 0; n <= 128; n++ {
		l := script[list.Seq[string]](list.Trait[string]("l"), n)
		s := script[slice.Seq[string]](slice.Trait[string]("s"), n)
		if l[1] != l[2] {
			t.Errorf("n=%d list : folding twice disagrees\n 1st %s\n 2nd %s", n, l[1], l[2])
		}
		if s[1] != s[2] {
			t.Errorf("n=%d slice: folding twice disagrees\n 1st %s\n 2nd %s", n, s[1], s[2])
		}
		if !reflect.DeepEqual(l, s) {
			t.Errorf("n=%d list and slice disagree", n)
		}
	}
}

func TestPersistTailAfterNew(t *testing.T) {
	// the usual way to collect arguments in Go: append leaves spare capacity
	// (five appends give len 5, cap 8)
	var xs []string
	for _, x := range []string{"a", "b", "c", "d", "e"} {
		xs = append(xs, x)
	}

	lT := list.Trait[string]("l")
	sT := slice.Trait[string]("s")
	lS := lT.New(xs...)
	sS := sT.New(xs...)

	// drop four elements one by one, the given sequence must keep all five
	if got := lT.Head(lT.Tail(lT.Tail(lT.Tail(lT.Tail(lS))))); got != "e" {
		t.Errorf("list : 5th element is %q", got)
	}
	if got := sT.Head(sT.Tail(sT.Tail(sT.Tail(sT.Tail(sS))))); got != "e" {
		t.Errorf("slice: 5th element is %q", got)
	}

	want := []string{"a", "b", "c", "d", "e"}
	if got := walk[list.Seq[string]](lT, lS); !reflect.DeepEqual(got, want) {
		t.Errorf("list : Tail changed its argument: got %v want %v", got, want)
	}
	if got := walk[slice.Seq[string]](sT, sS); !reflect.DeepEqual(got, want) {
		t.Errorf("slice: Tail changed its argument: got %v want %v", got, want)
	}
}
