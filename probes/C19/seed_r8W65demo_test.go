// probe: dir=internal/seq/list run=^(TestSeededP5FoldFreeMonoid|TestSeededP5FoldStartsFromEmpty)$ stage=internal
// Demonstration test of a seeded property-breaking change (see /verif/seeded/C19/meta.json), kept as a
// directed probe: it passes on the pinned tree and fails when that kind of change is made.
package list_test

import (
	"fmt"
	"testing"

	"github.com/fogfish/golem/pure/monoid"
	"github.com/fogfish/golem/seq"
	"github.com/fogfish/golem/seq/list"
)

// Fold with the free monoid (concatenation of slices) is the element list
// of the sequence, left to right.
func TestSeededP5FoldFreeMonoid(t *testing.T) {
	seqT := list.Trait[[]int]("seq.list.ints")
	f := seq.Foldable[list.Seq[[]int], []int]{Seq: seqT}

	free := monoid.FromOp([]int(nil), func(a, b []int) []int {
		return append(append([]int{}, a...), b...)
	})

	s := seqT.Cons([]int{0}, seqT.New([]int{1}, []int{2, 3}, []int{}, []int{4}))

	got := fmt.Sprint(f.Fold(free, s))
	if got != "[0 1 2 3 4]" {
		t.Errorf("Fold = %s, expected [0 1 2 3 4]", got)
	}
}

// Fold starts from the empty element and combines left to right:
// ((((e . x1) . x2) . x3) ... ), checked with a positional polynomial.
func TestSeededP5FoldStartsFromEmpty(t *testing.T) {
	seqT := list.Trait[int]("seq.list.int")
	f := seq.Foldable[list.Seq[int], int]{Seq: seqT}

	horner := monoid.FromOp(7, func(a, b int) int { return 31*a + b })

	for _, xs := range [][]int{{}, {1}, {7, 2}, {1, 7, 3}, {3, 1, 4, 1, 5}} {
		want := horner.Empty()
		for _, x := range xs {
			want = 31*want + x
		}
		if got := f.Fold(horner, seqT.New(xs...)); got != want {
			t.Errorf("Fold(%v) = %d, expected %d", xs, got, want)
		}
	}
}
