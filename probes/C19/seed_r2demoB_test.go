// probe: dir=internal/seq run=^(TestDemoB_ConsIsPersistent)$ stage=internal
// Demonstration test of a seeded property-breaking change (see /verif/seeded/C19/meta.json), kept as a
// directed probe: it passes on the pinned tree and fails when that kind of change is made.
package seq_test

// Demo for C19 / patch B.
// Place into seq/ of the staged module (package seq_test).
// Passes on the clean tree, fails with patchB.diff applied.

import (
	"fmt"
	"testing"

	"github.com/fogfish/golem/pure/monoid"
	"github.com/fogfish/golem/seq"
	"github.com/fogfish/golem/seq/list"
	"github.com/fogfish/golem/seq/slice"
)

func demoBScript[F_ any](seqT seq.Seq[F_, string]) []string {
	log := []string{}
	concat := monoid.FromOp("", func(a, b string) string { return a + b })
	fold := seq.Foldable[F_, string]{Seq: seqT}
	see := func(name string, s F_) {
		head := "-"
		if !seqT.IsEmpty(s) {
			head = seqT.Head(s)
		}
		log = append(log, fmt.Sprintf("%s: len=%d head=%s fold=%s", name, seqT.Length(s), head, fold.Fold(concat, s)))
	}

	s0 := seqT.New("a")
	s1 := seqT.Cons("b", s0) // b a
	s2 := seqT.Cons("c", s1) // c b a
	see("s1 after s2 := cons(c, s1)", s1)
	s3 := seqT.Cons("d", s1) // d b a  - second branch from the same s1
	see("s2 after s3 := cons(d, s1)", s2)
	see("s3", s3)

	t2 := seqT.Tail(s2)      // b a
	s4 := seqT.Cons("e", t2) // e b a
	see("s2 after cons(e, tail s2)", s2)
	see("t2 after cons(e, tail s2)", t2)
	see("s4", s4)
	see("s0", s0)

	return log
}

func TestDemoB_ConsIsPersistent(t *testing.T) {
	want := []string{
		"s1 after s2 := cons(c, s1): len=2 head=b fold=ba",
		"s2 after s3 := cons(d, s1): len=3 head=c fold=cba",
		"s3: len=3 head=d fold=dba",
		"s2 after cons(e, tail s2): len=3 head=c fold=cba",
		"t2 after cons(e, tail s2): len=2 head=b fold=ba",
		"s4: len=3 head=e fold=eba",
		"s0: len=1 head=a fold=a",
	}

	onList := demoBScript[list.Seq[string]](list.Trait[string]("seq.list.string"))
	onSlice := demoBScript[slice.Seq[string]](slice.Trait[string]("seq.slice.string"))

	for i := range want {
		if onList[i] != want[i] {
			t.Errorf("list : %q, want %q", onList[i], want[i])
		}
		if onSlice[i] != want[i] {
			t.Errorf("slice: %q, want %q", onSlice[i], want[i])
		}
	}
}
