// probe: dir=internal/seq run=^(TestSeededP9NewKeepsElementOrder)$ stage=internal
// Demonstration test of a seeded property-breaking change (see /verif/seeded/C19/meta.json), kept as a
// directed probe: it passes on the pinned tree and fails when that kind of change is made.
package seq_test

import (
	"reflect"
	"testing"

	"github.com/fogfish/golem/pure/monoid"
	"github.com/fogfish/golem/seq"
	"github.com/fogfish/golem/seq/list"
	"github.com/fogfish/golem/seq/slice"
)

func seededP9Elements[F_ any](t seq.Seq[F_, int], s F_) []int {
	r := make([]int, 0)
	for !t.IsEmpty(s) {
		r = append(r, t.Head(s))
		s = t.Tail(s)
	}
	return r
}

// C19: New(xs...) is the sequence xs: the same script gives the same element
// list on the linked-list and on the slice implementation.
func TestSeededP9NewKeepsElementOrder(t *testing.T) {
	listT := list.Trait[int]("seq.list.int")
	sliceT := slice.Trait[int]("seq.slice.int")

	for _, xs := range [][]int{{}, {7}, {1, 2}, {1, 2, 3, 4, 5}, {3, 1, 3}} {
		want := append([]int{}, xs...)

		if got := seededP9Elements[slice.Seq[int]](sliceT, sliceT.New(xs...)); !reflect.DeepEqual(got, want) {
			t.Errorf("slice.New(%v) has elements %v", xs, got)
		}
		if got := seededP9Elements[list.Seq[int]](listT, listT.New(xs...)); !reflect.DeepEqual(got, want) {
			t.Errorf("list.New(%v) has elements %v", xs, got)
		}
		if len(xs) > 0 {
			if h := listT.Head(listT.New(xs...)); h != xs[0] {
				t.Errorf("Head(list.New(%v)) = %d", xs, h)
			}
		}
	}

	// Fold is a left fold: digits 1, 2, 3 give 123
	digits := monoid.FromOp(0, func(a, b int) int { return a*10 + b })
	f := seq.Foldable[list.Seq[int], int]{Seq: listT}
	if x := f.Fold(digits, listT.New(1, 2, 3)); x != 123 {
		t.Errorf("Fold over list.New(1, 2, 3) = %d, expected 123", x)
	}
}
