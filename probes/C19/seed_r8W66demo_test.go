// probe: dir=internal/seq/slice run=^(TestSeededP6ConsBranches|TestSeededP6ConsBranchesAfterTail)$ stage=internal
// Demonstration test of a seeded property-breaking change (see /verif/seeded/C19/meta.json), kept as a
// directed probe: it passes on the pinned tree and fails when that kind of change is made.
package slice_test

import (
	"fmt"
	"testing"

	"github.com/fogfish/golem/seq/slice"
)

func seededP6Elements(seqT slice.Trait[int], s slice.Seq[int]) string {
	xs := []int{}
	for !seqT.IsEmpty(s) {
		xs = append(xs, seqT.Head(s))
		s = seqT.Tail(s)
	}
	return fmt.Sprint(xs)
}

// Two sequences are built with Cons from the same sequence: none of the
// three is changed by the construction of the others.
func TestSeededP6ConsBranches(t *testing.T) {
	seqT := slice.Trait[int]("seq.slice.int")

	base := seqT.New()
	for n := 0; n < 40; n++ {
		if n > 0 {
			base = seqT.Cons(n, base)
		}
		was := seededP6Elements(seqT, base)

		a := seqT.Cons(1000, base)
		wasA := seededP6Elements(seqT, a)
		b := seqT.Cons(2000, base)

		if got := seqT.Head(a); got != 1000 {
			t.Errorf("length %d: Head(Cons(1000, s)) = %d after another Cons(2000, s)", n, got)
		}
		if got := seededP6Elements(seqT, a); got != wasA {
			t.Errorf("length %d: Cons(1000, s) was %s, became %s after Cons(2000, s)", n, wasA, got)
		}
		if got := seqT.Head(b); got != 2000 {
			t.Errorf("length %d: Head(Cons(2000, s)) = %d", n, got)
		}
		if got := seededP6Elements(seqT, base); got != was {
			t.Errorf("length %d: s was %s, became %s", n, was, got)
		}
	}
}

// The same on sequences that went through New, Cons and Tail.
func TestSeededP6ConsBranchesAfterTail(t *testing.T) {
	seqT := slice.Trait[int]("seq.slice.int")

	for n := 1; n < 20; n++ {
		xs := make([]int, n)
		for i := range xs {
			xs[i] = i + 1
		}
		s := seqT.Cons(-2, seqT.Cons(-1, seqT.Tail(seqT.New(xs...))))
		was := seededP6Elements(seqT, s)

		a := seqT.Cons(1000, s)
		b := seqT.Cons(2000, s)
		c := seqT.Cons(3000, seqT.Tail(a))

		if got := seqT.Head(a); got != 1000 {
			t.Errorf("length %d: Head(Cons(1000, s)) = %d after Cons(2000, s)", n, got)
		}
		if got := seqT.Head(b); got != 2000 {
			t.Errorf("length %d: Head(Cons(2000, s)) = %d", n, got)
		}
		if got := seqT.Head(c); got != 3000 {
			t.Errorf("length %d: Head(Cons(3000, Tail(Cons(1000, s)))) = %d", n, got)
		}
		if got := seededP6Elements(seqT, s); got != was {
			t.Errorf("length %d: s was %s, became %s", n, was, got)
		}
	}
}
