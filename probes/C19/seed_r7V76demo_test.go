// probe: dir=internal/seq/list run=^(TestSeededP6NewKeepsElements|TestSeededP6FoldAgreesWithSlice)$ stage=internal
// Demonstration test of a seeded property-breaking change (see /verif/seeded/C19/meta.json), kept as a
// directed probe: it passes on the pinned tree and fails when that kind of change is made.
package list_test

import (
	"reflect"
	"strconv"
	"testing"

	"github.com/fogfish/golem/pure/monoid"
	"github.com/fogfish/golem/seq"
	"github.com/fogfish/golem/seq/list"
	"github.com/fogfish/golem/seq/slice"
)

func elementsP6(s list.Seq[int]) []int {
	tr := list.Trait[int]("seq.list.int")
	r := []int{}
	for !tr.IsEmpty(s) {
		r = append(r, tr.Head(s))
		s = tr.Tail(s)
	}
	return r
}

// New(xs...) holds exactly xs, in order, for short and for long inputs.
func TestSeededP6NewKeepsElements(t *testing.T) {
	tr := list.Trait[int]("seq.list.int")

	for _, n := range []int{0, 1, 2, 31, 63, 64, 65, 66, 100, 128, 129, 200, 1000} {
		xs := make([]int, n)
		for i := range xs {
			xs[i] = i + 1
		}

		s := tr.New(xs...)
		if tr.Length(s) != n {
			t.Errorf("n=%d: Length = %d", n, tr.Length(s))
		}
		if got := elementsP6(s); !reflect.DeepEqual(got, xs) {
			k := len(got)
			if k > 4 {
				k = 4
			}
			t.Errorf("n=%d: elements differ from input (first %v ...)", n, got[:k])
		}

		// Tail(Cons(x, s)) has the elements of s
		if got := elementsP6(tr.Tail(tr.Cons(-1, s))); !reflect.DeepEqual(got, xs) {
			t.Errorf("n=%d: Tail(Cons(x, s)) differs from s", n)
		}
	}
}

// Fold with a non-commutative monoid agrees between list and slice.
func TestSeededP6FoldAgreesWithSlice(t *testing.T) {
	lt := list.Trait[string]("seq.list.string")
	st := slice.Trait[string]("seq.slice.string")
	m := monoid.FromOp("", func(a, b string) string { return a + b })

	for _, n := range []int{3, 64, 65, 150} {
		xs := make([]string, n)
		want := ""
		for i := range xs {
			xs[i] = strconv.Itoa(i) + ","
			want += xs[i]
		}

		a := seq.Foldable[list.Seq[string], string]{Seq: lt}.Fold(m, lt.New(xs...))
		b := seq.Foldable[slice.Seq[string], string]{Seq: st}.Fold(m, st.New(xs...))
		if a != want || b != want {
			t.Errorf("n=%d: list fold == want: %v, slice fold == want: %v", n, a == want, b == want)
		}
	}
}
