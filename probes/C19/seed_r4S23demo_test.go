// probe: dir=internal/seq run=^(TestD3FoldEveryLength)$ stage=internal
// Demonstration test of a seeded property-breaking change (see /verif/seeded/C19/meta.json), kept as a
// directed probe: it passes on the pinned tree and fails when that kind of change is made.
package seq_test

import (
	"fmt"
	"testing"

	"github.com/fogfish/golem/pure/monoid"
	"github.com/fogfish/golem/seq"
	"github.com/fogfish/golem/seq/list"
	"github.com/fogfish/golem/seq/slice"
)

func d3Fold[F_ any](seqT seq.Seq[F_, int], xs ...int) (val int, err any) {
	defer func() { err = recover() }()

	f := seq.Foldable[F_, int]{Seq: seqT}
	m := monoid.FromOp(100, func(a, b int) int { return a*10 + b })
	return f.Fold(m, seqT.New(xs...)), nil
}

// C19: Fold combines left to right starting from Empty, for every length,
// the empty sequence included, identically on both implementations.
func TestD3FoldEveryLength(t *testing.T) {
	for _, tc := range []struct {
		xs   []int
		want int
	}{
		{nil, 100},
		{[]int{1}, 1001},
		{[]int{1, 2}, 10012},
		{[]int{1, 2, 3}, 100123},
	} {
		lv, le := d3Fold[list.Seq[int]](list.Trait[int]("list"), tc.xs...)
		sv, se := d3Fold[slice.Seq[int]](slice.Trait[int]("slice"), tc.xs...)

		if le != nil || se != nil {
			t.Errorf("Fold of %v panics: list %v, slice %v", tc.xs, le, se)
			continue
		}
		if lv != tc.want || sv != tc.want {
			t.Errorf("Fold of %v = list %d, slice %d; want %d", tc.xs, lv, sv, tc.want)
		}
	}

	// Tail of the last element is the empty sequence as well
	lt := list.Trait[int]("list")
	lv, le := func() (v int, err any) {
		defer func() { err = recover() }()
		f := seq.Foldable[list.Seq[int], int]{Seq: lt}
		return f.Fold(monoid.FromOp(0, func(a, b int) int { return a + b }), lt.Tail(lt.New(7))), nil
	}()
	if le != nil || lv != 0 {
		t.Errorf("Fold of Tail(New(7)) = %d, panic %v; want 0", lv, fmt.Sprint(le))
	}
}
