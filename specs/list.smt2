; Specification library: mathematical lists.
; Two presentations: cons lists (iterators, slices: consumed from the front) and
; snoc lists (traces: extended at the back). Instantiated per element sort by the engine;
; {E} element sort, {L}/{T} the list sort name.

; @template List
(declare-datatypes (({L} 0)) (((nil_{L}) (cons_{L} (hd_{L} {E}) (tl_{L} {L})))))
(define-fun-rec len_{L} ((l {L})) Int (ite ((_ is nil_{L}) l) 0 (+ 1 (len_{L} (tl_{L} l)))))
(assert (forall ((l {L})) (! (>= (len_{L} l) 0) :pattern ((len_{L} l))))) ; @derived
(define-fun-rec cat_{L} ((a {L}) (b {L})) {L} (ite ((_ is nil_{L}) a) b (cons_{L} (hd_{L} a) (cat_{L} (tl_{L} a) b))))
(define-fun-rec nth_{L} ((l {L}) (i Int)) {E} (ite (<= i 0) (hd_{L} l) (nth_{L} (tl_{L} l) (- i 1))))
(define-fun-rec take_{L} ((n Int) (l {L})) {L} (ite (or (<= n 0) ((_ is nil_{L}) l)) nil_{L} (cons_{L} (hd_{L} l) (take_{L} (- n 1) (tl_{L} l)))))
(define-fun-rec drop_{L} ((n Int) (l {L})) {L} (ite (or (<= n 0) ((_ is nil_{L}) l)) l (drop_{L} (- n 1) (tl_{L} l))))
(define-fun-rec upd_{L} ((l {L}) (i Int) (v {E})) {L} (ite ((_ is nil_{L}) l) nil_{L} (ite (<= i 0) (cons_{L} v (tl_{L} l)) (cons_{L} (hd_{L} l) (upd_{L} (tl_{L} l) (- i 1) v)))))
(define-fun snocl_{L} ((l {L}) (v {E})) {L} (cat_{L} l (cons_{L} v nil_{L})))
(define-fun-rec lastl_{L} ((l {L})) {E} (ite ((_ is nil_{L}) (tl_{L} l)) (hd_{L} l) (lastl_{L} (tl_{L} l))))
(define-fun-rec replast_{L} ((l {L}) (v {E})) {L} (ite ((_ is nil_{L}) l) nil_{L} (ite ((_ is nil_{L}) (tl_{L} l)) (cons_{L} v nil_{L}) (cons_{L} (hd_{L} l) (replast_{L} (tl_{L} l) v)))))

; @template Trace
(declare-datatypes (({T} 0)) (((emp_{T}) (snoc_{T} (init_{T} {T}) (last_{T} {E})))))
(define-fun-rec tlen_{T} ((l {T})) Int (ite ((_ is emp_{T}) l) 0 (+ 1 (tlen_{T} (init_{T} l)))))
(assert (forall ((l {T})) (! (>= (tlen_{T} l) 0) :pattern ((tlen_{T} l))))) ; @derived
(define-fun-rec tcat_{T} ((a {T}) (b {T})) {T} (ite ((_ is emp_{T}) b) a (snoc_{T} (tcat_{T} a (init_{T} b)) (last_{T} b))))
(define-fun-rec ttake_{T} ((n Int) (l {T})) {T} (ite ((_ is emp_{T}) l) emp_{T} (ite (< (tlen_{T} (init_{T} l)) n) (snoc_{T} (ttake_{T} n (init_{T} l)) (last_{T} l)) (ttake_{T} n (init_{T} l)))))
(define-fun-rec tprefix_{T} ((a {T}) (b {T})) Bool (or (= a b) (and ((_ is snoc_{T}) b) (tprefix_{T} a (init_{T} b)))))

; @template TraceOfList
; the trace holding the elements of a cons list, in order (accumulator form: tol(acc, l))
(define-fun-rec tol_{T} ((acc {T}) (l {L})) {T} (ite ((_ is nil_{L}) l) acc (tol_{T} (snoc_{T} acc (hd_{L} l)) (tl_{L} l))))
(define-fun-rec lot_{T} ((l {T}) (acc {L})) {L} (ite ((_ is emp_{T}) l) acc (lot_{T} (init_{T} l) (cons_{L} (last_{T} l) acc))))

; @template FoldM
; left fold of a cons list with the Combine of a monoid instance m
(define-fun-rec foldm_{L}_{COMB} ((m Ref) (acc {E}) (l {L})) {E} (ite ((_ is nil_{L}) l) acc (foldm_{L}_{COMB} m ({COMB} m acc (hd_{L} l)) (tl_{L} l))))

; @template TFoldM
; left fold of a snoc trace: fold(l . v) = Combine(fold(l), v)
(define-fun-rec tfoldm_{T}_{COMB} ((m Ref) (acc {E}) (l {T})) {E} (ite ((_ is emp_{T}) l) acc ({COMB} m (tfoldm_{T}_{COMB} m acc (init_{T} l)) (last_{T} l))))

; @template ListPred
; {F}: sort of predicates A -> Bool (application app0_{F}); lists {L} of {E}
(define-fun-rec takew_{L}_{F} ((f {F}) (l {L})) {L} (ite ((_ is nil_{L}) l) nil_{L} (ite (app0_{F} f (hd_{L} l)) (cons_{L} (hd_{L} l) (takew_{L}_{F} f (tl_{L} l))) nil_{L})))
(define-fun-rec dropw_{L}_{F} ((f {F}) (l {L})) {L} (ite ((_ is nil_{L}) l) nil_{L} (ite (app0_{F} f (hd_{L} l)) (dropw_{L}_{F} f (tl_{L} l)) l)))
(define-fun-rec filter_{L}_{F} ((f {F}) (l {L})) {L} (ite ((_ is nil_{L}) l) nil_{L} (ite (app0_{F} f (hd_{L} l)) (cons_{L} (hd_{L} l) (filter_{L}_{F} f (tl_{L} l))) (filter_{L}_{F} f (tl_{L} l)))))

; @template ListMap
; {F}: sort of functions A -> B; {LA} lists of A, {LB} lists of B
(define-fun-rec map_{LA}_{F} ((f {F}) (l {LA})) {LB} (ite ((_ is nil_{LA}) l) nil_{LB} (cons_{LB} (app0_{F} f (hd_{LA} l)) (map_{LA}_{F} f (tl_{LA} l)))))

; @template FlatMap
; {F}: sort of functions A -> iterator; rhsview_{F}(f, a) is the list the iterator f(a) yields (empty for nil)
(declare-fun rhsview_{F} ({F} {A}) {LB})
(define-fun-rec flatmap_{LA}_{F} ((f {F}) (l {LA})) {LB} (ite ((_ is nil_{LA}) l) nil_{LB} (cat_{LB} (rhsview_{F} f (hd_{LA} l)) (flatmap_{LA}_{F} f (tl_{LA} l)))))

; @template ListErr
; {F}: sort of functions A -> Err. untilerr: longest prefix up to and including the first
; element on which f returns an error; firsterr: that error (err_nil when there is none);
; evl: the call events of applying f to the elements of a list, appended to a trace
(define-fun-rec untilerr_{L}_{F} ((f {F}) (l {L})) {L} (ite ((_ is nil_{L}) l) nil_{L} (ite (= (app0_{F} f (hd_{L} l)) err_nil) (cons_{L} (hd_{L} l) (untilerr_{L}_{F} f (tl_{L} l))) (cons_{L} (hd_{L} l) nil_{L}))))
(define-fun-rec firsterr_{L}_{F} ((f {F}) (l {L})) Err (ite ((_ is nil_{L}) l) err_nil (ite (= (app0_{F} f (hd_{L} l)) err_nil) (firsterr_{L}_{F} f (tl_{L} l)) (app0_{F} f (hd_{L} l)))))
(define-fun-rec evl_{L}_{F} ((f {F}) (acc {TEV}) (l {L})) {TEV} (ite ((_ is nil_{L}) l) acc (evl_{L}_{F} f (snoc_{TEV} acc ({EV} f (hd_{L} l))) (tl_{L} l))))

; @template ListPred2
; {F}: predicates K x V -> Bool over lists {L} of pairs {P}
(define-fun-rec takew_{L}_{F} ((f {F}) (l {L})) {L} (ite ((_ is nil_{L}) l) nil_{L} (ite (app0_{F} f (fst_{P} (hd_{L} l)) (snd_{P} (hd_{L} l))) (cons_{L} (hd_{L} l) (takew_{L}_{F} f (tl_{L} l))) nil_{L})))
(define-fun-rec dropw_{L}_{F} ((f {F}) (l {L})) {L} (ite ((_ is nil_{L}) l) nil_{L} (ite (app0_{F} f (fst_{P} (hd_{L} l)) (snd_{P} (hd_{L} l))) (dropw_{L}_{F} f (tl_{L} l)) l)))
(define-fun-rec filter_{L}_{F} ((f {F}) (l {L})) {L} (ite ((_ is nil_{L}) l) nil_{L} (ite (app0_{F} f (fst_{P} (hd_{L} l)) (snd_{P} (hd_{L} l))) (cons_{L} (hd_{L} l) (filter_{L}_{F} f (tl_{L} l))) (filter_{L}_{F} f (tl_{L} l)))))

; @template PairMapV
; {F}: K x A -> B; maps values, keeps keys: (k, a) -> (k, f(k, a))
(define-fun-rec mapv_{LA}_{F} ((f {F}) (l {LA})) {LB} (ite ((_ is nil_{LA}) l) nil_{LB} (cons_{LB} (mk_{PB} (fst_{PA} (hd_{LA} l)) (app0_{F} f (fst_{PA} (hd_{LA} l)) (snd_{PA} (hd_{LA} l)))) (mapv_{LA}_{F} f (tl_{LA} l)))))

; @template FlatMap2
; {F}: K x V -> iterator; list {LA} of pairs {PA}
(declare-fun rhsview_{F} ({F} {A} {B}) {LB})
(define-fun-rec flatmap_{LA}_{F} ((f {F}) (l {LA})) {LB} (ite ((_ is nil_{LA}) l) nil_{LB} (cat_{LB} (rhsview_{F} f (fst_{PA} (hd_{LA} l)) (snd_{PA} (hd_{LA} l))) (flatmap_{LA}_{F} f (tl_{LA} l)))))

; @template ListErr2
; {F}: K x V -> Err over lists {L} of pairs {P}
(define-fun-rec untilerr_{L}_{F} ((f {F}) (l {L})) {L} (ite ((_ is nil_{L}) l) nil_{L} (ite (= (app0_{F} f (fst_{P} (hd_{L} l)) (snd_{P} (hd_{L} l))) err_nil) (cons_{L} (hd_{L} l) (untilerr_{L}_{F} f (tl_{L} l))) (cons_{L} (hd_{L} l) nil_{L}))))
(define-fun-rec firsterr_{L}_{F} ((f {F}) (l {L})) Err (ite ((_ is nil_{L}) l) err_nil (ite (= (app0_{F} f (fst_{P} (hd_{L} l)) (snd_{P} (hd_{L} l))) err_nil) (firsterr_{L}_{F} f (tl_{L} l)) (app0_{F} f (fst_{P} (hd_{L} l)) (snd_{P} (hd_{L} l))))))
(define-fun-rec evl_{L}_{F} ((f {F}) (acc {TEV}) (l {L})) {TEV} (ite ((_ is nil_{L}) l) acc (evl_{L}_{F} f (snoc_{TEV} acc ({EV} f (fst_{P} (hd_{L} l)) (snd_{P} (hd_{L} l)))) (tl_{L} l))))

; @template MorphFold
; a list of isomorphism instances applied in order, nil entries skipped
(define-fun-rec mfwd_{FWD} ((l {L}) (s {S}) (t {T})) {T} (ite ((_ is nil_{L}) l) t (mfwd_{FWD} (tl_{L} l) s (ite (= (hd_{L} l) null) t ({FWD} (hd_{L} l) s t)))))
(define-fun-rec minv_{INV} ((l {L}) (t {T}) (s {S})) {S} (ite ((_ is nil_{L}) l) s (minv_{INV} (tl_{L} l) t (ite (= (hd_{L} l) null) s ({INV} (hd_{L} l) t s)))))

; @template TraceF
; stage function instance f (pipe.F[A,B]): {APPLY}(f, a) is the value, {ERR}(f, a) the error
; of applying it. tmapok: results of the elements that succeed; terrs: errors of those that
; fail; both in input order (snoc recursion: one unfolding per received element)
(define-fun-rec tmapok_{APPLY} ((f Ref) (l {TA})) {TB} (ite ((_ is emp_{TA}) l) emp_{TB} (ite (= ({ERR} f (last_{TA} l)) err_nil) (snoc_{TB} (tmapok_{APPLY} f (init_{TA} l)) ({APPLY} f (last_{TA} l))) (tmapok_{APPLY} f (init_{TA} l)))))
(define-fun-rec terrs_{APPLY} ((f Ref) (l {TA})) {TE} (ite ((_ is emp_{TA}) l) emp_{TE} (ite (= ({ERR} f (last_{TA} l)) err_nil) (terrs_{APPLY} f (init_{TA} l)) (snoc_{TE} (terrs_{APPLY} f (init_{TA} l)) ({ERR} f (last_{TA} l))))))
(define-fun-rec tallok_{APPLY} ((f Ref) (l {TA})) Bool (or ((_ is emp_{TA}) l) (and (= ({ERR} f (last_{TA} l)) err_nil) (tallok_{APPLY} f (init_{TA} l)))))

; @template TraceKeep
; predicate instance f (pipe.F[A,bool]): an element is kept iff f yields true without error
(define-fun keep_{APPLY} ((f Ref) (a {A})) Bool (and ({APPLY} f a) (= ({ERR} f a) err_nil)))
(define-fun-rec tfilter_{APPLY} ((f Ref) (l {TA})) {TA} (ite ((_ is emp_{TA}) l) emp_{TA} (ite (keep_{APPLY} f (last_{TA} l)) (snoc_{TA} (tfilter_{APPLY} f (init_{TA} l)) (last_{TA} l)) (tfilter_{APPLY} f (init_{TA} l)))))
(define-fun-rec tfilternot_{APPLY} ((f Ref) (l {TA})) {TA} (ite ((_ is emp_{TA}) l) emp_{TA} (ite (keep_{APPLY} f (last_{TA} l)) (tfilternot_{APPLY} f (init_{TA} l)) (snoc_{TA} (tfilternot_{APPLY} f (init_{TA} l)) (last_{TA} l)))))
(define-fun-rec tallkeep_{APPLY} ((f Ref) (l {TA})) Bool (or ((_ is emp_{TA}) l) (and (keep_{APPLY} f (last_{TA} l)) (tallkeep_{APPLY} f (init_{TA} l)))))

; @template TraceIter
; fpow(f, s, n) = f^n(s); titer(f, s, n) = [s, f s, ..., f^(n-1) s]
(define-fun-rec fpow_{APPLY} ((f Ref) (s {A}) (n Int)) {A} (ite (<= n 0) s ({APPLY} f (fpow_{APPLY} f s (- n 1)))))
(define-fun-rec titer_{APPLY} ((f Ref) (s {A}) (n Int)) {TA} (ite (<= n 0) emp_{TA} (snoc_{TA} (titer_{APPLY} f s (- n 1)) (fpow_{APPLY} f s (- n 1)))))

; @template Upto
; tupto(n) = [0, 1, ..., n-1]
(define-fun-rec tupto_{T} ((n Int)) {T} (ite (<= n 0) emp_{T} (snoc_{T} (tupto_{T} (- n 1)) (- n 1))))

; @template TraceToList
(define-fun-rec tolist_{T} ((l {T})) {L} (ite ((_ is emp_{T}) l) nil_{L} (snocl_{L} (tolist_{T} (init_{T} l)) (last_{T} l))))

; @template TraceFF
; arrow instance f (pipe.FF[A,B]): {EMITS}(f, a) is the trace it sends for a, {FAILS}(f, a) its error
(define-fun-rec tflat_{EMITS} ((f Ref) (l {TA})) {TB} (ite ((_ is emp_{TA}) l) emp_{TB} (tcat_{TB} (tflat_{EMITS} f (init_{TA} l)) ({EMITS} f (last_{TA} l)))))
(define-fun-rec tferrs_{EMITS} ((f Ref) (l {TA})) {TE} (ite ((_ is emp_{TA}) l) emp_{TE} (ite (= ({FAILS} f (last_{TA} l)) err_nil) (tferrs_{EMITS} f (init_{TA} l)) (snoc_{TE} (tferrs_{EMITS} f (init_{TA} l)) ({FAILS} f (last_{TA} l))))))
(define-fun-rec tfallok_{EMITS} ((f Ref) (l {TA})) Bool (or ((_ is emp_{TA}) l) (and (= ({FAILS} f (last_{TA} l)) err_nil) (tfallok_{EMITS} f (init_{TA} l)))))

; @template Hseq
; hseq.Type[T] = {HT} with constructor {MK}(StructField, RootOffs, PureType, ID); lists {LHT}.
; flatten(fs, off, acc): the list acc extended by the depth-first listing of the fields fs:
; each field, then - if it is embedded and, after stripping one pointer, a struct - that
; struct's fields with the root offset advanced by the field's offset; the ID of an entry is
; its position in the full listing (the length of the listing before it).
(define-fun pureof ((t RType)) RType (ite ((_ is rt_ptr) t) (rt_pelem t) t))
(define-fun-rec flatten_{HT} ((fs L_S_reflect.StructField) (off Int) (acc {LHT})) {LHT}
  (ite ((_ is nil_L_S_reflect.StructField) fs) acc
    (let ((f (hd_L_S_reflect.StructField fs)) (ft (pureof (S_reflect.StructField_Type (hd_L_S_reflect.StructField fs)))))
      (let ((acc1 (snocl_{LHT} acc ({MK} f off ft (len_{LHT} acc)))))
        (ite (and (S_reflect.StructField_Anonymous f) ((_ is rt_struct) ft))
          (flatten_{HT} (tl_L_S_reflect.StructField fs) off (flatten_{HT} (rt_fields ft) (+ off (S_reflect.StructField_Offset f)) acc1))
          (flatten_{HT} (tl_L_S_reflect.StructField fs) off acc1))))))
; the name of an entry: the first comma-separated part of its hseq tag when present
(define-fun fieldkey_{HT} ((e {HT})) Str (let ((tg (splitfirst (tagget (S_reflect.StructField_Tag ({HT}_StructField e)) {S_HSEQ}) {S_COMMA}))) (ite (= tg str_empty) (S_reflect.StructField_Name ({HT}_StructField e)) tg)))
(define-fun-rec hasname_{HT} ((l {LHT}) (name Str)) Bool (and ((_ is cons_{LHT}) l) (or (= (fieldkey_{HT} (hd_{LHT} l)) name) (hasname_{HT} (tl_{LHT} l) name))))
(define-fun-rec firstname_{HT} ((l {LHT}) (name Str)) {HT} (ite (= (fieldkey_{HT} (hd_{LHT} l)) name) (hd_{LHT} l) (firstname_{HT} (tl_{LHT} l) name)))
(define-fun-rec hastype_{HT} ((l {LHT}) (t RType)) Bool (and ((_ is cons_{LHT}) l) (or (= (S_reflect.StructField_Type ({HT}_StructField (hd_{LHT} l))) t) (hastype_{HT} (tl_{LHT} l) t))))
(define-fun-rec firsttype_{HT} ((l {LHT}) (t RType)) {HT} (ite (= (S_reflect.StructField_Type ({HT}_StructField (hd_{LHT} l))) t) (hd_{LHT} l) (firsttype_{HT} (tl_{LHT} l) t)))
(define-fun-rec allhave_{HT} ((l {LHT}) (names L_Str)) Bool (or ((_ is nil_L_Str) names) (and (hasname_{HT} l (hd_L_Str names)) (allhave_{HT} l (tl_L_Str names)))))

; @template Layout
; validloc(t, off, nm, a): (off, a) is the location of the field named nm of struct type t,
; reached through plain fields and value-embedded/nested structs only (never across a
; pointer): Go's layout rule - offsets of nested value structs add. The name is part of the
; location: another field of the same type that happens to sit at a miscomputed offset is
; not the field an entry of the listing denotes.
(define-fun-rec validfield ((fs L_S_reflect.StructField) (off Int) (nm Str) (a RType)) Bool
  (and ((_ is cons_L_S_reflect.StructField) fs)
       (or (and (= (S_reflect.StructField_Offset (hd_L_S_reflect.StructField fs)) off) (= (S_reflect.StructField_Name (hd_L_S_reflect.StructField fs)) nm) (= (S_reflect.StructField_Type (hd_L_S_reflect.StructField fs)) a))
           (and ((_ is rt_struct) (S_reflect.StructField_Type (hd_L_S_reflect.StructField fs)))
                (<= (S_reflect.StructField_Offset (hd_L_S_reflect.StructField fs)) off)
                (validfield (rt_fields (S_reflect.StructField_Type (hd_L_S_reflect.StructField fs))) (- off (S_reflect.StructField_Offset (hd_L_S_reflect.StructField fs))) nm a))
           (validfield (tl_L_S_reflect.StructField fs) off nm a))))
(define-fun validloc ((t RType) (off Int) (nm Str) (a RType)) Bool (and ((_ is rt_struct) t) (validfield (rt_fields t) off nm a)))
; memory safety of a typed access: some field of exactly that type is located there
(define-fun validlocany ((t RType) (off Int) (a RType)) Bool (exists ((nm Str)) (validloc t off nm a)))

; @template FieldAccess
; a value of struct type {S} seen as a record of its fields: fget/fput at a location
; (offset, field type {A}). Trusted layout axioms: reading what was written, writing what
; was read, overwriting; a write at one valid location of the struct type {RS} does not
; change what is read at another location (fields occupy disjoint byte ranges).
(declare-fun fget_{S}_{A} ({S} Int) {A})
(declare-fun fput_{S}_{A} ({S} Int {A}) {S})
(assert (forall ((s {S}) (o Int) (a {A})) (! (= (fget_{S}_{A} (fput_{S}_{A} s o a) o) a) :pattern ((fput_{S}_{A} s o a)))))
(assert (forall ((s {S}) (o Int)) (! (= (fput_{S}_{A} s o (fget_{S}_{A} s o)) s) :pattern ((fget_{S}_{A} s o)))))
(assert (forall ((s {S}) (o Int) (a {A}) (b {A})) (! (= (fput_{S}_{A} (fput_{S}_{A} s o a) o b) (fput_{S}_{A} s o b)) :pattern ((fput_{S}_{A} (fput_{S}_{A} s o a) o b)))))
(assert (forall ((s {S}) (o Int) (a {A}) (p Int)) (! (=> (distinct o p) (= (fget_{S}_{A} (fput_{S}_{A} s o a) p) (fget_{S}_{A} s p))) :pattern ((fget_{S}_{A} (fput_{S}_{A} s o a) p)))))

; @template TypeName
; duct.typeName: "*" / "[]" prefixes over the name reflect reports for the element type
(define-fun-rec tname ((t RType)) Str (ite ((_ is rt_ptr) t) (str_cat {S_PTR} (tname (rt_pelem t))) (ite ((_ is rt_slice) t) (str_cat {S_SLICE} (tname (rt_selem t))) (rname t))))

; @template Duct
; the duct AST as an owned tree. Visitor events: (kind, depth, node), kind 1 morphism (root
; sequence), 2 nested sequence, 3 map, 4 from, 5 yield; leave events carry the negated kind.
; cberr(v, k) is the error visitor v returns from its k-th callback.
(declare-fun cberr (Ref Int) Err)
(define-fun nodekind ((n {N})) Int (ite ((_ is {C_SEQ}) n) (ite ({SEQ}_Root ({C_SEQ}_v n)) 1 2) (ite ((_ is {C_MAP}) n) 3 (ite ((_ is {C_FROM}) n) 4 5))))
(define-funs-rec (
  (walkT ((v Ref) (n {N}) (d Int) (tr {T})) {T})
  (walkE ((v Ref) (n {N}) (d Int) (tr {T})) Err)
  (walkKT ((v Ref) (l {LN}) (d Int) (tr {T})) {T})
  (walkKE ((v Ref) (l {LN}) (d Int) (tr {T})) Err))
 (
  (let ((t1 (snoc_{T} tr (vev (nodekind n) d n))))
    (ite (distinct (cberr v (tlen_{T} tr)) err_nil) t1
      (let ((t2 (ite ((_ is {C_SEQ}) n) (walkKT v ({SEQ}_Seq ({C_SEQ}_v n)) (+ d 1) t1) t1))
            (e2 (ite ((_ is {C_SEQ}) n) (walkKE v ({SEQ}_Seq ({C_SEQ}_v n)) (+ d 1) t1) err_nil)))
        (ite (distinct e2 err_nil) t2 (snoc_{T} t2 (vev (- 0 (nodekind n)) d n))))))
  (let ((t1 (snoc_{T} tr (vev (nodekind n) d n))))
    (ite (distinct (cberr v (tlen_{T} tr)) err_nil) (cberr v (tlen_{T} tr))
      (let ((t2 (ite ((_ is {C_SEQ}) n) (walkKT v ({SEQ}_Seq ({C_SEQ}_v n)) (+ d 1) t1) t1))
            (e2 (ite ((_ is {C_SEQ}) n) (walkKE v ({SEQ}_Seq ({C_SEQ}_v n)) (+ d 1) t1) err_nil)))
        (ite (distinct e2 err_nil) e2 (cberr v (tlen_{T} t2))))))
  (ite ((_ is nil_{LN}) l) tr
    (ite (distinct (walkE v (hd_{LN} l) d tr) err_nil) (walkT v (hd_{LN} l) d tr) (walkKT v (tl_{LN} l) d (walkT v (hd_{LN} l) d tr))))
  (ite ((_ is nil_{LN}) l) err_nil
    (ite (distinct (walkE v (hd_{LN} l) d tr) err_nil) (walkE v (hd_{LN} l) d tr) (walkKE v (tl_{LN} l) d (walkT v (hd_{LN} l) d tr))))))
; ins(t, n): n becomes the last child of the innermost still-open (Deferred) sequence on
; the last-child spine of t (nothing changes when t itself is closed);
; closeinner(t): the innermost open non-root sequence on that spine is closed
(define-fun-rec ins ((t {SEQ}) (n {N})) {SEQ}
  (ite (not ({SEQ}_Deferred t)) t
    (ite ((_ is nil_{LN}) ({SEQ}_Seq t)) (mk_{SEQ} ({SEQ}_Root t) ({SEQ}_Deferred t) (cons_{LN} n nil_{LN}))
      (let ((l (lastl_{LN} ({SEQ}_Seq t))))
        (ite (and ((_ is {C_SEQ}) l) ({SEQ}_Deferred ({C_SEQ}_v l)))
          (mk_{SEQ} ({SEQ}_Root t) ({SEQ}_Deferred t) (replast_{LN} ({SEQ}_Seq t) ({C_SEQ} (ins ({C_SEQ}_v l) n))))
          (mk_{SEQ} ({SEQ}_Root t) ({SEQ}_Deferred t) (snocl_{LN} ({SEQ}_Seq t) n)))))))
(define-fun-rec closeinner ((t {SEQ})) {SEQ}
  (ite (not ({SEQ}_Deferred t)) t
    (ite (and (not ((_ is nil_{LN}) ({SEQ}_Seq t))) ((_ is {C_SEQ}) (lastl_{LN} ({SEQ}_Seq t))) ({SEQ}_Deferred ({C_SEQ}_v (lastl_{LN} ({SEQ}_Seq t)))))
      (mk_{SEQ} ({SEQ}_Root t) ({SEQ}_Deferred t) (replast_{LN} ({SEQ}_Seq t) ({C_SEQ} (closeinner ({C_SEQ}_v (lastl_{LN} ({SEQ}_Seq t)))))))
      (mk_{SEQ} ({SEQ}_Root t) (ite ({SEQ}_Root t) ({SEQ}_Deferred t) false) ({SEQ}_Seq t)))))
