; Specification library: mathematical lists.
; Two presentations: cons lists (iterators, slices: consumed from the front) and
; snoc lists (traces: extended at the back). Instantiated per element sort by the engine;
; {E} element sort, {L}/{T} the list sort name.

; @template List
(declare-datatypes (({L} 0)) (((nil_{L}) (cons_{L} (hd_{L} {E}) (tl_{L} {L})))))
(define-fun-rec len_{L} ((l {L})) Int (ite ((_ is nil_{L}) l) 0 (+ 1 (len_{L} (tl_{L} l)))))
(assert (forall ((l {L})) (! (>= (len_{L} l) 0) :pattern ((len_{L} l))))) ; @derived
(define-fun-rec cat_{L} ((a {L}) (b {L})) {L} (ite ((_ is nil_{L}) a) b (cons_{L} (hd_{L} a) (cat_{L} (tl_{L} a) b))))
(define-fun-rec nth_{L} ((l {L}) (i Int)) {E} (ite (<= i 0) (hd_{L} l) (nth_{L} (tl_{L} l) (- i 1))))
(define-fun-rec take_{L} ((n Int) (l {L})) {L} (ite (or (<= n 0) ((_ is nil_{L}) l)) nil_{L} (cons_{L} (hd_{L} l) (take_{L} (- n 1) (tl_{L} l)))))
(define-fun-rec drop_{L} ((n Int) (l {L})) {L} (ite (or (<= n 0) ((_ is nil_{L}) l)) l (drop_{L} (- n 1) (tl_{L} l))))
(define-fun-rec upd_{L} ((l {L}) (i Int) (v {E})) {L} (ite ((_ is nil_{L}) l) nil_{L} (ite (<= i 0) (cons_{L} v (tl_{L} l)) (cons_{L} (hd_{L} l) (upd_{L} (tl_{L} l) (- i 1) v)))))
(define-fun snocl_{L} ((l {L}) (v {E})) {L} (cat_{L} l (cons_{L} v nil_{L})))

; @template Trace
(declare-datatypes (({T} 0)) (((emp_{T}) (snoc_{T} (init_{T} {T}) (last_{T} {E})))))
(define-fun-rec tlen_{T} ((l {T})) Int (ite ((_ is emp_{T}) l) 0 (+ 1 (tlen_{T} (init_{T} l)))))
(assert (forall ((l {T})) (! (>= (tlen_{T} l) 0) :pattern ((tlen_{T} l))))) ; @derived
(define-fun-rec tcat_{T} ((a {T}) (b {T})) {T} (ite ((_ is emp_{T}) b) a (snoc_{T} (tcat_{T} a (init_{T} b)) (last_{T} b))))
(define-fun-rec ttake_{T} ((n Int) (l {T})) {T} (ite ((_ is emp_{T}) l) emp_{T} (ite (< (tlen_{T} (init_{T} l)) n) (snoc_{T} (ttake_{T} n (init_{T} l)) (last_{T} l)) (ttake_{T} n (init_{T} l)))))
(define-fun-rec tprefix_{T} ((a {T}) (b {T})) Bool (or (= a b) (and ((_ is snoc_{T}) b) (tprefix_{T} a (init_{T} b)))))

; @template TraceOfList
; the trace holding the elements of a cons list, in order (accumulator form: tol(acc, l))
(define-fun-rec tol_{T} ((acc {T}) (l {L})) {T} (ite ((_ is nil_{L}) l) acc (tol_{T} (snoc_{T} acc (hd_{L} l)) (tl_{L} l))))
(define-fun-rec lot_{T} ((l {T}) (acc {L})) {L} (ite ((_ is emp_{T}) l) acc (lot_{T} (init_{T} l) (cons_{L} (last_{T} l) acc))))

; @template FoldM
; left fold of a cons list with the Combine of a monoid instance m
(define-fun-rec foldm_{L}_{COMB} ((m Ref) (acc {E}) (l {L})) {E} (ite ((_ is nil_{L}) l) acc (foldm_{L}_{COMB} m ({COMB} m acc (hd_{L} l)) (tl_{L} l))))

; @template TFoldM
; left fold of a snoc trace: fold(l . v) = Combine(fold(l), v)
(define-fun-rec tfoldm_{T}_{COMB} ((m Ref) (acc {E}) (l {T})) {E} (ite ((_ is emp_{T}) l) acc ({COMB} m (tfoldm_{T}_{COMB} m acc (init_{T} l)) (last_{T} l))))
