; Lemma library over the list/trace theories of list.smt2. A unit opts in with
; `opt lemmas=<names>`; every lemma a check uses is itself proved on every run, from the
; definitions only, by structural induction (cvc5 --quant-ind), at an uninterpreted
; element sort (obligation kind speclemma).

; @template lemma:List:drop_len
(forall ((l {L})) (! (= (drop_{L} (len_{L} l) l) nil_{L}) :pattern ((drop_{L} (len_{L} l) l))))

; @template lemma:List:drop_nth
(forall ((l {L}) (i Int)) (! (=> (and (<= 0 i) (< i (len_{L} l))) (= (drop_{L} i l) (cons_{L} (nth_{L} l i) (drop_{L} (+ i 1) l)))) :pattern ((drop_{L} i l))))

; @template lemma:List:cat_nil
(forall ((l {L})) (! (= (cat_{L} l nil_{L}) l) :pattern ((cat_{L} l nil_{L}))))

; @template lemma:List:cat_assoc
(forall ((a {L}) (b {L}) (c {L})) (! (= (cat_{L} (cat_{L} a b) c) (cat_{L} a (cat_{L} b c))) :pattern ((cat_{L} (cat_{L} a b) c))))

; @template lemma:List:len_cat
(forall ((a {L}) (b {L})) (! (= (len_{L} (cat_{L} a b)) (+ (len_{L} a) (len_{L} b))) :pattern ((len_{L} (cat_{L} a b)))))

; @template lemma:List:take_len
(forall ((l {L})) (! (= (take_{L} (len_{L} l) l) l) :pattern ((take_{L} (len_{L} l) l))))

; @template lemma:List:len_drop
(forall ((l {L}) (i Int)) (! (=> (and (<= 0 i) (<= i (len_{L} l))) (= (len_{L} (drop_{L} i l)) (- (len_{L} l) i))) :pattern ((len_{L} (drop_{L} i l)))))

; @template lemma:Trace:tprefix_trans
(forall ((a {T}) (b {T}) (c {T})) (! (=> (and (tprefix_{T} a b) (tprefix_{T} b c)) (tprefix_{T} a c)) :pattern ((tprefix_{T} a b) (tprefix_{T} b c))))

; @template lemma:TraceF:tmapok_mono
(forall ((f Ref) (a {TA}) (b {TA})) (! (=> (tprefix_{TA} a b) (tprefix_{TB} (tmapok_{APPLY} f a) (tmapok_{APPLY} f b))) :pattern ((tprefix_{TA} a b) (tmapok_{APPLY} f b))))

; @template lemma:TraceKeep:tfilter_mono
(forall ((f Ref) (a {TA}) (b {TA})) (! (=> (tprefix_{TA} a b) (and (tprefix_{TA} (tfilter_{APPLY} f a) (tfilter_{APPLY} f b)) (tprefix_{TA} (tfilternot_{APPLY} f a) (tfilternot_{APPLY} f b)))) :pattern ((tprefix_{TA} a b) (tfilter_{APPLY} f b))))

; @template lemma:Trace:tprefix_init
(forall ((a {T}) (v {E}) (c {T})) (! (=> (tprefix_{T} (snoc_{T} a v) c) (tprefix_{T} a c)) :pattern ((tprefix_{T} (snoc_{T} a v) c))))

; @template lemma:List:nth_snocl
(forall ((l {L}) (v {E}) (i Int)) (! (and (=> (and (<= 0 i) (< i (len_{L} l))) (= (nth_{L} (snocl_{L} l v) i) (nth_{L} l i))) (= (nth_{L} (snocl_{L} l v) (len_{L} l)) v) (= (len_{L} (snocl_{L} l v)) (+ (len_{L} l) 1))) :pattern ((nth_{L} (snocl_{L} l v) i))))

; @template lemma:List:len_snocl
(forall ((l {L}) (v {E})) (! (= (len_{L} (snocl_{L} l v)) (+ (len_{L} l) 1)) :pattern ((snocl_{L} l v))))

; @template lemma:TraceOfList:tol_snocl
(forall ((l {L}) (acc {T}) (v {E})) (! (= (tol_{T} acc (snocl_{L} l v)) (snoc_{T} (tol_{T} acc l) v)) :pattern ((tol_{T} acc (snocl_{L} l v)))))

; @template lemma:List:nth_upd
(forall ((l {L}) (i Int) (v {E}) (j Int)) (! (=> (and (<= 0 j) (< j (len_{L} l)) (<= 0 i)) (= (nth_{L} (upd_{L} l i v) j) (ite (= j i) v (nth_{L} l j)))) :pattern ((nth_{L} (upd_{L} l i v) j))))

; @template lemma:List:len_upd
(forall ((l {L}) (i Int) (v {E})) (! (= (len_{L} (upd_{L} l i v)) (len_{L} l)) :pattern ((upd_{L} l i v))))

; @template lemma:List:nth_take
(forall ((l {L}) (n Int) (j Int)) (! (=> (and (<= 0 j) (< j n) (<= n (len_{L} l))) (= (nth_{L} (take_{L} n l) j) (nth_{L} l j))) :pattern ((nth_{L} (take_{L} n l) j))))

; @template lemma:List:len_take
(forall ((l {L}) (n Int)) (! (=> (and (<= 0 n) (<= n (len_{L} l))) (= (len_{L} (take_{L} n l)) n)) :pattern ((take_{L} n l))))

; @template lemma:List:nth_last
(forall ((l {L})) (! (=> ((_ is cons_{L}) l) (= (nth_{L} l (- (len_{L} l) 1)) (lastl_{L} l))) :pattern ((lastl_{L} l))))

; @template lemma:List:upd_last
(forall ((l {L}) (v {E})) (! (=> ((_ is cons_{L}) l) (= (upd_{L} l (- (len_{L} l) 1) v) (replast_{L} l v))) :pattern ((replast_{L} l v))))

; @template lemma:List:upd_same
(forall ((l {L}) (i Int) (v {E})) (! (=> (and (<= 0 i) (< i (len_{L} l)) (= v (nth_{L} l i))) (= (upd_{L} l i v) l)) :pattern ((upd_{L} l i v))))
