//go:build verif

// Contracts for pure/semigroup (property C17). Comment-only file: see /verif/DESIGN.md section 2.1.

package semigroup

//@ fileprops C17 C10 C05 C19

//@ interface Semigroup
//@   method Combine
//@     pure

//@ type From implements Semigroup
//@   opt props = C17
//@   model Combine(self, a, b) = app(self, a, b)
