//go:build verif

// Contracts for pure/ord (property C17). Comment-only file: see /verif/DESIGN.md section 2.1.

package ord

//@ fileprops C17

//@ interface Ord
//@   method Compare
//@     pure

// ord.Int / ord.String return LT, EQ or GT exactly as the built-in ordering does
//@ type ord implements Ord
//@   model Compare(self, a, b) = ite(a < b, LT, ite(b < a, GT, EQ))

//@ type From implements Ord
//@   model Compare(self, a, b) = app(self, a, b)

//@ type ContraMap implements Ord
//@   objinv self.Ord != nil
//@   model Compare(self, a, b) = self.Ord.Compare(app(self.ContraMap, a), app(self.ContraMap, b))

//@ instance Int : ord
//@ instance String : ord

// consequences of the model for the built-in orders on int and string: total,
// antisymmetric, transitive, EQ exactly on equal values
//@ lemma int_total: forall a Int, b Int :: ite(a < b, LT, ite(b < a, GT, EQ)) == LT || ite(a < b, LT, ite(b < a, GT, EQ)) == EQ || ite(a < b, LT, ite(b < a, GT, EQ)) == GT
//@ lemma int_antisymmetric: forall a Int, b Int :: (ite(a < b, LT, ite(b < a, GT, EQ)) == LT) == (ite(b < a, LT, ite(a < b, GT, EQ)) == GT)
//@ lemma int_transitive: forall a Int, b Int, c Int :: ite(a < b, LT, ite(b < a, GT, EQ)) == LT && ite(b < c, LT, ite(c < b, GT, EQ)) == LT ==> ite(a < c, LT, ite(c < a, GT, EQ)) == LT
//@ lemma int_eq_agrees: forall a Int, b Int :: (ite(a < b, LT, ite(b < a, GT, EQ)) == EQ) == (a == b)
//@ lemma str_total: forall a Str, b Str :: ite(a < b, LT, ite(b < a, GT, EQ)) == LT || ite(a < b, LT, ite(b < a, GT, EQ)) == EQ || ite(a < b, LT, ite(b < a, GT, EQ)) == GT
//@ lemma str_antisymmetric: forall a Str, b Str :: (ite(a < b, LT, ite(b < a, GT, EQ)) == LT) == (ite(b < a, LT, ite(a < b, GT, EQ)) == GT)
//@ lemma str_transitive: forall a Str, b Str, c Str :: ite(a < b, LT, ite(b < a, GT, EQ)) == LT && ite(b < c, LT, ite(c < b, GT, EQ)) == LT ==> ite(a < c, LT, ite(c < a, GT, EQ)) == LT
//@ lemma str_eq_agrees: forall a Str, b Str :: (ite(a < b, LT, ite(b < a, GT, EQ)) == EQ) == (a == b)
