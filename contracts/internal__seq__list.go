//go:build verif

// Contracts for internal/seq/list (property C19). Comment-only file: see /verif/DESIGN.md section 2.1.
//
// Memory abstraction: cells of type list[A] are written only by the composite literal
// that allocates them and are never compared by identity, so *list[A] is the algebraic
// data type List[A] (nil = empty). Any store into a cell fails obligation model:adt-immutable.

package list

//@ fileprops C19
//@ smt adt list list head tail

//@ type Trait implements seq.Seq
//@   model elems(self, s) = s.list
//@   model wf(self, s) = s.len == len(s.list)

//@ func (Trait) New
//@   opt via=subtype
//@   opt lemmas=drop_len,drop_nth
//@   opt overflow=off
//@   loop 0 invariant 0 - 1 <= i && i < len(seq) && tail == drop(i + 1, seq)
//@   loop 0 decreases i + 1

//@ func (Trait) Cons
//@   opt via=subtype
//@   opt overflow=off

//@ func (Trait) Tail
//@   opt via=subtype
//@   opt overflow=off
