//go:build verif

// Contracts for hseq (properties C03, C01, C02). Comment-only file: see /verif/DESIGN.md
// sections 2.1, 3 and 6/C03. reflect.Type is a value of the Layout datatype; flatten is the
// depth-first listing of a struct's fields (spec template Hseq in /verif/specs/list.smt2).

package hseq

//@ fileprops C03 C01 C02

// the name of an entry is the first comma-separated part of its hseq tag, else the field name
//@ func (Type) FieldKey
//@   pure
//@   ensures result == fieldkey(self)

// unfold appends the listing of cat's fields: one entry per field in declaration order, an
// embedded struct (by value or by pointer) followed by its own fields, consecutive IDs, root
// offsets accumulated along value embedding
//@ func unfold
//@   loops 1
//@   opt slices=owned
//@   opt overflow=off
//@   opt lemmas=drop_nth,drop_len
//@   ghost seq0 := seq
//@   panics_when !isstruct(cat)
//@   ensures listing: result == flatten(fieldsof(cat), offset, seq0)
//@   loop 0 invariant 0 <= i && i <= len(fieldsof(cat))
//@   loop 0 invariant flatten(drop(i, fieldsof(cat)), offset, seq) == flatten(fieldsof(cat), offset, seq0)
//@   loop 0 decreases len(fieldsof(cat)) - i

// New lists all fields of T (of *T's element), or the entries of the requested names in the
// requested order; it fails loudly for a non-struct or an unknown name
//@ func New
//@   loops 1
//@   opt overflow=off
//@   opt lemmas=nth_upd,len_upd,drop_nth
//@   ghost cat := pureof(rtypeof(T))
//@   ghost all := flatten(fieldsof(pureof(rtypeof(T))), 0, [])
//@   panics_when !isstruct(cat) || !allhave(all, names)
//@   ensures full_listing: len(names) == 0 ==> result == all
//@   ensures selection_keeps_requested_order: len(names) > 0 ==> len(result) == len(names) && (forall j Int :: 0 <= j && j < len(names) ==> result[j] == firstname(all, names[j]))
//@   loop 0 invariant seq == all && len(nseq) == len(names) && idx + len(rest) == len(names) && rest == drop(idx, names) && allhave(all, names) == allhave(all, rest)
//@   loop 0 invariant forall j Int :: 0 <= j && j < idx ==> nseq[j] == firstname(all, names[j])

// lookups return the first matching entry of the listing or fail loudly
//@ func ForType
//@   loops 1
//@   panics_when !hastype(seq, rtypeof(A))
//@   ensures first_entry_of_that_type: result == firsttype(seq, rtypeof(A))
//@   loop 0 invariant hastype(rest, rtypeof(A)) == hastype(seq, rtypeof(A)) && (hastype(seq, rtypeof(A)) ==> firsttype(rest, rtypeof(A)) == firsttype(seq, rtypeof(A)))

//@ func ForName
//@   loops 1
//@   panics_when !hasname(seq, field)
//@   ensures first_entry_of_that_name: result == firstname(seq, field)
//@   loop 0 invariant hasname(rest, field) == hasname(seq, field) && (hasname(seq, field) ==> firstname(rest, field) == firstname(seq, field))

//@ func ForNameMaybe
//@   loops 1
//@   ensures reports_absence: result1 == hasname(seq, field)
//@   ensures first_entry_of_that_name: result1 ==> result == firstname(seq, field)
//@   loop 0 invariant hasname(rest, field) == hasname(seq, field) && (hasname(seq, field) ==> firstname(rest, field) == firstname(seq, field))

//@ func FMap
//@   loops 1
//@   opt overflow=off
//@   opt lemmas=nth_upd,len_upd,drop_nth
//@   ensures one_result_per_entry_in_order: len(result) == len(seq) && (forall j Int :: 0 <= j && j < len(seq) ==> result[j] == app(f, seq[j]))
//@   loop 0 invariant len(val) == len(seq) && idx + len(rest) == len(seq) && rest == drop(idx, seq) && (forall j Int :: 0 <= j && j < idx ==> val[j] == app(f, seq[j]))

//@ func New1
//@   ghost all := flatten(fieldsof(pureof(rtypeof(T))), 0, [])
//@   panics_when !isstruct(pureof(rtypeof(T))) || !hastype(all, rtypeof(A))
//@   ensures one_entry_per_requested_type_in_order: result == [firsttype(all, rtypeof(A))]

//@ func New2
//@   ghost all := flatten(fieldsof(pureof(rtypeof(T))), 0, [])
//@   panics_when !isstruct(pureof(rtypeof(T))) || !hastype(all, rtypeof(A)) || !hastype(all, rtypeof(B))
//@   ensures one_entry_per_requested_type_in_order: result == [firsttype(all, rtypeof(A)), firsttype(all, rtypeof(B))]

//@ func New3
//@   ghost all := flatten(fieldsof(pureof(rtypeof(T))), 0, [])
//@   panics_when !isstruct(pureof(rtypeof(T))) || !hastype(all, rtypeof(A)) || !hastype(all, rtypeof(B)) || !hastype(all, rtypeof(C))
//@   ensures one_entry_per_requested_type_in_order: result == [firsttype(all, rtypeof(A)), firsttype(all, rtypeof(B)), firsttype(all, rtypeof(C))]

//@ func New4
//@   ghost all := flatten(fieldsof(pureof(rtypeof(T))), 0, [])
//@   panics_when !isstruct(pureof(rtypeof(T))) || !hastype(all, rtypeof(A)) || !hastype(all, rtypeof(B)) || !hastype(all, rtypeof(C)) || !hastype(all, rtypeof(D))
//@   ensures one_entry_per_requested_type_in_order: result == [firsttype(all, rtypeof(A)), firsttype(all, rtypeof(B)), firsttype(all, rtypeof(C)), firsttype(all, rtypeof(D))]

//@ func New5
//@   ghost all := flatten(fieldsof(pureof(rtypeof(T))), 0, [])
//@   panics_when !isstruct(pureof(rtypeof(T))) || !hastype(all, rtypeof(A)) || !hastype(all, rtypeof(B)) || !hastype(all, rtypeof(C)) || !hastype(all, rtypeof(D)) || !hastype(all, rtypeof(E))
//@   ensures one_entry_per_requested_type_in_order: result == [firsttype(all, rtypeof(A)), firsttype(all, rtypeof(B)), firsttype(all, rtypeof(C)), firsttype(all, rtypeof(D)), firsttype(all, rtypeof(E))]

//@ func New6
//@   ghost all := flatten(fieldsof(pureof(rtypeof(T))), 0, [])
//@   panics_when !isstruct(pureof(rtypeof(T))) || !hastype(all, rtypeof(A)) || !hastype(all, rtypeof(B)) || !hastype(all, rtypeof(C)) || !hastype(all, rtypeof(D)) || !hastype(all, rtypeof(E)) || !hastype(all, rtypeof(F))
//@   ensures one_entry_per_requested_type_in_order: result == [firsttype(all, rtypeof(A)), firsttype(all, rtypeof(B)), firsttype(all, rtypeof(C)), firsttype(all, rtypeof(D)), firsttype(all, rtypeof(E)), firsttype(all, rtypeof(F))]

//@ func New7
//@   ghost all := flatten(fieldsof(pureof(rtypeof(T))), 0, [])
//@   panics_when !isstruct(pureof(rtypeof(T))) || !hastype(all, rtypeof(A)) || !hastype(all, rtypeof(B)) || !hastype(all, rtypeof(C)) || !hastype(all, rtypeof(D)) || !hastype(all, rtypeof(E)) || !hastype(all, rtypeof(F)) || !hastype(all, rtypeof(G))
//@   ensures one_entry_per_requested_type_in_order: result == [firsttype(all, rtypeof(A)), firsttype(all, rtypeof(B)), firsttype(all, rtypeof(C)), firsttype(all, rtypeof(D)), firsttype(all, rtypeof(E)), firsttype(all, rtypeof(F)), firsttype(all, rtypeof(G))]

//@ func New8
//@   ghost all := flatten(fieldsof(pureof(rtypeof(T))), 0, [])
//@   panics_when !isstruct(pureof(rtypeof(T))) || !hastype(all, rtypeof(A)) || !hastype(all, rtypeof(B)) || !hastype(all, rtypeof(C)) || !hastype(all, rtypeof(D)) || !hastype(all, rtypeof(E)) || !hastype(all, rtypeof(F)) || !hastype(all, rtypeof(G)) || !hastype(all, rtypeof(H))
//@   ensures one_entry_per_requested_type_in_order: result == [firsttype(all, rtypeof(A)), firsttype(all, rtypeof(B)), firsttype(all, rtypeof(C)), firsttype(all, rtypeof(D)), firsttype(all, rtypeof(E)), firsttype(all, rtypeof(F)), firsttype(all, rtypeof(G)), firsttype(all, rtypeof(H))]

//@ func New9
//@   ghost all := flatten(fieldsof(pureof(rtypeof(T))), 0, [])
//@   panics_when !isstruct(pureof(rtypeof(T))) || !hastype(all, rtypeof(A)) || !hastype(all, rtypeof(B)) || !hastype(all, rtypeof(C)) || !hastype(all, rtypeof(D)) || !hastype(all, rtypeof(E)) || !hastype(all, rtypeof(F)) || !hastype(all, rtypeof(G)) || !hastype(all, rtypeof(H)) || !hastype(all, rtypeof(I))
//@   ensures one_entry_per_requested_type_in_order: result == [firsttype(all, rtypeof(A)), firsttype(all, rtypeof(B)), firsttype(all, rtypeof(C)), firsttype(all, rtypeof(D)), firsttype(all, rtypeof(E)), firsttype(all, rtypeof(F)), firsttype(all, rtypeof(G)), firsttype(all, rtypeof(H)), firsttype(all, rtypeof(I))]

//@ func FMap1
//@   inline
//@   requires len(ts) >= 1
//@   ensures ith_entry_to_ith_function: result == app($2, $1[0])

//@ func FMap2
//@   inline
//@   requires len(ts) >= 2
//@   ensures ith_entry_to_ith_function: result == app($2, $1[0]) && result1 == app($3, $1[1])

//@ func FMap3
//@   inline
//@   requires len(ts) >= 3
//@   ensures ith_entry_to_ith_function: result == app($2, $1[0]) && result1 == app($3, $1[1]) && result2 == app($4, $1[2])

//@ func FMap4
//@   inline
//@   requires len(ts) >= 4
//@   ensures ith_entry_to_ith_function: result == app($2, $1[0]) && result1 == app($3, $1[1]) && result2 == app($4, $1[2]) && result3 == app($5, $1[3])

//@ func FMap5
//@   inline
//@   requires len(ts) >= 5
//@   ensures ith_entry_to_ith_function: result == app($2, $1[0]) && result1 == app($3, $1[1]) && result2 == app($4, $1[2]) && result3 == app($5, $1[3]) && result4 == app($6, $1[4])

//@ func FMap6
//@   inline
//@   requires len(ts) >= 6
//@   ensures ith_entry_to_ith_function: result == app($2, $1[0]) && result1 == app($3, $1[1]) && result2 == app($4, $1[2]) && result3 == app($5, $1[3]) && result4 == app($6, $1[4]) && result5 == app($7, $1[5])

//@ func FMap7
//@   inline
//@   requires len(ts) >= 7
//@   ensures ith_entry_to_ith_function: result == app($2, $1[0]) && result1 == app($3, $1[1]) && result2 == app($4, $1[2]) && result3 == app($5, $1[3]) && result4 == app($6, $1[4]) && result5 == app($7, $1[5]) && result6 == app($8, $1[6])

//@ func FMap8
//@   inline
//@   requires len(ts) >= 8
//@   ensures ith_entry_to_ith_function: result == app($2, $1[0]) && result1 == app($3, $1[1]) && result2 == app($4, $1[2]) && result3 == app($5, $1[3]) && result4 == app($6, $1[4]) && result5 == app($7, $1[5]) && result6 == app($8, $1[6]) && result7 == app($9, $1[7])

//@ func FMap9
//@   inline
//@   requires len(ts) >= 9
//@   ensures ith_entry_to_ith_function: result == app($2, $1[0]) && result1 == app($3, $1[1]) && result2 == app($4, $1[2]) && result3 == app($5, $1[3]) && result4 == app($6, $1[4]) && result5 == app($7, $1[5]) && result6 == app($8, $1[6]) && result7 == app($9, $1[7]) && result8 == app($10, $1[8])
