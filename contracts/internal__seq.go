//go:build verif

// Contracts for internal/seq (property C19). Comment-only file: see /verif/DESIGN.md section 2.1.
//
// seq.Seq[F_, A] is one abstract data type: every value s of the container type has an
// element list elems(s) and a representation invariant wf(s). Both implementations
// (linked list and slice) are verified against these method contracts, hence any script of
// the operations yields the same element list on both.

package seq

//@ fileprops C19

//@ interface Seq
//@   ghostmethod elems(s F_) : List[A]
//@   ghostmethod wf(s F_) : Bool
//@   method New
//@     pure
//@     ensures elements: self.elems(result) == $1
//@     ensures length: len(self.elems(result)) == len($1)
//@     ensures wellformed: self.wf(result)
//@   method Cons
//@     pure
//@     requires self.wf($2)
//@     ensures elements: self.elems(result) == cons($1, self.elems($2))
//@     ensures wellformed: self.wf(result)
//@   method Head
//@     pure
//@     requires self.wf($1) && self.elems($1) != []
//@     ensures head: result == hd(self.elems($1))
//@   method Tail
//@     pure
//@     requires self.wf($1) && self.elems($1) != []
//@     ensures elements: self.elems(result) == tl(self.elems($1))
//@     ensures wellformed: self.wf(result)
//@   method Length
//@     pure
//@     requires self.wf($1)
//@     ensures length: result == len(self.elems($1))
//@   method IsEmpty
//@     pure
//@     requires self.wf($1)
//@     ensures empty_iff_length_zero: result == (len(self.elems($1)) == 0)

// Fold combines the elements left to right starting from the monoid's empty element
//@ func (Foldable) Fold
//@   loops 1
//@   requires self.Seq != nil && m != nil
//@   requires self.Seq.wf(seq)
//@   ensures left_fold: result == foldm(m, m.Empty(), self.Seq.elems(seq))
//@   loop 0 invariant self.Seq.wf(s) && foldm(m, x, self.Seq.elems(s)) == foldm(m, m.Empty(), self.Seq.elems(seq))
//@   loop 0 decreases len(self.Seq.elems(s))
