//go:build verif

// Contracts for trait/seq (properties C14, C15). Comment-only file: see /verif/DESIGN.md section 2.1.
//
// An iterator is an object with abstract state view (the non-empty list of elements from
// the current one on) and done (Next has returned false). nil is the empty list:
// seqlist(x) = [] for nil, view(x) otherwise. Iterators own their children (tree-shaped
// expressions): a constructor takes over its arguments.

package seq

//@ fileprops C14 C15
// Ownership of iterators (DESIGN 6/C14): an iterator handed to a combinator belongs to it
// from then on and advancing it changes the abstract state of the whole tree below it. The
// frame of these functions (which objects of the tree they advance) is therefore not stated
// location by location and not checked; expression trees are assumed to share no iterator.
//@ fileopt frame=off

//@ interface Seq
//@   state view : List[T]
//@   state done : Bool
//@   method Value
//@     pure
//@     requires !done(self) && view(self) != []
//@     ensures current: result == hd(view(self))
//@   method Next
//@     requires !done(self) && view(self) != []
//@     modifies view(self), done(self)
//@     opt set done(self) = !result
//@     ensures more: result == (tl(old(view(self))) != [])
//@     ensures advance: result ==> view(self) == tl(old(view(self)))

// ---- implementations: abstract state as a function of the fields ----

//@ type element implements Seq
//@   model view(self) = [self.v]

//@ type *seqOf implements Seq
//@   objinv !done(self) ==> self.el != []
//@   model view(self) = self.el

//@ type *takeWhile implements Seq
//@   objinv !done(self) ==> self.f != nil && self.Seq != nil && self.Seq != self && !done(self.Seq) && view(self.Seq) != [] && app(self.f, hd(view(self.Seq)))
//@   model view(self) = takew(self.f, view(self.Seq))

//@ type filter implements Seq
//@   objinv !done(self) ==> self.f != nil && self.Seq != nil && self.Seq != self && !done(self.Seq) && view(self.Seq) != [] && app(self.f, hd(view(self.Seq)))
//@   model view(self) = filter(self.f, view(self.Seq))

//@ type fmap implements Seq
//@   objinv !done(self) ==> self.Seq != nil && self.Seq != self && !done(self.Seq) && view(self.Seq) != []
//@   model view(self) = map(self.f, view(self.Seq))

//@ type *plus implements Seq
//@   objinv !done(self) ==> self.Seq != nil && self.Seq != self && !done(self.Seq) && view(self.Seq) != []
//@   objinv !done(self) && self.rhs != nil ==> self.rhs != self && self.rhs != self.Seq && !done(self.rhs) && view(self.rhs) != []
//@   model view(self) = view(self.Seq) ++ seqlist(self.rhs)

//@ type *join implements Seq
//@   objinv !done(self) ==> self.Seq != nil
//@   objinv !done(self) ==> self.Seq != self
//@   objinv !done(self) ==> !done(self.Seq)
//@   objinv !done(self) ==> view(self.Seq) != []
//@   objinv !done(self) ==> self.lhs != nil && self.lhs != self && self.lhs != self.Seq && !done(self.lhs) && view(self.lhs) != []
//@   model view(self) = view(self.Seq) ++ flatmap(self.rhs, tl(view(self.lhs)))

// ---- loops inside methods ----

//@ func (filter) Next
//@   opt via=subtype
//@   loop 0 invariant !done(self.Seq) && view(self.Seq) != [] && filter(self.f, tl(view(self.Seq))) == tl(old(view(self)))
//@   loop 0 decreases len(view(self.Seq))

//@ func (*plus) Next
//@   opt via=subtype
//@   opt lemmas=cat_nil

//@ func (*join) Next
//@   opt via=subtype
//@   loop 0 invariant self.lhs == old(self.lhs) && self.rhs == old(self.rhs) && self.lhs != self && !done(self.lhs) && view(self.lhs) != [] && flatmap(self.rhs, tl(view(self.lhs))) == tl(old(view(self)))
//@   loop 0 decreases len(view(self.lhs))
//@   fn rhs:
//@     ensures (result == nil) == (rhsview(rhs, $1) == [])
//@     ensures result != nil ==> fresh(result) && !done(result) && view(result) == rhsview(rhs, $1)

// ---- constructors: the list of the result is the list function of the argument lists ----

//@ func From
//@   props C14
//@   ensures result != nil && !done(result)
//@   ensures list: view(result) == [xs]

//@ func FromSlice
//@   props C14
//@   ensures result != nil ==> !done(result) && view(result) != []
//@   ensures list: seqlist(result) == xs

//@ func TakeWhile
//@   props C14
//@   requires f != nil
//@   requires seq != nil ==> !done(seq) && view(seq) != []
//@   ensures result != nil ==> !done(result) && view(result) != []
//@   ensures list: seqlist(result) == takew(f, old(seqlist(seq)))

//@ func DropWhile
//@   loops 1
//@   props C14
//@   requires seq != nil ==> !done(seq) && view(seq) != []
//@   ensures result != nil ==> !done(result) && view(result) != []
//@   ensures list: seqlist(result) == dropw(f, old(seqlist(seq)))
//@   loop 0 invariant !done(seq) && view(seq) != [] && dropw(f, view(seq)) == dropw(f, old(view(seq)))
//@   loop 0 decreases len(view(seq))

//@ func Filter
//@   loops 1
//@   props C14
//@   requires f != nil
//@   requires seq != nil ==> !done(seq) && view(seq) != []
//@   ensures result != nil ==> !done(result) && view(result) != []
//@   ensures list: seqlist(result) == filter(f, old(seqlist(seq)))
//@   loop 0 invariant !done(seq) && view(seq) != [] && filter(f, view(seq)) == filter(f, old(view(seq)))
//@   loop 0 decreases len(view(seq))

//@ func Map
//@   props C14
//@   requires seq != nil ==> !done(seq) && view(seq) != []
//@   ensures result != nil ==> !done(result) && view(result) != []
//@   ensures list: seqlist(result) == map(f, old(seqlist(seq)))

//@ func Plus
//@   props C14
//@   opt lemmas=cat_nil
//@   requires lhs != nil ==> !done(lhs) && view(lhs) != []
//@   requires rhs != nil ==> !done(rhs) && view(rhs) != []
//@   requires lhs != nil && rhs != nil ==> lhs != rhs
//@   ensures result != nil ==> !done(result) && view(result) != []
//@   ensures list: seqlist(result) == old(seqlist(lhs)) ++ old(seqlist(rhs))

//@ func Join
//@   loops 1
//@   props C14
//@   requires lhs != nil ==> !done(lhs) && view(lhs) != []
//@   ensures result != nil ==> !done(result) && view(result) != []
//@   ensures list: seqlist(result) == flatmap(rhs, old(seqlist(lhs)))
//@   loop 0 invariant join.lhs == lhs && join.rhs == rhs && join != lhs && !done(lhs) && view(lhs) != [] && flatmap(rhs, view(lhs)) == flatmap(rhs, old(view(lhs)))
//@   loop 0 decreases len(view(lhs))
//@   fn rhs:
//@     ensures (result == nil) == (rhsview(rhs, $1) == [])
//@     ensures result != nil ==> fresh(result) && !done(result) && view(result) == rhsview(rhs, $1)

// ForEach visits the list in order and stops with the first error returned
//@ func ForEach
//@   loops 1
//@   props C14
//@   opt calltrace=on
//@   requires seq != nil ==> !done(seq) && view(seq) != []
//@   ensures visits_in_order_until_first_error: calls == evl(f, old(calls), untilerr(f, old(seqlist(seq))))
//@   ensures returns_first_error: result == firsterr(f, old(seqlist(seq)))
//@   loop 0 invariant has ==> seq != nil && !done(seq) && view(seq) != []
//@   loop 0 invariant evl(f, calls, untilerr(f, ite(has, view(seq), []))) == evl(f, old(calls), untilerr(f, old(seqlist(seq))))
//@   loop 0 invariant firsterr(f, ite(has, view(seq), [])) == firsterr(f, old(seqlist(seq)))
