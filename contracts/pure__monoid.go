//go:build verif

// Contracts for pure/monoid (property C17). Comment-only file: see /verif/DESIGN.md section 2.1.

package monoid

//@ fileprops C17 C10 C05 C19

//@ interface Monoid
//@   method Empty
//@     pure

//@ type monoid implements Monoid
//@   opt props = C17
//@   objinv self.Semigroup != nil
//@   model Empty(self) = self.empty
//@   model Combine(self, a, b) = self.Semigroup.Combine(a, b)

// monoid.From / FromOp: Empty is the given element, Combine the given operation with its
// arguments in order
//@ func From
//@   props C17
//@   requires combine != nil
//@   ensures empty_is_given: result.Empty() == empty
//@   ensures combine_is_given: forall a T, b T :: result.Combine(a, b) == combine.Combine(a, b)

//@ func FromOp
//@   props C17
//@   ensures empty_is_given: result.Empty() == empty
//@   ensures combine_is_given: forall a T, b T :: result.Combine(a, b) == app(combine, a, b)
