//go:build verif

// Contracts for optics (properties C01, C02, C04). Comment-only file: see /verif/DESIGN.md section 2.1.
// Assembled by /verif/tools/gen_optics_contracts.py (hand-written part + positional ShapeN part).

package optics

//@ fileprops C04

// A lens is a pair of abstract functions get : S -> A and put : S x A -> S of the instance.
// Get reads through the pointer and changes nothing; Put replaces *s by put(*s, a), changes
// nothing else, and returns the same pointer.
//@ interface Lens
//@   ghostmethod get(s S) : A
//@   ghostmethod put(s S, a A) : S
//@   ghostmethod foff() : Int
//@   method Get
//@     requires $1 != nil
//@     ensures reads_focus: result == self.get(deref($1))
//@   method Put
//@     requires $1 != nil
//@     modifies deref($1)
//@     ensures same_pointer: result == $1
//@     ensures writes_focus: deref($1) == self.put(old(deref($1)), $2)

// a map lens touches only its key (store/select on the map)
//@ type *lensM implements Lens
//@   model get(self, s) = s[self.key]
//@   model put(self, s, a) = store(s, self.key, a)

// Join focuses the nested field: get = get_b . get_a ; put writes b inside a inside s
//@ type join implements Lens
//@   objinv self.a != nil && self.b != nil
//@   model get(self, s) = self.b.get(self.a.get(s))
//@   model put(self, s, v) = self.a.put(s, self.b.put(self.a.get(s), v))

// Getter never writes
//@ type fmap implements Lens
//@   objinv self.lens != nil
//@   model get(self, s) = app(self.f, self.lens.get(s))
//@   model put(self, s, v) = s

// Setter writes exactly the converted value
//@ type cmap implements Lens
//@   objinv self.lens != nil
//@   model get(self, s) = zero(B)
//@   model put(self, s, v) = self.lens.put(s, app(self.f, v))

// BiMap: get converts forth, put converts back
//@ type codec implements Lens
//@   objinv self.lens != nil
//@   model get(self, s) = app(self.fmap, self.lens.get(s))
//@   model put(self, s, v) = self.lens.put(s, app(self.cmap, v))

//@ func NewLensM
//@   ensures result != nil
//@   ensures forall s S :: result.get(s) == s[key]
//@   ensures touches_only_its_key: forall s S, v A :: result.put(s, v) == store(s, key, v)

//@ func Join
//@   requires a != nil && b != nil
//@   ensures result != nil
//@   ensures forall s S :: result.get(s) == b.get(a.get(s))
//@   ensures forall s S, v B :: result.put(s, v) == a.put(s, b.put(a.get(s), v))

//@ func Getter
//@   requires lens != nil
//@   ensures result != nil
//@   ensures forall s S :: result.get(s) == app(f, lens.get(s))
//@   ensures never_writes: forall s S, v B :: result.put(s, v) == s

//@ func Setter
//@   requires lens != nil
//@   ensures result != nil
//@   ensures writes_converted: forall s S, v B :: result.put(s, v) == lens.put(s, app(f, v))

//@ func BiMap
//@   requires lens != nil
//@   ensures result != nil
//@   ensures forall s S :: result.get(s) == app(fmap, lens.get(s))
//@   ensures forall s S, v B :: result.put(s, v) == lens.put(s, app(cmap, v))

// BiMapS/B/I/F: the codec over the field lens that ForProduct1 derives for the same names
//@ func BiMapS
//@   props C04
//@   opt overflow=off
//@   ghost all := flatten(fieldsof(pureof(rtypeof(S))), 0, [])
//@   ghost off := ite(len(attr) == 0, loc(firsttype(all, rtypeof(A))), loc(firstname(all, attr[0])))
//@   may_panic_when true
//@   ensures result != nil
//@   ensures reads_the_named_field_converted: forall s S :: result.get(s) == conv(fget(s, off, A), B)
//@   ensures writes_the_named_field_converted: forall s S, v B :: result.put(s, v) == fput(s, off, conv(v, A))
//@   fn 0:
//@     pure
//@     ensures result == conv($1, B)
//@   fn 1:
//@     pure
//@     ensures result == conv($1, A)

//@ func BiMapB
//@   props C04
//@   opt overflow=off
//@   ghost all := flatten(fieldsof(pureof(rtypeof(S))), 0, [])
//@   ghost off := ite(len(attr) == 0, loc(firsttype(all, rtypeof(A))), loc(firstname(all, attr[0])))
//@   may_panic_when true
//@   ensures result != nil
//@   ensures reads_the_named_field_converted: forall s S :: result.get(s) == conv(fget(s, off, A), B)
//@   ensures writes_the_named_field_converted: forall s S, v B :: result.put(s, v) == fput(s, off, conv(v, A))
//@   fn 0:
//@     pure
//@     ensures result == conv($1, B)
//@   fn 1:
//@     pure
//@     ensures result == conv($1, A)

//@ func BiMapI
//@   props C04
//@   opt overflow=off
//@   ghost all := flatten(fieldsof(pureof(rtypeof(S))), 0, [])
//@   ghost off := ite(len(attr) == 0, loc(firsttype(all, rtypeof(A))), loc(firstname(all, attr[0])))
//@   may_panic_when true
//@   ensures result != nil
//@   ensures reads_the_named_field_converted: forall s S :: result.get(s) == conv(fget(s, off, A), B)
//@   ensures writes_the_named_field_converted: forall s S, v B :: result.put(s, v) == fput(s, off, conv(v, A))
//@   fn 0:
//@     pure
//@     ensures result == conv($1, B)
//@   fn 1:
//@     pure
//@     ensures result == conv($1, A)

//@ func BiMapF
//@   props C04
//@   opt overflow=off
//@   ghost all := flatten(fieldsof(pureof(rtypeof(S))), 0, [])
//@   ghost off := ite(len(attr) == 0, loc(firsttype(all, rtypeof(A))), loc(firstname(all, attr[0])))
//@   may_panic_when true
//@   ensures result != nil
//@   ensures reads_the_named_field_converted: forall s S :: result.get(s) == conv(fget(s, off, A), B)
//@   ensures writes_the_named_field_converted: forall s S, v B :: result.put(s, v) == fput(s, off, conv(v, A))
//@   fn 0:
//@     pure
//@     ensures result == conv($1, B)
//@   fn 1:
//@     pure
//@     ensures result == conv($1, A)

// Isomorphism: Forward copies the source focus into the target focus; Inverse the reverse
//@ interface Isomorphism
//@   ghostmethod fwd(s S, t T) : T
//@   ghostmethod inv(t T, s S) : S
//@   method Forward
//@     requires $1 != nil && $2 != nil
//@     modifies deref($2)
//@     ensures target_gets_source_focus: deref($2) == self.fwd(deref($1), old(deref($2)))
//@   method Inverse
//@     requires $1 != nil && $2 != nil
//@     modifies deref($2)
//@     ensures source_gets_target_focus: deref($2) == self.inv(deref($1), old(deref($2)))

//@ type iso implements Isomorphism
//@   objinv self.sa != nil && self.ta != nil
//@   model fwd(self, s, t) = self.ta.put(t, self.sa.get(s))
//@   model inv(self, t, s) = self.sa.put(s, self.ta.get(t))

// a Morphism applies its isos in order, skipping nil entries
//@ type morphism implements Isomorphism
//@   model fwd(self, s, t) = mfwd(self, s, t)
//@   model inv(self, t, s) = minv(self, t, s)

//@ func (morphism) Forward
//@   opt via=subtype
//@   loop 0 invariant deref(s) == old(deref(s)) && mfwd(rest, deref(s), deref(t)) == mfwd(range, old(deref(s)), old(deref(t)))
//@   loop 0 invariant nothing_else_written: (forall q *S :: deref(q) == old(deref(q))) && (forall q *T :: q != t ==> deref(q) == old(deref(q)))
//@ func (morphism) Inverse
//@   opt via=subtype
//@   loop 0 invariant deref(t) == old(deref(t)) && minv(rest, deref(t), deref(s)) == minv(range, old(deref(t)), old(deref(s)))
//@   loop 0 invariant nothing_else_written: (forall q *T :: deref(q) == old(deref(q))) && (forall q *S :: q != s ==> deref(q) == old(deref(q)))

//@ func Iso
//@   requires sa != nil && ta != nil
//@   ensures result != nil
//@   ensures forall s S, t T :: result.fwd(s, t) == ta.put(t, sa.get(s))
//@   ensures forall s S, t T :: result.inv(t, s) == sa.put(s, ta.get(t))

//@ func Morphism
//@   ensures result != nil
//@   ensures forall s S, t T :: result.fwd(s, t) == mfwd(seq, s, t)
//@   ensures forall s S, t T :: result.inv(t, s) == minv(seq, t, s)

// ---- property-level lemmas over the models above (pure algebra over get/put) ----
//@ smt (declare-sort LS 0)
//@ smt (declare-sort LA 0)
//@ smt (declare-sort LB 0)
//@ smt (declare-sort LT 0)
//@ smt (declare-fun geta (LS) LA)
//@ smt (declare-fun puta (LS LA) LS)
//@ smt (declare-fun getb (LA) LB)
//@ smt (declare-fun putb (LA LB) LA)
//@ smt (declare-fun gett (LT) LA)
//@ smt (declare-fun putt (LT LA) LT)
//@ smt (declare-fun fm (LA) LB)
//@ smt (declare-fun cm (LB) LA)
//@ smt (define-fun lawfulA () Bool (and (forall ((s LS)) (= (puta s (geta s)) s)) (forall ((s LS) (a LA)) (= (geta (puta s a)) a)) (forall ((s LS) (a LA) (b LA)) (= (puta (puta s a) b) (puta s b)))))
//@ smt (define-fun lawfulB () Bool (and (forall ((s LA)) (= (putb s (getb s)) s)) (forall ((s LA) (a LB)) (= (getb (putb s a)) a)) (forall ((s LA) (a LB) (b LB)) (= (putb (putb s a) b) (putb s b)))))
//@ smt (define-fun lawfulT () Bool (and (forall ((s LT)) (= (putt s (gett s)) s)) (forall ((s LT) (a LA)) (= (gett (putt s a)) a)) (forall ((s LT) (a LA) (b LA)) (= (putt (putt s a) b) (putt s b)))))
//@ rawlemma join_getput: (=> (and lawfulA lawfulB) (forall ((s LS)) (= (puta s (putb (geta s) (getb (geta s)))) s)))
//@ rawlemma join_putget: (=> (and lawfulA lawfulB) (forall ((s LS) (v LB)) (= (getb (geta (puta s (putb (geta s) v)))) v)))
//@ rawlemma join_putput: (=> (and lawfulA lawfulB) (forall ((s LS) (v LB) (w LB)) (= (puta (puta s (putb (geta s) v)) (putb (geta (puta s (putb (geta s) v))) w)) (puta s (putb (geta s) w)))))
//@ rawlemma bimap_getput: (=> (and lawfulA (forall ((a LA)) (= (cm (fm a)) a)) (forall ((b LB)) (= (fm (cm b)) b))) (forall ((s LS)) (= (puta s (cm (fm (geta s)))) s)))
//@ rawlemma bimap_putget: (=> (and lawfulA (forall ((a LA)) (= (cm (fm a)) a)) (forall ((b LB)) (= (fm (cm b)) b))) (forall ((s LS) (v LB)) (= (fm (geta (puta s (cm v)))) v)))
//@ rawlemma bimap_putput: (=> (and lawfulA (forall ((a LA)) (= (cm (fm a)) a)) (forall ((b LB)) (= (fm (cm b)) b))) (forall ((s LS) (v LB) (w LB)) (= (puta (puta s (cm v)) (cm w)) (puta s (cm w)))))
//@ rawlemma iso_roundtrip_restores_source: (=> (and lawfulA lawfulT) (forall ((s LS) (t LT)) (= (puta s (gett (putt t (geta s)))) s)))
//@ rawlemma iso_roundtrip_target_focus: (=> (and lawfulA lawfulT) (forall ((s LS) (t LT)) (= (gett (putt t (geta s))) (geta s))))


// ---- field lenses over struct memory (C01, C02) ----
//
// A struct value is a record of its fields: fget/fput at a location (offset, field type).
// The unsafe access of lens.Get/Put is such an access under the obligation
// safety:validLoc - the location is a field of the struct type, of exactly the accessed
// type, reached without crossing a pointer. That is the object invariant of *lens,
// established at derivation (NewLens / NewReflector check it or panic).

//@ pred loc(e) = e.RootOffs + e.StructField.Offset

//@ func focusable
//@   loops 1
//@   props C01 C02
//@   opt lemmas=drop_nth,drop_len
//@   ensures result == validloc(cat, offset, name, ft)
//@   loop 0 invariant 0 <= i && i <= len(fieldsof(cat)) && isstruct(cat) && validfield(drop(i, fieldsof(cat)), offset, name, ft) == validfield(fieldsof(cat), offset, name, ft)

//@ type *lens implements Lens
//@   opt props = C01 C02
//@   objinv validloc(rtypeof(S), self.Type.StructField.Offset + self.Type.RootOffs, self.Type.StructField.Name, rtypeof(A))
//@   model get(self, s) = fget(s, self.Type.StructField.Offset + self.Type.RootOffs, A)
//@   model put(self, s, a) = fput(s, self.Type.StructField.Offset + self.Type.RootOffs, a)
//@   model foff(self) = self.Type.StructField.Offset + self.Type.RootOffs
//@   model roff(self) = self.Type.StructField.Offset + self.Type.RootOffs

//@ func (*lens) Put
//@   opt via=subtype
//@   opt overflow=off
//@ func (*lens) Get
//@   opt via=subtype
//@   opt overflow=off

// Reflector: anything but a pointer to the container type panics and modifies nothing
//@ func (*lens) Putt
//@   props C01 C02
//@   opt overflow=off
//@   requires self != nil && validloc(rtypeof(S), self.Type.StructField.Offset + self.Type.RootOffs, self.Type.StructField.Name, rtypeof(A))
//@   panics_when !dynptr(s, S)
//@   modifies deref(asptr(s, S))
//@   ensures same_value: result == s
//@   ensures writes_focus: deref(asptr(s, S)) == fput(old(deref(asptr(s, S))), self.Type.StructField.Offset + self.Type.RootOffs, a)

//@ func (*lens) Gett
//@   props C01 C02
//@   opt overflow=off
//@   requires self != nil && validloc(rtypeof(S), self.Type.StructField.Offset + self.Type.RootOffs, self.Type.StructField.Name, rtypeof(A))
//@   panics_when !dynptr(s, S)
//@   ensures reads_focus: result == fget(deref(asptr(s, S)), self.Type.StructField.Offset + self.Type.RootOffs, A)

// derivation returns a lens on exactly that entry - a field of identical type inside the
// struct - or panics
//@ func NewLens
//@   props C01 C02
//@   opt overflow=off
//@   panics_when t.StructField.Type != rtypeof(A) || !validloc(rtypeof(S), loc(t), t.StructField.Name, rtypeof(A))
//@   ensures result != nil
//@   ensures field_offset: result.foff() == loc(t)
//@   ensures focus_is_that_field: forall s S :: result.get(s) == fget(s, result.foff(), A)
//@   ensures writes_that_field: forall s S, v A :: result.put(s, v) == fput(s, result.foff(), v)

//@ interface Reflector
//@   ghostmethod roff() : Int

//@ type *lens implements Reflector
//@   opt props = C99

//@ func NewReflector
//@   props C01 C02
//@   opt overflow=off
//@   panics_when t.StructField.Type != rtypeof(A) || !validloc(rtypeof(S), loc(t), t.StructField.Name, rtypeof(A))
//@   ensures result != nil
//@   ensures focus_is_that_field: result.roff() == loc(t)

//@ func ForProduct1
//@   props C01 C02
//@   opt overflow=off
//@   opt safetyprops=C02
//@   opt lemmas=nth_take,len_take
//@   ghost all := flatten(fieldsof(pureof(rtypeof(T))), 0, [])
//@   may_panic_when true
//@   ensures result != nil
//@   ensures focus_1_by_type: len(attr) == 0 ==> result.foff() == loc(firsttype(all, rtypeof(A)))
//@   ensures focus_1_by_name: len(attr) > 0 ==> result.foff() == loc(firstname(all, attr[0]))
//@   ensures reads_and_writes_that_field_1: (forall s T :: result.get(s) == fget(s, result.foff(), A)) && (forall s T, v A :: result.put(s, v) == fput(s, result.foff(), v))

//@ func ForSpectrum1
//@   props C01 C02
//@   opt overflow=off
//@   opt safetyprops=C02
//@   opt lemmas=nth_take,len_take
//@   ghost all := flatten(fieldsof(pureof(rtypeof(T))), 0, [])
//@   may_panic_when true
//@   ensures result != nil
//@   ensures focus_1_by_type: len(attr) == 0 ==> result.roff() == loc(firsttype(all, rtypeof(A)))
//@   ensures focus_1_by_name: len(attr) > 0 ==> result.roff() == loc(firstname(all, attr[0]))

//@ func ForProduct2
//@   props C01 C02
//@   opt overflow=off
//@   opt safetyprops=C02
//@   opt lemmas=nth_take,len_take
//@   ghost all := flatten(fieldsof(pureof(rtypeof(T))), 0, [])
//@   may_panic_when true
//@   ensures result != nil
//@   ensures focus_1_by_type: len(attr) == 0 ==> result.foff() == loc(firsttype(all, rtypeof(A)))
//@   ensures focus_1_by_name: len(attr) > 0 ==> result.foff() == loc(firstname(all, attr[0]))
//@   ensures reads_and_writes_that_field_1: (forall s T :: result.get(s) == fget(s, result.foff(), A)) && (forall s T, v A :: result.put(s, v) == fput(s, result.foff(), v))
//@   ensures result1 != nil
//@   ensures focus_2_by_type: len(attr) == 0 ==> result1.foff() == loc(firsttype(all, rtypeof(B)))
//@   ensures focus_2_by_name: len(attr) > 0 ==> result1.foff() == loc(firstname(all, attr[1]))
//@   ensures reads_and_writes_that_field_2: (forall s T :: result1.get(s) == fget(s, result1.foff(), B)) && (forall s T, v B :: result1.put(s, v) == fput(s, result1.foff(), v))

//@ func ForSpectrum2
//@   props C01 C02
//@   opt overflow=off
//@   opt safetyprops=C02
//@   opt lemmas=nth_take,len_take
//@   ghost all := flatten(fieldsof(pureof(rtypeof(T))), 0, [])
//@   may_panic_when true
//@   ensures result != nil
//@   ensures focus_1_by_type: len(attr) == 0 ==> result.roff() == loc(firsttype(all, rtypeof(A)))
//@   ensures focus_1_by_name: len(attr) > 0 ==> result.roff() == loc(firstname(all, attr[0]))
//@   ensures result1 != nil
//@   ensures focus_2_by_type: len(attr) == 0 ==> result1.roff() == loc(firsttype(all, rtypeof(B)))
//@   ensures focus_2_by_name: len(attr) > 0 ==> result1.roff() == loc(firstname(all, attr[1]))

//@ func ForProduct3
//@   props C01 C02
//@   opt overflow=off
//@   opt safetyprops=C02
//@   opt lemmas=nth_take,len_take
//@   ghost all := flatten(fieldsof(pureof(rtypeof(T))), 0, [])
//@   may_panic_when true
//@   ensures result != nil
//@   ensures focus_1_by_type: len(attr) == 0 ==> result.foff() == loc(firsttype(all, rtypeof(A)))
//@   ensures focus_1_by_name: len(attr) > 0 ==> result.foff() == loc(firstname(all, attr[0]))
//@   ensures reads_and_writes_that_field_1: (forall s T :: result.get(s) == fget(s, result.foff(), A)) && (forall s T, v A :: result.put(s, v) == fput(s, result.foff(), v))
//@   ensures result1 != nil
//@   ensures focus_2_by_type: len(attr) == 0 ==> result1.foff() == loc(firsttype(all, rtypeof(B)))
//@   ensures focus_2_by_name: len(attr) > 0 ==> result1.foff() == loc(firstname(all, attr[1]))
//@   ensures reads_and_writes_that_field_2: (forall s T :: result1.get(s) == fget(s, result1.foff(), B)) && (forall s T, v B :: result1.put(s, v) == fput(s, result1.foff(), v))
//@   ensures result2 != nil
//@   ensures focus_3_by_type: len(attr) == 0 ==> result2.foff() == loc(firsttype(all, rtypeof(C)))
//@   ensures focus_3_by_name: len(attr) > 0 ==> result2.foff() == loc(firstname(all, attr[2]))
//@   ensures reads_and_writes_that_field_3: (forall s T :: result2.get(s) == fget(s, result2.foff(), C)) && (forall s T, v C :: result2.put(s, v) == fput(s, result2.foff(), v))

//@ func ForSpectrum3
//@   props C01 C02
//@   opt overflow=off
//@   opt safetyprops=C02
//@   opt lemmas=nth_take,len_take
//@   ghost all := flatten(fieldsof(pureof(rtypeof(T))), 0, [])
//@   may_panic_when true
//@   ensures result != nil
//@   ensures focus_1_by_type: len(attr) == 0 ==> result.roff() == loc(firsttype(all, rtypeof(A)))
//@   ensures focus_1_by_name: len(attr) > 0 ==> result.roff() == loc(firstname(all, attr[0]))
//@   ensures result1 != nil
//@   ensures focus_2_by_type: len(attr) == 0 ==> result1.roff() == loc(firsttype(all, rtypeof(B)))
//@   ensures focus_2_by_name: len(attr) > 0 ==> result1.roff() == loc(firstname(all, attr[1]))
//@   ensures result2 != nil
//@   ensures focus_3_by_type: len(attr) == 0 ==> result2.roff() == loc(firsttype(all, rtypeof(C)))
//@   ensures focus_3_by_name: len(attr) > 0 ==> result2.roff() == loc(firstname(all, attr[2]))

//@ func ForProduct4
//@   props C01 C02
//@   opt overflow=off
//@   opt safetyprops=C02
//@   opt lemmas=nth_take,len_take
//@   ghost all := flatten(fieldsof(pureof(rtypeof(T))), 0, [])
//@   may_panic_when true
//@   ensures result != nil
//@   ensures focus_1_by_type: len(attr) == 0 ==> result.foff() == loc(firsttype(all, rtypeof(A)))
//@   ensures focus_1_by_name: len(attr) > 0 ==> result.foff() == loc(firstname(all, attr[0]))
//@   ensures reads_and_writes_that_field_1: (forall s T :: result.get(s) == fget(s, result.foff(), A)) && (forall s T, v A :: result.put(s, v) == fput(s, result.foff(), v))
//@   ensures result1 != nil
//@   ensures focus_2_by_type: len(attr) == 0 ==> result1.foff() == loc(firsttype(all, rtypeof(B)))
//@   ensures focus_2_by_name: len(attr) > 0 ==> result1.foff() == loc(firstname(all, attr[1]))
//@   ensures reads_and_writes_that_field_2: (forall s T :: result1.get(s) == fget(s, result1.foff(), B)) && (forall s T, v B :: result1.put(s, v) == fput(s, result1.foff(), v))
//@   ensures result2 != nil
//@   ensures focus_3_by_type: len(attr) == 0 ==> result2.foff() == loc(firsttype(all, rtypeof(C)))
//@   ensures focus_3_by_name: len(attr) > 0 ==> result2.foff() == loc(firstname(all, attr[2]))
//@   ensures reads_and_writes_that_field_3: (forall s T :: result2.get(s) == fget(s, result2.foff(), C)) && (forall s T, v C :: result2.put(s, v) == fput(s, result2.foff(), v))
//@   ensures result3 != nil
//@   ensures focus_4_by_type: len(attr) == 0 ==> result3.foff() == loc(firsttype(all, rtypeof(D)))
//@   ensures focus_4_by_name: len(attr) > 0 ==> result3.foff() == loc(firstname(all, attr[3]))
//@   ensures reads_and_writes_that_field_4: (forall s T :: result3.get(s) == fget(s, result3.foff(), D)) && (forall s T, v D :: result3.put(s, v) == fput(s, result3.foff(), v))

//@ func ForSpectrum4
//@   props C01 C02
//@   opt overflow=off
//@   opt safetyprops=C02
//@   opt lemmas=nth_take,len_take
//@   ghost all := flatten(fieldsof(pureof(rtypeof(T))), 0, [])
//@   may_panic_when true
//@   ensures result != nil
//@   ensures focus_1_by_type: len(attr) == 0 ==> result.roff() == loc(firsttype(all, rtypeof(A)))
//@   ensures focus_1_by_name: len(attr) > 0 ==> result.roff() == loc(firstname(all, attr[0]))
//@   ensures result1 != nil
//@   ensures focus_2_by_type: len(attr) == 0 ==> result1.roff() == loc(firsttype(all, rtypeof(B)))
//@   ensures focus_2_by_name: len(attr) > 0 ==> result1.roff() == loc(firstname(all, attr[1]))
//@   ensures result2 != nil
//@   ensures focus_3_by_type: len(attr) == 0 ==> result2.roff() == loc(firsttype(all, rtypeof(C)))
//@   ensures focus_3_by_name: len(attr) > 0 ==> result2.roff() == loc(firstname(all, attr[2]))
//@   ensures result3 != nil
//@   ensures focus_4_by_type: len(attr) == 0 ==> result3.roff() == loc(firsttype(all, rtypeof(D)))
//@   ensures focus_4_by_name: len(attr) > 0 ==> result3.roff() == loc(firstname(all, attr[3]))

//@ func ForProduct5
//@   props C01 C02
//@   opt overflow=off
//@   opt safetyprops=C02
//@   opt lemmas=nth_take,len_take
//@   ghost all := flatten(fieldsof(pureof(rtypeof(T))), 0, [])
//@   may_panic_when true
//@   ensures result != nil
//@   ensures focus_1_by_type: len(attr) == 0 ==> result.foff() == loc(firsttype(all, rtypeof(A)))
//@   ensures focus_1_by_name: len(attr) > 0 ==> result.foff() == loc(firstname(all, attr[0]))
//@   ensures reads_and_writes_that_field_1: (forall s T :: result.get(s) == fget(s, result.foff(), A)) && (forall s T, v A :: result.put(s, v) == fput(s, result.foff(), v))
//@   ensures result1 != nil
//@   ensures focus_2_by_type: len(attr) == 0 ==> result1.foff() == loc(firsttype(all, rtypeof(B)))
//@   ensures focus_2_by_name: len(attr) > 0 ==> result1.foff() == loc(firstname(all, attr[1]))
//@   ensures reads_and_writes_that_field_2: (forall s T :: result1.get(s) == fget(s, result1.foff(), B)) && (forall s T, v B :: result1.put(s, v) == fput(s, result1.foff(), v))
//@   ensures result2 != nil
//@   ensures focus_3_by_type: len(attr) == 0 ==> result2.foff() == loc(firsttype(all, rtypeof(C)))
//@   ensures focus_3_by_name: len(attr) > 0 ==> result2.foff() == loc(firstname(all, attr[2]))
//@   ensures reads_and_writes_that_field_3: (forall s T :: result2.get(s) == fget(s, result2.foff(), C)) && (forall s T, v C :: result2.put(s, v) == fput(s, result2.foff(), v))
//@   ensures result3 != nil
//@   ensures focus_4_by_type: len(attr) == 0 ==> result3.foff() == loc(firsttype(all, rtypeof(D)))
//@   ensures focus_4_by_name: len(attr) > 0 ==> result3.foff() == loc(firstname(all, attr[3]))
//@   ensures reads_and_writes_that_field_4: (forall s T :: result3.get(s) == fget(s, result3.foff(), D)) && (forall s T, v D :: result3.put(s, v) == fput(s, result3.foff(), v))
//@   ensures result4 != nil
//@   ensures focus_5_by_type: len(attr) == 0 ==> result4.foff() == loc(firsttype(all, rtypeof(E)))
//@   ensures focus_5_by_name: len(attr) > 0 ==> result4.foff() == loc(firstname(all, attr[4]))
//@   ensures reads_and_writes_that_field_5: (forall s T :: result4.get(s) == fget(s, result4.foff(), E)) && (forall s T, v E :: result4.put(s, v) == fput(s, result4.foff(), v))

//@ func ForSpectrum5
//@   props C01 C02
//@   opt overflow=off
//@   opt safetyprops=C02
//@   opt lemmas=nth_take,len_take
//@   ghost all := flatten(fieldsof(pureof(rtypeof(T))), 0, [])
//@   may_panic_when true
//@   ensures result != nil
//@   ensures focus_1_by_type: len(attr) == 0 ==> result.roff() == loc(firsttype(all, rtypeof(A)))
//@   ensures focus_1_by_name: len(attr) > 0 ==> result.roff() == loc(firstname(all, attr[0]))
//@   ensures result1 != nil
//@   ensures focus_2_by_type: len(attr) == 0 ==> result1.roff() == loc(firsttype(all, rtypeof(B)))
//@   ensures focus_2_by_name: len(attr) > 0 ==> result1.roff() == loc(firstname(all, attr[1]))
//@   ensures result2 != nil
//@   ensures focus_3_by_type: len(attr) == 0 ==> result2.roff() == loc(firsttype(all, rtypeof(C)))
//@   ensures focus_3_by_name: len(attr) > 0 ==> result2.roff() == loc(firstname(all, attr[2]))
//@   ensures result3 != nil
//@   ensures focus_4_by_type: len(attr) == 0 ==> result3.roff() == loc(firsttype(all, rtypeof(D)))
//@   ensures focus_4_by_name: len(attr) > 0 ==> result3.roff() == loc(firstname(all, attr[3]))
//@   ensures result4 != nil
//@   ensures focus_5_by_type: len(attr) == 0 ==> result4.roff() == loc(firsttype(all, rtypeof(E)))
//@   ensures focus_5_by_name: len(attr) > 0 ==> result4.roff() == loc(firstname(all, attr[4]))

//@ func ForProduct6
//@   props C01 C02
//@   opt overflow=off
//@   opt safetyprops=C02
//@   opt lemmas=nth_take,len_take
//@   ghost all := flatten(fieldsof(pureof(rtypeof(T))), 0, [])
//@   may_panic_when true
//@   ensures result != nil
//@   ensures focus_1_by_type: len(attr) == 0 ==> result.foff() == loc(firsttype(all, rtypeof(A)))
//@   ensures focus_1_by_name: len(attr) > 0 ==> result.foff() == loc(firstname(all, attr[0]))
//@   ensures reads_and_writes_that_field_1: (forall s T :: result.get(s) == fget(s, result.foff(), A)) && (forall s T, v A :: result.put(s, v) == fput(s, result.foff(), v))
//@   ensures result1 != nil
//@   ensures focus_2_by_type: len(attr) == 0 ==> result1.foff() == loc(firsttype(all, rtypeof(B)))
//@   ensures focus_2_by_name: len(attr) > 0 ==> result1.foff() == loc(firstname(all, attr[1]))
//@   ensures reads_and_writes_that_field_2: (forall s T :: result1.get(s) == fget(s, result1.foff(), B)) && (forall s T, v B :: result1.put(s, v) == fput(s, result1.foff(), v))
//@   ensures result2 != nil
//@   ensures focus_3_by_type: len(attr) == 0 ==> result2.foff() == loc(firsttype(all, rtypeof(C)))
//@   ensures focus_3_by_name: len(attr) > 0 ==> result2.foff() == loc(firstname(all, attr[2]))
//@   ensures reads_and_writes_that_field_3: (forall s T :: result2.get(s) == fget(s, result2.foff(), C)) && (forall s T, v C :: result2.put(s, v) == fput(s, result2.foff(), v))
//@   ensures result3 != nil
//@   ensures focus_4_by_type: len(attr) == 0 ==> result3.foff() == loc(firsttype(all, rtypeof(D)))
//@   ensures focus_4_by_name: len(attr) > 0 ==> result3.foff() == loc(firstname(all, attr[3]))
//@   ensures reads_and_writes_that_field_4: (forall s T :: result3.get(s) == fget(s, result3.foff(), D)) && (forall s T, v D :: result3.put(s, v) == fput(s, result3.foff(), v))
//@   ensures result4 != nil
//@   ensures focus_5_by_type: len(attr) == 0 ==> result4.foff() == loc(firsttype(all, rtypeof(E)))
//@   ensures focus_5_by_name: len(attr) > 0 ==> result4.foff() == loc(firstname(all, attr[4]))
//@   ensures reads_and_writes_that_field_5: (forall s T :: result4.get(s) == fget(s, result4.foff(), E)) && (forall s T, v E :: result4.put(s, v) == fput(s, result4.foff(), v))
//@   ensures result5 != nil
//@   ensures focus_6_by_type: len(attr) == 0 ==> result5.foff() == loc(firsttype(all, rtypeof(F)))
//@   ensures focus_6_by_name: len(attr) > 0 ==> result5.foff() == loc(firstname(all, attr[5]))
//@   ensures reads_and_writes_that_field_6: (forall s T :: result5.get(s) == fget(s, result5.foff(), F)) && (forall s T, v F :: result5.put(s, v) == fput(s, result5.foff(), v))

//@ func ForSpectrum6
//@   props C01 C02
//@   opt overflow=off
//@   opt safetyprops=C02
//@   opt lemmas=nth_take,len_take
//@   ghost all := flatten(fieldsof(pureof(rtypeof(T))), 0, [])
//@   may_panic_when true
//@   ensures result != nil
//@   ensures focus_1_by_type: len(attr) == 0 ==> result.roff() == loc(firsttype(all, rtypeof(A)))
//@   ensures focus_1_by_name: len(attr) > 0 ==> result.roff() == loc(firstname(all, attr[0]))
//@   ensures result1 != nil
//@   ensures focus_2_by_type: len(attr) == 0 ==> result1.roff() == loc(firsttype(all, rtypeof(B)))
//@   ensures focus_2_by_name: len(attr) > 0 ==> result1.roff() == loc(firstname(all, attr[1]))
//@   ensures result2 != nil
//@   ensures focus_3_by_type: len(attr) == 0 ==> result2.roff() == loc(firsttype(all, rtypeof(C)))
//@   ensures focus_3_by_name: len(attr) > 0 ==> result2.roff() == loc(firstname(all, attr[2]))
//@   ensures result3 != nil
//@   ensures focus_4_by_type: len(attr) == 0 ==> result3.roff() == loc(firsttype(all, rtypeof(D)))
//@   ensures focus_4_by_name: len(attr) > 0 ==> result3.roff() == loc(firstname(all, attr[3]))
//@   ensures result4 != nil
//@   ensures focus_5_by_type: len(attr) == 0 ==> result4.roff() == loc(firsttype(all, rtypeof(E)))
//@   ensures focus_5_by_name: len(attr) > 0 ==> result4.roff() == loc(firstname(all, attr[4]))
//@   ensures result5 != nil
//@   ensures focus_6_by_type: len(attr) == 0 ==> result5.roff() == loc(firsttype(all, rtypeof(F)))
//@   ensures focus_6_by_name: len(attr) > 0 ==> result5.roff() == loc(firstname(all, attr[5]))

//@ func ForProduct7
//@   props C01 C02
//@   opt overflow=off
//@   opt safetyprops=C02
//@   opt lemmas=nth_take,len_take
//@   ghost all := flatten(fieldsof(pureof(rtypeof(T))), 0, [])
//@   may_panic_when true
//@   ensures result != nil
//@   ensures focus_1_by_type: len(attr) == 0 ==> result.foff() == loc(firsttype(all, rtypeof(A)))
//@   ensures focus_1_by_name: len(attr) > 0 ==> result.foff() == loc(firstname(all, attr[0]))
//@   ensures reads_and_writes_that_field_1: (forall s T :: result.get(s) == fget(s, result.foff(), A)) && (forall s T, v A :: result.put(s, v) == fput(s, result.foff(), v))
//@   ensures result1 != nil
//@   ensures focus_2_by_type: len(attr) == 0 ==> result1.foff() == loc(firsttype(all, rtypeof(B)))
//@   ensures focus_2_by_name: len(attr) > 0 ==> result1.foff() == loc(firstname(all, attr[1]))
//@   ensures reads_and_writes_that_field_2: (forall s T :: result1.get(s) == fget(s, result1.foff(), B)) && (forall s T, v B :: result1.put(s, v) == fput(s, result1.foff(), v))
//@   ensures result2 != nil
//@   ensures focus_3_by_type: len(attr) == 0 ==> result2.foff() == loc(firsttype(all, rtypeof(C)))
//@   ensures focus_3_by_name: len(attr) > 0 ==> result2.foff() == loc(firstname(all, attr[2]))
//@   ensures reads_and_writes_that_field_3: (forall s T :: result2.get(s) == fget(s, result2.foff(), C)) && (forall s T, v C :: result2.put(s, v) == fput(s, result2.foff(), v))
//@   ensures result3 != nil
//@   ensures focus_4_by_type: len(attr) == 0 ==> result3.foff() == loc(firsttype(all, rtypeof(D)))
//@   ensures focus_4_by_name: len(attr) > 0 ==> result3.foff() == loc(firstname(all, attr[3]))
//@   ensures reads_and_writes_that_field_4: (forall s T :: result3.get(s) == fget(s, result3.foff(), D)) && (forall s T, v D :: result3.put(s, v) == fput(s, result3.foff(), v))
//@   ensures result4 != nil
//@   ensures focus_5_by_type: len(attr) == 0 ==> result4.foff() == loc(firsttype(all, rtypeof(E)))
//@   ensures focus_5_by_name: len(attr) > 0 ==> result4.foff() == loc(firstname(all, attr[4]))
//@   ensures reads_and_writes_that_field_5: (forall s T :: result4.get(s) == fget(s, result4.foff(), E)) && (forall s T, v E :: result4.put(s, v) == fput(s, result4.foff(), v))
//@   ensures result5 != nil
//@   ensures focus_6_by_type: len(attr) == 0 ==> result5.foff() == loc(firsttype(all, rtypeof(F)))
//@   ensures focus_6_by_name: len(attr) > 0 ==> result5.foff() == loc(firstname(all, attr[5]))
//@   ensures reads_and_writes_that_field_6: (forall s T :: result5.get(s) == fget(s, result5.foff(), F)) && (forall s T, v F :: result5.put(s, v) == fput(s, result5.foff(), v))
//@   ensures result6 != nil
//@   ensures focus_7_by_type: len(attr) == 0 ==> result6.foff() == loc(firsttype(all, rtypeof(G)))
//@   ensures focus_7_by_name: len(attr) > 0 ==> result6.foff() == loc(firstname(all, attr[6]))
//@   ensures reads_and_writes_that_field_7: (forall s T :: result6.get(s) == fget(s, result6.foff(), G)) && (forall s T, v G :: result6.put(s, v) == fput(s, result6.foff(), v))

//@ func ForSpectrum7
//@   props C01 C02
//@   opt overflow=off
//@   opt safetyprops=C02
//@   opt lemmas=nth_take,len_take
//@   ghost all := flatten(fieldsof(pureof(rtypeof(T))), 0, [])
//@   may_panic_when true
//@   ensures result != nil
//@   ensures focus_1_by_type: len(attr) == 0 ==> result.roff() == loc(firsttype(all, rtypeof(A)))
//@   ensures focus_1_by_name: len(attr) > 0 ==> result.roff() == loc(firstname(all, attr[0]))
//@   ensures result1 != nil
//@   ensures focus_2_by_type: len(attr) == 0 ==> result1.roff() == loc(firsttype(all, rtypeof(B)))
//@   ensures focus_2_by_name: len(attr) > 0 ==> result1.roff() == loc(firstname(all, attr[1]))
//@   ensures result2 != nil
//@   ensures focus_3_by_type: len(attr) == 0 ==> result2.roff() == loc(firsttype(all, rtypeof(C)))
//@   ensures focus_3_by_name: len(attr) > 0 ==> result2.roff() == loc(firstname(all, attr[2]))
//@   ensures result3 != nil
//@   ensures focus_4_by_type: len(attr) == 0 ==> result3.roff() == loc(firsttype(all, rtypeof(D)))
//@   ensures focus_4_by_name: len(attr) > 0 ==> result3.roff() == loc(firstname(all, attr[3]))
//@   ensures result4 != nil
//@   ensures focus_5_by_type: len(attr) == 0 ==> result4.roff() == loc(firsttype(all, rtypeof(E)))
//@   ensures focus_5_by_name: len(attr) > 0 ==> result4.roff() == loc(firstname(all, attr[4]))
//@   ensures result5 != nil
//@   ensures focus_6_by_type: len(attr) == 0 ==> result5.roff() == loc(firsttype(all, rtypeof(F)))
//@   ensures focus_6_by_name: len(attr) > 0 ==> result5.roff() == loc(firstname(all, attr[5]))
//@   ensures result6 != nil
//@   ensures focus_7_by_type: len(attr) == 0 ==> result6.roff() == loc(firsttype(all, rtypeof(G)))
//@   ensures focus_7_by_name: len(attr) > 0 ==> result6.roff() == loc(firstname(all, attr[6]))

//@ func ForProduct8
//@   props C01 C02
//@   opt overflow=off
//@   opt safetyprops=C02
//@   opt lemmas=nth_take,len_take
//@   ghost all := flatten(fieldsof(pureof(rtypeof(T))), 0, [])
//@   may_panic_when true
//@   ensures result != nil
//@   ensures focus_1_by_type: len(attr) == 0 ==> result.foff() == loc(firsttype(all, rtypeof(A)))
//@   ensures focus_1_by_name: len(attr) > 0 ==> result.foff() == loc(firstname(all, attr[0]))
//@   ensures reads_and_writes_that_field_1: (forall s T :: result.get(s) == fget(s, result.foff(), A)) && (forall s T, v A :: result.put(s, v) == fput(s, result.foff(), v))
//@   ensures result1 != nil
//@   ensures focus_2_by_type: len(attr) == 0 ==> result1.foff() == loc(firsttype(all, rtypeof(B)))
//@   ensures focus_2_by_name: len(attr) > 0 ==> result1.foff() == loc(firstname(all, attr[1]))
//@   ensures reads_and_writes_that_field_2: (forall s T :: result1.get(s) == fget(s, result1.foff(), B)) && (forall s T, v B :: result1.put(s, v) == fput(s, result1.foff(), v))
//@   ensures result2 != nil
//@   ensures focus_3_by_type: len(attr) == 0 ==> result2.foff() == loc(firsttype(all, rtypeof(C)))
//@   ensures focus_3_by_name: len(attr) > 0 ==> result2.foff() == loc(firstname(all, attr[2]))
//@   ensures reads_and_writes_that_field_3: (forall s T :: result2.get(s) == fget(s, result2.foff(), C)) && (forall s T, v C :: result2.put(s, v) == fput(s, result2.foff(), v))
//@   ensures result3 != nil
//@   ensures focus_4_by_type: len(attr) == 0 ==> result3.foff() == loc(firsttype(all, rtypeof(D)))
//@   ensures focus_4_by_name: len(attr) > 0 ==> result3.foff() == loc(firstname(all, attr[3]))
//@   ensures reads_and_writes_that_field_4: (forall s T :: result3.get(s) == fget(s, result3.foff(), D)) && (forall s T, v D :: result3.put(s, v) == fput(s, result3.foff(), v))
//@   ensures result4 != nil
//@   ensures focus_5_by_type: len(attr) == 0 ==> result4.foff() == loc(firsttype(all, rtypeof(E)))
//@   ensures focus_5_by_name: len(attr) > 0 ==> result4.foff() == loc(firstname(all, attr[4]))
//@   ensures reads_and_writes_that_field_5: (forall s T :: result4.get(s) == fget(s, result4.foff(), E)) && (forall s T, v E :: result4.put(s, v) == fput(s, result4.foff(), v))
//@   ensures result5 != nil
//@   ensures focus_6_by_type: len(attr) == 0 ==> result5.foff() == loc(firsttype(all, rtypeof(F)))
//@   ensures focus_6_by_name: len(attr) > 0 ==> result5.foff() == loc(firstname(all, attr[5]))
//@   ensures reads_and_writes_that_field_6: (forall s T :: result5.get(s) == fget(s, result5.foff(), F)) && (forall s T, v F :: result5.put(s, v) == fput(s, result5.foff(), v))
//@   ensures result6 != nil
//@   ensures focus_7_by_type: len(attr) == 0 ==> result6.foff() == loc(firsttype(all, rtypeof(G)))
//@   ensures focus_7_by_name: len(attr) > 0 ==> result6.foff() == loc(firstname(all, attr[6]))
//@   ensures reads_and_writes_that_field_7: (forall s T :: result6.get(s) == fget(s, result6.foff(), G)) && (forall s T, v G :: result6.put(s, v) == fput(s, result6.foff(), v))
//@   ensures result7 != nil
//@   ensures focus_8_by_type: len(attr) == 0 ==> result7.foff() == loc(firsttype(all, rtypeof(H)))
//@   ensures focus_8_by_name: len(attr) > 0 ==> result7.foff() == loc(firstname(all, attr[7]))
//@   ensures reads_and_writes_that_field_8: (forall s T :: result7.get(s) == fget(s, result7.foff(), H)) && (forall s T, v H :: result7.put(s, v) == fput(s, result7.foff(), v))

//@ func ForSpectrum8
//@   props C01 C02
//@   opt overflow=off
//@   opt safetyprops=C02
//@   opt lemmas=nth_take,len_take
//@   ghost all := flatten(fieldsof(pureof(rtypeof(T))), 0, [])
//@   may_panic_when true
//@   ensures result != nil
//@   ensures focus_1_by_type: len(attr) == 0 ==> result.roff() == loc(firsttype(all, rtypeof(A)))
//@   ensures focus_1_by_name: len(attr) > 0 ==> result.roff() == loc(firstname(all, attr[0]))
//@   ensures result1 != nil
//@   ensures focus_2_by_type: len(attr) == 0 ==> result1.roff() == loc(firsttype(all, rtypeof(B)))
//@   ensures focus_2_by_name: len(attr) > 0 ==> result1.roff() == loc(firstname(all, attr[1]))
//@   ensures result2 != nil
//@   ensures focus_3_by_type: len(attr) == 0 ==> result2.roff() == loc(firsttype(all, rtypeof(C)))
//@   ensures focus_3_by_name: len(attr) > 0 ==> result2.roff() == loc(firstname(all, attr[2]))
//@   ensures result3 != nil
//@   ensures focus_4_by_type: len(attr) == 0 ==> result3.roff() == loc(firsttype(all, rtypeof(D)))
//@   ensures focus_4_by_name: len(attr) > 0 ==> result3.roff() == loc(firstname(all, attr[3]))
//@   ensures result4 != nil
//@   ensures focus_5_by_type: len(attr) == 0 ==> result4.roff() == loc(firsttype(all, rtypeof(E)))
//@   ensures focus_5_by_name: len(attr) > 0 ==> result4.roff() == loc(firstname(all, attr[4]))
//@   ensures result5 != nil
//@   ensures focus_6_by_type: len(attr) == 0 ==> result5.roff() == loc(firsttype(all, rtypeof(F)))
//@   ensures focus_6_by_name: len(attr) > 0 ==> result5.roff() == loc(firstname(all, attr[5]))
//@   ensures result6 != nil
//@   ensures focus_7_by_type: len(attr) == 0 ==> result6.roff() == loc(firsttype(all, rtypeof(G)))
//@   ensures focus_7_by_name: len(attr) > 0 ==> result6.roff() == loc(firstname(all, attr[6]))
//@   ensures result7 != nil
//@   ensures focus_8_by_type: len(attr) == 0 ==> result7.roff() == loc(firsttype(all, rtypeof(H)))
//@   ensures focus_8_by_name: len(attr) > 0 ==> result7.roff() == loc(firstname(all, attr[7]))

//@ func ForProduct9
//@   props C01 C02
//@   opt overflow=off
//@   opt safetyprops=C02
//@   opt lemmas=nth_take,len_take
//@   ghost all := flatten(fieldsof(pureof(rtypeof(T))), 0, [])
//@   may_panic_when true
//@   ensures result != nil
//@   ensures focus_1_by_type: len(attr) == 0 ==> result.foff() == loc(firsttype(all, rtypeof(A)))
//@   ensures focus_1_by_name: len(attr) > 0 ==> result.foff() == loc(firstname(all, attr[0]))
//@   ensures reads_and_writes_that_field_1: (forall s T :: result.get(s) == fget(s, result.foff(), A)) && (forall s T, v A :: result.put(s, v) == fput(s, result.foff(), v))
//@   ensures result1 != nil
//@   ensures focus_2_by_type: len(attr) == 0 ==> result1.foff() == loc(firsttype(all, rtypeof(B)))
//@   ensures focus_2_by_name: len(attr) > 0 ==> result1.foff() == loc(firstname(all, attr[1]))
//@   ensures reads_and_writes_that_field_2: (forall s T :: result1.get(s) == fget(s, result1.foff(), B)) && (forall s T, v B :: result1.put(s, v) == fput(s, result1.foff(), v))
//@   ensures result2 != nil
//@   ensures focus_3_by_type: len(attr) == 0 ==> result2.foff() == loc(firsttype(all, rtypeof(C)))
//@   ensures focus_3_by_name: len(attr) > 0 ==> result2.foff() == loc(firstname(all, attr[2]))
//@   ensures reads_and_writes_that_field_3: (forall s T :: result2.get(s) == fget(s, result2.foff(), C)) && (forall s T, v C :: result2.put(s, v) == fput(s, result2.foff(), v))
//@   ensures result3 != nil
//@   ensures focus_4_by_type: len(attr) == 0 ==> result3.foff() == loc(firsttype(all, rtypeof(D)))
//@   ensures focus_4_by_name: len(attr) > 0 ==> result3.foff() == loc(firstname(all, attr[3]))
//@   ensures reads_and_writes_that_field_4: (forall s T :: result3.get(s) == fget(s, result3.foff(), D)) && (forall s T, v D :: result3.put(s, v) == fput(s, result3.foff(), v))
//@   ensures result4 != nil
//@   ensures focus_5_by_type: len(attr) == 0 ==> result4.foff() == loc(firsttype(all, rtypeof(E)))
//@   ensures focus_5_by_name: len(attr) > 0 ==> result4.foff() == loc(firstname(all, attr[4]))
//@   ensures reads_and_writes_that_field_5: (forall s T :: result4.get(s) == fget(s, result4.foff(), E)) && (forall s T, v E :: result4.put(s, v) == fput(s, result4.foff(), v))
//@   ensures result5 != nil
//@   ensures focus_6_by_type: len(attr) == 0 ==> result5.foff() == loc(firsttype(all, rtypeof(F)))
//@   ensures focus_6_by_name: len(attr) > 0 ==> result5.foff() == loc(firstname(all, attr[5]))
//@   ensures reads_and_writes_that_field_6: (forall s T :: result5.get(s) == fget(s, result5.foff(), F)) && (forall s T, v F :: result5.put(s, v) == fput(s, result5.foff(), v))
//@   ensures result6 != nil
//@   ensures focus_7_by_type: len(attr) == 0 ==> result6.foff() == loc(firsttype(all, rtypeof(G)))
//@   ensures focus_7_by_name: len(attr) > 0 ==> result6.foff() == loc(firstname(all, attr[6]))
//@   ensures reads_and_writes_that_field_7: (forall s T :: result6.get(s) == fget(s, result6.foff(), G)) && (forall s T, v G :: result6.put(s, v) == fput(s, result6.foff(), v))
//@   ensures result7 != nil
//@   ensures focus_8_by_type: len(attr) == 0 ==> result7.foff() == loc(firsttype(all, rtypeof(H)))
//@   ensures focus_8_by_name: len(attr) > 0 ==> result7.foff() == loc(firstname(all, attr[7]))
//@   ensures reads_and_writes_that_field_8: (forall s T :: result7.get(s) == fget(s, result7.foff(), H)) && (forall s T, v H :: result7.put(s, v) == fput(s, result7.foff(), v))
//@   ensures result8 != nil
//@   ensures focus_9_by_type: len(attr) == 0 ==> result8.foff() == loc(firsttype(all, rtypeof(I)))
//@   ensures focus_9_by_name: len(attr) > 0 ==> result8.foff() == loc(firstname(all, attr[8]))
//@   ensures reads_and_writes_that_field_9: (forall s T :: result8.get(s) == fget(s, result8.foff(), I)) && (forall s T, v I :: result8.put(s, v) == fput(s, result8.foff(), v))

//@ func ForSpectrum9
//@   props C01 C02
//@   opt overflow=off
//@   opt safetyprops=C02
//@   opt lemmas=nth_take,len_take
//@   ghost all := flatten(fieldsof(pureof(rtypeof(T))), 0, [])
//@   may_panic_when true
//@   ensures result != nil
//@   ensures focus_1_by_type: len(attr) == 0 ==> result.roff() == loc(firsttype(all, rtypeof(A)))
//@   ensures focus_1_by_name: len(attr) > 0 ==> result.roff() == loc(firstname(all, attr[0]))
//@   ensures result1 != nil
//@   ensures focus_2_by_type: len(attr) == 0 ==> result1.roff() == loc(firsttype(all, rtypeof(B)))
//@   ensures focus_2_by_name: len(attr) > 0 ==> result1.roff() == loc(firstname(all, attr[1]))
//@   ensures result2 != nil
//@   ensures focus_3_by_type: len(attr) == 0 ==> result2.roff() == loc(firsttype(all, rtypeof(C)))
//@   ensures focus_3_by_name: len(attr) > 0 ==> result2.roff() == loc(firstname(all, attr[2]))
//@   ensures result3 != nil
//@   ensures focus_4_by_type: len(attr) == 0 ==> result3.roff() == loc(firsttype(all, rtypeof(D)))
//@   ensures focus_4_by_name: len(attr) > 0 ==> result3.roff() == loc(firstname(all, attr[3]))
//@   ensures result4 != nil
//@   ensures focus_5_by_type: len(attr) == 0 ==> result4.roff() == loc(firsttype(all, rtypeof(E)))
//@   ensures focus_5_by_name: len(attr) > 0 ==> result4.roff() == loc(firstname(all, attr[4]))
//@   ensures result5 != nil
//@   ensures focus_6_by_type: len(attr) == 0 ==> result5.roff() == loc(firsttype(all, rtypeof(F)))
//@   ensures focus_6_by_name: len(attr) > 0 ==> result5.roff() == loc(firstname(all, attr[5]))
//@   ensures result6 != nil
//@   ensures focus_7_by_type: len(attr) == 0 ==> result6.roff() == loc(firsttype(all, rtypeof(G)))
//@   ensures focus_7_by_name: len(attr) > 0 ==> result6.roff() == loc(firstname(all, attr[6]))
//@   ensures result7 != nil
//@   ensures focus_8_by_type: len(attr) == 0 ==> result7.roff() == loc(firsttype(all, rtypeof(H)))
//@   ensures focus_8_by_name: len(attr) > 0 ==> result7.roff() == loc(firstname(all, attr[7]))
//@   ensures result8 != nil
//@   ensures focus_9_by_type: len(attr) == 0 ==> result8.roff() == loc(firsttype(all, rtypeof(I)))
//@   ensures focus_9_by_name: len(attr) > 0 ==> result8.roff() == loc(firstname(all, attr[8]))


//@ interface Lens2
//@   ghostmethod get1(s S) : A
//@   ghostmethod get2(s S) : B
//@   ghostmethod put(s S, v1 A, v2 B) : S
//@   method Get
//@     requires $1 != nil
//@     ensures reads_component_1: result == self.get1(deref($1))
//@     ensures reads_component_2: result1 == self.get2(deref($1))
//@   method Put
//@     requires $1 != nil
//@     modifies deref($1)
//@     ensures same_pointer: result == $1
//@     ensures writes_components: deref($1) == self.put(old(deref($1)), $2, $3)

//@ type shape2 implements Lens2
//@   objinv self.a != nil && self.b != nil
//@   model get1(self, s) = self.a.get(s)
//@   model get2(self, s) = self.b.get(s)
//@   model put(self, s, v1, v2) = self.a.put(self.b.put(s, v2), v1)

//@ func ForShape2
//@   props C01 C04
//@   opt overflow=off
//@   opt lemmas=nth_take,len_take
//@   ghost all := flatten(fieldsof(pureof(rtypeof(T))), 0, [])
//@   ghost off1 := ite(len(attr) == 0, loc(firsttype(all, rtypeof(A))), loc(firstname(all, attr[0])))
//@   ghost off2 := ite(len(attr) == 0, loc(firsttype(all, rtypeof(B))), loc(firstname(all, attr[1])))
//@   may_panic_when true
//@   ensures result != nil
//@   ensures component_1_is_the_field_in_position_1: forall s T :: result.get1(s) == fget(s, off1, A)
//@   ensures component_2_is_the_field_in_position_2: forall s T :: result.get2(s) == fget(s, off2, B)
//@   ensures writes_every_component_into_its_field: forall s T, v1 A, v2 B :: result.put(s, v1, v2) == fput(fput(s, off2, v2), off1, v1)

//@ interface Lens3
//@   ghostmethod get1(s S) : A
//@   ghostmethod get2(s S) : B
//@   ghostmethod get3(s S) : C
//@   ghostmethod put(s S, v1 A, v2 B, v3 C) : S
//@   method Get
//@     requires $1 != nil
//@     ensures reads_component_1: result == self.get1(deref($1))
//@     ensures reads_component_2: result1 == self.get2(deref($1))
//@     ensures reads_component_3: result2 == self.get3(deref($1))
//@   method Put
//@     requires $1 != nil
//@     modifies deref($1)
//@     ensures same_pointer: result == $1
//@     ensures writes_components: deref($1) == self.put(old(deref($1)), $2, $3, $4)

//@ type shape3 implements Lens3
//@   objinv self.a != nil && self.b != nil && self.c != nil
//@   model get1(self, s) = self.a.get(s)
//@   model get2(self, s) = self.b.get(s)
//@   model get3(self, s) = self.c.get(s)
//@   model put(self, s, v1, v2, v3) = self.a.put(self.b.put(self.c.put(s, v3), v2), v1)

//@ func ForShape3
//@   props C01 C04
//@   opt overflow=off
//@   opt lemmas=nth_take,len_take
//@   ghost all := flatten(fieldsof(pureof(rtypeof(T))), 0, [])
//@   ghost off1 := ite(len(attr) == 0, loc(firsttype(all, rtypeof(A))), loc(firstname(all, attr[0])))
//@   ghost off2 := ite(len(attr) == 0, loc(firsttype(all, rtypeof(B))), loc(firstname(all, attr[1])))
//@   ghost off3 := ite(len(attr) == 0, loc(firsttype(all, rtypeof(C))), loc(firstname(all, attr[2])))
//@   may_panic_when true
//@   ensures result != nil
//@   ensures component_1_is_the_field_in_position_1: forall s T :: result.get1(s) == fget(s, off1, A)
//@   ensures component_2_is_the_field_in_position_2: forall s T :: result.get2(s) == fget(s, off2, B)
//@   ensures component_3_is_the_field_in_position_3: forall s T :: result.get3(s) == fget(s, off3, C)
//@   ensures writes_every_component_into_its_field: forall s T, v1 A, v2 B, v3 C :: result.put(s, v1, v2, v3) == fput(fput(fput(s, off3, v3), off2, v2), off1, v1)

//@ interface Lens4
//@   ghostmethod get1(s S) : A
//@   ghostmethod get2(s S) : B
//@   ghostmethod get3(s S) : C
//@   ghostmethod get4(s S) : D
//@   ghostmethod put(s S, v1 A, v2 B, v3 C, v4 D) : S
//@   method Get
//@     requires $1 != nil
//@     ensures reads_component_1: result == self.get1(deref($1))
//@     ensures reads_component_2: result1 == self.get2(deref($1))
//@     ensures reads_component_3: result2 == self.get3(deref($1))
//@     ensures reads_component_4: result3 == self.get4(deref($1))
//@   method Put
//@     requires $1 != nil
//@     modifies deref($1)
//@     ensures same_pointer: result == $1
//@     ensures writes_components: deref($1) == self.put(old(deref($1)), $2, $3, $4, $5)

//@ type shape4 implements Lens4
//@   objinv self.a != nil && self.b != nil && self.c != nil && self.d != nil
//@   model get1(self, s) = self.a.get(s)
//@   model get2(self, s) = self.b.get(s)
//@   model get3(self, s) = self.c.get(s)
//@   model get4(self, s) = self.d.get(s)
//@   model put(self, s, v1, v2, v3, v4) = self.a.put(self.b.put(self.c.put(self.d.put(s, v4), v3), v2), v1)

//@ func ForShape4
//@   props C01 C04
//@   opt overflow=off
//@   opt lemmas=nth_take,len_take
//@   ghost all := flatten(fieldsof(pureof(rtypeof(T))), 0, [])
//@   ghost off1 := ite(len(attr) == 0, loc(firsttype(all, rtypeof(A))), loc(firstname(all, attr[0])))
//@   ghost off2 := ite(len(attr) == 0, loc(firsttype(all, rtypeof(B))), loc(firstname(all, attr[1])))
//@   ghost off3 := ite(len(attr) == 0, loc(firsttype(all, rtypeof(C))), loc(firstname(all, attr[2])))
//@   ghost off4 := ite(len(attr) == 0, loc(firsttype(all, rtypeof(D))), loc(firstname(all, attr[3])))
//@   may_panic_when true
//@   ensures result != nil
//@   ensures component_1_is_the_field_in_position_1: forall s T :: result.get1(s) == fget(s, off1, A)
//@   ensures component_2_is_the_field_in_position_2: forall s T :: result.get2(s) == fget(s, off2, B)
//@   ensures component_3_is_the_field_in_position_3: forall s T :: result.get3(s) == fget(s, off3, C)
//@   ensures component_4_is_the_field_in_position_4: forall s T :: result.get4(s) == fget(s, off4, D)
//@   ensures writes_every_component_into_its_field: forall s T, v1 A, v2 B, v3 C, v4 D :: result.put(s, v1, v2, v3, v4) == fput(fput(fput(fput(s, off4, v4), off3, v3), off2, v2), off1, v1)

//@ interface Lens5
//@   ghostmethod get1(s S) : A
//@   ghostmethod get2(s S) : B
//@   ghostmethod get3(s S) : C
//@   ghostmethod get4(s S) : D
//@   ghostmethod get5(s S) : E
//@   ghostmethod put(s S, v1 A, v2 B, v3 C, v4 D, v5 E) : S
//@   method Get
//@     requires $1 != nil
//@     ensures reads_component_1: result == self.get1(deref($1))
//@     ensures reads_component_2: result1 == self.get2(deref($1))
//@     ensures reads_component_3: result2 == self.get3(deref($1))
//@     ensures reads_component_4: result3 == self.get4(deref($1))
//@     ensures reads_component_5: result4 == self.get5(deref($1))
//@   method Put
//@     requires $1 != nil
//@     modifies deref($1)
//@     ensures same_pointer: result == $1
//@     ensures writes_components: deref($1) == self.put(old(deref($1)), $2, $3, $4, $5, $6)

//@ type shape5 implements Lens5
//@   objinv self.a != nil && self.b != nil && self.c != nil && self.d != nil && self.e != nil
//@   model get1(self, s) = self.a.get(s)
//@   model get2(self, s) = self.b.get(s)
//@   model get3(self, s) = self.c.get(s)
//@   model get4(self, s) = self.d.get(s)
//@   model get5(self, s) = self.e.get(s)
//@   model put(self, s, v1, v2, v3, v4, v5) = self.a.put(self.b.put(self.c.put(self.d.put(self.e.put(s, v5), v4), v3), v2), v1)

//@ func ForShape5
//@   props C01 C04
//@   opt overflow=off
//@   opt lemmas=nth_take,len_take
//@   ghost all := flatten(fieldsof(pureof(rtypeof(T))), 0, [])
//@   ghost off1 := ite(len(attr) == 0, loc(firsttype(all, rtypeof(A))), loc(firstname(all, attr[0])))
//@   ghost off2 := ite(len(attr) == 0, loc(firsttype(all, rtypeof(B))), loc(firstname(all, attr[1])))
//@   ghost off3 := ite(len(attr) == 0, loc(firsttype(all, rtypeof(C))), loc(firstname(all, attr[2])))
//@   ghost off4 := ite(len(attr) == 0, loc(firsttype(all, rtypeof(D))), loc(firstname(all, attr[3])))
//@   ghost off5 := ite(len(attr) == 0, loc(firsttype(all, rtypeof(E))), loc(firstname(all, attr[4])))
//@   may_panic_when true
//@   ensures result != nil
//@   ensures component_1_is_the_field_in_position_1: forall s T :: result.get1(s) == fget(s, off1, A)
//@   ensures component_2_is_the_field_in_position_2: forall s T :: result.get2(s) == fget(s, off2, B)
//@   ensures component_3_is_the_field_in_position_3: forall s T :: result.get3(s) == fget(s, off3, C)
//@   ensures component_4_is_the_field_in_position_4: forall s T :: result.get4(s) == fget(s, off4, D)
//@   ensures component_5_is_the_field_in_position_5: forall s T :: result.get5(s) == fget(s, off5, E)
//@   ensures writes_every_component_into_its_field: forall s T, v1 A, v2 B, v3 C, v4 D, v5 E :: result.put(s, v1, v2, v3, v4, v5) == fput(fput(fput(fput(fput(s, off5, v5), off4, v4), off3, v3), off2, v2), off1, v1)

//@ interface Lens6
//@   ghostmethod get1(s S) : A
//@   ghostmethod get2(s S) : B
//@   ghostmethod get3(s S) : C
//@   ghostmethod get4(s S) : D
//@   ghostmethod get5(s S) : E
//@   ghostmethod get6(s S) : F
//@   ghostmethod put(s S, v1 A, v2 B, v3 C, v4 D, v5 E, v6 F) : S
//@   method Get
//@     requires $1 != nil
//@     ensures reads_component_1: result == self.get1(deref($1))
//@     ensures reads_component_2: result1 == self.get2(deref($1))
//@     ensures reads_component_3: result2 == self.get3(deref($1))
//@     ensures reads_component_4: result3 == self.get4(deref($1))
//@     ensures reads_component_5: result4 == self.get5(deref($1))
//@     ensures reads_component_6: result5 == self.get6(deref($1))
//@   method Put
//@     requires $1 != nil
//@     modifies deref($1)
//@     ensures same_pointer: result == $1
//@     ensures writes_components: deref($1) == self.put(old(deref($1)), $2, $3, $4, $5, $6, $7)

//@ type shape6 implements Lens6
//@   objinv self.a != nil && self.b != nil && self.c != nil && self.d != nil && self.e != nil && self.f != nil
//@   model get1(self, s) = self.a.get(s)
//@   model get2(self, s) = self.b.get(s)
//@   model get3(self, s) = self.c.get(s)
//@   model get4(self, s) = self.d.get(s)
//@   model get5(self, s) = self.e.get(s)
//@   model get6(self, s) = self.f.get(s)
//@   model put(self, s, v1, v2, v3, v4, v5, v6) = self.a.put(self.b.put(self.c.put(self.d.put(self.e.put(self.f.put(s, v6), v5), v4), v3), v2), v1)

//@ func ForShape6
//@   props C01 C04
//@   opt overflow=off
//@   opt lemmas=nth_take,len_take
//@   ghost all := flatten(fieldsof(pureof(rtypeof(T))), 0, [])
//@   ghost off1 := ite(len(attr) == 0, loc(firsttype(all, rtypeof(A))), loc(firstname(all, attr[0])))
//@   ghost off2 := ite(len(attr) == 0, loc(firsttype(all, rtypeof(B))), loc(firstname(all, attr[1])))
//@   ghost off3 := ite(len(attr) == 0, loc(firsttype(all, rtypeof(C))), loc(firstname(all, attr[2])))
//@   ghost off4 := ite(len(attr) == 0, loc(firsttype(all, rtypeof(D))), loc(firstname(all, attr[3])))
//@   ghost off5 := ite(len(attr) == 0, loc(firsttype(all, rtypeof(E))), loc(firstname(all, attr[4])))
//@   ghost off6 := ite(len(attr) == 0, loc(firsttype(all, rtypeof(F))), loc(firstname(all, attr[5])))
//@   may_panic_when true
//@   ensures result != nil
//@   ensures component_1_is_the_field_in_position_1: forall s T :: result.get1(s) == fget(s, off1, A)
//@   ensures component_2_is_the_field_in_position_2: forall s T :: result.get2(s) == fget(s, off2, B)
//@   ensures component_3_is_the_field_in_position_3: forall s T :: result.get3(s) == fget(s, off3, C)
//@   ensures component_4_is_the_field_in_position_4: forall s T :: result.get4(s) == fget(s, off4, D)
//@   ensures component_5_is_the_field_in_position_5: forall s T :: result.get5(s) == fget(s, off5, E)
//@   ensures component_6_is_the_field_in_position_6: forall s T :: result.get6(s) == fget(s, off6, F)
//@   ensures writes_every_component_into_its_field: forall s T, v1 A, v2 B, v3 C, v4 D, v5 E, v6 F :: result.put(s, v1, v2, v3, v4, v5, v6) == fput(fput(fput(fput(fput(fput(s, off6, v6), off5, v5), off4, v4), off3, v3), off2, v2), off1, v1)

//@ interface Lens7
//@   ghostmethod get1(s S) : A
//@   ghostmethod get2(s S) : B
//@   ghostmethod get3(s S) : C
//@   ghostmethod get4(s S) : D
//@   ghostmethod get5(s S) : E
//@   ghostmethod get6(s S) : F
//@   ghostmethod get7(s S) : G
//@   ghostmethod put(s S, v1 A, v2 B, v3 C, v4 D, v5 E, v6 F, v7 G) : S
//@   method Get
//@     requires $1 != nil
//@     ensures reads_component_1: result == self.get1(deref($1))
//@     ensures reads_component_2: result1 == self.get2(deref($1))
//@     ensures reads_component_3: result2 == self.get3(deref($1))
//@     ensures reads_component_4: result3 == self.get4(deref($1))
//@     ensures reads_component_5: result4 == self.get5(deref($1))
//@     ensures reads_component_6: result5 == self.get6(deref($1))
//@     ensures reads_component_7: result6 == self.get7(deref($1))
//@   method Put
//@     requires $1 != nil
//@     modifies deref($1)
//@     ensures same_pointer: result == $1
//@     ensures writes_components: deref($1) == self.put(old(deref($1)), $2, $3, $4, $5, $6, $7, $8)

//@ type shape7 implements Lens7
//@   objinv self.a != nil && self.b != nil && self.c != nil && self.d != nil && self.e != nil && self.f != nil && self.g != nil
//@   model get1(self, s) = self.a.get(s)
//@   model get2(self, s) = self.b.get(s)
//@   model get3(self, s) = self.c.get(s)
//@   model get4(self, s) = self.d.get(s)
//@   model get5(self, s) = self.e.get(s)
//@   model get6(self, s) = self.f.get(s)
//@   model get7(self, s) = self.g.get(s)
//@   model put(self, s, v1, v2, v3, v4, v5, v6, v7) = self.a.put(self.b.put(self.c.put(self.d.put(self.e.put(self.f.put(self.g.put(s, v7), v6), v5), v4), v3), v2), v1)

//@ func ForShape7
//@   props C01 C04
//@   opt overflow=off
//@   opt lemmas=nth_take,len_take
//@   ghost all := flatten(fieldsof(pureof(rtypeof(T))), 0, [])
//@   ghost off1 := ite(len(attr) == 0, loc(firsttype(all, rtypeof(A))), loc(firstname(all, attr[0])))
//@   ghost off2 := ite(len(attr) == 0, loc(firsttype(all, rtypeof(B))), loc(firstname(all, attr[1])))
//@   ghost off3 := ite(len(attr) == 0, loc(firsttype(all, rtypeof(C))), loc(firstname(all, attr[2])))
//@   ghost off4 := ite(len(attr) == 0, loc(firsttype(all, rtypeof(D))), loc(firstname(all, attr[3])))
//@   ghost off5 := ite(len(attr) == 0, loc(firsttype(all, rtypeof(E))), loc(firstname(all, attr[4])))
//@   ghost off6 := ite(len(attr) == 0, loc(firsttype(all, rtypeof(F))), loc(firstname(all, attr[5])))
//@   ghost off7 := ite(len(attr) == 0, loc(firsttype(all, rtypeof(G))), loc(firstname(all, attr[6])))
//@   may_panic_when true
//@   ensures result != nil
//@   ensures component_1_is_the_field_in_position_1: forall s T :: result.get1(s) == fget(s, off1, A)
//@   ensures component_2_is_the_field_in_position_2: forall s T :: result.get2(s) == fget(s, off2, B)
//@   ensures component_3_is_the_field_in_position_3: forall s T :: result.get3(s) == fget(s, off3, C)
//@   ensures component_4_is_the_field_in_position_4: forall s T :: result.get4(s) == fget(s, off4, D)
//@   ensures component_5_is_the_field_in_position_5: forall s T :: result.get5(s) == fget(s, off5, E)
//@   ensures component_6_is_the_field_in_position_6: forall s T :: result.get6(s) == fget(s, off6, F)
//@   ensures component_7_is_the_field_in_position_7: forall s T :: result.get7(s) == fget(s, off7, G)
//@   ensures writes_every_component_into_its_field: forall s T, v1 A, v2 B, v3 C, v4 D, v5 E, v6 F, v7 G :: result.put(s, v1, v2, v3, v4, v5, v6, v7) == fput(fput(fput(fput(fput(fput(fput(s, off7, v7), off6, v6), off5, v5), off4, v4), off3, v3), off2, v2), off1, v1)

//@ interface Lens8
//@   ghostmethod get1(s S) : A
//@   ghostmethod get2(s S) : B
//@   ghostmethod get3(s S) : C
//@   ghostmethod get4(s S) : D
//@   ghostmethod get5(s S) : E
//@   ghostmethod get6(s S) : F
//@   ghostmethod get7(s S) : G
//@   ghostmethod get8(s S) : H
//@   ghostmethod put(s S, v1 A, v2 B, v3 C, v4 D, v5 E, v6 F, v7 G, v8 H) : S
//@   method Get
//@     requires $1 != nil
//@     ensures reads_component_1: result == self.get1(deref($1))
//@     ensures reads_component_2: result1 == self.get2(deref($1))
//@     ensures reads_component_3: result2 == self.get3(deref($1))
//@     ensures reads_component_4: result3 == self.get4(deref($1))
//@     ensures reads_component_5: result4 == self.get5(deref($1))
//@     ensures reads_component_6: result5 == self.get6(deref($1))
//@     ensures reads_component_7: result6 == self.get7(deref($1))
//@     ensures reads_component_8: result7 == self.get8(deref($1))
//@   method Put
//@     requires $1 != nil
//@     modifies deref($1)
//@     ensures same_pointer: result == $1
//@     ensures writes_components: deref($1) == self.put(old(deref($1)), $2, $3, $4, $5, $6, $7, $8, $9)

//@ type shape8 implements Lens8
//@   objinv self.a != nil && self.b != nil && self.c != nil && self.d != nil && self.e != nil && self.f != nil && self.g != nil && self.h != nil
//@   model get1(self, s) = self.a.get(s)
//@   model get2(self, s) = self.b.get(s)
//@   model get3(self, s) = self.c.get(s)
//@   model get4(self, s) = self.d.get(s)
//@   model get5(self, s) = self.e.get(s)
//@   model get6(self, s) = self.f.get(s)
//@   model get7(self, s) = self.g.get(s)
//@   model get8(self, s) = self.h.get(s)
//@   model put(self, s, v1, v2, v3, v4, v5, v6, v7, v8) = self.a.put(self.b.put(self.c.put(self.d.put(self.e.put(self.f.put(self.g.put(self.h.put(s, v8), v7), v6), v5), v4), v3), v2), v1)

//@ func ForShape8
//@   props C01 C04
//@   opt overflow=off
//@   opt lemmas=nth_take,len_take
//@   ghost all := flatten(fieldsof(pureof(rtypeof(T))), 0, [])
//@   ghost off1 := ite(len(attr) == 0, loc(firsttype(all, rtypeof(A))), loc(firstname(all, attr[0])))
//@   ghost off2 := ite(len(attr) == 0, loc(firsttype(all, rtypeof(B))), loc(firstname(all, attr[1])))
//@   ghost off3 := ite(len(attr) == 0, loc(firsttype(all, rtypeof(C))), loc(firstname(all, attr[2])))
//@   ghost off4 := ite(len(attr) == 0, loc(firsttype(all, rtypeof(D))), loc(firstname(all, attr[3])))
//@   ghost off5 := ite(len(attr) == 0, loc(firsttype(all, rtypeof(E))), loc(firstname(all, attr[4])))
//@   ghost off6 := ite(len(attr) == 0, loc(firsttype(all, rtypeof(F))), loc(firstname(all, attr[5])))
//@   ghost off7 := ite(len(attr) == 0, loc(firsttype(all, rtypeof(G))), loc(firstname(all, attr[6])))
//@   ghost off8 := ite(len(attr) == 0, loc(firsttype(all, rtypeof(H))), loc(firstname(all, attr[7])))
//@   may_panic_when true
//@   ensures result != nil
//@   ensures component_1_is_the_field_in_position_1: forall s T :: result.get1(s) == fget(s, off1, A)
//@   ensures component_2_is_the_field_in_position_2: forall s T :: result.get2(s) == fget(s, off2, B)
//@   ensures component_3_is_the_field_in_position_3: forall s T :: result.get3(s) == fget(s, off3, C)
//@   ensures component_4_is_the_field_in_position_4: forall s T :: result.get4(s) == fget(s, off4, D)
//@   ensures component_5_is_the_field_in_position_5: forall s T :: result.get5(s) == fget(s, off5, E)
//@   ensures component_6_is_the_field_in_position_6: forall s T :: result.get6(s) == fget(s, off6, F)
//@   ensures component_7_is_the_field_in_position_7: forall s T :: result.get7(s) == fget(s, off7, G)
//@   ensures component_8_is_the_field_in_position_8: forall s T :: result.get8(s) == fget(s, off8, H)
//@   ensures writes_every_component_into_its_field: forall s T, v1 A, v2 B, v3 C, v4 D, v5 E, v6 F, v7 G, v8 H :: result.put(s, v1, v2, v3, v4, v5, v6, v7, v8) == fput(fput(fput(fput(fput(fput(fput(fput(s, off8, v8), off7, v7), off6, v6), off5, v5), off4, v4), off3, v3), off2, v2), off1, v1)

//@ interface Lens9
//@   ghostmethod get1(s S) : A
//@   ghostmethod get2(s S) : B
//@   ghostmethod get3(s S) : C
//@   ghostmethod get4(s S) : D
//@   ghostmethod get5(s S) : E
//@   ghostmethod get6(s S) : F
//@   ghostmethod get7(s S) : G
//@   ghostmethod get8(s S) : H
//@   ghostmethod get9(s S) : I
//@   ghostmethod put(s S, v1 A, v2 B, v3 C, v4 D, v5 E, v6 F, v7 G, v8 H, v9 I) : S
//@   method Get
//@     requires $1 != nil
//@     ensures reads_component_1: result == self.get1(deref($1))
//@     ensures reads_component_2: result1 == self.get2(deref($1))
//@     ensures reads_component_3: result2 == self.get3(deref($1))
//@     ensures reads_component_4: result3 == self.get4(deref($1))
//@     ensures reads_component_5: result4 == self.get5(deref($1))
//@     ensures reads_component_6: result5 == self.get6(deref($1))
//@     ensures reads_component_7: result6 == self.get7(deref($1))
//@     ensures reads_component_8: result7 == self.get8(deref($1))
//@     ensures reads_component_9: result8 == self.get9(deref($1))
//@   method Put
//@     requires $1 != nil
//@     modifies deref($1)
//@     ensures same_pointer: result == $1
//@     ensures writes_components: deref($1) == self.put(old(deref($1)), $2, $3, $4, $5, $6, $7, $8, $9, $10)

//@ type shape9 implements Lens9
//@   objinv self.a != nil && self.b != nil && self.c != nil && self.d != nil && self.e != nil && self.f != nil && self.g != nil && self.h != nil && self.i != nil
//@   model get1(self, s) = self.a.get(s)
//@   model get2(self, s) = self.b.get(s)
//@   model get3(self, s) = self.c.get(s)
//@   model get4(self, s) = self.d.get(s)
//@   model get5(self, s) = self.e.get(s)
//@   model get6(self, s) = self.f.get(s)
//@   model get7(self, s) = self.g.get(s)
//@   model get8(self, s) = self.h.get(s)
//@   model get9(self, s) = self.i.get(s)
//@   model put(self, s, v1, v2, v3, v4, v5, v6, v7, v8, v9) = self.a.put(self.b.put(self.c.put(self.d.put(self.e.put(self.f.put(self.g.put(self.h.put(self.i.put(s, v9), v8), v7), v6), v5), v4), v3), v2), v1)

//@ func ForShape9
//@   props C01 C04
//@   opt overflow=off
//@   opt lemmas=nth_take,len_take
//@   ghost all := flatten(fieldsof(pureof(rtypeof(T))), 0, [])
//@   ghost off1 := ite(len(attr) == 0, loc(firsttype(all, rtypeof(A))), loc(firstname(all, attr[0])))
//@   ghost off2 := ite(len(attr) == 0, loc(firsttype(all, rtypeof(B))), loc(firstname(all, attr[1])))
//@   ghost off3 := ite(len(attr) == 0, loc(firsttype(all, rtypeof(C))), loc(firstname(all, attr[2])))
//@   ghost off4 := ite(len(attr) == 0, loc(firsttype(all, rtypeof(D))), loc(firstname(all, attr[3])))
//@   ghost off5 := ite(len(attr) == 0, loc(firsttype(all, rtypeof(E))), loc(firstname(all, attr[4])))
//@   ghost off6 := ite(len(attr) == 0, loc(firsttype(all, rtypeof(F))), loc(firstname(all, attr[5])))
//@   ghost off7 := ite(len(attr) == 0, loc(firsttype(all, rtypeof(G))), loc(firstname(all, attr[6])))
//@   ghost off8 := ite(len(attr) == 0, loc(firsttype(all, rtypeof(H))), loc(firstname(all, attr[7])))
//@   ghost off9 := ite(len(attr) == 0, loc(firsttype(all, rtypeof(I))), loc(firstname(all, attr[8])))
//@   may_panic_when true
//@   ensures result != nil
//@   ensures component_1_is_the_field_in_position_1: forall s T :: result.get1(s) == fget(s, off1, A)
//@   ensures component_2_is_the_field_in_position_2: forall s T :: result.get2(s) == fget(s, off2, B)
//@   ensures component_3_is_the_field_in_position_3: forall s T :: result.get3(s) == fget(s, off3, C)
//@   ensures component_4_is_the_field_in_position_4: forall s T :: result.get4(s) == fget(s, off4, D)
//@   ensures component_5_is_the_field_in_position_5: forall s T :: result.get5(s) == fget(s, off5, E)
//@   ensures component_6_is_the_field_in_position_6: forall s T :: result.get6(s) == fget(s, off6, F)
//@   ensures component_7_is_the_field_in_position_7: forall s T :: result.get7(s) == fget(s, off7, G)
//@   ensures component_8_is_the_field_in_position_8: forall s T :: result.get8(s) == fget(s, off8, H)
//@   ensures component_9_is_the_field_in_position_9: forall s T :: result.get9(s) == fget(s, off9, I)
//@   ensures writes_every_component_into_its_field: forall s T, v1 A, v2 B, v3 C, v4 D, v5 E, v6 F, v7 G, v8 H, v9 I :: result.put(s, v1, v2, v3, v4, v5, v6, v7, v8, v9) == fput(fput(fput(fput(fput(fput(fput(fput(fput(s, off9, v9), off8, v8), off7, v7), off6, v6), off5, v5), off4, v4), off3, v3), off2, v2), off1, v1)
