//go:build verif

// Contracts for trait/pair (property C15). Comment-only file: see /verif/DESIGN.md section 2.1.
//
// A key-value iterator has abstract state kv: the non-empty list of (key, value) pairs from
// the current one on (done is shared with seq.Seq). Key() and Value() are the two
// components of the same head element; nil is the empty list.

package pair

//@ fileprops C15
// Ownership of iterators (DESIGN 6/C14): an iterator handed to a combinator belongs to it
// from then on and advancing it changes the abstract state of the whole tree below it. The
// frame of these functions (which objects of the tree they advance) is therefore not stated
// location by location and not checked; expression trees are assumed to share no iterator.
//@ fileopt frame=off

//@ interface Seq
//@   state kv : List[Pair[K,V]]
//@   method Key
//@     pure
//@     requires !done(self) && kv(self) != []
//@     ensures current_key: result == fst(hd(kv(self)))
//@   method Value
//@     pure
//@     requires !done(self) && kv(self) != []
//@     ensures current_value: result == snd(hd(kv(self)))
//@   method Next
//@     requires !done(self) && kv(self) != []
//@     modifies kv(self), done(self)
//@     opt set done(self) = !result
//@     ensures more: result == (tl(old(kv(self))) != [])
//@     ensures advance: result ==> kv(self) == tl(old(kv(self)))

//@ type pair implements Seq
//@   model kv(self) = [pair(self.key, self.val)]

//@ type *takeWhile implements Seq
//@   objinv !done(self) ==> self.f != nil && self.Seq != nil && self.Seq != self && !done(self.Seq) && kv(self.Seq) != [] && app(self.f, fst(hd(kv(self.Seq))), snd(hd(kv(self.Seq))))
//@   model kv(self) = takew(self.f, kv(self.Seq))

//@ type filter implements Seq
//@   objinv !done(self) ==> self.f != nil && self.Seq != nil && self.Seq != self && !done(self.Seq) && kv(self.Seq) != [] && app(self.f, fst(hd(kv(self.Seq))), snd(hd(kv(self.Seq))))
//@   model kv(self) = filter(self.f, kv(self.Seq))

//@ type fmap implements Seq
//@   objinv !done(self) ==> self.Seq != nil && self.Seq != self && !done(self.Seq) && kv(self.Seq) != []
//@   model kv(self) = mapv(self.f, kv(self.Seq))

//@ type *plus implements Seq
//@   objinv !done(self) ==> self.Seq != nil && self.Seq != self && !done(self.Seq) && kv(self.Seq) != []
//@   objinv !done(self) && self.rhs != nil ==> self.rhs != self && self.rhs != self.Seq && !done(self.rhs) && kv(self.rhs) != []
//@   model kv(self) = kv(self.Seq) ++ seqlist(self.rhs, kv)

//@ type *join implements Seq
//@   objinv !done(self) ==> self.Seq != nil && self.Seq != self && !done(self.Seq) && kv(self.Seq) != []
//@   objinv !done(self) ==> self.lhs != nil && self.lhs != self && self.lhs != self.Seq && !done(self.lhs) && kv(self.lhs) != []
//@   model kv(self) = kv(self.Seq) ++ flatmap(self.rhs, tl(kv(self.lhs)))

//@ type *toSeq implements seq.Seq
//@   objinv !done(self) ==> self.Seq != nil && self.Seq != self && !done(self.Seq) && view(self.Seq) != []
//@   objinv !done(self) ==> self.lhs != nil && self.lhs != self && self.lhs != self.Seq && !done(self.lhs) && kv(self.lhs) != []
//@   model view(self) = view(self.Seq) ++ flatmap(self.rhs, tl(kv(self.lhs)))

//@ type *fromSeq implements Seq
//@   objinv !done(self) ==> self.Seq != nil && self.Seq != self && !done(self.Seq) && kv(self.Seq) != []
//@   objinv !done(self) ==> self.lhs != nil && self.lhs != self && self.lhs != self.Seq && !done(self.lhs) && view(self.lhs) != []
//@   model kv(self) = kv(self.Seq) ++ flatmap(self.rhs, tl(view(self.lhs)))

// ---- loops inside methods ----

//@ func (filter) Next
//@   opt via=subtype
//@   loop 0 invariant !done(self.Seq) && kv(self.Seq) != [] && filter(self.f, tl(kv(self.Seq))) == tl(old(kv(self)))
//@   loop 0 decreases len(kv(self.Seq))

//@ func (*plus) Next
//@   opt via=subtype
//@   opt lemmas=cat_nil

//@ func (*join) Next
//@   opt via=subtype
//@   loop 0 invariant self.lhs == old(self.lhs) && self.rhs == old(self.rhs) && self.lhs != self && !done(self.lhs) && kv(self.lhs) != [] && flatmap(self.rhs, tl(kv(self.lhs))) == tl(old(kv(self)))
//@   loop 0 decreases len(kv(self.lhs))
//@   fn rhs:
//@     ensures (result == nil) == (rhsview(rhs, $1, $2) == [])
//@     ensures result != nil ==> fresh(result) && !done(result) && kv(result) == rhsview(rhs, $1, $2)

//@ func (*toSeq) Next
//@   opt via=subtype
//@   loop 0 invariant self.lhs == old(self.lhs) && self.rhs == old(self.rhs) && self.lhs != self && !done(self.lhs) && kv(self.lhs) != [] && flatmap(self.rhs, tl(kv(self.lhs))) == tl(old(view(self)))
//@   loop 0 decreases len(kv(self.lhs))
//@   fn rhs:
//@     ensures (result == nil) == (rhsview(rhs, $1, $2) == [])
//@     ensures result != nil ==> fresh(result) && !done(result) && view(result) == rhsview(rhs, $1, $2)

//@ func (*fromSeq) Next
//@   opt via=subtype
//@   loop 0 invariant self.lhs == old(self.lhs) && self.rhs == old(self.rhs) && self.lhs != self && !done(self.lhs) && view(self.lhs) != [] && flatmap(self.rhs, tl(view(self.lhs))) == tl(old(kv(self)))
//@   loop 0 decreases len(view(self.lhs))
//@   fn rhs:
//@     ensures (result == nil) == (rhsview(rhs, $1) == [])
//@     ensures result != nil ==> fresh(result) && !done(result) && kv(result) == rhsview(rhs, $1)

// ---- constructors ----

//@ func From
//@   ensures result != nil && !done(result)
//@   ensures list: kv(result) == [pair(key, val)]

//@ func TakeWhile
//@   requires f != nil
//@   requires seq != nil ==> !done(seq) && kv(seq) != []
//@   ensures result != nil ==> !done(result) && kv(result) != []
//@   ensures list: seqlist(result, kv) == takew(f, old(seqlist(seq, kv)))

//@ func DropWhile
//@   loops 1
//@   requires seq != nil ==> !done(seq) && kv(seq) != []
//@   ensures result != nil ==> !done(result) && kv(result) != []
//@   ensures list: seqlist(result, kv) == dropw(f, old(seqlist(seq, kv)))
//@   loop 0 invariant !done(seq) && kv(seq) != [] && dropw(f, kv(seq)) == dropw(f, old(kv(seq)))
//@   loop 0 decreases len(kv(seq))

//@ func Filter
//@   loops 1
//@   requires f != nil
//@   requires seq != nil ==> !done(seq) && kv(seq) != []
//@   ensures result != nil ==> !done(result) && kv(result) != []
//@   ensures list: seqlist(result, kv) == filter(f, old(seqlist(seq, kv)))
//@   loop 0 invariant !done(seq) && kv(seq) != [] && filter(f, kv(seq)) == filter(f, old(kv(seq)))
//@   loop 0 decreases len(kv(seq))

// Map changes values but never keys
//@ func Map
//@   requires seq != nil ==> !done(seq) && kv(seq) != []
//@   ensures result != nil ==> !done(result) && kv(result) != []
//@   ensures list: seqlist(result, kv) == mapv(f, old(seqlist(seq, kv)))

//@ func Plus
//@   opt lemmas=cat_nil
//@   requires lhs != nil ==> !done(lhs) && kv(lhs) != []
//@   requires rhs != nil ==> !done(rhs) && kv(rhs) != []
//@   requires lhs != nil && rhs != nil ==> lhs != rhs
//@   ensures result != nil ==> !done(result) && kv(result) != []
//@   ensures list: seqlist(result, kv) == old(seqlist(lhs, kv)) ++ old(seqlist(rhs, kv))

//@ func Join
//@   loops 1
//@   requires lhs != nil ==> !done(lhs) && kv(lhs) != []
//@   ensures result != nil ==> !done(result) && kv(result) != []
//@   ensures list: seqlist(result, kv) == flatmap(rhs, old(seqlist(lhs, kv)))
//@   loop 0 invariant join.lhs == lhs && join.rhs == rhs && join != lhs && !done(lhs) && kv(lhs) != [] && flatmap(rhs, kv(lhs)) == flatmap(rhs, old(kv(lhs)))
//@   loop 0 decreases len(kv(lhs))
//@   fn rhs:
//@     ensures (result == nil) == (rhsview(rhs, $1, $2) == [])
//@     ensures result != nil ==> fresh(result) && !done(result) && kv(result) == rhsview(rhs, $1, $2)

//@ func ToSeq
//@   loops 1
//@   requires lhs != nil ==> !done(lhs) && kv(lhs) != []
//@   ensures result != nil ==> !done(result) && view(result) != []
//@   ensures list: seqlist(result) == flatmap(rhs, old(seqlist(lhs, kv)))
//@   loop 0 invariant join.lhs == lhs && join.rhs == rhs && join != lhs && !done(lhs) && kv(lhs) != [] && flatmap(rhs, kv(lhs)) == flatmap(rhs, old(kv(lhs)))
//@   loop 0 decreases len(kv(lhs))
//@   fn rhs:
//@     ensures (result == nil) == (rhsview(rhs, $1, $2) == [])
//@     ensures result != nil ==> fresh(result) && !done(result) && view(result) == rhsview(rhs, $1, $2)

//@ func FromSeq
//@   loops 1
//@   requires lhs != nil ==> !done(lhs) && view(lhs) != []
//@   ensures result != nil ==> !done(result) && kv(result) != []
//@   ensures list: seqlist(result, kv) == flatmap(rhs, old(seqlist(lhs)))
//@   loop 0 invariant join.lhs == lhs && join.rhs == rhs && join != lhs && !done(lhs) && view(lhs) != [] && flatmap(rhs, view(lhs)) == flatmap(rhs, old(view(lhs)))
//@   loop 0 decreases len(view(lhs))
//@   fn rhs:
//@     ensures (result == nil) == (rhsview(rhs, $1) == [])
//@     ensures result != nil ==> fresh(result) && !done(result) && kv(result) == rhsview(rhs, $1)

// ForEach visits the list in order, with matching key and value, and stops at the first error
//@ func ForEach
//@   loops 1
//@   opt calltrace=on
//@   requires seq != nil ==> !done(seq) && kv(seq) != []
//@   ensures visits_in_order_until_first_error: calls == evl(f, old(calls), untilerr(f, old(seqlist(seq, kv))))
//@   ensures returns_first_error: result == firsterr(f, old(seqlist(seq, kv)))
//@   loop 0 invariant has ==> seq != nil && !done(seq) && kv(seq) != []
//@   loop 0 invariant evl(f, calls, untilerr(f, ite(has, kv(seq), []))) == evl(f, old(calls), untilerr(f, old(seqlist(seq, kv))))
//@   loop 0 invariant firsterr(f, ite(has, kv(seq), [])) == firsterr(f, old(seqlist(seq, kv)))
