//go:build verif

// Contracts for pure/eq (property C17). Comment-only file: see /verif/DESIGN.md section 2.1.

package eq

//@ fileprops C17

//@ interface Eq
//@   method Equal
//@     pure

// eq.Int / eq.String agree with ==
//@ type eq implements Eq
//@   model Equal(self, a, b) = a == b

// From returns exactly what the wrapped function returns, arguments in order
//@ type From implements Eq
//@   model Equal(self, a, b) = app(self, a, b)

// ContraMap gives the result of the base instance on the projected values, in argument order
//@ type ContraMap implements Eq
//@   objinv self.Eq != nil
//@   model Equal(self, a, b) = self.Eq.Equal(app(self.ContraMap, a), app(self.ContraMap, b))

//@ instance Int : eq
//@ instance String : eq

// == is an equivalence (the instances above are proved to be ==)
//@ lemma int_reflexive: forall a Int :: a == a
//@ lemma int_symmetric: forall a Int, b Int :: (a == b) == (b == a)
//@ lemma int_transitive: forall a Int, b Int, c Int :: a == b && b == c ==> a == c
//@ lemma str_reflexive: forall a Str :: a == a
//@ lemma str_symmetric: forall a Str, b Str :: (a == b) == (b == a)
//@ lemma str_transitive: forall a Str, b Str, c Str :: a == b && b == c ==> a == c
