//go:build verif

// Contracts for pipe (properties C05, C06, C07, C08, C11, C12, C13). Comment-only file: see
// /verif/DESIGN.md sections 2.1 and 4.
//
// Every stage is one goroutine (`go 0`) that owns the send/close end of the channels it
// creates (`takes`) and receives from the channels it was given (`inputs`). Its contract is
// about the goroutine's own ghost traces: sent(c), rcvd(c), closed(c), drained(c); the
// outcome of every receive and select is a demonic choice, so what is proved holds for every
// schedule and capacity. total(c) is everything the environment will ever deliver on c.

package pipe

//@ fileprops C05 C06 C07

// ---- stage functions: Lift/Pure = fail-fast, Try = try-and-continue ----

//@ interface F
//@   ghostmethod failfast() : Bool
//@   method Apply
//@     pure
//@   method errch
//@     requires $1 >= 0
//@     ensures fresh(result) && own(result) && !closed(result) && sent(result) == [] && shares(result) == 0
//@     ensures failfast_has_a_slot: self.failfast() ==> slots(result) >= 1
//@   method catch
//@     requires $3 != nil && maysend($3) && !closed($3)
//@     requires self.failfast() ==> slots($3) >= 1
//@     modifies sent($3), slots($3), sawCancel
//@     opt observes_cancel=1
//@     ensures failfast_sends_and_stops: self.failfast() ==> !result && sent($3) == snoc(old(sent($3)), $2) && sawCancel == old(sawCancel)
//@     ensures try_sends_or_cancelled: !self.failfast() ==> ite(result, sent($3) == snoc(old(sent($3)), $2) && sawCancel == old(sawCancel), sawCancel && sent($3) == old(sent($3)))

//@ type pure implements F
//@   model failfast(self) = true
//@   model Apply(self, a) = app(self, a)
//@   model Apply#1(self, a) = app1(self, a)

//@ type try implements F
//@   model failfast(self) = false
//@   model Apply(self, a) = app(self, a)
//@   model Apply#1(self, a) = app1(self, a)

//@ func Pure
//@   ensures result != nil && result.failfast()
//@   ensures never_fails: forall a A :: result.Apply(a) == app(f, a) && result.Apply#1(a) == nil
//@   fn 0:
//@     pure
//@     ensures result == app($o1, $1) && result1 == nil

//@ func Lift
//@   ensures result != nil && result.failfast()
//@   ensures forall a A :: result.Apply(a) == app(f, a) && result.Apply#1(a) == app1(f, a)

//@ func Try
//@   ensures result != nil && !result.failfast()
//@   ensures forall a A :: result.Apply(a) == app(f, a) && result.Apply#1(a) == app1(f, a)

// ---- Map: images of the elements, in order; errors per mode ----

//@ func Map
//@   requires f != nil
//@   go 0:
//@     loops 1
//@     opt takes=out,exx
//@     opt inputs=in
//@     opt lemmas=tmapok_mono,tprefix_init
//@     requires f != nil && out != exx
//@     requires f.failfast() ==> slots(exx) >= 1
//@     loop 0 invariant !closed(out) && !closed(exx) && !sawCancel
//@     loop 0 invariant sent(out) == tmapok(f, rcvd(in)) && sent(exx) == terrs(f, rcvd(in))
//@     loop 0 invariant f.failfast() ==> tallok(f, rcvd(in)) && sent(exx) == [] && slots(exx) >= 1
//@     ensures closes_outputs: closed(out) && closed(exx)
//@     ensures values_in_order: !sawCancel ==> sent(out) == tmapok(f, rcvd(in))
//@     ensures errors_in_order: !sawCancel ==> sent(exx) == terrs(f, rcvd(in))
//@     ensures runs_to_the_end: !sawCancel && (!f.failfast() || sent(exx) == []) ==> drained(in)
//@     ensures failfast_stops_at_first_error: f.failfast() && !sawCancel && !drained(in) ==> rcvd(in) != [] && tallok(f, init(rcvd(in))) && f.Apply#1(last(rcvd(in))) != nil && sent(out) == tmapok(f, init(rcvd(in))) && sent(exx) == [f.Apply#1(last(rcvd(in)))]
//@     ensures [C06] delivered_is_a_prefix: isPrefix(sent(out), tmapok(f, total(in)))

// ---- Filter ----

//@ func Filter
//@   requires f != nil
//@   go 0:
//@     loops 1
//@     opt takes=out
//@     opt inputs=in
//@     opt lemmas=tfilter_mono,tprefix_init
//@     requires f != nil
//@     loop 0 invariant !closed(out) && !sawCancel && sent(out) == tfilter(f, rcvd(in))
//@     ensures closes_outputs: closed(out)
//@     ensures kept_in_order: !sawCancel ==> drained(in) && sent(out) == tfilter(f, rcvd(in))
//@     ensures [C06] delivered_is_a_prefix: isPrefix(sent(out), tfilter(f, total(in)))

// ---- Take: forwards what it consumes, consumes at most n, stops early only at the end of input ----

//@ func Take
//@   requires n >= 0
//@   go 0:
//@     loops 1
//@     opt takes=out
//@     opt inputs=in
//@     opt lemmas=tprefix_init
//@     ghost n0 := n
//@     requires n >= 0
//@     loop 0 invariant !closed(out) && !sawCancel && sent(out) == rcvd(in) && len(rcvd(in)) + n == n0 && (n0 >= 1 ==> n >= 1)
//@     ensures closes_outputs: closed(out)
//@     ensures forwards_what_it_consumes: !sawCancel ==> sent(out) == rcvd(in)
//@     ensures consumes_at_most_n: len(rcvd(in)) <= n0
//@     ensures stops_early_only_at_end_of_input: !sawCancel && len(rcvd(in)) < n0 ==> drained(in)
//@     ensures [C06] delivered_is_a_prefix: isPrefix(sent(out), total(in))

// ---- TakeWhile: longest prefix whose elements are all kept ----

//@ func TakeWhile
//@   requires f != nil
//@   go 0:
//@     loops 1
//@     opt takes=out
//@     opt inputs=in
//@     opt lemmas=tprefix_init
//@     requires f != nil
//@     loop 0 invariant !closed(out) && !sawCancel && sent(out) == rcvd(in) && tallkeep(f, rcvd(in))
//@     ensures closes_outputs: closed(out)
//@     ensures all_kept: tallkeep(f, sent(out))
//@     ensures longest_prefix: !sawCancel ==> ite(drained(in), sent(out) == rcvd(in), rcvd(in) != [] && sent(out) == init(rcvd(in)) && !keep(f, last(rcvd(in))))
//@     ensures [C06] delivered_is_a_prefix: isPrefix(sent(out), total(in))

// ---- Partition: both order-preserving halves ----

//@ func Partition
//@   requires f != nil
//@   go 0:
//@     loops 1
//@     opt takes=lout,rout
//@     opt inputs=in
//@     opt lemmas=tfilter_mono,tprefix_init
//@     requires f != nil && lout != rout
//@     loop 0 invariant !closed(lout) && !closed(rout) && !sawCancel && sent(lout) == tfilter(f, rcvd(in)) && sent(rout) == tfilternot(f, rcvd(in))
//@     ensures closes_outputs: closed(lout) && closed(rout)
//@     ensures halves_in_order: !sawCancel ==> drained(in) && sent(lout) == tfilter(f, rcvd(in)) && sent(rout) == tfilternot(f, rcvd(in))
//@     ensures [C06] delivered_is_a_prefix: isPrefix(sent(lout), tfilter(f, total(in))) && isPrefix(sent(rout), tfilternot(f, total(in)))

// ---- Fold: left fold from the monoid's empty element ----

//@ func Fold
//@   requires m != nil
//@   go 0:
//@     loops 1
//@     opt takes=done
//@     opt inputs=in
//@     requires m != nil && slots(done) >= 1
//@     loop 0 invariant !closed(done) && !sawCancel && sent(done) == [] && slots(done) >= 1 && acc == foldm(m, m.Empty(), rcvd(in))
//@     ensures closes_outputs: closed(done)
//@     ensures left_fold_from_empty: !sawCancel ==> drained(in) && sent(done) == [foldm(m, m.Empty(), rcvd(in))]
//@     ensures [C06] delivered_is_a_prefix: !sawCancel ==> isPrefix(sent(done), [foldm(m, m.Empty(), total(in))])
//@     ensures [C06] delivered_is_a_prefix_after_cancel: sawCancel ==> isPrefix(sent(done), [foldm(m, m.Empty(), total(in))])

// ---- ForEach / Void: consume everything, then close ----

//@ func ForEach
//@   requires f != nil
//@   go 0:
//@     loops 1
//@     opt takes=done
//@     opt inputs=in
//@     requires f != nil
//@     loop 0 invariant !closed(done) && !sawCancel && sent(done) == []
//@     ensures closes_outputs: closed(done)
//@     ensures consumes_all: !sawCancel ==> drained(in)
//@     ensures sends_nothing: sent(done) == []

//@ func Void
//@   go 0:
//@     loops 1
//@     opt takes=done
//@     opt inputs=in
//@     loop 0 invariant !closed(done) && !sawCancel && sent(done) == []
//@     ensures closes_outputs: closed(done)
//@     ensures consumes_all: !sawCancel ==> drained(in)
//@     ensures sends_nothing: sent(done) == []

// ---- Seq / ToSeq: identity ----

//@ func Seq
//@   loops 1
//@   props C05 C06
//@   ensures result != nil && closed(result)
//@   ensures holds_the_elements_in_order: sent(result) == tol([], xs)
//@   loop 0 invariant own(out) && !closed(out) && slots(out) == len(rest) && tol(sent(out), rest) == tol([], xs)

//@ func ToSeq
//@   loops 1
//@   props C05 C06
//@   ensures the_elements_in_order: result == tolist(rcvd(ch)) && drained(ch)
//@   requires rcvd(ch) == []
//@   loop 0 invariant seq == tolist(rcvd(ch))

//@ func StdErr
//@   props C06 C07
//@   go 0:
//@     opt inputs=exx
//@     ensures drains_the_error_channel: drained(exx)

// ---- arrows (LiftF / TryF) and FMap: concatenation of what the arrow emits per element ----

//@ interface FF
//@   ghostmethod failfast() : Bool
//@   ghostmethod emits(a A) : Tr[B]
//@   ghostmethod fails(a A) : Err
//@   method Apply
//@     requires $3 != nil && maysend($3) && !closed($3)
//@     modifies sent($3), sawCancel
//@     ensures old(sawCancel) ==> sawCancel
//@     ensures isPrefix(old(sent($3)), sent($3))
//@     ensures arrow_emits_its_image: !sawCancel ==> sent($3) == old(sent($3)) ++ self.emits($2) && result == self.fails($2)
//@   method errch
//@     requires $1 >= 0
//@     ensures fresh(result) && own(result) && !closed(result) && sent(result) == [] && shares(result) == 0
//@     ensures failfast_has_a_slot: self.failfast() ==> slots(result) >= 1
//@   method catch
//@     requires $3 != nil && maysend($3) && !closed($3)
//@     requires self.failfast() ==> slots($3) >= 1
//@     modifies sent($3), slots($3), sawCancel
//@     opt observes_cancel=1
//@     ensures failfast_sends_and_stops: self.failfast() ==> !result && sent($3) == snoc(old(sent($3)), $2) && sawCancel == old(sawCancel)
//@     ensures try_sends_or_cancelled: !self.failfast() ==> ite(result, sent($3) == snoc(old(sent($3)), $2) && sawCancel == old(sawCancel), sawCancel && sent($3) == old(sent($3)))

//@ type puref implements FF
//@   model failfast(self) = true
//@   model emits(self, a) = arrowemits(self, a)
//@   model fails(self, a) = arrowfails(self, a)

//@ type tryf implements FF
//@   model failfast(self) = false
//@   model emits(self, a) = arrowemits(self, a)
//@   model fails(self, a) = arrowfails(self, a)

// trusted arrow contract: the user-supplied arrow sends exactly arrowemits(f, a) on the
// channel it is given, in order, does not close it, and returns arrowfails(f, a)
//@ func (puref) Apply
//@   opt via=subtype
//@   fn f:
//@     requires $3 != nil && maysend($3) && !closed($3)
//@     modifies sent($3), sawCancel
//@     ensures old(sawCancel) ==> sawCancel
//@     ensures isPrefix(old(sent($3)), sent($3))
//@     ensures !sawCancel ==> sent($3) == old(sent($3)) ++ arrowemits(f, $2) && result == arrowfails(f, $2)

//@ func (tryf) Apply
//@   opt via=subtype
//@   fn f:
//@     requires $3 != nil && maysend($3) && !closed($3)
//@     modifies sent($3), sawCancel
//@     ensures old(sawCancel) ==> sawCancel
//@     ensures isPrefix(old(sent($3)), sent($3))
//@     ensures !sawCancel ==> sent($3) == old(sent($3)) ++ arrowemits(f, $2) && result == arrowfails(f, $2)

//@ func LiftF
//@   ensures result != nil && result.failfast()
//@   ensures forall a A :: result.emits(a) == arrowemits(f, a) && result.fails(a) == arrowfails(f, a)

//@ func TryF
//@   ensures result != nil && !result.failfast()
//@   ensures forall a A :: result.emits(a) == arrowemits(f, a) && result.fails(a) == arrowfails(f, a)

//@ func FMap
//@   requires fmap != nil
//@   go 0:
//@     loops 1
//@     opt takes=out,exx
//@     opt inputs=in
//@     requires fmap != nil && out != exx
//@     requires fmap.failfast() ==> slots(exx) >= 1
//@     loop 0 invariant !closed(out) && !closed(exx)
//@     loop 0 invariant !sawCancel ==> sent(out) == tflat(fmap, rcvd(in)) && sent(exx) == tferrs(fmap, rcvd(in))
//@     loop 0 invariant fmap.failfast() ==> slots(exx) >= 1 && (!sawCancel ==> tfallok(fmap, rcvd(in)) && sent(exx) == [])
//@     ensures closes_outputs: closed(out) && closed(exx)
//@     ensures concatenated_images_in_order: !sawCancel ==> sent(out) == tflat(fmap, rcvd(in))
//@     ensures errors_in_order: !sawCancel ==> sent(exx) == tferrs(fmap, rcvd(in))
//@     ensures runs_to_the_end: !sawCancel && (!fmap.failfast() || sent(exx) == []) ==> drained(in)
//@     ensures failfast_stops_at_first_error: fmap.failfast() && !sawCancel && !drained(in) ==> rcvd(in) != [] && tfallok(fmap, init(rcvd(in))) && fmap.fails(last(rcvd(in))) != nil && sent(exx) == [fmap.fails(last(rcvd(in)))]

// ---- Emit: f(0), f(1), ... one application per completed Sleep ----

//@ func Emit
//@   props C06 C07 C11
//@   requires f != nil && cap >= 0
//@   go 0:
//@     loops 1
//@     props C06 C07 C11
//@     opt takes=out,exx
//@     opt overflow=off
//@     opt tick=frequency
//@     requires f != nil && out != exx
//@     requires f.failfast() ==> slots(exx) >= 1
//@     loop 0 invariant !closed(out) && !closed(exx) && !sawCancel && i >= 0
//@     loop 0 invariant one_application_per_tick: i <= sleeps && len(sent(out)) <= sleeps
//@     loop 0 invariant sent(out) == tmapok(f, tupto(i)) && sent(exx) == terrs(f, tupto(i))
//@     loop 0 invariant f.failfast() ==> tallok(f, tupto(i)) && sent(exx) == [] && slots(exx) >= 1
//@     ensures closes_outputs: closed(out) && closed(exx)
//@     ensures [C11 C07] successive_indices_no_gap_no_repeat: sent(out) == tmapok(f, tupto(i)) && (sent(exx) == terrs(f, tupto(i)) || sent(exx) == terrs(f, tupto(i + 1)))
//@     ensures [C11] never_ahead_of_the_clock: len(sent(out)) <= sleeps
//@     ensures stops_only_on_cancel_or_first_failure: sawCancel || (f.failfast() && sent(exx) != [])

// ---- Unfold: seed, f(seed), f(f(seed)), ... ----

//@ func Unfold
//@   props C06 C07 C11
//@   requires f != nil && cap >= 0
//@   go 0:
//@     loops 1
//@     props C06 C07 C11
//@     opt takes=out,exx
//@     ghost seed0 := seed
//@     requires f != nil && out != exx
//@     requires f.failfast() ==> slots(exx) >= 1
//@     loop 0 invariant !closed(out) && !closed(exx) && !sawCancel
//@     loop 0 invariant sent(out) == titer(f, seed0, len(sent(out))) && seed == fpow(f, seed0, len(sent(out)))
//@     loop 0 invariant f.failfast() ==> sent(exx) == [] && slots(exx) >= 1
//@     loop 0 invariant errors_are_the_failures: sent(exx) == terrs(f, sent(out))
//@     ensures closes_outputs: closed(out) && closed(exx)
//@     ensures [C11] successive_iterates: sent(out) == titer(f, seed0, len(sent(out)))
//@     ensures [C07 C11] errors_are_the_failures: !sawCancel ==> sent(exx) == terrs(f, sent(out))
//@     ensures stops_only_on_cancel_or_first_failure: sawCancel || (f.failfast() && sent(exx) != [])

// ---- Join: every copier forwards its input in order; out closes after all copiers ----

//@ func Join
//@   loops 1
//@   props C06 C12
//@   ensures result != nil
//@   loop 0 invariant own(out) && !closed(out) && sent(out) == [] && !closerSpawned && added == len(in) && spawned == idx && shares(out) == idx && idx + len(rest) == len(in)
//@   go 0:
//@     loops 1
//@     props C06 C12
//@     opt shares=out
//@     opt inputs=c
//@     opt worker=1
//@     opt lemmas=tprefix_init
//@     loop 0 invariant !closed(out) && !sawCancel && doneCalls == 0 && sent(out) == rcvd(c)
//@     ensures [C12] forwards_its_input_in_order: !sawCancel ==> drained(c) && sent(out) == rcvd(c)
//@     ensures delivered_is_a_prefix: isPrefix(sent(out), total(c))
//@     ensures signals_completion_once: doneCalls == 1
//@   go 1:
//@     props C06 C12
//@     opt takes=out
//@     opt closer=1
//@     ensures closes_after_all_copiers: closed(out) && waited

// ---- Throttling: the data goroutine forwards every element in order after taking one token
// each; the pacer hands out exactly ops tokens per completed interval wait ----

//@ func Throttling
//@   props C06 C13
//@   requires ops >= 0
//@   go 0:
//@     loops 2
//@     props C06 C13
//@     opt takes=ctl
//@     opt overflow=off
//@     opt tick=interval
//@     requires cap(ctl) == ops && ops >= 0
//@     loop 0 invariant !closed(ctl) && !sawCancel && len(sent(ctl)) == sleeps * ops
//@     loop 1 invariant !closed(ctl) && !sawCancel && 0 <= iter && iter <= ops && len(sent(ctl)) == sleeps * ops + iter
//@     ensures closes_tokens_only_on_cancel: closed(ctl) && sawCancel
//@     ensures [C13] ops_tokens_per_interval: len(sent(ctl)) <= sleeps * ops + ops
//@   go 1:
//@     loops 1
//@     props C06 C13
//@     opt takes=out
//@     opt inputs=in,ctl
//@     opt lemmas=tprefix_init
//@     loop 0 invariant !closed(out) && !sawCancel && sent(out) == rcvd(in) && (!drained(ctl) ==> len(rcvd(ctl)) == len(rcvd(in)))
//@     ensures closes_outputs: closed(out)
//@     ensures [C13] every_element_once_in_order: !sawCancel ==> drained(in) && sent(out) == rcvd(in)
//@     ensures [C13] one_token_per_element_until_the_pacer_stops: !drained(ctl) ==> len(sent(out)) <= len(rcvd(ctl))
//@     ensures delivered_is_a_prefix: isPrefix(sent(out), total(in))

// ---- the unbounded channel (C08): linked queue + pump goroutine ----
//
// Ghost fields of a queue: the live nodes are nodes[off], ..., nodes[off+n-1] in link order,
// qview is the list of the values they hold. qinv ties them to the heap.

//@ ghostfield queue nodes map[int]*q[A]
//@ ghostfield queue off int
//@ ghostfield queue n int
//@ ghostfield queue qview []A

//@ pred qinv(queue) = queue != nil && n(queue) >= 0 && len(qview(queue)) == n(queue)
//@   | && (n(queue) == 0 ==> queue.head == nil && queue.tail == nil)
//@   | && (n(queue) > 0 ==> queue.head == nodes(queue)[off(queue)] && queue.tail == nodes(queue)[off(queue) + n(queue) - 1] && nodes(queue)[off(queue) + n(queue) - 1].next == nil)
//@   | && (forall k Int :: off(queue) <= k && k < off(queue) + n(queue) - 1 ==> nodes(queue)[k].next == nodes(queue)[k + 1])
//@   | && (forall k Int :: off(queue) <= k && k < off(queue) + n(queue) ==> nodes(queue)[k] != nil && alloc(nodes(queue)[k]) && !pooled(nodes(queue)[k]) && nodes(queue)[k].value != nil && alloc(nodes(queue)[k].value) && deref(nodes(queue)[k].value) == qview(queue)[k - off(queue)])
//@   | && (forall k Int, j Int :: off(queue) <= k && k < j && j < off(queue) + n(queue) ==> nodes(queue)[k] != nodes(queue)[j])

//@ func newq
//@   props C08
//@   ensures result != nil && qinv(result) && qview(result) == []
//@   gset n(queue) = 0
//@   gset off(queue) = 0
//@   gset qview(queue) = []

//@ func enq
//@   props C08
//@   opt lemmas=nth_snocl
//@   requires inv: qinv(queue)
//@   requires nonnil: x != nil && alloc(x)
//@   modifies queue.head, queue.tail, anyfield(q, value), anyfield(q, next), nodes(queue), n(queue), qview(queue), Pooled, Alloc
//@   ensures appends_at_the_back: qinv(queue) && qview(queue) == snoc(old(qview(queue)), old(deref(x)))
//@   gset nodes(queue) = store(old(nodes(queue)), old(off(queue)) + old(n(queue)), val)
//@   gset n(queue) = old(n(queue)) + 1
//@   gset qview(queue) = snoc(old(qview(queue)), deref(x))

//@ func deq
//@   props C08
//@   requires qinv(queue) && n(queue) > 0
//@   modifies queue.head, queue.tail, off(queue), n(queue), qview(queue), Pooled
//@   ensures removes_from_the_front: qinv(queue) && qview(queue) == tl(old(qview(queue))) && result != nil && deref(result) == hd(old(qview(queue)))
//@   gset off(queue) = old(off(queue)) + 1
//@   gset n(queue) = old(n(queue)) - 1
//@   gset qview(queue) = tl(old(qview(queue)))

//@ func head
//@   props C08
//@   pure
//@   requires qinv(queue)
//@   ensures front_or_zero: result == ite(n(queue) == 0, zero(A), hd(qview(queue)))

//@ func emit
//@   props C08
//@   pure
//@   requires qinv(queue)
//@   ensures nil_iff_empty: result == ite(n(queue) == 0, nil, ch)

//@ func New
//@   props C08
//@   requires cap >= 0
//@   go 0:
//@     loops 4
//@     props C08
//@     opt takes=eg
//@     opt closes=in
//@     opt inputs=in
//@     opt baresend=flush
//@     opt lemmas=tol_snocl
//@     requires qinv(mq) && qview(mq) == [] && eg != in && in != nil
//@     loop 0 invariant qinv(mq) && !closed(eg) && !closed(in) && !sawCancel && !drained(in) && tol(sent(eg), qview(mq)) == rcvd(in)
//@     loop 1 invariant qinv(mq) && !closed(eg) && tol(sent(eg), qview(mq)) == rcvd(in)
//@     loop 2 invariant qinv(mq) && !closed(eg) && drained(in) && tol(sent(eg), qview(mq)) == rcvd(in)
//@     loop 2 decreases n(mq)
//@     loop 3 invariant qinv(mq) && !closed(eg) && drained(in) && tol(sent(eg), qview(mq)) == rcvd(in)
//@     loop 3 decreases n(mq)
//@     ensures closes_receive_side: closed(eg)
//@     ensures fifo_lossless_duplicate_free: sent(eg) == rcvd(in)
//@     ensures every_completed_send_is_delivered: drained(in)
