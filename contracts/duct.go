//go:build verif

// Contracts for duct (property C16). Comment-only file: see /verif/DESIGN.md sections 3
// (memory abstraction 3) and 6/C16.
//
// The AST is an exclusively owned tree: every node is created by &T{...}, moved into exactly
// one place and never duplicated (the property restricts to programs in which each
// intermediate morphism is used once). Pointers to AstSeq/AstMap/AstFrom/AstYield are
// therefore values and Ast is their sum type; append/unit update their receiver in place.

package duct

//@ fileprops C16
//@ smt valuetree Ast AstSeq AstMap AstFrom AstYield

// every callback appends one event to the visit trace; the error it returns may depend on
// its position in the visit (every callback position is a possible failure point)
//@ interface Visitor
//@   method OnEnterMorphism
//@     modifies vtrace
//@     ensures vtrace == snoc(old(vtrace), vev(1, $1, asnode($2))) && result == cberr(self, len(old(vtrace)))
//@   method OnLeaveMorphism
//@     modifies vtrace
//@     ensures vtrace == snoc(old(vtrace), vev(0 - 1, $1, asnode($2))) && result == cberr(self, len(old(vtrace)))
//@   method OnEnterSeq
//@     modifies vtrace
//@     ensures vtrace == snoc(old(vtrace), vev(2, $1, asnode($2))) && result == cberr(self, len(old(vtrace)))
//@   method OnLeaveSeq
//@     modifies vtrace
//@     ensures vtrace == snoc(old(vtrace), vev(0 - 2, $1, asnode($2))) && result == cberr(self, len(old(vtrace)))
//@   method OnEnterMap
//@     modifies vtrace
//@     ensures vtrace == snoc(old(vtrace), vev(3, $1, asnode($2))) && result == cberr(self, len(old(vtrace)))
//@   method OnLeaveMap
//@     modifies vtrace
//@     ensures vtrace == snoc(old(vtrace), vev(0 - 3, $1, asnode($2))) && result == cberr(self, len(old(vtrace)))
//@   method OnEnterFrom
//@     modifies vtrace
//@     ensures vtrace == snoc(old(vtrace), vev(4, $1, asnode($2))) && result == cberr(self, len(old(vtrace)))
//@   method OnLeaveFrom
//@     modifies vtrace
//@     ensures vtrace == snoc(old(vtrace), vev(0 - 4, $1, asnode($2))) && result == cberr(self, len(old(vtrace)))
//@   method OnEnterYield
//@     modifies vtrace
//@     ensures vtrace == snoc(old(vtrace), vev(5, $1, asnode($2))) && result == cberr(self, len(old(vtrace)))
//@   method OnLeaveYield
//@     modifies vtrace
//@     ensures vtrace == snoc(old(vtrace), vev(0 - 5, $1, asnode($2))) && result == cberr(self, len(old(vtrace)))

// visiting a node: enter, the children one level deeper in order, leave - stopping at the
// first callback that returns an error, which is returned (walkT / walkE)
//@ interface Ast
//@   method Apply
//@     requires $2 != nil
//@     modifies vtrace
//@     ensures bracketed_visit: vtrace == walkT($2, self, $1, old(vtrace))
//@     ensures first_error_is_returned: result == walkE($2, self, $1, old(vtrace))

//@ type AstFrom implements Ast
//@ type AstMap implements Ast
//@ type AstYield implements Ast
//@ type AstSeq implements Ast

//@ func (AstSeq) Apply
//@   opt via=subtype
//@   opt overflow=off
//@   requires v != nil
//@   modifies vtrace
//@   ensures vtrace == walkT(v, asnode(self), depth, old(vtrace)) && result == walkE(v, asnode(self), depth, old(vtrace))
//@   loop 0 invariant cberr(v, len(old(vtrace))) == nil
//@   loop 0 invariant walkKT(v, rest, depth + 1, vtrace) == walkKT(v, n.Seq, depth + 1, snoc(old(vtrace), vev(nodekind(asnode(n)), depth, asnode(n))))
//@   loop 0 invariant walkKE(v, rest, depth + 1, vtrace) == walkKE(v, n.Seq, depth + 1, snoc(old(vtrace), vev(nodekind(asnode(n)), depth, asnode(n))))

// append: the node lands in the innermost still-open context; unit closes the innermost open one
//@ func (*AstSeq) append
//@   opt lemmas=nth_last,upd_last,upd_same
//@   opt slices=owned
//@   opt overflow=off
//@   ensures accepted_iff_open: result == old(self).Deferred
//@   ensures lands_in_innermost_open_context: self == ins(old(self), n)

//@ func (*AstSeq) unit
//@   opt lemmas=nth_last,upd_last,upd_same
//@   opt slices=owned
//@   opt overflow=off
//@   ensures done_iff_open: result == old(self).Deferred
//@   ensures closes_innermost_open_context: self == closeinner(old(self))

// recorded type names are duct.TypeOf of the step's own type parameters
//@ func typeName
//@   ensures result == tname(t)
//@ func TypeOf
//@   ensures result == tname(rtypeof(T))

//@ func (Morphism) Apply
//@   requires v != nil
//@   modifies vtrace
//@   ensures vtrace == walkT(v, asnode(self.code), 0, old(vtrace)) && result == walkE(v, asnode(self.code), 0, old(vtrace))

// builders: wfroot (root, open) is established by From and preserved by every combinator,
// so that an appended node is never dropped
//@ pred wfroot(c) = c.Root && c.Deferred
//@ func From
//@   ensures wfroot(result.code)
//@   ensures one_root_with_the_source: result.code == ins(mkseq(true, true), asnode(mkfrom(tname(rtypeof(A)), source.v)))
//@ func Join
//@   requires wfroot(m.code)
//@   ensures wfroot(result.code)
//@   ensures step_lands_in_innermost_open_context: result.code == ins(m.code, asnode(mkmap(tname(rtypeof(B)), tname(rtypeof(C)), f.f)))
//@ func LiftF
//@   requires wfroot(m.code)
//@   ensures wfroot(result.code)
//@   ensures opens_nested_context_with_the_step: result.code == ins(m.code, asnode(ins(mkseq(false, true), asnode(mkmap(tname(rtypeof(B)), tname(rtypeof(C)), f.f)))))
//@ func WrapF
//@   requires wfroot(m.code)
//@   ensures wfroot(result.code)
//@   ensures opens_empty_nested_context: result.code == ins(m.code, asnode(mkseq(false, true)))
//@ func Unit
//@   requires wfroot(m.code)
//@   ensures wfroot(result.code)
//@   ensures closes_innermost_open_context: result.code == closeinner(m.code)
//@ func Yield
//@   requires wfroot(m.code)
//@   ensures wfroot(result.code)
//@   ensures step_lands_in_innermost_open_context: result.code == ins(m.code, asnode(mkyield(tname(rtypeof(B)), target.v)))

// the carriers of sources, targets and functions keep what they are given
//@ func L1
//@   props C16
//@   ensures result.v == f

//@ func L2
//@   props C16
//@   ensures result.f == f
