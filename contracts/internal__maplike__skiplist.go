//go:build verif

// Contracts for internal/maplike/skiplist (property C18). Comment-only file: see
// /verif/DESIGN.md section 6/C18 and appendix A8.
//
// Heap model: nodes are heap objects, fingers and path are array-backed slices (each its
// own allocation; skip rewrites every level of path before use). Ghost fields of a list:
// live (the set of nodes in the list), dom/view (the abstract map) and nodeof (the node
// holding a key). The invariant is first order and index free: keys themselves are the order.

package skiplist

//@ fileprops C18
//@ smt slicemodel array

//@ ghostfield tSkipList live map[*tSkipNode[K,V]]bool
//@ ghostfield tSkipList dom map[K]bool
//@ ghostfield tSkipList view map[K]V
//@ ghostfield tSkipList nodeof map[K]*tSkipNode[K,V]

//@ pred lt(list, a, b) = list.Ord.Compare(a, b) == LT
//@ pred isnode(list, x) = x == list.head || live(list)[x]
//@ pred below(list, x, k) = x == list.head || list.Ord.Compare(x.key, k) == LT

// the comparison trait is a total order
//@ pred totalord(o) = o != nil
//@   | && (forall a K, b K :: o.Compare(a, b) == LT || o.Compare(a, b) == EQ || o.Compare(a, b) == GT)
//@   | && (forall a K, b K :: (o.Compare(a, b) == EQ) == (a == b))
//@   | && (forall a K, b K :: (o.Compare(a, b) == LT) == (o.Compare(b, a) == GT))
//@   | && (forall a K, b K, c K :: o.Compare(a, b) == LT && o.Compare(b, c) == LT ==> o.Compare(a, c) == LT)
//@ pred totalorder(list) = totalord(list.Ord)

//@ pred shape(list) = list != nil && list.random != nil && len(list.p) == list.levels + 1 && list.head != nil && !live(list)[list.head] && alloc(list.head) && list.levels >= 1 && len(list.path) == list.levels && len(list.head.fingers) == list.levels
//@   | && (forall x *tSkipNode :: live(list)[x] ==> x != nil && x != list.head && alloc(x) && 1 <= len(x.fingers) && len(x.fingers) <= list.levels)
// (2) every finger points to a live node of sufficient rank with a larger key
//@ pred fingersok(list) = forall x *tSkipNode, l Int :: isnode(list, x) && 0 <= l && l < len(x.fingers) && x.fingers[l] != nil ==> live(list)[x.fingers[l]] && len(x.fingers[l].fingers) > l && (x == list.head || lt(list, x.key, x.fingers[l].key))
// (3) no node of rank > l lies strictly between x and its level-l finger
//@ pred nearest(list) = forall x *tSkipNode, z *tSkipNode, l Int :: isnode(list, x) && live(list)[z] && 0 <= l && l < len(x.fingers) && len(z.fingers) > l && (x == list.head || lt(list, x.key, z.key)) ==> x.fingers[l] != nil && (x.fingers[l] == z || lt(list, x.fingers[l].key, z.key))
// the abstract map
//@ pred viewok(list) = (forall x *tSkipNode :: live(list)[x] ==> dom(list)[x.key] && view(list)[x.key] == x.val && nodeof(list)[x.key] == x)
//@   | && (forall k K :: dom(list)[k] ==> live(list)[nodeof(list)[k]] && nodeof(list)[k].key == k)

//@ pred skinv(list) = totalorder(list) && shape(list) && fingersok(list) && nearest(list) && viewok(list)

// per level: the node after which the key belongs
//@ pred pathok(list, p, j, key) = isnode(list, p) && len(p.fingers) > j && below(list, p, key) && (p.fingers[j] == nil || !lt(list, p.fingers[j].key, key))

// the table of level probabilities: for the arguments New passes (2^32, 1/e) the level count is 22
// (floating point logarithms and powers are not reasoned about)
//@ func probability
//@   trusted
//@   ensures result >= 1 && len(result1) == result + 1

// the empty map over a total order
//@ func New
//@   opt overflow=off
//@   requires totalord(compare)
//@   modifies Alloc
//@   gset live(asref(result, tSkipList)) = nomap()
//@   gset dom(asref(result, tSkipList)) = nomap()
//@   ensures result != nil && fresh(result) && asref(result, tSkipList).Ord == compare
//@   ensures empty: forall k K :: !dom(asref(result, tSkipList))[k]
//@   ensures inv: skinv(asref(result, tSkipList))

//@ func (*tSkipList) search
//@   loops 2
//@   opt slices=owned
//@   opt overflow=off
//@   requires skinv(self)
//@   ensures result != nil ==> live(self)[result] && !lt(self, result.key, key)
//@   ensures least_not_smaller: forall z *tSkipNode :: live(self)[z] && !lt(self, z.key, key) ==> result != nil && (result == z || lt(self, result.key, z.key))
//@   loop 0 invariant 0 - 1 <= level && level < self.levels && isnode(self, node) && below(self, node, key) && len(node.fingers) > level && next == node.fingers
//@   loop 0 invariant level < 0 ==> node.fingers[0] == nil || !lt(self, node.fingers[0].key, key)
//@   loop 1 invariant 0 <= level && level < self.levels && isnode(self, node) && below(self, node, key) && len(node.fingers) > level && next == node.fingers

//@ func (*tSkipList) skip
//@   loops 2
//@   opt slices=owned
//@   opt overflow=off
//@   requires skinv(self)
//@   ensures len(result1) == self.levels && result == result1[0].fingers[0]
//@   ensures forall j Int :: 0 <= j && j < self.levels ==> pathok(self, result1[j], j, key)
//@   loop 0 invariant 0 - 1 <= level && level < self.levels && isnode(self, node) && below(self, node, key) && len(node.fingers) > level && next == node.fingers && len(path) == self.levels
//@   loop 0 invariant forall j Int :: level < j && j < self.levels ==> pathok(self, path[j], j, key)
//@   loop 0 invariant level < 0 ==> node == path[0]
//@   loop 1 invariant 0 <= level && level < self.levels && isnode(self, node) && below(self, node, key) && len(node.fingers) > level && next == node.fingers && len(path) == self.levels
//@   loop 1 invariant forall j Int :: level < j && j < self.levels ==> pathok(self, path[j], j, key)

// node heights are random: every rank in [1, levels] must do. The floating point value p is
// not reasoned about (float operations are uninterpreted): the rank is at least 1 whatever p is.
//@ func (*tSkipList) mkNode
//@   loops 1
//@   opt overflow=off
//@   requires shape(self)
//@   modifies Alloc
//@   ensures rank_in_range: 1 <= result && result <= self.levels
//@   ensures fresh_node: fresh(result1) && result1 != nil && result1.key == key && result1.val == val && len(result1.fingers) == result
//@   ensures no_fingers_yet: forall l Int :: 0 <= l && l < result ==> result1.fingers[l] == nil
//@   loop 0 invariant 1 <= level && level <= self.levels

//@ func (*tSkipList) Get
//@   requires skinv(self)
//@   ensures like_a_map: result == ite(dom(self)[key], view(self)[key], zero(V))

//@ func (*tSkipList) Put
//@   loops 1
//@   opt slices=owned
//@   opt overflow=off
//@   requires skinv(self)
//@   modifies anyfield(tSkipNode, val), anyfield(tSkipNode, fingers), self.length, live(self), dom(self), view(self), nodeof(self), Alloc
//@   gset ret 0: view(self) = store(old(view(self)), key, val)
//@   gset ret 1: live(self) = store(old(live(self)), node, true)
//@   gset ret 1: dom(self) = store(old(dom(self)), key, true)
//@   gset ret 1: view(self) = store(old(view(self)), key, val)
//@   gset ret 1: nodeof(self) = store(old(nodeof(self)), key, node)
//@   ensures result == self
//@   ensures like_a_map_dom: dom(self) == store(old(dom(self)), key, true)
//@   ensures like_a_map_view: view(self) == store(old(view(self)), key, val)
//@   ensures inv_order: totalorder(self)
//@   ensures inv_shape: shape(self)
//@   ensures inv_fingers: fingersok(self)
//@   ensures inv_nearest: nearest(self)
//@   ensures inv_view: viewok(self)
//@   loop 0 invariant 0 <= level && level <= rank && len(path) == self.levels
//@   loop 0 invariant forall x *tSkipNode :: len(x.fingers) == len(old(x.fingers))
//@   loop 0 invariant forall x *tSkipNode, l Int :: x != node && 0 <= l && l < len(x.fingers) ==> x.fingers[l] == ite(l < level && x == path[l], node, old(x.fingers)[l])
//@   loop 0 invariant forall l Int :: 0 <= l && l < rank ==> node.fingers[l] == ite(l < level, old(path[l].fingers)[l], nil)

//@ func (*tSkipList) Remove
//@   loops 1
//@   opt slices=owned
//@   opt overflow=off
//@   requires skinv(self)
//@   modifies anyfield(tSkipNode, fingers), self.length, live(self), dom(self)
//@   gset ret 0: live(self) = store(old(live(self)), v, false)
//@   gset ret 0: dom(self) = store(old(dom(self)), key, false)
//@   ensures like_a_map_result: result == ite(old(dom(self))[key], old(view(self))[key], zero(V))
//@   ensures like_a_map_dom: dom(self) == store(old(dom(self)), key, false)
//@   ensures like_a_map_view: view(self) == old(view(self))
//@   ensures inv_order: totalorder(self)
//@   ensures inv_shape: shape(self)
//@   ensures inv_fingers: fingersok(self)
//@   ensures inv_nearest: nearest(self)
//@   ensures inv_view: viewok(self)
//@   loop 0 invariant 0 <= level && level <= rank && len(path) == self.levels
//@   loop 0 invariant forall x *tSkipNode :: len(x.fingers) == len(old(x.fingers))
//@   loop 0 invariant forall x *tSkipNode, l Int :: 0 <= l && l < len(x.fingers) ==> x.fingers[l] == ite(l < level && x == path[l] && old(x.fingers)[l] == v, ite(len(old(v.fingers)) > l, old(v.fingers)[l], nil), old(x.fingers)[l])

// The printed form: String walks the level-0 chain from the head. What is under contract
// here is the walk itself (every node visited is the head or a live node, the index 0 is
// in range, the walk advances); that this chain is exactly the live keys in ascending
// order with forward pointers to larger keys only is the invariant (fingersok, nearest).
// Formatting (fmt, bytes.Buffer) is not reasoned about; the node printer is verified for
// memory safety and purity only (it dereferences the fingers it prints).
//@ func (*tSkipNode) String
//@   loops 1
//@   pure
//@   requires self != nil

//@ func (*tSkipList) String
//@   loops 1
//@   opt overflow=off
//@   requires skinv(self)
//@   loop 0 invariant v == nil || isnode(self, v)
