package main

import (
	"fmt"
	"os"
	"regexp"
	"strconv"
	"strings"
)

// Contract files: comment-only Go files `zz_contracts_verif.go` (build tag verif) whose
// `//@` lines carry the contracts. Grammar (one clause per line; a line starting with `|`
// continues the previous clause):
//
//	func <Name> | func (<T>) <M> | func (*<T>) <M>
//	  props C05 C06            properties the unit serves
//	  ghost <id> := <expr>     entry value
//	  requires|ensures|panics_when [label:] <expr>
//	  pure | inline | trusted | nopanic
//	  modifies <heap or ghost map name>...
//	  loop <K> invariant [label:] <expr>     K-th loop of the (sub)procedure, source order
//	  loop <K> decreases <expr>
//	  assert <K> [label:] <expr>             ghost proof step before the K-th call/stmt marker
//	  go <K>: | fn <K>:                      sub-procedure: K-th go-literal / function literal
//	interface <Name>
//	  state <id> : <Sort>
//	  method <M>  (clauses as for func)
//	type <T> implements <I>
//	  model <id>(self) = <expr>
//	  objinv <expr>
//	lemma <name>: <expr>
type Clause struct {
	Tags  []string // properties the clause serves (default: all properties of the unit)
	Label string
	Src   string
	Expr  CExpr
	Line  int
	File  string
	Own   bool // (invariant inference) the clause was written for this very loop
}

type LoopContract struct {
	Inv  []Clause
	Decr []Clause
}

type ProcContract struct {
	Key        string
	Props      []string
	Ghosts     []GhostDef
	Requires   []Clause
	Ensures    []Clause
	PanicsWhen []Clause // exact: panics if and only if one of these holds (at entry)
	MayPanic   []Clause // the function may panic when one of these holds; it may also return
	Pure       bool
	Inline     bool
	Trusted    bool
	Modifies   []string
	Loops      map[int]*LoopContract
	Asserts    map[int][]Clause
	Subs       map[string]*ProcContract // "go0", "fn1"
	Parent     *ProcContract
	Opts       map[string]string
	LoopCount  int // loops N: number of loops of the body when the contract was written (0: not recorded)
	GSets      [][3]string // lhs, rhs, exit ("" any, "K" the K-th return statement, "end" falling off the end)
	File       string
	Line       int
}

type GhostDef struct {
	Name string
	Expr CExpr
	Src  string
	Line int
}

type IfaceContract struct {
	Name    string
	States  []CVar
	Methods map[string]*ProcContract
	Ghosts  map[string]*GhostMethod // abstract functions of the instance: ghostmethod elems(s F_) : List[A]
	Props   []string
}

type GhostMethod struct {
	Name   string
	Params []CVar
	Ret    string
}

type ImplContract struct {
	Type    string
	Iface   string
	Models  map[string]Clause
	MParams map[string][]string // parameter names of method models
	ObjInv  []Clause
	Opts    map[string]string
	Props   []string
}

type InstanceCheck struct {
	Name  string // package-level const/var
	Type  string // required named type (origin name)
	Behavioural string // set when the instance has another type whose methods are verified against the same models
	Props []string
	Line  int
}

type LemmaContract struct {
	Raw   string // raw SMT-LIB formula (rawlemma); declarations come from the file's smt lines
	Name  string
	Props []string
	Vars  []CVar
	Expr  Clause
	Uses  []string
}

type ContractFile struct {
	Path   string
	Hash   string
	Funcs  map[string]*ProcContract
	Order  []string
	Ifaces map[string]*IfaceContract
	Impls  map[string]*ImplContract
	Lemmas []*LemmaContract
	Insts  []*InstanceCheck
	GhostFields []GhostField
	Preds  map[string]*PredDef
	Decls  []string // raw smt declarations (spec functions local to the package)
	FileOpts map[string]string // fileopt k=v: default options of every unit of the file
}

var labelRe = regexp.MustCompile(`^([A-Za-z_][A-Za-z0-9_\-]*):\s+(.*)$`)

func newProc(key, file string, line int) *ProcContract {
	return &ProcContract{Key: key, Loops: map[int]*LoopContract{}, Asserts: map[int][]Clause{}, Subs: map[string]*ProcContract{}, Opts: map[string]string{}, File: file, Line: line}
}

func ParseContractFile(path string) (*ContractFile, error) {
	b, err := os.ReadFile(path)
	if err != nil {
		return nil, err
	}
	cf := &ContractFile{Path: path, Hash: sha(b), Funcs: map[string]*ProcContract{}, Ifaces: map[string]*IfaceContract{}, Impls: map[string]*ImplContract{}, Preds: map[string]*PredDef{}}
	type rawLine struct {
		text string
		n    int
	}
	var lines []rawLine
	for i, l := range strings.Split(string(b), "\n") {
		t := strings.TrimSpace(l)
		if !strings.HasPrefix(t, "//@") {
			if t != "" && !strings.HasPrefix(t, "//") && !strings.HasPrefix(t, "package ") {
				return nil, fmt.Errorf("%s:%d: contract files must be comment-only (found %q)", path, i+1, t)
			}
			continue
		}
		t = strings.TrimSpace(strings.TrimPrefix(t, "//@"))
		if j := strings.Index(t, " // "); j >= 0 {
			t = strings.TrimSpace(t[:j])
		}
		if t == "" {
			continue
		}
		if strings.HasPrefix(t, "|") && len(lines) > 0 {
			lines[len(lines)-1].text += " " + strings.TrimSpace(t[1:])
			continue
		}
		lines = append(lines, rawLine{t, i + 1})
	}

	var top *ProcContract // current func or method
	var cur *ProcContract // current proc (top or a sub)
	var iface *IfaceContract
	var impl *ImplContract
	var fileProps []string
	clause := func(s string, n int) (Clause, error) {
		c := Clause{Src: s, Line: n, File: path}
		if strings.HasPrefix(s, "[") {
			if j := strings.Index(s, "]"); j > 0 && strings.HasPrefix(strings.TrimSpace(s[1:j]), "C") {
				c.Tags = strings.Fields(strings.ReplaceAll(s[1:j], ",", " "))
				s = strings.TrimSpace(s[j+1:])
			}
		}
		if m := labelRe.FindStringSubmatch(s); m != nil && !strings.HasPrefix(m[2], ":") {
			c.Label, s = m[1], m[2]
		}
		e, err := ParseCExpr(s)
		if err != nil {
			return c, fmt.Errorf("%s:%d: %v", path, n, err)
		}
		c.Expr = e
		return c, nil
	}
	for _, rl := range lines {
		t, n := rl.text, rl.n
		word, rest, _ := strings.Cut(t, " ")
		rest = strings.TrimSpace(rest)
		switch word {
		case "fileprops":
			fileProps = strings.Fields(rest)
		case "fileopt":
			k, v, _ := strings.Cut(rest, "=")
			if cf.FileOpts == nil {
				cf.FileOpts = map[string]string{}
			}
			cf.FileOpts[strings.TrimSpace(k)] = strings.TrimSpace(v)
		case "func":
			key := normKey(rest)
			top = newProc(key, path, n)
			top.Props = fileProps
			cur, iface, impl = top, nil, nil
			if _, dup := cf.Funcs[key]; dup {
				return nil, fmt.Errorf("%s:%d: duplicate contract for %s", path, n, key)
			}
			cf.Funcs[key] = top
			cf.Order = append(cf.Order, key)
		case "interface":
			iface = &IfaceContract{Name: rest, Methods: map[string]*ProcContract{}, Ghosts: map[string]*GhostMethod{}, Props: fileProps}
			cf.Ifaces[rest] = iface
			top, cur, impl = nil, nil, nil
		case "method":
			if iface == nil {
				return nil, fmt.Errorf("%s:%d: method outside interface", path, n)
			}
			cur = newProc(iface.Name+"."+rest, path, n)
			iface.Methods[rest] = cur
		case "state":
			if iface == nil {
				return nil, fmt.Errorf("%s:%d: state outside interface", path, n)
			}
			nm, so, ok := strings.Cut(rest, ":")
			if !ok {
				return nil, fmt.Errorf("%s:%d: state needs `name : Sort`", path, n)
			}
			iface.States = append(iface.States, CVar{strings.TrimSpace(nm), strings.TrimSpace(so)})
		case "type":
			f := strings.Fields(rest)
			if len(f) != 3 || f[1] != "implements" {
				return nil, fmt.Errorf("%s:%d: expected `type T implements I`", path, n)
			}
			impl = &ImplContract{Type: f[0], Iface: f[2], Models: map[string]Clause{}, MParams: map[string][]string{}, Opts: map[string]string{}, Props: fileProps}
			cf.Impls[f[0]+"/"+f[2]] = impl
			top, cur, iface = nil, nil, nil
		case "model":
			if impl == nil {
				return nil, fmt.Errorf("%s:%d: model outside type", path, n)
			}
			lhs, rhs, ok := strings.Cut(rest, "=")
			if !ok {
				return nil, fmt.Errorf("%s:%d: model needs `name(self) = expr`", path, n)
			}
			lhs = strings.TrimSpace(lhs)
			nm := lhs
			if i := strings.Index(lhs, "("); i >= 0 {
				nm = strings.TrimSpace(lhs[:i])
				ps := strings.Split(strings.TrimSuffix(lhs[i+1:], ")"), ",")
				for _, p := range ps[1:] {
					impl.MParams[nm] = append(impl.MParams[nm], strings.TrimSpace(p))
				}
			}
			// the right-hand side may itself contain "=" (==, <=): re-cut at the first " = "
			if j := strings.Index(rest, " = "); j >= 0 {
				rhs = rest[j+3:]
			}
			c, err := clause(strings.TrimSpace(rhs), n)
			if err != nil {
				return nil, err
			}
			impl.Models[nm] = c
		case "objinv":
			if impl == nil {
				return nil, fmt.Errorf("%s:%d: objinv outside type", path, n)
			}
			c, err := clause(rest, n)
			if err != nil {
				return nil, err
			}
			impl.ObjInv = append(impl.ObjInv, c)
		case "lemma":
			nm, ex, ok := strings.Cut(rest, ":")
			if !ok {
				return nil, fmt.Errorf("%s:%d: lemma needs `name: expr`", path, n)
			}
			c, err := clause(strings.TrimSpace(ex), n)
			if err != nil {
				return nil, err
			}
			cf.Lemmas = append(cf.Lemmas, &LemmaContract{Name: strings.TrimSpace(nm), Expr: c, Props: fileProps})
		case "ghostmethod":
			if iface == nil {
				return nil, fmt.Errorf("%s:%d: ghostmethod outside interface", path, n)
			}
			// ghostmethod elems(s F_) : List[A]
			head, ret, ok := strings.Cut(rest, ":")
			i := strings.Index(head, "(")
			if !ok || i < 0 {
				return nil, fmt.Errorf("%s:%d: ghostmethod name(params) : Sort", path, n)
			}
			gm := &GhostMethod{Name: strings.TrimSpace(head[:i]), Ret: strings.TrimSpace(ret)}
			inner := strings.TrimSuffix(strings.TrimSpace(head[i+1:]), ")")
			for _, p := range strings.Split(inner, ",") {
				f := strings.Fields(p)
				if len(f) == 2 {
					gm.Params = append(gm.Params, CVar{f[0], f[1]})
				}
			}
			iface.Ghosts[gm.Name] = gm
		case "instance":
			// instance Int : ord
			nm, ty, ok := strings.Cut(rest, ":")
			if !ok {
				return nil, fmt.Errorf("%s:%d: instance Name : Type", path, n)
			}
			cf.Insts = append(cf.Insts, &InstanceCheck{Name: strings.TrimSpace(nm), Type: strings.TrimSpace(ty), Props: fileProps, Line: n})
			top, cur, iface, impl = nil, nil, nil, nil
		case "ghostfield":
			f := strings.SplitN(rest, " ", 3)
			if len(f) != 3 {
				return nil, fmt.Errorf("%s:%d: ghostfield <Type> <name> <gotype>", path, n)
			}
			cf.GhostFields = append(cf.GhostFields, GhostField{Owner: f[0], Name: f[1], Type: strings.TrimSpace(f[2])})
		case "pred":
			lhs, rhs, ok := strings.Cut(rest, " = ")
			i := strings.Index(lhs, "(")
			if !ok || i < 0 {
				return nil, fmt.Errorf("%s:%d: pred name(params) = expr", path, n)
			}
			pd := &PredDef{Name: strings.TrimSpace(lhs[:i])}
			for _, p := range strings.Split(strings.TrimSuffix(strings.TrimSpace(lhs[i+1:]), ")"), ",") {
				if strings.TrimSpace(p) != "" {
					pd.Params = append(pd.Params, strings.TrimSpace(p))
				}
			}
			c, err := clause(strings.TrimSpace(rhs), n)
			if err != nil {
				return nil, err
			}
			pd.Body = c
			cf.Preds[pd.Name] = pd
		case "rawlemma":
			nm, ex, ok := strings.Cut(rest, ":")
			if !ok {
				return nil, fmt.Errorf("%s:%d: rawlemma needs `name: formula`", path, n)
			}
			cf.Lemmas = append(cf.Lemmas, &LemmaContract{Name: strings.TrimSpace(nm), Raw: strings.TrimSpace(ex), Props: fileProps,
				Expr: Clause{Src: strings.TrimSpace(ex), Line: n, File: path}})
		case "lemmaprops":
			if len(cf.Lemmas) == 0 {
				return nil, fmt.Errorf("%s:%d: lemmaprops without lemma", path, n)
			}
			cf.Lemmas[len(cf.Lemmas)-1].Props = strings.Fields(rest)
		case "smt":
			cf.Decls = append(cf.Decls, rest)
		case "go", "fn":
			if top == nil {
				return nil, fmt.Errorf("%s:%d: %s outside func", path, n, word)
			}
			k := strings.TrimSuffix(rest, ":")
			// nested subs are written as "fn 0.1:" (second literal inside the first)
			parent := top
			parts := strings.Split(k, ".")
			name := word + parts[len(parts)-1]
			if len(parts) > 1 {
				p, ok := top.Subs[parts[0]]
				if !ok {
					return nil, fmt.Errorf("%s:%d: unknown parent sub %s", path, n, parts[0])
				}
				parent = p
			}
			cur = newProc(parent.Key+"#"+name, path, n)
			cur.Parent = parent
			cur.Props = top.Props
			parent.Subs[name] = cur
		default:
			if impl != nil && word == "opt" {
				k, v, _ := strings.Cut(rest, "=")
				impl.Opts[strings.TrimSpace(k)] = strings.TrimSpace(v)
				continue
			}
			if cur == nil {
				return nil, fmt.Errorf("%s:%d: clause %q outside func/method", path, n, word)
			}
			switch word {
			case "props":
				cur.Props = strings.Fields(rest)
				if iface != nil {
					iface.Props = cur.Props
				}
			case "ghost":
				nm, ex, ok := strings.Cut(rest, ":=")
				if !ok {
					return nil, fmt.Errorf("%s:%d: ghost needs `name := expr`", path, n)
				}
				e, err := ParseCExpr(strings.TrimSpace(ex))
				if err != nil {
					return nil, fmt.Errorf("%s:%d: %v", path, n, err)
				}
				cur.Ghosts = append(cur.Ghosts, GhostDef{strings.TrimSpace(nm), e, rest, n})
			case "requires", "ensures", "panics_when", "may_panic_when":
				c, err := clause(rest, n)
				if err != nil {
					return nil, err
				}
				switch word {
				case "requires":
					cur.Requires = append(cur.Requires, c)
				case "ensures":
					cur.Ensures = append(cur.Ensures, c)
				case "may_panic_when":
					cur.MayPanic = append(cur.MayPanic, c)
				default:
					cur.PanicsWhen = append(cur.PanicsWhen, c)
				}
			case "gset":
				// ghost code of the body: gset name(x) = expr
				at := ""
				if strings.HasPrefix(rest, "ret ") {
					// gset ret K: lhs = rhs   -- only at the K-th return statement of the body
					a, b, ok := strings.Cut(strings.TrimPrefix(rest, "ret "), ":")
					if !ok {
						return nil, fmt.Errorf("%s:%d: gset ret K: lhs = rhs", path, n)
					}
					at, rest = strings.TrimSpace(a), strings.TrimSpace(b)
				}
				l, r, ok := strings.Cut(rest, " = ")
				if !ok {
					return nil, fmt.Errorf("%s:%d: gset lhs = rhs", path, n)
				}
				cur.GSets = append(cur.GSets, [3]string{strings.TrimSpace(l), strings.TrimSpace(r), at})
			case "loops":
				fmt.Sscanf(rest, "%d", &cur.LoopCount)
			case "pure":
				cur.Pure = true
			case "inline":
				cur.Inline = true
			case "trusted":
				cur.Trusted = true
			case "opt":
				k, v, _ := strings.Cut(rest, "=")
				cur.Opts[strings.TrimSpace(k)] = strings.TrimSpace(v)
			case "modifies":
				depth, start := 0, 0
				for i, r := range rest {
					switch r {
					case '(', '[':
						depth++
					case ')', ']':
						depth--
					case ',':
						if depth == 0 {
							if t := strings.TrimSpace(rest[start:i]); t != "" {
								cur.Modifies = append(cur.Modifies, t)
							}
							start = i + 1
						}
					}
				}
				if t := strings.TrimSpace(rest[start:]); t != "" {
					cur.Modifies = append(cur.Modifies, t)
				}
			case "loop":
				f := strings.SplitN(rest, " ", 3)
				if len(f) < 3 {
					return nil, fmt.Errorf("%s:%d: loop K invariant|decreases expr", path, n)
				}
				k, err := strconv.Atoi(f[0])
				if err != nil {
					return nil, fmt.Errorf("%s:%d: bad loop ordinal", path, n)
				}
				lc := cur.Loops[k]
				if lc == nil {
					lc = &LoopContract{}
					cur.Loops[k] = lc
				}
				c, err := clause(f[2], n)
				if err != nil {
					return nil, err
				}
				switch f[1] {
				case "invariant":
					lc.Inv = append(lc.Inv, c)
				case "decreases":
					lc.Decr = append(lc.Decr, c)
				default:
					return nil, fmt.Errorf("%s:%d: loop clause %q", path, n, f[1])
				}
			case "assert":
				f := strings.SplitN(rest, " ", 2)
				k, err := strconv.Atoi(f[0])
				if err != nil || len(f) < 2 {
					return nil, fmt.Errorf("%s:%d: assert K expr", path, n)
				}
				c, err := clause(f[1], n)
				if err != nil {
					return nil, err
				}
				cur.Asserts[k] = append(cur.Asserts[k], c)
			default:
				return nil, fmt.Errorf("%s:%d: unknown clause %q (there is no assume in this language)", path, n, word)
			}
		}
	}
	return cf, nil
}

// normKey turns "func (*takeWhile[T]) Next" / "(*takeWhile) Next" / "Take" into
// "(*takeWhile).Next" / "Take".
func normKey(s string) string {
	s = strings.TrimSpace(s)
	if strings.HasPrefix(s, "(") {
		i := strings.Index(s, ")")
		recv := s[1:i]
		if j := strings.Index(recv, "["); j >= 0 {
			recv = recv[:j]
		}
		recv = strings.TrimSpace(recv)
		return "(" + recv + ")." + strings.TrimSpace(s[i+1:])
	}
	return s
}
