package main

import (
	"go/ast"
	"go/types"
)

// A delegating wrapper (opt delegates=pkg.Func) is the callee applied to the wrapper's own
// parameters, in order: its whole body is `return pkg.Func(p1, ..., pn)`, where a parameter of
// an error-mode interface may be passed as p.pipef(). The callee is not pure (it spawns
// goroutines), so "returns what the callee returns for these arguments" is not expressible as
// an equation between results; the structural obligation is what carries the property from
// the verified callee to the wrapper.
func (x *Exec) checkDelegation(st *State, body *ast.BlockStmt, sig *types.Signature, want string) {
	ok := false
	why := "the body is not a single return of a call"
	if len(body.List) == 1 {
		if rs, isRet := body.List[0].(*ast.ReturnStmt); isRet && len(rs.Results) == 1 {
			if ce, isCall := ast.Unparen(rs.Results[0]).(*ast.CallExpr); isCall {
				if f, _ := x.staticCallee(ce.Fun); f != nil {
					name := f.Pkg().Name() + "." + f.Name()
					if name != want {
						why = "calls " + name + " instead of " + want
					} else if len(ce.Args) != sig.Params().Len() {
						why = "number of arguments differs from the number of parameters"
					} else {
						ok = true
						for i, a := range ce.Args {
							p := sig.Params().At(i)
							a = ast.Unparen(a)
							if id, isId := a.(*ast.Ident); isId && x.info.ObjectOf(id) == p {
								continue
							}
							// p.pipef()
							if c2, isC := a.(*ast.CallExpr); isC && len(c2.Args) == 0 {
								if se, isSel := ast.Unparen(c2.Fun).(*ast.SelectorExpr); isSel && se.Sel.Name == "pipef" {
									if id, isId := ast.Unparen(se.X).(*ast.Ident); isId && x.info.ObjectOf(id) == p {
										continue
									}
								}
							}
							ok = false
							why = "argument " + p.Name() + " is not passed on unchanged"
						}
					}
				}
			}
		}
	}
	src := "the wrapper passes its own parameters, unchanged and in order, to " + want
	if !ok {
		src += " (" + why + ")"
	}
	x.oblige(st, "model", "delegates-arguments-unchanged", boolT(ok), body, src)
}
