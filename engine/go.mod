module govc

go 1.26
