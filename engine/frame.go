package main

import (
	"fmt"
	"go/ast"
	"go/types"
	"strings"
)

// Frame obligations: what a function writes to the heap is what its `modifies` clause says.
// Call sites havoc only the declared locations (havocModifies), so an undeclared write would
// make every caller's proof unsound. At each normal exit, for every heap map (fields of
// objects, cells, ghost fields, abstract interface state) whose value differs from the entry
// value: every object that was allocated at entry and is not named by the modifies clause
// still has its entry value. Objects allocated by the function itself are its own.
func (x *Exec) checkFrame(e, entry *State, env *CEnv, pc *ProcContract, n ast.Node) {
	if x.opts["frame"] == "off" {
		return
	}
	type allow struct {
		all  bool
		keys []Term
	}
	allowed := map[string]*allow{}
	get := func(name string) *allow {
		if a, ok := allowed[name]; ok {
			return a
		}
		a := &allow{}
		allowed[name] = a
		return a
	}
	var prefixesAll []string
	for _, m := range pc.Modifies {
		ex, err := ParseCExpr(m)
		if err != nil {
			continue
		}
		func() {
			defer func() {
				if r := recover(); r != nil {
					if _, ok := r.(cevalErr); ok {
						return
					}
					panic(r)
				}
			}()
			penv := *env
			penv.st = entry
			penv.old = entry
			switch ex := ex.(type) {
			case CIdent:
				prefixesAll = append(prefixesAll, ex.Name)
			case CCall, CField:
				if cc, isCall := ex.(CCall); isCall && cc.Fn == "anyfield" && len(cc.Args) == 2 {
					tn, _ := cc.Args[0].(CIdent)
					fn, _ := cc.Args[1].(CIdent)
					if obj, ok := x.pkg.Types.Scope().Lookup(tn.Name).(*types.TypeName); ok {
						prefixesAll = append(prefixesAll, "H_"+qualName(namedOf(obj.Type()))+"."+fn.Name+":")
					}
					return
				}
				if cc, isCall := ex.(CCall); isCall && cc.Fn == "cells" && len(cc.Args) == 1 {
					prefixesAll = append(prefixesAll, "H_cell:"+x.resolveSort(&penv, cc.Args[0].(CIdent).Name))
					return
				}
				name, key, _, ok := x.mapEntry(&penv, ex)
				if ok {
					a := get(name)
					a.keys = append(a.keys, key)
				}
			}
		}()
	}
	allocEntry := x.heapMap(entry, "Alloc", "Bool")
	for _, name := range sortedKeys(e.maps) {
		if !(strings.HasPrefix(name, "H_") || strings.HasPrefix(name, "GF_") || strings.HasPrefix(name, "G_")) {
			continue
		}
		cur := e.maps[name]
		if !strings.HasPrefix(cur.Sort, "(Array Ref ") {
			continue
		}
		before, ok := entry.maps[name]
		if !ok {
			before = x.d.constant(sanitize(name)+"@0", cur.Sort)
		}
		if before.S == cur.S {
			continue
		}
		all := false
		for _, p := range prefixesAll {
			if strings.HasPrefix(name, p) {
				all = true
			}
		}
		if all {
			continue
		}
		elem := strings.TrimSuffix(strings.TrimPrefix(cur.Sort, "(Array Ref "), ")")
		conds := []string{fmt.Sprintf("(select %s ?r)", allocEntry.S)}
		if a := allowed[name]; a != nil {
			for _, k := range a.keys {
				conds = append(conds, fmt.Sprintf("(distinct ?r %s)", k.S))
			}
		}
		goal := mk("Bool", "(forall ((?r Ref)) (=> (and %s) (= (select %s ?r) (select %s ?r))))", strings.Join(conds, " "), cur.S, before.S)
		_ = elem
		short := name
		if i := strings.LastIndex(short, ":"); i > 0 {
			short = short[:i]
		}
		if i := strings.LastIndex(short, "/"); i >= 0 {
			short = short[i+1:]
		}
		x.oblige(e, "frame", short, goal, n, "only the locations named by the modifies clause (and objects the function allocated itself) are written: "+name)
	}
}
