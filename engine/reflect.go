package main

import (
	"fmt"
	"go/ast"
	"go/types"
	"strings"
)

// Reflect layout theory (DESIGN section 3): reflect.Type is a value of an algebraic
// datatype (finite trees), so recursion over types is well founded:
//
//	RType = rt_struct(uid, fields) | rt_ptr(elem) | rt_slice(elem) | rt_other(kind, uid)
//
// declared together with reflect.StructField and the list of struct fields (mutually
// recursive). Assumed: reflect reports the true declaration and layout.
const (
	sfSort  = "S_reflect.StructField"
	lsfSort = "L_S_reflect.StructField"
)

func (x *Exec) reflectSort() string {
	d := x.d
	if d.seen["theory:reflect"] {
		return "RType"
	}
	d.seen["theory:reflect"] = true
	x.strSort()
	tag := d.Uninterp("RTag")
	lint := d.ListOf("Int")
	text := fmt.Sprintf(`(declare-datatypes ((RType 0) (%[1]s 0) (%[2]s 0)) (
 ((rt_struct (rt_uid Int) (rt_fields %[1]s)) (rt_ptr (rt_pelem RType)) (rt_slice (rt_selem RType)) (rt_other (rt_okind Int) (rt_ouid Int)))
 ((nil_%[1]s) (cons_%[1]s (hd_%[1]s %[2]s) (tl_%[1]s %[1]s)))
 ((mk_%[2]s (%[2]s_Name Str) (%[2]s_PkgPath Str) (%[2]s_Type RType) (%[2]s_Tag %[3]s) (%[2]s_Offset Int) (%[2]s_Index %[4]s) (%[2]s_Anonymous Bool)))))
(define-fun kindof ((t RType)) Int (ite ((_ is rt_struct) t) 25 (ite ((_ is rt_ptr) t) 22 (ite ((_ is rt_slice) t) 23 (ite (or (= (rt_okind t) 22) (= (rt_okind t) 23) (= (rt_okind t) 25)) 0 (rt_okind t))))))
(define-fun relem ((t RType)) RType (ite ((_ is rt_ptr) t) (rt_pelem t) (ite ((_ is rt_slice) t) (rt_selem t) t)))
(declare-fun rname (RType) Str)
(declare-fun rstring (RType) Str)
(declare-fun rassignable (RType RType) Bool)
(assert (forall ((t RType)) (rassignable t t)))
(declare-fun tagget (%[3]s Str) Str)
(declare-fun splitfirst (Str Str) Str)`, lsfSort, sfSort, tag, lint)
	d.decl("sort:RType", text)
	d.seen["sort:"+sfSort] = true
	d.sorts["RType"] = &SortInfo{Kind: "rtype"}
	d.sorts[sfSort] = &SortInfo{Kind: "struct", Fields: []string{"Name", "PkgPath", "Type", "Tag", "Offset", "Index", "Anonymous"},
		FSorts: []string{"Str", "Str", "RType", tag, "Int", lint, "Bool"}, Ctor: "mk_" + sfSort}
	d.sorts[lsfSort] = &SortInfo{Kind: "list", Elem: sfSort}
	// list functions for the field list (the datatype itself is declared above)
	tmpl := d.specs.Templates["List"]
	var keep []string
	for _, l := range strings.Split(tmpl, "\n") {
		if strings.HasPrefix(strings.TrimSpace(l), "(declare-datatypes") {
			continue
		}
		keep = append(keep, l)
	}
	t2 := strings.Join(keep, "\n")
	t2 = strings.ReplaceAll(t2, "{L}", lsfSort)
	t2 = strings.ReplaceAll(t2, "{E}", sfSort)
	d.decl("tmpl:ListFns:"+lsfSort, t2)
	d.insts = append(d.insts, tmplInst{"List", map[string]string{"L": lsfSort, "E": sfSort}})
	return "RType"
}

// libPanicUnless: a library call that panics unless cond holds. The panic is a specified
// exit of the enclosing procedure (it must be covered by a panics_when clause); execution
// continues under cond.
func (x *Exec) libPanicUnless(st *State, n ast.Node, cond Term, label, src string) {
	if x.dry == 0 && x.curFrame != nil {
		ps := st.clone()
		ps.assume(tNot(cond))
		x.panicExit(ps, x.curFrame, n, label, src)
	}
	st.assume(cond)
}

// rtypeOf: the reflect type of a Go type as a term (type parameters are constants).
func (x *Exec) rtypeOf(t types.Type) (Term, bool) {
	x.reflectSort()
	if tp, ok := types.Unalias(t).(*types.TypeParam); ok {
		c := x.d.constant("rtype_"+sanitize(tp.Obj().Name()), "RType")
		return c, true
	}
	if p, ok := types.Unalias(t).(*types.Pointer); ok {
		if e, ok := x.rtypeOf(p.Elem()); ok {
			return tApp("RType", "rt_ptr", e), true
		}
	}
	return Term{}, false
}

func init() {
	pureLib := func(f func(x *Exec, st *State, ce *ast.CallExpr, recv Term, args []Term) []Term) libModel {
		return libModel{pure: true, run: func(x *Exec, st *State, fr *Frame, ce *ast.CallExpr, recv Term, args []Term, k func(*State, []Term)) {
			x.trust("reflect reports the true declaration and layout of types (Kind, Elem, NumField, Field with Name/Type/Offset/Anonymous/Tag); identical types have equal String() and are mutually AssignableTo")
			k(st, f(x, st, ce, recv, args))
		}}
	}
	isStruct := func(t Term) Term { return tApp("Bool", "(_ is rt_struct)", t) }
	_ = isStruct
	libModels["reflect.TypeOf"] = pureLib(func(x *Exec, st *State, ce *ast.CallExpr, recv Term, args []Term) []Term {
		x.reflectSort()
		if inner, ok := ast.Unparen(ce.Args[0]).(*ast.CallExpr); ok {
			if id, ok := ast.Unparen(inner.Fun).(*ast.Ident); ok && id.Name == "new" {
				if t, ok := x.rtypeOf(types.NewPointer(x.info.TypeOf(inner.Args[0]))); ok {
					t.Ty = x.info.TypeOf(ce)
					return []Term{t}
				}
			}
		}
		x.unsupported(ce, "reflect.TypeOf of anything but new(T)")
		return []Term{x.d.fresh("rt", "RType")}
	})
	libModels["(reflect.Type).Elem"] = pureLib(func(x *Exec, st *State, ce *ast.CallExpr, recv Term, args []Term) []Term {
		x.oblige(st, "safety", "reflect-elem", tOr(tApp("Bool", "(_ is rt_ptr)", recv), tApp("Bool", "(_ is rt_slice)", recv)), ce, "reflect.Type.Elem panics unless the type is a pointer or slice (array, chan, map are not modelled)")
		return []Term{tApp("RType", "relem", recv)}
	})
	libModels["(reflect.Type).Kind"] = pureLib(func(x *Exec, st *State, ce *ast.CallExpr, recv Term, args []Term) []Term {
		return []Term{tApp("Int", "kindof", recv)}
	})
	libModels["(reflect.Type).NumField"] = pureLib(func(x *Exec, st *State, ce *ast.CallExpr, recv Term, args []Term) []Term {
		x.libPanicUnless(st, ce, isStruct(recv), "reflect-numfield", "reflect.Type.NumField panics on a non-struct type")
		n := tApp("Int", "len_"+lsfSort, tApp(lsfSort, "rt_fields", recv))
		st.assume(tApp("Bool", "<", n, Term{S: "9223372036854775807", Sort: "Int"})) // NumField is an int
		return []Term{n}
	})
	libModels["(reflect.Type).Field"] = pureLib(func(x *Exec, st *State, ce *ast.CallExpr, recv Term, args []Term) []Term {
		fs := tApp(lsfSort, "rt_fields", recv)
		x.libPanicUnless(st, ce, isStruct(recv), "reflect-field", "reflect.Type.Field panics on a non-struct type")
		x.oblige(st, "safety", "reflect-field-index", tAnd(tApp("Bool", "<=", tInt(0), args[0]), tApp("Bool", "<", args[0], tApp("Int", "len_"+lsfSort, fs))), ce, "reflect.Type.Field index in range")
		r := tApp(sfSort, "nth_"+lsfSort, fs, args[0])
		// reflect reports non-negative field offsets
		st.assume(tApp("Bool", ">=", tApp("Int", sfSort+"_Offset", r), tInt(0)))
		return []Term{r}
	})
	libModels["(reflect.Type).Name"] = pureLib(func(x *Exec, st *State, ce *ast.CallExpr, recv Term, args []Term) []Term {
		return []Term{tApp("Str", "rname", recv)}
	})
	libModels["(reflect.Type).String"] = pureLib(func(x *Exec, st *State, ce *ast.CallExpr, recv Term, args []Term) []Term {
		return []Term{tApp("Str", "rstring", recv)}
	})
	libModels["(reflect.Type).AssignableTo"] = pureLib(func(x *Exec, st *State, ce *ast.CallExpr, recv Term, args []Term) []Term {
		return []Term{tApp("Bool", "rassignable", recv, args[0])}
	})
	libModels["(reflect.StructTag).Get"] = pureLib(func(x *Exec, st *State, ce *ast.CallExpr, recv Term, args []Term) []Term {
		return []Term{tApp("Str", "tagget", recv, args[0])}
	})
	libModels["strings.Split"] = libModel{pure: true, run: func(x *Exec, st *State, fr *Frame, ce *ast.CallExpr, recv Term, args []Term, k func(*State, []Term)) {
		x.trust("strings.Split(s, sep) returns at least one part; its first element is splitfirst(s, sep)")
		x.reflectSort()
		ls := x.d.ListOf("Str")
		r := x.d.fresh("split", ls)
		st.assume(tApp("Bool", ">=", tApp("Int", "len_"+ls, r), tInt(1)))
		st.assume(tNot(tApp("Bool", "(_ is nil_"+ls+")", r)))
		st.assume(tEq(tApp("Str", "hd_"+ls, r), tApp("Str", "splitfirst", args[0], args[1])))
		r.Ty = x.info.TypeOf(ce)
		k(st, []Term{r})
	}}
}
