package main

import (
	"fmt"
	"go/types"
	"strings"
)

// Pure interface methods are uninterpreted functions of the receiver and the arguments:
// im_<iface>.<method>(self, args...). Implementers give them a meaning with
// `model M(self, p...) = expr`; the model is assumed for every boxed value of the
// implementer type and each implementer method is verified to return it.

type methSig struct {
	fname  string
	args   []string
	ret    string
	owner  *types.Named
	ghost  bool
	fnames []string // one symbol per result (multi-result methods)
	rets   []string
}

// methodUF resolves method `name` on interface type `in` (own, embedded, or ghost method).
func (x *Exec) methodUF(in *types.Named, name string) (*methSig, bool) {
	// Name#k selects the k-th result of a multi-result method
	sel := 0
	if i := strings.Index(name, "#"); i > 0 {
		fmt.Sscanf(name[i+1:], "%d", &sel)
		name = name[:i]
	}
	var found *methSig
	var visit func(n *types.Named) bool
	visit = func(n *types.Named) bool {
		if n == nil {
			return false
		}
		it, ok := n.Underlying().(*types.Interface)
		if !ok {
			return false
		}
		sub := map[string]string{}
		tps := n.Origin().TypeParams()
		for i := 0; i < tps.Len() && n.TypeArgs() != nil && i < n.TypeArgs().Len(); i++ {
			sub[tps.At(i).Obj().Name()] = x.sortOf(n.TypeArgs().At(i))
		}
		ic, _ := x.db.lookupIface(n)
		if ic != nil {
			if gm, ok := ic.Ghosts[name]; ok {
				ms := &methSig{owner: n, ghost: true}
				env := &CEnv{tsub: sub, where: "ghostmethod " + name}
				for _, p := range gm.Params {
					ms.args = append(ms.args, x.resolveSort(env, p.Sort))
				}
				ms.ret = x.resolveSort(env, gm.Ret)
				ms.fname = "im_" + sanitize(qualName(n)+"."+name+"_"+strings.Join(ms.args, "_")+"_"+ms.ret)
				found = ms
				return true
			}
		}
		for i := 0; i < it.NumExplicitMethods(); i++ {
			m := it.ExplicitMethod(i)
			if m.Name() != name {
				continue
			}
			sig := m.Type().(*types.Signature)
			if sig.Results().Len() < 1 || sel >= sig.Results().Len() {
				return false
			}
			ms := &methSig{owner: n}
			for j := 0; j < sig.Params().Len(); j++ {
				ms.args = append(ms.args, x.sortOf(sig.Params().At(j).Type()))
			}
			for k := 0; k < sig.Results().Len(); k++ {
				rs := x.sortOf(sig.Results().At(k).Type())
				fn := "im_" + sanitize(qualName(n)+"."+name+"_"+strings.Join(ms.args, "_")+"_"+rs)
				if k > 0 {
					fn += fmt.Sprintf("_r%d", k)
				}
				ms.fnames = append(ms.fnames, fn)
				ms.rets = append(ms.rets, rs)
			}
			ms.ret = ms.rets[sel]
			ms.fname = ms.fnames[sel]
			found = ms
			return true
		}
		for i := 0; i < it.NumEmbeddeds(); i++ {
			if visit(namedOf(it.EmbeddedType(i))) {
				return true
			}
		}
		return false
	}
	visit(in)
	if found == nil {
		return nil, false
	}
	if len(found.fnames) == 0 {
		found.fnames, found.rets = []string{found.fname}, []string{found.ret}
	}
	for k, fn := range found.fnames {
		x.d.fun(fn, append([]string{"Ref"}, found.args...), found.rets[k])
	}
	return found, true
}

// ifaceOfTerm: the named interface type a Ref-sorted term is statically known to have; for
// a concrete implementer, the interface it is declared to implement that has the method.
func (x *Exec) ifacesOfTerm(t Term) []*types.Named {
	if t.Ty == nil {
		return nil
	}
	ty := types.Unalias(t.Ty)
	if n, ok := ty.(*types.Named); ok {
		if _, isI := n.Underlying().(*types.Interface); isI {
			return []*types.Named{n}
		}
	}
	if ii := x.implOf(ty); ii != nil {
		return ii.ifaces
	}
	return nil
}

func (x *Exec) cmeth(env *CEnv, e CMeth, want string) Term {
	// the object under verification: expand its model
	if id, ok := e.X.(CIdent); ok && id.Name == "self" && env.impl != nil {
		if t, ok := x.expandModel(env, env.impl, e.Name, e.Args); ok {
			return t
		}
		recv := env.impl.self
		return x.methApp(env, recv, e, want)
	}
	recv := x.ceval(env, e.X, "Ref")
	if recv.Sort != "Ref" {
		x.cfail(env, "method call on %s of sort %s", recv.S, recv.Sort)
	}
	if env.impl != nil && recv.S == env.impl.self.S {
		if t, ok := x.expandModel(env, env.impl, e.Name, e.Args); ok {
			return t
		}
	}
	return x.methApp(env, recv, e, want)
}

func (x *Exec) methApp(env *CEnv, recv Term, e CMeth, want string) Term {
	for _, in := range x.ifacesOfTerm(recv) {
		ms, ok := x.methodUF(in, e.Name)
		if !ok {
			continue
		}
		if len(e.Args) != len(ms.args) {
			x.cfail(env, "%s takes %d arguments", e.Name, len(ms.args))
		}
		args := []Term{recv}
		for i, a := range e.Args {
			t := x.ceval(env, a, ms.args[i])
			if t.Sort != ms.args[i] {
				x.cfail(env, "argument %d of %s has sort %s, expected %s", i, e.Name, t.Sort, ms.args[i])
			}
			args = append(args, t)
		}
		return tApp(ms.ret, ms.fname, args...)
	}
	x.cfail(env, "no method %s on %s (type %v)", e.Name, recv.S, recv.Ty)
	return Term{}
}

func (x *Exec) expandModel(env *CEnv, ic *implCtx, name string, args []CExpr) (Term, bool) {
	mc, ok := ic.ic.Models[name]
	if !ok {
		return Term{}, false
	}
	ps := ic.ic.MParams[name]
	if len(ps) != len(args) {
		x.cfail(env, "model %s takes %d parameters", name, len(ps))
	}
	c := env.child()
	for i, p := range ps {
		c.names[p] = x.ceval(env, args[i], "")
	}
	t, err := x.cevalSafe(c, mc, "")
	if err != nil {
		x.cfail(env, "model %s: %v", name, err)
	}
	return t, true
}

// assumeMethodModels: for a freshly boxed implementer value r, every method model holds
// for all arguments.
func (x *Exec) assumeMethodModels(st *State, r Term, ii *implInfo, env *CEnv) {
	for _, name := range sortedKeys(ii.ic.Models) {
		ps, isMeth := ii.ic.MParams[name]
		if !isMeth {
			if _, st8 := x.stateOfIfaces(ii, name); st8 {
				continue
			}
		}
		var ms *methSig
		for _, in := range ii.ifaces {
			if m, ok := x.methodUF(in, name); ok {
				ms = m
				break
			}
		}
		if ms == nil {
			continue
		}
		if len(ps) != len(ms.args) {
			x.contractError(st, "model:"+name, fmt.Errorf("model %s has %d parameters, the method has %d", name, len(ps), len(ms.args)), nil)
			continue
		}
		c := env.child()
		var binders []string
		args := []Term{r}
		for i, p := range ps {
			b := Term{S: "?" + p, Sort: ms.args[i]}
			c.names[p] = b
			binders = append(binders, fmt.Sprintf("(?%s %s)", p, ms.args[i]))
			args = append(args, b)
		}
		val, err := x.cevalSafe(c, ii.ic.Models[name], ms.ret)
		if err != nil {
			x.contractError(st, "model:"+name, err, nil)
			continue
		}
		lhs := tApp(ms.ret, ms.fname, args...)
		if len(binders) == 0 {
			st.assume(tEq(lhs, val))
		} else {
			st.assume(mk("Bool", "(forall (%s) (! (= %s %s) :pattern (%s)))", strings.Join(binders, " "), lhs.S, val.S, lhs.S))
		}
	}
}

func (x *Exec) stateOfIfaces(ii *implInfo, name string) (*IfaceContract, bool) {
	var visit func(n *types.Named) (*IfaceContract, bool)
	visit = func(n *types.Named) (*IfaceContract, bool) {
		if n == nil {
			return nil, false
		}
		if ic, _ := x.db.lookupIface(n); ic != nil {
			for _, s := range ic.States {
				if s.Name == name {
					return ic, true
				}
			}
		}
		if it, ok := n.Underlying().(*types.Interface); ok {
			for i := 0; i < it.NumEmbeddeds(); i++ {
				if ic, ok := visit(namedOf(it.EmbeddedType(i))); ok {
					return ic, true
				}
			}
		}
		return nil, false
	}
	for _, in := range ii.ifaces {
		if ic, ok := visit(in); ok {
			return ic, true
		}
	}
	return nil, false
}
