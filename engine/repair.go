package main

import (
	"fmt"
	"go/ast"
	"go/types"
	"os"
	"regexp"
	"sort"
	"strings"
)

// Rename repair: a local variable (a channel, an accumulator, a loop counter) named by the
// contract of a function was renamed in the code. The contract then mentions a name that
// resolves to nothing. If exactly one such name is found, every local of the function that the
// contract does not mention is tried in its place; a reading is accepted only if the unit then
// verifies completely (every obligation discharged), and the evidence says so. Nothing is
// assumed: a wrong reading fails its proof and the original report stands.
var (
	unkNameRE = regexp.MustCompile(`unknown name "([A-Za-z_][A-Za-z0-9_]*)"`)
	unkChanRE = regexp.MustCompile(`unknown channel ([A-Za-z_][A-Za-z0-9_]*)`)
)

func unknownNames(r *UnitResult) []string {
	set := map[string]bool{}
	scan := func(t string) {
		for _, m := range unkNameRE.FindAllStringSubmatch(t, -1) {
			set[m[1]] = true
		}
		for _, m := range unkChanRE.FindAllStringSubmatch(t, -1) {
			set[m[1]] = true
		}
	}
	for _, p := range r.Problems {
		scan(p)
	}
	for _, n := range r.Unknown {
		set[n] = true
	}
	for _, o := range r.Obs {
		if o.Kind == "contract" {
			scan(o.Src)
		}
	}
	return sortedKeys(set)
}

func contractText(pc *ProcContract, seen map[*ProcContract]bool, b *strings.Builder) {
	if pc == nil || seen[pc] {
		return
	}
	seen[pc] = true
	for _, cs := range [][]Clause{pc.Requires, pc.Ensures, pc.PanicsWhen, pc.MayPanic} {
		for _, c := range cs {
			b.WriteString(c.Src + "\n")
		}
	}
	for _, l := range pc.Loops {
		for _, c := range append(append([]Clause(nil), l.Inv...), l.Decr...) {
			b.WriteString(c.Src + "\n")
		}
	}
	for k, v := range pc.Opts {
		b.WriteString(k + "=" + v + "\n")
	}
	for _, m := range pc.Modifies {
		b.WriteString(m + "\n")
	}
	for _, g := range pc.GSets {
		b.WriteString(g[0] + " " + g[1] + "\n")
	}
	for _, g := range pc.Ghosts {
		b.WriteString(g.Src + "\n")
	}
	contractText(pc.Parent, seen, b)
	for _, s := range pc.Subs {
		contractText(s, seen, b)
	}
}

func verifyUnitRepair(ld *Loader, db *ContractDB, specs *SpecLib, u *Unit, prop string) *UnitResult {
	res := verifyUnit(ld, db, specs, u, prop)
	if u.Proc == nil {
		return res
	}
	unk := unknownNames(res)
	if os.Getenv("GOVC_DEBUG") != "" && len(unk) > 0 {
		fmt.Fprintf(os.Stderr, "repair %s: unknown names %v\n", u.Name, unk)
	}
	if len(unk) != 1 {
		return res
	}
	decl := u.Decl
	if decl == nil {
		decl = u.Outer
	}
	if decl == nil || decl.Body == nil {
		return res
	}
	var tb strings.Builder
	contractText(u.Proc, map[*ProcContract]bool{}, &tb)
	text := tb.String()
	mentioned := func(n string) bool {
		ok, _ := regexp.MatchString(`\b`+regexp.QuoteMeta(n)+`\b`, text)
		return ok
	}
	cands := map[string]bool{}
	ast.Inspect(decl, func(n ast.Node) bool {
		id, ok := n.(*ast.Ident)
		if !ok || id.Name == "_" {
			return true
		}
		if o, ok := u.Pkg.Info.Defs[id].(*types.Var); ok && !o.IsField() && !mentioned(id.Name) {
			cands[id.Name] = true
		}
		return true
	})
	names := sortedKeys(cands)
	sort.Strings(names)
	if len(names) > 12 {
		names = names[:12]
	}
	// a discarded result may survive as the length of a slice the code still holds
	// (rank, node := mkNode(..) rewritten to range over node.fingers): len(v), len(v.f)
	var lens []string
	ast.Inspect(decl, func(n ast.Node) bool {
		id, ok := n.(*ast.Ident)
		if !ok || id.Name == "_" {
			return true
		}
		o, ok := u.Pkg.Info.Defs[id].(*types.Var)
		if !ok || o.IsField() {
			return true
		}
		t := types.Unalias(o.Type())
		if _, isSl := t.Underlying().(*types.Slice); isSl {
			lens = append(lens, "expr:len("+id.Name+")")
		}
		if pt, isP := t.Underlying().(*types.Pointer); isP {
			if st, isS := types.Unalias(pt.Elem()).Underlying().(*types.Struct); isS {
				for i := 0; i < st.NumFields(); i++ {
					if _, isSl := st.Field(i).Type().Underlying().(*types.Slice); isSl {
						lens = append(lens, "expr:len("+id.Name+"."+st.Field(i).Name()+")")
					}
				}
			}
		}
		return true
	})
	sort.Strings(lens)
	if len(lens) > 6 {
		lens = lens[:6]
	}
	names = append(names, lens...)
	scratch, err := os.MkdirTemp("", "govc-repair-")
	if err != nil {
		return res
	}
	defer os.RemoveAll(scratch)
	for _, v := range names {
		if os.Getenv("GOVC_DEBUG") != "" {
			fmt.Fprintf(os.Stderr, "repair %s: trying %s -> %s\n", u.Name, unk[0], v)
		}
		r2 := verifyUnitRenamed(ld, db, specs, u, prop, map[string]string{unk[0]: v})
		if len(r2.Problems) > 0 || len(unknownNames(r2)) > 0 {
			continue
		}
		bad := false
		for _, o := range r2.Obs {
			if o.Kind == "contract" {
				bad = true
			}
		}
		if bad {
			continue
		}
		var todo []*Oblig
		for _, o := range r2.Obs {
			if !o.Cover {
				todo = append(todo, o)
			}
		}
		dischargeAll(todo, scratch, 8000, false, 4)
		ok := true
		for _, o := range todo {
			if o.Status != "proved" {
				ok = false
				break
			}
			o.Status, o.Solver = "", "" // discharged again with the others
		}
		if !ok {
			continue
		}
		r2.Assumed = append(r2.Assumed, fmt.Sprintf("%s: the contract names a variable %q that the code does not have; the unit verifies completely when it is read as the local %q (the only reading tried that does): taken as a rename of that variable", u.Name, unk[0], v))
		return r2
	}
	return res
}
