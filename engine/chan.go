package main

import (
	"fmt"
	"go/ast"
	"go/token"
	"go/types"
	"strings"
)

// Channel model (DESIGN section 4): goroutine-local ghost state per channel reference.
//
//	C_sent:<T>   trace of values this procedure has sent
//	C_rcvd:<T>   trace of values this procedure has received
//	C_total:<T>  prophecy: everything that will ever be received from the channel here
//	C_own        this procedure holds the send and close permission
//	C_closed     closed by this procedure
//	C_drained    observed closed-and-empty by a receive
//	C_cap        capacity
//	C_slots      free buffer slots this procedure may rely on (bare sends)
//	C_shares     send shares handed to workers that are still outstanding

func (x *Exec) chanElemSort(t types.Type) string {
	if c, ok := types.Unalias(t).Underlying().(*types.Chan); ok {
		return x.sortOf(c.Elem())
	}
	return ""
}

func (x *Exec) chTrace(st *State, kind string, ch Term) (string, Term, string) {
	es := x.chanElemSort(ch.Ty)
	if es == "" {
		x.unsupported(nil, "channel operation on a value of unknown channel type (%v)", ch.Ty)
		es = "Int"
	}
	tr := x.d.TrOf(es)
	name := "C_" + kind + ":" + tr
	return name, x.heapMap(st, name, tr), tr
}

func (x *Exec) chFlag(st *State, kind string, ch Term) Term {
	return tSelect(x.heapMap(st, "C_"+kind, "Bool"), ch, "Bool")
}

func (x *Exec) chSetFlag(st *State, kind string, ch Term, v Term) {
	m := x.heapMap(st, "C_"+kind, "Bool")
	st.maps["C_"+kind] = tStore(m, ch, v)
}

func (x *Exec) chInt(st *State, kind string, ch Term) Term {
	return tSelect(x.heapMap(st, "C_"+kind, "Int"), ch, "Int")
}

func (x *Exec) chSetInt(st *State, kind string, ch Term, v Term) {
	m := x.heapMap(st, "C_"+kind, "Int")
	st.maps["C_"+kind] = tStore(m, ch, v)
}

var nullRef = Term{S: "null", Sort: "Ref"}

// chanStateMap: the ghost map behind sent(c), rcvd(c), total(c), closed(c), own(c),
// drained(c), slots(c), cap(c), shares(c), myshare(c) in contracts.
func (x *Exec) chanStateMap(st *State, fn string, ch Term) (string, string, bool) {
	switch fn {
	case "sent", "rcvd", "total":
		if x.chanElemSort(ch.Ty) == "" {
			return "", "", false
		}
		name, _, tr := x.chTrace(st, fn, ch)
		return name, tr, true
	case "closed", "own", "drained", "mayclose":
		x.heapMap(st, "C_"+fn, "Bool")
		return "C_" + fn, "Bool", true
	case "slots", "cap", "shares", "myshare":
		x.heapMap(st, "C_"+fn, "Int")
		return "C_" + fn, "Int", true
	}
	return "", "", false
}

func (x *Exec) chanMake(st *State, t types.Type, capT Term, n ast.Node) Term {
	c := x.alloc(st, "chan", t)
	x.oblige(st, "safety", "make-chan-cap", tApp("Bool", ">=", capT, tInt(0)), n, "channel capacity is not negative")
	es := x.chanElemSort(t)
	tr := x.d.TrOf(es)
	emp := Term{S: "emp_" + tr, Sort: tr}
	for _, kind := range []string{"sent", "rcvd"} {
		name := "C_" + kind + ":" + tr
		st.maps[name] = tStore(x.heapMap(st, name, tr), c, emp)
	}
	x.chSetFlag(st, "own", c, tTrue)
	x.chSetFlag(st, "closed", c, tFalse)
	x.chSetFlag(st, "drained", c, tFalse)
	x.chSetInt(st, "cap", c, capT)
	x.chSetInt(st, "slots", c, capT)
	x.chSetInt(st, "shares", c, tInt(0))
	return c
}

func (x *Exec) chanLenCap(st *State, ch Term, which string) Term {
	if which == "cap" {
		r := x.chInt(st, "cap", ch)
		st.assume(tApp("Bool", ">=", r, tInt(0)))
		return r
	}
	// len(ch) is a racy observation: any value between 0 and cap
	r := x.d.fresh("chlen", "Int")
	st.assume(tAnd(tApp("Bool", "<=", tInt(0), r), tApp("Bool", "<=", r, x.chInt(st, "cap", ch))))
	return r
}

func (x *Exec) isCtxDone(e ast.Expr) bool {
	ce, ok := ast.Unparen(e).(*ast.CallExpr)
	if !ok {
		return false
	}
	se, ok := ast.Unparen(ce.Fun).(*ast.SelectorExpr)
	if !ok || se.Sel.Name != "Done" {
		return false
	}
	t := x.info.TypeOf(se.X)
	n := namedOf(t)
	return n != nil && qualName(n) == "context.Context"
}

func (x *Exec) isTimeAfter(e ast.Expr) bool {
	ce, ok := ast.Unparen(e).(*ast.CallExpr)
	if !ok {
		return false
	}
	f, _ := x.staticCallee(ce.Fun)
	return f != nil && f.FullName() == "time.After"
}

// isTimerChan: a channel of time.Time (what time.After returns)
func isTimerChan(t types.Type) bool {
	if t == nil {
		return false
	}
	c, ok := types.Unalias(t).Underlying().(*types.Chan)
	if !ok {
		return false
	}
	n := namedOf(c.Elem())
	return n != nil && qualName(n) == "time.Time"
}

// timerTick: receiving from a timer counts as one full interval waited (sleeps += 1) only if
// the timer was armed after this goroutine's last send: a timer armed before a batch of
// sends may already have expired when the batch is done, so nothing is known to elapse.
func (x *Exec) timerTick(st *State, ch Term) { x.timerTickDur(st, ch, Term{}) }

// timerTickDur: as timerTick; when the contract declares the length of a tick (`opt
// tick=<duration parameter>`) a wait counts only if its duration is at least that long
// (dur is the duration of an inline time.After(d); a timer value carries its own).
func (x *Exec) timerTickDur(st *State, ch Term, dur Term) {
	cond := tTrue
	if ch.S != "" {
		armed := tSelect(x.heapMap(st, "TimerArmed", "Int"), ch, "Int")
		cond = tEq(armed, x.ghostInt(st, "actions"))
		dur = tSelect(x.heapMap(st, "TimerDur", "Int"), ch, "Int")
	}
	if x.tickDur.ok() && dur.ok() {
		cond = tAnd(cond, tApp("Bool", ">=", dur, x.tickDur))
	}
	st.ghosts["sleeps"] = tApp("Int", "+", x.ghostInt(st, "sleeps"), tIte(cond, tInt(1), tInt(0)))
}

func (x *Exec) ghostBool(st *State, name string) Term {
	if t, ok := st.ghosts[name]; ok {
		return t
	}
	t := x.d.constant(name+"@0", "Bool")
	st.ghosts[name] = t
	return t
}

func (x *Exec) ghostInt(st *State, name string) Term {
	if t, ok := st.ghosts[name]; ok {
		return t
	}
	t := x.d.constant(name+"@0", "Int")
	st.ghosts[name] = t
	return t
}

// chanRecv: demonic receive. k gets the received value and the ok flag.
func (x *Exec) chanRecv(st *State, fr *Frame, ch Term, n ast.Node, k func(*State, Term, Term)) {
	if isTimerChan(ch.Ty) {
		s2 := st.clone()
		x.timerTick(s2, ch)
		v := x.d.fresh("now", x.sortOf(types.Unalias(ch.Ty).Underlying().(*types.Chan).Elem()))
		k(s2, v, tTrue)
		return
	}
	es := x.chanElemSort(ch.Ty)
	if es == "" {
		x.unsupported(n, "receive from a value that is not a channel")
		return
	}
	if !x.selectRecv {
		// a blocking receive after cancellation, from a channel this goroutine is responsible
		// for closing, ends only if it has closed it (or has seen it closed)
		var mine []Term
		for _, c := range x.closesChans {
			mine = append(mine, tEq(ch, c))
		}
		if len(mine) > 0 {
			x.oblige(st, "progress", "recv-after-cancel", tImp(tAnd(x.ghostBool(st, "sawCancel"), tOr(mine...)),
				tOr(x.chFlag(st, "closed", ch), x.chFlag(st, "drained", ch))), n, "after cancel, a blocking receive from a channel the goroutine may close needs that channel closed (otherwise the goroutine waits for a sender that may never come)")
		}
	}
	x.selectRecv = false
	s2 := st.clone()
	v := x.d.fresh("rcv", es)
	if c, ok := types.Unalias(ch.Ty).Underlying().(*types.Chan); ok {
		v.Ty = c.Elem()
	}
	okT := x.d.fresh("rok", "Bool")
	name, m, tr := x.chTrace(s2, "rcvd", ch)
	cur := tSelect(m, ch, tr)
	nxt := tIte(okT, tApp(tr, "snoc_"+tr, cur, v), cur)
	s2.maps[name] = tStore(m, ch, nxt)
	_, tm, _ := x.chTrace(s2, "total", ch)
	total := tSelect(tm, ch, tr)
	// what has been received is a prefix of everything that will be; on close it is all
	s2.assume(tApp("Bool", "tprefix_"+tr, nxt, total))
	s2.assume(tImp(tNot(okT), tEq(cur, total)))
	s2.assume(tImp(x.chFlag(st, "drained", ch), tNot(okT)))
	// whoever holds the close permission of an open channel cannot observe it closed
	s2.assume(tImp(tAnd(x.chFlag(st, "own", ch), tNot(x.chFlag(st, "closed", ch))), okT))
	x.chSetFlag(s2, "drained", ch, tOr(x.chFlag(st, "drained", ch), tNot(okT)))
	s2.assume(tImp(tNot(okT), tEq(v, x.zeroOfSort(es, nil))))
	// a blocking receive is released by the environment (the sender closes the input): for
	// the progress condition it counts like a select with a cancel arm
	s2.ghosts["obsCancel"] = tTrue
	s2.ghosts["iterProgress"] = tTrue
	k(s2, v, okT)
}

func (x *Exec) chanSend(st *State, fr *Frame, ch Term, v Term, n ast.Node, guarded bool) {
	x.oblige(st, "chan", "send-perm", tOr(x.chFlag(st, "own", ch), tApp("Bool", ">", x.chInt(st, "myshare", ch), tInt(0))), n, "send needs the send permission of the channel")
	x.oblige(st, "chan", "send-open", tNot(x.chFlag(st, "closed", ch)), n, "no send after this goroutine closed the channel")
	if !guarded && x.opts["baresend"] == "flush" {
		// a stage that must stay ready for its input (the unbounded channel: "a send never
		// waits for the receiver") may block on an output only while flushing: after cancel
		// or after its input has been closed
		conds := []Term{x.ghostBool(st, "sawCancel")}
		for _, c := range x.inputChans {
			conds = append(conds, x.chFlag(st, "drained", c))
		}
		x.oblige(st, "progress", "bare-send-only-when-flushing", tOr(conds...), n, "a blocking send is allowed only after cancel or after the input is closed (otherwise senders wait for the receiver)")
	} else if !guarded && x.opts["baresend"] != "delivery" {
		// a bare send may block forever unless a free buffer slot is guaranteed
		x.oblige(st, "progress", "bare-send", tApp("Bool", ">", x.chInt(st, "slots", ch), tInt(0)), n, "a send outside select needs a guaranteed free slot")
		x.chSetInt(st, "slots", ch, tApp("Int", "-", x.chInt(st, "slots", ch), tInt(1)))
	}
	st.ghosts["actions"] = tApp("Int", "+", x.ghostInt(st, "actions"), tInt(1))
	st.ghosts["iterProgress"] = tTrue
	name, m, tr := x.chTrace(st, "sent", ch)
	cur := tSelect(m, ch, tr)
	es := x.d.sorts[tr].Elem
	if v.Sort != es {
		x.unsupported(n, "send of sort %s on a channel of %s", v.Sort, es)
		return
	}
	st.maps[name] = tStore(m, ch, tApp(tr, "snoc_"+tr, cur, v))
}

func (x *Exec) chanClose(st *State, fr *Frame, ch Term, n ast.Node) {
	x.oblige(st, "chan", "close-perm", tOr(x.chFlag(st, "own", ch), x.chFlag(st, "mayclose", ch)), n, "close needs the close permission of the channel")
	x.oblige(st, "chan", "close-once", tNot(x.chFlag(st, "closed", ch)), n, "channel is closed at most once")
	x.oblige(st, "chan", "close-after-workers", tOr(tEq(x.chInt(st, "shares", ch), tInt(0)), x.ghostBool(st, "waited")), n, "close only after every worker holding a send share has finished (WaitGroup.Wait)")
	x.oblige(st, "safety", "close-nil", tNot(tEq(ch, nullRef)), n, "close of nil channel")
	x.oblige(st, "chan", "close-not-already-closed", tOr(x.chFlag(st, "own", ch), tNot(x.chFlag(st, "drained", ch))), n, "the channel has not been observed closed by someone else (close of a closed channel panics)")
	x.chSetFlag(st, "closed", ch, tTrue)
}

func (x *Exec) selectStmt(st *State, fr *Frame, s *ast.SelectStmt, k func(*State)) {
	type arm struct {
		cc   *ast.CommClause
		kind string // send, recv, cancel, timer, default
		ch   Term
		val  Term
		dur  Term // duration of an inline time.After(d) arm
	}
	clauses := s.Body.List
	// operands are evaluated first, in source order; an operand may fork (a local closure
	// that picks the channel), so the evaluation is in continuation-passing style
	var evalFrom func(i int, cur *State, arms []arm)
	proceed := func(cur *State, arms []arm) {
		hasCancel, hasDefault := false, false
		for _, a := range arms {
			if a.kind == "cancel" {
				hasCancel = true
			}
			if a.kind == "default" {
				hasDefault = true
			}
		}
		// progress: a select that can block must be releasable by cancellation, or every
		// arm must be a receive from an input (released by the environment closing it)
		if !hasDefault && !hasCancel {
			allRecv := true
			for _, a := range arms {
				if a.kind != "recv" && a.kind != "timer" {
					allRecv = false
				}
			}
			x.oblige(cur, "progress", "select-releasable", boolT(allRecv), s, "a blocking select has a cancel arm, a default, or only receives")
		}
		bfr := *fr
		bfr.brk = k
		for _, a := range arms {
			b := cur.clone()
			if hasCancel && a.kind != "cancel" {
				b.ghosts["obsCancel"] = tTrue
			}
			if a.kind != "default" {
				b.ghosts["iterProgress"] = tTrue
			}
			switch a.kind {
			case "default":
			case "cancel":
				b.ghosts["sawCancel"] = tTrue
			case "timer":
				x.timerTickDur(b, a.ch, a.dur)
			case "send":
				b.assume(tNot(tEq(a.ch, nullRef))) // a nil channel is never ready
				x.chanSend(b, fr, a.ch, a.val, a.cc, true)
			case "recv":
				b.assume(tNot(tEq(a.ch, nullRef)))
				var lhs []ast.Expr
				if as, ok := a.cc.Comm.(*ast.AssignStmt); ok {
					lhs = as.Lhs
				}
				cc := a.cc
				x.selectRecv = true
				x.chanRecv(b, fr, a.ch, a.cc, func(s2 *State, v Term, okT Term) {
					if len(lhs) > 0 {
						x.store(s2, fr, lhs[0], v)
					}
					if len(lhs) > 1 {
						x.store(s2, fr, lhs[1], okT)
					}
					x.block(s2, &bfr, cc.Body, k)
				})
				continue
			}
			x.block(b, &bfr, a.cc.Body, k)
		}
	}
	evalFrom = func(i int, cur *State, arms []arm) {
		if i == len(clauses) {
			proceed(cur, arms)
			return
		}
		cc := clauses[i].(*ast.CommClause)
		a := arm{cc: cc}
		next := func(cur *State, a arm) {
			evalFrom(i+1, cur, append(append([]arm(nil), arms...), a))
		}
		switch cm := cc.Comm.(type) {
		case nil:
			a.kind = "default"
			next(cur, a)
		case *ast.SendStmt:
			a.kind = "send"
			x.exprK(cur, fr, cm.Chan, func(s2 *State, chT Term) {
				if chT.Ty == nil {
					chT.Ty = x.info.TypeOf(cm.Chan)
				}
				x.exprK(s2, fr, cm.Value, func(s3 *State, vT Term) {
					b := a
					b.ch, b.val = chT, vT
					next(s3, b)
				})
			})
		case *ast.ExprStmt, *ast.AssignStmt:
			var rx ast.Expr
			if es, ok := cm.(*ast.ExprStmt); ok {
				rx = ast.Unparen(es.X).(*ast.UnaryExpr).X
			} else {
				rx = ast.Unparen(cm.(*ast.AssignStmt).Rhs[0]).(*ast.UnaryExpr).X
			}
			switch {
			case x.isCtxDone(rx):
				a.kind = "cancel"
				next(cur, a)
			case x.isTimeAfter(rx):
				a.kind = "timer"
				if x.tickDur.ok() {
					// the duration matters: only a wait of at least the declared tick counts
					x.exprK(cur, fr, ast.Unparen(rx).(*ast.CallExpr).Args[0], func(s2 *State, d Term) {
						b := a
						b.dur = d
						next(s2, b)
					})
				} else {
					next(cur, a)
				}
			case isTimerChan(x.info.TypeOf(rx)):
				x.exprK(cur, fr, rx, func(s2 *State, chT Term) {
					b := a
					b.kind, b.ch = "timer", chT
					next(s2, b)
				})
			default:
				a.kind = "recv"
				x.exprK(cur, fr, rx, func(s2 *State, chT Term) {
					if chT.Ty == nil {
						chT.Ty = x.info.TypeOf(rx)
					}
					b := a
					b.ch = chT
					next(s2, b)
				})
			}
		}
	}
	evalFrom(0, st, nil)
}

func boolT(b bool) Term {
	if b {
		return tTrue
	}
	return tFalse
}

// ---------------------------------------------------------------------------
// defer / go

func (x *Exec) deferStmt(st *State, fr *Frame, s *ast.DeferStmt) {
	st.defers = append(st.defers, deferred{call: s.Call})
}

// runDefers executes the deferred calls LIFO, then k.
func (x *Exec) runDefers(st *State, fr *Frame, k func(*State)) {
	if len(st.defers) == 0 {
		k(st)
		return
	}
	d := st.defers[len(st.defers)-1]
	st = st.clone()
	st.defers = st.defers[:len(st.defers)-1]
	x.callK(st, fr, d.call, func(s2 *State, _ []Term) { x.runDefers(s2, fr, k) })
}

// goStmt: spawning a goroutine checks the precondition of its body's contract and hands
// over the permissions the body `takes`.
func (x *Exec) goStmt(st *State, fr *Frame, s *ast.GoStmt) {
	var sub *ProcContract
	var fl *ast.FuncLit
	switch f := ast.Unparen(s.Call.Fun).(type) {
	case *ast.FuncLit:
		fl = f
	default:
		fl = x.closureOf(f)
	}
	if fl == nil {
		x.unsupported(s, "go statement on something that is not a function literal")
		return
	}
	if fr.proc != nil {
		sub = fr.proc.Subs[x.litOrd[fl]]
	}
	x.raceCheck(st, fr, fl, s)
	if sub == nil {
		x.oblige(st, "contract", "missing:"+x.litOrd[fl], tFalse, s, "goroutine body without a contract")
		return
	}
	sig := x.info.TypeOf(fl).(*types.Signature)
	args := x.evalArgs2(st, fr, s.Call, nil, sig)
	env := fr.env(st)
	for i := 0; i < sig.Params().Len() && i < len(args); i++ {
		a := args[i]
		a.Ty = sig.Params().At(i).Type()
		env.names[sig.Params().At(i).Name()] = a
	}
	short := x.litOrd[fl]
	for i, c := range sub.Requires {
		t, err := x.cevalSafe(env, c, "Bool")
		label := c.Label
		if label == "" {
			label = fmt.Sprintf("%d", i)
		}
		if err != nil {
			x.contractError(st, "spawn:"+short+":"+label, err, s)
			continue
		}
		x.oblige(st, "pre", "spawn:"+short+":"+label, t, s, c.Src)
	}
	// permission transfer
	for _, nm := range splitList(sub.Opts["takes"]) {
		c, ok := env.names[nm]
		if !ok && env.lookup != nil {
			c, ok = env.lookup(nm)
		}
		if !ok {
			x.contractError(st, "takes:"+nm, fmt.Errorf("unknown channel %s", nm), s)
			continue
		}
		x.oblige(st, "chan", "spawn:"+short+":own:"+nm, tAnd(x.chFlag(st, "own", c), tNot(x.chFlag(st, "closed", c))), s, "spawner hands over an open channel it owns")
		tn, tm, tr := x.chTrace(st, "sent", c)
		_ = tn
		x.oblige(st, "chan", "spawn:"+short+":unsent:"+nm, tEq(tSelect(tm, c, tr), Term{S: "emp_" + tr, Sort: tr}), s, "nothing was sent before the hand-over")
		x.chSetFlag(st, "own", c, tFalse)
	}
	for _, nm := range splitList(sub.Opts["shares"]) {
		c, ok := env.names[nm]
		if !ok && env.lookup != nil {
			c, ok = env.lookup(nm)
		}
		if !ok {
			x.contractError(st, "shares:"+nm, fmt.Errorf("unknown channel %s", nm), s)
			continue
		}
		x.oblige(st, "chan", "spawn:"+short+":share:"+nm, tAnd(x.chFlag(st, "own", c), tNot(x.chFlag(st, "closed", c))), s, "spawner gives a send share of an open channel it owns")
		x.chSetInt(st, "shares", c, tApp("Int", "+", x.chInt(st, "shares", c), tInt(1)))
	}
	for _, nm := range splitList(sub.Opts["slot"]) {
		c, ok := env.names[nm]
		if !ok && env.lookup != nil {
			c, ok = env.lookup(nm)
		}
		if !ok {
			x.contractError(st, "slot:"+nm, fmt.Errorf("unknown channel %s", nm), s)
			continue
		}
		x.oblige(st, "progress", "spawn:"+short+":slot:"+nm, tApp("Bool", ">=", x.chInt(st, "slots", c), tInt(1)), s, "spawner hands one guaranteed buffer slot to the worker")
		x.chSetInt(st, "slots", c, tApp("Int", "-", x.chInt(st, "slots", c), tInt(1)))
	}
	if sub.Opts["worker"] != "" {
		st.ghosts["spawned"] = tApp("Int", "+", x.ghostInt(st, "spawned"), tInt(1))
		x.oblige(st, "chan", "spawn:"+short+":before-closer", tNot(x.ghostBool(st, "closerSpawned")), s, "workers are spawned before the closer")
	}
	if sub.Opts["closer"] != "" {
		x.oblige(st, "chan", "spawn:"+short+":add-matches-spawns", tEq(x.ghostInt(st, "added"), x.ghostInt(st, "spawned")), s, "WaitGroup.Add total equals the number of workers spawned")
		st.ghosts["closerSpawned"] = tTrue
	}
}

func splitList(s string) []string {
	var out []string
	for _, f := range strings.FieldsFunc(s, func(r rune) bool { return r == ',' || r == ' ' }) {
		out = append(out, f)
	}
	return out
}

// raceCheck: a spawned literal may write only variables declared inside it. A captured
// variable it writes must not be used by the spawner afterwards nor by sibling goroutines
// (a literal spawned in a loop or more than once is its own sibling).
func (x *Exec) raceCheck(st *State, fr *Frame, fl *ast.FuncLit, at ast.Node) {
	written := x.capturedWrites(fl)
	for _, o := range written {
		ok := !x.spawnedRepeatedly[fl] && !x.usedAfter[o]
		x.oblige(st, "race", "captured-write:"+o.Name(), boolT(ok), at, "goroutine writes captured variable "+o.Name()+" that another goroutine may access")
	}
}

func (x *Exec) capturedWrites(fl *ast.FuncLit) []types.Object {
	caps := map[types.Object]bool{}
	for _, o := range x.captured(fl) {
		caps[o] = true
	}
	var out []types.Object
	seen := map[types.Object]bool{}
	mark := func(e ast.Expr) {
		if id, ok := ast.Unparen(e).(*ast.Ident); ok {
			if o := x.info.ObjectOf(id); o != nil && caps[o] && !seen[o] {
				seen[o] = true
				out = append(out, o)
			}
		}
	}
	ast.Inspect(fl.Body, func(n ast.Node) bool {
		switch n := n.(type) {
		case *ast.AssignStmt:
			for _, l := range n.Lhs {
				mark(l)
			}
		case *ast.IncDecStmt:
			mark(n.X)
		case *ast.RangeStmt:
			if n.Tok == token.ASSIGN {
				if n.Key != nil {
					mark(n.Key)
				}
				if n.Value != nil {
					mark(n.Value)
				}
			}
		case *ast.UnaryExpr:
			if n.Op == token.AND {
				mark(n.X)
			}
		}
		return true
	})
	return out
}
