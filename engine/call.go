package main

import (
	"fmt"
	"go/ast"
	"go/token"
	"go/types"
	"strings"
)

// ContractDB: contract files of all packages, by import path.
type ContractDB struct {
	files map[string]*ContractFile
	ld    *Loader
	root  string
	pins  string
	notes []string
}

func (db *ContractDB) forPkg(path string) *ContractFile {
	if cf, ok := db.files[path]; ok {
		return cf
	}
	return nil
}

// funcKey: contract key of a function or method.
func funcKey(f *types.Func) string {
	sig := f.Type().(*types.Signature)
	if r := sig.Recv(); r != nil {
		t := types.Unalias(r.Type())
		star := ""
		if p, ok := t.(*types.Pointer); ok {
			star = "*"
			t = types.Unalias(p.Elem())
		}
		if n, ok := t.(*types.Named); ok {
			return "(" + star + n.Origin().Obj().Name() + ")." + f.Name()
		}
	}
	return f.Name()
}

func (db *ContractDB) lookupFunc(f *types.Func) (*ProcContract, *ContractFile) {
	if f.Pkg() == nil {
		return nil, nil
	}
	cf := db.forPkg(f.Pkg().Path())
	if cf == nil {
		return nil, nil
	}
	f = f.Origin()
	if pc, ok := cf.Funcs[funcKey(f)]; ok {
		return pc, cf
	}
	return nil, cf
}

func (db *ContractDB) lookupIface(n *types.Named) (*IfaceContract, *ContractFile) {
	o := n.Origin().Obj()
	if o.Pkg() == nil {
		return nil, nil
	}
	cf := db.forPkg(o.Pkg().Path())
	if cf == nil {
		return nil, nil
	}
	if ic, ok := cf.Ifaces[o.Name()]; ok {
		return ic, cf
	}
	return nil, cf
}

// ---------------------------------------------------------------------------

func (x *Exec) isBuiltin(id *ast.Ident) (string, bool) {
	if b, ok := x.info.Uses[id].(*types.Builtin); ok {
		return b.Name(), true
	}
	return "", false
}

// isPureCall: evaluating the call neither changes the symbolic state nor forks.
func (x *Exec) isPureCall(ce *ast.CallExpr) bool {
	fun := ast.Unparen(ce.Fun)
	if tv, ok := x.info.Types[fun]; ok && tv.IsType() {
		// conversion to an interface of an implementer type folds ghost state
		if _, isI := types.Unalias(tv.Type).Underlying().(*types.Interface); isI {
			return false
		}
		return true
	}
	if id, ok := fun.(*ast.Ident); ok {
		if b, ok := x.isBuiltin(id); ok {
			switch b {
			case "len", "cap", "min", "max":
				return true
			case "new", "make", "append":
				return false
			}
			return false
		}
	}
	f, recvSel := x.staticCallee(fun)
	if f != nil {
		if lm, ok := libModels[f.FullName()]; ok {
			return lm.pure
		}
		if recvSel != nil {
			if n := namedOf(recvSel.Recv()); n != nil {
				if _, isI := n.Underlying().(*types.Interface); isI {
					if ic, _ := x.db.lookupIface(n); ic != nil {
						if m, ok := ic.Methods[f.Name()]; ok {
							return m.Pure
						}
					}
					if im := x.promotedIfaceMethod(recvSel); im != nil {
						return im.Pure
					}
					return false
				}
			}
			if im := x.promotedIfaceMethod(recvSel); im != nil {
				return im.Pure
			}
		}
		if pc, _ := x.db.lookupFunc(f); pc != nil {
			return pc.Pure
		}
		return false
	}
	// dynamic call of a function value: pure uninterpreted application unless the unit
	// records call traces
	if x.opts["calltrace"] == "on" {
		return false
	}
	if t := x.info.TypeOf(fun); t != nil {
		if _, ok := types.Unalias(t).Underlying().(*types.Signature); ok {
			if x.closureOf(fun) != nil {
				return false
			}
			if x.fnParamContract(fun) != nil {
				return false
			}
			return true
		}
	}
	return false
}

// promotedIfaceMethod: for a method selected through an embedded interface field, the
// interface method contract.
func (x *Exec) promotedIfaceMethod(sel *types.Selection) *ProcContract {
	f, ok := sel.Obj().(*types.Func)
	if !ok {
		return nil
	}
	sig := f.Type().(*types.Signature)
	if sig.Recv() == nil {
		return nil
	}
	rt := types.Unalias(sig.Recv().Type())
	n, ok := rt.(*types.Named)
	if !ok {
		// method of an embedded interface: receiver is the interface type itself
		if _, isI := rt.Underlying().(*types.Interface); !isI {
			return nil
		}
	}
	if n != nil {
		if _, isI := n.Underlying().(*types.Interface); isI {
			if ic, _ := x.db.lookupIface(n); ic != nil {
				return ic.Methods[f.Name()]
			}
		}
	}
	return nil
}

func (x *Exec) staticCallee(fun ast.Expr) (*types.Func, *types.Selection) {
	switch f := ast.Unparen(fun).(type) {
	case *ast.Ident:
		if fn, ok := x.info.ObjectOf(f).(*types.Func); ok {
			return fn, nil
		}
	case *ast.SelectorExpr:
		if sel, ok := x.info.Selections[f]; ok {
			if sel.Kind() == types.MethodVal {
				return sel.Obj().(*types.Func), sel
			}
			return nil, nil
		}
		if fn, ok := x.info.ObjectOf(f.Sel).(*types.Func); ok {
			return fn, nil
		}
	case *ast.IndexExpr:
		return x.staticCallee(f.X)
	case *ast.IndexListExpr:
		return x.staticCallee(f.X)
	}
	return nil, nil
}

// closureOf: the function literal bound to the local variable that `fun` names (a
// literal bound once and never reassigned).
func (x *Exec) closureOf(fun ast.Expr) *ast.FuncLit {
	id, ok := ast.Unparen(fun).(*ast.Ident)
	if !ok {
		return nil
	}
	obj := x.info.ObjectOf(id)
	if obj == nil {
		return nil
	}
	return x.closures[obj]
}

func (x *Exec) callK(st *State, fr *Frame, ce *ast.CallExpr, k func(*State, []Term)) {
	fun := ast.Unparen(ce.Fun)
	// conversions
	if tv, ok := x.info.Types[fun]; ok && tv.IsType() {
		if _, isPtr := types.Unalias(tv.Type).(*types.Pointer); isPtr {
			// (*A)(unsafe.Pointer(uintptr(unsafe.Pointer(p)) + o)) kept in a variable: the
			// pointer value carries its field location; dereferences go through fget/fput
			if loc, ok := x.matchUnsafeConv(st, fr, ce); ok {
				r := x.d.fresh("fieldptr", "Ref")
				r.Ty = tv.Type
				r.Loc = loc
				k(st, []Term{r})
				return
			}
		}
		v := x.expr(st, fr, ce.Args[0])
		k(st, []Term{x.convertTo(st, v, tv.Type, ce)})
		return
	}
	if id, ok := fun.(*ast.Ident); ok {
		if b, ok := x.isBuiltin(id); ok {
			x.builtin(st, fr, ce, b, k)
			return
		}
	}
	if fl, ok := fun.(*ast.FuncLit); ok {
		args := x.evalArgs2(st, fr, ce, fl.Type, nil)
		x.inlineLit(st, fr, fl, args, k)
		return
	}
	f, sel := x.staticCallee(fun)
	if f != nil {
		x.staticCall(st, fr, ce, f, sel, k)
		return
	}
	// dynamic call
	x.dynamicCall(st, fr, ce, k)
}

func (x *Exec) evalArgs2(st *State, fr *Frame, ce *ast.CallExpr, _ any, sig *types.Signature) []Term {
	var args []Term
	if len(ce.Args) == 1 && sig != nil && sig.Params().Len() > 1 {
		// f(g()) with multi-value g
		return x.exprs(st, fr, ce.Args[0])
	}
	for i, a := range ce.Args {
		v := x.expr(st, fr, a)
		if sig != nil {
			var pt types.Type
			if sig.Variadic() && i >= sig.Params().Len()-1 {
				pt = sig.Params().At(sig.Params().Len() - 1).Type()
				if ce.Ellipsis == token.NoPos {
					pt = pt.(*types.Slice).Elem()
				}
			} else if i < sig.Params().Len() {
				pt = sig.Params().At(i).Type()
			}
			if pt != nil {
				v = x.convertTo(st, v, pt, a)
			}
		}
		args = append(args, v)
	}
	// pack variadic arguments into a list
	if sig != nil && sig.Variadic() && ce.Ellipsis == token.NoPos {
		n := sig.Params().Len() - 1
		st2 := sig.Params().At(n).Type()
		so := x.sortOf(st2)
		lst := Term{S: "nil_" + so, Sort: so, Ty: st2}
		for i := len(args) - 1; i >= n; i-- {
			lst = tApp(so, "cons_"+so, args[i], lst)
		}
		lst.Ty = st2
		if len(args) >= n {
			args = append(args[:n:n], lst)
		}
	}
	return args
}

// ---------------------------------------------------------------------------
// static calls

func (x *Exec) staticCall(st *State, fr *Frame, ce *ast.CallExpr, f *types.Func, sel *types.Selection, k func(*State, []Term)) {
	sig := f.Type().(*types.Signature)
	var recv Term
	var recvT types.Type
	if sel != nil {
		se := ast.Unparen(ce.Fun).(*ast.SelectorExpr)
		recv = x.expr(st, fr, se.X)
		recvT = recv.Ty
		if recvT == nil {
			recvT = sel.Recv()
		}
		// walk embedded fields to the actual receiver
		path := sel.Index()
		for _, idx := range path[:len(path)-1] {
			recv = x.fieldByIndex(st, recv, recvT, idx, se)
			recvT = recv.Ty
		}
		recv.Ty = recvT
	}
	// the instantiated signature at the call site
	csig := sig
	if t, ok := x.info.TypeOf(ce.Fun).(*types.Signature); ok {
		csig = t
	}
	args := x.evalArgs2(st, fr, ce, nil, csig)

	if lm, ok := libModels[f.FullName()]; ok {
		lm.run(x, st, fr, ce, recv, args, k)
		return
	}
	if benignOutput[f.FullName()] {
		// diagnostics (logging, printing to standard output): no effect on the state under proof
		x.trust("logging and printing calls (log, log/slog, fmt.Print*) have no effect on the program state")
		var res []Term
		for i := 0; i < csig.Results().Len(); i++ {
			r := x.d.fresh("out", x.sortOf(csig.Results().At(i).Type()))
			r.Ty = csig.Results().At(i).Type()
			res = append(res, r)
		}
		k(st, res)
		return
	}

	// interface method
	if sel != nil {
		if n := namedOf(recvT); n != nil {
			if _, isI := n.Underlying().(*types.Interface); isI {
				x.ifaceCall(st, fr, ce, n, f, recv, args, k)
				return
			}
		} else if _, isI := types.Unalias(recvT).Underlying().(*types.Interface); isI {
			x.unsupported(ce, "call of method %s on an unnamed interface", f.Name())
			return
		}
	}

	pc, _ := x.db.lookupFunc(f)
	if pc != nil && !pc.Inline {
		tsub := x.typeSubst(f, ce, recvT)
		x.byContract(st, fr, ce, pc, f.Origin().Type().(*types.Signature), csig, recv, args, tsub, f.Pkg().Path(), k)
		return
	}
	// no contract: inline the body when it is available
	if decl, pkg := x.ld.findDecl(f); decl != nil && decl.Body != nil {
		x.inlineFunc(st, fr, ce, f, decl, pkg, recv, args, pc, func(s2 *State, res []Term) {
			// results carry the types of the instantiated signature at this call site
			for i := range res {
				if i < csig.Results().Len() {
					res[i].Ty = csig.Results().At(i).Type()
				}
			}
			k(s2, res)
		})
		return
	}
	x.unsupported(ce, "call of %s: no contract and no body", f.FullName())
}

// typeSubst: callee type parameter name -> sort at this call.
func (x *Exec) typeSubst(f *types.Func, ce *ast.CallExpr, recvT types.Type) map[string]string {
	sub := map[string]string{}
	x.lastTypeArgs = map[string]types.Type{}
	osig := f.Origin().Type().(*types.Signature)
	if id := calleeIdent(ast.Unparen(ce.Fun)); id != nil {
		if inst, ok := x.info.Instances[id]; ok && osig.TypeParams() != nil {
			for i := 0; i < osig.TypeParams().Len() && i < inst.TypeArgs.Len(); i++ {
				sub[osig.TypeParams().At(i).Obj().Name()] = x.sortOf(inst.TypeArgs.At(i))
				x.lastTypeArgs[osig.TypeParams().At(i).Obj().Name()] = inst.TypeArgs.At(i)
			}
		}
	}
	if recvT != nil {
		t := types.Unalias(recvT)
		if p, ok := t.(*types.Pointer); ok {
			t = types.Unalias(p.Elem())
		}
		if n, ok := t.(*types.Named); ok && n.TypeArgs() != nil {
			tps := n.Origin().TypeParams()
			// receiver type parameter names as declared on the method
			if rtp := osig.RecvTypeParams(); rtp != nil {
				for i := 0; i < rtp.Len() && i < n.TypeArgs().Len(); i++ {
					sub[rtp.At(i).Obj().Name()] = x.sortOf(n.TypeArgs().At(i))
				}
			}
			for i := 0; i < tps.Len() && i < n.TypeArgs().Len(); i++ {
				if _, ok := sub[tps.At(i).Obj().Name()]; !ok {
					sub[tps.At(i).Obj().Name()] = x.sortOf(n.TypeArgs().At(i))
				}
			}
		}
	}
	return sub
}

// byContract: modular call. requires become `pre` obligations, the modified state is
// havocked, results are fresh, ensures are assumed.
func (x *Exec) byContract(st *State, fr *Frame, n ast.Node, pc *ProcContract, osig, csig *types.Signature, recv Term, args []Term,
	tsub map[string]string, calleePkg string, k func(*State, []Term)) {

	if pc.Trusted {
		x.trust("TRUSTED CONTRACT (body not verified): " + calleePkg + "." + pc.Key)
	}
	if x.usedPC == nil {
		x.usedPC = map[*ProcContract]bool{}
	}
	x.usedPC[pc] = true
	env := &CEnv{names: map[string]Term{}, st: st, old: st, tsub: tsub, ttypes: x.lastTypeArgs}
	x.lastTypeArgs = nil
	for k2, v := range x.extraNames {
		env.names[k2] = v
	}
	x.extraNames = nil
	if recv.ok() {
		env.self = recv
		if osig.Recv() != nil && osig.Recv().Name() != "" && osig.Recv().Name() != "_" {
			env.names[osig.Recv().Name()] = recv
		}
	}
	for i := 0; i < osig.Params().Len() && i < len(args); i++ {
		p := osig.Params().At(i)
		a := args[i]
		if a.Ty == nil && csig != nil && i < csig.Params().Len() {
			a.Ty = csig.Params().At(i).Type()
		}
		if p.Name() != "" && p.Name() != "_" {
			env.names[p.Name()] = a
		}
		env.names[fmt.Sprintf("$%d", i+1)] = a
	}
	restore := x.enterPkg(calleePkg)
	restored := false
	defer func() {
		if !restored {
			restore()
		}
	}()
	for _, g := range pc.Ghosts {
		t, err := x.cevalSafe(env, Clause{Expr: g.Expr, Src: g.Src, Line: g.Line, File: pc.File}, "")
		if err != nil {
			x.contractError(st, "ghost:"+g.Name, err, n)
			continue
		}
		env.names[g.Name] = t
	}
	short := pc.Key
	for i, c := range pc.Requires {
		t, err := x.cevalSafe(env, c, "Bool")
		label := c.Label
		if label == "" {
			label = fmt.Sprintf("%d", i)
		}
		if err != nil {
			x.contractError(st, "pre:"+short+":"+label, err, n)
			continue
		}
		x.oblige(st, "pre", short+":"+label, t, n, c.Src)
		st.assume(t)
	}
	// specified panics of the callee propagate: the caller must be allowed to panic then
	var pconds []Term
	for _, c := range pc.PanicsWhen {
		t, err := x.cevalSafe(env, c, "Bool")
		if err != nil {
			x.contractError(st, "panics_when:"+short, err, n)
			continue
		}
		pconds = append(pconds, t)
	}
	if len(pconds) > 0 {
		pcnd := tOr(pconds...)
		ps := st.clone()
		ps.assume(pcnd)
		x.panicExit(ps, fr, n, "via:"+short, "callee "+short+" panics")
		st = st.clone()
		st.assume(tNot(pcnd))
	}
	// may_panic_when: the callee may panic then, and it may return as well
	var mconds []Term
	for _, c := range pc.MayPanic {
		t, err := x.cevalSafe(env, c, "Bool")
		if err != nil {
			x.contractError(st, "may_panic_when:"+short, err, n)
			continue
		}
		mconds = append(mconds, t)
	}
	if len(mconds) > 0 {
		ps := st.clone()
		ps.assume(tOr(mconds...))
		x.panicExit(ps, fr, n, "via:"+short, "callee "+short+" may panic")
	}
	post := st
	if !pc.Pure {
		post = st.clone()
		x.havocModifies(post, env, pc, n)
	}
	var results []Term
	res := osig.Results()
	if csig != nil {
		res = csig.Results()
	}
	override := x.resultOverride
	x.resultOverride = nil
	for i := 0; i < res.Len(); i++ {
		rt := res.At(i).Type()
		var r Term
		if i < len(override) && override[i].Sort == x.sortOf(rt) {
			r = override[i]
		} else {
			r = x.d.fresh("r_"+strings.ReplaceAll(short, " ", ""), x.sortOf(rt))
		}
		r.Ty = rt
		results = append(results, r)
		x.assumeTypeInv(post, r)
		if r.Sort == "Ref" && !pc.Pure {
			if post == st {
				post = st.clone()
			}
			am := x.heapMap(post, "Alloc", "Bool")
			post.maps["Alloc"] = tStore(am, r, tTrue)
		}
	}
	if pc.Opts["observes_cancel"] != "" {
		if post == st {
			post = st.clone()
		}
		post.ghosts["obsCancel"] = tTrue
	}
	env2 := *env
	env2.st = post
	env2.old = st
	env2.results = results
	// a pointer-receiver method of an owned tree node updates its receiver in place
	var newSelf Term
	inout := false
	if recv.ok() && osig.Recv() != nil && recv.Sort != "Ref" {
		if _, isP := types.Unalias(osig.Recv().Type()).(*types.Pointer); isP && x.isValuePtrType(osig.Recv().Type()) {
			inout = true
			if post == st {
				post = st.clone()
				env2.st = post
			}
			newSelf = x.d.fresh("self_"+strings.ReplaceAll(short, " ", ""), recv.Sort)
			newSelf.Ty = recv.Ty
			env2.self = newSelf
			env2.oldSelf = recv
			if osig.Recv().Name() != "" && osig.Recv().Name() != "_" {
				env2.names = map[string]Term{}
				for k2, v := range env.names {
					env2.names[k2] = v
				}
				env2.names[osig.Recv().Name()] = newSelf
			}
		}
	}
	x.applySets(post, &env2, pc, n)
	for _, c := range pc.Ensures {
		t, err := x.cevalSafe(&env2, c, "Bool")
		if err != nil {
			x.contractError(st, "post-of:"+short, err, n)
			continue
		}
		post.assume(t)
	}
	restored = true
	restore()
	if inout {
		x.writeBackRecv(post, fr, n, newSelf)
	}
	k(post, results)
}

// writeBackRecv stores the callee's final receiver value into the receiver expression of
// the call, and - when that is a child borrowed by a type switch - into the container
// element it was borrowed from.
func (x *Exec) writeBackRecv(st *State, fr *Frame, n ast.Node, newSelf Term) {
	ce, ok := n.(*ast.CallExpr)
	if !ok {
		return
	}
	se, ok := ast.Unparen(ce.Fun).(*ast.SelectorExpr)
	if !ok {
		return
	}
	x.store(st, fr, se.X, newSelf)
	if id, ok := ast.Unparen(se.X).(*ast.Ident); ok {
		if o := x.info.ObjectOf(id); o != nil {
			if origin, ok := x.borrow[o]; ok {
				if w, ok := x.nodeWrap(newSelf, o.Type()); ok {
					x.store(st, fr, origin, w)
				}
			}
		}
	}
}

// havocModifies: `modifies` items are contract expressions naming a ghost/heap map entry
// (view(self), self.f) or a whole map/ghost (calls).
func (x *Exec) havocModifies(post *State, env *CEnv, pc *ProcContract, n ast.Node) {
	for _, m := range pc.Modifies {
		e, err := ParseCExpr(m)
		if err != nil {
			x.contractError(post, "modifies", err, n)
			continue
		}
		func() {
			defer func() {
				if r := recover(); r != nil {
					if ce, ok := r.(cevalErr); ok {
						x.contractError(post, "modifies", fmt.Errorf("%s", string(ce)), n)
						return
					}
					panic(r)
				}
			}()
			penv := *env
			penv.st = post
			switch e := e.(type) {
			case CIdent:
				switch e.Name {
				case "vtrace":
					x.ghostVTrace(post)
				case "sawCancel", "waited", "closerSpawned":
					x.ghostBool(post, e.Name)
				case "sleeps", "added", "spawned", "doneCalls":
					x.ghostInt(post, e.Name)
				}
				if g, ok := post.ghosts[e.Name]; ok {
					post.ghosts[e.Name] = x.d.fresh(e.Name, g.Sort)
					return
				}
				for name, m := range post.maps {
					if strings.HasPrefix(name, e.Name) {
						post.maps[name] = x.d.fresh(name, m.Sort)
						if name == "Alloc" {
							post.assume(mk("Bool", "(forall ((?r Ref)) (=> (select %s ?r) (select %s ?r)))", m.S, post.maps[name].S))
						}
					}
				}
			case CCall, CField:
				if cc, isCall := e.(CCall); isCall && cc.Fn == "anyfield" && len(cc.Args) == 2 {
					tn, _ := cc.Args[0].(CIdent)
					fn, _ := cc.Args[1].(CIdent)
					obj, ok := x.pkg.Types.Scope().Lookup(tn.Name).(*types.TypeName)
					if !ok {
						x.cfail(env, "anyfield: unknown type %s", tn.Name)
					}
					prefix := "H_" + qualName(namedOf(obj.Type())) + "." + fn.Name + ":"
					found := false
					for name, mm := range post.maps {
						if strings.HasPrefix(name, prefix) {
							post.maps[name] = x.d.fresh(name, mm.Sort)
							found = true
						}
					}
					_ = found
					return
				}
				if cc, isCall := e.(CCall); isCall && cc.Fn == "cells" && len(cc.Args) == 1 {
					so := x.resolveSort(env, cc.Args[0].(CIdent).Name)
					name := "H_cell:" + so
					post.maps[name] = x.d.fresh(name, x.heapMap(post, name, so).Sort)
					return
				}
				name, key, elem, ok := x.mapEntry(&penv, e)
				if !ok {
					x.cfail(env, "modifies: cannot resolve %v", m)
				}
				cur := x.heapMap(post, name, elem)
				post.maps[name] = tStore(cur, key, x.d.fresh("hv_"+name, elem))
			default:
				x.cfail(env, "modifies item %q", m)
			}
		}()
	}
}

// applyGSets: ghost code of the body (gset clauses), executed at the exits of the unit whose
// body is being verified.
func (x *Exec) applyGSets(post *State, env *CEnv, pc *ProcContract, n ast.Node) {
	for _, gs := range pc.GSets {
		if gs[2] != "" && gs[2] != x.curRet {
			continue
		}
		lhs, err1 := ParseCExpr(gs[0])
		rhs, err2 := ParseCExpr(gs[1])
		if err1 != nil || err2 != nil {
			x.contractError(post, "gset", fmt.Errorf("bad gset clause %s = %s", gs[0], gs[1]), n)
			continue
		}
		func() {
			defer func() {
				if r := recover(); r != nil {
					if ce, ok := r.(cevalErr); ok {
						x.contractError(post, "gset", fmt.Errorf("%s", string(ce)), n)
						return
					}
					panic(r)
				}
			}()
			env.where = "gset " + gs[0]
			name, keyT, elem, ok := x.mapEntry(env, lhs)
			if !ok {
				x.cfail(env, "gset: cannot resolve target %s", gs[0])
			}
			v := x.ceval(env, rhs, elem)
			if v.Sort != elem {
				x.cfail(env, "gset %s: value has sort %s, field has %s", gs[0], v.Sort, elem)
			}
			cur := x.heapMap(post, name, elem)
			post.maps[name] = tStore(cur, keyT, v)
		}()
	}
}

// applySets: `opt sets=...` style ghost assignments of a contract ("sets done(self) := !result").
func (x *Exec) applySets(post *State, env *CEnv, pc *ProcContract, n ast.Node) {
	for key, val := range pc.Opts {
		if !strings.HasPrefix(key, "set ") {
			continue
		}
		lhs, err1 := ParseCExpr(strings.TrimPrefix(key, "set "))
		rhs, err2 := ParseCExpr(val)
		if err1 != nil || err2 != nil {
			x.contractError(post, "sets", fmt.Errorf("bad sets clause %s = %s", key, val), n)
			continue
		}
		func() {
			defer func() {
				if r := recover(); r != nil {
					if ce, ok := r.(cevalErr); ok {
						x.contractError(post, "sets", fmt.Errorf("%s", string(ce)), n)
						return
					}
					panic(r)
				}
			}()
			name, keyT, elem, ok := x.mapEntry(env, lhs)
			if !ok {
				x.cfail(env, "sets: cannot resolve target")
			}
			v := x.ceval(env, rhs, elem)
			cur := x.heapMap(post, name, elem)
			post.maps[name] = tStore(cur, keyT, v)
		}()
	}
}

// mapEntry resolves view(x) / x.f to (map name, key, element sort).
func (x *Exec) mapEntry(env *CEnv, e CExpr) (name string, key Term, elem string, ok bool) {
	switch e := e.(type) {
	case CCall:
		if len(e.Args) != 1 {
			return
		}
		key = x.ceval(env, e.Args[0], "Ref")
		if e.Fn == "deref" {
			if pt, isP := types.Unalias(key.Ty).(*types.Pointer); isP {
				elem = x.sortOf(pt.Elem())
				return "H_cell:" + elem, key, elem, true
			}
			return
		}
		if cn, ce2, ok2 := x.chanStateMap(env.st, e.Fn, key); ok2 {
			return cn, key, ce2, true
		}
		if gn, gs, _, ok2 := x.ghostFieldMap(e.Fn, key); ok2 {
			return gn, key, gs, true
		}
		if e.Fn == "pooled" {
			return "Pooled", key, "Bool", true
		}
		name, elem, ok = x.ifaceStateMap(env, e.Fn, key)
		return
	case CField:
		b := x.ceval(env, e.X, "Ref")
		if b.Ty == nil {
			return
		}
		n, s, _ := structBehind(b.Ty)
		if s == nil {
			return
		}
		for i := 0; i < s.NumFields(); i++ {
			if s.Field(i).Name() == e.Name {
				fs := x.sortOf(s.Field(i).Type())
				return fieldMapName(n, s.Field(i), fs), b, fs, true
			}
		}
	}
	return
}

// ---------------------------------------------------------------------------
// interface ghost state

// ifaceStateMap: the ghost map behind state `fn` of the interface that is the static type
// of key.
func (x *Exec) ifaceStateMap(env *CEnv, fn string, key Term) (string, string, bool) {
	if key.Ty == nil {
		return "", "", false
	}
	var try func(n *types.Named) (string, string, bool)
	try = func(n *types.Named) (string, string, bool) {
		if n == nil {
			return "", "", false
		}
		ic, _ := x.db.lookupIface(n)
		if ic != nil {
			for _, sv := range ic.States {
				if sv.Name == fn {
					sub := map[string]string{}
					tps := n.Origin().TypeParams()
					for i := 0; i < tps.Len() && n.TypeArgs() != nil && i < n.TypeArgs().Len(); i++ {
						sub[tps.At(i).Obj().Name()] = x.sortOf(n.TypeArgs().At(i))
					}
					so := x.resolveSort(&CEnv{tsub: sub, where: fn}, sv.Sort)
					return "G_" + qualName(n) + "." + fn + ":" + so, so, true
				}
			}
		}
		// embedded interfaces (pair.Seq embeds seq.Seq)
		if it, ok := n.Underlying().(*types.Interface); ok {
			for i := 0; i < it.NumEmbeddeds(); i++ {
				if a, b, ok := try(namedOf(it.EmbeddedType(i))); ok {
					return a, b, true
				}
			}
		}
		return "", "", false
	}
	t := types.Unalias(key.Ty)
	if n, ok := t.(*types.Named); ok {
		if _, isI := n.Underlying().(*types.Interface); isI {
			return try(n)
		}
	}
	// concrete implementer: the interface(s) it is declared to implement
	if ic := x.implOf(t); ic != nil {
		for _, in := range ic.ifaces {
			if a, b, ok := try(in); ok {
				return a, b, true
			}
		}
	}
	return "", "", false
}

func (x *Exec) ifaceState(env *CEnv, e CCall) (Term, bool) {
	if len(e.Args) != 1 {
		return Term{}, false
	}
	known := false
	for _, cf := range x.db.files {
		for _, ic := range cf.Ifaces {
			for _, sv := range ic.States {
				if sv.Name == e.Fn {
					known = true
				}
			}
		}
	}
	if !known {
		return Term{}, false
	}
	key := x.ceval(env, e.Args[0], "Ref")
	// model expansion for the object under verification
	if env.impl != nil && key.S == env.impl.self.S {
		if mc, ok := env.impl.ic.Models[e.Fn]; ok {
			menv := *env
			menv.impl = env.impl
			t, err := x.cevalSafe(&menv, mc, "")
			if err != nil {
				x.cfail(env, "model %s: %v", e.Fn, err)
			}
			return t, true
		}
	}
	name, elem, ok := x.ifaceStateMap(env, e.Fn, key)
	if !ok {
		x.cfail(env, "%s(%s): the static type %v carries no such state", e.Fn, key.S, key.Ty)
	}
	return tSelect(x.heapMap(env.st, name, elem), key, elem), true
}

type implInfo struct {
	ic     *ImplContract
	ifaces []*types.Named
	named  *types.Named
	ptr    bool
}

type implCtx struct {
	self Term
	ic   *ImplContract
}

// implOf: is t (T or *T) declared to implement a contract interface?
func (x *Exec) implOf(t types.Type) *implInfo {
	t = types.Unalias(t)
	ptr := false
	if p, ok := t.(*types.Pointer); ok {
		ptr = true
		t = types.Unalias(p.Elem())
	}
	n, ok := t.(*types.Named)
	if !ok || n.Obj().Pkg() == nil {
		return nil
	}
	cf := x.db.forPkg(n.Obj().Pkg().Path())
	if cf == nil {
		return nil
	}
	var out *implInfo
	for _, key := range sortedKeys(cf.Impls) {
		ic := cf.Impls[key]
		tn := strings.TrimPrefix(ic.Type, "*")
		if tn != n.Origin().Obj().Name() || strings.HasPrefix(ic.Type, "*") != ptr {
			continue
		}
		// resolve the interface, instantiated with the type arguments of n positionally
		in := x.resolveIfaceFor(n, ic.Iface)
		if in == nil {
			continue
		}
		if out == nil {
			// one combined view of all `implements` blocks of the type
			merged := &ImplContract{Type: ic.Type, Iface: ic.Iface, Models: map[string]Clause{}, MParams: map[string][]string{}, Opts: ic.Opts, Props: ic.Props}
			out = &implInfo{ic: merged, named: n, ptr: ptr}
		}
		for k, v := range ic.Models {
			out.ic.Models[k] = v
		}
		for k, v := range ic.MParams {
			out.ic.MParams[k] = v
		}
		out.ic.ObjInv = append(out.ic.ObjInv, ic.ObjInv...)
		out.ifaces = append(out.ifaces, in)
	}
	return out
}

// resolveIfaceFor finds the instantiated interface `name` (pkg-local or pkg.Name) that
// type n implements, by searching n's embedded fields and the interfaces of the package.
func (x *Exec) resolveIfaceFor(n *types.Named, name string) *types.Named {
	var found *types.Named
	var scan func(t types.Type, depth int)
	seen := map[types.Type]bool{}
	matches := func(in *types.Named) bool {
		o := in.Origin().Obj()
		return o.Name() == name || o.Pkg().Name()+"."+o.Name() == name
	}
	scan = func(t types.Type, depth int) {
		if found != nil || depth > 4 || seen[t] {
			return
		}
		seen[t] = true
		if in := namedOf(t); in != nil {
			if it, ok := in.Underlying().(*types.Interface); ok {
				if matches(in) && (types.Implements(n, it) || types.Implements(types.NewPointer(n), it)) {
					found = in
					return
				}
				for i := 0; i < it.NumEmbeddeds(); i++ {
					scan(it.EmbeddedType(i), depth+1)
				}
				return
			}
		}
		if s, ok := types.Unalias(t).Underlying().(*types.Struct); ok {
			for i := 0; i < s.NumFields(); i++ {
				if s.Field(i).Embedded() {
					scan(s.Field(i).Type(), depth+1)
				}
			}
		}
	}
	scan(n, 0)
	if found != nil {
		return found
	}
	// not embedded: instantiate the package-level interface with n's type arguments
	pk := n.Obj().Pkg()
	lookup := func(p *types.Package, nm string) *types.Named {
		if tn, ok := p.Scope().Lookup(nm).(*types.TypeName); ok {
			return namedOf(tn.Type())
		}
		return nil
	}
	var gen *types.Named
	if i := strings.Index(name, "."); i >= 0 {
		for _, imp := range pk.Imports() {
			if imp.Name() == name[:i] {
				gen = lookup(imp, name[i+1:])
			}
		}
	} else {
		gen = lookup(pk, name)
	}
	if gen == nil {
		return nil
	}
	if gen.TypeParams().Len() == 0 {
		return gen
	}
	// infer the interface's type arguments from the implementer's method signatures
	if inst := inferIfaceArgs(n, gen); inst != nil {
		return inst
	}
	// instantiate by matching method signatures: try the type arguments of n in order,
	// then fall back to positional prefixes
	if n.TypeArgs() != nil {
		var targs []types.Type
		for i := 0; i < n.TypeArgs().Len(); i++ {
			targs = append(targs, n.TypeArgs().At(i))
		}
		for _, cand := range candidateArgs(targs, gen.TypeParams().Len()) {
			inst, err := types.Instantiate(nil, gen, cand, false)
			if err != nil {
				continue
			}
			var recv types.Type = n
			if types.Implements(recv, inst.Underlying().(*types.Interface)) || types.Implements(types.NewPointer(recv), inst.Underlying().(*types.Interface)) {
				return namedOf(inst)
			}
		}
	}
	return nil
}

// inferIfaceArgs unifies the methods of generic interface gen with the methods of n.
func inferIfaceArgs(n *types.Named, gen *types.Named) *types.Named {
	it, ok := gen.Underlying().(*types.Interface)
	if !ok {
		return nil
	}
	tps := gen.TypeParams()
	bind := map[*types.TypeParam]types.Type{}
	var unify func(a, b types.Type)
	unify = func(a, b types.Type) {
		switch a := types.Unalias(a).(type) {
		case *types.TypeParam:
			for i := 0; i < tps.Len(); i++ {
				if tps.At(i) == a {
					if _, done := bind[a]; !done {
						bind[a] = b
					}
				}
			}
		case *types.Slice:
			if bs, ok := types.Unalias(b).(*types.Slice); ok {
				unify(a.Elem(), bs.Elem())
			}
		case *types.Pointer:
			if bp, ok := types.Unalias(b).(*types.Pointer); ok {
				unify(a.Elem(), bp.Elem())
			}
		}
	}
	for _, recv := range []types.Type{n, types.NewPointer(n)} {
		ms := types.NewMethodSet(recv)
		for i := 0; i < it.NumMethods(); i++ {
			im := it.Method(i)
			sel := ms.Lookup(im.Pkg(), im.Name())
			if sel == nil {
				continue
			}
			isig := im.Type().(*types.Signature)
			msig, ok := sel.Type().(*types.Signature)
			if !ok {
				continue
			}
			for j := 0; j < isig.Params().Len() && j < msig.Params().Len(); j++ {
				unify(isig.Params().At(j).Type(), msig.Params().At(j).Type())
			}
			for j := 0; j < isig.Results().Len() && j < msig.Results().Len(); j++ {
				unify(isig.Results().At(j).Type(), msig.Results().At(j).Type())
			}
		}
	}
	var targs []types.Type
	for i := 0; i < tps.Len(); i++ {
		t, ok := bind[tps.At(i)]
		if !ok {
			return nil
		}
		targs = append(targs, t)
	}
	inst, err := types.Instantiate(nil, gen, targs, false)
	if err != nil {
		return nil
	}
	in := namedOf(inst)
	iit := in.Underlying().(*types.Interface)
	if types.Implements(n, iit) || types.Implements(types.NewPointer(n), iit) {
		return in
	}
	return nil
}

func candidateArgs(targs []types.Type, k int) [][]types.Type {
	var out [][]types.Type
	var rec func(cur []types.Type)
	rec = func(cur []types.Type) {
		if len(cur) == k {
			out = append(out, append([]types.Type(nil), cur...))
			return
		}
		for _, t := range targs {
			rec(append(cur, t))
		}
	}
	if len(targs) > 0 && k <= 4 {
		rec(nil)
	}
	return out
}

// ifaceCall: call of an interface method by the interface's contract.
func (x *Exec) ifaceCall(st *State, fr *Frame, ce *ast.CallExpr, in *types.Named, f *types.Func, recv Term, args []Term, k func(*State, []Term)) {
	ic, _ := x.db.lookupIface(in)
	var pc *ProcContract
	owner := in
	if ic != nil {
		pc = ic.Methods[f.Name()]
	}
	if pc == nil {
		// method declared by an embedded interface
		if it, ok := in.Underlying().(*types.Interface); ok {
			for i := 0; i < it.NumEmbeddeds() && pc == nil; i++ {
				if en := namedOf(it.EmbeddedType(i)); en != nil {
					if eic, _ := x.db.lookupIface(en); eic != nil {
						if m, ok := eic.Methods[f.Name()]; ok {
							pc, owner = m, en
						}
					}
				}
			}
		}
	}
	if pc == nil {
		x.unsupported(ce, "call of interface method %s.%s (%s) without a contract", in.Obj().Name(), f.Name(), f.FullName())
		return
	}
	x.nilCheck(st, recv, ce)
	sub := map[string]string{}
	tps := owner.Origin().TypeParams()
	for i := 0; i < tps.Len() && owner.TypeArgs() != nil && i < owner.TypeArgs().Len(); i++ {
		sub[tps.At(i).Obj().Name()] = x.sortOf(owner.TypeArgs().At(i))
	}
	osig := f.Origin().Type().(*types.Signature)
	csig, _ := x.info.TypeOf(ce.Fun).(*types.Signature)
	if pc.Pure && x.statelessIface(in) {
		if ms, ok := x.methodUF(in, f.Name()); ok && len(args) == len(ms.args) {
			x.resultOverride = nil
			for k2, fn := range ms.fnames {
				x.resultOverride = append(x.resultOverride, tApp(ms.rets[k2], fn, append([]Term{recv}, args...)...))
			}
		}
	}
	x.byContract(st, fr, ce, pc, osig, csig, recv, args, sub, owner.Obj().Pkg().Path(), k)
}

// statelessIface: an interface whose contract declares no abstract state; only then is a
// pure method a function of receiver and arguments alone.
func (x *Exec) statelessIface(in *types.Named) bool {
	stateless := true
	var visit func(n *types.Named)
	visit = func(n *types.Named) {
		if n == nil {
			return
		}
		if ic, _ := x.db.lookupIface(n); ic != nil && len(ic.States) > 0 {
			stateless = false
		}
		if it, ok := n.Underlying().(*types.Interface); ok {
			for i := 0; i < it.NumEmbeddeds(); i++ {
				visit(namedOf(it.EmbeddedType(i)))
			}
		}
	}
	visit(in)
	return stateless
}

// enterPkg switches the package context used to resolve names in contract expressions.
func (x *Exec) enterPkg(path string) func() {
	if path == "" || x.pkg.Path == path {
		return func() {}
	}
	p, err := x.ld.Load(path)
	if err != nil {
		return func() {}
	}
	oldP, oldI := x.pkg, x.info
	x.pkg, x.info = p, p.Info
	return func() { x.pkg, x.info = oldP, oldI }
}

// ---------------------------------------------------------------------------
// inlining

func (l *Loader) findDecl(f *types.Func) (*ast.FuncDecl, *Pkg) {
	if f.Pkg() == nil {
		return nil, nil
	}
	p, ok := l.pkgs[f.Pkg().Path()]
	if !ok || p == nil {
		return nil, nil
	}
	f = f.Origin()
	for _, file := range p.Files {
		for _, d := range file.Decls {
			if fd, ok := d.(*ast.FuncDecl); ok && p.Info.Defs[fd.Name] == f {
				return fd, p
			}
		}
	}
	return nil, nil
}

func (x *Exec) inlineFunc(st *State, fr *Frame, ce *ast.CallExpr, f *types.Func, decl *ast.FuncDecl, pkg *Pkg, recv Term, args []Term, pc *ProcContract, k func(*State, []Term)) {
	if fr.depth > 6 {
		x.unsupported(ce, "inlining depth exceeded at %s (recursive function without contract?)", f.Name())
		return
	}
	oldP, oldI := x.pkg, x.info
	oldTenv := x.tenv
	x.pkg, x.info = pkg, pkg.Info
	// callee type parameters are bound to the sorts of the type arguments
	sub := x.typeSubst2(oldI, f, ce, recv.Ty)
	oldObj := x.tenvObj
	if len(sub) > 0 {
		no := map[*types.TypeParam]string{}
		for k2, v := range oldObj {
			no[k2] = v
		}
		osig0 := f.Origin().Type().(*types.Signature)
		bind := func(l *types.TypeParamList) {
			for i := 0; l != nil && i < l.Len(); i++ {
				if so, ok := sub[l.At(i).Obj().Name()]; ok {
					no[l.At(i)] = so
				}
			}
		}
		bind(osig0.TypeParams())
		bind(osig0.RecvTypeParams())
		x.tenvObj = no
	}
	restore := func() { x.pkg, x.info, x.tenv, x.tenvObj = oldP, oldI, oldTenv, oldObj }
	sig := f.Origin().Type().(*types.Signature)
	in := st
	if sig.Recv() != nil && decl.Recv != nil && len(decl.Recv.List) > 0 && len(decl.Recv.List[0].Names) > 0 {
		if o := pkg.Info.Defs[decl.Recv.List[0].Names[0]]; o != nil {
			rv := recv
			// value receiver invoked on a pointer / boxed value: copy the struct
			if _, isPtr := types.Unalias(o.Type()).(*types.Pointer); !isPtr && rv.Sort == "Ref" {
				if _, s, _ := structBehind(o.Type()); s != nil {
					rv = x.derefWhole(st, recv, o.Type(), ce)
				}
			}
			in.vars[o] = rv
		}
	}
	for i := 0; i < sig.Params().Len() && i < len(args); i++ {
		a := args[i]
		a.Ty = sig.Params().At(i).Type()
		in.vars[sig.Params().At(i)] = a
	}
	nfr := &Frame{proc: pc, sig: sig, depth: fr.depth + 1, entry: in.clone(), env: fr.env, parent: fr}
	for i := 0; i < sig.Results().Len(); i++ {
		r := sig.Results().At(i)
		if r.Name() != "" {
			nfr.results = append(nfr.results, r)
			in.vars[r] = x.zero(r.Type())
		}
	}
	savedLoop, savedLit, savedCall := x.loopOrd, x.litOrd, x.callOrd
	x.number(decl.Body)
	x.collectLocalAssigns(decl.Body)
	saveDefers := in.defers
	in.defers = nil
	nfr.ret = func(s2 *State, res []Term) {
		// the inlined function's own deferred calls run here; the caller's are put back
		x.runDefers(s2, nfr, func(e *State) {
			e.defers = append([]deferred(nil), saveDefers...)
			x.loopOrd, x.litOrd, x.callOrd = savedLoop, savedLit, savedCall
			restore()
			k(e, res)
			x.pkg, x.info = pkg, pkg.Info
		})
	}
	x.block(in, nfr, decl.Body.List, func(s2 *State) {
		if sig.Results().Len() > 0 {
			return // falls off the end of a function with results: unreachable in valid Go
		}
		nfr.ret(s2, nil)
	})
	x.loopOrd, x.litOrd, x.callOrd = savedLoop, savedLit, savedCall
	restore()
}

func (x *Exec) typeSubst2(info *types.Info, f *types.Func, ce *ast.CallExpr, recvT types.Type) map[string]string {
	saved := x.info
	x.info = info
	defer func() { x.info = saved }()
	return x.typeSubst(f, ce, recvT)
}

func (x *Exec) inlineLit(st *State, fr *Frame, fl *ast.FuncLit, args []Term, k func(*State, []Term)) {
	if fr.depth > 12 {
		x.unsupported(fl, "inlining depth exceeded in a function literal (a closure that calls itself?)")
		return
	}
	sig := x.info.TypeOf(fl).(*types.Signature)
	for i := 0; i < sig.Params().Len() && i < len(args); i++ {
		st.vars[sig.Params().At(i)] = args[i]
	}
	var sub *ProcContract
	if fr.proc != nil {
		sub = fr.proc.Subs[x.litOrd[fl]]
	}
	nfr := &Frame{proc: sub, sig: sig, depth: fr.depth + 1, entry: st.clone(), env: fr.env, parent: fr}
	if sub == nil {
		nfr.proc = fr.proc // loops inside an inlined literal are keyed in the enclosing procedure
	}
	savedLoop, savedLit, savedCall := x.loopOrd, x.litOrd, x.callOrd
	if sub != nil {
		x.number(fl.Body)
	}
	nfr.ret = func(s2 *State, res []Term) {
		l2, t2, c2 := x.loopOrd, x.litOrd, x.callOrd
		x.loopOrd, x.litOrd, x.callOrd = savedLoop, savedLit, savedCall
		k(s2, res)
		x.loopOrd, x.litOrd, x.callOrd = l2, t2, c2
	}
	x.block(st, nfr, fl.Body.List, func(s2 *State) {
		if sig.Results().Len() > 0 {
			return
		}
		nfr.ret(s2, nil)
	})
	x.loopOrd, x.litOrd, x.callOrd = savedLoop, savedLit, savedCall
}

// ---------------------------------------------------------------------------
// function values

// funcValue: a declared function used as a value.
func (x *Exec) funcValue(f *types.Func, targs *types.TypeList, n ast.Node) Term {
	t := x.info.TypeOf(n.(ast.Expr))
	sig, ok := types.Unalias(t).Underlying().(*types.Signature)
	if !ok {
		x.unsupported(n, "function value of type %s", t)
		return Term{S: "null", Sort: "Ref"}
	}
	so := x.fnSort(sig)
	name := "fn_" + f.Pkg().Name() + "_" + f.Name()
	if targs != nil {
		for i := 0; i < targs.Len(); i++ {
			name += "_" + x.sortOf(targs.At(i))
		}
	}
	c := x.d.constant(sanitize(name), so)
	c.Ty = t
	x.knownFns[c.S] = knownFn{f: f, targs: targs}
	return c
}

type knownFn struct {
	f     *types.Func
	targs *types.TypeList
	lit   *ast.FuncLit
}

func (x *Exec) methodValue(st *State, recv Term, sel *types.Selection, n ast.Node) Term {
	x.unsupported(n, "method value %s", sel.Obj().Name())
	return Term{S: "null", Sort: "Ref"}
}

// closureValue: a function literal used as a value. It denotes clo_<unit>_<ord>(captured
// values); when the literal has a contract (fnK) that contract is assumed for every
// application (pure closures) - the literal itself is verified against it separately.
func (x *Exec) closureValue(st *State, fr *Frame, fl *ast.FuncLit) Term {
	sig := x.info.TypeOf(fl).(*types.Signature)
	so := x.fnSort(sig)
	ord := x.litOrd[fl]
	// captured variables, in order of first use
	caps := x.captured(fl)
	var capT []Term
	var capS []string
	for _, o := range caps {
		v := x.getVar(st, o)
		capT = append(capT, v)
		capS = append(capS, v.Sort)
		// a closure captures variables, not values: the snapshot taken here is only right if
		// the variable is not assigned from this statement on (f = func(){ ... f(...) } would
		// otherwise read as a call of the old f)
		if x.sharedLoopVars[o] {
			x.oblige(st, "model", "closure-captures-reassigned-variable", tFalse, fl,
				"the closure captures the loop variable "+o.Name()+" of a file with pre-1.22 semantics (one variable for all iterations)")
		}
		if ov, ok := o.(*types.Var); ok {
			for _, an := range x.assignNodes[ov] {
				if an.End() > fl.Pos() {
					x.oblige(st, "model", "closure-captures-reassigned-variable", tFalse, fl,
						"the closure captures variable "+o.Name()+", which is assigned at or after the closure's creation ("+x.pos(an)+"): capture is by reference, the value snapshot of the model would be wrong")
					break
				}
			}
		}
	}
	fname := sanitize("clo_" + x.unit + "_" + ord)
	x.d.fun(fname, capS, so)
	c := tApp(so, fname, capT...)
	c.Ty = x.info.TypeOf(fl)
	x.knownFns[c.S] = knownFn{lit: fl}
	// the closure's contract as a quantified fact about its applications
	var sub *ProcContract
	if fr.proc != nil {
		sub = fr.proc.Subs[ord]
	}
	if sub != nil && sub.Pure {
		env := fr.env(st)
		for k2, v := range env.names {
			if strings.HasPrefix(k2, "$") && !strings.HasPrefix(k2, "$o") {
				env.names["$o"+k2[1:]] = v
			}
		}
		var binders []string
		var args []Term
		for i := 0; i < sig.Params().Len(); i++ {
			p := sig.Params().At(i)
			ps := x.sortOf(p.Type())
			b := Term{S: fmt.Sprintf("?%s", p.Name()), Sort: ps, Ty: p.Type()}
			env.names[p.Name()] = b
			env.names[fmt.Sprintf("$%d", i+1)] = b
			binders = append(binders, fmt.Sprintf("(?%s %s)", p.Name(), ps))
			args = append(args, b)
		}
		for i := 0; i < sig.Results().Len(); i++ {
			r := tApp(x.sortOf(sig.Results().At(i).Type()), fmt.Sprintf("app%d_%s", i, so), append([]Term{c}, args...)...)
			env.results = append(env.results, r)
		}
		var pre, post []Term
		for _, cl := range sub.Requires {
			if t, err := x.cevalSafe(env, cl, "Bool"); err == nil {
				pre = append(pre, t)
			}
		}
		for _, cl := range sub.Ensures {
			if mentionsState(cl.Expr) {
				continue // only the state-independent part of a closure's contract is a fact about app()
			}
			if t, err := x.cevalSafe(env, cl, "Bool"); err == nil {
				post = append(post, t)
			}
		}
		body := tImp(tAnd(pre...), tAnd(post...))
		if len(binders) > 0 {
			st.assume(mk("Bool", "(forall (%s) %s)", strings.Join(binders, " "), body.S))
		} else {
			st.assume(body)
		}
	}
	return c
}

// captured: free variables of a literal that are locals of the enclosing function.
func (x *Exec) captured(fl *ast.FuncLit) []types.Object {
	var out []types.Object
	seen := map[types.Object]bool{}
	ast.Inspect(fl.Body, func(n ast.Node) bool {
		id, ok := n.(*ast.Ident)
		if !ok {
			return true
		}
		o, ok := x.info.Uses[id].(*types.Var)
		if !ok || o.IsField() || seen[o] {
			return true
		}
		if o.Pkg() != nil && o.Parent() == o.Pkg().Scope() {
			return true // package level
		}
		if o.Pos() >= fl.Pos() && o.Pos() < fl.End() {
			return true // declared inside the literal
		}
		seen[o] = true
		out = append(out, o)
		return true
	})
	return out
}

// dynamicCall: application of a function value.
func (x *Exec) dynamicCall(st *State, fr *Frame, ce *ast.CallExpr, k func(*State, []Term)) {
	fun := ast.Unparen(ce.Fun)
	// a literal bound to a local: inline or call by its contract
	if fl := x.closureOf(fun); fl != nil {
		sig := x.info.TypeOf(fl).(*types.Signature)
		args := x.evalArgs2(st, fr, ce, nil, sig)
		var sub *ProcContract
		if fr.proc != nil {
			sub = fr.proc.Subs[x.litOrd[fl]]
		}
		if sub != nil && !sub.Inline && len(sub.Ensures)+len(sub.Requires) > 0 {
			x.byContract(st, fr, ce, sub, sig, sig, Term{}, args, nil, "", k)
			return
		}
		x.inlineLit(st, fr, fl, args, k)
		return
	}
	fv := x.expr(st, fr, fun)
	si := x.d.sorts[fv.Sort]
	if si == nil || si.Kind != "fn" {
		x.unsupported(ce, "call of a value of sort %s", fv.Sort)
		return
	}
	sig, _ := types.Unalias(x.info.TypeOf(fun)).Underlying().(*types.Signature)
	args := x.evalArgs2(st, fr, ce, nil, sig)
	// calling a nil function value panics; function values handed in by callers are assumed
	// non-nil (trusted base), an explicit nil is reported
	if strings.HasPrefix(fv.S, "nil_") {
		x.oblige(st, "safety", "nil-func", tFalse, ce, "call of a nil function value")
	}
	x.trust("function values supplied by callers are not nil")
	// a declared function passed around as a value and applied here (FMapK(seq, NewLens[T,A]))
	if kf, ok := x.knownFns[fv.S]; ok && kf.f != nil {
		if pc, _ := x.db.lookupFunc(kf.f); pc != nil {
			sub := map[string]string{}
			osig := kf.f.Origin().Type().(*types.Signature)
			x.lastTypeArgs = map[string]types.Type{}
			if kf.targs != nil && osig.TypeParams() != nil {
				for i := 0; i < osig.TypeParams().Len() && i < kf.targs.Len(); i++ {
					sub[osig.TypeParams().At(i).Obj().Name()] = x.sortOf(kf.targs.At(i))
					x.lastTypeArgs[osig.TypeParams().At(i).Obj().Name()] = kf.targs.At(i)
				}
			}
			csig2 := sig
			if kf.targs != nil {
				var ta []types.Type
				for i := 0; i < kf.targs.Len(); i++ {
					ta = append(ta, kf.targs.At(i))
				}
				if inst, err := types.Instantiate(nil, kf.f.Type(), ta, false); err == nil {
					if is, ok := inst.(*types.Signature); ok {
						csig2 = is
					}
				}
			}
			x.byContract(st, fr, ce, pc, osig, csig2, Term{}, args, sub, kf.f.Pkg().Path(), k)
			return
		}
	}
	if fpc := x.fnParamContract(fun); fpc != nil {
		// the function value itself is known by the parameter's name inside its contract
		x.extraNames = map[string]Term{strings.TrimPrefix(fpc.Key[strings.LastIndex(fpc.Key, "#")+1:], "fn"): fv}
		x.byContract(st, fr, ce, fpc, sig, sig, Term{}, args, nil, "", k)
		return
	}
	var res []Term
	for i, rs := range si.Rets {
		r := tApp(rs, fmt.Sprintf("app%d_%s", i, fv.Sort), append([]Term{fv}, args...)...)
		if sig != nil && i < sig.Results().Len() {
			r.Ty = sig.Results().At(i).Type()
		}
		res = append(res, r)
	}
	post := st
	if x.opts["calltrace"] == "on" {
		post = st.clone()
		x.recordCall(post, fv, args)
	}
	k(post, res)
}

// fnParamContract: a contract attached to a function-typed parameter or field
// ("fn rhs:" sub-contract named after the parameter), for user functions that return
// objects with abstract state.
func (x *Exec) fnParamContract(fun ast.Expr) *ProcContract {
	var name string
	switch f := ast.Unparen(fun).(type) {
	case *ast.Ident:
		name = f.Name
	case *ast.SelectorExpr:
		name = f.Sel.Name
	case *ast.CallExpr:
		// conversion of a named value to its function type, then applied: T(f)(args)
		if tv, ok := x.info.Types[ast.Unparen(f.Fun)]; ok && tv.IsType() && len(f.Args) == 1 {
			if id, ok := ast.Unparen(f.Args[0]).(*ast.Ident); ok {
				name = id.Name
			}
		}
		if name == "" {
			return nil
		}
	default:
		return nil
	}
	if x.proc == nil {
		return nil
	}
	for p := x.proc; p != nil; p = p.Parent {
		if s, ok := p.Subs["fn"+name]; ok {
			return s
		}
	}
	if x.cf != nil {
		if s, ok := x.cf.Funcs["fnparam "+name]; ok {
			return s
		}
	}
	return nil
}

// recordCall appends (f, args) to the ghost call trace.
func (x *Exec) recordCall(st *State, fv Term, args []Term) {
	ev := x.d.Uninterp("CallEv")
	var as []string
	as = append(as, fv.Sort)
	for _, a := range args {
		as = append(as, a.Sort)
	}
	fname := "ev_" + sanitize(fv.Sort)
	x.d.fun(fname, as, ev)
	tr := x.d.TrOf(ev)
	cur, ok := st.ghosts["calls"]
	if !ok {
		cur = x.d.constant("calls@0", tr)
	}
	st.ghosts["calls"] = tApp(tr, "snoc_"+tr, cur, tApp(ev, fname, append([]Term{fv}, args...)...))
}

// ---------------------------------------------------------------------------
// conversions

func (x *Exec) convertTo(st *State, v Term, to types.Type, n ast.Node) Term {
	if to == nil {
		return v
	}
	toU := types.Unalias(to)
	_, toIface := toU.Underlying().(*types.Interface)
	if toIface {
		if _, isTP := toU.(*types.TypeParam); isTP {
			toIface = false
		}
	}
	if toIface && v.Ty != nil {
		if nso, ok := x.valueTreeSort(to); ok && v.Sort != nso {
			if w, ok := x.nodeWrap(v, v.Ty); ok {
				w.Ty = to
				return w
			}
		}
		fromU := types.Unalias(v.Ty)
		if _, isTP := fromU.(*types.TypeParam); isTP && v.Sort != "Ref" && x.sortOf(to) == "Ref" {
			// a value of a type parameter seen as an interface value: an injective
			// uninterpreted boxing (interface equality compares the dynamic values)
			fn := "boxtp_" + sanitize(v.Sort)
			x.d.fun(fn, []string{v.Sort}, "Ref")
			x.d.fun("un"+fn, []string{"Ref"}, v.Sort)
			r := tApp("Ref", fn, v)
			st.assume(tEq(tApp(v.Sort, "un"+fn, r), v))
			r.Ty = to
			return r
		}
		if _, fromIface := fromU.Underlying().(*types.Interface); !fromIface {
			if b, ok := fromU.(*types.Basic); ok && b.Kind() == types.UntypedNil {
				r := x.zero(to)
				return r
			}
			return x.box(st, v, to, n)
		}
		// interface to interface: same reference
		if v.Sort == x.sortOf(to) {
			v.Ty = to
			return v
		}
		if v.Sort == "Err" && x.sortOf(to) == "Ref" {
			// an error value seen as any: an opaque reference (nil for nil)
			x.d.fun("err_as_ref", []string{"Err"}, "Ref")
			r := tApp("Ref", "err_as_ref", v)
			r.Ty = to
			return r
		}
	}
	ts := x.sortOf(to)
	if v.Sort == ts {
		v.Ty = to
		return v
	}
	if v.S == "null" && v.Sort == "Ref" {
		return x.zero(to)
	}
	// integer to float: an uninterpreted function (floating point is not reasoned about)
	if v.Sort == "Int" && ts == "Float" {
		x.d.fun("int_to_float", []string{"Int"}, "Float")
		r := tApp("Float", "int_to_float", v)
		r.Ty = to
		return r
	}
	// numeric conversions between integer kinds: value preserved only if in range
	if v.Sort == "Int" && ts == "Int" {
		v.Ty = to
		return v
	}
	// conversion between distinct type parameters (BiMapS/B/I/F): an uninterpreted function
	if _, ok := types.Unalias(to).(*types.TypeParam); ok && v.Ty != nil {
		if _, ok2 := types.Unalias(v.Ty).(*types.TypeParam); ok2 {
			r := x.convUF(v, ts)
			r.Ty = to
			return r
		}
	}
	if n != nil {
		x.unsupported(n, "conversion from sort %s (%v) to %s (%v)", v.Sort, v.Ty, ts, to)
	}
	r := x.zero(to)
	return r
}

func (x *Exec) convUF(v Term, to string) Term {
	if v.Sort == to {
		return v
	}
	fn := "conv_" + sanitize(v.Sort) + "_" + sanitize(to)
	x.d.fun(fn, []string{v.Sort}, to)
	return tApp(to, fn, v)
}

// box: a concrete value becomes an interface value. Pointers keep their identity; other
// values get a fresh immutable box. For implementers of a contract interface the abstract
// state is folded (ghost assignment from the model clauses) and the object invariant is
// checked.
func (x *Exec) box(st *State, v Term, to types.Type, n ast.Node) Term {
	if x.sortOf(to) == "Err" {
		// concrete error values are opaque non-nil tokens
		e := x.d.fresh("errval", "Err")
		st.assume(tNot(tEq(e, Term{S: "err_nil", Sort: "Err"})))
		e.Ty = to
		return e
	}
	from := v.Ty
	var r Term
	named, s, isPtr := structBehind(from)
	if v.Sort == "Ref" {
		r = v
	} else {
		r = x.alloc(st, "box", from)
		if named != nil && s != nil && !isPtr {
			si := x.d.sorts[v.Sort]
			for i := 0; i < s.NumFields(); i++ {
				fv := tApp(si.FSorts[i], v.Sort+"_"+sanitize(s.Field(i).Name()), v)
				fv = x.projectCtor(v, i, fv)
				fv.Ty = s.Field(i).Type()
				x.storeFieldRef(st, r, named, s.Field(i), fv)
			}
		} else {
			x.storeCell(st, r, v)
		}
	}
	r.Ty = from
	x.setDyn(st, r, from)
	x.fold(st, r, from, n)
	r.Ty = to
	return r
}

func (x *Exec) setDyn(st *State, r Term, t types.Type) {
	tag := x.typeTag(t)
	x.d.fun("dyn", []string{"Ref"}, "Int")
	st.assume(tEq(tApp("Int", "dyn", r), tag))
}

func (x *Exec) typeTag(t types.Type) Term {
	key := typeKey(t)
	if tg, ok := x.tags[key]; ok {
		return tg
	}
	// tags of types mentioning type parameters are symbolic: distinct from each other only
	// when the types are structurally different kinds
	tg := tInt(int64(len(x.tags) + 1))
	x.tags[key] = tg
	return tg
}

// fold sets the abstract state of an implementer object from its model clauses.
func (x *Exec) fold(st *State, r Term, t types.Type, n ast.Node) {
	ii := x.implOf(t)
	if ii == nil {
		return
	}
	restore := x.enterPkg(ii.named.Obj().Pkg().Path())
	defer restore()
	sub := map[string]string{}
	tps := ii.named.Origin().TypeParams()
	for i := 0; i < tps.Len() && ii.named.TypeArgs() != nil && i < ii.named.TypeArgs().Len(); i++ {
		sub[tps.At(i).Obj().Name()] = x.sortOf(ii.named.TypeArgs().At(i))
	}
	self := r
	self.Ty = t
	env := &CEnv{names: map[string]Term{}, st: st, old: st, self: self, tsub: sub}
	env.impl = &implCtx{self: self, ic: ii.ic}
	if _, s, _ := structBehind(t); s == nil {
		// a boxed non-struct value (function or string kind): self denotes the value itself
		env.self = x.loadCell(st, r, t)
	}
	x.assumeMethodModels(st, self, ii, env)
	env.impl = nil
	for i, c := range ii.ic.ObjInv {
		tt, err := x.cevalSafe(env, c, "Bool")
		if err != nil {
			x.contractError(st, "objinv", err, n)
			continue
		}
		x.oblige(st, "objinv", fmt.Sprintf("fold:%s:%d", ii.ic.Type, i), tt, n, c.Src)
	}
	for _, name := range sortedKeys(ii.ic.Models) {
		if _, isMeth := ii.ic.MParams[name]; isMeth {
			continue
		}
		if _, isState := x.stateOfIfaces(ii, name); !isState {
			continue
		}
		mc := ii.ic.Models[name]
		val, err := x.cevalSafe(env, mc, "")
		if err != nil {
			x.contractError(st, "model:"+name, err, n)
			continue
		}
		mname, elem, ok := x.ifaceStateMap(env, name, self)
		if !ok || elem != val.Sort {
			x.contractError(st, "model:"+name, fmt.Errorf("model %s of %s has sort %s, state has sort %s", name, ii.ic.Type, val.Sort, elem), n)
			continue
		}
		cur := x.heapMap(st, mname, elem)
		st.maps[mname] = tStore(cur, r, val)
	}
	// a freshly folded object is not exhausted
	for _, in := range ii.ifaces {
		if ic, _ := x.db.lookupIface(in); ic != nil {
			_ = ic
		}
	}
	if mname, elem, ok := x.ifaceStateMap(env, "done", self); ok && elem == "Bool" {
		if _, has := ii.ic.Models["done"]; !has {
			cur := x.heapMap(st, mname, elem)
			st.maps[mname] = tStore(cur, r, tFalse)
		}
	}
}

func (x *Exec) implBoxHook(st *State, r Term, named *types.Named, isPtr bool) {}

func (x *Exec) typeAssert(st *State, v Term, to types.Type, n ast.Node) (Term, Term) {
	if isT, val, ok := x.nodeMatch(v, to); ok {
		return val, isT
	}
	x.d.fun("dyn", []string{"Ref"}, "Int")
	ok := tEq(tApp("Int", "dyn", v), x.typeTag(to))
	ok = tAnd(tNot(tEq(v, Term{S: "null", Sort: "Ref"})), ok)
	var r Term
	if x.sortOf(to) == "Ref" {
		r = v
		r.Ty = to
	} else {
		r = x.derefWhole(st, v, to, n)
	}
	return r, ok
}

func (x *Exec) typeSwitch(st *State, fr *Frame, s *ast.TypeSwitchStmt, k func(*State)) {
	var xe ast.Expr
	var bind *ast.Ident
	switch a := s.Assign.(type) {
	case *ast.AssignStmt:
		bind = a.Lhs[0].(*ast.Ident)
		xe = a.Rhs[0].(*ast.TypeAssertExpr).X
	case *ast.ExprStmt:
		xe = a.X.(*ast.TypeAssertExpr).X
	}
	v := x.expr(st, fr, xe)
	cur := st
	var deflt *ast.CaseClause
	for _, c := range s.Body.List {
		cc := c.(*ast.CaseClause)
		if cc.List == nil {
			deflt = cc
			continue
		}
		var conds []Term
		var val Term
		for _, te := range cc.List {
			tt := x.info.TypeOf(te)
			if id, ok := te.(*ast.Ident); ok && id.Name == "nil" {
				conds = append(conds, tEq(v, x.zeroOfSort(v.Sort, nil)))
				continue
			}
			tv, ok := x.typeAssert(cur, v, tt, te)
			val = tv
			conds = append(conds, ok)
		}
		cnd := tOr(conds...)
		t := cur.clone()
		t.assume(cnd)
		if bind != nil {
			if o := x.info.Implicits[cc]; o != nil {
				if len(cc.List) == 1 {
					val.Ty = o.Type()
					if x.isValuePtrType(o.Type()) {
						x.borrow[o] = xe // the child is borrowed from this place: writes go back
					}
					t.vars[o] = val
				} else {
					t.vars[o] = v
				}
			}
		}
		bfr := *fr
		bfr.brk = k
		x.block(t, &bfr, cc.Body, k)
		nx := cur.clone()
		nx.assume(tNot(cnd))
		cur = nx
	}
	if deflt != nil {
		if bind != nil {
			if o := x.info.Implicits[deflt]; o != nil {
				cur.vars[o] = v
			}
		}
		bfr := *fr
		bfr.brk = k
		x.block(cur, &bfr, deflt.Body, k)
	} else {
		k(cur)
	}
}

// ---------------------------------------------------------------------------
// builtins

func (x *Exec) builtin(st *State, fr *Frame, ce *ast.CallExpr, name string, k func(*State, []Term)) {
	switch name {
	case "len", "cap":
		v := x.expr(st, fr, ce.Args[0])
		if si := x.d.sorts[v.Sort]; si != nil && si.Kind == "arrslice" && name == "len" {
			r := tApp("Int", "len_"+v.Sort, v)
			r.Ty = types.Typ[types.Int]
			k(st, []Term{r})
			return
		}
		if si := x.d.sorts[v.Sort]; si != nil && si.Kind == "list" && name == "len" {
			// the length of a slice is an int
			st.assume(tApp("Bool", "<=", tApp("Int", "len_"+v.Sort, v), Term{S: "9223372036854775807", Sort: "Int"}))
		}
		if si := x.d.sorts[v.Sort]; si != nil && si.Kind == "list" {
			if name == "cap" {
				// capacity is not modelled by mathematical sequences: an unknown value >= len
				c := x.d.fresh("cap", "Int")
				st.assume(tApp("Bool", ">=", c, tApp("Int", "len_"+v.Sort, v)))
				k(st, []Term{c})
				return
			}
			r := tApp("Int", "len_"+v.Sort, v)
			r.Ty = types.Typ[types.Int]
			k(st, []Term{r})
			return
		}
		if v.Sort == "Ref" {
			if _, ok := types.Unalias(x.info.TypeOf(ce.Args[0])).Underlying().(*types.Chan); ok {
				k(st, []Term{x.chanLenCap(st, v, name)})
				return
			}
		}
		x.unsupported(ce, "%s of sort %s", name, v.Sort)
	case "append":
		base := x.expr(st, fr, ce.Args[0])
		si := x.d.sorts[base.Sort]
		if si == nil || si.Kind != "list" {
			x.unsupported(ce, "append to sort %s", base.Sort)
			return
		}
		x.appendCheck(st, fr, ce)
		r := base
		if ce.Ellipsis != token.NoPos {
			o := x.expr(st, fr, ce.Args[1])
			r = tApp(base.Sort, "cat_"+base.Sort, base, o)
		} else {
			for _, a := range ce.Args[1:] {
				v := x.expr(st, fr, a)
				v = x.convertTo(st, v, types.Unalias(x.info.TypeOf(ce)).Underlying().(*types.Slice).Elem(), a)
				r = tApp(base.Sort, "snocl_"+base.Sort, r, v)
			}
		}
		r.Ty = x.info.TypeOf(ce)
		k(st, []Term{r})
	case "make":
		t := x.info.TypeOf(ce)
		switch u := types.Unalias(t).Underlying().(type) {
		case *types.Slice:
			so := x.sortOf(t)
			n := x.expr(st, fr, ce.Args[1])
			if si := x.d.sorts[so]; si != nil && si.Kind == "arrslice" {
				x.oblige(st, "safety", "make-len", tApp("Bool", ">=", n, tInt(0)), ce, "make length is not negative")
				ze := x.zero(u.Elem())
				r := mk(so, "(mk_%s ((as const (Array Int %s)) %s) %s)", so, si.Elem, ze.S, n.S)
				r.Ty = t
				k(st, []Term{r})
				return
			}
			if n.S == "0" {
				k(st, []Term{{S: "nil_" + so, Sort: so, Ty: t}})
				return
			}
			// a slice of n zero values
			r := x.d.fresh("made", so)
			r.Ty = t
			st.assume(tEq(tApp("Int", "len_"+so, r), n))
			z := x.zero(u.Elem())
			si := x.d.sorts[so]
			st.assume(mk("Bool", "(forall ((?i Int)) (=> (and (<= 0 ?i) (< ?i %s)) (= (nth_%s %s ?i) %s)))", n.S, so, r.S, z.S))
			_ = si
			x.oblige(st, "safety", "make-len", tApp("Bool", ">=", n, tInt(0)), ce, "make length is not negative")
			k(st, []Term{r})
		case *types.Chan:
			capT := tInt(0)
			if len(ce.Args) > 1 {
				capT = x.expr(st, fr, ce.Args[1])
			}
			k(st, []Term{x.chanMake(st, t, capT, ce)})
		case *types.Map:
			so := x.sortOf(t)
			r := x.d.fresh("map", so)
			r.Ty = t
			k(st, []Term{r})
		default:
			x.unsupported(ce, "make of %s", t)
		}
	case "new":
		t := x.info.TypeOf(ce)
		et := t.(*types.Pointer).Elem()
		r := x.alloc(st, "new", t)
		named, s, _ := structBehind(et)
		if named != nil && s != nil {
			for i := 0; i < s.NumFields(); i++ {
				x.storeFieldRef(st, r, named, s.Field(i), x.zero(s.Field(i).Type()))
			}
		} else {
			x.storeCell(st, r, x.zero(et))
		}
		k(st, []Term{r})
	case "close":
		ch := x.expr(st, fr, ce.Args[0])
		x.chanClose(st, fr, ch, ce)
		k(st, nil)
	case "panic":
		x.doPanic(st, fr, ce)
	case "min", "max":
		// integer min/max of any arity
		r := x.expr(st, fr, ce.Args[0])
		if r.Sort != "Int" {
			x.unsupported(ce, "builtin %s on %s", name, r.Sort)
			return
		}
		op := "<="
		if name == "max" {
			op = ">="
		}
		for _, a := range ce.Args[1:] {
			v := x.expr(st, fr, a)
			r = tIte(tApp("Bool", op, r, v), r, v)
		}
		r.Ty = x.info.TypeOf(ce)
		k(st, []Term{r})
	default:
		x.unsupported(ce, "builtin %s", name)
	}
}

// benignOutput: diagnostic output functions of the standard library that a harmless edit may add.
var benignOutput = map[string]bool{
	"fmt.Print": true, "fmt.Printf": true, "fmt.Println": true, "fmt.Sprint": true, "fmt.Sprintln": true,
	"log.Print": true, "log.Printf": true, "log.Println": true,
	"log/slog.Debug": true, "log/slog.Info": true, "log/slog.Warn": true,
	"log/slog.DebugContext": true, "log/slog.InfoContext": true, "log/slog.WarnContext": true, "log/slog.ErrorContext": true,
	"log/slog.String": true, "log/slog.Int": true, "log/slog.Any": true,
	// a local bytes.Buffer / strings.Builder used to assemble text: contents are not modelled
	"(*bytes.Buffer).WriteString": true, "(*bytes.Buffer).String": true, "(*bytes.Buffer).WriteByte": true, "(*bytes.Buffer).Write": true,
	"(*strings.Builder).WriteString": true, "(*strings.Builder).String": true, "(*strings.Builder).WriteByte": true,
}
