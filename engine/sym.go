package main

import (
	"go/printer"
	"fmt"
	"go/ast"
	"go/token"
	"go/types"
	"sort"
	"strings"
)

// Exec symbolically executes one verification unit (a function, method, goroutine body
// or function literal) of a package, producing named obligations.
type Exec struct {
	ld   *Loader
	pkg  *Pkg
	info *types.Info
	cf   *ContractFile
	db   *ContractDB
	d    *Decls

	unit       string
	props      []string
	obs        []*Oblig
	dry        int
	tenv       map[string]string
	typeParams map[string]bool
	adts       map[string]adtSpec
	localSpec  map[string]localSig
	strLits    map[string]Term
	problems   []string

	loopOrd map[ast.Node]int
	litOrd  map[*ast.FuncLit]string
	callOrd map[*ast.CallExpr]int
	proc    *ProcContract
	paths   int
	opts    map[string]string
	assumed map[string]bool // trusted facts used (reported in evidence)

	closures          map[types.Object]*ast.FuncLit
	knownFns          map[string]knownFn
	tags              map[string]Term
	spawnedRepeatedly map[*ast.FuncLit]bool
	usedAfter         map[types.Object]bool
	localAssigns      map[*types.Var][]ast.Expr
	assignsSeen       map[ast.Node]bool
	assignNodes       map[*types.Var][]ast.Node // non-defining assignments to each local
	closesChans       []Term // channels the goroutine under proof may close without owning them (closes=)
	inputChans        []Term // the channels declared as inputs of the goroutine under proof
	sharedLoopVars    map[types.Object]bool // loop variables of files with pre-1.22 semantics: one variable for all iterations
	staleOrdinals     bool // the body has another number of loops than the contract was written for
	unknownSeen       map[string]bool   // names of the contract that resolved to nothing (seen by invariant inference)
	rename            map[string]string // contract name -> program name (repair of a renamed local)
	extraInv          map[ast.Node][]Clause // engine-derived invariants of counting loops
	selectRecv        bool   // the next chanRecv is an arm of a select (not a blocking receive)
	scratch           string // directory for synchronous solver queries (invariant inference)
	inferQueries      int
	resultOverride    []Term
	wfSeen            map[string]bool
	extraNames        map[string]Term
	typeParamObjs     map[string]*types.TypeParam
	mapSorts          map[string]string
	curProp           string
	neverReadMemo     map[*types.Var]bool
	tickDur           Term // `opt tick=<name>`: the duration that counts as one tick of the ghost clock
	usedPC            map[*ProcContract]bool // contracts relied on at call sites (dependency closure)
	inGoroutine       bool
	curFrame          *Frame
	lastTypeArgs      map[string]types.Type
	tenvObj           map[*types.TypeParam]string
	vtrees            map[string]*valueTree
	borrow            map[types.Object]ast.Expr
	inoutRecv         *types.Var
	arraySlices       bool
	curRet            string // exit being checked: ordinal of the return statement, or "end"
	retOrd            map[*ast.ReturnStmt]int
}

type localSig struct {
	args []string
	ret  string
}

// Frame: control context of the procedure body being executed.
type Frame struct {
	proc    *ProcContract
	sig     *types.Signature
	results []types.Object // named results
	ret     func(st *State, res []Term)
	brk     func(st *State)
	cont    func(st *State)
	labels  map[string]*Frame
	entry   *State
	env     func(st *State) *CEnv // contract environment of this procedure
	depth   int
	parent  *Frame // enclosing frame when this one is an inlined call
}

func (x *Exec) unsupported(n ast.Node, f string, a ...any) {
	msg := fmt.Sprintf(f, a...)
	if n != nil {
		msg = x.pos(n) + ": " + msg
	}
	for _, p := range x.problems {
		if p == msg {
			return
		}
	}
	x.problems = append(x.problems, msg)
}

func (x *Exec) pos(n ast.Node) string {
	p := x.ld.Fset.Position(n.Pos())
	return fmt.Sprintf("%s:%d", strings.TrimPrefix(p.Filename, x.ld.Root+"/"), p.Line)
}

// oblige records a proof obligation under the current path condition.
func (x *Exec) oblige(st *State, kind, label string, goal Term, n ast.Node, src string) {
	if x.dry > 0 || st.dead {
		return
	}
	if kind == "safety" && x.opts["safetyprops"] != "" && x.curProp != "" && !hasProp(splitList(x.opts["safetyprops"]), x.curProp) {
		return // the safety obligations of this unit are attributed to other properties
	}
	if goal.S == "true" {
		// still counted: trivially discharged obligations are part of the coverage
	}
	if len(st.guard) > 0 {
		goal = tImp(tAnd(st.guard...), goal)
	}
	name := x.unit + ":" + kind
	if label != "" {
		name += ":" + label
	}
	o := &Oblig{Name: name, Kind: kind, Props: x.props, Assume: st.pc.list(), Goal: goal, Src: src}
	if n != nil {
		o.Pos = x.pos(n)
	}
	x.obs = append(x.obs, o)
}

// ---------------------------------------------------------------------------
// numbering of loops, literals and calls (structural keys, DESIGN 2.1)

func (x *Exec) number(body ast.Node) {
	x.loopOrd = map[ast.Node]int{}
	x.litOrd = map[*ast.FuncLit]string{}
	x.callOrd = map[*ast.CallExpr]int{}
	var walk func(n ast.Node, top bool)
	nl, ngo, nfn, nc := 0, 0, 0, 0
	goLits := map[*ast.FuncLit]bool{}
	// a literal is a goroutine body when it is the operand of a go statement, or when it is
	// bound to a local that is used for nothing but `go name()`: naming a goroutine body or
	// inlining a named one does not change its key
	bound := map[types.Object]*ast.FuncLit{}
	goUse := map[types.Object]int{}
	otherUse := map[types.Object]int{}
	goCallee := map[*ast.Ident]bool{}
	ast.Inspect(body, func(n ast.Node) bool {
		switch n := n.(type) {
		case *ast.GoStmt:
			if fl, ok := n.Call.Fun.(*ast.FuncLit); ok {
				goLits[fl] = true
			}
			if id, ok := n.Call.Fun.(*ast.Ident); ok {
				goCallee[id] = true
			}
		case *ast.AssignStmt:
			for i, l := range n.Lhs {
				if id, ok := l.(*ast.Ident); ok && i < len(n.Rhs) {
					if fl, ok := ast.Unparen(n.Rhs[i]).(*ast.FuncLit); ok {
						if o := x.info.ObjectOf(id); o != nil {
							if _, dup := bound[o]; dup {
								otherUse[o]++
							}
							bound[o] = fl
						}
					}
				}
			}
		}
		return true
	})
	ast.Inspect(body, func(n ast.Node) bool {
		if id, ok := n.(*ast.Ident); ok {
			if o := x.info.Uses[id]; o != nil {
				if _, isBound := bound[o]; isBound {
					if goCallee[id] {
						goUse[o]++
					} else {
						otherUse[o]++
					}
				}
			}
		}
		return true
	})
	for o, fl := range bound {
		if goUse[o] > 0 && otherUse[o] == 0 {
			goLits[fl] = true
		}
	}
	walk = func(n ast.Node, top bool) {
		ast.Inspect(n, func(m ast.Node) bool {
			switch m := m.(type) {
			case *ast.FuncLit:
				if m == n {
					return true
				}
				if goLits[m] {
					x.litOrd[m] = fmt.Sprintf("go%d", ngo)
					ngo++
				} else {
					x.litOrd[m] = fmt.Sprintf("fn%d", nfn)
					nfn++
				}
				return false // nested literals are numbered within their own procedure
			case *ast.ForStmt, *ast.RangeStmt:
				x.loopOrd[m] = nl
				nl++
			case *ast.CallExpr:
				x.callOrd[m] = nc
				nc++
			}
			return true
		})
	}
	walk(body, true)
}

// ---------------------------------------------------------------------------
// statements (continuation-passing: k is what follows)

func (x *Exec) block(st *State, fr *Frame, list []ast.Stmt, k func(*State)) {
	if len(list) == 0 {
		k(st)
		return
	}
	x.stmt(st, fr, list[0], func(s2 *State) { x.block(s2, fr, list[1:], k) })
}

func (x *Exec) stmt(st *State, fr *Frame, s ast.Stmt, k func(*State)) {
	if st.dead {
		return
	}
	x.curFrame = fr
	x.paths++
	if x.paths > 200000 {
		x.unsupported(s, "path explosion")
		return
	}
	switch s := s.(type) {
	case *ast.BlockStmt:
		x.block(st, fr, s.List, k)
	case *ast.EmptyStmt:
		k(st)
	case *ast.ExprStmt:
		x.exprStmt(st, fr, s.X, k)
	case *ast.DeclStmt:
		gd := s.Decl.(*ast.GenDecl)
		if gd.Tok != token.VAR {
			k(st)
			return
		}
		for _, sp := range gd.Specs {
			vs := sp.(*ast.ValueSpec)
			for i, nm := range vs.Names {
				obj := x.info.Defs[nm]
				if obj == nil {
					continue
				}
				var v Term
				if i < len(vs.Values) {
					v = x.expr(st, fr, vs.Values[i])
					v = x.convertTo(st, v, obj.Type(), vs.Values[i])
				} else {
					v = x.zero(obj.Type())
				}
				x.setVar(st, obj, v)
			}
		}
		k(st)
	case *ast.AssignStmt:
		x.assign(st, fr, s)
		k(st)
	case *ast.IncDecStmt:
		cur := x.expr(st, fr, s.X)
		op := "+"
		if s.Tok == token.DEC {
			op = "-"
		}
		nv := tApp("Int", op, cur, tInt(1))
		nv.Ty = cur.Ty
		if !x.neverRead(s.X) {
			// wrap-around of a counter that nothing ever reads cannot be observed
			x.overflowCheck(st, nv, s, x.info.TypeOf(s.X))
		}
		x.store(st, fr, s.X, nv)
		k(st)
	case *ast.ReturnStmt:
		var res []Term
		if len(s.Results) == 0 && len(fr.results) > 0 {
			for _, o := range fr.results {
				res = append(res, x.getVar(st, o))
			}
		} else if ce, isCall := ast.Unparen(firstOr(s.Results)).(*ast.CallExpr); isCall && len(s.Results) == 1 && x.hasEffect(ce) {
			// return f(...): the callee may fork (branches of an inlined helper): continuation style
			x.curRet = "end"
			if k2, ok := x.retOrd[s]; ok {
				x.curRet = fmt.Sprint(k2)
			}
			cr := x.curRet
			x.callK(st, fr, ce, func(s2 *State, rs []Term) {
				for i := range rs {
					if fr.sig != nil && i < fr.sig.Results().Len() {
						rs[i] = x.convertTo(s2, rs[i], fr.sig.Results().At(i).Type(), s.Results[0])
					}
				}
				x.curRet = cr
				fr.ret(s2, rs)
			})
			return
		} else if len(s.Results) == 1 && fr.sig != nil && fr.sig.Results().Len() > 1 {
			res = x.exprs(st, fr, s.Results[0])
		} else {
			for i, r := range s.Results {
				v := x.expr(st, fr, r)
				if fr.sig != nil && i < fr.sig.Results().Len() {
					v = x.convertTo(st, v, fr.sig.Results().At(i).Type(), r)
				}
				res = append(res, v)
			}
		}
		x.curRet = "end"
		if k, ok := x.retOrd[s]; ok {
			x.curRet = fmt.Sprint(k)
		}
		fr.ret(st, res)
	case *ast.IfStmt:
		x.ifStmt(st, fr, s, k)
	case *ast.ForStmt:
		x.forStmt(st, fr, s, k)
	case *ast.RangeStmt:
		x.rangeStmt(st, fr, s, k)
	case *ast.SwitchStmt:
		x.switchStmt(st, fr, s, k)
	case *ast.TypeSwitchStmt:
		x.typeSwitch(st, fr, s, k)
	case *ast.BranchStmt:
		switch s.Tok {
		case token.BREAK:
			if fr.brk == nil {
				x.unsupported(s, "break outside loop")
				return
			}
			fr.brk(st)
		case token.CONTINUE:
			if fr.cont == nil {
				x.unsupported(s, "continue outside loop")
				return
			}
			fr.cont(st)
		default:
			x.unsupported(s, "branch statement %s", s.Tok)
		}
	case *ast.DeferStmt:
		x.deferStmt(st, fr, s)
		k(st)
	case *ast.GoStmt:
		x.goStmt(st, fr, s)
		k(st)
	case *ast.SendStmt:
		ch := x.expr(st, fr, s.Chan)
		v := x.expr(st, fr, s.Value)
		x.chanSend(st, fr, ch, v, s, false)
		k(st)
	case *ast.SelectStmt:
		x.selectStmt(st, fr, s, k)
	case *ast.LabeledStmt:
		x.stmt(st, fr, s.Stmt, k)
	default:
		x.unsupported(s, "statement %T", s)
	}
}

func (x *Exec) exprStmt(st *State, fr *Frame, e ast.Expr, k func(*State)) {
	if ce, ok := ast.Unparen(e).(*ast.CallExpr); ok {
		if id, ok := ast.Unparen(ce.Fun).(*ast.Ident); ok && id.Name == "panic" {
			if _, isB := x.info.Uses[id].(*types.Builtin); isB {
				x.doPanic(st, fr, ce)
				return
			}
		}
		x.callK(st, fr, ce, func(s2 *State, _ []Term) { k(s2) })
		return
	}
	if u, ok := ast.Unparen(e).(*ast.UnaryExpr); ok && u.Op == token.ARROW {
		ch := x.expr(st, fr, u.X)
		x.chanRecv(st, fr, ch, u, func(s2 *State, v Term, okT Term) { k(s2) })
		return
	}
	x.expr(st, fr, e)
	k(st)
}

func (x *Exec) ifStmt(st *State, fr *Frame, s *ast.IfStmt, k func(*State)) {
	run := func(st *State) {
		x.cond(st, fr, s.Cond, func(s2 *State, c Term) {
			t := s2.clone()
			t.assume(c)
			x.block(t, fr, s.Body.List, k)
			e := s2.clone()
			e.assume(tNot(c))
			if s.Else != nil {
				x.stmt(e, fr, s.Else, k)
			} else {
				k(e)
			}
		})
	}
	if s.Init != nil {
		x.stmt(st, fr, s.Init, run)
	} else {
		run(st)
	}
}

// cond evaluates a boolean condition; conditions containing calls with effects are
// evaluated with explicit forking for && and ||.
func (x *Exec) cond(st *State, fr *Frame, e ast.Expr, k func(*State, Term)) {
	e = ast.Unparen(e)
	if b, ok := e.(*ast.BinaryExpr); ok && (b.Op == token.LAND || b.Op == token.LOR) && x.hasEffect(b.Y) {
		x.cond(st, fr, b.X, func(s2 *State, l Term) {
			if b.Op == token.LAND {
				f := s2.clone()
				f.assume(tNot(l))
				k(f, tFalse)
				t := s2.clone()
				t.assume(l)
				x.cond(t, fr, b.Y, k)
			} else {
				t := s2.clone()
				t.assume(l)
				k(t, tTrue)
				f := s2.clone()
				f.assume(tNot(l))
				x.cond(f, fr, b.Y, k)
			}
		})
		return
	}
	if u, ok := e.(*ast.UnaryExpr); ok && u.Op == token.NOT && x.hasEffect(u.X) {
		x.cond(st, fr, u.X, func(s2 *State, c Term) { k(s2, tNot(c)) })
		return
	}
	if ce, ok := e.(*ast.CallExpr); ok && x.hasEffect(ce) {
		x.callK(st, fr, ce, func(s2 *State, res []Term) { k(s2, res[0]) })
		return
	}
	if b, ok := e.(*ast.BinaryExpr); ok && x.hasEffect(b) {
		// comparison whose operands contain effectful calls: evaluate in order
		x.exprK(st, fr, b.X, func(s2 *State, l Term) {
			x.exprK(s2, fr, b.Y, func(s3 *State, r Term) {
				k(s3, x.binop(s3, b, l, r))
			})
		})
		return
	}
	k(st, x.expr(st, fr, e))
}

// exprK evaluates an expression that may contain effectful calls.
func (x *Exec) exprK(st *State, fr *Frame, e ast.Expr, k func(*State, Term)) {
	e = ast.Unparen(e)
	if !x.hasEffect(e) {
		k(st, x.expr(st, fr, e))
		return
	}
	switch e := e.(type) {
	case *ast.CallExpr:
		x.callK(st, fr, e, func(s2 *State, res []Term) {
			if len(res) == 0 {
				k(s2, Term{})
				return
			}
			k(s2, res[0])
		})
	case *ast.UnaryExpr:
		if e.Op == token.ARROW {
			ch := x.expr(st, fr, e.X)
			x.chanRecv(st, fr, ch, e, func(s2 *State, v Term, ok Term) { k(s2, v) })
			return
		}
		x.exprK(st, fr, e.X, func(s2 *State, v Term) { k(s2, x.unop(s2, e, v)) })
	case *ast.BinaryExpr:
		x.cond(st, fr, e, k)
	case *ast.SelectorExpr:
		// field of the result of an effectful call, e.g. f().x
		x.exprK(st, fr, e.X, func(s2 *State, b Term) { k(s2, x.selectFrom(s2, fr, e, b)) })
	default:
		x.unsupported(e, "effectful sub-expression %T", e)
	}
}

// hasEffect: does evaluating e involve a call that changes state or must fork?
func (x *Exec) hasEffect(e ast.Expr) bool {
	found := false
	ast.Inspect(e, func(n ast.Node) bool {
		if found {
			return false
		}
		switch n := n.(type) {
		case *ast.FuncLit:
			return false
		case *ast.UnaryExpr:
			if n.Op == token.ARROW {
				found = true
			}
		case *ast.CallExpr:
			if !x.isPureCall(n) {
				found = true
			}
		}
		return true
	})
	return found
}

func (x *Exec) assign(st *State, fr *Frame, s *ast.AssignStmt) {
	if s.Tok != token.ASSIGN && s.Tok != token.DEFINE {
		// op=
		cur := x.expr(st, fr, s.Lhs[0])
		r := x.expr(st, fr, s.Rhs[0])
		var op token.Token
		switch s.Tok {
		case token.ADD_ASSIGN:
			op = token.ADD
		case token.SUB_ASSIGN:
			op = token.SUB
		case token.MUL_ASSIGN:
			op = token.MUL
		default:
			x.unsupported(s, "assignment operator %s", s.Tok)
			return
		}
		v := x.arith(st, op, cur, r, s, x.info.TypeOf(s.Lhs[0]))
		x.store(st, fr, s.Lhs[0], v)
		return
	}
	var vals []Term
	if u, ok := ast.Unparen(s.Rhs[0]).(*ast.UnaryExpr); ok && len(s.Rhs) == 1 && len(s.Lhs) == 2 && u.Op == token.ARROW {
		// v, ok := <-ch
		ch := x.expr(st, fr, u.X)
		got := false
		x.chanRecv(st, fr, ch, u, func(s2 *State, v Term, okT Term) {
			if !got {
				*st = *s2
				got = true
				okT.Ty = types.Typ[types.Bool]
				vals = []Term{v, okT}
			}
		})
		if !got {
			return
		}
	} else if len(s.Rhs) == 1 && len(s.Lhs) > 1 {
		vals = x.exprs(st, fr, s.Rhs[0])
		if len(vals) != len(s.Lhs) {
			x.unsupported(s, "assignment arity: %d values for %d targets", len(vals), len(s.Lhs))
			return
		}
	} else {
		for i, r := range s.Rhs {
			v := x.expr(st, fr, r)
			if i < len(s.Lhs) {
				if lt := x.info.TypeOf(s.Lhs[i]); lt != nil {
					v = x.convertTo(st, v, lt, r)
				}
			}
			vals = append(vals, v)
		}
	}
	if ta, ok := ast.Unparen(s.Rhs[0]).(*ast.TypeAssertExpr); ok && len(s.Rhs) == 1 && ta.Type != nil {
		// v, ok := e.(*T) on an owned value tree: v is a child borrowed from e, writes go back
		if id, ok := ast.Unparen(s.Lhs[0]).(*ast.Ident); ok && id.Name != "_" {
			if o := x.info.ObjectOf(id); o != nil && x.isValuePtrType(o.Type()) {
				x.borrow[o] = ta.X
			}
		}
	}
	for i, l := range s.Lhs {
		x.store(st, fr, l, vals[i])
	}
}

// store assigns to an lvalue.
func (x *Exec) store(st *State, fr *Frame, l ast.Expr, v Term) {
	l = ast.Unparen(l)
	switch l := l.(type) {
	case *ast.Ident:
		if l.Name == "_" {
			return
		}
		obj := x.info.ObjectOf(l)
		if obj == nil {
			x.unsupported(l, "unresolved identifier %s", l.Name)
			return
		}
		if v.Ty == nil {
			v.Ty = obj.Type()
		}
		if x.info.Defs[l] == obj && !x.sharedLoopVars[obj] {
			// a definition is a new variable: forget the cell of a previous instance
			delete(st.cells, obj)
		}
		x.setVar(st, obj, v)
	case *ast.SelectorExpr:
		x.storeField(st, fr, l, v)
	case *ast.IndexExpr:
		x.storeIndex(st, fr, l, v)
	case *ast.StarExpr:
		if loc, ok := x.matchUnsafe(st, fr, l); ok {
			x.unsafeStore(st, loc, v, l)
			return
		}
		p := x.expr(st, fr, l.X)
		if p.Loc != nil {
			x.unsafeStore(st, p.Loc, v, l)
			return
		}
		x.nilCheck(st, p, l)
		x.storeCell(st, p, v)
	default:
		x.unsupported(l, "assignment target %T", l)
	}
}

func (x *Exec) getVar(st *State, obj types.Object) Term {
	if c, ok := st.cells[obj]; ok {
		return x.loadCell(st, c, obj.Type())
	}
	if v, ok := st.vars[obj]; ok {
		return v
	}
	// package-level variables and not-yet-initialised captured variables: symbolic
	so := x.sortOf(obj.Type())
	name := "v_" + obj.Name()
	if obj.Pkg() != nil && obj.Parent() == obj.Pkg().Scope() {
		name = "g_" + obj.Pkg().Name() + "_" + obj.Name()
	}
	t := x.d.constant(sanitize(name), so)
	t.Ty = obj.Type()
	st.vars[obj] = t
	return t
}

// cellsForAddrTaken turns every variable of the state whose address is taken inside n into a
// heap cell.
func (x *Exec) cellsForAddrTaken(st *State, n ast.Node) {
	var objs []types.Object
	ast.Inspect(n, func(m ast.Node) bool {
		if u, ok := m.(*ast.UnaryExpr); ok && u.Op == token.AND {
			if id, ok := ast.Unparen(u.X).(*ast.Ident); ok {
				if o := x.info.ObjectOf(id); o != nil {
					objs = append(objs, o)
				}
			}
		}
		return true
	})
	for _, o := range objs {
		if _, isCell := st.cells[o]; isCell {
			continue
		}
		cur, ok := st.vars[o]
		if !ok {
			continue // declared inside the loop: a new variable (and cell) per iteration
		}
		r := x.alloc(st, "addr_"+o.Name(), types.NewPointer(o.Type()))
		x.storeCell(st, r, cur)
		st.cells[o] = r
	}
}

func (x *Exec) setVar(st *State, obj types.Object, v Term) {
	if v.Ty == nil {
		v.Ty = obj.Type()
	}
	if c, ok := st.cells[obj]; ok {
		x.storeCell(st, c, v)
		return
	}
	st.vars[obj] = v
}

// ---------------------------------------------------------------------------
// loops

type loopInfo struct {
	ord   int
	node  ast.Node
	names map[string]Term // hidden loop variables (idx, rest, seen) by contract name
}

func (x *Exec) loopContract(fr *Frame, n ast.Node) (*LoopContract, int) {
	ord := x.loopOrd[n]
	if fr.proc != nil {
		if lc, ok := fr.proc.Loops[ord]; ok {
			return lc, ord
		}
	}
	return nil, ord
}

// modifiedBy runs the loop body once in recording mode and returns the variables, cells
// and maps whose value may change in an iteration.
func (x *Exec) modifiedBy(st *State, run func(s *State, done func(*State))) (vars []types.Object, maps []string, ghosts []string) {
	x.dry++
	defer func() { x.dry-- }()
	base := st.clone()
	vset := map[types.Object]bool{}
	mset := map[string]bool{}
	gset := map[string]bool{}
	collect := func(e *State) {
		for o, v := range e.vars {
			if b, ok := base.vars[o]; ok && b.S != v.S {
				vset[o] = true
			}
		}
		for m, v := range e.maps {
			x.mapSorts[m] = v.Sort
			if b, ok := base.maps[m]; !ok || b.S != v.S {
				if ok || !strings.HasSuffix(v.S, "@0") {
					mset[m] = true
				}
			}
		}
		for g, v := range e.ghosts {
			if b, ok := base.ghosts[g]; ok && b.S != v.S {
				gset[g] = true
			}
		}
	}
	savedProblems := len(x.problems)
	run(base.clone(), collect)
	_ = savedProblems
	for o := range vset {
		vars = append(vars, o)
	}
	sort.Slice(vars, func(i, j int) bool { return vars[i].Pos() < vars[j].Pos() })
	maps = sortedKeys(mset)
	ghosts = sortedKeys(gset)
	return
}

func (x *Exec) havocLoopTargets(st *State, vars []types.Object, maps, ghosts []string, tag string) {
	for _, o := range vars {
		old := st.vars[o]
		nv := x.d.fresh(o.Name()+"_"+tag, old.Sort)
		nv.Ty = old.Ty
		st.vars[o] = nv
		x.assumeTypeInv(st, nv)
	}
	for _, m := range maps {
		old, ok := st.maps[m]
		if !ok {
			// first touched inside the loop: its initial value is the unconstrained map
			old = x.d.constant(sanitize(m)+"@0", x.mapSorts[m])
		}
		st.maps[m] = x.d.fresh(m+"_"+tag, old.Sort)
		if m == "Alloc" {
			// allocation only grows
			st.assume(mk("Bool", "(forall ((?r Ref)) (=> (select %s ?r) (select %s ?r)))", old.S, st.maps[m].S))
		}
	}
	for _, g := range ghosts {
		old := st.ghosts[g]
		st.ghosts[g] = x.d.fresh(g+"_"+tag, old.Sort)
	}
}

// genericLoop implements the cut-point treatment of DESIGN appendix B:
// invariant on entry; arbitrary iteration: assume invariant, run head+body, re-establish.
//
//	head(st, enter, exit): evaluates the loop condition / range step on a state and calls
//	  enter(st') to run the body or exit(st') to leave the loop
//	post(st, k): the per-iteration post statement
func (x *Exec) genericLoop(st *State, fr *Frame, node ast.Node, body []ast.Stmt, hidden func(*State) map[string]Term,
	head func(st *State, enter func(*State), exit func(*State)), post func(*State, func(*State)), k func(*State)) {

	// a variable declared before the loop whose address is taken inside it is one memory cell
	// for all iterations: give it its cell now (a cell created lazily inside the cut loop
	// body would be a fresh one in the arbitrary iteration, hiding aliasing across iterations)
	x.cellsForAddrTaken(st, node)
	lc, ord := x.loopContract(fr, node)
	tag := fmt.Sprintf("L%d", ord)
	lenv := func(s *State) *CEnv {
		env := fr.env(s)
		if hidden != nil {
			for n, t := range hidden(s) {
				env.names[n] = t
			}
		}
		return env
	}
	checkInv := func(s *State, kind string) {
		if lc == nil {
			return
		}
		for i, c := range lc.Inv {
			t, err := x.cevalSafe(lenv(s), c, "Bool")
			label := c.Label
			if label == "" {
				label = fmt.Sprintf("%d", i)
			}
			if err != nil {
				x.contractError(s, fmt.Sprintf("loop%d:%s:%s", ord, kind, label), err, node)
				continue
			}
			x.oblige(s, fmt.Sprintf("loop%d:%s", ord, kind), label, t, node, c.Src)
		}
	}
	decr := func(s *State) []Term {
		var out []Term
		if lc == nil {
			return nil
		}
		for _, c := range lc.Decr {
			t, err := x.cevalSafe(lenv(s), c, "Int")
			if err != nil {
				x.contractError(s, fmt.Sprintf("loop%d:decreases", ord), err, node)
				continue
			}
			out = append(out, t)
		}
		return out
	}

	// 1. what may an iteration modify?
	run := func(s *State, done func(*State)) {
		lfr := *fr
		lfr.brk = func(*State) {}
		lfr.cont = func(e *State) { post(e, done) }
		lfr.ret = func(e *State, _ []Term) {}
		head(s, func(b *State) {
			x.block(b, &lfr, body, func(e *State) { post(e, done) })
		}, func(*State) {})
	}
	vars, maps, ghosts := x.modifiedBy(st, run)
	if x.staleOrdinals && fr.parent == nil && x.dry == 0 {
		// loops were added or removed since the contract was written: "loop K" no longer says
		// which loop is meant, every written invariant clause is only a candidate for every loop
		lc = nil
	}
	if x.dry == 0 && x.opts["infer"] != "off" && (lc == nil || x.contractBroken(lc, lenv(st))) {
		// no usable invariant: try to infer one from the function's other invariants
		if inf := x.inferInvariant(st, fr, node, lc, lenv, run, func(s *State, round int) {
			x.havocLoopTargets(s, vars, maps, ghosts, fmt.Sprintf("%sI%d", tag, round))
		}); inf != nil {
			lc = inf
		}
	}

	// facts the engine derives itself for a plain counting loop (for i := A; i <= B; i++):
	// i == A + iter and the bound that follows from the guard; they are checked like written
	// invariants and let a contract speak about iter instead of a counter convention
	if ex := x.extraInv[node]; len(ex) > 0 && x.dry == 0 {
		merged := &LoopContract{}
		if lc != nil {
			merged.Inv = append(merged.Inv, lc.Inv...)
			merged.Decr = lc.Decr
		}
		for _, c := range ex {
			if _, err := x.cevalSafe(lenv(st), c, "Bool"); err == nil {
				merged.Inv = append(merged.Inv, c)
			}
		}
		lc = merged
	}

	// 2. invariant holds on entry
	checkInv(st, "inv-init")

	// 3. arbitrary iteration
	it := st.clone()
	x.havocLoopTargets(it, vars, maps, ghosts, tag)
	if lc != nil {
		for _, c := range lc.Inv {
			t, err := x.cevalSafe(lenv(it), c, "Bool")
			if err == nil {
				it.assume(t)
			}
		}
	}
	// progress condition (DESIGN 4.3): every iteration of an unbounded loop of a goroutine
	// body passes a point where cancellation is observed
	unbounded := false
	if fs, ok := node.(*ast.ForStmt); ok && x.inGoroutine {
		if fs.Cond == nil {
			unbounded = true
		} else if tv, ok := x.info.Types[fs.Cond]; ok && tv.Value != nil {
			unbounded = true
		}
	}
	if unbounded {
		it.ghosts["obsCancel"] = tFalse
		it.ghosts["iterProgress"] = tFalse
	}
	d0 := decr(it)
	stutterCheck := false
	if fs, ok := node.(*ast.ForStmt); ok && fs.Cond != nil && len(maps) == 0 && len(ghosts) == 0 && (lc == nil || len(lc.Decr) == 0) {
		if tv, ok := x.info.Types[fs.Cond]; !ok || tv.Value == nil {
			stutterCheck = true
		}
	}
	preserve := func(e *State) {
		if unbounded {
			oc, ok := e.ghosts["obsCancel"]
			if !ok {
				oc = tFalse
			}
			x.oblige(e, "progress", fmt.Sprintf("loop%d:observes-cancel", ord), oc, node, "every iteration of an unbounded loop observes cancellation (select with a ctx.Done arm)")
			ip, ok := e.ghosts["iterProgress"]
			if !ok {
				ip = tFalse
			}
			x.oblige(e, "progress", fmt.Sprintf("loop%d:no-busy-wait", ord), ip, node, "every iteration of an unbounded loop communicates or blocks somewhere (an iteration that falls through a default arm and does nothing else spins)")
		}
		checkInv(e, "inv-preserve")
		if stutterCheck {
			// a conditional loop over plain variables (no heap write, no channel operation, no
			// decreases clause) must change at least one of them in every iteration: an iteration
			// that leaves the state as it found it repeats forever
			var changed []Term
			for _, o := range vars {
				a, ok1 := it.vars[o]
				b, ok2 := e.vars[o]
				if ok1 && ok2 && a.Sort == b.Sort {
					changed = append(changed, tNot(tEq(a, b)))
				}
			}
			x.oblige(e, "progress", fmt.Sprintf("loop%d:state-changes", ord), tOr(changed...), node, "an iteration of a conditional loop changes at least one of the variables it works on (otherwise it never ends)")
		}
		d1 := decr(e)
		for i := range d0 {
			if i < len(d1) {
				x.oblige(e, fmt.Sprintf("loop%d:decreases", ord), fmt.Sprintf("%d", i),
					tAnd(tApp("Bool", "<", d1[i], d0[i]), tApp("Bool", ">=", d0[i], tInt(0))), node, lc.Decr[i].Src)
			}
		}
	}
	kOut := func(e *State) {
		if _, has := e.ghosts["iterProgress"]; has {
			e.ghosts["iterProgress"] = tTrue // a completed inner loop counts as progress of the outer one
		}
		k(e)
	}
	lfr := *fr
	lfr.brk = func(e *State) { kOut(e) }
	lfr.cont = func(e *State) { post(e, preserve) }
	head(it.clone(), func(b *State) {
		x.block(b, &lfr, body, func(e *State) { post(e, preserve) })
	}, func(e *State) { kOut(e) })
}

func (x *Exec) forStmt(st *State, fr *Frame, s *ast.ForStmt, k func(*State)) {
	start := func(st *State) {
		head := func(s0 *State, enter, exit func(*State)) {
			if s.Cond == nil {
				enter(s0)
				return
			}
			x.cond(s0, fr, s.Cond, func(s1 *State, c Term) {
				t := s1.clone()
				t.assume(c)
				enter(t)
				f := s1.clone()
				f.assume(tNot(c))
				exit(f)
			})
		}
		// hidden variable iter: the number of completed iterations
		ord := x.loopOrd[s]
		iterO := types.NewVar(s.Pos(), x.pkg.Types, fmt.Sprintf("iter#%d", ord), types.Typ[types.Int])
		st.vars[iterO] = tInt(0)
		// for i := 0; i < len(xs); i++ is the index form of `range xs`: an invariant written for
		// the range form (idx, rest, range) reads idx = iter, range = xs, rest = drop(iter, xs)
		var rangeOf *Term
		if be, ok := s.Cond.(*ast.BinaryExpr); ok && be.Op == token.LSS && x.dry == 0 {
			if ce, ok := ast.Unparen(be.Y).(*ast.CallExpr); ok && len(ce.Args) == 1 {
				if id, ok := ast.Unparen(ce.Fun).(*ast.Ident); ok && id.Name == "len" {
					if as, ok := s.Init.(*ast.AssignStmt); ok && len(as.Rhs) == 1 {
						if bl, ok := as.Rhs[0].(*ast.BasicLit); ok && bl.Value == "0" {
							if t := x.info.TypeOf(ce.Args[0]); t != nil {
								if _, isSlice := types.Unalias(t).Underlying().(*types.Slice); isSlice && !x.hasEffect(ce.Args[0]) {
									v := x.expr(st, fr, ce.Args[0])
									if si := x.d.sorts[v.Sort]; si != nil && si.Kind == "list" {
										rangeOf = &v
										for _, ln := range []string{"drop_nth", "drop_len"} {
											if !strings.Contains(","+x.opts["lemmas"]+",", ","+ln+",") {
												if x.opts["lemmas"] == "" {
													x.opts["lemmas"] = ln
												} else {
													x.opts["lemmas"] += "," + ln
												}
											}
										}
									}
								}
							}
						}
					}
				}
			}
		}
		hidden := func(s0 *State) map[string]Term {
			m := map[string]Term{"iter": s0.vars[iterO]}
			if rangeOf != nil {
				m["idx"] = s0.vars[iterO]
				m["range"] = *rangeOf
				m["rest"] = tApp(rangeOf.Sort, "drop_"+rangeOf.Sort, s0.vars[iterO], *rangeOf)
			}
			return m
		}
		post := func(e *State, k2 func(*State)) {
			e.vars[iterO] = tApp("Int", "+", e.vars[iterO], tInt(1))
			if s.Post != nil {
				x.stmt(e, fr, s.Post, k2)
			} else {
				k2(e)
			}
		}
		if x.dry == 0 {
			if x.extraInv == nil {
				x.extraInv = map[ast.Node][]Clause{}
			}
			x.extraInv[s] = x.countingLoopFacts(s)
		}
		x.genericLoop(st, fr, s, s.Body.List, hidden, head, post, k)
	}
	if s.Init != nil {
		if as, ok := s.Init.(*ast.AssignStmt); ok && as.Tok == token.DEFINE {
			x.predeclareLoopVars(st, s, as.Lhs...)
		}
		x.stmt(st, fr, s.Init, start)
	} else {
		start(st)
	}
}

// predeclareLoopVars: before Go 1.22 the variables declared by a for/range clause are one
// variable each for the whole loop; they exist (with their zero value) before the first
// iteration, so that an address taken in the body is the same cell in every iteration.
func (x *Exec) predeclareLoopVars(st *State, n ast.Node, es ...ast.Expr) {
	if x.perIterationLoopVars(n) {
		return
	}
	for _, e := range es {
		id, ok := e.(*ast.Ident)
		if !ok || id.Name == "_" {
			continue
		}
		o, ok := x.info.Defs[id].(*types.Var)
		if !ok {
			continue
		}
		if x.sharedLoopVars == nil {
			x.sharedLoopVars = map[types.Object]bool{}
		}
		x.sharedLoopVars[o] = true
		if _, has := st.vars[o]; !has {
			st.vars[o] = x.zero(o.Type())
		}
	}
}

func (x *Exec) rangeStmt(st *State, fr *Frame, s *ast.RangeStmt, k func(*State)) {
	if s.Tok == token.DEFINE {
		x.predeclareLoopVars(st, s, s.Key, s.Value)
	}
	xt := x.info.TypeOf(s.X)
	switch u := types.Unalias(xt).Underlying().(type) {
	case *types.Chan:
		ch := x.expr(st, fr, s.X)
		head := func(s0 *State, enter, exit func(*State)) {
			x.chanRecv(s0, fr, ch, s, func(s1 *State, v Term, ok Term) {
				t := s1.clone()
				t.assume(ok)
				if s.Key != nil {
					x.store(t, fr, s.Key, v)
				}
				enter(t)
				f := s1.clone()
				f.assume(tNot(ok))
				exit(f)
			})
		}
		x.genericLoop(st, fr, s, s.Body.List, nil, head, func(e *State, k2 func(*State)) { k2(e) }, k)
	case *types.Slice:
		_ = u
		lst := x.expr(st, fr, s.X)
		ord := x.loopOrd[s]
		// hidden loop variables: idx (iterations completed), rest (remaining elements)
		idxO := types.NewVar(s.Pos(), x.pkg.Types, fmt.Sprintf("idx#%d", ord), types.Typ[types.Int])
		restO := types.NewVar(s.Pos(), x.pkg.Types, fmt.Sprintf("rest#%d", ord), xt)
		st.vars[idxO] = tInt(0)
		lst.Ty = xt
		if asi := x.d.sorts[lst.Sort]; asi != nil && asi.Kind == "arrslice" {
			// array-backed slice: range is the index loop over the slice value taken at entry
			ln := tApp("Int", "len_"+lst.Sort, lst)
			hiddenA := func(s0 *State) map[string]Term {
				m := map[string]Term{"idx": s0.vars[idxO], "range": lst}
				if id, ok := s.Key.(*ast.Ident); ok && id.Name != "_" && s.Tok == token.DEFINE {
					m[id.Name] = s0.vars[idxO]
				}
				return m
			}
			headA := func(s0 *State, enter, exit func(*State)) {
				i := s0.vars[idxO]
				t := s0.clone()
				t.assume(tAnd(tApp("Bool", "<=", tInt(0), i), tApp("Bool", "<", i, ln)))
				if s.Key != nil {
					x.store(t, fr, s.Key, i)
				}
				if s.Value != nil {
					el := mk(asi.Elem, "(select (arr_%s %s) %s)", lst.Sort, lst.S, i.S)
					el.Ty = u.Elem()
					x.store(t, fr, s.Value, el)
				}
				enter(t)
				f := s0.clone()
				f.assume(tApp("Bool", ">=", i, ln))
				exit(f)
			}
			postA := func(e *State, k2 func(*State)) {
				e.vars[idxO] = tApp("Int", "+", e.vars[idxO], tInt(1))
				k2(e)
			}
			x.genericLoop(st, fr, s, s.Body.List, hiddenA, headA, postA, k)
			return
		}
		st.vars[restO] = lst
		si := x.d.sorts[lst.Sort]
		hidden := func(s0 *State) map[string]Term {
			m := map[string]Term{"idx": s0.vars[idxO], "rest": s0.vars[restO], "range": lst}
			// an invariant written for the index form of the loop (for i := 0; i < len(xs); i++)
			// names the counter: in the range form the key variable is that counter
			if id, ok := s.Key.(*ast.Ident); ok && id.Name != "_" && s.Tok == token.DEFINE {
				m[id.Name] = s0.vars[idxO]
			}
			return m
		}
		head := func(s0 *State, enter, exit func(*State)) {
			rest := s0.vars[restO]
			isNil := tApp("Bool", "(_ is nil_"+lst.Sort+")", rest)
			t := s0.clone()
			t.assume(tNot(isNil))
			if s.Key != nil {
				x.store(t, fr, s.Key, s0.vars[idxO])
			}
			if s.Value != nil {
				el := tApp(si.Elem, "hd_"+lst.Sort, rest)
				el.Ty = u.Elem()
				x.store(t, fr, s.Value, el)
			}
			enter(t)
			f := s0.clone()
			f.assume(isNil)
			exit(f)
		}
		post := func(e *State, k2 func(*State)) {
			rest := e.vars[restO]
			nr := tApp(lst.Sort, "tl_"+lst.Sort, rest)
			nr.Ty = xt
			e.vars[restO] = nr
			ni := tApp("Int", "+", e.vars[idxO], tInt(1))
			e.vars[idxO] = ni
			k2(e)
		}
		x.genericLoop(st, fr, s, s.Body.List, hidden, head, post, k)
	case *types.Basic:
		if u.Info()&types.IsInteger == 0 {
			x.unsupported(s, "range over %s", xt)
			return
		}
		// for i := range n (Go 1.22): i = 0 .. n-1, n evaluated once
		nT := x.expr(st, fr, s.X)
		ord := x.loopOrd[s]
		idxO := types.NewVar(s.Pos(), x.pkg.Types, fmt.Sprintf("idx#%d", ord), types.Typ[types.Int])
		st.vars[idxO] = tInt(0)
		hiddenN := func(s0 *State) map[string]Term {
			m := map[string]Term{"idx": s0.vars[idxO], "iter": s0.vars[idxO]}
			if id, ok := s.Key.(*ast.Ident); ok && id.Name != "_" && s.Tok == token.DEFINE {
				m[id.Name] = s0.vars[idxO]
			}
			return m
		}
		headN := func(s0 *State, enter, exit func(*State)) {
			i := s0.vars[idxO]
			t := s0.clone()
			t.assume(tAnd(tApp("Bool", "<=", tInt(0), i), tApp("Bool", "<", i, nT)))
			if s.Key != nil {
				x.store(t, fr, s.Key, i)
			}
			enter(t)
			f := s0.clone()
			f.assume(tApp("Bool", ">=", i, nT))
			exit(f)
		}
		postN := func(e *State, k2 func(*State)) {
			e.vars[idxO] = tApp("Int", "+", e.vars[idxO], tInt(1))
			k2(e)
		}
		// the facts the engine derives for the equivalent counting loop
		if x.dry == 0 {
			if x.extraInv == nil {
				x.extraInv = map[ast.Node][]Clause{}
			}
			var b strings.Builder
			printer.Fprint(&b, x.ld.Fset, s.X)
			for _, t := range []string{"0 <= iter", fmt.Sprintf("0 <= (%s) ==> iter <= (%s)", b.String(), b.String())} {
				if e, err := ParseCExpr(t); err == nil {
					x.extraInv[s] = append(x.extraInv[s], Clause{Src: "derived for the counting loop: " + t, Expr: e, Label: "counting"})
				}
			}
		}
		x.genericLoop(st, fr, s, s.Body.List, hiddenN, headN, postN, k)
	default:
		x.unsupported(s, "range over %s", xt)
	}
}

func (x *Exec) switchStmt(st *State, fr *Frame, s *ast.SwitchStmt, k func(*State)) {
	run := func(st *State) {
		var tag Term
		if s.Tag != nil {
			tag = x.expr(st, fr, s.Tag)
		}
		cur := st
		var deflt *ast.CaseClause
		for _, c := range s.Body.List {
			cc := c.(*ast.CaseClause)
			if cc.List == nil {
				deflt = cc
				continue
			}
			var conds []Term
			for _, e := range cc.List {
				v := x.expr(cur, fr, e)
				if s.Tag != nil {
					v = tEq(tag, v)
				}
				conds = append(conds, v)
			}
			c := tOr(conds...)
			t := cur.clone()
			t.assume(c)
			bfr := *fr
			bfr.brk = k
			x.block(t, &bfr, cc.Body, k)
			n := cur.clone()
			n.assume(tNot(c))
			cur = n
		}
		if deflt != nil {
			bfr := *fr
			bfr.brk = k
			x.block(cur, &bfr, deflt.Body, k)
		} else {
			k(cur)
		}
	}
	if s.Init != nil {
		x.stmt(st, fr, s.Init, run)
	} else {
		run(st)
	}
}

// ---------------------------------------------------------------------------
// exits

func (x *Exec) contractError(st *State, label string, err error, n ast.Node) {
	if x.dry > 0 {
		return
	}
	x.oblige(st, "contract", label, tFalse, n, "UNRESOLVABLE CONTRACT: "+err.Error())
}

func (x *Exec) doPanic(st *State, fr *Frame, ce *ast.CallExpr) {
	// an explicit panic is allowed exactly when a panics_when clause of the enclosing
	// procedure holds
	x.panicExit(st, fr, ce, "explicit", "panic(...)")
}

func (x *Exec) panicExit(st *State, fr *Frame, n ast.Node, label, src string) {
	var conds []Term
	top := x.topFrame(fr)
	if top.proc != nil {
		for _, c := range append(append([]Clause(nil), top.proc.PanicsWhen...), top.proc.MayPanic...) {
			env := top.env(st)
			env.st = top.entry
			env.old = top.entry
			t, err := x.cevalSafe(env, c, "Bool")
			if err != nil {
				x.contractError(st, "panics_when", err, n)
				continue
			}
			conds = append(conds, t)
		}
	}
	x.oblige(st, "panic-allowed", label, tOr(conds...), n, src)
}

// topFrame: the frame of the procedure under verification (inlined calls propagate their
// exits to it).
func (x *Exec) topFrame(fr *Frame) *Frame {
	for fr.parent != nil {
		fr = fr.parent
	}
	return fr
}

// countingLoopFacts: for `for i := A; i <= B; i++` (or `<`), with i not assigned in the body and
// A, B expressions the contract language can read, the clauses i == A + iter and the upper
// bound implied by the guard.
func (x *Exec) countingLoopFacts(s *ast.ForStmt) []Clause {
	as, ok := s.Init.(*ast.AssignStmt)
	if !ok || len(as.Lhs) != 1 || len(as.Rhs) != 1 {
		return nil
	}
	id, ok := as.Lhs[0].(*ast.Ident)
	if !ok {
		return nil
	}
	inc, ok := s.Post.(*ast.IncDecStmt)
	if !ok || inc.Tok != token.INC {
		return nil
	}
	if pid, ok := inc.X.(*ast.Ident); !ok || pid.Name != id.Name {
		return nil
	}
	be, ok := s.Cond.(*ast.BinaryExpr)
	if !ok || (be.Op != token.LEQ && be.Op != token.LSS) {
		return nil
	}
	if l, ok := be.X.(*ast.Ident); !ok || l.Name != id.Name {
		return nil
	}
	// the counter is not assigned (or address-taken) in the body; A and B do not mention it
	bad := false
	obj := x.info.ObjectOf(id)
	ast.Inspect(s.Body, func(n ast.Node) bool {
		switch n := n.(type) {
		case *ast.AssignStmt:
			for _, l := range n.Lhs {
				if li, ok := l.(*ast.Ident); ok && x.info.ObjectOf(li) == obj {
					bad = true
				}
			}
		case *ast.IncDecStmt:
			if li, ok := n.X.(*ast.Ident); ok && x.info.ObjectOf(li) == obj {
				bad = true
			}
		case *ast.UnaryExpr:
			if li, ok := n.X.(*ast.Ident); ok && n.Op == token.AND && x.info.ObjectOf(li) == obj {
				bad = true
			}
		}
		return true
	})
	if bad {
		return nil
	}
	src := func(e ast.Expr) string {
		var b strings.Builder
		printer.Fprint(&b, x.ld.Fset, e)
		return b.String()
	}
	a, bnd := src(as.Rhs[0]), src(be.Y)
	var texts []string
	texts = append(texts, fmt.Sprintf("%s == (%s) + iter && iter >= 0", id.Name, a))
	if be.Op == token.LEQ {
		texts = append(texts, fmt.Sprintf("(%s) <= (%s) + 1 ==> %s <= (%s) + 1", a, bnd, id.Name, bnd))
	} else {
		texts = append(texts, fmt.Sprintf("(%s) <= (%s) ==> %s <= (%s)", a, bnd, id.Name, bnd))
	}
	var out []Clause
	for _, t := range texts {
		e, err := ParseCExpr(t)
		if err != nil {
			return nil
		}
		out = append(out, Clause{Src: "derived for the counting loop: " + t, Expr: e, Label: "counting"})
	}
	return out
}

func firstOr(es []ast.Expr) ast.Expr {
	if len(es) == 0 {
		return nil
	}
	return es[0]
}

// neverRead: e is a local variable whose only uses are ++/-- statements and assignments to
// the blank identifier (a diagnostic counter): its value is never observed.
func (x *Exec) neverRead(e ast.Expr) bool {
	id, ok := ast.Unparen(e).(*ast.Ident)
	if !ok {
		return false
	}
	obj, ok := x.info.Uses[id].(*types.Var)
	if !ok || obj.IsField() || obj.Parent() == nil || obj.Parent() == obj.Pkg().Scope() {
		return false
	}
	if x.neverReadMemo == nil {
		x.neverReadMemo = map[*types.Var]bool{}
	}
	if r, ok := x.neverReadMemo[obj]; ok {
		return r
	}
	res := false
	for _, f := range x.pkg.Files {
		if f.Pos() <= obj.Pos() && obj.Pos() <= f.End() {
			res = true
			allowed := map[*ast.Ident]bool{}
			ast.Inspect(f, func(n ast.Node) bool {
				switch s := n.(type) {
				case *ast.IncDecStmt:
					if i, ok := ast.Unparen(s.X).(*ast.Ident); ok {
						allowed[i] = true
					}
				case *ast.AssignStmt:
					blank := true
					for _, l := range s.Lhs {
						if i, ok := l.(*ast.Ident); !ok || i.Name != "_" {
							blank = false
						}
					}
					if blank {
						for _, r := range s.Rhs {
							if i, ok := ast.Unparen(r).(*ast.Ident); ok {
								allowed[i] = true
							}
						}
					}
				}
				return true
			})
			ast.Inspect(f, func(n ast.Node) bool {
				if i, ok := n.(*ast.Ident); ok && x.info.Uses[i] == obj && !allowed[i] {
					res = false
				}
				return true
			})
		}
	}
	x.neverReadMemo[obj] = res
	return res
}
