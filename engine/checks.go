package main

import (
	"go/build/constraint"
	"path/filepath"
	"strings"
	"go/token"
	"fmt"
	"os"
	"go/ast"
	"go/types"
)

// Side conditions of the mathematical-sequence model of slices (DESIGN section 3): a slice
// is a value as long as no write can be observed through an alias. Writing into (or
// appending in place to) a slice that is not provably fresh in this function is reported.

// freshSlice: is the expression a slice no one else can hold (literal, make, append to a
// fresh slice, or a local that was only ever assigned such values)?
func (x *Exec) freshSlice(e ast.Expr, depth int) bool {
	return x.freshSliceV(e, depth, map[*types.Var]bool{})
}

func (x *Exec) freshSliceV(e ast.Expr, depth int, visiting map[*types.Var]bool) bool {
	if depth > 6 {
		return false
	}
	switch e := ast.Unparen(e).(type) {
	case *ast.CompositeLit:
		return true
	case *ast.CallExpr:
		if id, ok := ast.Unparen(e.Fun).(*ast.Ident); ok {
			if b, ok := x.isBuiltin(id); ok {
				switch b {
				case "make":
					return true
				case "append":
					return x.freshSliceV(e.Args[0], depth+1, visiting)
				}
			}
		}
		return false
	case *ast.Ident:
		obj := x.info.ObjectOf(e)
		v, ok := obj.(*types.Var)
		if !ok {
			return false
		}
		if x.opts["slices"] == "owned" {
			return true
		}
		if visiting[v] {
			return true // s = append(s, ...) keeps a fresh slice fresh
		}
		rhs, ok := x.localAssigns[v]
		if os.Getenv("GOVC_DEBUG") != "" {
			fmt.Fprintf(os.Stderr, "freshSlice ident %s: assigns=%d ok=%v nmaps=%d\n", v.Name(), len(rhs), ok, len(x.localAssigns))
		}
		if !ok || len(rhs) == 0 {
			return false
		}
		visiting[v] = true
		defer delete(visiting, v)
		for _, r := range rhs {
			if r == nil || !x.freshSliceV(r, depth+1, visiting) {
				return false
			}
		}
		return true
	case *ast.SliceExpr:
		return false
	}
	return false
}

func (x *Exec) appendCheck(st *State, fr *Frame, ce *ast.CallExpr) {
	if x.opts["slices"] == "owned" {
		x.assumed["slices passed to "+x.unit+" are owned linearly by it (append in place is not observable)"] = true
		return
	}
	ok := x.freshSlice(ce.Args[0], 0)
	x.oblige(st, "model", "append-to-fresh-slice", boolT(ok), ce, "append writes into the backing array of its first argument: only a fresh slice may be extended (aliasing is outside the sequence model)")
}

func (x *Exec) sliceStoreCheck(st *State, fr *Frame, l *ast.IndexExpr) {
	if x.opts["slices"] == "owned" {
		return
	}
	ok := x.freshSlice(l.X, 0)
	x.oblige(st, "model", "store-to-fresh-slice", boolT(ok), l, "element store into a slice that may be shared (aliasing is outside the sequence model)")
}

// collectLocalAssigns records, per local variable, the expressions assigned to it.
func (x *Exec) collectLocalAssigns(body ast.Node) {
	if x.localAssigns == nil {
		x.localAssigns = map[*types.Var][]ast.Expr{}
	}
	if x.assignsSeen == nil {
		x.assignsSeen = map[ast.Node]bool{}
	}
	if x.assignsSeen[body] {
		return
	}
	x.assignsSeen[body] = true
	if x.assignNodes == nil {
		x.assignNodes = map[*types.Var][]ast.Node{}
	}
	noteAssign := func(e ast.Expr, at ast.Node) {
		if id, ok := ast.Unparen(e).(*ast.Ident); ok {
			if x.info.Defs[id] != nil {
				return // the declaration itself
			}
			if v, ok := x.info.Uses[id].(*types.Var); ok {
				x.assignNodes[v] = append(x.assignNodes[v], at)
			}
		}
	}
	ast.Inspect(body, func(n ast.Node) bool {
		switch n := n.(type) {
		case *ast.IncDecStmt:
			noteAssign(n.X, n)
		case *ast.RangeStmt:
			if n.Tok == token.ASSIGN {
				if n.Key != nil {
					noteAssign(n.Key, n)
				}
				if n.Value != nil {
					noteAssign(n.Value, n)
				}
			}
		}
		switch n := n.(type) {
		case *ast.AssignStmt:
			for _, l := range n.Lhs {
				noteAssign(l, n)
			}
			for i, l := range n.Lhs {
				id, ok := l.(*ast.Ident)
				if !ok {
					continue
				}
				v, ok := x.info.ObjectOf(id).(*types.Var)
				if !ok {
					continue
				}
				if len(n.Rhs) == len(n.Lhs) {
					x.localAssigns[v] = append(x.localAssigns[v], n.Rhs[i])
				} else {
					x.localAssigns[v] = append(x.localAssigns[v], nil)
				}
			}
		case *ast.ValueSpec:
			for i, id := range n.Names {
				v, ok := x.info.ObjectOf(id).(*types.Var)
				if !ok {
					continue
				}
				if i < len(n.Values) {
					x.localAssigns[v] = append(x.localAssigns[v], n.Values[i])
				}
			}
		case *ast.RangeStmt:
			for _, e := range []ast.Expr{n.Key, n.Value} {
				if id, ok := e.(*ast.Ident); ok {
					if v, ok := x.info.ObjectOf(id).(*types.Var); ok {
						x.localAssigns[v] = append(x.localAssigns[v], nil)
					}
				}
			}
		}
		return true
	})
}

// perIterationLoopVars: does the file containing n have Go 1.22 loop-variable semantics (a new
// variable per iteration)? The language version of a file is the go directive of its module,
// lowered by a //go:build go1.N constraint of the file itself.
func (x *Exec) perIterationLoopVars(n ast.Node) bool {
	f := x.ld.Fset.File(n.Pos())
	if f == nil {
		return true
	}
	name := f.Name()
	x.ld.langMu.Lock()
	defer x.ld.langMu.Unlock()
	if v, ok := x.ld.langOK[name]; ok {
		return v
	}
	major, minor := 1, 22
	// module go directive
	dir := filepath.Dir(name)
	for i := 0; i < 8 && dir != "/" && dir != "."; i++ {
		if b, err := os.ReadFile(filepath.Join(dir, "go.mod")); err == nil {
			for _, ln := range strings.Split(string(b), "\n") {
				if strings.HasPrefix(ln, "go ") {
					fmt.Sscanf(strings.TrimPrefix(ln, "go "), "%d.%d", &major, &minor)
				}
			}
			break
		}
		dir = filepath.Dir(dir)
	}
	// file-level constraint
	if b, err := os.ReadFile(name); err == nil {
		for _, ln := range strings.Split(string(b), "\n") {
			t := strings.TrimSpace(ln)
			if strings.HasPrefix(t, "package ") {
				break
			}
			if constraint.IsGoBuild(t) {
				if e, err := constraint.Parse(t); err == nil {
					if gv := constraint.GoVersion(e); gv != "" {
						var a, c int
						if n, _ := fmt.Sscanf(gv, "go%d.%d", &a, &c); n == 2 {
							if a < major || (a == major && c < minor) {
								major, minor = a, c
							}
						}
					}
				}
			}
		}
	}
	ok := major > 1 || minor >= 22
	if x.ld.langOK == nil {
		x.ld.langOK = map[string]bool{}
	}
	x.ld.langOK[name] = ok
	return ok
}
