package main

import (
	"crypto/sha256"
	"fmt"
	"go/ast"
	"go/types"
	"sort"
	"strings"
)

func sha(b []byte) string { return fmt.Sprintf("%x", sha256.Sum256(b))[:16] }

// PC is a persistent list of assumptions (path condition).
type PC struct {
	t    Term
	prev *PC
	n    int
}

func (p *PC) add(t Term) *PC {
	if t.S == "true" {
		return p
	}
	n := 1
	if p != nil {
		n = p.n + 1
	}
	return &PC{t, p, n}
}

func (p *PC) list() []Term {
	var out []Term
	for q := p; q != nil; q = q.prev {
		out = append(out, q.t)
	}
	for i, j := 0, len(out)-1; i < j; i, j = i+1, j-1 {
		out[i], out[j] = out[j], out[i]
	}
	return out
}

type deferred struct {
	call *ast.CallExpr
	args []Term // evaluated at defer time (non-closure calls)
	recv Term
}

// State is the symbolic state on one path.
type State struct {
	vars   map[types.Object]Term
	cells  map[types.Object]Term // address-taken locals: Ref of their cell
	maps   map[string]Term       // heap and ghost maps by name
	ghosts map[string]Term       // named ghost scalars
	pc     *PC
	guard  []Term // expression-level guards (short-circuit operands)
	defers []deferred
	dead   bool
}

func newState() *State {
	return &State{vars: map[types.Object]Term{}, cells: map[types.Object]Term{}, maps: map[string]Term{}, ghosts: map[string]Term{}}
}

func (s *State) clone() *State {
	c := &State{vars: make(map[types.Object]Term, len(s.vars)), cells: make(map[types.Object]Term, len(s.cells)),
		maps: make(map[string]Term, len(s.maps)), ghosts: make(map[string]Term, len(s.ghosts)), pc: s.pc}
	for k, v := range s.vars {
		c.vars[k] = v
	}
	for k, v := range s.cells {
		c.cells[k] = v
	}
	for k, v := range s.maps {
		c.maps[k] = v
	}
	for k, v := range s.ghosts {
		c.ghosts[k] = v
	}
	c.guard = append([]Term(nil), s.guard...)
	c.defers = append([]deferred(nil), s.defers...)
	return c
}

func (s *State) assume(t Term) {
	if len(s.guard) > 0 {
		t = tImp(tAnd(s.guard...), t)
	}
	s.pc = s.pc.add(t)
}

// ---------------------------------------------------------------------------
// Go types -> SMT sorts

func typeKey(t types.Type) string {
	return types.TypeString(t, func(p *types.Package) string { return p.Name() })
}

func namedOf(t types.Type) *types.Named {
	t = types.Unalias(t)
	if n, ok := t.(*types.Named); ok {
		return n
	}
	return nil
}

func qualName(n *types.Named) string {
	o := n.Origin().Obj()
	if o.Pkg() == nil {
		return o.Name()
	}
	return o.Pkg().Path() + "." + o.Name()
}

func (x *Exec) sortOf(t types.Type) string {
	t = types.Unalias(t)
	switch t := t.(type) {
	case *types.Basic:
		switch {
		case t.Info()&types.IsBoolean != 0:
			return "Bool"
		case t.Info()&types.IsInteger != 0:
			return "Int"
		case t.Info()&types.IsString != 0:
			return x.strSort()
		case t.Info()&types.IsFloat != 0:
			return x.d.Uninterp("Float")
		case t.Kind() == types.UnsafePointer:
			return "Int"
		case t.Kind() == types.UntypedNil:
			return "Ref"
		}
	case *types.TypeParam:
		// type parameters of an inlined callee are bound to the sorts of its type arguments
		// (by object identity: names of different functions' parameters may coincide)
		if s, ok := x.tenvObj[t]; ok {
			return s
		}
		// a type parameter whose core type is a map is modelled as that map
		if it, ok := t.Constraint().Underlying().(*types.Interface); ok && it.NumEmbeddeds() == 1 {
			if u, ok := it.EmbeddedType(0).(*types.Union); ok && u.Len() == 1 {
				if m, ok := u.Term(0).Type().Underlying().(*types.Map); ok {
					return x.sortOf(m)
				}
			}
		}
		return x.d.Uninterp("U_" + t.Obj().Name())
	case *types.Pointer:
		if n := namedOf(t.Elem()); n != nil {
			if adt, ok := x.adts[qualName(n)]; ok {
				return x.adtSort(n, adt)
			}
			if so, ok := x.valueTreeSort(t); ok {
				return so
			}
		}
		return "Ref"
	case *types.Slice:
		if x.arraySlices {
			return x.d.ArrSliceOf(x.sortOf(t.Elem()))
		}
		return x.d.ListOf(x.sortOf(t.Elem()))
	case *types.Array:
		return x.d.ListOf(x.sortOf(t.Elem()))
	case *types.Chan:
		return "Ref"
	case *types.Map:
		return x.d.ArrayOf(x.sortOf(t.Key()), x.sortOf(t.Elem()))
	case *types.Signature:
		return x.fnSort(t)
	case *types.Interface:
		return "Ref"
	case *types.Struct:
		return x.structSort("anon", t, nil)
	case *types.Tuple:
		if t.Len() == 1 {
			return x.sortOf(t.At(0).Type())
		}
	case *types.Named:
		qn := qualName(t)
		switch qn {
		case "error":
			return x.errSort()
		case "context.Context", "sync.WaitGroup", "sync.Pool", "math/rand.Source":
			return "Ref"
		case "reflect.Type":
			return x.reflectSort()
		case "reflect.StructTag":
			x.reflectSort()
			return "RTag"
		case "reflect.StructField":
			x.reflectSort()
			return sfSort
		case "time.Duration", "reflect.Kind":
			return "Int"
		case "time.Time":
			return x.d.Uninterp("Time")
		case "time.Timer":
			return x.d.Uninterp("Timer")
		case "math/rand.Rand":
			return x.d.Uninterp("Rand")
		}
		if so, ok := x.valueTreeSort(t); ok {
			return so
		}
		switch u := t.Underlying().(type) {
		case *types.Struct:
			return x.structSort(qn, u, t)
		case *types.Interface:
			return "Ref"
		default:
			return x.sortOf(u)
		}
	}
	x.unsupported(nil, "type %s", t)
	return "Ref"
}

func (x *Exec) strSort() string {
	s := x.d.Uninterp("Str")
	x.d.decl("str:order", `(declare-fun str_lt (Str Str) Bool)
(assert (forall ((a Str)) (not (str_lt a a))))
(assert (forall ((a Str) (b Str) (c Str)) (=> (and (str_lt a b) (str_lt b c)) (str_lt a c))))
(assert (forall ((a Str) (b Str)) (or (str_lt a b) (= a b) (str_lt b a))))
(declare-fun str_empty () Str)
(declare-fun str_cat (Str Str) Str)`)
	return s
}

func (x *Exec) errSort() string {
	s := x.d.Uninterp("Err")
	x.d.decl("err:nil", "(declare-fun err_nil () Err)")
	return s
}

func (x *Exec) fnSort(sig *types.Signature) string {
	var args, rets []string
	for i := 0; i < sig.Params().Len(); i++ {
		args = append(args, x.sortOf(sig.Params().At(i).Type()))
	}
	for i := 0; i < sig.Results().Len(); i++ {
		rets = append(rets, x.sortOf(sig.Results().At(i).Type()))
	}
	return x.d.FnOf(args, rets)
}

func (x *Exec) structSort(qn string, u *types.Struct, named *types.Named) string {
	var fields, fsorts []string
	for i := 0; i < u.NumFields(); i++ {
		f := u.Field(i)
		fields = append(fields, f.Name())
		fsorts = append(fsorts, x.sortOf(f.Type()))
	}
	name := qn
	if named != nil && named.TypeArgs() != nil {
		for i := 0; i < named.TypeArgs().Len(); i++ {
			name += "_" + x.sortOf(named.TypeArgs().At(i))
		}
	} else if named == nil {
		name = "anon" + strings.Join(fields, "_") + strings.Join(fsorts, "_")
	}
	var gt types.Type = u
	if named != nil {
		gt = named
	}
	return x.d.StructOf(name, fields, fsorts, gt)
}

// ADT model (DESIGN section 3, memory abstraction 2): a pointer to an immutable cell
// type is an algebraic value.
type adtSpec struct {
	Kind string // "list"
	Head string
	Tail string
}

func (x *Exec) adtSort(n *types.Named, a adtSpec) string {
	st := n.Underlying().(*types.Struct)
	for i := 0; i < st.NumFields(); i++ {
		if st.Field(i).Name() == a.Head {
			return x.d.ListOf(x.sortOf(st.Field(i).Type()))
		}
	}
	x.unsupported(nil, "adt %s has no field %s", n, a.Head)
	return "Ref"
}

// zero value of a type
func (x *Exec) zero(t types.Type) Term {
	s := x.sortOf(t)
	r := x.zeroOfSort(s, t)
	r.Ty = t
	return r
}

func (x *Exec) zeroOfSort(s string, t types.Type) Term {
	switch s {
	case "Bool":
		return tFalse
	case "Int":
		return tInt(0)
	case "Ref":
		return Term{S: "null", Sort: "Ref"}
	case "Str":
		return Term{S: "str_empty", Sort: "Str"}
	case "Err":
		return Term{S: "err_nil", Sort: "Err"}
	}
	if si := x.d.sorts[s]; si != nil {
		switch si.Kind {
		case "list":
			return Term{S: "nil_" + s, Sort: s}
		case "arrslice":
			ze := x.zeroOfSort(si.Elem, nil)
			return mk(s, "(mk_%s ((as const (Array Int %s)) %s) 0)", s, si.Elem, ze.S)
		case "array":
			ze := x.zeroOfSort(si.Elem, nil)
			return mk(s, "((as const %s) %s)", s, ze.S)
		case "node":
			return Term{S: "n_nil_" + s, Sort: s}
		case "trace":
			return Term{S: "emp_" + s, Sort: s}
		case "fn":
			return Term{S: "nil_" + s, Sort: s}
		case "struct":
			var args []Term
			var st *types.Struct
			if si.Go != nil {
				st, _ = si.Go.Underlying().(*types.Struct)
			}
			for i, fs := range si.FSorts {
				var ft types.Type
				if st != nil {
					ft = st.Field(i).Type()
				}
				args = append(args, x.zeroOfSort(fs, ft))
			}
			return tApp(s, si.Ctor, args...)
		case "uninterp":
			c := x.d.constant("zero_"+s, s)
			return c
		}
	}
	return x.d.constant("zero_"+sanitize(s), s)
}

func sortedKeys[V any](m map[string]V) []string {
	ks := make([]string, 0, len(m))
	for k := range m {
		ks = append(ks, k)
	}
	sort.Strings(ks)
	return ks
}

var _ = ast.NewIdent
