package main

import (
	"fmt"
	"go/ast"
	"os"
	"regexp"
	"sort"
	"strings"
)

// Fallback invariant inference (DESIGN section 17): a loop that has no usable invariant of its
// own - it was moved into a helper, a variable named by its invariant was renamed, the loop
// ordinals of the function shifted - would make every obligation after it fail although the
// code is right. For such a loop, and only for such a loop, the conjuncts of the loop
// invariants written for the enclosing function are tried as candidates (also with an
// unknown name replaced by each variable in scope), and the largest subset that holds on
// entry and is preserved by the body is computed by the Houdini iteration, every step being
// an SMT query. The result is then used exactly like a written invariant: it is checked
// again by the ordinary inv-init / inv-preserve obligations. Nothing is assumed.

var unknownNameRE = regexp.MustCompile(`unknown name "([^"]+)"`)

func splitConj(e CExpr, out *[]CExpr) {
	if b, ok := e.(CBin); ok && b.Op == "&&" {
		splitConj(b.L, out)
		splitConj(b.R, out)
		return
	}
	*out = append(*out, e)
}

// proveNow discharges one goal synchronously (short time limit).
func (x *Exec) proveNow(st *State, goal Term) bool {
	if goal.S == "true" {
		return true
	}
	if x.scratch == "" {
		d, err := os.MkdirTemp("", "govc-infer-")
		if err != nil {
			return false
		}
		x.scratch = d
	}
	if len(st.guard) > 0 {
		goal = tImp(tAnd(st.guard...), goal)
	}
	x.inferQueries++
	// the opted-in library lemmas (each is proved separately at the end of the unit) are
	// available to these queries as they are to the ordinary obligations
	pre := x.d.Prelude()
	for _, ln := range splitList(x.opts["lemmas"]) {
		for _, t := range x.d.lemmaTexts(ln) {
			pre += "(assert " + t + ")\n"
		}
	}
	o := &Oblig{Name: "infer", Kind: "infer", Assume: st.pc.list(), Goal: goal, Prelude: pre}
	discharge(o, x.scratch, x.inferQueries, 3000, false)
	return o.Status == "proved"
}

func (x *Exec) contractBroken(lc *LoopContract, env *CEnv) bool {
	for _, c := range lc.Inv {
		if _, err := x.cevalSafe(env, c, "Bool"); err != nil {
			return true
		}
	}
	return false
}

// candidateClauses: conjuncts of every loop invariant written for the enclosing unit.
func (x *Exec) candidateClauses(fr *Frame, own *LoopContract) []Clause {
	var procs []*ProcContract
	seen := map[*ProcContract]bool{}
	var add func(p *ProcContract)
	add = func(p *ProcContract) {
		if p == nil || seen[p] {
			return
		}
		seen[p] = true
		procs = append(procs, p)
		add(p.Parent)
		for _, k := range sortedKeys(p.Subs) {
			add(p.Subs[k])
		}
	}
	for f := fr; f != nil; f = f.parent {
		add(f.proc)
	}
	var out []Clause
	have := map[string]bool{}
	isOwn := false
	push := func(c Clause) {
		var parts []CExpr
		splitConj(c.Expr, &parts)
		for _, p := range parts {
			src := fmt.Sprint(p)
			if have[src] {
				continue
			}
			have[src] = true
			out = append(out, Clause{Src: "inferred from: " + c.Src, Expr: p, File: c.File, Line: c.Line, Label: c.Label, Own: isOwn})
		}
	}
	if own != nil {
		isOwn = true
		for _, c := range own.Inv {
			push(c)
		}
		isOwn = false
	}
	for _, p := range procs {
		ords := make([]int, 0, len(p.Loops))
		for o := range p.Loops {
			ords = append(ords, o)
		}
		sort.Ints(ords)
		for _, o := range ords {
			for _, c := range p.Loops[o].Inv {
				push(c)
			}
		}
	}
	return out
}

// repairNames: for a clause naming something that is not in scope, the variants with that
// name replaced by each program variable of the state.
func (x *Exec) repairNames(env *CEnv, c Clause, st *State) []Clause {
	_, err := x.cevalSafe(env, c, "Bool")
	if err == nil {
		return []Clause{c}
	}
	m := unknownNameRE.FindStringSubmatch(err.Error())
	if m == nil {
		return nil
	}
	bad := m[1]
	if c.Own {
		if x.unknownSeen == nil {
			x.unknownSeen = map[string]bool{}
		}
		x.unknownSeen[bad] = true
	}
	names := map[string]bool{}
	for o := range st.vars {
		if o.Name() != "" && o.Name() != "_" && !strings.Contains(o.Name(), "#") {
			names[o.Name()] = true
		}
	}
	for o := range st.cells {
		names[o.Name()] = true
	}
	re := regexp.MustCompile(`\b` + regexp.QuoteMeta(bad) + `\b`)
	src := strings.TrimPrefix(c.Src, "inferred from: ")
	var out []Clause
	for _, n := range sortedKeys(names) {
		if n == bad {
			continue
		}
		ns := re.ReplaceAllString(src, n)
		e, perr := ParseCExpr(ns)
		if perr != nil {
			continue
		}
		var parts []CExpr
		splitConj(e, &parts)
		for _, p := range parts {
			nc := Clause{Src: "inferred from: " + ns, Expr: p, File: c.File, Line: c.Line}
			if _, err := x.cevalSafe(env, nc, "Bool"); err == nil {
				out = append(out, nc)
			}
		}
		if len(out) > 40 {
			break
		}
	}
	return out
}

// inferInvariant: Houdini over the candidates.
func (x *Exec) inferInvariant(st *State, fr *Frame, node ast.Node, own *LoopContract, lenv func(*State) *CEnv,
	run func(s *State, done func(*State)), havoc func(*State, int)) *LoopContract {

	var cands []Clause
	have := map[string]bool{}
	for _, c := range x.candidateClauses(fr, own) {
		for _, r := range x.repairNames(lenv(st), c, st) {
			k := fmt.Sprint(r.Expr)
			if !have[k] {
				have[k] = true
				cands = append(cands, r)
			}
		}
	}
	if len(cands) > 60 {
		cands = cands[:60]
	}
	// initiation
	var cur []Clause
	for _, c := range cands {
		t, err := x.cevalSafe(lenv(st), c, "Bool")
		if err == nil && x.proveNow(st, t) {
			cur = append(cur, c)
		}
	}
	// consecution
	for round := 0; round < 6 && len(cur) > 0; round++ {
		it := st.clone()
		havoc(it, round)
		for _, c := range cur {
			if t, err := x.cevalSafe(lenv(it), c, "Bool"); err == nil {
				it.assume(t)
			}
		}
		var ends []*State
		x.dry++
		run(it, func(e *State) { ends = append(ends, e) })
		x.dry--
		var keep []Clause
		for _, c := range cur {
			ok := true
			for _, e := range ends {
				if e.dead {
					continue
				}
				t, err := x.cevalSafe(lenv(e), c, "Bool")
				if err != nil || !x.proveNow(e, t) {
					ok = false
					break
				}
			}
			if ok {
				keep = append(keep, c)
			}
		}
		if len(keep) == len(cur) {
			break
		}
		cur = keep
	}
	if len(cur) == 0 {
		return nil
	}
	var srcs []string
	for _, c := range cur {
		srcs = append(srcs, fmt.Sprint(c.Expr))
	}
	x.assumed[fmt.Sprintf("%s: the loop at %s has no usable invariant of its own; %d of %d candidate clauses taken from the function's other loop invariants were found inductive (Houdini) and are checked as its invariant", x.unit, x.pos(node), len(cur), len(cands))] = true
	return &LoopContract{Inv: cur}
}
