package main

import (
	"go/ast"
	"go/types"
)

// Assumed contracts of library functions (DESIGN section 9). Each model that is used is
// recorded in the evidence as part of the trusted base.
type libModel struct {
	pure bool
	note string
	run  func(x *Exec, st *State, fr *Frame, ce *ast.CallExpr, recv Term, args []Term, k func(*State, []Term))
}

var libModels map[string]libModel

func (x *Exec) trust(note string) { x.assumed[note] = true }

func init() {
	noop := func(note string) libModel {
		return libModel{pure: true, note: note, run: func(x *Exec, st *State, fr *Frame, ce *ast.CallExpr, recv Term, args []Term, k func(*State, []Term)) {
			x.trust(note)
			var res []Term
			if t := x.info.TypeOf(ce); t != nil {
				if tu, ok := t.(*types.Tuple); ok {
					for i := 0; i < tu.Len(); i++ {
						r := x.d.fresh("lib", x.sortOf(tu.At(i).Type()))
						r.Ty = tu.At(i).Type()
						res = append(res, r)
					}
				} else {
					r := x.d.fresh("lib", x.sortOf(t))
					r.Ty = t
					res = append(res, r)
				}
			}
			k(st, res)
		}}
	}
	libModels = map[string]libModel{
		"log/slog.Error":       noop("log/slog.Error is dropped (logging)"),
		"fmt.Sprintf":          noop("fmt.Sprintf yields an opaque string"),
		"time.Now":             noop("time.Now / UnixNano yield an arbitrary integer (seed of the random source)"),
		"(time.Time).UnixNano": noop("time.Now / UnixNano yield an arbitrary integer (seed of the random source)"),
		"time.Since":           noop("time.Since / time.Until / Time.Sub yield an arbitrary duration (nothing is assumed about elapsed time)"),
		"time.Until":           noop("time.Since / time.Until / Time.Sub yield an arbitrary duration (nothing is assumed about elapsed time)"),
		"(time.Time).Sub":      noop("time.Since / time.Until / Time.Sub yield an arbitrary duration (nothing is assumed about elapsed time)"),
		"(context.Context).Err": noop("ctx.Err() yields an arbitrary error value (whether the context is cancelled at that instant is a demonic choice)"),
		"errors.Is":            noop("errors.Is / errors.As yield an arbitrary boolean (the classification of an error value is not modelled)"),
		"errors.As":            noop("errors.Is / errors.As yield an arbitrary boolean (the classification of an error value is not modelled)"),
		"math/rand.NewSource":  noop("math/rand.NewSource / rand.New yield an opaque source of random numbers"),
		"math/rand.New": {run: func(x *Exec, st *State, fr *Frame, ce *ast.CallExpr, recv Term, args []Term, k func(*State, []Term)) {
			x.trust("math/rand.NewSource / rand.New yield an opaque, non-nil source of random numbers")
			r := x.d.fresh("rand", "Ref")
			st.assume(tNot(tEq(r, nullRef)))
			r.Ty = x.info.TypeOf(ce)
			k(st, []Term{r})
		}},
		"(math/rand.Source).Int63": {run: func(x *Exec, st *State, fr *Frame, ce *ast.CallExpr, recv Term, args []Term, k func(*State, []Term)) {
			x.trust("rand.Source.Int63 returns an arbitrary integer in [0, 2^63) (any value: nothing is assumed about the distribution)")
			x.nilCheck(st, recv, ce)
			r := x.d.fresh("int63", "Int")
			st.assume(tApp("Bool", "<=", tInt(0), r))
			r.Ty = types.Typ[types.Int64]
			k(st, []Term{r})
		}},
		"fmt.Errorf": {pure: true, run: func(x *Exec, st *State, fr *Frame, ce *ast.CallExpr, recv Term, args []Term, k func(*State, []Term)) {
			x.trust("fmt.Errorf yields an opaque non-nil error")
			e := x.d.fresh("errval", x.errSort())
			st.assume(tNot(tEq(e, Term{S: "err_nil", Sort: "Err"})))
			e.Ty = x.info.TypeOf(ce)
			k(st, []Term{e})
		}},
		"time.After": {run: func(x *Exec, st *State, fr *Frame, ce *ast.CallExpr, recv Term, args []Term, k func(*State, []Term)) {
			x.trust("time.After(d): receiving from the timer means d elapsed since it was armed; it counts as a full interval between batches only when armed after the goroutine's last send")
			s2 := st.clone()
			tm := x.d.fresh("timer", "Ref")
			s2.assume(tNot(tEq(tm, nullRef)))
			am := x.heapMap(s2, "TimerArmed", "Int")
			s2.maps["TimerArmed"] = tStore(am, tm, x.ghostInt(s2, "actions"))
			if len(args) == 1 && args[0].Sort == "Int" {
				s2.maps["TimerDur"] = tStore(x.heapMap(s2, "TimerDur", "Int"), tm, args[0])
			}
			tm.Ty = x.info.TypeOf(ce)
			k(s2, []Term{tm})
		}},
		"time.NewTimer": {run: func(x *Exec, st *State, fr *Frame, ce *ast.CallExpr, recv Term, args []Term, k func(*State, []Term)) {
			x.trust("time.After(d): receiving from the timer means d elapsed since it was armed; it counts as a full interval between batches only when armed after the goroutine's last send")
			s2 := st.clone()
			tm := x.d.fresh("timer", "Ref")
			s2.assume(tNot(tEq(tm, nullRef)))
			am := x.heapMap(s2, "TimerArmed", "Int")
			s2.maps["TimerArmed"] = tStore(am, tm, x.ghostInt(s2, "actions"))
			if len(args) == 1 && args[0].Sort == "Int" {
				s2.maps["TimerDur"] = tStore(x.heapMap(s2, "TimerDur", "Int"), tm, args[0])
			}
			tm.Ty = x.info.TypeOf(ce)
			k(s2, []Term{tm})
		}},
		"(*time.Timer).Reset": {run: func(x *Exec, st *State, fr *Frame, ce *ast.CallExpr, recv Term, args []Term, k func(*State, []Term)) {
			s2 := st.clone()
			am := x.heapMap(s2, "TimerArmed", "Int")
			s2.maps["TimerArmed"] = tStore(am, recv, x.ghostInt(s2, "actions"))
			if len(args) == 1 && args[0].Sort == "Int" {
				s2.maps["TimerDur"] = tStore(x.heapMap(s2, "TimerDur", "Int"), recv, args[0])
			}
			r := x.d.fresh("wasActive", "Bool")
			k(s2, []Term{r})
		}},
		"(*time.Timer).Stop": {run: func(x *Exec, st *State, fr *Frame, ce *ast.CallExpr, recv Term, args []Term, k func(*State, []Term)) {
			r := x.d.fresh("wasActive", "Bool")
			k(st, []Term{r})
		}},
		"time.Sleep": {run: func(x *Exec, st *State, fr *Frame, ce *ast.CallExpr, recv Term, args []Term, k func(*State, []Term)) {
			x.trust("time.Sleep(d) is a ghost tick: sleeps += 1 (lower bound on elapsed time only)")
			s2 := st.clone()
			one := tInt(1)
			if x.tickDur.ok() && len(args) == 1 && args[0].Sort == "Int" {
				// the contract declares the length of a tick: a shorter sleep does not count
				one = tIte(tApp("Bool", ">=", args[0], x.tickDur), tInt(1), tInt(0))
			}
			s2.ghosts["sleeps"] = tApp("Int", "+", x.ghostInt(st, "sleeps"), one)
			s2.ghosts["iterProgress"] = tTrue
			k(s2, nil)
		}},
		"(*sync.Pool).Get": {run: func(x *Exec, st *State, fr *Frame, ce *ast.CallExpr, recv Term, args []Term, k func(*State, []Term)) {
			x.trust("sync.Pool: Get returns a new value or one previously Put and not handed out since (never one still in use); the pool of pipe.queue holds only *q values")
			s2 := st.clone()
			r := x.d.fresh("pooled", "Ref")
			pm := x.heapMap(s2, "Pooled", "Bool")
			am := x.heapMap(s2, "Alloc", "Bool")
			s2.assume(tNot(tEq(r, nullRef)))
			s2.assume(tOr(tNot(tSelect(am, r, "Bool")), tSelect(pm, r, "Bool")))
			s2.maps["Alloc"] = tStore(am, r, tTrue)
			s2.maps["Pooled"] = tStore(pm, r, tFalse)
			r.Ty = x.info.TypeOf(ce)
			k(s2, []Term{r})
		}},
		"(*sync.Pool).Put": {run: func(x *Exec, st *State, fr *Frame, ce *ast.CallExpr, recv Term, args []Term, k func(*State, []Term)) {
			x.trust("sync.Pool: Get returns a new value or one previously Put and not handed out since (never one still in use); the pool of pipe.queue holds only *q values")
			s2 := st.clone()
			pm := x.heapMap(s2, "Pooled", "Bool")
			if len(args) == 1 && args[0].Sort == "Ref" {
				s2.maps["Pooled"] = tStore(pm, args[0], tTrue)
			}
			k(s2, nil)
		}},
		"(*sync.WaitGroup).Add": {run: func(x *Exec, st *State, fr *Frame, ce *ast.CallExpr, recv Term, args []Term, k func(*State, []Term)) {
			x.trust("sync.WaitGroup: Wait returns after as many Done calls as were Added (happens-before)")
			s2 := st.clone()
			s2.ghosts["added"] = tApp("Int", "+", x.ghostInt(st, "added"), args[0])
			k(s2, nil)
		}},
		"(*sync.WaitGroup).Done": {run: func(x *Exec, st *State, fr *Frame, ce *ast.CallExpr, recv Term, args []Term, k func(*State, []Term)) {
			x.trust("sync.WaitGroup: Wait returns after as many Done calls as were Added (happens-before)")
			s2 := st.clone()
			s2.ghosts["doneCalls"] = tApp("Int", "+", x.ghostInt(st, "doneCalls"), tInt(1))
			k(s2, nil)
		}},
		"(*sync.WaitGroup).Wait": {run: func(x *Exec, st *State, fr *Frame, ce *ast.CallExpr, recv Term, args []Term, k func(*State, []Term)) {
			x.trust("sync.WaitGroup: Wait returns after as many Done calls as were Added (happens-before)")
			s2 := st.clone()
			s2.ghosts["waited"] = tTrue
			s2.ghosts["iterProgress"] = tTrue
			k(s2, nil)
		}},
	}
}
