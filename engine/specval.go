package main

// Validation of the specification library by execution (bounded, never counted as proved).
//
// Every proof is "the code equals a spec function of its inputs"; that the spec functions of
// /verif/specs/list.smt2 are the textbook list functions their names say is an assumption of
// every evidence file. This file tests that assumption: the templates are instantiated with
// concrete element sorts and concrete user functions, and for a few hundred small random
// inputs the solver must prove that the SMT definition yields exactly the value that an
// independent reference implementation in Go (slices and loops, written from the textbook
// definition) computes. A disagreement is reported with the instance. A canary (a
// deliberately wrong expected value) must be refuted, so an inconsistent prelude cannot make
// everything pass.

import (
	"flag"
	"fmt"
	"math/rand"
	"os"
	"path/filepath"
	"strings"
	"sync"
	"context"
)

type specCase struct {
	fn   string // spec function (instantiated name)
	term string // ground SMT term
	want string // expected ground SMT value
}

func smtInt(i int) string {
	if i < 0 {
		return fmt.Sprintf("(- %d)", -i)
	}
	return fmt.Sprintf("%d", i)
}

func smtBool(b bool) string {
	if b {
		return "true"
	}
	return "false"
}

// cons list of ints
func smtList(l []int) string {
	s := "nil_LI"
	for i := len(l) - 1; i >= 0; i-- {
		s = "(cons_LI " + smtInt(l[i]) + " " + s + ")"
	}
	return s
}

// snoc trace of ints
func smtTrace(l []int) string {
	s := "emp_TI"
	for _, v := range l {
		s = "(snoc_TI " + s + " " + smtInt(v) + ")"
	}
	return s
}

func smtErr(e int) string {
	if e == 0 {
		return "err_nil"
	}
	return "(err_of " + smtInt(e) + ")"
}

func smtErrTrace(l []int) string {
	s := "emp_TE"
	for _, v := range l {
		s = "(snoc_TE " + s + " " + smtErr(v) + ")"
	}
	return s
}

// the concrete user functions (Go side); their SMT twins are in specPrelude
func refPred(f, x int) bool { return emod(x+f, 3) != 0 }
func refMap(f, x int) int   { return x*f + 1 }
func refErr(f, x int) int { // 0 = no error
	if emod(x, f+2) == 0 {
		return x*10 + 1
	}
	return 0
}
func refComb(a, b int) int { return 3*a + b } // not commutative, not associative: order matters
func refRhs(f, a int) []int { // the inner sequence of flatmap: emod(a,3) copies of a+f
	var r []int
	for i := 0; i < emod(a, 3); i++ {
		r = append(r, a+f)
	}
	return r
}
func refEmits(a int) []int { // arrow: emits a, a+1, ... (emod(a,3) values)
	var r []int
	for i := 0; i < emod(a, 3); i++ {
		r = append(r, a+i)
	}
	return r
}
func emod(a, b int) int { // SMT-LIB mod: result in [0, |b|)
	m := a % b
	if m < 0 {
		if b < 0 {
			m -= b
		} else {
			m += b
		}
	}
	return m
}

const specPreludeHead = `(declare-sort Ref 0)
(declare-fun null () Ref)
(declare-fun fref () Ref)
(declare-datatypes ((Err 0)) (((err_nil) (err_of (err_code Int)))))
(define-sort FP () Int)
(define-sort FM () Int)
(define-sort FE () Int)
(define-sort FR () Int)
(define-fun app0_FP ((f FP) (x Int)) Bool (not (= (mod (+ x f) 3) 0)))
(define-fun app0_FM ((f FM) (x Int)) Int (+ (* x f) 1))
(define-fun app0_FE ((f FE) (x Int)) Err (ite (= (mod x (+ f 2)) 0) (err_of (+ (* x 10) 1)) err_nil))
(define-fun comb ((m Ref) (a Int) (b Int)) Int (+ (* 3 a) b))
(define-fun ev ((f FE) (x Int)) Int (* 2 x))
(define-fun ap ((f Ref) (x Int)) Int (+ (* x 2) 1))
(define-fun apb ((f Ref) (x Int)) Bool (not (= (mod x 3) 0)))
(define-fun er ((f Ref) (x Int)) Err (ite (= (mod x 4) 0) (err_of (+ (* x 10) 1)) err_nil))
`

func specPrelude(lib *SpecLib) (string, error) {
	var b strings.Builder
	b.WriteString("(set-logic ALL)\n")
	b.WriteString(specPreludeHead)
	inst := func(tmpl string, sub map[string]string) error {
		text, ok := lib.Templates[tmpl]
		if !ok {
			return fmt.Errorf("no spec template %s", tmpl)
		}
		for k, v := range sub {
			text = strings.ReplaceAll(text, "{"+k+"}", v)
		}
		// facts derived from the definitions are not needed to evaluate ground terms
		var keep []string
		for _, l := range strings.Split(text, "\n") {
			if !strings.Contains(l, "; @derived") {
				keep = append(keep, l)
			}
		}
		text = strings.Join(keep, "\n")
		if strings.Contains(text, "{") {
			return fmt.Errorf("template %s: placeholder left after instantiation: %s", tmpl, text[strings.Index(text, "{"):][:20])
		}
		b.WriteString(text)
		b.WriteString("\n")
		return nil
	}
	steps := []struct {
		t string
		s map[string]string
	}{
		{"List", map[string]string{"E": "Int", "L": "LI"}},
		{"Trace", map[string]string{"E": "Int", "T": "TI"}},
		{"Trace", map[string]string{"E": "Err", "T": "TE"}},
		{"TraceOfList", map[string]string{"T": "TI", "L": "LI"}},
		{"FoldM", map[string]string{"L": "LI", "E": "Int", "COMB": "comb"}},
		{"TFoldM", map[string]string{"T": "TI", "E": "Int", "COMB": "comb"}},
		{"ListPred", map[string]string{"F": "FP", "L": "LI"}},
		{"ListMap", map[string]string{"F": "FM", "LA": "LI", "LB": "LI"}},
		{"ListErr", map[string]string{"F": "FE", "L": "LI", "TEV": "TI", "EV": "ev"}},
		{"TraceF", map[string]string{"APPLY": "ap", "ERR": "er", "TA": "TI", "TB": "TI", "TE": "TE"}},
		{"TraceKeep", map[string]string{"APPLY": "apb", "ERR": "er", "A": "Int", "TA": "TI"}},
		{"TraceIter", map[string]string{"APPLY": "ap", "A": "Int", "TA": "TI"}},
		{"Upto", map[string]string{"T": "TI"}},
		{"TraceToList", map[string]string{"T": "TI", "L": "LI"}},
	}
	for _, s := range steps {
		if err := inst(s.t, s.s); err != nil {
			return "", err
		}
	}
	// FlatMap declares rhsview as uninterpreted: give it the concrete definition first and
	// drop the declaration from the template text
	b.WriteString("(define-fun-rec rep_LI ((n Int) (v Int)) LI (ite (<= n 0) nil_LI (cons_LI v (rep_LI (- n 1) v))))\n")
	b.WriteString("(define-fun rhsview_FR ((f FR) (a Int)) LI (rep_LI (mod a 3) (+ a f)))\n")
	fm := lib.Templates["FlatMap"]
	for k, v := range map[string]string{"F": "FR", "A": "Int", "LA": "LI", "LB": "LI"} {
		fm = strings.ReplaceAll(fm, "{"+k+"}", v)
	}
	for _, l := range strings.Split(fm, "\n") {
		if !strings.HasPrefix(strings.TrimSpace(l), "(declare-fun rhsview_") {
			b.WriteString(l + "\n")
		}
	}
	// TraceFF: the arrow emits emod(a,3) values a, a+1, ...
	b.WriteString("(define-fun em ((f Ref) (a Int)) TI (ite (= (mod a 3) 0) emp_TI (ite (= (mod a 3) 1) (snoc_TI emp_TI a) (snoc_TI (snoc_TI emp_TI a) (+ a 1)))))\n")
	if err := inst("TraceFF", map[string]string{"EMITS": "em", "FAILS": "er", "TA": "TI", "TB": "TI", "TE": "TE"}); err != nil {
		return "", err
	}
	return b.String(), nil
}

func specCases(rnd *rand.Rand, perFn int) []specCase {
	var cs []specCase
	add := func(fn, term, want string) { cs = append(cs, specCase{fn, term, want}) }
	rlist := func() []int {
		n := rnd.Intn(6)
		l := make([]int, n)
		for i := range l {
			l[i] = rnd.Intn(10) - 3
		}
		return l
	}
	for k := 0; k < perFn; k++ {
		l, m := rlist(), rlist()
		n := rnd.Intn(9) - 1
		f := rnd.Intn(4) + 1
		v := rnd.Intn(10) - 3
		if k == 0 {
			l = nil // the empty list always is a case
		}
		L, M := smtList(l), smtList(m)
		T, U := smtTrace(l), smtTrace(m)
		// --- cons lists
		add("len", "(len_LI "+L+")", smtInt(len(l)))
		add("cat", "(cat_LI "+L+" "+M+")", smtList(append(append([]int{}, l...), m...)))
		if len(l) > 0 {
			i := rnd.Intn(len(l))
			add("nth", fmt.Sprintf("(nth_LI %s %d)", L, i), smtInt(l[i]))
			u := append([]int{}, l...)
			u[i] = v
			add("upd", fmt.Sprintf("(upd_LI %s %d %s)", L, i, smtInt(v)), smtList(u))
			add("lastl", "(lastl_LI "+L+")", smtInt(l[len(l)-1]))
			r := append([]int{}, l...)
			r[len(r)-1] = v
			add("replast", "(replast_LI "+L+" "+smtInt(v)+")", smtList(r))
		}
		tk := n
		if tk < 0 {
			tk = 0
		}
		if tk > len(l) {
			tk = len(l)
		}
		add("take", "(take_LI "+smtInt(n)+" "+L+")", smtList(l[:tk]))
		add("drop", "(drop_LI "+smtInt(n)+" "+L+")", smtList(l[tk:]))
		add("snocl", "(snocl_LI "+L+" "+smtInt(v)+")", smtList(append(append([]int{}, l...), v)))
		// --- traces
		add("tlen", "(tlen_TI "+T+")", smtInt(len(l)))
		add("tcat", "(tcat_TI "+T+" "+U+")", smtTrace(append(append([]int{}, l...), m...)))
		add("ttake", "(ttake_TI "+smtInt(n)+" "+T+")", smtTrace(l[:tk]))
		isPrefix := len(m) <= len(l)
		for i := 0; isPrefix && i < len(m); i++ {
			isPrefix = m[i] == l[i]
		}
		add("tprefix", "(tprefix_TI "+U+" "+T+")", smtBool(isPrefix))
		add("tprefix", "(tprefix_TI "+smtTrace(l[:tk])+" "+T+")", "true")
		add("tol", "(tol_TI "+U+" "+L+")", smtTrace(append(append([]int{}, m...), l...)))
		add("lot", "(lot_TI "+T+" "+M+")", smtList(append(append([]int{}, l...), m...)))
		add("tolist", "(tolist_TI "+T+")", L)
		// --- folds (left folds, order-sensitive operation)
		acc := v
		for _, e := range l {
			acc = refComb(acc, e)
		}
		add("foldm", "(foldm_LI_comb fref "+smtInt(v)+" "+L+")", smtInt(acc))
		add("tfoldm", "(tfoldm_TI_comb fref "+smtInt(v)+" "+T+")", smtInt(acc))
		// --- predicates
		var tw, dw, fl []int
		stop := false
		for i, e := range l {
			if !stop && !refPred(f, e) {
				stop = true
				dw = l[i:]
			}
			if !stop {
				tw = append(tw, e)
			}
			if refPred(f, e) {
				fl = append(fl, e)
			}
		}
		F := smtInt(f)
		add("takew", "(takew_LI_FP "+F+" "+L+")", smtList(tw))
		add("dropw", "(dropw_LI_FP "+F+" "+L+")", smtList(dw))
		add("filter", "(filter_LI_FP "+F+" "+L+")", smtList(fl))
		// --- map, flatmap
		var mp, fm []int
		for _, e := range l {
			mp = append(mp, refMap(f, e))
			fm = append(fm, refRhs(f, e)...)
		}
		add("map", "(map_LI_FM "+F+" "+L+")", smtList(mp))
		add("flatmap", "(flatmap_LI_FR "+F+" "+L+")", smtList(fm))
		// --- errors on lists
		var ue, evs []int
		fe := 0
		for _, e := range l {
			ue = append(ue, e)
			if refErr(f, e) != 0 {
				fe = refErr(f, e)
				break
			}
		}
		for _, e := range l {
			evs = append(evs, 2*e)
		}
		add("untilerr", "(untilerr_LI_FE "+F+" "+L+")", smtList(ue))
		add("firsterr", "(firsterr_LI_FE "+F+" "+L+")", smtErr(fe))
		add("evl", "(evl_LI_FE "+F+" "+U+" "+L+")", smtTrace(append(append([]int{}, m...), evs...)))
		// --- stage functions on traces: ap(x)=2x+1, er(x) fails iff x mod 4 == 0, apb(x) = x mod 3 != 0
		var ok, errs, kept, notkept, flat, ferrs []int
		allok, allkeep := true, true
		for _, e := range l {
			failed := emod(e, 4) == 0
			if failed {
				errs = append(errs, e*10+1)
				ferrs = append(ferrs, e*10+1)
				allok = false
			} else {
				ok = append(ok, 2*e+1)
			}
			if emod(e, 3) != 0 && !failed {
				kept = append(kept, e)
			} else {
				notkept = append(notkept, e)
				allkeep = false
			}
			flat = append(flat, refEmits(e)...)
		}
		add("tmapok", "(tmapok_ap fref "+T+")", smtTrace(ok))
		add("terrs", "(terrs_ap fref "+T+")", smtErrTrace(errs))
		add("tallok", "(tallok_ap fref "+T+")", smtBool(allok))
		add("tfilter", "(tfilter_apb fref "+T+")", smtTrace(kept))
		add("tfilternot", "(tfilternot_apb fref "+T+")", smtTrace(notkept))
		add("tallkeep", "(tallkeep_apb fref "+T+")", smtBool(allkeep))
		add("tflat", "(tflat_em fref "+T+")", smtTrace(flat))
		add("tferrs", "(tferrs_em fref "+T+")", smtErrTrace(ferrs))
		add("tfallok", "(tfallok_em fref "+T+")", smtBool(allok))
		// --- iteration
		p := v
		var it []int
		for i := 0; i < tk; i++ {
			it = append(it, p)
			p = 2*p + 1
		}
		add("fpow", "(fpow_ap fref "+smtInt(v)+" "+smtInt(tk)+")", smtInt(p))
		add("titer", "(titer_ap fref "+smtInt(v)+" "+smtInt(tk)+")", smtTrace(it))
		var up []int
		for i := 0; i < n; i++ {
			up = append(up, i)
		}
		add("tupto", "(tupto_TI "+smtInt(n)+")", smtTrace(up))
	}
	return cs
}

type specResult struct {
	Functions int
	Instances int
	Agreed    int
	Canary    string
	Failures  []string
	Secs      float64
}

// validateSpecs runs the comparison; dir is a scratch directory for the query files.
func validateSpecs(lib *SpecLib, dir string, perFn int, seed int64) specResult {
	var res specResult
	prelude, err := specPrelude(lib)
	if err != nil {
		res.Failures = append(res.Failures, err.Error())
		return res
	}
	cases := specCases(rand.New(rand.NewSource(seed)), perFn)
	byFn := map[string][]specCase{}
	var order []string
	for _, c := range cases {
		if _, ok := byFn[c.fn]; !ok {
			order = append(order, c.fn)
		}
		byFn[c.fn] = append(byFn[c.fn], c)
	}
	res.Functions, res.Instances = len(order), len(cases)
	ask := func(name string, cs []specCase) string {
		var b strings.Builder
		b.WriteString(prelude)
		b.WriteString("(assert (not (and true\n")
		for _, c := range cs {
			fmt.Fprintf(&b, "  (= %s %s)\n", c.term, c.want)
		}
		b.WriteString(")))\n(check-sat)\n")
		file := filepath.Join(dir, "spec_"+name+".smt2")
		os.WriteFile(file, []byte(b.String()), 0o644)
		for _, s := range solvers[:2] {
			r := runSolver(context.Background(), s, file, 20000)
			if r.ans == "unsat" || r.ans == "sat" {
				return r.ans
			}
			if r.ans == "error" {
				return "error: " + firstLines(r.out, 2)
			}
		}
		return "unknown"
	}
	var mu sync.Mutex
	var wg sync.WaitGroup
	sem := make(chan struct{}, 8)
	for _, fn := range order {
		wg.Add(1)
		sem <- struct{}{}
		go func(fn string) {
			defer wg.Done()
			defer func() { <-sem }()
			ans := ask(fn, byFn[fn])
			mu.Lock()
			defer mu.Unlock()
			if ans == "unsat" {
				res.Agreed += len(byFn[fn])
				return
			}
			// localise
			bad := 0
			for i, c := range byFn[fn] {
				if a := ask(fmt.Sprintf("%s_%d", fn, i), []specCase{c}); a != "unsat" {
					bad++
					if len(res.Failures) < 20 {
						res.Failures = append(res.Failures, fmt.Sprintf("%s: %s is not %s (%s)", fn, c.term, c.want, a))
					}
				} else {
					res.Agreed++
				}
			}
			if bad == 0 {
				res.Failures = append(res.Failures, fmt.Sprintf("%s: the conjunction of all instances is undecided (%s) although each instance agrees", fn, ans))
			}
		}(fn)
	}
	wg.Wait()
	// canary: a wrong value must be refuted
	res.Canary = ask("canary", []specCase{{"take", "(take_LI 2 " + smtList([]int{1, 2, 3}) + ")", smtList([]int{1, 2, 3})}})
	if res.Canary != "sat" {
		res.Failures = append(res.Failures, "canary: a wrong expected value was not refuted ("+res.Canary+"): the comparison is vacuous")
	}
	return res
}

func cmdSpecs(args []string) int {
	fs := flag.NewFlagSet("specs", flag.ExitOnError)
	n := fs.Int("n", 12, "random instances per spec function")
	seed := fs.Int64("seed", 20261001, "random seed")
	fs.Parse(args)
	lib, err := LoadSpecs(filepath.Join(verifRoot, "specs"))
	if err != nil {
		fmt.Println(err)
		return 1
	}
	dir, _ := os.MkdirTemp("", "govc-specs-")
	defer os.RemoveAll(dir)
	r := validateSpecs(lib, dir, *n, *seed)
	fmt.Printf("spec validation: %d spec functions, %d/%d ground instances agree with the Go reference implementations, canary %s\n", r.Functions, r.Agreed, r.Instances, r.Canary)
	for _, f := range r.Failures {
		fmt.Println("SPEC MISMATCH:", f)
	}
	if len(r.Failures) > 0 {
		return 1
	}
	return 0
}
