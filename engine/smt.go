package main

import (
	"bytes"
	"context"
	"fmt"
	"go/types"
	"os"
	"os/exec"
	"path/filepath"
	"sort"
	"strings"
	"sync"
	"time"
)

// ---------------------------------------------------------------------------
// Terms

// Term is an SMT-LIB term with its sort and (when it stems from the program)
// the Go type of the expression it denotes.
type Term struct {
	S    string
	Sort string
	Ty   types.Type
	Loc  *unsafeLoc // a pointer computed by the unsafe field-address pattern (kept with the value)
}

func (t Term) String() string { return t.S }
func (t Term) ok() bool       { return t.S != "" }

func mk(sort, format string, a ...any) Term { return Term{S: fmt.Sprintf(format, a...), Sort: sort} }

var (
	tTrue  = Term{S: "true", Sort: "Bool"}
	tFalse = Term{S: "false", Sort: "Bool"}
)

func tInt(n int64) Term {
	if n < 0 {
		return Term{S: fmt.Sprintf("(- %d)", -n), Sort: "Int"}
	}
	return Term{S: fmt.Sprintf("%d", n), Sort: "Int"}
}

func tApp(sort, f string, args ...Term) Term {
	if len(args) == 0 {
		return Term{S: f, Sort: sort}
	}
	var b strings.Builder
	b.WriteString("(")
	b.WriteString(f)
	for _, a := range args {
		b.WriteString(" ")
		b.WriteString(a.S)
	}
	b.WriteString(")")
	return Term{S: b.String(), Sort: sort}
}

func tNot(a Term) Term {
	switch a.S {
	case "true":
		return tFalse
	case "false":
		return tTrue
	}
	if strings.HasPrefix(a.S, "(not ") {
		return Term{S: a.S[5 : len(a.S)-1], Sort: "Bool"}
	}
	return tApp("Bool", "not", a)
}

func tAnd(ts ...Term) Term {
	var keep []Term
	for _, t := range ts {
		if t.S == "true" {
			continue
		}
		if t.S == "false" {
			return tFalse
		}
		keep = append(keep, t)
	}
	switch len(keep) {
	case 0:
		return tTrue
	case 1:
		return keep[0]
	}
	return tApp("Bool", "and", keep...)
}

func tOr(ts ...Term) Term {
	var keep []Term
	for _, t := range ts {
		if t.S == "false" {
			continue
		}
		if t.S == "true" {
			return tTrue
		}
		keep = append(keep, t)
	}
	switch len(keep) {
	case 0:
		return tFalse
	case 1:
		return keep[0]
	}
	return tApp("Bool", "or", keep...)
}

func tImp(a, b Term) Term {
	if a.S == "true" {
		return b
	}
	if a.S == "false" || b.S == "true" {
		return tTrue
	}
	return tApp("Bool", "=>", a, b)
}

func tEq(a, b Term) Term {
	if a.S == b.S {
		return tTrue
	}
	return tApp("Bool", "=", a, b)
}

func tIte(c, a, b Term) Term {
	if c.S == "true" {
		return a
	}
	if c.S == "false" {
		return b
	}
	if a.S == b.S {
		return a
	}
	t := tApp(a.Sort, "ite", c, a, b)
	t.Ty = a.Ty
	return t
}

func tSelect(arr, idx Term, elemSort string) Term { return tApp(elemSort, "select", arr, idx) }
func tStore(arr, idx, v Term) Term              { return tApp(arr.Sort, "store", arr, idx, v) }

// ---------------------------------------------------------------------------
// Declarations

type SortInfo struct {
	Kind   string // list, trace, fn, struct, pair, uninterp, array, opt
	Elem   string
	Args   []string
	Rets   []string
	Fields []string // field names (struct)
	FSorts []string
	Ctor   string
	Go     types.Type
}

// Decls collects the declarations (sorts, datatypes, functions, axioms, constants) that
// the queries of one verification unit need, in dependency order.
type tmplInst struct {
	tmpl string
	sub  map[string]string
}

type Decls struct {
	insts []tmplInst
	order []string
	seen  map[string]bool
	sorts map[string]*SortInfo
	nfr   int
	specs *SpecLib
}

func NewDecls(specs *SpecLib) *Decls {
	d := &Decls{seen: map[string]bool{}, sorts: map[string]*SortInfo{}, specs: specs}
	d.decl("sort:Ref", "(declare-sort Ref 0)\n(declare-fun null () Ref)")
	return d
}

func (d *Decls) decl(key, text string) bool {
	if d.seen[key] {
		return false
	}
	d.seen[key] = true
	d.order = append(d.order, text)
	return true
}

func (d *Decls) Prelude() string { return strings.Join(d.order, "\n") + "\n" }

func (d *Decls) fresh(prefix, sort string) Term {
	d.nfr++
	name := fmt.Sprintf("%s!%d", sanitize(prefix), d.nfr)
	d.order = append(d.order, fmt.Sprintf("(declare-fun %s () %s)", name, sort))
	return Term{S: name, Sort: sort}
}

func (d *Decls) constant(name, sort string) Term {
	d.decl("const:"+name, fmt.Sprintf("(declare-fun %s () %s)", name, sort))
	return Term{S: name, Sort: sort}
}

func (d *Decls) fun(name string, args []string, ret string) {
	d.decl("fun:"+name, fmt.Sprintf("(declare-fun %s (%s) %s)", name, strings.Join(args, " "), ret))
}

func (d *Decls) axiom(key, text string) { d.decl("ax:"+key, "(assert "+text+")") }

func sanitize(s string) string {
	var b strings.Builder
	for _, r := range s {
		switch {
		case r >= 'a' && r <= 'z', r >= 'A' && r <= 'Z', r >= '0' && r <= '9', r == '_', r == '.', r == '!', r == '$':
			b.WriteRune(r)
		case r == '*':
			b.WriteString("P")
		case r == '[' || r == ']' || r == '(' || r == ')' || r == ',' || r == ' ' || r == '/' || r == '{' || r == '}':
			b.WriteString("_")
		default:
			b.WriteString("_")
		}
	}
	return b.String()
}

func (d *Decls) Uninterp(name string) string {
	n := sanitize(name)
	if d.decl("sort:"+n, fmt.Sprintf("(declare-sort %s 0)", n)) {
		d.sorts[n] = &SortInfo{Kind: "uninterp"}
	}
	return n
}

func (d *Decls) ArrayOf(idx, elem string) string {
	n := fmt.Sprintf("(Array %s %s)", idx, elem)
	if d.sorts[n] == nil {
		d.sorts[n] = &SortInfo{Kind: "array", Args: []string{idx}, Elem: elem}
	}
	return n
}

// ArrSliceOf: the array-backed slice model (contents array + length), used where a package
// stores into slice elements through aliases-free reference slices (skip list).
func (d *Decls) ArrSliceOf(elem string) string {
	n := "A_" + sanitize(elem)
	if d.sorts[n] == nil {
		d.sorts[n] = &SortInfo{Kind: "arrslice", Elem: elem}
		d.decl("sort:"+n, fmt.Sprintf("(declare-datatypes ((%[1]s 0)) (((mk_%[1]s (arr_%[1]s (Array Int %[2]s)) (len_%[1]s Int)))))", n, elem))
	}
	return n
}

// ListOf instantiates the cons-list theory for an element sort.
func (d *Decls) ListOf(elem string) string {
	n := "L_" + sanitize(elem)
	if elem == "S_reflect.StructField" {
		return n // declared by the reflect layout theory (mutually recursive with RType)
	}
	if d.sorts[n] == nil {
		d.sorts[n] = &SortInfo{Kind: "list", Elem: elem}
		d.instantiate("List", map[string]string{"E": elem, "L": n, "e": sanitize(elem)})
	}
	return n
}

// TrOf instantiates the snoc-list (trace) theory for an element sort.
func (d *Decls) TrOf(elem string) string {
	n := "T_" + sanitize(elem)
	if d.sorts[n] == nil {
		d.sorts[n] = &SortInfo{Kind: "trace", Elem: elem}
		d.instantiate("Trace", map[string]string{"E": elem, "T": n, "e": sanitize(elem)})
	}
	return n
}

func (d *Decls) PairOf(a, b string) string {
	n := "Pr_" + sanitize(a) + "_" + sanitize(b)
	if d.sorts[n] == nil {
		d.sorts[n] = &SortInfo{Kind: "pair", Args: []string{a, b}}
		d.decl("sort:"+n, fmt.Sprintf("(declare-datatypes ((%s 0)) (((mk_%s (fst_%s %s) (snd_%s %s)))))", n, n, n, a, n, b))
	}
	return n
}

// FnOf declares the sort of function values of one signature, its nil value, and
// one application symbol per result.
func (d *Decls) FnOf(args, rets []string) string {
	var parts []string
	for _, a := range args {
		parts = append(parts, sanitize(a))
	}
	n := "F_" + strings.Join(parts, "_") + "__"
	parts = parts[:0]
	for _, r := range rets {
		parts = append(parts, sanitize(r))
	}
	n += strings.Join(parts, "_")
	if d.sorts[n] == nil {
		d.sorts[n] = &SortInfo{Kind: "fn", Args: args, Rets: rets}
		var b strings.Builder
		fmt.Fprintf(&b, "(declare-sort %s 0)\n(declare-fun nil_%s () %s)", n, n, n)
		for i, r := range rets {
			fmt.Fprintf(&b, "\n(declare-fun app%d_%s (%s %s) %s)", i, n, n, strings.Join(args, " "), r)
		}
		// failure oracle with call index (for fault patterns), see DESIGN section 3
		d.decl("sort:"+n, b.String())
	}
	return n
}

func (d *Decls) StructOf(name string, fields, fsorts []string, goT types.Type) string {
	n := "S_" + sanitize(name)
	if d.sorts[n] == nil {
		d.sorts[n] = &SortInfo{Kind: "struct", Fields: fields, FSorts: fsorts, Ctor: "mk_" + n, Go: goT}
		var b strings.Builder
		fmt.Fprintf(&b, "(declare-datatypes ((%s 0)) (((mk_%s", n, n)
		for i, f := range fields {
			fmt.Fprintf(&b, " (%s_%s %s)", n, sanitize(f), fsorts[i])
		}
		b.WriteString("))))")
		d.decl("sort:"+n, b.String())
	}
	return n
}

// useLemmaAll instantiates library lemma `name` for every instantiation of the template it
// belongs to (lemma:<Template>:<name>) and returns the instantiated formulas.
func (d *Decls) useLemmaAll(name string) []string {
	out := d.lemmaTexts(name)
	for _, text := range out {
		d.decl("uselemma:"+text, "(assert "+text+") ; @derived")
	}
	return out
}

// lemmaTexts: the instances of a library lemma for the templates instantiated so far
// (nothing is declared).
func (d *Decls) lemmaTexts(name string) []string {
	var out []string
	seen := map[string]bool{}
	for _, in := range append([]tmplInst(nil), d.insts...) {
		text, ok := d.specs.Templates["lemma:"+in.tmpl+":"+name]
		if !ok {
			continue
		}
		for k, v := range in.sub {
			text = strings.ReplaceAll(text, "{"+k+"}", v)
		}
		if seen[text] {
			continue
		}
		seen[text] = true
		out = append(out, text)
	}
	return out
}

// useLemma adds a lemma of the library as an axiom for one list/trace sort.
func (d *Decls) useLemma(kind, name, sort string) bool {
	key := "lemma:" + kind + ":" + name
	text, ok := d.specs.Templates[key]
	if !ok {
		return false
	}
	ph := "{L}"
	if kind == "Trace" {
		ph = "{T}"
	}
	text = strings.ReplaceAll(text, ph, sort)
	if si := d.sorts[sort]; si != nil {
		text = strings.ReplaceAll(text, "{E}", si.Elem)
	}
	d.decl("uselemma:"+key+":"+sort, "(assert "+text+") ; @derived")
	return true
}

func (d *Decls) instantiate(tmpl string, sub map[string]string) {
	text, ok := d.specs.Templates[tmpl]
	if !ok {
		panic("no spec template " + tmpl)
	}
	keys := make([]string, 0, len(sub))
	for k := range sub {
		keys = append(keys, k)
	}
	sort.Strings(keys)
	d.insts = append(d.insts, tmplInst{tmpl, sub})
	id := tmpl
	for _, k := range keys {
		text = strings.ReplaceAll(text, "{"+k+"}", sub[k])
		id += ":" + k + "=" + sub[k]
	}
	d.decl("tmpl:"+id, text)
}

// ---------------------------------------------------------------------------
// Spec library: SMT-LIB templates in /verif/specs/*.smt2, sections introduced by
// a line "; @template Name".

type SpecLib struct {
	Templates map[string]string
	Hashes    map[string]string
}

func LoadSpecs(dir string) (*SpecLib, error) {
	lib := &SpecLib{Templates: map[string]string{}, Hashes: map[string]string{}}
	files, _ := filepath.Glob(filepath.Join(dir, "*.smt2"))
	sort.Strings(files)
	for _, f := range files {
		b, err := os.ReadFile(f)
		if err != nil {
			return nil, err
		}
		lib.Hashes[filepath.Base(f)] = sha(b)
		cur := ""
		var buf []string
		flush := func() {
			if cur != "" {
				lib.Templates[cur] = strings.TrimSpace(strings.Join(buf, "\n"))
			}
			buf = nil
		}
		for _, line := range strings.Split(string(b), "\n") {
			if strings.HasPrefix(line, "; @template ") {
				flush()
				cur = strings.TrimSpace(strings.TrimPrefix(line, "; @template "))
				continue
			}
			if i := strings.Index(line, ";"); i >= 0 {
				if strings.Contains(line[i:], "@derived") {
					line = line[:i] + "; @derived"
				} else {
					line = line[:i]
				}
			}
			if strings.TrimSpace(line) != "" {
				buf = append(buf, line)
			}
		}
		flush()
	}
	if len(lib.Templates) == 0 {
		return nil, fmt.Errorf("no spec templates under %s", dir)
	}
	return lib, nil
}

// ---------------------------------------------------------------------------
// Obligations and solvers

type Oblig struct {
	Name    string
	Kind    string
	Props   []string
	Assume  []Term
	Goal    Term
	Pos     string
	Src     string // contract clause text or Go construct
	Cover   bool   // cover query: must be satisfiable
	Induct  bool   // lemma of the spec library: proved by structural induction
	Quick   bool   // short time limit (listed known finding)
	Prelude string

	// result
	Status  string // proved, failed, unknown, covered, vacuous
	Solver  string
	Secs    float64
	Detail  string
	Model   string
	Query   string
}

type SolverSpec struct {
	Name string
	Argv func(file string, ms int) []string
}

var solvers = []SolverSpec{
	{"z3-5.1.0", func(f string, ms int) []string { return []string{"z3-new", fmt.Sprintf("-t:%d", ms), "-smt2", f} }},
	{"cvc5-1.0.3", func(f string, ms int) []string {
		return []string{"cvc5", "--lang=smt2", fmt.Sprintf("--tlimit=%d", ms), "--produce-models", f}
	}},
	{"z3-4.8.12", func(f string, ms int) []string { return []string{"z3", fmt.Sprintf("-t:%d", ms), "-smt2", f} }},
}

func (o *Oblig) smt(withModel bool) string {
	var b strings.Builder
	b.WriteString("(set-logic ALL)\n")
	if o.Cover {
		// facts that follow from the recursive definitions (tagged @derived) do not change
		// satisfiability but defeat model finding: leave them out of vacuity queries
		for _, l := range strings.Split(o.Prelude, "\n") {
			if !strings.Contains(l, "; @derived") {
				b.WriteString(l)
				b.WriteString("\n")
			}
		}
	} else {
		b.WriteString(o.Prelude)
	}
	for _, a := range o.Assume {
		if a.S == "true" {
			continue
		}
		fmt.Fprintf(&b, "(assert %s)\n", a.S)
	}
	if o.Cover {
		fmt.Fprintf(&b, "(assert %s)\n", o.Goal.S)
	} else {
		fmt.Fprintf(&b, "(assert (not %s))\n", o.Goal.S)
	}
	b.WriteString("(check-sat)\n")
	if withModel {
		b.WriteString("(get-model)\n")
	}
	return b.String()
}

type solveResult struct {
	solver string
	ans    string
	out    string
	secs   float64
}

func runSolver(ctx context.Context, s SolverSpec, file string, ms int) solveResult {
	t0 := time.Now()
	argv := s.Argv(file, ms)
	cctx, cancel := context.WithTimeout(ctx, time.Duration(ms+2000)*time.Millisecond)
	defer cancel()
	cmd := exec.CommandContext(cctx, argv[0], argv[1:]...)
	var out bytes.Buffer
	cmd.Stdout = &out
	cmd.Stderr = &out
	cmd.Run()
	text := out.String()
	first := strings.TrimSpace(strings.SplitN(text, "\n", 2)[0])
	ans := "unknown"
	switch first {
	case "unsat":
		ans = "unsat"
	case "sat":
		ans = "sat"
	default:
		if strings.Contains(first, "error") || strings.Contains(text, "(error") {
			ans = "error"
		}
	}
	return solveResult{s.Name, ans, text, time.Since(t0).Seconds()}
}

// discharge races the solvers on one obligation. unsat from any solver proves it
// (covers: sat from any solver). A definite opposite answer stops the race.
func discharge(o *Oblig, dir string, idx int, ms int, all bool) {
	if o.Cover || o.Quick {
		// vacuity guards are best effort: a short time limit, "undecided" is not a failure
		ms = ms / 10
		all = false
	}
	file := filepath.Join(dir, fmt.Sprintf("q%05d.smt2", idx))
	o.Query = file
	os.WriteFile(file, []byte(o.smt(false)), 0o644)
	ctx, cancel := context.WithCancel(context.Background())
	defer cancel()
	want, bad := "unsat", "sat"
	if o.Cover {
		want, bad = "sat", "unsat"
	}
	use := solvers
	if o.Induct {
		use = []SolverSpec{{"cvc5-1.0.3 --quant-ind", func(f string, ms int) []string {
			return []string{"cvc5", "--lang=smt2", "--quant-ind", fmt.Sprintf("--tlimit=%d", ms), f}
		}}, solvers[0]}
	}
	n := len(use)
	ch := make(chan solveResult, n)
	for _, s := range use {
		go func(s SolverSpec) { ch <- runSolver(ctx, s, file, ms) }(s)
	}
	var notes []string
	var agree []string
	decided := ""
	var grace <-chan time.Time
loop:
	for i := 0; i < n; i++ {
		var r solveResult
		select {
		case r = <-ch:
		case <-grace:
			// cross-check window over: the other solvers had five seconds plus three times the
			// winner's time to contradict the answer
			notes = append(notes, "cross-check window closed")
			break loop
		}
		notes = append(notes, fmt.Sprintf("%s:%s:%.2fs", r.solver, r.ans, r.secs))
		if r.ans == "error" {
			notes = append(notes, strings.TrimSpace(firstLines(r.out, 3)))
		}
		if r.ans == want {
			if decided == "" {
				decided = want
				o.Solver, o.Secs = r.solver, r.secs
			}
			agree = append(agree, r.solver)
			if !all {
				break loop
			}
			if grace == nil {
				grace = time.After(5*time.Second + time.Duration(3*r.secs*float64(time.Second)))
			}
		} else if r.ans == bad {
			if decided == want {
				o.Detail = "SOLVER DISAGREEMENT: " + strings.Join(notes, " ")
				decided = "conflict"
				break loop
			}
			if decided == "" {
				decided = bad
				o.Solver, o.Secs = r.solver, r.secs
			}
			if !all {
				break loop
			}
		}
	}
	cancel()
	o.Detail = strings.TrimSpace(o.Detail + " " + strings.Join(notes, " "))
	switch {
	case decided == want && o.Cover:
		o.Status = "covered"
	case decided == want:
		o.Status = "proved"
	case decided == bad && o.Cover:
		o.Status = "vacuous"
	case decided == bad:
		o.Status = "failed"
	case decided == "conflict":
		o.Status = "unknown"
	default:
		o.Status = "unknown"
	}
	if len(agree) > 1 {
		o.Detail += " agreed=" + strings.Join(agree, ",")
	}
}

func firstLines(s string, n int) string {
	l := strings.Split(s, "\n")
	if len(l) > n {
		l = l[:n]
	}
	return strings.Join(l, " | ")
}

// getModel reruns a failed obligation asking for a model.
func getModel(o *Oblig, dir string, idx int, ms int) string {
	file := filepath.Join(dir, fmt.Sprintf("m%05d.smt2", idx))
	os.WriteFile(file, []byte(strings.Replace(o.smt(true), "(set-logic ALL)", "(set-option :produce-models true)\n(set-logic ALL)", 1)), 0o644)
	r := runSolver(context.Background(), solvers[0], file, ms)
	if r.ans == "sat" {
		return r.out
	}
	r = runSolver(context.Background(), solvers[1], file, ms)
	return r.out
}

func dischargeAll(obs []*Oblig, dir string, ms int, all bool, par int) {
	var wg sync.WaitGroup
	sem := make(chan struct{}, par)
	for i, o := range obs {
		wg.Add(1)
		sem <- struct{}{}
		go func(i int, o *Oblig) {
			defer wg.Done()
			defer func() { <-sem }()
			discharge(o, dir, i, ms, all)
		}(i, o)
	}
	wg.Wait()
}
