package main

import (
	"go/ast"
	"go/token"
	"go/types"
)

// The one unsafe pattern of the code base (DESIGN section 3):
//
//	*(*A)(unsafe.Pointer(uintptr(unsafe.Pointer(p)) + e1 + e2 ...))
//
// is a typed access at offset e1+e2+... inside the struct value *p. It becomes a
// functional read/update fget/fput of the abstract struct value at p, with the safety
// obligation validloc(rtype(S), offset, rtype(A)). Any other use of unsafe is outside the
// supported subset.
type unsafeLoc struct {
	base  Term       // the pointer p
	baseT types.Type // *S
	off   Term
	elemT types.Type // A
}

func (x *Exec) matchUnsafe(st *State, fr *Frame, star *ast.StarExpr) (*unsafeLoc, bool) {
	return x.matchUnsafeConv(st, fr, star.X)
}

// matchUnsafeConv: the pointer expression (*A)(unsafe.Pointer(uintptr(unsafe.Pointer(p)) + ...))
func (x *Exec) matchUnsafeConv(st *State, fr *Frame, pe ast.Expr) (*unsafeLoc, bool) {
	conv, ok := ast.Unparen(pe).(*ast.CallExpr)
	if !ok || len(conv.Args) != 1 {
		return nil, false
	}
	tv, ok := x.info.Types[ast.Unparen(conv.Fun)]
	if !ok || !tv.IsType() {
		return nil, false
	}
	pt, ok := types.Unalias(tv.Type).(*types.Pointer)
	if !ok {
		return nil, false
	}
	up, ok := ast.Unparen(conv.Args[0]).(*ast.CallExpr)
	if !ok || !x.isUnsafePointerConv(up) || len(up.Args) != 1 {
		return nil, false
	}
	// a sum with exactly one uintptr(unsafe.Pointer(p)) term
	var terms []ast.Expr
	var flatten func(e ast.Expr)
	flatten = func(e ast.Expr) {
		if b, ok := ast.Unparen(e).(*ast.BinaryExpr); ok && b.Op == token.ADD {
			flatten(b.X)
			flatten(b.Y)
			return
		}
		terms = append(terms, ast.Unparen(e))
	}
	flatten(up.Args[0])
	var loc unsafeLoc
	found := 0
	off := tInt(0)
	for _, t := range terms {
		if c, ok := t.(*ast.CallExpr); ok && len(c.Args) == 1 {
			if ctv, ok := x.info.Types[ast.Unparen(c.Fun)]; ok && ctv.IsType() {
				if b, ok := types.Unalias(ctv.Type).(*types.Basic); ok && b.Kind() == types.Uintptr {
					if in, ok := ast.Unparen(c.Args[0]).(*ast.CallExpr); ok && x.isUnsafePointerConv(in) && len(in.Args) == 1 {
						loc.base = x.expr(st, fr, in.Args[0])
						loc.baseT = x.info.TypeOf(in.Args[0])
						found++
						continue
					}
				}
			}
		}
		v := x.expr(st, fr, t)
		if v.Sort != "Int" {
			return nil, false
		}
		if off.S == "0" {
			off = v
		} else {
			off = tApp("Int", "+", off, v)
		}
	}
	if found != 1 {
		return nil, false
	}
	loc.off = off
	loc.elemT = pt.Elem()
	return &loc, true
}

func (x *Exec) isUnsafePointerConv(c *ast.CallExpr) bool {
	tv, ok := x.info.Types[ast.Unparen(c.Fun)]
	if !ok || !tv.IsType() {
		return false
	}
	b, ok := types.Unalias(tv.Type).(*types.Basic)
	return ok && b.Kind() == types.UnsafePointer
}

// fieldAccess instantiates the typed field access functions for (S, A).
func (x *Exec) fieldAccess(sSort, aSort string) (string, string) {
	x.reflectSort()
	x.d.instantiate("FieldAccess", map[string]string{"S": sSort, "A": aSort})
	return "fget_" + sSort + "_" + aSort, "fput_" + sSort + "_" + aSort
}

func (x *Exec) unsafeCheck(st *State, loc *unsafeLoc, n ast.Node) (sT types.Type, ok bool) {
	x.trust("unsafe: *(*A)(unsafe.Pointer(uintptr(p)+o)) reads/writes exactly the field of type A at offset o of *p when (o, A) is a valid field location of the struct type; distinct fields occupy disjoint byte ranges; the GC does not move the struct during the expression")
	bp, isP := types.Unalias(loc.baseT).(*types.Pointer)
	if !isP {
		x.unsupported(n, "unsafe access through a non-pointer base %v", loc.baseT)
		return nil, false
	}
	rs, ok1 := x.rtypeOf(bp.Elem())
	ra, ok2 := x.rtypeOf(loc.elemT)
	if !ok1 || !ok2 {
		x.unsupported(n, "unsafe access with base type %v and element type %v", bp.Elem(), loc.elemT)
		return nil, false
	}
	x.d.instantiate("Layout", map[string]string{})
	x.nilCheck(st, loc.base, n)
	x.oblige(st, "safety", "validLoc", tApp("Bool", "validlocany", rs, loc.off, ra), n, "the unsafe access addresses a field of the struct with exactly the accessed type (stays inside that field)")
	return bp.Elem(), true
}

func (x *Exec) unsafeLoad(st *State, loc *unsafeLoc, n ast.Node) Term {
	sT, ok := x.unsafeCheck(st, loc, n)
	if !ok {
		return x.zero(loc.elemT)
	}
	sv := x.loadCell(st, loc.base, sT)
	fg, _ := x.fieldAccess(sv.Sort, x.sortOf(loc.elemT))
	r := tApp(x.sortOf(loc.elemT), fg, sv, loc.off)
	r.Ty = loc.elemT
	return r
}

func (x *Exec) unsafeStore(st *State, loc *unsafeLoc, v Term, n ast.Node) {
	sT, ok := x.unsafeCheck(st, loc, n)
	if !ok {
		return
	}
	sv := x.loadCell(st, loc.base, sT)
	_, fp := x.fieldAccess(sv.Sort, x.sortOf(loc.elemT))
	nv := tApp(sv.Sort, fp, sv, loc.off, v)
	nv.Ty = sT
	x.storeCell(st, loc.base, nv)
}
