package main

import (
	"fmt"
	"os"
	"time"
)

func main() {
	l := NewLoader("/repo")
	for _, p := range os.Args[1:] {
		t0 := time.Now()
		pk, err := l.Load(p)
		if err != nil {
			fmt.Println("ERR", p, err)
			continue
		}
		fmt.Println("ok", p, len(pk.Files), time.Since(t0))
	}
}
