package main

import (
	"encoding/json"
	"flag"
	"fmt"
	"go/ast"
	"os"
	"os/exec"
	"path/filepath"
	"regexp"
	"runtime"
	"sort"
	"strconv"
	"strings"
	"sync"
	"time"
)

const verifRoot = "/verif"

type KnownFinding struct {
	Property   string `json:"property"`
	Obligation string `json:"obligation"`
	What       string `json:"what"`
	Witness    string `json:"witness,omitempty"`
	Status     string `json:"status"` // open | fixed
	Commit     string `json:"commit,omitempty"`
}

type KnownFindings struct {
	Findings []KnownFinding `json:"findings"`
}

func loadKnown() KnownFindings {
	var k KnownFindings
	b, err := os.ReadFile(filepath.Join(verifRoot, "KNOWN_FINDINGS.json"))
	if err == nil {
		json.Unmarshal(b, &k)
	}
	return k
}

func main() {
	if len(os.Args) < 2 {
		fmt.Fprintln(os.Stderr, "usage: govc check -property Cnn [-tier quick|thorough] | govc units -property Cnn | govc replay <file>")
		os.Exit(2)
	}
	switch os.Args[1] {
	case "check":
		os.Exit(cmdCheck(os.Args[2:]))
	case "replay":
		os.Exit(cmdReplay(os.Args[2:]))
	case "probes":
		os.Exit(cmdProbes(os.Args[2:]))
	case "loops":
		os.Exit(cmdLoops(os.Args[2:]))
	case "specs":
		os.Exit(cmdSpecs(os.Args[2:]))
	default:
		fmt.Fprintln(os.Stderr, "unknown command", os.Args[1])
		os.Exit(2)
	}
}

var outRoot = verifRoot

type checkOpts struct {
	prop     string
	tier     string
	repo     string
	seed     int
	verbose  bool
	keep     bool
	only     string
	noprobe  bool
	nocorpus bool
}

func cmdCheck(args []string) int {
	fs := flag.NewFlagSet("check", flag.ExitOnError)
	var o checkOpts
	fs.StringVar(&o.prop, "property", "", "property id")
	fs.StringVar(&o.tier, "tier", "", "quick or thorough")
	fs.StringVar(&o.repo, "repo", "/repo", "repository root")
	fs.BoolVar(&o.verbose, "v", false, "print every obligation")
	fs.BoolVar(&o.keep, "keep", false, "keep the scratch directory")
	fs.StringVar(&o.only, "only", "", "only units whose name contains this")
	fs.BoolVar(&o.noprobe, "noprobe", false, "skip probe corpus")
	fs.BoolVar(&o.nocorpus, "nocorpus", false, "skip the must-fail corpus (thorough tier)")
	fs.StringVar(&outRoot, "outdir", verifRoot, "where evidence/ and replays/ are written (scratch runs on modified copies use another directory)")
	fs.Parse(args)
	if o.tier == "" {
		o.tier = os.Getenv("VERIF_TIER")
	}
	if o.tier != "thorough" {
		o.tier = "quick"
	}
	if s := os.Getenv("VERIF_SEED"); s != "" {
		o.seed, _ = strconv.Atoi(s)
	}
	if o.prop == "" {
		fmt.Fprintln(os.Stderr, "missing -property")
		return 2
	}
	if os.Getenv("GOVC_INNER") == "" {
		// the check runs in a child process: if the engine itself dies (stack exhaustion, out
		// of memory, a signal) the outcome must be a reported violation, never silence
		self, err := os.Executable()
		if err == nil {
			cmd := exec.Command(self, os.Args[1:]...)
			cmd.Env = append(os.Environ(), "GOVC_INNER=1")
			cmd.Stdout, cmd.Stderr, cmd.Stdin = os.Stdout, os.Stderr, nil
			err := cmd.Run()
			code := 0
			if err != nil {
				code = -1
				if ee, ok := err.(*exec.ExitError); ok {
					code = ee.ExitCode()
				}
			}
			if code == 0 || code == 1 {
				return code
			}
			os.MkdirAll(filepath.Join(outRoot, "replays"), 0o755)
			rp := filepath.Join(outRoot, "replays", o.prop+"-engine-crash.json")
			b, _ := json.MarshalIndent(map[string]any{"property": o.prop, "obligation": "engine", "error": fmt.Sprintf("the verification engine terminated abnormally (exit code %d): nothing was decided for this tree", code)}, "", " ")
			os.WriteFile(rp, b, 0o644)
			fmt.Printf("ENGINE ERROR: the verification engine terminated abnormally (exit code %d)\n", code)
			fmt.Printf("VIOLATION property=%s replay=%s no-failing-input-found\n", o.prop, rp)
			return 1
		}
	}
	return runCheck(o)
}

type obRecord struct {
	Name   string  `json:"name"`
	Kind   string  `json:"kind"`
	Status string  `json:"status"`
	Solver string  `json:"solver,omitempty"`
	Secs   float64 `json:"secs"`
	Pos    string  `json:"pos,omitempty"`
	Src    string  `json:"src,omitempty"`
}

func runCheck(o checkOpts) int {
	t0 := time.Now()
	id := o.prop
	fail := func(msg string) int {
		// an engine error must never look like a pass
		os.MkdirAll(filepath.Join(outRoot, "replays"), 0o755)
		rp := filepath.Join(outRoot, "replays", id+"-engine-error.json")
		b, _ := json.MarshalIndent(map[string]any{"property": id, "obligation": "engine", "error": msg}, "", " ")
		os.WriteFile(rp, b, 0o644)
		writeEvidence(id, o, t0, nil, nil, nil, []string{msg}, 1, nil, nil)
		fmt.Printf("ENGINE ERROR: %s\n", msg)
		fmt.Printf("VIOLATION property=%s replay=%s no-failing-input-found\n", id, rp)
		return 1
	}
	specs, err := LoadSpecs(filepath.Join(verifRoot, "specs"))
	if err != nil {
		return fail(err.Error())
	}
	ld := NewLoader(o.repo)
	db, err := LoadContracts(ld, o.repo, filepath.Join(verifRoot, "contracts"))
	if err != nil {
		return fail("contracts: " + err.Error())
	}
	var units []*Unit
	var problems []string
	for _, path := range sortedKeys(db.files) {
		cf := db.files[path]
		relevant := false
		for _, pc := range cf.Funcs {
			if hasProp(pc.Props, id) {
				relevant = true
			}
			for _, s := range pc.Subs {
				if hasProp(s.Props, id) {
					relevant = true
				}
			}
		}
		for _, ic := range cf.Ifaces {
			if hasProp(ic.Props, id) {
				relevant = true
			}
			for _, m := range ic.Methods {
				if hasProp(m.Props, id) {
					relevant = true
				}
			}
		}
		for _, im := range cf.Impls {
			if strings.Contains(im.Opts["props"], id) || hasProp(im.Props, id) {
				relevant = true
			}
		}
		for _, lm := range cf.Lemmas {
			if hasProp(lm.Props, id) {
				relevant = true
			}
		}
		for _, in := range cf.Insts {
			if hasProp(in.Props, id) {
				relevant = true
			}
		}
		if !relevant {
			continue
		}
		pkg, err := ld.Load(path)
		if err != nil {
			return fail("load " + path + ": " + err.Error())
		}
		us, ps := unitsOf(ld, db, pkg, cf, id)
		units = append(units, us...)
		problems = append(problems, ps...)
	}
	// interface contracts of other packages may be needed by callers: load them all
	for path := range db.files {
		if _, err := ld.Load(path); err != nil {
			problems = append(problems, "load "+path+": "+err.Error())
		}
	}
	if o.only != "" {
		var f []*Unit
		for _, u := range units {
			if strings.Contains(u.Name, o.only) {
				f = append(f, u)
			}
		}
		units = f
	}
	if len(units) == 0 {
		return fail("no verification units for " + id + " (vacuous run)")
	}
	// units are independent; the loader is shared read-only after loading
	results := make([]*UnitResult, len(units))
	var wg sync.WaitGroup
	sem := make(chan struct{}, runtime.NumCPU())
	var mu sync.Mutex
	_ = mu
	for i, u := range units {
		wg.Add(1)
		sem <- struct{}{}
		go func(i int, u *Unit) {
			defer wg.Done()
			defer func() { <-sem }()
			results[i] = verifyUnitRepair(ld, db, specs, u, id)
		}(i, u)
	}
	wg.Wait()
	// Dependency closure: verification is modular, so a unit of this property that calls a
	// function or interface method by contract relies on that contract whatever property
	// it was written for. Every unit whose contract is relied on (transitively) is verified
	// in this run as well, with all its clauses; a change inside a helper that is harmless
	// for the property the helper was attributed to, but not for a caller serving this
	// one, then fails here too.
	depNames := map[string]bool{}
	if o.only == "" {
		byPC := map[*ProcContract][]*Unit{}
		for _, path := range sortedKeys(db.files) {
			pkg, err := ld.Load(path)
			if err != nil {
				continue
			}
			us, _ := unitsOf(ld, db, pkg, db.files[path], "*")
			root := map[*ast.FuncDecl]*ProcContract{}
			for _, u := range us {
				if u.Decl != nil && u.Lit == nil && u.Proc != nil {
					root[u.Decl] = u.Proc
				}
			}
			for _, u := range us {
				switch {
				case u.Lit != nil && u.Outer != nil:
					if r := root[u.Outer]; r != nil {
						byPC[r] = append(byPC[r], u)
					}
				case u.Proc != nil:
					byPC[u.Proc] = append(byPC[u.Proc], u)
				}
			}
		}
		have := map[string]bool{}
		for _, u := range units {
			have[u.Name] = true
		}
		done := map[*ProcContract]bool{}
		frontier := results
		for round := 0; round < 8; round++ {
			var add []*Unit
			for _, r := range frontier {
				if r == nil {
					continue
				}
				for _, pc := range r.Uses {
					if done[pc] {
						continue
					}
					done[pc] = true
					for _, u := range byPC[pc] {
						if !have[u.Name] {
							have[u.Name] = true
							depNames[u.Name] = true
							add = append(add, u)
						}
					}
				}
			}
			if len(add) == 0 {
				break
			}
			sort.Slice(add, func(i, j int) bool { return add[i].Name < add[j].Name })
			more := make([]*UnitResult, len(add))
			for i, u := range add {
				wg.Add(1)
				sem <- struct{}{}
				go func(i int, u *Unit) {
					defer wg.Done()
					defer func() { <-sem }()
					more[i] = verifyUnitRepair(ld, db, specs, u, "")
				}(i, u)
			}
			wg.Wait()
			units = append(units, add...)
			results = append(results, more...)
			frontier = more
		}
	}
	var obs []*Oblig
	assumed := map[string]bool{}
	perUnit := map[string]int{}
	// library lemmas used by the units: one induction proof per distinct instantiated lemma
	seenLemma := map[string]bool{}
	var lemmaObs []*Oblig
	for _, r := range results {
		for _, lo := range r.LemmaObs {
			if !seenLemma[lo.Goal.S] {
				seenLemma[lo.Goal.S] = true
				lemmaObs = append(lemmaObs, lo)
			}
		}
	}
	if len(lemmaObs) > 0 {
		results = append(results, &UnitResult{Unit: "specs.lemmas", Obs: lemmaObs})
	}
	for _, r := range results {
		for _, p := range r.Problems {
			problems = append(problems, r.Unit+": "+p)
		}
		for _, a := range r.Assumed {
			assumed[a] = true
		}
		obs = append(obs, r.Obs...)
		perUnit[r.Unit] = len(r.Obs)
	}
	scratch, err := os.MkdirTemp("", "govc-"+id+"-")
	if err != nil {
		return fail(err.Error())
	}
	if !o.keep {
		defer os.RemoveAll(scratch)
	} else {
		fmt.Println("scratch:", scratch)
	}
	ms := 20000 // well above the slowest obligation on the pinned tree (about 1 s, 3 s under load)
	all := false
	if o.tier == "thorough" {
		ms = 60000
		all = true
	}
	known := loadKnown()
	for _, ob := range obs {
		for i := range known.Findings {
			k := &known.Findings[i]
			if k.Property == id && k.Obligation == ob.Name && k.Status == "open" {
				ob.Quick = true // a listed finding is expected not to discharge: do not wait long for it
			}
		}
	}
	dischargeAll(obs, scratch, ms, all, runtime.NumCPU()/2+1)
	// an obligation no solver decided within the limit is tried once more, few at a time and
	// with three times the limit: on a loaded machine a 1 s query can exceed the limit while
	// 16 solver processes compete, and a timeout must not be reported as a violation
	var again []*Oblig
	for _, ob := range obs {
		if ob.Status == "unknown" && !ob.Cover && !ob.Quick && !strings.Contains(ob.Detail, "DISAGREEMENT") && timedOut(ob.Detail, ms) {
			again = append(again, ob)
		}
	}
	if len(again) > 0 && len(again) <= 12 {
		sub := filepath.Join(scratch, "retry")
		os.MkdirAll(sub, 0o755)
		first := map[*Oblig]string{}
		for _, ob := range again {
			first[ob] = ob.Detail
		}
		dischargeAll(again, sub, ms*3, false, 3)
		for _, ob := range again {
			ob.Detail = "first attempt undecided (" + first[ob] + "); retried alone: " + ob.Detail
		}
	}

	isKnown := func(name string) *KnownFinding {
		for i := range known.Findings {
			k := &known.Findings[i]
			if k.Property == id && k.Obligation == name && k.Status == "open" {
				return k
			}
		}
		return nil
	}
	violations := 0
	var recs []obRecord
	solverTime := map[string]float64{}
	solverCount := map[string]int{}
	nProof, nProved, nCover, nCovered, nCoverUnknown := 0, 0, 0, 0, 0
	var failed []*Oblig
	var unreachable []string
	knownSeen := map[string]bool{}
	for _, ob := range obs {
		recs = append(recs, obRecord{ob.Name, ob.Kind, ob.Status, ob.Solver, ob.Secs, ob.Pos, ob.Src})
		if ob.Solver != "" {
			solverTime[ob.Solver] += ob.Secs
			solverCount[ob.Solver]++
		}
		if ob.Cover {
			nCover++
			switch ob.Status {
			case "covered":
				nCovered++
			case "vacuous":
				// an unreachable exit is dead (defensive) code, not an alarm; an unsatisfiable
				// entry means contradictory preconditions: the unit proves nothing
				if strings.HasSuffix(ob.Name, ":cover:entry") {
					failed = append(failed, ob)
				} else {
					unreachable = append(unreachable, ob.Name)
				}
			default:
				nCoverUnknown++
			}
			continue
		}
		nProof++
		if ob.Status == "proved" {
			nProved++
		} else {
			failed = append(failed, ob)
		}
		if o.verbose {
			fmt.Printf("  %-8s %-70s %s %.2fs\n", ob.Status, ob.Name, ob.Solver, ob.Secs)
		}
	}
	os.MkdirAll(filepath.Join(outRoot, "replays"), 0o755)
	var knownLines []string
	var samples []any
	reported := map[string]bool{}
	for _, ob := range failed {
		if k := isKnown(ob.Name); k != nil {
			if !knownSeen[ob.Name] {
				knownSeen[ob.Name] = true
				knownLines = append(knownLines, fmt.Sprintf("KNOWN-FINDING: property=%s %s: %s", id, ob.Name, k.What))
			}
			continue
		}
		if reported[ob.Name] {
			continue
		}
		reported[ob.Name] = true
		violations++
		rp := reportViolation(id, ob, scratch, o)
		samples = append(samples, map[string]any{"obligation": ob.Name, "status": ob.Status, "replay": rp})
	}
	for _, p := range problems {
		violations++
		rp := filepath.Join(outRoot, "replays", id+"-"+sanitize(firstN(p, 80))+".json")
		b, _ := json.MarshalIndent(map[string]any{"property": id, "obligation": "model:supported-subset", "problem": p,
			"meaning": "a construct or contract could not be translated: the function is unverifiable, which is reported as an undischarged obligation"}, "", " ")
		os.WriteFile(rp, b, 0o644)
		fmt.Printf("UNVERIFIABLE: %s\n", p)
		fmt.Printf("VIOLATION property=%s replay=%s no-failing-input-found\n", id, rp)
	}
	// vacuity guard: the obligation count must not shrink below the pinned number
	if exp := expectedObligations(id); exp > 0 && nProof < exp && o.only == "" {
		violations++
		rp := filepath.Join(outRoot, "replays", id+"-obligation-count.json")
		b, _ := json.MarshalIndent(map[string]any{"property": id, "obligation": "vacuity:obligation-count", "expected_at_least": exp, "generated": nProof}, "", " ")
		os.WriteFile(rp, b, 0o644)
		fmt.Printf("VIOLATION property=%s replay=%s no-failing-input-found\n", id, rp)
	}
	// vacuity: a unit none of whose exits is reachable proves nothing about its postconditions
	// (single unreachable exits are dead defensive code and are only listed in the evidence)
	{
		exits := map[string][2]int{} // unit -> (exit covers, of which vacuous)
		for _, ob := range obs {
			if !ob.Cover || !strings.Contains(ob.Name, ":cover:exit") {
				continue
			}
			u := ob.Name[:strings.Index(ob.Name, ":cover:exit")]
			c := exits[u]
			c[0]++
			if ob.Status == "vacuous" {
				c[1]++
			}
			exits[u] = c
		}
		for _, u := range sortedKeys(exits) {
			c := exits[u]
			if c[0] > 0 && c[0] == c[1] {
				violations++
				rp := filepath.Join(outRoot, "replays", id+"-"+sanitize(u)+"-no-reachable-exit.json")
				b, _ := json.MarshalIndent(map[string]any{"property": id, "obligation": u + ":vacuity:no-reachable-exit",
					"meaning": "no exit of this unit is reachable under its contract and the contracts of its callees: its postconditions hold vacuously (contradictory assumptions)"}, "", " ")
				os.WriteFile(rp, b, 0o644)
				fmt.Printf("FAILED %s:vacuity:no-reachable-exit [vacuous] every exit of the unit is unreachable: its postconditions prove nothing\n", u)
				fmt.Printf("VIOLATION property=%s replay=%s no-failing-input-found\n", id, rp)
			}
		}
	}
	for _, l := range knownLines {
		fmt.Println(l)
	}
	// evidence
	if len(samples) == 0 {
		for i, r := range recs {
			if i%(len(recs)/6+1) == 0 {
				samples = append(samples, r)
			}
		}
	}
	fnList := make([]string, 0, len(perUnit))
	for u, n := range perUnit {
		if depNames[u] {
			fnList = append(fnList, fmt.Sprintf("%s (%d) [dependency: its contract is relied on by a unit of this property]", u, n))
			continue
		}
		fnList = append(fnList, fmt.Sprintf("%s (%d)", u, n))
	}
	sort.Strings(fnList)
	cov := map[string]any{
		"obligations":              nProof,
		"discharged":               nProved,
		"cover_queries":            nCover,
		"cover_sat":                nCovered,
		"cover_undecided":          nCoverUnknown,
		"unreachable_paths":        unreachable,
		"functions_under_contract": fnList,
		"solver_seconds":           solverTime,
		"solver_wins":              solverCount,
		"known_findings_hit":       knownLines,
		"contract_notes":           db.notes,
		"spec_hashes":              specs.Hashes,
	}
	{
		// the spec library is compared with independent Go reference implementations on ground
		// instances (bounded validation of an assumption, never counted as proved)
		n := 12
		if o.tier == "thorough" {
			n = 60
		}
		sr := validateSpecs(specs, scratch, n, 20261001+int64(o.seed))
		cov["spec_validation_bounded"] = map[string]any{"spec_functions": sr.Functions, "ground_instances": sr.Instances, "agree_with_go_reference": sr.Agreed,
			"canary_wrong_value_refuted": sr.Canary == "sat", "not_covered": "layout functions (flatten, validloc: tied to the compiler's addresses by probes/C01/axiom_layout_test.go instead), duct tree functions, order axioms"}
		for _, f := range sr.Failures {
			violations++
			rp := filepath.Join(outRoot, "replays", id+"-spec-validation.json")
			b, _ := json.MarshalIndent(map[string]any{"property": id, "obligation": "specs:validation", "meaning": "a spec function of /verif/specs disagrees with its reference implementation: no proof against it can be believed", "detail": sr.Failures}, "", " ")
			os.MkdirAll(filepath.Dir(rp), 0o755)
			os.WriteFile(rp, b, 0o644)
			fmt.Printf("FAILED specs:validation %s\n", f)
			fmt.Printf("VIOLATION property=%s replay=%s no-failing-input-found\n", id, rp)
			break
		}
	}
	if o.tier == "thorough" && !o.noprobe && o.only == "" {
		// bounded testing of the real code by the directed probe corpus: a probe that fails
		// (twice in a row: some probes use wall-clock time) is a failing input; passing probes
		// prove nothing and are only counted
		var pres []map[string]any
		for _, p := range loadProbes(id) {
			out, failed := runProbe(p, o.repo)
			if failed {
				out, failed = runProbe(p, o.repo)
			}
			switch {
			case failed:
				violations++
				rp := filepath.Join(outRoot, "replays", id+"-probe-"+sanitize(filepath.Base(p.file))+".json")
				b, _ := json.MarshalIndent(map[string]any{"property": id, "obligation": "probe:" + filepath.Base(p.file), "probe": p.file,
					"meaning": "a directed test of the probe corpus fails on the real code: this is a failing input for the property (bounded testing; found although every proof obligation was discharged or independently of them)",
					"output":  out}, "", " ")
				os.WriteFile(rp, b, 0o644)
				fmt.Printf("FAILED probe:%s fails on the real code\n%s\n", filepath.Base(p.file), firstN(out, 1200))
				fmt.Printf("VIOLATION property=%s replay=%s\n", id, rp)
				pres = append(pres, map[string]any{"probe": p.file, "result": "FAILED"})
			case strings.Contains(out, "[build failed]") || strings.Contains(out, "[setup failed]"):
				pres = append(pres, map[string]any{"probe": p.file, "result": "could not be built against this tree (not an alarm)"})
			default:
				pres = append(pres, map[string]any{"probe": p.file, "result": "passed"})
			}
		}
		cov["probes_bounded_testing_not_counted_as_proved"] = pres
	}
	if o.tier == "thorough" && !o.nocorpus && o.only == "" {
		res, missed := mustFailCorpus(id, o)
		cov["must_fail_corpus"] = res
		for _, m := range missed {
			violations++
			rp := filepath.Join(outRoot, "replays", id+"-must-fail-"+sanitize(m)+".json")
			b, _ := json.MarshalIndent(map[string]any{"property": id, "obligation": "vacuity:must-fail:" + m,
				"meaning": "a recorded property-breaking change (see /verif/seeded/" + id + "/meta.json) applied to a scratch copy of the current tree was NOT reported by this check: the check has lost its power on this tree"}, "", " ")
			os.WriteFile(rp, b, 0o644)
			fmt.Printf("FAILED vacuity:must-fail:%s (the seeded change is not detected)\n", m)
			fmt.Printf("VIOLATION property=%s replay=%s no-failing-input-found\n", id, rp)
		}
	}
	writeEvidence(id, o, t0, cov, samples, recs, sortedKeys(assumed), violations, db, problems)
	fmt.Printf("%s %s: %d units, %d/%d obligations discharged, %d/%d covers sat (%d undecided), %d known findings, %d violations, %.1fs\n",
		id, o.tier, len(units), nProved, nProof, nCovered, nCover, nCoverUnknown, len(knownLines), violations, time.Since(t0).Seconds())
	if violations > 0 {
		return 1
	}
	return 0
}

func firstN(s string, n int) string {
	if len(s) > n {
		return s[:n]
	}
	return s
}

func expectedObligations(id string) int {
	b, err := os.ReadFile(filepath.Join(verifRoot, "expected_obligations.json"))
	if err != nil {
		return 0
	}
	m := map[string]int{}
	json.Unmarshal(b, &m)
	return m[id]
}

func reportViolation(id string, ob *Oblig, scratch string, o checkOpts) string {
	base := filepath.Join(outRoot, "replays", id+"-"+sanitize(ob.Name))
	smtFile := base + ".smt2"
	os.WriteFile(smtFile, []byte(ob.smt(false)), 0o644)
	model := ""
	if ob.Status == "failed" {
		model = getModel(ob, scratch, 99000+len(ob.Name), 10000)
	}
	probe := ""
	suffix := " no-failing-input-found"
	if !o.noprobe {
		if out, failedProbe := runProbes(id, ob, o); failedProbe {
			probe = out
			suffix = ""
		} else {
			probe = out
		}
	}
	rec := map[string]any{
		"property":   id,
		"obligation": ob.Name,
		"kind":       ob.Kind,
		"status":     ob.Status,
		"position":   ob.Pos,
		"clause":     ob.Src,
		"solver":     ob.Detail,
		"smt_query":  smtFile,
		"model":      firstN(model, 20000),
		"probe":      probe,
		"meaning":    "the verifier could not discharge this obligation generated from the current source",
	}
	if suffix != "" {
		rec["failing_input"] = "no-failing-input-found"
	}
	b, _ := json.MarshalIndent(rec, "", " ")
	rp := base + ".json"
	os.WriteFile(rp, b, 0o644)
	fmt.Printf("FAILED %s [%s] at %s: %s\n", ob.Name, ob.Status, ob.Pos, ob.Src)
	fmt.Printf("VIOLATION property=%s replay=%s%s\n", id, rp, suffix)
	return rp
}

func writeEvidence(id string, o checkOpts, t0 time.Time, cov map[string]any, samples []any, recs []obRecord, assumed []string, violations int, db *ContractDB, problems []string) {
	os.MkdirAll(filepath.Join(outRoot, "evidence"), 0o755)
	// the level recorded is the one claimed for the property in MANIFEST.json ("proof", or
	// "other" where part of the property is not decided by this family or a known finding is
	// open); a run that does not discharge everything is never recorded as a proof
	level := claimedCategory(id)
	if cov == nil {
		cov = map[string]any{"explanation": "engine error before any obligation was generated"}
		level = "other"
	} else {
		nP, _ := cov["obligations"].(int)
		nD, _ := cov["discharged"].(int)
		if nP != nD || nP == 0 {
			level = "other"
			cov["explanation"] = fmt.Sprintf("%d of %d obligations discharged; the rest are reported as violations or known findings, so this run is not a complete proof", nD, nP)
		} else if level != "proof" {
			cov["explanation"] = fmt.Sprintf("all %d obligations generated for this property were discharged; the level is not 'proof' because part of the property statement is not decided by contract-based verification here (see level_note in MANIFEST.json and DESIGN.md section 7)", nP)
		}
	}
	cov["checker_cmd"] = fmt.Sprintf("/verif/bin/govc check -property %s -tier %s", id, o.tier)
	tb := append([]string{
		"Go -> symbolic execution translation and VC generation of /verif/engine (exercised by the must-fail corpus, not verified)",
		"SMT solvers z3 5.1.0, cvc5 1.0.3, z3 4.8.12 (raced; cross-checked in the thorough tier)",
		"spec functions in /verif/specs mean what their names say (the list and trace functions are compared with Go reference implementations on random ground instances in every run: bounded validation, see coverage.spec_validation_bounded; the layout, duct-tree and order specs are read by eye only)",
		"heap well-formedness: references read from variables and fields are allocated; user-supplied functions do not panic, do not touch the structures under proof and do not retain their arguments",
	}, assumed...)
	cov["trusted_base"] = tb
	if samples == nil {
		samples = []any{"none"}
	}
	cov["samples"] = samples
	cov["dropped_by_extraction"] = []string{"logging and formatting calls", "panic payloads", "durations (ghost ticks)", "machine integers are mathematical with explicit overflow obligations unless a unit opts out"}
	if len(problems) > 0 {
		cov["unverifiable"] = problems
	}
	if recs != nil && (o.tier == "thorough" || len(recs) <= 400) {
		cov["obligation_list"] = recs
	}
	ev := map[string]any{
		"property_id": id,
		"tier":        o.tier,
		"seed":        o.seed,
		"level":       level,
		"coverage":    cov,
		"assumptions": tb,
		"wall_s":      time.Since(t0).Seconds(),
		"violations":  violations,
	}
	b, _ := json.MarshalIndent(ev, "", " ")
	os.WriteFile(filepath.Join(outRoot, "evidence", id+".json"), b, 0o644)
}

func claimedCategory(id string) string {
	b, err := os.ReadFile(filepath.Join(verifRoot, "MANIFEST.json"))
	if err != nil {
		return "proof"
	}
	var m struct {
		Checks []struct {
			PropertyID string `json:"property_id"`
			Level      struct {
				Category string `json:"category"`
			} `json:"level_claimed"`
		} `json:"checks"`
	}
	if json.Unmarshal(b, &m) != nil {
		return "proof"
	}
	for _, c := range m.Checks {
		if c.PropertyID == id && c.Level.Category != "" {
			return c.Level.Category
		}
	}
	return "proof"
}

func cmdReplay(args []string) int {
	if len(args) < 1 {
		fmt.Fprintln(os.Stderr, "usage: govc replay <replay.json>")
		return 2
	}
	b, err := os.ReadFile(args[0])
	if err != nil {
		fmt.Fprintln(os.Stderr, err)
		return 2
	}
	var rec map[string]any
	json.Unmarshal(b, &rec)
	fmt.Printf("property %v obligation %v\n", rec["property"], rec["obligation"])
	if q, ok := rec["smt_query"].(string); ok {
		for _, s := range solvers {
			r := runSolver(contextBackground(), s, q, 20000)
			fmt.Printf("  %s: %s (%.2fs)\n", s.Name, r.ans, r.secs)
		}
	}
	if p, ok := rec["probe"].(string); ok && p != "" {
		fmt.Println(p)
	}
	return 0
}

// mustFailCorpus (thorough tier): every recorded seeded change of the property is applied to
// a scratch copy of the current working tree and the quick check is run on the copy; the
// change must fail at least one obligation. A patch that does not apply to the current tree
// is skipped (the tree was edited where the patch applies). Scratch copies are removed.
func mustFailCorpus(id string, o checkOpts) ([]map[string]any, []string) {
	var out []map[string]any
	var missed []string
	patches, _ := filepath.Glob(filepath.Join(verifRoot, "seeded", id, "*.diff"))
	sort.Strings(patches)
	self, err := os.Executable()
	if err != nil {
		self = filepath.Join(verifRoot, "bin", "govc")
	}
	for _, pt := range patches {
		name := filepath.Base(pt)
		scratch, err := os.MkdirTemp("", "govc-corpus-"+id+"-")
		if err != nil {
			continue
		}
		func() {
			defer os.RemoveAll(scratch)
			cp := exec.Command("cp", "-r", o.repo, filepath.Join(scratch, "repo"))
			if b, err := cp.CombinedOutput(); err != nil {
				out = append(out, map[string]any{"patch": name, "result": "skipped: copy failed: " + string(b)})
				return
			}
			os.RemoveAll(filepath.Join(scratch, "repo", ".git"))
			ap := exec.Command("git", "apply", "--whitespace=nowarn", pt)
			ap.Dir = filepath.Join(scratch, "repo")
			if b, err := ap.CombinedOutput(); err != nil {
				out = append(out, map[string]any{"patch": name, "result": "skipped: does not apply to the current tree", "detail": firstN(string(b), 200)})
				return
			}
			ck := exec.Command(self, "check", "-property", id, "-tier", "quick", "-repo", filepath.Join(scratch, "repo"),
				"-outdir", filepath.Join(scratch, "out"), "-noprobe")
			ck.Dir = verifRoot
			b, _ := ck.CombinedOutput()
			var failed []string
			for _, ln := range strings.Split(string(b), "\n") {
				if strings.HasPrefix(ln, "FAILED ") || strings.HasPrefix(ln, "UNVERIFIABLE") {
					f := strings.Fields(ln)
					if len(f) > 1 {
						failed = append(failed, f[1])
					}
				}
			}
			code := ck.ProcessState.ExitCode()
			if code == 1 && len(failed) > 0 {
				out = append(out, map[string]any{"patch": name, "result": "detected", "failed_obligations": uniq(failed)})
			} else {
				out = append(out, map[string]any{"patch": name, "result": "MISSED", "exit": code})
				missed = append(missed, name)
			}
		}()
	}
	return out, missed
}

func uniq(xs []string) []string {
	seen := map[string]bool{}
	var out []string
	for _, x := range xs {
		if !seen[x] {
			seen[x] = true
			out = append(out, x)
		}
	}
	if len(out) > 8 {
		out = out[:8]
	}
	return out
}

// cmdProbes runs the directed probe corpus of a property against the real code (bounded
// testing: a failure is a failing input, a pass proves nothing).
func cmdProbes(args []string) int {
	fs := flag.NewFlagSet("probes", flag.ExitOnError)
	prop := fs.String("property", "", "property id")
	repo := fs.String("repo", "/repo", "repository root")
	n := fs.Int("n", 1, "repetitions")
	fs.Parse(args)
	rc := 0
	for _, p := range loadProbes(*prop) {
		fails := 0
		var last string
		for i := 0; i < *n; i++ {
			out, failed := runProbe(p, *repo)
			if failed || strings.Contains(out, "[build failed]") || strings.Contains(out, "[setup failed]") {
				fails++
				last = out
			}
		}
		fmt.Printf("%s: %d/%d runs failed\n", p.file, fails, *n)
		if fails > 0 {
			rc = 1
			fmt.Println(firstN(last, 1500))
		}
	}
	return rc
}

// countLoops: for and range statements of a body, nested function literals excluded.
func countLoops(body ast.Node) int {
	n := 0
	ast.Inspect(body, func(m ast.Node) bool {
		switch m := m.(type) {
		case *ast.FuncLit:
			return m == body
		case *ast.ForStmt, *ast.RangeStmt:
			n++
		}
		return true
	})
	return n
}

// cmdLoops prints, for every unit whose contract has loop clauses, the contract file, the
// line of its func / sub clause and the number of loops of its body on the current tree
// (tools/pin_loops.py writes them into the contracts as `loops N`).
func cmdLoops(args []string) int {
	fs := flag.NewFlagSet("loops", flag.ExitOnError)
	repo := fs.String("repo", "/repo", "repository root")
	fs.Parse(args)
	specs, err := LoadSpecs(filepath.Join(verifRoot, "specs"))
	_ = specs
	if err != nil {
		fmt.Println(err)
		return 2
	}
	ld := NewLoader(*repo)
	db, err := LoadContracts(ld, *repo, filepath.Join(verifRoot, "contracts"))
	if err != nil {
		fmt.Println(err)
		return 2
	}
	seen := map[string]bool{}
	for _, path := range sortedKeys(db.files) {
		cf := db.files[path]
		pkg, err := ld.Load(path)
		if err != nil {
			continue
		}
		for i := 1; i <= 20; i++ {
			id := fmt.Sprintf("C%02d", i)
			us, _ := unitsOf(ld, db, pkg, cf, id)
			for _, u := range us {
				if u.Proc == nil || len(u.Proc.Loops) == 0 {
					continue
				}
				var body ast.Node
				if u.Lit != nil {
					body = u.Lit.Body
				} else if u.Decl != nil && u.Decl.Body != nil {
					body = u.Decl.Body
				}
				if body == nil {
					continue
				}
				key := fmt.Sprintf("%s\t%d", u.Proc.File, u.Proc.Line)
				if seen[key] {
					continue
				}
				seen[key] = true
				fmt.Printf("%s\t%d\t%s\n", key, countLoops(body), u.Name)
			}
		}
	}
	return 0
}

// timedOut: every solver that answered "unknown" ran into the time limit (a solver that gives
// up early has decided that it cannot decide; one that was cut off may just have been slow)
func timedOut(detail string, ms int) bool {
	re := regexp.MustCompile(`:unknown:([0-9.]+)s`)
	ms2 := re.FindAllStringSubmatch(detail, -1)
	if len(ms2) == 0 {
		return false
	}
	for _, m := range ms2 {
		t, _ := strconv.ParseFloat(m[1], 64)
		if t < 0.8*float64(ms)/1000 {
			return false
		}
	}
	return true
}
