package main

import (
	"fmt"
	"go/ast"
	"go/types"
	"strings"
)

// Exclusively owned trees as values (DESIGN section 3, memory abstraction 3).
//
// Directive in a contract file:   smt valuetree <Iface> <T1> <T2> ...
// Pointers to the listed struct types are created by &T{...}, moved into exactly one place
// and never duplicated (linearity: the property itself restricts to programs in which each
// intermediate value is used once); they are therefore modelled as values. The interface
// <Iface> whose values are such pointers is a sum datatype with one constructor per type.
// Methods with pointer receivers update their receiver in place: calls write the callee's
// final receiver back into the variable (and, for a child borrowed by a type switch from a
// container element, back into that element).
type valueTree struct {
	pkg    string
	iface  string
	types  []string
	sort   string // node sort
	ctor   map[string]string
	ready  bool
}

func (x *Exec) valueTreeOf(n *types.Named) *valueTree {
	if n == nil || n.Obj().Pkg() == nil {
		return nil
	}
	vt, ok := x.vtrees[n.Obj().Pkg().Path()]
	if !ok {
		return nil
	}
	name := n.Origin().Obj().Name()
	if name == vt.iface {
		return vt
	}
	for _, t := range vt.types {
		if t == name {
			return vt
		}
	}
	return nil
}

func (x *Exec) isValuePtrType(t types.Type) bool {
	t = types.Unalias(t)
	if p, ok := t.(*types.Pointer); ok {
		t = types.Unalias(p.Elem())
	}
	n, ok := t.(*types.Named)
	if !ok {
		return false
	}
	vt := x.valueTreeOf(n)
	return vt != nil && n.Origin().Obj().Name() != vt.iface
}

// declareValueTree emits the mutually recursive datatypes of a value tree.
func (x *Exec) declareValueTree(vt *valueTree) {
	if vt.ready {
		return
	}
	vt.ready = true
	pkg, err := x.ld.Load(vt.pkg)
	if err != nil {
		x.unsupported(nil, "valuetree: cannot load %s", vt.pkg)
		return
	}
	vt.sort = "N_" + sanitize(vt.pkg+"."+vt.iface)
	lnode := "L_" + vt.sort
	vt.ctor = map[string]string{}
	// struct sorts that contain the node list are declared together with the node sort
	type sdecl struct {
		name   string
		sort   string
		fields []string
		fsorts []string
		rec    bool
		st     *types.Struct
		named  *types.Named
	}
	var structs []sdecl
	for _, tn := range vt.types {
		obj, ok := pkg.Types.Scope().Lookup(tn).(*types.TypeName)
		if !ok {
			x.unsupported(nil, "valuetree: unknown type %s", tn)
			return
		}
		named := namedOf(obj.Type())
		st := named.Underlying().(*types.Struct)
		sd := sdecl{name: tn, sort: "S_" + sanitize(qualName(named)), st: st, named: named}
		for i := 0; i < st.NumFields(); i++ {
			f := st.Field(i)
			sd.fields = append(sd.fields, f.Name())
			if sl, ok := types.Unalias(f.Type()).(*types.Slice); ok {
				if in := namedOf(sl.Elem()); in != nil && x.valueTreeOf(in) == vt && in.Obj().Name() == vt.iface {
					sd.fsorts = append(sd.fsorts, lnode)
					sd.rec = true
					continue
				}
			}
			sd.fsorts = append(sd.fsorts, "")
		}
		structs = append(structs, sd)
	}
	// pre-register so that sortOf of these types resolves during field sort computation
	x.d.sorts[vt.sort] = &SortInfo{Kind: "node"}
	x.d.sorts[lnode] = &SortInfo{Kind: "list", Elem: vt.sort}
	for i := range structs {
		sd := &structs[i]
		for j, fs := range sd.fsorts {
			if fs == "" {
				sd.fsorts[j] = x.sortOf(sd.st.Field(j).Type())
			}
		}
		x.d.sorts[sd.sort] = &SortInfo{Kind: "struct", Fields: sd.fields, FSorts: sd.fsorts, Ctor: "mk_" + sd.sort, Go: sd.named}
		x.d.seen["sort:"+sd.sort] = true
	}
	var b strings.Builder
	var names []string
	names = append(names, "("+vt.sort+" 0)", "("+lnode+" 0)")
	var recBodies []string
	var plain []string
	for _, sd := range structs {
		var fl strings.Builder
		for j, f := range sd.fields {
			fmt.Fprintf(&fl, " (%s_%s %s)", sd.sort, sanitize(f), sd.fsorts[j])
		}
		body := fmt.Sprintf("((mk_%s%s))", sd.sort, fl.String())
		if sd.rec {
			names = append(names, "("+sd.sort+" 0)")
			recBodies = append(recBodies, body)
		} else {
			plain = append(plain, fmt.Sprintf("(declare-datatypes ((%s 0)) (%s))", sd.sort, body))
		}
	}
	for _, p := range plain {
		b.WriteString(p + "\n")
	}
	var ctors strings.Builder
	for _, sd := range structs {
		c := "n_" + sanitize(sd.name)
		vt.ctor[sd.name] = c
		fmt.Fprintf(&ctors, " (%s (%s_v %s))", c, c, sd.sort)
	}
	fmt.Fprintf(&ctors, " (n_nil_%s)", vt.sort)
	fmt.Fprintf(&b, "(declare-datatypes (%s) (\n (%s)\n ((nil_%s) (cons_%s (hd_%s %s) (tl_%s %s)))", strings.Join(names, " "), strings.TrimSpace(ctors.String()), lnode, lnode, lnode, vt.sort, lnode, lnode)
	for _, rb := range recBodies {
		b.WriteString("\n " + rb)
	}
	b.WriteString("))")
	x.d.decl("sort:"+vt.sort, b.String())
	// list functions for the node list
	tmpl := x.d.specs.Templates["List"]
	var keep []string
	for _, l := range strings.Split(tmpl, "\n") {
		if !strings.HasPrefix(strings.TrimSpace(l), "(declare-datatypes") {
			keep = append(keep, l)
		}
	}
	t2 := strings.ReplaceAll(strings.ReplaceAll(strings.Join(keep, "\n"), "{L}", lnode), "{E}", vt.sort)
	x.d.decl("tmpl:ListFns:"+lnode, t2)
	x.d.insts = append(x.d.insts, tmplInst{"List", map[string]string{"L": lnode, "E": vt.sort}})
}

// nodeSortOf: the sort of the tree interface, or of a pointer/value of a tree struct type.
func (x *Exec) valueTreeSort(t types.Type) (string, bool) {
	u := types.Unalias(t)
	if p, ok := u.(*types.Pointer); ok {
		u = types.Unalias(p.Elem())
	}
	n, ok := u.(*types.Named)
	if !ok {
		return "", false
	}
	vt := x.valueTreeOf(n)
	if vt == nil {
		return "", false
	}
	x.declareValueTree(vt)
	if n.Origin().Obj().Name() == vt.iface {
		return vt.sort, true
	}
	return "S_" + sanitize(qualName(n)), true
}

// nodeWrap: a tree struct value seen as the tree interface.
func (x *Exec) nodeWrap(v Term, from types.Type) (Term, bool) {
	u := types.Unalias(from)
	if p, ok := u.(*types.Pointer); ok {
		u = types.Unalias(p.Elem())
	}
	n, ok := u.(*types.Named)
	if !ok {
		return Term{}, false
	}
	vt := x.valueTreeOf(n)
	if vt == nil {
		return Term{}, false
	}
	x.declareValueTree(vt)
	c, ok := vt.ctor[n.Origin().Obj().Name()]
	if !ok {
		return Term{}, false
	}
	return tApp(vt.sort, c, v), true
}

// nodeIs / nodeUnwrap for type switches and assertions.
func (x *Exec) nodeMatch(v Term, to types.Type) (isT Term, val Term, ok bool) {
	u := types.Unalias(to)
	if p, isP := u.(*types.Pointer); isP {
		u = types.Unalias(p.Elem())
	}
	n, isN := u.(*types.Named)
	if !isN {
		return
	}
	vt := x.valueTreeOf(n)
	if vt == nil || v.Sort != vt.sort {
		return
	}
	c, has := vt.ctor[n.Origin().Obj().Name()]
	if !has {
		return
	}
	so := "S_" + sanitize(qualName(n))
	val = tApp(so, c+"_v", v)
	val.Ty = to
	return tApp("Bool", "(_ is "+c+")", v), val, true
}

var _ = ast.NewIdent
