package main

import (
	"fmt"
	"go/ast"
	"go/types"
	"os"
	"path/filepath"
	"sort"
	"strings"
)

// Unit: one procedure under contract.
type Unit struct {
	Name   string
	Pkg    *Pkg
	CF     *ContractFile
	Proc   *ProcContract
	Decl   *ast.FuncDecl
	Lit    *ast.FuncLit    // for goK / fnK sub-procedures
	Outer  *ast.FuncDecl   // declaration enclosing the literal
	Impl   *ImplContract   // subtype unit: method checked against the interface contract
	Iface  *types.Named
	Method string
	Recv   *types.Named
	RecvPtr bool
	Lemma  *LemmaContract
	Inst   *InstanceCheck
	Props  []string
}

type UnitResult struct {
	LemmaObs []*Oblig
	Lemmas   []string
	Unit     string
	Obs      []*Oblig
	Problems []string
	Assumed  []string
	Unknown  []string // contract names that resolved to nothing
	Prelude  string
	Uses     []*ProcContract // callee contracts relied on
}

func newExec(ld *Loader, db *ContractDB, pkg *Pkg, cf *ContractFile, specs *SpecLib) *Exec {
	x := &Exec{ld: ld, pkg: pkg, info: pkg.Info, cf: cf, db: db, d: NewDecls(specs),
		tenv: map[string]string{}, typeParams: map[string]bool{}, adts: map[string]adtSpec{}, localSpec: map[string]localSig{},
		strLits: map[string]Term{}, opts: map[string]string{}, assumed: map[string]bool{},
		closures: map[types.Object]*ast.FuncLit{}, knownFns: map[string]knownFn{}, tags: map[string]Term{},
		spawnedRepeatedly: map[*ast.FuncLit]bool{}, usedAfter: map[types.Object]bool{}, wfSeen: map[string]bool{}, typeParamObjs: map[string]*types.TypeParam{}, mapSorts: map[string]string{}, tenvObj: map[*types.TypeParam]string{}, vtrees: map[string]*valueTree{}, borrow: map[types.Object]ast.Expr{}}
	return x
}

// extra Exec fields (kept here to keep sym.go focused on execution)
type execExtra struct{}

func (x *Exec) setupPkgDirectives() {
	// package-level directives of every contract file: adt models and local smt declarations
	for path, cf := range x.db.files {
		for _, dline := range cf.Decls {
			f := strings.Fields(dline)
			if len(f) >= 5 && f[0] == "adt" {
				// smt adt <type> list <head> <tail>
				x.adts[path+"."+f[1]] = adtSpec{Kind: f[2], Head: f[3], Tail: f[4]}
			}
			if len(f) >= 2 && f[0] == "slicemodel" && f[1] == "array" && path == x.pkg.Path {
				x.arraySlices = true
			}
			if len(f) >= 3 && f[0] == "valuetree" {
				// smt valuetree <Iface> <T1> <T2> ...
				x.vtrees[path] = &valueTree{pkg: path, iface: f[1], types: f[2:]}
			}
		}
	}
}

func (x *Exec) scanLiterals(body ast.Node) {
	// literals bound once to a local variable; literals spawned repeatedly; captured
	// variables used by the enclosing function after a go statement
	assigned := map[types.Object]int{}
	ast.Inspect(body, func(n ast.Node) bool {
		switch n := n.(type) {
		case *ast.AssignStmt:
			for i, l := range n.Lhs {
				id, ok := l.(*ast.Ident)
				if !ok {
					continue
				}
				o := x.info.ObjectOf(id)
				if o == nil {
					continue
				}
				assigned[o]++
				if i < len(n.Rhs) {
					if fl, ok := ast.Unparen(n.Rhs[i]).(*ast.FuncLit); ok {
						x.closures[o] = fl
					}
				}
			}
		}
		return true
	})
	for o, c := range assigned {
		if c > 1 {
			delete(x.closures, o)
		}
	}
	// spawned in a loop or at more than one go statement?
	count := map[*ast.FuncLit]int{}
	var walk func(n ast.Node, inLoop bool)
	walk = func(n ast.Node, inLoop bool) {
		ast.Inspect(n, func(m ast.Node) bool {
			switch m := m.(type) {
			case *ast.ForStmt:
				if m != n {
					walk(m.Body, true)
					return false
				}
			case *ast.RangeStmt:
				if m != n {
					walk(m.Body, true)
					return false
				}
			case *ast.GoStmt:
				var fl *ast.FuncLit
				if l, ok := ast.Unparen(m.Call.Fun).(*ast.FuncLit); ok {
					fl = l
				} else {
					fl = x.closureOf(m.Call.Fun)
				}
				if fl != nil {
					count[fl]++
					if inLoop {
						count[fl]++
					}
				}
			}
			return true
		})
	}
	walk(body, false)
	for fl, c := range count {
		if c > 1 {
			x.spawnedRepeatedly[fl] = true
		}
	}
	// captured-and-written variables that the enclosing function touches after the go
	ast.Inspect(body, func(n ast.Node) bool {
		g, ok := n.(*ast.GoStmt)
		if !ok {
			return true
		}
		var fl *ast.FuncLit
		if l, ok := ast.Unparen(g.Call.Fun).(*ast.FuncLit); ok {
			fl = l
		} else {
			fl = x.closureOf(g.Call.Fun)
		}
		if fl == nil {
			return true
		}
		for _, o := range x.capturedWrites(fl) {
			ast.Inspect(body, func(m ast.Node) bool {
				if m == nil {
					return true
				}
				if m.Pos() >= fl.Pos() && m.End() <= fl.End() {
					return false
				}
				if id, ok := m.(*ast.Ident); ok && id.Pos() > g.End() && x.info.ObjectOf(id) == o {
					x.usedAfter[o] = true
				}
				return true
			})
			// any other literal that mentions the variable shares it
			ast.Inspect(body, func(m ast.Node) bool {
				if ol, ok := m.(*ast.FuncLit); ok && ol != fl {
					for _, c := range x.captured(ol) {
						if c == o {
							x.usedAfter[o] = true
						}
					}
				}
				return true
			})
		}
		return true
	})
}

// makeEnv builds the contract environment of a procedure.
func (x *Exec) makeEnv(sig *types.Signature, recvName string, self Term, entryVals map[string]Term, ghosts map[string]Term, tsub map[string]string, impl *implCtx) func(st *State, post bool) *CEnv {
	return func(st *State, post bool) *CEnv {
		env := &CEnv{names: map[string]Term{}, st: st, tsub: tsub, self: self, impl: impl}
		for k, v := range ghosts {
			env.names[k] = v
		}
		if post {
			for k, v := range entryVals {
				env.names[k] = v
			}
		} else {
			for k, v := range entryVals {
				if strings.HasPrefix(k, "$") {
					env.names[k] = v
				}
			}
		}
		env.lookup = func(name string) (Term, bool) {
			if r, ok := x.rename[name]; ok && !strings.HasPrefix(r, "expr:") {
				name = r
			}
			var best types.Object
			for o := range st.vars {
				if o.Name() != name {
					continue
				}
				if best == nil || o.Pos() > best.Pos() {
					best = o
				}
			}
			for o := range st.cells {
				if o.Name() == name && (best == nil || o.Pos() > best.Pos()) {
					best = o
				}
			}
			if best != nil {
				return x.getVar(st, best), true
			}
			if v, ok := entryVals[name]; ok {
				return v, true
			}
			return Term{}, false
		}
		return env
	}
}

// verifyUnit runs one unit and returns its obligations.
func verifyUnit(ld *Loader, db *ContractDB, specs *SpecLib, u *Unit, prop string) (res *UnitResult) {
	return verifyUnitRenamed(ld, db, specs, u, prop, nil)
}

func verifyUnitRenamed(ld *Loader, db *ContractDB, specs *SpecLib, u *Unit, prop string, rename map[string]string) (res *UnitResult) {
	x := newExec(ld, db, u.Pkg, u.CF, specs)
	x.rename = rename
	defer func() {
		if x.scratch != "" {
			os.RemoveAll(x.scratch)
		}
	}()
	x.curProp = prop
	x.unit = u.Name
	x.props = u.Props
	res = &UnitResult{Unit: u.Name}
	defer func() {
		if r := recover(); r != nil {
			if ce, ok := r.(cevalErr); ok {
				x.problems = append(x.problems, "contract: "+string(ce))
			} else {
				x.problems = append(x.problems, fmt.Sprintf("engine panic: %v", r))
				if os.Getenv("GOVC_DEBUG") != "" {
					panic(r)
				}
			}
		}
		// lemma library: opted-in lemmas become axioms for every instantiation of their
		// template; each instantiated lemma is itself proved by induction from the
		// definitions (obligation kind speclemma) in the prelude of this unit
		baseN := len(x.d.order)
		var lemmaTexts []string
		for _, ln := range splitList(x.opts["lemmas"]) {
			texts := x.d.useLemmaAll(ln)
			known := false
			for k := range specs.Templates {
				if strings.HasPrefix(k, "lemma:") && strings.HasSuffix(k, ":"+ln) {
					known = true
				}
			}
			if !known {
				x.problems = append(x.problems, "unknown lemma "+ln)
			}
			for _, t := range texts {
				lemmaTexts = append(lemmaTexts, ln+"\x00"+t)
			}
		}
		basePrelude := strings.Join(x.d.order[:baseN], "\n") + "\n"
		for _, lt := range lemmaTexts {
			ln, text, _ := strings.Cut(lt, "\x00")
			res.LemmaObs = append(res.LemmaObs, &Oblig{Name: "specs.lemma." + ln + ":speclemma", Kind: "speclemma", Props: x.props,
				Goal: Term{S: text, Sort: "Bool"}, Src: "library lemma " + ln + " follows from the definitions (structural induction): " + firstN(text, 200),
				Induct: true, Prelude: basePrelude})
		}
		res.Obs = x.obs
		res.Problems = x.problems
		res.Assumed = sortedKeys(x.assumed)
		res.Unknown = sortedKeys(x.unknownSeen)
		for pc := range x.usedPC {
			res.Uses = append(res.Uses, pc)
		}
		res.Prelude = x.d.Prelude()
		for _, o := range res.Obs {
			o.Prelude = res.Prelude
		}
	}()
	x.setupPkgDirectives()
	if u.Lemma != nil {
		x.lemmaUnit(u)
		return
	}
	if u.Inst != nil {
		x.instUnit(u)
		return
	}
	x.proc = u.Proc
	if u.CF != nil {
		for k, v := range u.CF.FileOpts {
			x.opts[k] = v
		}
	}
	for k, v := range u.Proc.Opts {
		x.opts[k] = v
	}
	if u.Proc.Parent != nil {
		for k, v := range u.Proc.Parent.Opts {
			if _, ok := x.opts[k]; !ok && (k == "overflow" || k == "calltrace" || k == "slices") {
				x.opts[k] = v
			}
		}
	}
	decl := u.Decl
	if decl == nil {
		decl = u.Outer
	}
	if decl != nil {
		fobj := u.Pkg.Info.Defs[decl.Name].(*types.Func)
		sig := fobj.Type().(*types.Signature)
		collectTP := func(l *types.TypeParamList) {
			for i := 0; l != nil && i < l.Len(); i++ {
				x.typeParams[l.At(i).Obj().Name()] = true
				x.typeParamObjs[l.At(i).Obj().Name()] = l.At(i)
			}
		}
		collectTP(sig.TypeParams())
		collectTP(sig.RecvTypeParams())
		x.scanLiterals(decl.Body)
		x.collectLocalAssigns(decl.Body)
	}
	if u.Impl != nil && u.Recv != nil {
		// type parameters of the implementer (as instantiated with themselves)
		if ta := u.Recv.TypeArgs(); ta != nil {
			for i := 0; i < ta.Len(); i++ {
				if tp, ok := ta.At(i).(*types.TypeParam); ok {
					x.typeParams[tp.Obj().Name()] = true
					x.typeParamObjs[tp.Obj().Name()] = tp
				}
			}
		}
	}
	switch {
	case u.Impl != nil:
		x.subtypeUnit(u)
	case u.Lit != nil:
		x.litUnit(u)
	default:
		x.funcUnit(u)
	}
	return
}

func (x *Exec) entryParam(st *State, v *types.Var, name string) Term {
	t := x.d.constant(sanitize("p_"+name), x.sortOf(v.Type()))
	t.Ty = v.Type()
	st.vars[v] = t
	x.assumeTypeInv(st, t)
	if t.Sort == "Ref" {
		st.assume(tOr(tEq(t, nullRef), x.isAlloc(st, t)))
	}
	return t
}

func (x *Exec) funcUnit(u *Unit) {
	decl := u.Decl
	fobj := x.info.Defs[decl.Name].(*types.Func)
	sig := fobj.Type().(*types.Signature)
	st := newState()
	entry := map[string]Term{}
	var self Term
	recvName := ""
	if sig.Recv() != nil {
		recvName = sig.Recv().Name()
		self = x.entryParam(st, sig.Recv(), "self")
		if _, isP := types.Unalias(sig.Recv().Type()).(*types.Pointer); isP && x.isValuePtrType(sig.Recv().Type()) {
			x.inoutRecv = sig.Recv()
		}
		entry["self"] = self
		if recvName != "" && recvName != "_" {
			entry[recvName] = self
		}
	}
	for i := 0; i < sig.Params().Len(); i++ {
		p := sig.Params().At(i)
		nm := p.Name()
		if nm == "" || nm == "_" {
			nm = fmt.Sprintf("arg%d", i)
		}
		t := x.entryParam(st, p, nm)
		entry[p.Name()] = t
		entry[fmt.Sprintf("$%d", i+1)] = t
	}
	x.number(decl.Body)
	// ghost protocol counters of a function start at zero
	st.ghosts["added"] = tInt(0)
	st.ghosts["spawned"] = tInt(0)
	st.ghosts["closerSpawned"] = tFalse
	st.ghosts["waited"] = tFalse
	x.runBody(u, st, sig, decl.Body, entry, self, nil)
}

func (x *Exec) litUnit(u *Unit) {
	// the literal's free variables are symbolic; its own parameters too
	sig := x.info.TypeOf(u.Lit).(*types.Signature)
	st := newState()
	entry := map[string]Term{}
	// number the enclosing body first so that nested literal ordinals are known, then the literal
	x.number(u.Lit.Body)
	for i := 0; i < sig.Params().Len(); i++ {
		p := sig.Params().At(i)
		t := x.entryParam(st, p, p.Name())
		entry[p.Name()] = t
		entry[fmt.Sprintf("$%d", i+1)] = t
	}
	for _, o := range x.captured(u.Lit) {
		t := x.getVar(st, o)
		x.assumeTypeInv(st, t)
		entry[o.Name()] = t
	}
	// parameters of the enclosing function, by position: $o1, $o2, ...
	if u.Outer != nil {
		if fo, ok := x.info.Defs[u.Outer.Name].(*types.Func); ok {
			osig := fo.Type().(*types.Signature)
			for i := 0; i < osig.Params().Len(); i++ {
				entry[fmt.Sprintf("$o%d", i+1)] = x.getVar(st, osig.Params().At(i))
			}
		}
	}
	if u.Proc.Pure {
		// a closure handed out as a value must not write variables declared outside it:
		// two activations (possibly concurrent) would share them
		for _, o := range x.transitiveCapturedWrites(u.Lit, map[*ast.FuncLit]bool{}) {
			x.oblige(st, "purity", "captured-write:"+o.Name(), tFalse, u.Lit, "pure closure writes variable "+o.Name()+" declared outside it (shared between activations)")
		}
		x.oblige(st, "purity", "no-shared-state", tTrue, u.Lit, "pure closure writes only its own variables")
	}
	// channels the body takes over: owned, open, nothing sent yet
	env0 := x.makeEnv(sig, "", Term{}, entry, nil, nil, nil)(st, true)
	if nm := u.Proc.Opts["tick"]; nm != "" {
		if d, ok := env0.lookup(nm); ok && d.Sort == "Int" {
			x.tickDur = d
		} else {
			x.problems = append(x.problems, "tick: unknown duration "+nm)
		}
	}
	for _, nm := range splitList(u.Proc.Opts["takes"]) {
		c, ok := env0.lookup(nm)
		if !ok {
			x.problems = append(x.problems, "takes: unknown channel "+nm)
			continue
		}
		st.assume(tNot(tEq(c, nullRef)))
		x.chSetFlag(st, "own", c, tTrue)
		x.chSetFlag(st, "closed", c, tFalse)
		x.chSetFlag(st, "drained", c, tFalse) // exclusively owned: nobody else can have closed it
		if u.Proc.Opts["closer"] == "" {
			x.chSetInt(st, "shares", c, tInt(0))
		}
		name, m, tr := x.chTrace(st, "sent", c)
		st.maps[name] = tStore(m, c, Term{S: "emp_" + tr, Sort: tr})
	}
	for _, nm := range splitList(u.Proc.Opts["shares"]) {
		c, ok := env0.lookup(nm)
		if !ok {
			x.problems = append(x.problems, "shares: unknown channel "+nm)
			continue
		}
		st.assume(tNot(tEq(c, nullRef)))
		x.chSetInt(st, "myshare", c, tInt(1))
		x.chSetFlag(st, "closed", c, tFalse)
		name, m, tr := x.chTrace(st, "sent", c)
		st.maps[name] = tStore(m, c, Term{S: "emp_" + tr, Sort: tr})
	}
	for _, nm := range splitList(u.Proc.Opts["closes"]) {
		// a channel this goroutine may close although its send side belongs to someone else
		if c, ok := env0.lookup(nm); ok {
			x.chSetFlag(st, "mayclose", c, tTrue)
			x.closesChans = append(x.closesChans, c)
			x.chSetFlag(st, "closed", c, tFalse)
			x.chSetInt(st, "shares", c, tInt(0))
		} else {
			x.problems = append(x.problems, "closes: unknown channel "+nm)
		}
	}
	for _, nm := range splitList(u.Proc.Opts["slot"]) {
		if c, ok := env0.lookup(nm); ok {
			x.chSetInt(st, "slots", c, tInt(1))
		} else {
			x.problems = append(x.problems, "slot: unknown channel "+nm)
		}
	}
	for _, nm := range splitList(u.Proc.Opts["inputs"]) {
		c, ok := env0.lookup(nm)
		if !ok {
			x.problems = append(x.problems, "inputs: unknown channel "+nm)
			continue
		}
		name, m, tr := x.chTrace(st, "rcvd", c)
		st.maps[name] = tStore(m, c, Term{S: "emp_" + tr, Sort: tr})
		x.chSetFlag(st, "drained", c, tFalse)
		x.inputChans = append(x.inputChans, c)
	}
	x.inGoroutine = true
	st.ghosts["sawCancel"] = tFalse
	st.ghosts["sleeps"] = tInt(0)
	st.ghosts["doneCalls"] = tInt(0)
	st.ghosts["waited"] = tFalse
	x.runBody(u, st, sig, u.Lit.Body, entry, Term{}, nil)
}

func (x *Exec) runBody(u *Unit, st *State, sig *types.Signature, body *ast.BlockStmt, entry map[string]Term, self Term, impl *implCtx) {
	if body != nil {
		x.collectLocalAssigns(body)
	}
	pc := u.Proc
	ghosts := map[string]Term{}
	mk := x.makeEnv(sig, "", self, entry, ghosts, nil, impl)
	if x.opts["calltrace"] == "on" {
		ev := x.d.Uninterp("CallEv")
		tr := x.d.TrOf(ev)
		st.ghosts["calls"] = x.d.constant("calls@0", tr)
	}
	// entry: requires are assumed
	for _, c := range pc.Requires {
		env := mk(st, true)
		env.old = st
		t, err := x.cevalSafe(env, c, "Bool")
		if err != nil {
			x.problems = append(x.problems, err.Error())
			continue
		}
		st.assume(t)
	}
	for _, g := range pc.Ghosts {
		env := mk(st, true)
		t, err := x.cevalSafe(env, Clause{Expr: g.Expr, Src: g.Src, Line: g.Line, File: pc.File}, "")
		if err != nil {
			x.problems = append(x.problems, err.Error())
			continue
		}
		ghosts[g.Name] = t
	}
	entrySt := st.clone()
	x.cover(st, "entry", body)
	fr := &Frame{proc: pc, sig: sig, entry: entrySt}
	fr.env = func(s *State) *CEnv {
		e := mk(s, false)
		e.old = entrySt
		return e
	}
	for i := 0; i < sig.Results().Len(); i++ {
		r := sig.Results().At(i)
		if r.Name() != "" && r.Name() != "_" {
			fr.results = append(fr.results, r)
			st.vars[r] = x.zero(r.Type())
		}
	}
	nret := 0
	fr.ret = func(s *State, res []Term) {
		x.runDefers(s, fr, func(e *State) {
			nret++
			x.cover(e, fmt.Sprintf("exit%d", nret), body)
			x.checkPost(u, e, entrySt, mk, res, body)
		})
	}
	if want := x.opts["delegates"]; want != "" && pc != nil {
		x.checkDelegation(st, body, sig, want)
	}
	if pc != nil && pc.LoopCount > 0 {
		if n := countLoops(body); n != pc.LoopCount {
			x.staleOrdinals = true
			x.assumed[fmt.Sprintf("%s: the body has %d loops, the contract was written for %d: loop ordinals are not trusted, invariants are inferred from the written clauses", x.unit, n, pc.LoopCount)] = true
		}
	}
	x.retOrd = map[*ast.ReturnStmt]int{}
	ast.Inspect(body, func(n ast.Node) bool {
		switch n := n.(type) {
		case *ast.FuncLit:
			return false
		case *ast.ReturnStmt:
			x.retOrd[n] = len(x.retOrd)
		}
		return true
	})
	x.block(st, fr, body.List, func(s *State) {
		if sig.Results().Len() > 0 && len(fr.results) == 0 {
			return
		}
		x.curRet = "end"
		var res []Term
		for _, o := range fr.results {
			res = append(res, x.getVar(s, o))
		}
		fr.ret(s, res)
	})
}

func (x *Exec) checkPost(u *Unit, e, entry *State, mk func(*State, bool) *CEnv, res []Term, n ast.Node) {
	pc := u.Proc
	env := mk(e, true)
	env.old = entry
	env.results = res
	if x.inoutRecv != nil {
		// the method updates its receiver in place: self is its final value, old(self) the entry value
		env.oldSelf = env.self
		env.self = x.getVar(e, x.inoutRecv)
		if x.inoutRecv.Name() != "" {
			env.names[x.inoutRecv.Name()] = env.self
		}
	}
	x.applySets(e, env, pc, n)
	x.applyGSets(e, env, pc, n)
	if (u.Decl != nil && u.Lit == nil && u.Impl == nil) || u.Impl != nil {
		x.checkFrame(e, entry, env, pc, n)
	}
	// panics_when is exact: a normal return means none of its conditions held at entry
	// (call sites rely on that)
	for i, c := range pc.PanicsWhen {
		penv := mk(entry, false)
		penv.old = entry
		for k2, v := range env.names {
			if _, has := penv.names[k2]; !has && !strings.HasPrefix(k2, "result") {
				penv.names[k2] = v
			}
		}
		t, err := x.cevalSafe(penv, c, "Bool")
		if err != nil {
			x.contractError(e, fmt.Sprintf("panics_when:%d", i), err, n)
			continue
		}
		x.oblige(e, "panic-exact", fmt.Sprintf("%d", i), tNot(t), n, "returns normally only when the panic condition does not hold: "+c.Src)
	}
	if env.impl != nil {
		// object invariant is re-established
		for i, c := range env.impl.ic.ObjInv {
			t, err := x.cevalSafe(env, c, "Bool")
			if err != nil {
				x.contractError(e, fmt.Sprintf("objinv:%d", i), err, n)
				continue
			}
			x.oblige(e, "objinv", fmt.Sprintf("exit:%d", i), t, n, c.Src)
		}
	}
	kind := "post"
	if u.Impl != nil {
		kind = "subtype"
		if _, has := u.Impl.Models[u.Method]; has && len(res) >= 1 {
			func() {
				defer func() {
					if r := recover(); r != nil {
						if ce, ok := r.(cevalErr); ok {
							x.contractError(e, "subtype:model", fmt.Errorf("%s", string(ce)), n)
							return
						}
						panic(r)
					}
				}()
				ps := u.Impl.MParams[u.Method]
				var args []CExpr
				for i := range ps {
					args = append(args, CIdent{fmt.Sprintf("$%d", i+1)})
				}
				env.where = "model " + u.Method
				if t, ok := x.expandModel(env, env.impl, u.Method, args); ok {
					if t.Sort != res[0].Sort {
						x.cfail(env, "model of %s has sort %s, the method returns %s", u.Method, t.Sort, res[0].Sort)
					}
					x.oblige(e, "subtype", "model:"+u.Method, tEq(res[0], t), n, "method returns its model: "+u.Impl.Models[u.Method].Src)
				}
				for k2 := 1; k2 < len(res); k2++ {
					nm := fmt.Sprintf("%s#%d", u.Method, k2)
					if _, has := u.Impl.Models[nm]; !has {
						continue
					}
					if t, ok := x.expandModel(env, env.impl, nm, args); ok {
						x.oblige(e, "subtype", "model:"+nm, tEq(res[k2], t), n, "method returns its model: "+u.Impl.Models[nm].Src)
					}
				}
			}()
		}
	}
	for i, c := range pc.Ensures {
		if len(c.Tags) > 0 && x.curProp != "" && !hasProp(c.Tags, x.curProp) {
			continue // the clause serves other properties
		}
		t, err := x.cevalSafe(env, c, "Bool")
		label := c.Label
		if label == "" {
			label = fmt.Sprintf("%d", i)
		}
		if err != nil {
			x.contractError(e, kind+":"+label, err, n)
			continue
		}
		x.oblige(e, kind, label, t, n, c.Src)
	}
}

func (x *Exec) cover(st *State, label string, n ast.Node) {
	if x.dry > 0 || st.dead {
		return
	}
	o := &Oblig{Name: x.unit + ":cover:" + label, Kind: "cover", Props: x.props, Assume: st.pc.list(), Goal: tTrue, Cover: true, Src: "path is reachable (vacuity guard)"}
	x.obs = append(x.obs, o)
}

// subtypeUnit: a method of an implementer type is verified against the interface method
// contract, with the abstract state of self given by the model clauses.
func (x *Exec) subtypeUnit(u *Unit) {
	st := newState()
	var recvT types.Type = u.Recv
	if u.RecvPtr {
		recvT = types.NewPointer(u.Recv)
	}
	var self Term
	treeRecv := false
	if so, ok := x.valueTreeSort(recvT); ok {
		// an owned tree node: the receiver is a value
		self = x.d.constant("self", so)
		self.Ty = recvT
		treeRecv = true
	} else {
		self = x.d.constant("self", "Ref")
		self.Ty = recvT
		st.assume(tNot(tEq(self, nullRef)))
		st.assume(x.isAlloc(st, self))
	}
	// interface type parameters -> sorts
	tsub := map[string]string{}
	tps := u.Iface.Origin().TypeParams()
	for i := 0; i < tps.Len() && u.Iface.TypeArgs() != nil && i < u.Iface.TypeArgs().Len(); i++ {
		tsub[tps.At(i).Obj().Name()] = x.sortOf(u.Iface.TypeArgs().At(i))
	}
	impl := &implCtx{self: self, ic: u.Impl}
	selfVal := self
	if treeRecv {
		if w, ok := x.nodeWrap(self, recvT); ok {
			selfVal = w // in the interface contract self is the tree interface value
			selfVal.Ty = u.Iface
		}
	} else if _, s, _ := structBehind(recvT); s == nil {
		selfVal = x.loadCell(st, self, recvT)
	}
	// find the method: declared on the type, or promoted
	var mobj *types.Func
	ms := types.NewMethodSet(recvT)
	var msel *types.Selection
	for i := 0; i < ms.Len(); i++ {
		if ms.At(i).Obj().Name() == u.Method {
			msel = ms.At(i)
			mobj = msel.Obj().(*types.Func)
		}
	}
	if mobj == nil {
		x.problems = append(x.problems, fmt.Sprintf("type %s has no method %s", recvT, u.Method))
		return
	}
	imeth := mobj
	// interface method signature (for parameter names)
	it := u.Iface.Underlying().(*types.Interface)
	for i := 0; i < it.NumMethods(); i++ {
		if it.Method(i).Name() == u.Method {
			imeth = it.Method(i)
		}
	}
	isig := imeth.Type().(*types.Signature)
	entry := map[string]Term{"self": self}
	var args []Term
	for i := 0; i < isig.Params().Len(); i++ {
		p := isig.Params().At(i)
		nm := p.Name()
		if nm == "" || nm == "_" {
			nm = fmt.Sprintf("arg%d", i)
		}
		t := x.d.constant(sanitize("p_"+nm), x.sortOf(p.Type()))
		t.Ty = p.Type()
		x.assumeTypeInv(st, t)
		entry[nm] = t
		entry[fmt.Sprintf("$%d", i+1)] = t
		args = append(args, t)
	}
	ghosts := map[string]Term{}
	mk := x.makeEnv(isig, "", selfVal, entry, ghosts, tsub, impl)
	// object invariant and interface precondition hold on entry
	for _, c := range u.Impl.ObjInv {
		env := mk(st, true)
		env.old = st
		if t, err := x.cevalSafe(env, c, "Bool"); err == nil {
			st.assume(t)
		} else {
			x.problems = append(x.problems, err.Error())
		}
	}
	for _, c := range u.Proc.Requires {
		env := mk(st, true)
		env.old = st
		if t, err := x.cevalSafe(env, c, "Bool"); err == nil {
			st.assume(t)
		} else {
			x.problems = append(x.problems, err.Error())
		}
	}
	entrySt := st.clone()
	decl, dpkg := x.ld.findDecl(mobj)
	declared := decl != nil && len(msel.Index()) == 1
	var body ast.Node
	fr := &Frame{proc: nil, sig: isig, entry: entrySt}
	fr.env = func(s *State) *CEnv {
		e := mk(s, false)
		e.old = entrySt
		return e
	}
	nret := 0
	fr.ret = func(s *State, res []Term) {
		x.runDefers(s, fr, func(e *State) {
			nret++
			x.cover(e, fmt.Sprintf("exit%d", nret), body)
			x.checkPost(u, e, entrySt, mk, res, body)
		})
	}
	x.cover(st, "entry", nil)
	if declared {
		// loop invariants of the method body live in the function contract of the method
		if pc, _ := x.db.lookupFunc(mobj); pc != nil {
			fr.proc = pc
			x.proc = pc
			for k, v := range pc.Opts {
				x.opts[k] = v
			}
		}
		_ = dpkg
		body = decl.Body
		x.number(decl.Body)
		x.scanLiterals(decl.Body)
		x.collectLocalAssigns(decl.Body)
		msig := mobj.Origin().Type().(*types.Signature)
		if r := msig.Recv(); r != nil && r.Name() != "" && r.Name() != "_" {
			var rv Term
			if u.RecvPtr || treeRecv {
				rv = self
			} else {
				rv = x.derefWhole(st, self, u.Recv, nil)
				rv.Ty = u.Recv
			}
			// receiver variable object as declared
			if len(decl.Recv.List[0].Names) > 0 {
				if o := x.info.Defs[decl.Recv.List[0].Names[0]]; o != nil {
					st.vars[o] = rv
				}
			}
		}
		for i := 0; i < msig.Params().Len() && i < len(args); i++ {
			st.vars[msig.Params().At(i)] = args[i]
		}
		for i := 0; i < msig.Results().Len(); i++ {
			r := msig.Results().At(i)
			if r.Name() != "" && r.Name() != "_" {
				fr.results = append(fr.results, r)
				st.vars[r] = x.zero(r.Type())
			}
		}
		x.block(st, fr, decl.Body.List, func(s *State) {
			if msig.Results().Len() > 0 && len(fr.results) == 0 {
				return
			}
			var res []Term
			for _, o := range fr.results {
				res = append(res, x.getVar(s, o))
			}
			fr.ret(s, res)
		})
		return
	}
	// promoted method: synthesised body `return self.<path>.M(args...)`
	recv := self
	rT := recvT
	if !u.RecvPtr {
		recv = x.derefWhole(st, self, u.Recv, nil)
		recv.Ty = u.Recv
	}
	path := msel.Index()
	for _, idx := range path[:len(path)-1] {
		recv = x.fieldByIndex(st, recv, rT, idx, nil)
		rT = recv.Ty
	}
	in := namedOf(rT)
	if in == nil {
		x.problems = append(x.problems, fmt.Sprintf("promoted method %s of %s: receiver %s is not a named interface", u.Method, recvT, rT))
		return
	}
	if _, isI := in.Underlying().(*types.Interface); !isI {
		// promoted from an embedded concrete type: not needed in this code base
		x.problems = append(x.problems, fmt.Sprintf("promoted method %s from concrete type %s", u.Method, rT))
		return
	}
	ic, _ := x.db.lookupIface(in)
	owner := in
	var pc *ProcContract
	if ic != nil {
		pc = ic.Methods[u.Method]
	}
	if pc == nil {
		if iti, ok := in.Underlying().(*types.Interface); ok {
			for i := 0; i < iti.NumEmbeddeds() && pc == nil; i++ {
				if en := namedOf(iti.EmbeddedType(i)); en != nil {
					if eic, _ := x.db.lookupIface(en); eic != nil {
						if m, ok := eic.Methods[u.Method]; ok {
							pc, owner = m, en
						}
					}
				}
			}
		}
	}
	if pc == nil {
		x.problems = append(x.problems, fmt.Sprintf("promoted method %s: no contract on %s", u.Method, in))
		return
	}
	sub := map[string]string{}
	otps := owner.Origin().TypeParams()
	for i := 0; i < otps.Len() && owner.TypeArgs() != nil && i < owner.TypeArgs().Len(); i++ {
		sub[otps.At(i).Obj().Name()] = x.sortOf(owner.TypeArgs().At(i))
	}
	x.nilCheck(st, recv, nil)
	if pc.Pure && x.statelessIface(in) {
		if ms, ok := x.methodUF(in, u.Method); ok && len(args) == len(ms.args) {
			x.resultOverride = []Term{tApp(ms.ret, ms.fname, append([]Term{recv}, args...)...)}
		}
	}
	x.byContract(st, fr, nil, pc, mobj.Origin().Type().(*types.Signature), isig, recv, args, sub, owner.Obj().Pkg().Path(), func(s2 *State, res []Term) {
		fr.ret(s2, res)
	})
}

// transitiveCapturedWrites: variables declared outside fl that fl, or a local closure it
// calls, assigns.
func (x *Exec) transitiveCapturedWrites(fl *ast.FuncLit, seen map[*ast.FuncLit]bool) []types.Object {
	if seen[fl] {
		return nil
	}
	seen[fl] = true
	out := x.capturedWrites(fl)
	ast.Inspect(fl.Body, func(n ast.Node) bool {
		ce, ok := n.(*ast.CallExpr)
		if !ok {
			return true
		}
		if inner := x.closureOf(ce.Fun); inner != nil && inner != fl {
			for _, o := range x.transitiveCapturedWrites(inner, seen) {
				// written by the callee and declared outside fl
				if !(o.Pos() >= fl.Pos() && o.Pos() < fl.End()) {
					out = append(out, o)
				}
			}
		}
		return true
	})
	return out
}

// instUnit: a package-level instance (eq.Int, ord.String ...) must be a value of the named
// type whose methods are under contract; otherwise the contracts say nothing about it.
func (x *Exec) instUnit(u *Unit) {
	st := newState()
	obj := x.pkg.Types.Scope().Lookup(u.Inst.Name)
	ok := false
	got := "nothing"
	if obj != nil {
		got = obj.Type().String()
		if n := namedOf(obj.Type()); n != nil && n.Origin().Obj().Name() == u.Inst.Type {
			ok = true
		}
	}
	if !ok && u.Inst.Behavioural != "" {
		x.oblige(st, "instance", u.Inst.Name, tTrue, nil, fmt.Sprintf("%s is a value of %s, not of %s: the methods of %s are verified against the models written for %s in this run", u.Inst.Name, got, u.Inst.Type, u.Inst.Behavioural, u.Inst.Type))
		return
	}
	x.oblige(st, "instance", u.Inst.Name, boolT(ok), nil, fmt.Sprintf("%s must be an instance of %s (found %s)", u.Inst.Name, u.Inst.Type, got))
}

func findImpl(cf *ContractFile, typ string) (*ImplContract, bool) {
	for _, ic := range cf.Impls {
		if strings.TrimPrefix(ic.Type, "*") == typ {
			return ic, true
		}
	}
	return nil, false
}

// lemmaUnit: a property-level consequence of contracts and spec functions.
func (x *Exec) lemmaUnit(u *Unit) {
	st := newState()
	if u.Lemma.Raw != "" {
		for _, dl := range u.CF.Decls {
			if strings.HasPrefix(dl, "(") {
				x.d.decl("raw:"+dl, dl)
			}
		}
		x.oblige(st, "lemma", u.Lemma.Name, Term{S: u.Lemma.Raw, Sort: "Bool"}, nil, u.Lemma.Raw)
		if strings.HasPrefix(u.Lemma.Name, "ind_") && len(x.obs) > 0 {
			x.obs[len(x.obs)-1].Induct = true // proved by structural induction (cvc5 --quant-ind)
		}
		return
	}
	env := &CEnv{names: map[string]Term{}, st: st, old: st}
	t, err := x.cevalSafe(env, u.Lemma.Expr, "Bool")
	if err != nil {
		x.problems = append(x.problems, err.Error())
		return
	}
	x.oblige(st, "lemma", u.Lemma.Name, t, nil, u.Lemma.Expr.Src)
}

// lemmaProofs: one induction obligation per library lemma used by a check.
func lemmaProofs(specs *SpecLib, names []string, props []string) []*Oblig {
	var out []*Oblig
	for _, ln := range names {
		for _, kind := range []string{"List", "Trace"} {
			text, ok := specs.Templates["lemma:"+kind+":"+ln]
			if !ok {
				continue
			}
			d := NewDecls(specs)
			e := d.Uninterp("E")
			var so string
			if kind == "List" {
				so = d.ListOf(e)
				text = strings.ReplaceAll(text, "{L}", so)
			} else {
				so = d.TrOf(e)
				text = strings.ReplaceAll(text, "{T}", so)
			}
			text = strings.ReplaceAll(text, "{E}", e)
			out = append(out, &Oblig{Name: "specs.lemma." + ln + ":speclemma", Kind: "speclemma", Props: props, Goal: Term{S: text, Sort: "Bool"},
				Src: "library lemma " + ln + " follows from the definitions (structural induction)", Induct: true, Prelude: d.Prelude()})
		}
	}
	return out
}

// ---------------------------------------------------------------------------
// unit discovery

func hasProp(props []string, id string) bool {
	if id == "*" {
		return true
	}
	for _, p := range props {
		if p == id {
			return true
		}
	}
	return false
}

// unitsOf lists the verification units of a package that serve a property.
func unitsOf(ld *Loader, db *ContractDB, pkg *Pkg, cf *ContractFile, prop string) ([]*Unit, []string) {
	var units []*Unit
	var problems []string
	decls := map[string]*ast.FuncDecl{}
	for _, f := range pkg.Files {
		for _, d := range f.Decls {
			if fd, ok := d.(*ast.FuncDecl); ok {
				if fo, ok := pkg.Info.Defs[fd.Name].(*types.Func); ok {
					decls[funcKey(fo)] = fd
				}
			}
		}
	}
	for _, key := range cf.Order {
		pc := cf.Funcs[key]
		if strings.HasPrefix(key, "fnparam ") {
			continue
		}
		fd, ok := decls[key]
		if !ok {
			if hasProp(pc.Props, prop) {
				problems = append(problems, fmt.Sprintf("%s:%d: contract for %s but no such function in %s", cf.Path, pc.Line, key, pkg.Path))
			}
			continue
		}
		if fd.Body == nil {
			continue
		}
		if hasProp(pc.Props, prop) && !pc.Trusted && pc.Opts["via"] != "subtype" {
			units = append(units, &Unit{Name: pkg.Types.Name() + "." + key, Pkg: pkg, CF: cf, Proc: pc, Decl: fd, Props: pc.Props})
		}
		// sub-procedures: literals in source order
		subUnits(pkg, cf, pc, fd, fd.Body, key, prop, &units, &problems)
	}
	// implementers
	impls := map[string]*ImplContract{}
	for k, v := range cf.Impls {
		impls[k] = v
	}
	// a package-level instance that is no longer a value of the type named by its contract
	// (ord.Int re-declared with a type of its own) is judged by behaviour: the methods of its
	// actual type are verified against the models written for the expected type
	for _, in := range cf.Insts {
		in.Behavioural = ""
		obj := pkg.Types.Scope().Lookup(in.Name)
		if obj == nil {
			continue
		}
		n := namedOf(obj.Type())
		if n == nil || n.Obj().Pkg() != pkg.Types || n.Origin().Obj().Name() == in.Type {
			continue
		}
		if _, isPtr := types.Unalias(obj.Type()).(*types.Pointer); isPtr {
			continue
		}
		for _, ic := range cf.Impls {
			if ic.Type == in.Type {
				c2 := *ic
				c2.Type = n.Origin().Obj().Name()
				c2.Opts = map[string]string{}
				for k, v := range ic.Opts {
					c2.Opts[k] = v
				}
				c2.Opts["props"] = strings.Join(in.Props, " ")
				if _, dup := impls["\x00inst:"+c2.Type]; !dup {
					if _, declared := findImpl(cf, c2.Type); !declared {
						impls["\x00inst:"+c2.Type] = &c2
					}
				}
				in.Behavioural = c2.Type
			}
		}
	}
	for _, ik := range sortedKeys(impls) {
		ic := impls[ik]
		tn := strings.TrimPrefix(ic.Type, "*")
		obj, ok := pkg.Types.Scope().Lookup(tn).(*types.TypeName)
		if !ok {
			problems = append(problems, fmt.Sprintf("%s: implements clause for unknown type %s", cf.Path, ic.Type))
			continue
		}
		named := namedOf(obj.Type())
		if named.TypeParams().Len() > 0 && named.TypeArgs() == nil {
			// a generic type is verified once, instantiated with its own type parameters
			var targs []types.Type
			for i := 0; i < named.TypeParams().Len(); i++ {
				targs = append(targs, named.TypeParams().At(i))
			}
			if inst, err := types.Instantiate(nil, named, targs, false); err == nil {
				named = namedOf(inst)
			}
		}
		x := newExec(ld, db, pkg, cf, nil)
		in := x.resolveIfaceFor(named, ic.Iface)
		if in == nil {
			problems = append(problems, fmt.Sprintf("%s: cannot resolve interface %s for %s", cf.Path, ic.Iface, ic.Type))
			continue
		}
		icon, _ := db.lookupIface(in)
		if icon == nil {
			problems = append(problems, fmt.Sprintf("%s: interface %s has no contract", cf.Path, ic.Iface))
			continue
		}
		// all methods of the interface (own and embedded ones that have contracts)
		meths := map[string]*ProcContract{}
		var collect func(n *types.Named)
		collect = func(n *types.Named) {
			if c, _ := db.lookupIface(n); c != nil {
				for m, p := range c.Methods {
					if _, dup := meths[m]; !dup {
						meths[m] = p
					}
				}
			}
			if it, ok := n.Underlying().(*types.Interface); ok {
				for i := 0; i < it.NumEmbeddeds(); i++ {
					if en := namedOf(it.EmbeddedType(i)); en != nil {
						collect(en)
					}
				}
			}
		}
		collect(in)
		for _, m := range sortedKeys(meths) {
			mp := meths[m]
			props := mp.Props
			if len(props) == 0 {
				props = icon.Props
			}
			if p, ok := ic.Opts["props"]; ok {
				props = strings.Fields(p)
			}
			if !hasProp(props, prop) {
				continue
			}
			units = append(units, &Unit{Name: fmt.Sprintf("%s.(%s).%s<:%s", pkg.Types.Name(), ic.Type, m, ic.Iface), Pkg: pkg, CF: cf, Proc: mp,
				Impl: ic, Iface: in, Method: m, Recv: named, RecvPtr: strings.HasPrefix(ic.Type, "*"), Props: props})
		}
	}
	for _, in := range cf.Insts {
		if hasProp(in.Props, prop) {
			units = append(units, &Unit{Name: pkg.Types.Name() + ".instance." + in.Name, Pkg: pkg, CF: cf, Inst: in, Props: in.Props})
		}
	}
	for _, lm := range cf.Lemmas {
		if hasProp(lm.Props, prop) {
			units = append(units, &Unit{Name: pkg.Types.Name() + ".lemma." + lm.Name, Pkg: pkg, CF: cf, Lemma: lm, Props: lm.Props})
		}
	}
	sort.SliceStable(units, func(i, j int) bool { return false })
	return units, problems
}

func subUnits(pkg *Pkg, cf *ContractFile, pc *ProcContract, outer *ast.FuncDecl, body ast.Node, key, prop string, units *[]*Unit, problems *[]string) {
	x := &Exec{info: pkg.Info}
	x.number(body)
	byOrd := map[string]*ast.FuncLit{}
	for fl, o := range x.litOrd {
		byOrd[o] = fl
	}
	for _, sk := range sortedKeys(pc.Subs) {
		sub := pc.Subs[sk]
		if strings.HasPrefix(sk, "fn") && len(sk) > 2 && (sk[2] < '0' || sk[2] > '9') {
			continue // contract of a function-typed parameter, not a literal
		}
		fl, ok := byOrd[sk]
		if !ok {
			if hasProp(sub.Props, prop) {
				*problems = append(*problems, fmt.Sprintf("%s:%d: contract for %s#%s but the function has no such literal", cf.Path, sub.Line, key, sk))
			}
			continue
		}
		if hasProp(sub.Props, prop) && !sub.Inline {
			*units = append(*units, &Unit{Name: pkg.Types.Name() + "." + key + "#" + sk, Pkg: pkg, CF: cf, Proc: sub, Lit: fl, Outer: outer, Props: sub.Props})
		}
		subUnits(pkg, cf, sub, outer, fl.Body, key+"#"+sk, prop, units, problems)
	}
}

// ---------------------------------------------------------------------------
// contract database loading

var contractPkgs = map[string]string{
	"github.com/fogfish/golem/internalpipe":       "internal/pipe",
	"github.com/fogfish/golem/pure/eq":            "pure/eq",
	"github.com/fogfish/golem/pure/ord":           "pure/ord",
	"github.com/fogfish/golem/pure/monoid":        "pure/monoid",
	"github.com/fogfish/golem/pure/semigroup":     "pure/semigroup",
	"github.com/fogfish/golem/pure":               "pure",
	"github.com/fogfish/golem/seq":                "internal/seq",
	"github.com/fogfish/golem/seq/list":           "internal/seq/list",
	"github.com/fogfish/golem/seq/slice":          "internal/seq/slice",
	"github.com/fogfish/golem/trait/seq":          "trait/seq",
	"github.com/fogfish/golem/trait/pair":         "trait/pair",
	"github.com/fogfish/golem/optics":             "optics",
	"github.com/fogfish/golem/hseq":               "hseq",
	"github.com/fogfish/golem/pipe/v2":            "pipe",
	"github.com/fogfish/golem/pipe/v2/fork":       "pipe/fork",
	"github.com/fogfish/golem/duct":               "duct",
	"github.com/fogfish/golem/maplike/skiplist":   "internal/maplike/skiplist",
	"github.com/fogfish/golem/maplike":            "internal/maplike",
}

const contractFileName = "zz_contracts_verif.go"

// LoadContracts reads the contract file of every package: the copy in the repository
// (guarded hook) or, when that is missing, the pinned copy under /verif/contracts.
func LoadContracts(ld *Loader, repo, pins string) (*ContractDB, error) {
	db := &ContractDB{files: map[string]*ContractFile{}, ld: ld, root: repo, pins: pins}
	for _, path := range sortedKeys(contractPkgs) {
		dir := contractPkgs[path]
		inRepo := filepath.Join(repo, dir, contractFileName)
		pinned := filepath.Join(pins, strings.ReplaceAll(dir, "/", "__")+".go")
		use := inRepo
		if _, err := os.Stat(inRepo); err != nil {
			if _, err2 := os.Stat(pinned); err2 != nil {
				continue
			}
			use = pinned
			db.notes = append(db.notes, fmt.Sprintf("contract file %s missing in repository: pinned copy used", filepath.Join(dir, contractFileName)))
		}
		cf, err := ParseContractFile(use)
		if err != nil {
			return nil, err
		}
		if use == inRepo {
			if pb, err := os.ReadFile(pinned); err == nil && sha(pb) != cf.Hash {
				db.notes = append(db.notes, fmt.Sprintf("contract file %s differs from the pinned copy", filepath.Join(dir, contractFileName)))
			}
		}
		db.files[path] = cf
	}
	return db, nil
}
