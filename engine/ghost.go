package main

import (
	"fmt"
	"go/types"
	"strings"
)

// Ghost fields of struct types and predicate macros (contract-file directives):
//
//	ghostfield <Type> <name> <gotype>     e.g. ghostfield queue nodes map[int]*q[A]
//	pred <name>(<params>) = <expr>        expanded at use
//
// A ghost field is read in contracts as name(x) for a pointer x to the struct; it is
// updated by `gset name(x) = expr` clauses, which are ghost code of the function body
// (executed at its exits when the body is verified) - callers learn about ghost fields
// only from modifies/ensures.

type GhostField struct {
	Owner string
	Name  string
	Type  string
}

type PredDef struct {
	Name   string
	Params []string
	Body   Clause
}

// parseGoType: a small Go type grammar resolved against package pkg and type arguments
// targs (names of the owner's type parameters).
func (x *Exec) parseGoType(pkg *types.Package, s string, targs map[string]types.Type) (types.Type, error) {
	s = strings.TrimSpace(s)
	switch {
	case s == "int":
		return types.Typ[types.Int], nil
	case s == "bool":
		return types.Typ[types.Bool], nil
	case s == "string":
		return types.Typ[types.String], nil
	case strings.HasPrefix(s, "[]"):
		e, err := x.parseGoType(pkg, s[2:], targs)
		if err != nil {
			return nil, err
		}
		return types.NewSlice(e), nil
	case strings.HasPrefix(s, "*"):
		e, err := x.parseGoType(pkg, s[1:], targs)
		if err != nil {
			return nil, err
		}
		return types.NewPointer(e), nil
	case strings.HasPrefix(s, "map["):
		depth, i := 0, 3
		for ; i < len(s); i++ {
			if s[i] == '[' {
				depth++
			} else if s[i] == ']' {
				depth--
				if depth == 0 {
					break
				}
			}
		}
		k, err := x.parseGoType(pkg, s[4:i], targs)
		if err != nil {
			return nil, err
		}
		v, err := x.parseGoType(pkg, s[i+1:], targs)
		if err != nil {
			return nil, err
		}
		return types.NewMap(k, v), nil
	}
	if t, ok := targs[s]; ok {
		return t, nil
	}
	name, args := s, ""
	if i := strings.Index(s, "["); i >= 0 {
		name, args = s[:i], s[i+1:len(s)-1]
	}
	obj, ok := pkg.Scope().Lookup(name).(*types.TypeName)
	if !ok {
		return nil, fmt.Errorf("unknown type %q", s)
	}
	n := namedOf(obj.Type())
	if args == "" || n == nil {
		return obj.Type(), nil
	}
	var ta []types.Type
	for _, a := range strings.Split(args, ",") {
		t, err := x.parseGoType(pkg, a, targs)
		if err != nil {
			return nil, err
		}
		ta = append(ta, t)
	}
	return types.Instantiate(nil, n, ta, false)
}

// ghostFieldMap resolves name(x) for a pointer x to a struct that declares ghost field name.
func (x *Exec) ghostFieldMap(fn string, key Term) (string, string, types.Type, bool) {
	if key.Ty == nil {
		return "", "", nil, false
	}
	n, _, _ := structBehind(key.Ty)
	if n == nil || n.Obj().Pkg() == nil {
		return "", "", nil, false
	}
	cf := x.db.forPkg(n.Obj().Pkg().Path())
	if cf == nil {
		return "", "", nil, false
	}
	for _, gf := range cf.GhostFields {
		if gf.Name != fn || gf.Owner != n.Origin().Obj().Name() {
			continue
		}
		targs := map[string]types.Type{}
		tps := n.Origin().TypeParams()
		for i := 0; i < tps.Len() && n.TypeArgs() != nil && i < n.TypeArgs().Len(); i++ {
			targs[tps.At(i).Obj().Name()] = n.TypeArgs().At(i)
		}
		t, err := x.parseGoType(n.Obj().Pkg(), gf.Type, targs)
		if err != nil {
			return "", "", nil, false
		}
		so := x.sortOf(t)
		return "GF_" + qualName(n) + "." + fn + ":" + so, so, t, true
	}
	return "", "", nil, false
}

func (x *Exec) ghostFieldRead(env *CEnv, e CCall) (Term, bool) {
	if len(e.Args) != 1 {
		return Term{}, false
	}
	known := false
	for _, cf := range x.db.files {
		for _, gf := range cf.GhostFields {
			if gf.Name == e.Fn {
				known = true
			}
		}
	}
	if !known {
		return Term{}, false
	}
	key := x.ceval(env, e.Args[0], "Ref")
	name, so, t, ok := x.ghostFieldMap(e.Fn, key)
	if !ok {
		// another package's ghost field of the same name: the name means something else here
		// (an interface state, a spec function)
		return Term{}, false
	}
	r := tSelect(x.heapMap(env.st, name, so), key, so)
	r.Ty = t
	return r, true
}

// predicate macros
func (x *Exec) predCall(env *CEnv, e CCall) (Term, bool) {
	var pd *PredDef
	if x.cf != nil {
		pd = x.cf.Preds[e.Fn]
	}
	if pd == nil {
		for _, cf := range x.db.files {
			if p, ok := cf.Preds[e.Fn]; ok && cf.Path != "" {
				if x.pkgOfFile(cf) == x.pkg.Path {
					pd = p
				}
			}
		}
	}
	if pd == nil {
		return Term{}, false
	}
	if len(pd.Params) != len(e.Args) {
		x.cfail(env, "predicate %s takes %d arguments", e.Fn, len(pd.Params))
	}
	c := env.child()
	for i, p := range pd.Params {
		c.names[p] = x.ceval(env, e.Args[i], "")
	}
	t, err := x.cevalSafe(c, pd.Body, "")
	if err != nil {
		x.cfail(env, "predicate %s: %v", e.Fn, err)
	}
	return t, true
}

func (x *Exec) pkgOfFile(cf *ContractFile) string {
	for p, f := range x.db.files {
		if f == cf {
			return p
		}
	}
	return ""
}
