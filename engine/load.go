package main

import (
	"sync"
	"fmt"
	"go/ast"
	"go/build"
	"go/importer"
	"go/parser"
	"go/token"
	"go/types"
	"os"
	"path/filepath"
	"sort"
	"strings"
)

// Loader type-checks packages of fogfish/golem straight from the working tree.
// Import paths under github.com/fogfish/golem/ are mapped to directories of the
// repository root (so optics sees /repo/hseq, pipe sees /repo/pure, and the
// internal/* packages are found under their declared import paths); everything
// else (the standard library) is type-checked from GOROOT source with function
// bodies ignored.
type Loader struct {
	langMu sync.Mutex
	langOK map[string]bool // file -> has per-iteration loop variables (Go >= 1.22 for that file)
	Root  string
	Fset  *token.FileSet
	std   types.Importer
	pkgs  map[string]*Pkg
	Tags  map[string]bool
}

type Pkg struct {
	Path  string
	Dir   string
	Files []*ast.File
	Types *types.Package
	Info  *types.Info
}

var pathMap = []struct{ prefix, dir string }{
	{"github.com/fogfish/golem/pipe/v2", "pipe"},
	{"github.com/fogfish/golem/maplike", "internal/maplike"},
	{"github.com/fogfish/golem/seq", "internal/seq"},
	{"github.com/fogfish/golem/hseq", "hseq"},
	{"github.com/fogfish/golem/optics", "optics"},
	{"github.com/fogfish/golem/pure", "pure"},
	{"github.com/fogfish/golem/trait", "trait"},
	{"github.com/fogfish/golem/duct", "duct"},
	{"github.com/fogfish/golem/internalpipe", "internal/pipe"},
}

func NewLoader(root string) *Loader {
	fset := token.NewFileSet()
	return &Loader{
		Root: root,
		Fset: fset,
		std:  importer.ForCompiler(fset, "source", nil),
		pkgs: map[string]*Pkg{},
	}
}

func (l *Loader) dirOf(path string) (string, bool) {
	for _, m := range pathMap {
		if path == m.prefix || strings.HasPrefix(path, m.prefix+"/") {
			return filepath.Join(l.Root, m.dir, strings.TrimPrefix(path, m.prefix)), true
		}
	}
	return "", false
}

func (l *Loader) Import(path string) (*types.Package, error) {
	if path == "unsafe" {
		return types.Unsafe, nil
	}
	if _, ok := l.dirOf(path); ok {
		p, err := l.Load(path)
		if err != nil {
			return nil, err
		}
		return p.Types, nil
	}
	return l.std.Import(path)
}

func (l *Loader) Load(path string) (*Pkg, error) {
	if p, ok := l.pkgs[path]; ok {
		if p == nil {
			return nil, fmt.Errorf("import cycle through %s", path)
		}
		return p, nil
	}
	dir, ok := l.dirOf(path)
	if !ok {
		return nil, fmt.Errorf("package %s is not part of the repository", path)
	}
	l.pkgs[path] = nil
	ents, err := os.ReadDir(dir)
	if err != nil {
		return nil, err
	}
	var names []string
	for _, e := range ents {
		n := e.Name()
		if e.IsDir() || !strings.HasSuffix(n, ".go") || strings.HasSuffix(n, "_test.go") {
			continue
		}
		names = append(names, n)
	}
	sort.Strings(names)
	ctx := build.Default
	var files []*ast.File
	for _, n := range names {
		full := filepath.Join(dir, n)
		if ok, _ := ctx.MatchFile(dir, n); !ok {
			continue // build-tag guarded (e.g. the comment-only contract files)
		}
		f, err := parser.ParseFile(l.Fset, full, nil, parser.ParseComments|parser.SkipObjectResolution)
		if err != nil {
			return nil, err
		}
		files = append(files, f)
	}
	info := &types.Info{
		Types:      map[ast.Expr]types.TypeAndValue{},
		Defs:       map[*ast.Ident]types.Object{},
		Uses:       map[*ast.Ident]types.Object{},
		Selections: map[*ast.SelectorExpr]*types.Selection{},
		Instances:  map[*ast.Ident]types.Instance{},
		Implicits:  map[ast.Node]types.Object{},
		Scopes:     map[ast.Node]*types.Scope{},
	}
	var terr []string
	conf := types.Config{
		Importer: l,
		Error:    func(e error) { terr = append(terr, e.Error()) },
	}
	tp, _ := conf.Check(path, l.Fset, files, info)
	if len(terr) > 0 {
		return nil, fmt.Errorf("type errors in %s: %s", path, strings.Join(terr, "; "))
	}
	p := &Pkg{Path: path, Dir: dir, Files: files, Types: tp, Info: info}
	l.pkgs[path] = p
	return p, nil
}
