package main

import (
	"fmt"
	"go/types"
	"strings"
)


// CEnv is the context in which a contract expression is evaluated.
type CEnv struct {
	oldSelf Term // receiver value at entry, for methods that update their receiver in place
	ttypes  map[string]types.Type // callee type parameter name -> type argument at the call
	names   map[string]Term // parameters, ghosts, bound variables
	st      *State          // current state
	old     *State          // pre-state for old(...)
	results []Term
	self    Term
	lookup  func(name string) (Term, bool) // program variables by source name
	tsub    map[string]string              // type parameter name -> sort (callee instantiation)
	impl    *implCtx                        // when verifying an implementer: model expansion for self
	where   string
}

type cevalErr string

func (x *Exec) cfail(env *CEnv, f string, a ...any) {
	panic(cevalErr(fmt.Sprintf(f, a...) + " [" + env.where + "]"))
}

func (env *CEnv) child() *CEnv {
	c := *env
	c.names = make(map[string]Term, len(env.names)+2)
	for k, v := range env.names {
		c.names[k] = v
	}
	return &c
}

// cevalSafe evaluates a clause; a contract that cannot be resolved is reported as an
// unproved obligation of the unit (never silently dropped).
func (x *Exec) cevalSafe(env *CEnv, c Clause, want string) (t Term, err error) {
	defer func() {
		if r := recover(); r != nil {
			if e, ok := r.(cevalErr); ok {
				err = fmt.Errorf("%s:%d: %s", c.File, c.Line, string(e))
				return
			}
			panic(r)
		}
	}()
	env.where = c.Src
	t = x.ceval(env, c.Expr, want)
	if want != "" && t.Sort != want {
		return t, fmt.Errorf("%s:%d: clause has sort %s, expected %s: %s", c.File, c.Line, t.Sort, want, c.Src)
	}
	return t, nil
}

func (x *Exec) resolveSort(env *CEnv, s string) string {
	name, args := s, []string(nil)
	if i := strings.Index(s, "["); i >= 0 {
		name = s[:i]
		inner := s[i+1 : len(s)-1]
		depth, start := 0, 0
		for j, r := range inner {
			switch r {
			case '[':
				depth++
			case ']':
				depth--
			case ',':
				if depth == 0 {
					args = append(args, inner[start:j])
					start = j + 1
				}
			}
		}
		args = append(args, inner[start:])
	}
	var as []string
	for _, a := range args {
		as = append(as, x.resolveSort(env, strings.TrimSpace(a)))
	}
	if strings.HasPrefix(name, "*") {
		return "Ref"
	}
	switch name {
	case "Int", "Bool", "Ref":
		return name
	case "Str":
		return x.strSort()
	case "Err":
		return x.errSort()
	case "List":
		return x.d.ListOf(as[0])
	case "Tr":
		return x.d.TrOf(as[0])
	case "Pair":
		return x.d.PairOf(as[0], as[1])
	case "Fn":
		return x.d.FnOf(as[:len(as)-1], as[len(as)-1:])
	}
	if env != nil && env.tsub != nil {
		if so, ok := env.tsub[name]; ok {
			return so
		}
	}
	if so, ok := x.tenv[name]; ok {
		return so
	}
	if _, ok := x.d.sorts[name]; ok {
		return name
	}
	if x.typeParams[name] {
		if tp, ok := x.typeParamObjs[name]; ok {
			return x.sortOf(tp)
		}
		return x.d.Uninterp("U_" + name)
	}
	// a Go type of the package under verification
	if obj := x.pkg.Types.Scope().Lookup(name); obj != nil {
		if tn, ok := obj.(*types.TypeName); ok {
			return x.sortOf(tn.Type())
		}
	}
	x.cfail(env, "unknown sort %q", s)
	return ""
}

// typedRefType: the Go type of "*Name": pointer to the package's struct type Name
// instantiated with the unit's type parameters of the same names.
func (x *Exec) typedRefType(env *CEnv, s string) types.Type {
	name := strings.TrimPrefix(s, "*")
	if i := strings.Index(name, "["); i >= 0 {
		name = name[:i]
	}
	// a pointer to a type parameter of the unit
	if env.ttypes != nil && env.ttypes[name] != nil {
		return types.NewPointer(env.ttypes[name])
	}
	if tp, ok := x.typeParamObjs[name]; ok {
		return types.NewPointer(tp)
	}
	tn, ok := x.pkg.Types.Scope().Lookup(name).(*types.TypeName)
	if !ok {
		x.cfail(env, "unknown type %s", s)
	}
	n := namedOf(tn.Type())
	if n == nil {
		x.cfail(env, "type %s is not a named type", s)
	}
	if n.TypeParams().Len() > 0 {
		var ta []types.Type
		for i := 0; i < n.TypeParams().Len(); i++ {
			pn := n.TypeParams().At(i).Obj().Name()
			if env.ttypes != nil && env.ttypes[pn] != nil {
				ta = append(ta, env.ttypes[pn])
			} else if tp, ok := x.typeParamObjs[pn]; ok {
				ta = append(ta, tp)
			} else {
				x.cfail(env, "cannot instantiate %s: no type parameter %s in scope", s, pn)
			}
		}
		inst, err := types.Instantiate(nil, n, ta, false)
		if err != nil {
			x.cfail(env, "cannot instantiate %s: %v", s, err)
		}
		return types.NewPointer(inst)
	}
	return types.NewPointer(n)
}

func (x *Exec) ceval(env *CEnv, e CExpr, want string) Term {
	switch e := e.(type) {
	case CInt:
		return tInt(e.V)
	case CStr:
		return x.strLit(e.V)
	case CIdent:
		return x.cident(env, e.Name, want)
	case CUn:
		v := x.ceval(env, e.X, "")
		if e.Op == "!" {
			x.wantSort(env, v, "Bool", "!")
			return tNot(v)
		}
		x.wantSort(env, v, "Int", "-")
		return tApp("Int", "-", v)
	case CBin:
		return x.cbin(env, e, want)
	case CList:
		return x.clist(env, e, want)
	case CQuant:
		c := env.child()
		var binders []string
		for _, v := range e.Vars {
			so := x.resolveSort(env, v.Sort)
			bt := Term{S: "?" + v.Name, Sort: so}
			if strings.HasPrefix(v.Sort, "*") {
				bt.Ty = x.typedRefType(env, v.Sort)
			}
			c.names[v.Name] = bt
			binders = append(binders, fmt.Sprintf("(?%s %s)", v.Name, so))
		}
		body := x.ceval(c, e.Body, "Bool")
		x.wantSort(env, body, "Bool", "quantifier body")
		q := "exists"
		if e.Forall {
			q = "forall"
		}
		return mk("Bool", "(%s (%s) %s)", q, strings.Join(binders, " "), body.S)
	case CField:
		b := x.ceval(env, e.X, "")
		return x.cfield(env, b, e.Name)
	case CIndex:
		b := x.ceval(env, e.X, "")
		i := x.ceval(env, e.I, "")
		si := x.d.sorts[b.Sort]
		if si != nil && si.Kind == "list" {
			r := tApp(si.Elem, "nth_"+b.Sort, b, i)
			if b.Ty != nil {
				if sl, ok := types.Unalias(b.Ty).Underlying().(*types.Slice); ok {
					r.Ty = sl.Elem()
				}
			}
			return r
		}
		if si != nil && si.Kind == "arrslice" {
			r := tSelect(tApp("(Array Int "+si.Elem+")", "arr_"+b.Sort, b), i, si.Elem)
			if b.Ty != nil {
				if sl, ok := types.Unalias(b.Ty).Underlying().(*types.Slice); ok {
					r.Ty = sl.Elem()
				}
			}
			return r
		}
		if si != nil && si.Kind == "array" {
			r := tSelect(b, i, si.Elem)
			if b.Ty != nil {
				if m, ok := types.Unalias(b.Ty).Underlying().(*types.Map); ok {
					r.Ty = m.Elem()
				}
			}
			return r
		}
		x.cfail(env, "cannot index sort %s", b.Sort)
	case CCall:
		return x.ccall(env, e, want)
	case CMeth:
		return x.cmeth(env, e, want)
	}
	x.cfail(env, "unsupported contract expression %T", e)
	return Term{}
}

func (x *Exec) wantSort(env *CEnv, t Term, s, what string) {
	if t.Sort != s {
		x.cfail(env, "%s: operand %s has sort %s, expected %s", what, t.S, t.Sort, s)
	}
}

func (x *Exec) cident(env *CEnv, name, want string) Term {
	if r, ok := x.rename[name]; ok {
		if _, bound := env.names[name]; !bound {
			if strings.HasPrefix(r, "expr:") {
				// the contract's name stands for an expression over the code's variables
				// (a result that the code no longer binds: rank -> len(node.fingers))
				e, err := ParseCExpr(r[5:])
				if err != nil {
					x.cfail(env, "rename %s: %v", name, err)
				}
				saved := x.rename
				x.rename = nil
				t := x.ceval(env, e, want)
				x.rename = saved
				return t
			}
			name = r
		}
	}
	switch name {
	case "true":
		return tTrue
	case "false":
		return tFalse
	case "nil":
		if want == "" {
			x.cfail(env, "cannot infer the sort of nil")
		}
		return x.zeroOfSort(want, nil)
	case "result":
		if len(env.results) == 0 {
			x.cfail(env, "no result here")
		}
		return env.results[0]
	case "self":
		if !env.self.ok() {
			x.cfail(env, "no self here")
		}
		return env.self
	}
	if strings.HasPrefix(name, "result") {
		var k int
		if _, err := fmt.Sscanf(name, "result%d", &k); err == nil {
			if k >= len(env.results) {
				x.cfail(env, "no %s here", name)
			}
			return env.results[k]
		}
	}
	if t, ok := env.names[name]; ok {
		return t
	}
	if env.st != nil {
		switch name {
		case "sawCancel", "waited", "closerSpawned":
			return x.ghostBool(env.st, name)
		case "sleeps", "added", "spawned", "doneCalls":
			return x.ghostInt(env.st, name)
		case "vtrace":
			return x.ghostVTrace(env.st)
		}
		if t, ok := env.st.ghosts[name]; ok {
			return t
		}
	}
	if env.lookup != nil {
		if t, ok := env.lookup(name); ok {
			return t
		}
	}
	// package-level constants (ord.LT etc.)
	if t, ok := x.pkgConst(name); ok {
		return t
	}
	x.cfail(env, "unknown name %q", name)
	return Term{}
}

func (x *Exec) cbin(env *CEnv, e CBin, want string) Term {
	switch e.Op {
	case "&&", "||", "==>", "<==>":
		l := x.ceval(env, e.L, "Bool")
		r := x.ceval(env, e.R, "Bool")
		x.wantSort(env, l, "Bool", e.Op)
		x.wantSort(env, r, "Bool", e.Op)
		switch e.Op {
		case "&&":
			return tAnd(l, r)
		case "||":
			return tOr(l, r)
		case "==>":
			return tImp(l, r)
		default:
			return tEq(l, r)
		}
	case "==", "!=":
		var l, r Term
		if isNilLit(e.L) || isEmptyList(e.L) {
			r = x.ceval(env, e.R, "")
			l = x.ceval(env, e.L, r.Sort)
		} else {
			l = x.ceval(env, e.L, "")
			r = x.ceval(env, e.R, l.Sort)
		}
		if l.Sort != r.Sort {
			x.cfail(env, "%s between %s:%s and %s:%s", e.Op, l.S, l.Sort, r.S, r.Sort)
		}
		if e.Op == "==" {
			return tEq(l, r)
		}
		return tNot(tEq(l, r))
	case "<", "<=", ">", ">=":
		l := x.ceval(env, e.L, "")
		r := x.ceval(env, e.R, l.Sort)
		if l.Sort != r.Sort {
			x.cfail(env, "%s between sorts %s and %s", e.Op, l.Sort, r.Sort)
		}
		return x.less(e.Op, l, r)
	case "+", "-", "*", "/", "%":
		l := x.ceval(env, e.L, "Int")
		r := x.ceval(env, e.R, "Int")
		x.wantSort(env, l, "Int", e.Op)
		x.wantSort(env, r, "Int", e.Op)
		op := e.Op
		if op == "/" {
			op = "div"
		}
		if op == "%" {
			op = "mod"
		}
		return tApp("Int", op, l, r)
	case "++":
		var l, r Term
		if isEmptyList(e.L) {
			r = x.ceval(env, e.R, want)
			l = x.ceval(env, e.L, r.Sort)
		} else {
			l = x.ceval(env, e.L, want)
			r = x.ceval(env, e.R, l.Sort)
		}
		if l.Sort != r.Sort {
			x.cfail(env, "++ between sorts %s and %s", l.Sort, r.Sort)
		}
		si := x.d.sorts[l.Sort]
		if si == nil {
			x.cfail(env, "++ on sort %s", l.Sort)
		}
		switch si.Kind {
		case "list":
			return tApp(l.Sort, "cat_"+l.Sort, l, r)
		case "trace":
			return tApp(l.Sort, "tcat_"+l.Sort, l, r)
		}
		x.cfail(env, "++ on sort %s", l.Sort)
	}
	x.cfail(env, "operator %s", e.Op)
	return Term{}
}

func isNilLit(e CExpr) bool {
	id, ok := e.(CIdent)
	return ok && id.Name == "nil"
}

func isEmptyList(e CExpr) bool {
	l, ok := e.(CList)
	return ok && len(l.Elems) == 0
}

// less builds an ordering comparison for Int or an ordered uninterpreted sort.
func (x *Exec) less(op string, l, r Term) Term {
	if l.Sort == "Int" {
		return tApp("Bool", op, l, r)
	}
	lt := x.ltSym(l.Sort)
	switch op {
	case "<":
		return tApp("Bool", lt, l, r)
	case ">":
		return tApp("Bool", lt, r, l)
	case "<=":
		return tNot(tApp("Bool", lt, r, l))
	default:
		return tNot(tApp("Bool", lt, l, r))
	}
}

// ltSym returns the strict total order symbol of an ordered sort (declared with its
// axioms on first use).
func (x *Exec) ltSym(sort string) string {
	if sort == "Str" {
		x.strSort()
		return "str_lt"
	}
	n := "lt_" + sanitize(sort)
	x.d.decl("order:"+sort, fmt.Sprintf(`(declare-fun %[1]s (%[2]s %[2]s) Bool)
(assert (forall ((a %[2]s)) (not (%[1]s a a))))
(assert (forall ((a %[2]s) (b %[2]s) (c %[2]s)) (=> (and (%[1]s a b) (%[1]s b c)) (%[1]s a c))))
(assert (forall ((a %[2]s) (b %[2]s)) (or (%[1]s a b) (= a b) (%[1]s b a))))`, n, sort))
	return n
}

func (x *Exec) clist(env *CEnv, e CList, want string) Term {
	if len(e.Elems) == 0 {
		if want == "" {
			x.cfail(env, "cannot infer the sort of []")
		}
		return x.zeroOfSort(want, nil)
	}
	var elemWant string
	if si := x.d.sorts[want]; si != nil {
		elemWant = si.Elem
	}
	var els []Term
	for _, el := range e.Elems {
		els = append(els, x.ceval(env, el, elemWant))
	}
	es := els[0].Sort
	if want == "" {
		want = x.d.ListOf(es)
	}
	si := x.d.sorts[want]
	if si == nil {
		x.cfail(env, "list literal for sort %s", want)
	}
	switch si.Kind {
	case "list":
		t := Term{S: "nil_" + want, Sort: want}
		for i := len(els) - 1; i >= 0; i-- {
			t = tApp(want, "cons_"+want, els[i], t)
		}
		return t
	case "trace":
		t := Term{S: "emp_" + want, Sort: want}
		for _, el := range els {
			t = tApp(want, "snoc_"+want, t, el)
		}
		return t
	}
	x.cfail(env, "list literal for sort %s", want)
	return Term{}
}

// cfield: field of a struct value, or of the object a Ref with a known Go type points to.
func (x *Exec) cfield(env *CEnv, b Term, name string) Term {
	if si := x.d.sorts[b.Sort]; si != nil && si.Kind == "struct" {
		for i, f := range si.Fields {
			if f == name {
				t := tApp(si.FSorts[i], b.Sort+"_"+sanitize(f), b)
				if si.Go != nil {
					if st, ok := si.Go.Underlying().(*types.Struct); ok {
						t.Ty = st.Field(i).Type()
					}
				}
				return t
			}
		}
		// promoted through embedded struct fields
		if si.Go == nil {
			x.cfail(env, "struct sort %s has no field %s", b.Sort, name)
		}
		if st, ok := si.Go.Underlying().(*types.Struct); ok {
			for i := 0; i < st.NumFields(); i++ {
				if st.Field(i).Embedded() {
					inner := tApp(si.FSorts[i], b.Sort+"_"+sanitize(si.Fields[i]), b)
					inner.Ty = st.Field(i).Type()
					if isi := x.d.sorts[inner.Sort]; isi != nil && isi.Kind == "struct" {
						for _, f := range isi.Fields {
							if f == name {
								return x.cfield(env, inner, name)
							}
						}
					}
				}
			}
		}
		x.cfail(env, "struct sort %s has no field %s", b.Sort, name)
	}
	if si := x.d.sorts[b.Sort]; si != nil && si.Kind == "pair" {
		switch name {
		case "fst":
			return tApp(si.Args[0], "fst_"+b.Sort, b)
		case "snd":
			return tApp(si.Args[1], "snd_"+b.Sort, b)
		}
	}
	if b.Sort == "Ref" && b.Ty != nil {
		st := env.st
		t, ok := x.fieldOfRef(st, b, name)
		if ok {
			return t
		}
	}
	x.cfail(env, "cannot select .%s from %s (sort %s, type %v)", name, b.S, b.Sort, b.Ty)
	return Term{}
}

// fieldOfRef reads field `name` of the struct a reference points to (pointer, or a
// boxed value in an interface when the dynamic type is known).
func (x *Exec) fieldOfRef(st *State, b Term, name string) (Term, bool) {
	t := types.Unalias(b.Ty)
	if p, ok := t.(*types.Pointer); ok {
		t = p.Elem()
	}
	n := namedOf(t)
	if n == nil {
		return Term{}, false
	}
	s, ok := n.Underlying().(*types.Struct)
	if !ok {
		return Term{}, false
	}
	for i := 0; i < s.NumFields(); i++ {
		if s.Field(i).Name() == name {
			return x.loadField(st, b, n, s.Field(i)), true
		}
	}
	return Term{}, false
}

type specFn func(x *Exec, env *CEnv, e CCall, want string) Term

func (x *Exec) ccall(env *CEnv, e CCall, want string) Term {
	switch e.Fn {
	case "old":
		if env.old == nil {
			x.cfail(env, "old() has no pre-state here")
		}
		c := *env
		c.st = env.old
		if env.oldSelf.ok() {
			c.self = env.oldSelf
		}
		if env.lookup != nil && env.oldLookup() != nil {
			c.lookup = env.oldLookup()
		}
		return x.ceval(&c, e.Args[0], want)
	case "ite":
		c := x.ceval(env, e.Args[0], "Bool")
		a := x.ceval(env, e.Args[1], want)
		b := x.ceval(env, e.Args[2], a.Sort)
		if a.Sort != b.Sort {
			x.cfail(env, "ite branches have sorts %s and %s", a.Sort, b.Sort)
		}
		return tIte(c, a, b)
	}
	if f, ok := specFns[e.Fn]; ok {
		return f(x, env, e, want)
	}
	// ghost state of channels: sent(c), rcvd(c), closed(c) ...
	switch e.Fn {
	case "sent", "rcvd", "total", "closed", "own", "drained", "slots", "cap", "shares", "myshare", "maysend":
		if len(e.Args) == 1 {
			ch := x.ceval(env, e.Args[0], "Ref")
			if e.Fn == "maysend" {
				return tOr(x.chFlag(env.st, "own", ch), tApp("Bool", ">", x.chInt(env.st, "myshare", ch), tInt(0)))
			}
			if name, elem, ok := x.chanStateMap(env.st, e.Fn, ch); ok {
				if e.Fn == "total" && x.dry == 0 {
					// channel axiom (DESIGN 4.4): what this goroutine has received from c is a
					// prefix of everything that will ever be delivered on c
					rn, _, rtr := x.chTrace(env.st, "rcvd", ch)
					r := tSelect(x.heapMap(env.st, rn, rtr), ch, rtr)
					t := tSelect(x.heapMap(env.st, name, elem), ch, elem)
					env.st.assume(tApp("Bool", "tprefix_"+rtr, r, t))
				}
				return tSelect(x.heapMap(env.st, name, elem), ch, elem)
			}
			x.cfail(env, "%s(%s): not a channel (type %v)", e.Fn, ch.S, ch.Ty)
		}
	}
	// ghost fields of structs and predicate macros
	if t, ok := x.ghostFieldRead(env, e); ok {
		return t
	}
	if t, ok := x.predCall(env, e); ok {
		return t
	}
	switch e.Fn {
	case "alloc":
		r := x.ceval(env, e.Args[0], "Ref")
		return x.isAlloc(env.st, r)
	case "pooled":
		r := x.ceval(env, e.Args[0], "Ref")
		return tSelect(x.heapMap(env.st, "Pooled", "Bool"), r, "Bool")
	}
	// ghost state of interfaces: view(x), done(x) ...
	if t, ok := x.ifaceState(env, e); ok {
		return t
	}
	// package-local spec functions declared with `smt` lines
	if sig, ok := x.localSpec[e.Fn]; ok {
		var args []Term
		for i, a := range e.Args {
			w := ""
			if i < len(sig.args) {
				w = sig.args[i]
			}
			args = append(args, x.ceval(env, a, w))
		}
		return tApp(sig.ret, e.Fn, args...)
	}
	x.cfail(env, "unknown spec function %s", e.Fn)
	return Term{}
}

func (env *CEnv) oldLookup() func(string) (Term, bool) { return nil }

func (x *Exec) evalArgs(env *CEnv, e CCall, wants ...string) []Term {
	var out []Term
	for i, a := range e.Args {
		w := ""
		if i < len(wants) {
			w = wants[i]
		}
		out = append(out, x.ceval(env, a, w))
	}
	return out
}

func (x *Exec) listKind(env *CEnv, t Term, fn string) *SortInfo {
	si := x.d.sorts[t.Sort]
	if si == nil || (si.Kind != "list" && si.Kind != "trace") {
		x.cfail(env, "%s: %s has sort %s, not a list", fn, t.S, t.Sort)
	}
	return si
}

var specFns map[string]specFn

func init() {
	specFns = map[string]specFn{
		"len": func(x *Exec, env *CEnv, e CCall, want string) Term {
			a := x.evalArgs(env, e)[0]
			if si := x.d.sorts[a.Sort]; si != nil && si.Kind == "arrslice" {
				return tApp("Int", "len_"+a.Sort, a)
			}
			si := x.listKind(env, a, "len")
			if si.Kind == "list" {
				return tApp("Int", "len_"+a.Sort, a)
			}
			return tApp("Int", "tlen_"+a.Sort, a)
		},
		"hd": func(x *Exec, env *CEnv, e CCall, want string) Term {
			a := x.evalArgs(env, e)[0]
			si := x.listKind(env, a, "hd")
			return tApp(si.Elem, "hd_"+a.Sort, a)
		},
		"tl": func(x *Exec, env *CEnv, e CCall, want string) Term {
			a := x.evalArgs(env, e, want)[0]
			x.listKind(env, a, "tl")
			return tApp(a.Sort, "tl_"+a.Sort, a)
		},
		"last": func(x *Exec, env *CEnv, e CCall, want string) Term {
			a := x.evalArgs(env, e)[0]
			si := x.listKind(env, a, "last")
			return tApp(si.Elem, "last_"+a.Sort, a)
		},
		"init": func(x *Exec, env *CEnv, e CCall, want string) Term {
			a := x.evalArgs(env, e, want)[0]
			return tApp(a.Sort, "init_"+a.Sort, a)
		},
		"cons": func(x *Exec, env *CEnv, e CCall, want string) Term {
			var h, t Term
			if want != "" {
				si := x.d.sorts[want]
				h = x.ceval(env, e.Args[0], si.Elem)
				t = x.ceval(env, e.Args[1], want)
			} else {
				h = x.ceval(env, e.Args[0], "")
				t = x.ceval(env, e.Args[1], x.d.ListOf(h.Sort))
			}
			return tApp(t.Sort, "cons_"+t.Sort, h, t)
		},
		"snoc": func(x *Exec, env *CEnv, e CCall, want string) Term {
			t := x.ceval(env, e.Args[0], want)
			si := x.listKind(env, t, "snoc")
			h := x.ceval(env, e.Args[1], si.Elem)
			if si.Kind == "list" {
				return tApp(t.Sort, "snocl_"+t.Sort, t, h)
			}
			return tApp(t.Sort, "snoc_"+t.Sort, t, h)
		},
		"take": func(x *Exec, env *CEnv, e CCall, want string) Term {
			n := x.ceval(env, e.Args[0], "Int")
			l := x.ceval(env, e.Args[1], want)
			si := x.listKind(env, l, "take")
			if si.Kind == "list" {
				return tApp(l.Sort, "take_"+l.Sort, n, l)
			}
			return tApp(l.Sort, "ttake_"+l.Sort, n, l)
		},
		"drop": func(x *Exec, env *CEnv, e CCall, want string) Term {
			n := x.ceval(env, e.Args[0], "Int")
			l := x.ceval(env, e.Args[1], want)
			x.listKind(env, l, "drop")
			return tApp(l.Sort, "drop_"+l.Sort, n, l)
		},
		"isPrefix": func(x *Exec, env *CEnv, e CCall, want string) Term {
			a := x.ceval(env, e.Args[0], "")
			b := x.ceval(env, e.Args[1], a.Sort)
			return tApp("Bool", "tprefix_"+a.Sort, a, b)
		},
		// app(f, args...) : application of a function value (first result);
		// app1(f, args...) the second result.
		"app":  func(x *Exec, env *CEnv, e CCall, want string) Term { return x.cApp(env, e, 0) },
		"app1": func(x *Exec, env *CEnv, e CCall, want string) Term { return x.cApp(env, e, 1) },
		"pair": func(x *Exec, env *CEnv, e CCall, want string) Term {
			a := x.evalArgs(env, e)
			ps := x.d.PairOf(a[0].Sort, a[1].Sort)
			return tApp(ps, "mk_"+ps, a[0], a[1])
		},
		"fst": func(x *Exec, env *CEnv, e CCall, want string) Term {
			a := x.evalArgs(env, e)[0]
			si := x.d.sorts[a.Sort]
			if si == nil || si.Kind != "pair" {
				x.cfail(env, "fst of non-pair %s", a.Sort)
			}
			return tApp(si.Args[0], "fst_"+a.Sort, a)
		},
		"snd": func(x *Exec, env *CEnv, e CCall, want string) Term {
			a := x.evalArgs(env, e)[0]
			si := x.d.sorts[a.Sort]
			if si == nil || si.Kind != "pair" {
				x.cfail(env, "snd of non-pair %s", a.Sort)
			}
			return tApp(si.Args[1], "snd_"+a.Sort, a)
		},
		// ev(f, args...): the call event "f applied to args" of the ghost call trace
		"ev": func(x *Exec, env *CEnv, e CCall, want string) Term {
			f := x.ceval(env, e.Args[0], "")
			si := x.d.sorts[f.Sort]
			if si == nil || si.Kind != "fn" {
				x.cfail(env, "ev: %s is not a function value", f.S)
			}
			args := []Term{f}
			as := []string{f.Sort}
			for i, a := range e.Args[1:] {
				w := ""
				if i < len(si.Args) {
					w = si.Args[i]
				}
				t := x.ceval(env, a, w)
				args = append(args, t)
				as = append(as, t.Sort)
			}
			ev := x.d.Uninterp("CallEv")
			fname := "ev_" + sanitize(f.Sort)
			x.d.fun(fname, as, ev)
			return tApp(ev, fname, args...)
		},
		// foldm(m, acc, xs): left fold of list xs from acc with the Combine of monoid/semigroup instance m
		"foldm": func(x *Exec, env *CEnv, e CCall, want string) Term {
			m := x.ceval(env, e.Args[0], "Ref")
			var ms *methSig
			for _, in := range x.ifacesOfTerm(m) {
				if s, ok := x.methodUF(in, "Combine"); ok {
					ms = s
				}
			}
			if ms == nil {
				x.cfail(env, "foldm: %s (type %v) has no Combine", m.S, m.Ty)
			}
			acc := x.ceval(env, e.Args[1], ms.ret)
			xs := x.ceval(env, e.Args[2], "")
			si := x.listKind(env, xs, "foldm")
			if si.Elem != ms.ret || acc.Sort != ms.ret {
				x.cfail(env, "foldm: element sort %s, accumulator %s, Combine over %s", si.Elem, acc.Sort, ms.ret)
			}
			if si.Kind == "list" {
				x.d.instantiate("FoldM", map[string]string{"L": xs.Sort, "E": si.Elem, "COMB": ms.fname})
				return tApp(ms.ret, "foldm_"+xs.Sort+"_"+ms.fname, m, acc, xs)
			}
			x.d.instantiate("TFoldM", map[string]string{"T": xs.Sort, "E": si.Elem, "COMB": ms.fname})
			return tApp(ms.ret, "tfoldm_"+xs.Sort+"_"+ms.fname, m, acc, xs)
		},
		"takew":  func(x *Exec, env *CEnv, e CCall, want string) Term { return x.cPred(env, e, "takew") },
		"dropw":  func(x *Exec, env *CEnv, e CCall, want string) Term { return x.cPred(env, e, "dropw") },
		"filter": func(x *Exec, env *CEnv, e CCall, want string) Term { return x.cPred(env, e, "filter") },
		"map": func(x *Exec, env *CEnv, e CCall, want string) Term {
			f := x.ceval(env, e.Args[0], "")
			l := x.ceval(env, e.Args[1], "")
			fi := x.d.sorts[f.Sort]
			li := x.listKind(env, l, "map")
			if fi == nil || fi.Kind != "fn" || len(fi.Args) != 1 || len(fi.Rets) != 1 || fi.Args[0] != li.Elem || li.Kind != "list" {
				x.cfail(env, "map(%s:%s, %s:%s)", f.S, f.Sort, l.S, l.Sort)
			}
			lb := x.d.ListOf(fi.Rets[0])
			x.d.instantiate("ListMap", map[string]string{"F": f.Sort, "LA": l.Sort, "LB": lb})
			return tApp(lb, "map_"+l.Sort+"_"+f.Sort, f, l)
		},
		// mapv(f, kv): (k, a) -> (k, f(k, a)) over a list of pairs
		"mapv": func(x *Exec, env *CEnv, e CCall, want string) Term {
			f := x.ceval(env, e.Args[0], "")
			l := x.ceval(env, e.Args[1], "")
			fi := x.d.sorts[f.Sort]
			li := x.listKind(env, l, "mapv")
			pi := x.d.sorts[li.Elem]
			if fi == nil || fi.Kind != "fn" || len(fi.Args) != 2 || len(fi.Rets) != 1 || pi == nil || pi.Kind != "pair" || pi.Args[0] != fi.Args[0] || pi.Args[1] != fi.Args[1] {
				x.cfail(env, "mapv(%s:%s, %s:%s)", f.S, f.Sort, l.S, l.Sort)
			}
			pb := x.d.PairOf(fi.Args[0], fi.Rets[0])
			lb := x.d.ListOf(pb)
			x.d.instantiate("PairMapV", map[string]string{"F": f.Sort, "LA": l.Sort, "LB": lb, "PA": li.Elem, "PB": pb})
			return tApp(lb, "mapv_"+l.Sort+"_"+f.Sort, f, l)
		},
		// rhsview(f, a...): the list yielded by the iterator f(a...) (empty when f returns nil);
		// flatmap(f, l): concatenation of rhsview over l
		"rhsview": func(x *Exec, env *CEnv, e CCall, want string) Term {
			f := x.ceval(env, e.Args[0], "")
			_, lb := x.flatSorts(env, f)
			fi := x.d.sorts[f.Sort]
			args := []Term{f}
			for i, a := range e.Args[1:] {
				args = append(args, x.ceval(env, a, fi.Args[i]))
			}
			return tApp(lb, "rhsview_"+f.Sort, args...)
		},
		"flatmap": func(x *Exec, env *CEnv, e CCall, want string) Term {
			f := x.ceval(env, e.Args[0], "")
			l := x.ceval(env, e.Args[1], "")
			la, lb := x.flatSorts(env, f)
			if l.Sort != la {
				x.cfail(env, "flatmap: list has sort %s, function takes %s", l.Sort, la)
			}
			return tApp(lb, "flatmap_"+la+"_"+f.Sort, f, l)
		},
		"untilerr": func(x *Exec, env *CEnv, e CCall, want string) Term { return x.cErr(env, e, "untilerr") },
		"firsterr": func(x *Exec, env *CEnv, e CCall, want string) Term { return x.cErr(env, e, "firsterr") },
		"evl":      func(x *Exec, env *CEnv, e CCall, want string) Term { return x.cErr(env, e, "evl") },
		// fresh(x): x was not allocated in the pre-state
		"fresh": func(x *Exec, env *CEnv, e CCall, want string) Term {
			r := x.ceval(env, e.Args[0], "Ref")
			st := env.old
			if st == nil {
				st = env.st
			}
			return tAnd(tNot(tEq(r, nullRef)), tNot(x.isAlloc(st, r)))
		},
		// seqlist(x): the list an iterator reference stands for (nil is the empty list)
		"seqlist": func(x *Exec, env *CEnv, e CCall, want string) Term {
			r := x.ceval(env, e.Args[0], "Ref")
			name := "view"
			if len(e.Args) > 1 {
				name = e.Args[1].(CIdent).Name
			}
			v, ok := x.ifaceState(env, CCall{Fn: name, Args: []CExpr{e.Args[0]}})
			if !ok {
				x.cfail(env, "seqlist: %s carries no %s", r.S, name)
			}
			return tIte(tEq(r, nullRef), x.zeroOfSort(v.Sort, nil), v)
		},
		// deref(p): the value a pointer to a non-struct points to
		"deref": func(x *Exec, env *CEnv, e CCall, want string) Term {
			p := x.ceval(env, e.Args[0], "Ref")
			if p.Ty == nil {
				x.cfail(env, "deref of %s: unknown pointer type", p.S)
			}
			pt, ok := types.Unalias(p.Ty).(*types.Pointer)
			if !ok {
				x.cfail(env, "deref of non-pointer %v", p.Ty)
			}
			return x.loadCell(env.st, p, pt.Elem())
		},
		"store": func(x *Exec, env *CEnv, e CCall, want string) Term {
			m := x.ceval(env, e.Args[0], want)
			si := x.d.sorts[m.Sort]
			if si == nil || si.Kind != "array" {
				x.cfail(env, "store into sort %s", m.Sort)
			}
			k := x.ceval(env, e.Args[1], si.Args[0])
			v := x.ceval(env, e.Args[2], si.Elem)
			return tStore(m, k, v)
		},
		// conv(x, T): conversion of x to the type parameter / sort T (uninterpreted between
		// distinct sorts)
		"conv": func(x *Exec, env *CEnv, e CCall, want string) Term {
			v := x.ceval(env, e.Args[0], "")
			id, ok := e.Args[1].(CIdent)
			if !ok {
				x.cfail(env, "conv(x, T) needs a sort name")
			}
			return x.convUF(v, x.resolveSort(env, id.Name))
		},
		"tmapok":     func(x *Exec, env *CEnv, e CCall, want string) Term { return x.cTraceF(env, e, "tmapok") },
		"terrs":      func(x *Exec, env *CEnv, e CCall, want string) Term { return x.cTraceF(env, e, "terrs") },
		"tallok":     func(x *Exec, env *CEnv, e CCall, want string) Term { return x.cTraceF(env, e, "tallok") },
		"tfilter":    func(x *Exec, env *CEnv, e CCall, want string) Term { return x.cTraceF(env, e, "tfilter") },
		"tfilternot": func(x *Exec, env *CEnv, e CCall, want string) Term { return x.cTraceF(env, e, "tfilternot") },
		"tallkeep":   func(x *Exec, env *CEnv, e CCall, want string) Term { return x.cTraceF(env, e, "tallkeep") },
		"keep":       func(x *Exec, env *CEnv, e CCall, want string) Term { return x.cTraceF(env, e, "keep") },
		"fpow":       func(x *Exec, env *CEnv, e CCall, want string) Term { return x.cTraceF(env, e, "fpow") },
		"titer":      func(x *Exec, env *CEnv, e CCall, want string) Term { return x.cTraceF(env, e, "titer") },
		"tflat":   func(x *Exec, env *CEnv, e CCall, want string) Term { return x.cTraceFF(env, e, "tflat") },
		"tferrs":  func(x *Exec, env *CEnv, e CCall, want string) Term { return x.cTraceFF(env, e, "tferrs") },
		"tfallok": func(x *Exec, env *CEnv, e CCall, want string) Term { return x.cTraceFF(env, e, "tfallok") },
		// arrowemits(f, a) / arrowfails(f, a): what a user-supplied arrow function sends for a,
		// and the error it returns (trusted arrow contract, DESIGN C05)
		"arrowemits": func(x *Exec, env *CEnv, e CCall, want string) Term { return x.cArrow(env, e, true) },
		"arrowfails": func(x *Exec, env *CEnv, e CCall, want string) Term { return x.cArrow(env, e, false) },
		"tupto": func(x *Exec, env *CEnv, e CCall, want string) Term {
			n := x.ceval(env, e.Args[0], "Int")
			tr := x.d.TrOf("Int")
			x.d.instantiate("Upto", map[string]string{"T": tr})
			return tApp(tr, "tupto_"+tr, n)
		},
		// tol(acc, l): the trace acc followed by the elements of list l; tolist(tr): the list of a trace
		"tol": func(x *Exec, env *CEnv, e CCall, want string) Term {
			var acc, l Term
			if isEmptyList(e.Args[0]) {
				l = x.ceval(env, e.Args[1], "")
				li := x.listKind(env, l, "tol")
				acc = x.ceval(env, e.Args[0], x.d.TrOf(li.Elem))
			} else {
				acc = x.ceval(env, e.Args[0], "")
				ai := x.listKind(env, acc, "tol")
				l = x.ceval(env, e.Args[1], x.d.ListOf(ai.Elem))
			}
			x.d.instantiate("TraceOfList", map[string]string{"T": acc.Sort, "L": l.Sort, "E": x.d.sorts[l.Sort].Elem})
			return tApp(acc.Sort, "tol_"+acc.Sort, acc, l)
		},
		"tolist": func(x *Exec, env *CEnv, e CCall, want string) Term {
			tr := x.ceval(env, e.Args[0], "")
			ti := x.listKind(env, tr, "tolist")
			ls := x.d.ListOf(ti.Elem)
			x.d.instantiate("TraceToList", map[string]string{"T": tr.Sort, "L": ls})
			return tApp(ls, "tolist_"+tr.Sort, tr)
		},
		// ---- reflect layout / hseq ----
		"rtypeof": func(x *Exec, env *CEnv, e CCall, want string) Term {
			id, ok := e.Args[0].(CIdent)
			if !ok {
				x.cfail(env, "rtypeof(T) needs a type parameter name")
			}
			if env.ttypes != nil {
				if t, ok := env.ttypes[id.Name]; ok {
					if r, ok := x.rtypeOf(t); ok {
						return r
					}
					x.cfail(env, "rtypeof(%s): type argument %v is not supported", id.Name, t)
				}
			}
			if tp, ok := x.typeParamObjs[id.Name]; ok {
				r, _ := x.rtypeOf(tp)
				return r
			}
			x.cfail(env, "rtypeof: unknown type parameter %s", id.Name)
			return Term{}
		},
		"isstruct": func(x *Exec, env *CEnv, e CCall, want string) Term {
			x.reflectSort()
			return tApp("Bool", "(_ is rt_struct)", x.ceval(env, e.Args[0], "RType"))
		},
		"isptr": func(x *Exec, env *CEnv, e CCall, want string) Term {
			x.reflectSort()
			return tApp("Bool", "(_ is rt_ptr)", x.ceval(env, e.Args[0], "RType"))
		},
		"pureof": func(x *Exec, env *CEnv, e CCall, want string) Term {
			t := x.ceval(env, e.Args[0], "RType")
			x.hseqTheory(env, "")
			return tApp("RType", "pureof", t)
		},
		"fieldsof": func(x *Exec, env *CEnv, e CCall, want string) Term {
			x.reflectSort()
			return tApp(lsfSort, "rt_fields", x.ceval(env, e.Args[0], "RType"))
		},
		"flatten": func(x *Exec, env *CEnv, e CCall, want string) Term {
			ht := x.hseqTheory(env, want)
			fs := x.ceval(env, e.Args[0], lsfSort)
			off := x.ceval(env, e.Args[1], "Int")
			acc := x.ceval(env, e.Args[2], x.d.ListOf(ht))
			return tApp(x.d.ListOf(ht), "flatten_"+ht, fs, off, acc)
		},
		// validloc(t, off, a): (off, a) is a field location of struct type t reachable without
		// crossing a pointer; fget/fput(s, off, A[, v]): typed field access on a struct value
		"validloc": func(x *Exec, env *CEnv, e CCall, want string) Term {
			x.reflectSort()
			x.d.instantiate("Layout", map[string]string{})
			if len(e.Args) != 4 {
				x.cfail(env, "validloc(t, off, name, a) takes four arguments")
			}
			t := x.ceval(env, e.Args[0], "RType")
			o := x.ceval(env, e.Args[1], "Int")
			nm := x.ceval(env, e.Args[2], x.strSort())
			a := x.ceval(env, e.Args[3], "RType")
			return tApp("Bool", "validloc", t, o, nm, a)
		},
		"validfield": func(x *Exec, env *CEnv, e CCall, want string) Term {
			x.reflectSort()
			x.d.instantiate("Layout", map[string]string{})
			if len(e.Args) != 4 {
				x.cfail(env, "validfield(fs, off, name, a) takes four arguments")
			}
			fs := x.ceval(env, e.Args[0], lsfSort)
			o := x.ceval(env, e.Args[1], "Int")
			nm := x.ceval(env, e.Args[2], x.strSort())
			a := x.ceval(env, e.Args[3], "RType")
			return tApp("Bool", "validfield", fs, o, nm, a)
		},
		"fget": func(x *Exec, env *CEnv, e CCall, want string) Term {
			s := x.ceval(env, e.Args[0], "")
			o := x.ceval(env, e.Args[1], "Int")
			as := x.resolveSort(env, e.Args[2].(CIdent).Name)
			fg, _ := x.fieldAccess(s.Sort, as)
			return tApp(as, fg, s, o)
		},
		"fput": func(x *Exec, env *CEnv, e CCall, want string) Term {
			s := x.ceval(env, e.Args[0], "")
			o := x.ceval(env, e.Args[1], "Int")
			v := x.ceval(env, e.Args[2], "")
			_, fp := x.fieldAccess(s.Sort, v.Sort)
			return tApp(s.Sort, fp, s, o, v)
		},
		// dynptr(x, S): the dynamic type of interface value x is *S (and x is not nil)
		"dynptr": func(x *Exec, env *CEnv, e CCall, want string) Term {
			r := x.ceval(env, e.Args[0], "Ref")
			id := e.Args[1].(CIdent)
			var t types.Type
			if env.ttypes != nil {
				t = env.ttypes[id.Name]
			}
			if t == nil {
				if tp, ok := x.typeParamObjs[id.Name]; ok {
					t = tp
				}
			}
			if t == nil {
				x.cfail(env, "dynptr: unknown type parameter %s", id.Name)
			}
			x.d.fun("dyn", []string{"Ref"}, "Int")
			return tAnd(tNot(tEq(r, nullRef)), tEq(tApp("Int", "dyn", r), x.typeTag(types.NewPointer(t))))
		},
		// asptr(x, S): the interface value x seen as a *S
		"asptr": func(x *Exec, env *CEnv, e CCall, want string) Term {
			r := x.ceval(env, e.Args[0], "Ref")
			id := e.Args[1].(CIdent)
			if tp, ok := x.typeParamObjs[id.Name]; ok {
				r.Ty = types.NewPointer(tp)
			} else if env.ttypes != nil && env.ttypes[id.Name] != nil {
				r.Ty = types.NewPointer(env.ttypes[id.Name])
			}
			return r
		},
		"fieldkey":  func(x *Exec, env *CEnv, e CCall, want string) Term { return x.cHseq(env, e, "fieldkey") },
		"hasname":   func(x *Exec, env *CEnv, e CCall, want string) Term { return x.cHseq(env, e, "hasname") },
		"firstname": func(x *Exec, env *CEnv, e CCall, want string) Term { return x.cHseq(env, e, "firstname") },
		"hastype":   func(x *Exec, env *CEnv, e CCall, want string) Term { return x.cHseq(env, e, "hastype") },
		"firsttype": func(x *Exec, env *CEnv, e CCall, want string) Term { return x.cHseq(env, e, "firsttype") },
		"allhave":   func(x *Exec, env *CEnv, e CCall, want string) Term { return x.cHseq(env, e, "allhave") },
		// ---- owned trees (duct) ----
		"asnode": func(x *Exec, env *CEnv, e CCall, want string) Term {
			v := x.ceval(env, e.Args[0], "")
			if si := x.d.sorts[v.Sort]; si != nil && si.Kind == "node" {
				return v
			}
			if v.Ty == nil {
				if si := x.d.sorts[v.Sort]; si != nil && si.Go != nil {
					v.Ty = si.Go
				}
			}
			if w, ok := x.nodeWrap(v, v.Ty); ok {
				return w
			}
			x.cfail(env, "asnode: %s (sort %s) is not a tree node", v.S, v.Sort)
			return Term{}
		},
		"vev": func(x *Exec, env *CEnv, e CCall, want string) Term {
			x.ductTheory(env)
			k := x.ceval(env, e.Args[0], "Int")
			d := x.ceval(env, e.Args[1], "Int")
			n := x.ceval(env, e.Args[2], "")
			return tApp("VEv", "vev", k, d, n)
		},
		"cberr": func(x *Exec, env *CEnv, e CCall, want string) Term {
			x.ductTheory(env)
			v := x.ceval(env, e.Args[0], "Ref")
			k := x.ceval(env, e.Args[1], "Int")
			return tApp("Err", "cberr", v, k)
		},
		"nodekind": func(x *Exec, env *CEnv, e CCall, want string) Term {
			x.ductTheory(env)
			return tApp("Int", "nodekind", x.ceval(env, e.Args[0], ""))
		},
		"walkT":  func(x *Exec, env *CEnv, e CCall, want string) Term { return x.cWalk(env, e, "walkT") },
		"walkE":  func(x *Exec, env *CEnv, e CCall, want string) Term { return x.cWalk(env, e, "walkE") },
		"walkKT": func(x *Exec, env *CEnv, e CCall, want string) Term { return x.cWalk(env, e, "walkKT") },
		"walkKE": func(x *Exec, env *CEnv, e CCall, want string) Term { return x.cWalk(env, e, "walkKE") },
		"ins": func(x *Exec, env *CEnv, e CCall, want string) Term {
			x.ductTheory(env)
			t := x.ceval(env, e.Args[0], "")
			n := x.ceval(env, e.Args[1], "")
			return tApp(t.Sort, "ins", t, n)
		},
		"closeinner": func(x *Exec, env *CEnv, e CCall, want string) Term {
			x.ductTheory(env)
			t := x.ceval(env, e.Args[0], "")
			return tApp(t.Sort, "closeinner", t)
		},
		// constructors of duct nodes
		"mkseq": func(x *Exec, env *CEnv, e CCall, want string) Term {
			x.ductTheory(env)
			sq := "S_github.com_fogfish_golem_duct.AstSeq"
			vt := x.vtrees["github.com/fogfish/golem/duct"]
			r := tApp(sq, "mk_"+sq, x.ceval(env, e.Args[0], "Bool"), x.ceval(env, e.Args[1], "Bool"), Term{S: "nil_L_" + vt.sort, Sort: "L_" + vt.sort})
			r.Ty = x.d.sorts[sq].Go
			return r
		},
		"mkfrom":  func(x *Exec, env *CEnv, e CCall, want string) Term { return x.cMkNode(env, e, "AstFrom") },
		"mkmap":   func(x *Exec, env *CEnv, e CCall, want string) Term { return x.cMkNode(env, e, "AstMap") },
		"mkyield": func(x *Exec, env *CEnv, e CCall, want string) Term { return x.cMkNode(env, e, "AstYield") },
		"tname": func(x *Exec, env *CEnv, e CCall, want string) Term {
			x.reflectSort()
			x.d.instantiate("TypeName", map[string]string{"S_PTR": x.strLit("*").S, "S_SLICE": x.strLit("[]").S})
			return tApp("Str", "tname", x.ceval(env, e.Args[0], "RType"))
		},
		"mfwd": func(x *Exec, env *CEnv, e CCall, want string) Term { return x.cMorph(env, e, true) },
		"minv": func(x *Exec, env *CEnv, e CCall, want string) Term { return x.cMorph(env, e, false) },
		// asref(e, T): the reference e viewed as a pointer to the package's struct type T
		"asref": func(x *Exec, env *CEnv, e CCall, want string) Term {
			r := x.ceval(env, e.Args[0], "Ref")
			id, ok := e.Args[1].(CIdent)
			if !ok {
				x.cfail(env, "asref(e, T) needs a type name")
			}
			r.Ty = x.typedRefType(env, "*"+id.Name)
			return r
		},
		// nomap(): the map in which every key has the zero value
		"nomap": func(x *Exec, env *CEnv, e CCall, want string) Term {
			if si := x.d.sorts[want]; si == nil || si.Kind != "array" {
				x.cfail(env, "nomap() needs a map-sorted context, have %q", want)
			}
			return x.zeroOfSort(want, nil)
		},
		"zero": func(x *Exec, env *CEnv, e CCall, want string) Term {
			id, ok := e.Args[0].(CIdent)
			if !ok {
				x.cfail(env, "zero(T) needs a sort name")
			}
			return x.zeroOfSort(x.resolveSort(env, id.Name), nil)
		},
	}
}

// mentionsState: does the expression depend on mutable (ghost or heap) state?
func mentionsState(e CExpr) bool {
	switch e := e.(type) {
	case CIdent:
		switch e.Name {
		case "calls", "sawCancel", "sleeps", "waited", "added", "spawned", "doneCalls":
			return true
		}
	case CUn:
		return mentionsState(e.X)
	case CBin:
		return mentionsState(e.L) || mentionsState(e.R)
	case CList:
		for _, x := range e.Elems {
			if mentionsState(x) {
				return true
			}
		}
	case CQuant:
		return mentionsState(e.Body)
	case CField:
		return true
	case CMeth:
		for _, a := range e.Args {
			if mentionsState(a) {
				return true
			}
		}
		return mentionsState(e.X)
	case CIndex:
		return mentionsState(e.X) || mentionsState(e.I)
	case CCall:
		switch e.Fn {
		case "old", "sent", "rcvd", "total", "closed", "drained", "own", "view", "done", "slots", "cap":
			return true
		}
		for _, a := range e.Args {
			if mentionsState(a) {
				return true
			}
		}
	}
	return false
}

// hseqTheory instantiates the Hseq template for the hseq.Type sort in use (taken from the
// wanted list sort, or the only hseq.Type sort declared so far).
func (x *Exec) hseqTheory(env *CEnv, want string) string {
	x.reflectSort()
	ht := ""
	if si := x.d.sorts[want]; si != nil && si.Kind == "list" {
		ht = si.Elem
	}
	if ht == "" {
		for _, so := range sortedKeys(x.d.sorts) {
			if strings.HasPrefix(so, "S_github.com_fogfish_golem_hseq.Type") {
				ht = so
			}
		}
	}
	if ht == "" {
		// instantiate hseq.Type with the container type parameter T of the unit / call
		if hp, err := x.ld.Load("github.com/fogfish/golem/hseq"); err == nil {
			if tn, ok := hp.Types.Scope().Lookup("Type").(*types.TypeName); ok {
				var targ types.Type
				if env.ttypes != nil {
					targ = env.ttypes["T"]
				}
				if targ == nil {
					if tp, ok := x.typeParamObjs["T"]; ok {
						targ = tp
					}
				}
				if targ == nil {
					// the container type parameter is called S in some constructors (BiMapS/B/I/F)
					if env.ttypes != nil && env.ttypes["S"] != nil {
						targ = env.ttypes["S"]
					} else if tp, ok := x.typeParamObjs["S"]; ok {
						targ = tp
					}
				}
				if targ != nil {
					if inst, err := types.Instantiate(nil, tn.Type(), []types.Type{targ}, false); err == nil {
						ht = x.sortOf(inst)
					}
				}
			}
		}
	}
	if ht == "" {
		x.cfail(env, "no hseq.Type sort in scope")
	}
	si := x.d.sorts[ht]
	x.d.ListOf("Str")
	x.d.instantiate("Hseq", map[string]string{"HT": ht, "LHT": x.d.ListOf(ht), "MK": si.Ctor,
		"S_HSEQ": x.strLit("hseq").S, "S_COMMA": x.strLit(",").S})
	return ht
}

func (x *Exec) cHseq(env *CEnv, e CCall, name string) Term {
	a := x.ceval(env, e.Args[0], "")
	switch name {
	case "fieldkey":
		ht := x.hseqTheory(env, x.d.ListOf(a.Sort))
		return tApp("Str", "fieldkey_"+ht, a)
	}
	ht := x.hseqTheory(env, a.Sort)
	switch name {
	case "hasname", "firstname":
		b := x.ceval(env, e.Args[1], "Str")
		if name == "hasname" {
			return tApp("Bool", "hasname_"+ht, a, b)
		}
		return tApp(ht, "firstname_"+ht, a, b)
	case "hastype", "firsttype":
		b := x.ceval(env, e.Args[1], "RType")
		if name == "hastype" {
			return tApp("Bool", "hastype_"+ht, a, b)
		}
		return tApp(ht, "firsttype_"+ht, a, b)
	case "allhave":
		b := x.ceval(env, e.Args[1], x.d.ListOf("Str"))
		return tApp("Bool", "allhave_"+ht, a, b)
	}
	x.cfail(env, "unknown hseq function %s", name)
	return Term{}
}

// cTraceF: spec functions over a stage-function instance f (an interface value with a
// two-result Apply method): tmapok(f, tr), terrs(f, tr), tfilter(f, tr), keep(f, a), ...
func (x *Exec) cTraceF(env *CEnv, e CCall, name string) Term {
	f := x.ceval(env, e.Args[0], "Ref")
	var ms *methSig
	for _, in := range x.ifacesOfTerm(f) {
		if m, ok := x.methodUF(in, "Apply"); ok && len(m.fnames) == 2 && len(m.args) == 1 {
			ms = m
		}
	}
	if ms == nil {
		x.cfail(env, "%s: %s (type %v) is not a stage function instance", name, f.S, f.Ty)
	}
	A, B := ms.args[0], ms.rets[0]
	ta, tb, te := x.d.TrOf(A), x.d.TrOf(B), x.d.TrOf(x.errSort())
	apply, errf := ms.fnames[0], ms.fnames[1]
	switch name {
	case "tmapok", "terrs", "tallok":
		x.d.instantiate("TraceF", map[string]string{"A": A, "B": B, "TA": ta, "TB": tb, "TE": te, "APPLY": apply, "ERR": errf})
		l := x.ceval(env, e.Args[1], ta)
		if l.Sort != ta {
			x.cfail(env, "%s: trace has sort %s, expected %s", name, l.Sort, ta)
		}
		ret := map[string]string{"tmapok": tb, "terrs": te, "tallok": "Bool"}[name]
		return tApp(ret, name+"_"+apply, f, l)
	case "tfilter", "tfilternot", "tallkeep", "keep":
		if B != "Bool" {
			x.cfail(env, "%s: %s is not a predicate instance", name, f.S)
		}
		x.d.instantiate("TraceKeep", map[string]string{"A": A, "TA": ta, "APPLY": apply, "ERR": errf})
		if name == "keep" {
			a := x.ceval(env, e.Args[1], A)
			return tApp("Bool", "keep_"+apply, f, a)
		}
		l := x.ceval(env, e.Args[1], ta)
		if l.Sort != ta {
			x.cfail(env, "%s: trace has sort %s, expected %s", name, l.Sort, ta)
		}
		if name == "tallkeep" {
			return tApp("Bool", name+"_"+apply, f, l)
		}
		return tApp(ta, name+"_"+apply, f, l)
	case "fpow", "titer":
		if A != B {
			x.cfail(env, "%s: %s is not an endofunction instance", name, f.S)
		}
		x.d.instantiate("TraceIter", map[string]string{"A": A, "TA": ta, "APPLY": apply})
		s := x.ceval(env, e.Args[1], A)
		n := x.ceval(env, e.Args[2], "Int")
		if name == "fpow" {
			return tApp(A, "fpow_"+apply, f, s, n)
		}
		return tApp(ta, "titer_"+apply, f, s, n)
	}
	x.cfail(env, "unknown trace function %s", name)
	return Term{}
}

func (x *Exec) cArrow(env *CEnv, e CCall, emits bool) Term {
	f := x.ceval(env, e.Args[0], "")
	fi := x.d.sorts[f.Sort]
	if fi == nil || fi.Kind != "fn" || len(fi.Args) != 3 || f.Ty == nil {
		x.cfail(env, "arrowemits/arrowfails: %s (sort %s) is not an arrow function", f.S, f.Sort)
	}
	sig, ok := types.Unalias(f.Ty).Underlying().(*types.Signature)
	if !ok || sig.Params().Len() != 3 {
		x.cfail(env, "arrowemits/arrowfails: type %v", f.Ty)
	}
	a := x.ceval(env, e.Args[1], fi.Args[1])
	es := x.chanElemSort(sig.Params().At(2).Type())
	tb := x.d.TrOf(es)
	if emits {
		fn := "arrowemits_" + sanitize(f.Sort)
		x.d.fun(fn, []string{f.Sort, fi.Args[1]}, tb)
		return tApp(tb, fn, f, a)
	}
	fn := "arrowfails_" + sanitize(f.Sort)
	x.d.fun(fn, []string{f.Sort, fi.Args[1]}, x.errSort())
	return tApp("Err", fn, f, a)
}

// cTraceFF: tflat / tferrs / tfallok over an arrow instance (pipe.FF).
func (x *Exec) cTraceFF(env *CEnv, e CCall, name string) Term {
	f := x.ceval(env, e.Args[0], "Ref")
	var em, fl *methSig
	for _, in := range x.ifacesOfTerm(f) {
		if m, ok := x.methodUF(in, "emits"); ok {
			em = m
		}
		if m, ok := x.methodUF(in, "fails"); ok {
			fl = m
		}
	}
	if em == nil || fl == nil {
		x.cfail(env, "%s: %s (type %v) is not an arrow instance", name, f.S, f.Ty)
	}
	A := em.args[0]
	ta, tb, te := x.d.TrOf(A), em.ret, x.d.TrOf(x.errSort())
	x.d.instantiate("TraceFF", map[string]string{"A": A, "TA": ta, "TB": tb, "TE": te, "EMITS": em.fname, "FAILS": fl.fname})
	l := x.ceval(env, e.Args[1], ta)
	if l.Sort != ta {
		x.cfail(env, "%s: trace has sort %s, expected %s", name, l.Sort, ta)
	}
	ret := map[string]string{"tflat": tb, "tferrs": te, "tfallok": "Bool"}[name]
	return tApp(ret, name+"_"+em.fname, f, l)
}

func (x *Exec) ghostVTrace(st *State) Term {
	x.ductTheory(nil)
	if t, ok := st.ghosts["vtrace"]; ok {
		return t
	}
	t := x.d.constant("vtrace@0", x.d.TrOf("VEv"))
	st.ghosts["vtrace"] = t
	return t
}

// ductTheory declares the visitor-event datatype and the tree functions (template Duct)
// for the value tree of the duct package.
func (x *Exec) ductTheory(env *CEnv) {
	vt := x.vtrees["github.com/fogfish/golem/duct"]
	if vt == nil {
		if env != nil {
			x.cfail(env, "no value tree declared for duct")
		}
		return
	}
	x.declareValueTree(vt)
	if x.d.seen["theory:duct"] {
		return
	}
	x.d.seen["theory:duct"] = true
	x.errSort()
	n := vt.sort
	x.d.decl("sort:VEv", fmt.Sprintf("(declare-datatypes ((VEv 0)) (((vev (vev_kind Int) (vev_depth Int) (vev_node %s)))))", n))
	x.d.sorts["VEv"] = &SortInfo{Kind: "datatype"}
	tr := x.d.TrOf("VEv")
	sq := "S_github.com_fogfish_golem_duct.AstSeq"
	x.d.instantiate("Duct", map[string]string{"N": n, "LN": "L_" + n, "SEQ": sq, "T": tr,
		"C_SEQ": vt.ctor["AstSeq"], "C_MAP": vt.ctor["AstMap"], "C_FROM": vt.ctor["AstFrom"], "C_YIELD": vt.ctor["AstYield"]})
}

func (x *Exec) cMkNode(env *CEnv, e CCall, tn string) Term {
	x.ductTheory(env)
	so := "S_github.com_fogfish_golem_duct." + tn
	si := x.d.sorts[so]
	if si == nil || len(si.FSorts) != len(e.Args) {
		x.cfail(env, "constructor of %s takes %d arguments", tn, len(si.FSorts))
	}
	var args []Term
	for i, a := range e.Args {
		args = append(args, x.ceval(env, a, si.FSorts[i]))
	}
	r := tApp(so, si.Ctor, args...)
	r.Ty = si.Go
	return r
}

func (x *Exec) cWalk(env *CEnv, e CCall, name string) Term {
	x.ductTheory(env)
	v := x.ceval(env, e.Args[0], "Ref")
	a := x.ceval(env, e.Args[1], "")
	d := x.ceval(env, e.Args[2], "Int")
	tr := x.ceval(env, e.Args[3], x.d.TrOf("VEv"))
	ret := x.d.TrOf("VEv")
	if strings.HasSuffix(name, "E") {
		ret = "Err"
	}
	return tApp(ret, name, v, a, d, tr)
}

// cMorph: mfwd(l, s, t) / minv(l, t, s) over a list of isomorphism instances.
func (x *Exec) cMorph(env *CEnv, e CCall, fwd bool) Term {
	l := x.ceval(env, e.Args[0], "")
	li := x.listKind(env, l, "mfwd")
	if li.Elem != "Ref" || l.Ty == nil {
		x.cfail(env, "mfwd/minv: %s (sort %s, type %v) is not a list of isomorphisms", l.S, l.Sort, l.Ty)
	}
	sl, ok := types.Unalias(l.Ty).Underlying().(*types.Slice)
	if !ok {
		x.cfail(env, "mfwd/minv: type %v", l.Ty)
	}
	in := namedOf(sl.Elem())
	if in == nil {
		x.cfail(env, "mfwd/minv: element type %v", sl.Elem())
	}
	f, ok1 := x.methodUF(in, "fwd")
	g, ok2 := x.methodUF(in, "inv")
	if !ok1 || !ok2 {
		x.cfail(env, "mfwd/minv: %v has no fwd/inv", in)
	}
	a := x.ceval(env, e.Args[1], "")
	b := x.ceval(env, e.Args[2], "")
	x.d.instantiate("MorphFold", map[string]string{"L": l.Sort, "S": f.args[0], "T": f.args[1], "FWD": f.fname, "INV": g.fname})
	if fwd {
		return tApp(f.ret, "mfwd_"+f.fname, l, a, b)
	}
	return tApp(g.ret, "minv_"+g.fname, l, a, b)
}

func (x *Exec) cPred(env *CEnv, e CCall, name string) Term {
	f := x.ceval(env, e.Args[0], "")
	l := x.ceval(env, e.Args[1], "")
	fi := x.d.sorts[f.Sort]
	li := x.listKind(env, l, name)
	if fi != nil && fi.Kind == "fn" && len(fi.Args) == 2 && len(fi.Rets) == 1 && fi.Rets[0] == "Bool" && li.Kind == "list" {
		pi := x.d.sorts[li.Elem]
		if pi == nil || pi.Kind != "pair" || pi.Args[0] != fi.Args[0] || pi.Args[1] != fi.Args[1] {
			x.cfail(env, "%s: two-argument predicate %s over list of %s", name, f.Sort, li.Elem)
		}
		x.d.instantiate("ListPred2", map[string]string{"F": f.Sort, "L": l.Sort, "P": li.Elem})
		return tApp(l.Sort, name+"_"+l.Sort+"_"+f.Sort, f, l)
	}
	if fi == nil || fi.Kind != "fn" || len(fi.Args) != 1 || len(fi.Rets) != 1 || fi.Rets[0] != "Bool" || fi.Args[0] != li.Elem || li.Kind != "list" {
		x.cfail(env, "%s(%s:%s, %s:%s): need a predicate over the list's elements", name, f.S, f.Sort, l.S, l.Sort)
	}
	x.d.instantiate("ListPred", map[string]string{"F": f.Sort, "L": l.Sort})
	return tApp(l.Sort, name+"_"+l.Sort+"_"+f.Sort, f, l)
}

// flatSorts: for f : func(A...) Iterator[B], the sorts List[A-or-pair] and List[B-or-pair].
func (x *Exec) flatSorts(env *CEnv, f Term) (string, string) {
	fi := x.d.sorts[f.Sort]
	if fi == nil || fi.Kind != "fn" || f.Ty == nil {
		x.cfail(env, "flatmap/rhsview: %s (sort %s, type %v) is not a function returning an iterator", f.S, f.Sort, f.Ty)
	}
	sig, ok := types.Unalias(f.Ty).Underlying().(*types.Signature)
	if !ok || sig.Results().Len() != 1 {
		x.cfail(env, "flatmap/rhsview: %v", f.Ty)
	}
	rn := namedOf(sig.Results().At(0).Type())
	if rn == nil || rn.TypeArgs() == nil {
		x.cfail(env, "flatmap/rhsview: result type %v", sig.Results().At(0).Type())
	}
	var eb string
	switch rn.TypeArgs().Len() {
	case 1:
		eb = x.sortOf(rn.TypeArgs().At(0))
	case 2:
		eb = x.d.PairOf(x.sortOf(rn.TypeArgs().At(0)), x.sortOf(rn.TypeArgs().At(1)))
	default:
		x.cfail(env, "flatmap/rhsview: iterator type %v", rn)
	}
	var ea string
	switch len(fi.Args) {
	case 1:
		ea = fi.Args[0]
	case 2:
		ea = x.d.PairOf(fi.Args[0], fi.Args[1])
	default:
		x.cfail(env, "flatmap/rhsview: function arity %d", len(fi.Args))
	}
	la, lb := x.d.ListOf(ea), x.d.ListOf(eb)
	if len(fi.Args) == 1 {
		x.d.instantiate("FlatMap", map[string]string{"F": f.Sort, "A": ea, "LA": la, "LB": lb})
	} else {
		x.d.instantiate("FlatMap2", map[string]string{"F": f.Sort, "A": fi.Args[0], "B": fi.Args[1], "PA": ea, "LA": la, "LB": lb})
	}
	return la, lb
}

func (x *Exec) cErr(env *CEnv, e CCall, name string) Term {
	f := x.ceval(env, e.Args[0], "")
	fi := x.d.sorts[f.Sort]
	if fi == nil || fi.Kind != "fn" || len(fi.Rets) != 1 || fi.Rets[0] != "Err" {
		x.cfail(env, "%s: %s is not a function returning error", name, f.S)
	}
	ev := x.d.Uninterp("CallEv")
	tev := x.d.TrOf(ev)
	evf := "ev_" + sanitize(f.Sort)
	var l, acc Term
	if name == "evl" {
		acc = x.ceval(env, e.Args[1], tev)
		l = x.ceval(env, e.Args[2], "")
	} else {
		l = x.ceval(env, e.Args[1], "")
	}
	li := x.listKind(env, l, name)
	tmpl := "ListErr"
	if len(fi.Args) == 2 {
		tmpl = "ListErr2"
		x.d.fun(evf, []string{f.Sort, fi.Args[0], fi.Args[1]}, ev)
	} else {
		if len(fi.Args) != 1 || fi.Args[0] != li.Elem {
			x.cfail(env, "%s: function over %v, list of %s", name, fi.Args, li.Elem)
		}
		x.d.fun(evf, []string{f.Sort, li.Elem}, ev)
	}
	x.errSort()
	x.d.instantiate(tmpl, map[string]string{"F": f.Sort, "L": l.Sort, "TEV": tev, "EV": evf, "P": li.Elem})
	switch name {
	case "untilerr":
		return tApp(l.Sort, "untilerr_"+l.Sort+"_"+f.Sort, f, l)
	case "firsterr":
		return tApp("Err", "firsterr_"+l.Sort+"_"+f.Sort, f, l)
	}
	return tApp(tev, "evl_"+l.Sort+"_"+f.Sort, f, acc, l)
}

func (x *Exec) cApp(env *CEnv, e CCall, k int) Term {
	f := x.ceval(env, e.Args[0], "")
	si := x.d.sorts[f.Sort]
	if si == nil || si.Kind != "fn" {
		x.cfail(env, "app: %s has sort %s, not a function value", f.S, f.Sort)
	}
	if len(e.Args)-1 != len(si.Args) {
		x.cfail(env, "app: %s takes %d arguments", f.S, len(si.Args))
	}
	if k >= len(si.Rets) {
		x.cfail(env, "app%d: %s has %d results", k, f.S, len(si.Rets))
	}
	args := []Term{f}
	for i, a := range e.Args[1:] {
		t := x.ceval(env, a, si.Args[i])
		if t.Sort != si.Args[i] {
			x.cfail(env, "app: argument %d of %s has sort %s, expected %s", i, f.S, t.Sort, si.Args[i])
		}
		args = append(args, t)
	}
	return tApp(si.Rets[k], fmt.Sprintf("app%d_%s", k, f.Sort), args...)
}
