package main

import (
	"bytes"
	"context"
	"encoding/json"
	"fmt"
	"os"
	"os/exec"
	"path/filepath"
	"regexp"
	"strings"
	"time"
)

func contextBackground() context.Context { return context.Background() }

// Probes: directed tests on the real code, run when an obligation is not discharged, to
// turn "the proof no longer goes through" into "here is a failing input" where possible.
// A probe file /verif/probes/<id>/<name>_test.go starts with a header line
//
//	// probe: dir=<dir below the repo root> run=<regexp> [obligations=<regexp>] [stage=internal]
//
// and is injected into the real package with `go test -overlay` (nothing is written under
// the repository).
type probeSpec struct {
	file  string
	dir   string
	run   string
	obRe  *regexp.Regexp
	stage string
}

func loadProbes(id string) []probeSpec {
	files, _ := filepath.Glob(filepath.Join(verifRoot, "probes", id, "*_test.go"))
	var out []probeSpec
	for _, f := range files {
		b, err := os.ReadFile(f)
		if err != nil {
			continue
		}
		first := strings.SplitN(string(b), "\n", 2)[0]
		if !strings.HasPrefix(first, "// probe:") {
			continue
		}
		p := probeSpec{file: f}
		for _, kv := range strings.Fields(strings.TrimPrefix(first, "// probe:")) {
			k, v, _ := strings.Cut(kv, "=")
			switch k {
			case "dir":
				p.dir = v
			case "run":
				p.run = v
			case "obligations":
				p.obRe, _ = regexp.Compile(v)
			case "stage":
				p.stage = v
			}
		}
		out = append(out, p)
	}
	return out
}

var probeCache = map[string]struct {
	out    string
	failed bool
}{}

// runProbes runs the probes relevant to a failed obligation. It returns their output and
// whether one of them failed on the real code (a failing input was found).
func runProbes(id string, ob *Oblig, o checkOpts) (string, bool) {
	var outs []string
	anyFailed := false
	for _, p := range loadProbes(id) {
		if p.obRe != nil && !p.obRe.MatchString(ob.Name) {
			continue
		}
		c, ok := probeCache[p.file]
		if !ok {
			c.out, c.failed = runProbe(p, o.repo)
			probeCache[p.file] = c
		}
		if c.failed {
			anyFailed = true
			outs = append(outs, fmt.Sprintf("PROBE FAILED on the real code: %s\n%s", p.file, c.out))
		} else if strings.Contains(c.out, "[build failed]") || strings.Contains(c.out, "[setup failed]") {
			outs = append(outs, fmt.Sprintf("probe could not be built against this tree: %s\n%s", p.file, firstN(c.out, 800)))
		} else {
			outs = append(outs, fmt.Sprintf("probe passed: %s", p.file))
		}
	}
	return strings.Join(outs, "\n"), anyFailed
}

func runProbe(p probeSpec, repo string) (string, bool) {
	scratch, err := os.MkdirTemp("", "govc-probe-")
	if err != nil {
		return err.Error(), false
	}
	defer os.RemoveAll(scratch)
	env := append(os.Environ(), "GOFLAGS=-mod=mod", "GOPROXY=off")
	var cmd *exec.Cmd
	ctx, cancel := context.WithTimeout(context.Background(), 300*time.Second)
	defer cancel()
	if p.stage == "internal" {
		// internal/* lives outside every module: stage it under its declared import path
		root := filepath.Join(scratch, "golem")
		os.MkdirAll(root, 0o755)
		os.WriteFile(filepath.Join(root, "go.mod"), []byte("module github.com/fogfish/golem\n\ngo 1.22\n"), 0o644)
		for _, m := range [][2]string{{"internal/seq", "seq"}, {"internal/maplike", "maplike"}, {"internal/pipe", "internalpipe"}, {"pure", "pure"}} {
			copyTree(filepath.Join(repo, m[0]), filepath.Join(root, m[1]))
		}
		os.Remove(filepath.Join(root, "pure", "go.mod"))
		os.Remove(filepath.Join(root, "pure", "go.sum"))
		sub := strings.TrimPrefix(p.dir, "internal/")
		if p.dir == "internal/pipe" {
			sub = "internalpipe"
		}
		b, _ := os.ReadFile(p.file)
		os.WriteFile(filepath.Join(root, sub, "zz_probe_test.go"), b, 0o644)
		cmd = exec.CommandContext(ctx, "go", "test", "-vet=off", "-count=1", "-timeout", "240s", "-run", p.run, ".")
		cmd.Dir = filepath.Join(root, sub)
	} else {
		ov := map[string]map[string]string{"Replace": {filepath.Join(repo, p.dir, "zz_probe_test.go"): p.file}}
		b, _ := json.Marshal(ov)
		ovf := filepath.Join(scratch, "overlay.json")
		os.WriteFile(ovf, b, 0o644)
		cmd = exec.CommandContext(ctx, "go", "test", "-overlay", ovf, "-vet=off", "-count=1", "-timeout", "240s", "-run", p.run, ".")
		cmd.Dir = filepath.Join(repo, p.dir)
	}
	cmd.Env = env
	var out bytes.Buffer
	cmd.Stdout = &out
	cmd.Stderr = &out
	err = cmd.Run()
	text := out.String()
	if len(text) > 6000 {
		text = text[:6000] + "\n...[truncated]"
	}
	if err != nil && strings.Contains(text, "FAIL") && !strings.Contains(text, "[build failed]") && !strings.Contains(text, "[setup failed]") {
		return text, true
	}
	return text, false
}

func copyTree(src, dst string) {
	filepath.Walk(src, func(path string, info os.FileInfo, err error) error {
		if err != nil {
			return nil
		}
		rel, _ := filepath.Rel(src, path)
		if info.IsDir() {
			os.MkdirAll(filepath.Join(dst, rel), 0o755)
			return nil
		}
		if strings.HasSuffix(path, "_test.go") {
			return nil
		}
		b, err := os.ReadFile(path)
		if err == nil {
			os.WriteFile(filepath.Join(dst, rel), b, 0o644)
		}
		return nil
	})
}
