package main

import (
	"fmt"
	"strconv"
	"strings"
	"unicode"
)

// Contract expression language (DESIGN appendix B): Go expression syntax extended with
// ==>, <==>, ++ (list append), forall/exists, old(e), result, list literals.

type CExpr interface{}

type (
	CIdent struct{ Name string }
	CInt   struct{ V int64 }
	CStr   struct{ V string }
	CBin   struct {
		Op   string
		L, R CExpr
	}
	CUn struct {
		Op string
		X  CExpr
	}
	CCall struct {
		Fn   string
		Args []CExpr
	}
	CField struct {
		X    CExpr
		Name string
	}
	CIndex struct{ X, I CExpr }
	CMeth  struct {
		X    CExpr
		Name string
		Args []CExpr
	}
	CQuant struct {
		Forall bool
		Vars   []CVar
		Body   CExpr
	}
	CList struct{ Elems []CExpr }
	CVar  struct{ Name, Sort string }
)

type ctok struct {
	kind string // id, int, str, op, eof
	s    string
}

func clex(src string) ([]ctok, error) {
	var toks []ctok
	i := 0
	rs := []rune(src)
	for i < len(rs) {
		c := rs[i]
		switch {
		case unicode.IsSpace(c):
			i++
		case unicode.IsLetter(c) || c == '_' || c == '#' || c == '$':
			j := i + 1
			for j < len(rs) && (unicode.IsLetter(rs[j]) || unicode.IsDigit(rs[j]) || rs[j] == '_' || rs[j] == '#' || rs[j] == '\'') {
				j++
			}
			toks = append(toks, ctok{"id", string(rs[i:j])})
			i = j
		case unicode.IsDigit(c):
			j := i + 1
			for j < len(rs) && unicode.IsDigit(rs[j]) {
				j++
			}
			toks = append(toks, ctok{"int", string(rs[i:j])})
			i = j
		case c == '"':
			j := i + 1
			for j < len(rs) && rs[j] != '"' {
				j++
			}
			if j >= len(rs) {
				return nil, fmt.Errorf("unterminated string")
			}
			toks = append(toks, ctok{"str", string(rs[i+1 : j])})
			i = j + 1
		default:
			ops := []string{"<==>", "==>", "::", "==", "!=", "<=", ">=", "&&", "||", "++", "<", ">", "+", "-", "*", "/", "%", "!", "(", ")", "[", "]", ",", ".", ":"}
			matched := false
			rest := string(rs[i:])
			for _, op := range ops {
				if strings.HasPrefix(rest, op) {
					toks = append(toks, ctok{"op", op})
					i += len([]rune(op))
					matched = true
					break
				}
			}
			if !matched {
				return nil, fmt.Errorf("unexpected character %q", c)
			}
		}
	}
	toks = append(toks, ctok{"eof", ""})
	return toks, nil
}

type cparser struct {
	toks []ctok
	pos  int
}

func ParseCExpr(src string) (e CExpr, err error) {
	toks, err := clex(src)
	if err != nil {
		return nil, err
	}
	p := &cparser{toks: toks}
	defer func() {
		if r := recover(); r != nil {
			if s, ok := r.(cperr); ok {
				err = fmt.Errorf("%s in %q", string(s), src)
				return
			}
			panic(r)
		}
	}()
	e = p.expr(0)
	if p.peek().kind != "eof" {
		p.fail("unexpected %q", p.peek().s)
	}
	return e, nil
}

type cperr string

func (p *cparser) fail(f string, a ...any) { panic(cperr(fmt.Sprintf(f, a...))) }
func (p *cparser) peek() ctok              { return p.toks[p.pos] }
func (p *cparser) next() ctok              { t := p.toks[p.pos]; p.pos++; return t }
func (p *cparser) isOp(s string) bool      { t := p.peek(); return t.kind == "op" && t.s == s }
func (p *cparser) expect(s string) {
	if !p.isOp(s) {
		p.fail("expected %q, found %q", s, p.peek().s)
	}
	p.pos++
}

var cprec = map[string]int{
	"<==>": 1, "==>": 2, "||": 3, "&&": 4,
	"==": 5, "!=": 5, "<": 5, "<=": 5, ">": 5, ">=": 5,
	"+": 6, "-": 6, "++": 6, "*": 7, "/": 7, "%": 7,
}

func (p *cparser) expr(min int) CExpr {
	lhs := p.unary()
	for {
		t := p.peek()
		if t.kind != "op" {
			return lhs
		}
		pr, ok := cprec[t.s]
		if !ok || pr < min {
			return lhs
		}
		p.pos++
		var rhs CExpr
		if t.s == "==>" { // right associative
			rhs = p.expr(pr)
		} else {
			rhs = p.expr(pr + 1)
		}
		lhs = CBin{t.s, lhs, rhs}
	}
}

func (p *cparser) unary() CExpr {
	if p.isOp("!") {
		p.pos++
		return CUn{"!", p.unary()}
	}
	if p.isOp("-") {
		p.pos++
		return CUn{"-", p.unary()}
	}
	return p.postfix(p.primary())
}

func (p *cparser) postfix(e CExpr) CExpr {
	for {
		switch {
		case p.isOp("."):
			p.pos++
			t := p.next()
			if t.kind != "id" {
				p.fail("expected field name")
			}
			if p.isOp("(") {
				p.pos++
				var args []CExpr
				if !p.isOp(")") {
					for {
						args = append(args, p.expr(0))
						if p.isOp(",") {
							p.pos++
							continue
						}
						break
					}
				}
				p.expect(")")
				e = CMeth{e, t.s, args}
			} else {
				e = CField{e, t.s}
			}
		case p.isOp("["):
			p.pos++
			i := p.expr(0)
			p.expect("]")
			e = CIndex{e, i}
		default:
			return e
		}
	}
}

func (p *cparser) sort() string {
	if p.isOp("*") { // pointer to a struct type of the package: a typed reference
		p.pos++
		return "*" + p.sort()
	}
	t := p.next()
	if t.kind != "id" {
		p.fail("expected sort name, found %q", t.s)
	}
	s := t.s
	if p.isOp("[") {
		p.pos++
		var args []string
		for {
			args = append(args, p.sort())
			if p.isOp(",") {
				p.pos++
				continue
			}
			break
		}
		p.expect("]")
		s += "[" + strings.Join(args, ",") + "]"
	}
	return s
}

func (p *cparser) primary() CExpr {
	t := p.next()
	switch t.kind {
	case "int":
		v, _ := strconv.ParseInt(t.s, 10, 64)
		return CInt{v}
	case "str":
		return CStr{t.s}
	case "id":
		if t.s == "forall" || t.s == "exists" {
			var vars []CVar
			for {
				n := p.next()
				if n.kind != "id" {
					p.fail("expected bound variable")
				}
				vars = append(vars, CVar{n.s, p.sort()})
				if p.isOp(",") {
					p.pos++
					continue
				}
				break
			}
			p.expect("::")
			body := p.expr(0)
			return CQuant{t.s == "forall", vars, body}
		}
		if p.isOp("(") {
			p.pos++
			var args []CExpr
			if !p.isOp(")") {
				for {
					args = append(args, p.expr(0))
					if p.isOp(",") {
						p.pos++
						continue
					}
					break
				}
			}
			p.expect(")")
			return CCall{t.s, args}
		}
		return CIdent{t.s}
	case "op":
		switch t.s {
		case "(":
			e := p.expr(0)
			p.expect(")")
			return e
		case "[":
			var el []CExpr
			if !p.isOp("]") {
				for {
					el = append(el, p.expr(0))
					if p.isOp(",") {
						p.pos++
						continue
					}
					break
				}
			}
			p.expect("]")
			return CList{el}
		}
	}
	p.fail("unexpected %q", t.s)
	return nil
}
